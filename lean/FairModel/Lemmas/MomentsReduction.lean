/-
Lemmas for C07: the exchange of the two finite sums behind the reduction identity (for an arbitrary
list of constraint keys), the loss-moment identity, the weighted-0/1-error identity and the pair
structure used by `project_lambda`.
-/
import FairModel.Lemmas.Moments
import FairModel.Lemmas.MomentsRates

namespace Moments

def vadd (a b : List Rat) : List Rat := List.zipWith (· + ·) a b

theorem dot_sub_right (w a b : List Rat) (ha : a.length = w.length) (hb : b.length = w.length) :
    dot w a - dot w b = dot w (vsub a b) := by
  induction w generalizing a b with
  | nil => simp
  | cons x xs ih =>
    cases a with
    | nil => simp at ha
    | cons p ps =>
      cases b with
      | nil => simp at hb
      | cons q qs =>
        simp only [List.length_cons, Nat.add_right_cancel_iff] at ha hb
        have := ih ps qs ha hb
        simp only [vsub, List.zipWith_cons_cons, dot_cons] at this ⊢
        linarith

theorem dot_vadd_left (a b d : List Rat) (hab : a.length = b.length) :
    dot (vadd a b) d = dot a d + dot b d := by
  induction a generalizing b d with
  | nil => cases b with
    | nil => simp [vadd]
    | cons y ys => simp at hab
  | cons x xs ih =>
    cases b with
    | nil => simp at hab
    | cons y ys =>
      simp only [List.length_cons, Nat.add_right_cancel_iff] at hab
      cases d with
      | nil => simp
      | cons z zs =>
        have := ih ys zs hab
        simp only [vadd, List.zipWith_cons_cons, dot_cons] at this ⊢
        linarith

/-! ### reduction identity for an arbitrary list of keys -/

/-- one constraint: the change of its gamma entry is the `ud·U`-weighted change of the predictions -/
theorem gammaAt_sub (ev : Ev) (rows : List Row) (ratio : Rat) (ut : Util) (h h' : List Rat) (k : Key)
    (hl : h.length = rows.length) (hl' : h'.length = rows.length) :
    gammaAt ev rows ratio ut h k - gammaAt ev rows ratio ut h' k
      = -(1 / (rows.length : Rat)) *
          dot (rows.map (fun r => ut.ud r * uEntry ev rows ratio r k)) (vsub h h') := by
  unfold gammaAt MomentsSrc.gammaOf predOf uCol
  simp only [MomentsSrc.predOf]
  rw [← dot_affine_sub (fun r => uEntry ev rows ratio r k) ut.ud ut.u0 rows h h' hl hl']
  ring

/-- the multiplier-weighted sum over any key list `K` -/
theorem reduction_keys (ev : Ev) (rows : List Row) (ratio : Rat) (ut : Util) (K : List Key)
    (lam h h' : List Rat) (hl : h.length = rows.length) (hl' : h'.length = rows.length) :
    dot lam (K.map (gammaAt ev rows ratio ut h)) - dot lam (K.map (gammaAt ev rows ratio ut h'))
      = -(1 / (rows.length : Rat)) *
          dot (rows.map (fun r => MomentsSrc.swOf (ut.ud r) (dot (K.map (uEntry ev rows ratio r)) lam)))
            (vsub h h') := by
  induction K generalizing lam with
  | nil => simp only [List.map_nil, dot_nil_right, dot_nil_left, MomentsSrc.swOf, mul_zero, dot_map_zero, sub_self]
  | cons k K ih =>
    cases lam with
    | nil => simp only [dot_nil_right, dot_nil_left, MomentsSrc.swOf, mul_zero, dot_map_zero, sub_self]
    | cons l ls =>
      have e1 := gammaAt_sub ev rows ratio ut h h' k hl hl'
      have e2 := ih ls
      simp only [List.map_cons, dot_cons]
      have split : (fun r : Row => MomentsSrc.swOf (ut.ud r)
            (uEntry ev rows ratio r k * l + dot (K.map (uEntry ev rows ratio r)) ls))
          = (fun r : Row => l * (ut.ud r * uEntry ev rows ratio r k)
              + MomentsSrc.swOf (ut.ud r) (dot (K.map (uEntry ev rows ratio r)) ls)) := by
        funext r; simp only [MomentsSrc.swOf]; ring
      rw [split, dot_map_add, dot_map_smul]
      have e3 : l * gammaAt ev rows ratio ut h k + dot ls (K.map (gammaAt ev rows ratio ut h))
          - (l * gammaAt ev rows ratio ut h' k + dot ls (K.map (gammaAt ev rows ratio ut h')))
          = l * (gammaAt ev rows ratio ut h k - gammaAt ev rows ratio ut h' k)
            + (dot ls (K.map (gammaAt ev rows ratio ut h)) - dot ls (K.map (gammaAt ev rows ratio ut h'))) := by ring
      rw [e3, e1, e2]; ring

/-! ### loss moments -/

theorem lookup_cons (k : String) (K : List String) (l : Rat) (ls : List Rat) (g : String) :
    lookup (k :: K) (l :: ls) g = ind (k == g) * l + lookup K ls g := by
  simp [lookup]

theorem lookup_nil_right (K : List String) (g : String) : lookup K [] g = 0 := by simp [lookup]
theorem lookup_nil_left (ls : List Rat) (g : String) : lookup [] ls g = 0 := by simp [lookup]

/-- group-mean loss against multipliers = `λ_g / P(g)`-weighted mean loss, for any list of group keys -/
theorem loss_keys (rows : List LRow) (K : List String) (lam v : List Rat) (hne : rows ≠ []) :
    dot lam (K.map (fun g => dot (rows.map (fun r => ind (r.g == g))) v / (countG rows g : Rat)))
      = (1 / (rows.length : Rat)) *
          dot (rows.map (fun r => MomentsSrc.bglAdjust (lookup K lam r.g) (probG rows r.g))) v := by
  have hn : (rows.length : Rat) ≠ 0 := by
    have := List.length_pos_of_ne_nil hne
    exact_mod_cast this.ne'
  induction K generalizing lam with
  | nil => simp only [List.map_nil, dot_nil_right, lookup_nil_left, MomentsSrc.bglAdjust, zero_div, dot_map_zero, mul_zero]
  | cons k K ih =>
    cases lam with
    | nil => simp only [dot_nil_left, lookup_nil_right, MomentsSrc.bglAdjust, zero_div, dot_map_zero, mul_zero]
    | cons l ls =>
      simp only [List.map_cons, dot_cons, ih ls]
      have split : (fun r : LRow => MomentsSrc.bglAdjust (lookup (k :: K) (l :: ls) r.g) (probG rows r.g))
          = (fun r : LRow => ((rows.length : Rat) * (l / (countG rows k : Rat))) * ind (r.g == k)
              + MomentsSrc.bglAdjust (lookup K ls r.g) (probG rows r.g)) := by
        funext r
        simp only [MomentsSrc.bglAdjust, lookup_cons, probG]
        by_cases hk : k = r.g
        · subst hk; simp only [beq_self_eq_true, ind, if_true]; field_simp
        · have h1 : (k == r.g) = false := by simp [hk]
          have h2 : (r.g == k) = false := by simp [Ne.symm hk]
          simp only [h1, h2, ind, Bool.false_eq_true, if_false]; ring
      rw [split, dot_map_add, dot_map_smul]
      field_simp

/-! ### the objective -/

theorem errNum_sub (fp fn : Rat) (ys h h' : List Rat) (hl : h.length = ys.length) (hl' : h'.length = ys.length) :
    (List.zipWith (fun y p => fn * y * (1 - p) + fp * (1 - y) * p) ys h).sum
      - (List.zipWith (fun y p => fn * y * (1 - p) + fp * (1 - y) * p) ys h').sum
    = - dot (ys.map (MomentsSrc.objWeight fp fn)) (vsub h h') := by
  induction ys generalizing h h' with
  | nil => simp
  | cons y ys ih =>
    cases h with
    | nil => simp at hl
    | cons p ps =>
      cases h' with
      | nil => simp at hl'
      | cons q qs =>
        simp only [List.length_cons, Nat.add_right_cancel_iff] at hl hl'
        have := ih ps qs hl hl'
        simp only [List.zipWith_cons_cons, List.sum_cons, List.map_cons, vsub, dot_cons, MomentsSrc.objWeight] at this ⊢
        linarith

/-! ### weighted 0/1 error -/

theorem weighted01_relabel (w h : List Rat) (hl : h.length = w.length) (hh : Hard h) :
    weighted01 (relabel w) (absWeights w) h = posPart w - dot w h := by
  induction w generalizing h with
  | nil => simp [weighted01, relabel, absWeights, posPart]
  | cons x xs ih =>
    cases h with
    | nil => simp at hl
    | cons p ps =>
      simp only [List.length_cons, Nat.add_right_cancel_iff] at hl
      have := ih ps hl (fun y hy => hh y (by simp [hy]))
      simp only [weighted01, relabel, absWeights, posPart, List.map_cons, List.zip_cons_cons,
        List.zipWith_cons_cons, List.sum_cons, dot_cons, absR_eq] at this ⊢
      rw [this]
      by_cases hx : 0 < x
      · rcases hh p (by simp) with rfl | rfl <;> simp [hx, ind, abs_of_pos hx] <;> ring
      · have hx' : x ≤ 0 := not_lt.mp hx
        rcases hh p (by simp) with rfl | rfl <;> simp [hx, ind, abs_of_nonpos hx'] <;> ring

theorem weighted01_scale (c : Rat) (z wt h : List Rat) :
    weighted01 z (wt.map (fun a => c * a)) h = c * weighted01 z wt h := by
  unfold weighted01
  induction z generalizing wt h with
  | nil => simp
  | cons a as ih =>
    cases wt with
    | nil => simp
    | cons b bs =>
      cases h with
      | nil => simp
      | cons p ps =>
        have := ih bs ps
        simp only [List.map_cons, List.zip_cons_cons, List.zipWith_cons_cons, List.sum_cons] at this ⊢
        rw [this]; split <;> ring

/-! ### the pair structure of `gamma` and `bound` -/

theorem gamma_split (ev : Ev) (rows : List Row) (ratio : Rat) (ut : Util) (h : List Rat) :
    gamma ev rows ratio ut h
      = (observedPairs ev rows).map (fun p => gammaAt ev rows ratio ut h ⟨.plus, p.1, p.2⟩)
        ++ (observedPairs ev rows).map (fun p => gammaAt ev rows ratio ut h ⟨.minus, p.1, p.2⟩) := by
  simp [gamma, index, List.map_append, List.map_map, Function.comp_def]

theorem bound_split (ev : Ev) (rows : List Row) (eps : Rat) :
    bound ev rows eps = (observedPairs ev rows).map (fun _ => eps) ++ (observedPairs ev rows).map (fun _ => eps) := by
  unfold bound index
  rw [List.map_append, List.map_map, List.map_map]; rfl

theorem gammaAt_minus_ratio_one (ev : Ev) (rows : List Row) (ut : Util) (h : List Rat) (e g : String) :
    gammaAt ev rows 1 ut h ⟨.minus, e, g⟩ = - gammaAt ev rows 1 ut h ⟨.plus, e, g⟩ := by
  unfold gammaAt uCol MomentsSrc.gammaOf
  have : (fun r => uEntry ev rows 1 r ⟨.minus, e, g⟩) = (fun r => (-1 : Rat) * uEntry ev rows 1 r ⟨.plus, e, g⟩) := by
    funext r; rw [uEntry_minus_ratio_one]; ring
  rw [this, dot_map_smul]; ring

theorem vsub_map_map {α} (A : List α) (f g : α → Rat) : vsub (A.map f) (A.map g) = A.map (fun a => f a - g a) := by
  induction A with
  | nil => simp [vsub]
  | cons a as ih => simp only [vsub, List.map_cons, List.zipWith_cons_cons] at ih ⊢; rw [ih]

theorem vsub_append (a b c d : List Rat) (h : a.length = c.length) :
    vsub (a ++ b) (c ++ d) = vsub a c ++ vsub b d := by
  unfold vsub
  exact List.zipWith_append h

end Moments
