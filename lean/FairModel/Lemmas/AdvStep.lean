import FairModel.Lemmas.Adversarial
import FairModel.Model.AdvStep

namespace AdvStep
open Adversarial

/-- `optimizer.step()` of plain SGD: every tensor `W ← W − lr·grad` -/
theorem applyOpt_sgd (lr : Rat) (Ws : List Mat) (ss : List Unit) (gs : List Mat) (h : ss.length = Ws.length) :
    (applyOpt (sgd lr) Ws ss gs).1 = List.zipWith (fun W g => msub W (msmul lr g)) Ws gs := by
  induction Ws generalizing ss gs with
  | nil => cases ss <;> cases gs <;> simp [applyOpt]
  | cons W Ws ih =>
    cases ss with
    | nil => simp at h
    | cons s ss =>
      cases gs with
      | nil => simp [applyOpt]
      | cons g gs =>
        simp only [applyOpt, List.zipWith_cons_cons, sgd]
        rw [ih ss gs (by simpa using h)]

theorem applyOpt_length {τ : Type} (opt : Opt τ) (Ws : List Mat) (ss : List τ) (gs : List Mat)
    (h1 : ss.length = Ws.length) (h2 : gs.length = Ws.length) :
    (applyOpt opt Ws ss gs).1.length = Ws.length ∧ (applyOpt opt Ws ss gs).2.length = Ws.length := by
  induction Ws generalizing ss gs with
  | nil => cases ss <;> cases gs <;> simp [applyOpt]
  | cons W Ws ih =>
    cases ss with
    | nil => simp at h1
    | cons s ss =>
      cases gs with
      | nil => simp at h2
      | cons g gs =>
        have := ih ss gs (by simpa using h1) (by simpa using h2)
        simp [applyOpt, this.1, this.2]

/-- the loop over the predictor's tensors hands the optimiser, tensor by tensor, what the engine's rule computes -/
theorem combineAll_spec (eng : Mat → Mat → Rat → Option Mat) (α : Rat) (as bs gs : List Mat)
    (h : combineAll eng α as bs = some gs) :
    as.length = bs.length ∧ List.Forall₂ (fun ab g => eng ab.1 ab.2 α = some g) (as.zip bs) gs := by
  induction as generalizing bs gs with
  | nil =>
    cases bs with
    | nil => simp [combineAll] at h; subst h; simp
    | cons b bs => simp [combineAll] at h
  | cons a as ih =>
    cases bs with
    | nil => simp [combineAll] at h
    | cons b bs =>
      simp only [combineAll] at h
      cases he : eng a b α with
      | none => simp [he] at h
      | some g =>
        cases hr : combineAll eng α as bs with
        | none => simp [he, hr] at h
        | some r =>
          simp [he, hr] at h
          subst h
          have := ih bs r hr
          exact ⟨by simp [this.1], by simpa using ⟨he, this.2⟩⟩

/-- a total engine never produces the NaN model -/
theorem combineAll_total (eng : Mat → Mat → Rat → Option Mat) (α : Rat) (htot : ∀ A B, (eng A B α).isSome = true)
    (as bs : List Mat) (h : as.length = bs.length) : ∃ gs, combineAll eng α as bs = some gs ∧ gs.length = as.length := by
  induction as generalizing bs with
  | nil =>
    cases bs with
    | nil => exact ⟨[], rfl, rfl⟩
    | cons b bs => simp at h
  | cons a as ih =>
    cases bs with
    | nil => simp at h
    | cons b bs =>
      obtain ⟨r, hr, hl⟩ := ih bs (by simpa using h)
      obtain ⟨g, hg⟩ := Option.isSome_iff_exists.mp (htot a b)
      exact ⟨g :: r, by simp [combineAll, hg, hr], by simp [hl]⟩

/-- the NaN model stays NaN -/
theorem foldl_trainStep_none {τP τA : Type} (eng : Mat → Mat → Rat → Option Mat) (α : Rat) (optP : Opt τP)
    (optA : Opt τA) (G : List Mat → List Mat → Nat → Nat → Grads) (L : List Schedule.Step) :
    Schedule.partialFitSeq (trainStep eng α optP optA G) none L = none := by
  unfold Schedule.partialFitSeq
  induction L with
  | nil => rfl
  | cons s L ih => simpa [trainStep] using ih

end AdvStep
