import FairModel.Lemmas.Adversarial
import FairModel.Model.AdvStep

namespace AdvStep
open Adversarial

/-- `optimizer.step()` of plain SGD: every tensor `W ← W − lr·grad` -/
theorem applyOpt_sgd (lr : Rat) (Ws : List Mat) (ss : List Unit) (gs : List Mat) (h : ss.length = Ws.length) :
    (applyOpt (sgd lr) Ws ss gs).1 = List.zipWith (fun W g => msub W (msmul lr g)) Ws gs := by
  induction Ws generalizing ss gs with
  | nil => cases ss <;> cases gs <;> simp [applyOpt]
  | cons W Ws ih =>
    cases ss with
    | nil => simp at h
    | cons s ss =>
      cases gs with
      | nil => simp [applyOpt]
      | cons g gs =>
        simp only [applyOpt, List.zipWith_cons_cons, sgd]
        rw [ih ss gs (by simpa using h)]

theorem applyOpt_length {τ : Type} (opt : Opt τ) (Ws : List Mat) (ss : List τ) (gs : List Mat)
    (h1 : ss.length = Ws.length) (h2 : gs.length = Ws.length) :
    (applyOpt opt Ws ss gs).1.length = Ws.length ∧ (applyOpt opt Ws ss gs).2.length = Ws.length := by
  induction Ws generalizing ss gs with
  | nil => cases ss <;> cases gs <;> simp [applyOpt]
  | cons W Ws ih =>
    cases ss with
    | nil => simp at h1
    | cons s ss =>
      cases gs with
      | nil => simp at h2
      | cons g gs =>
        have := ih ss gs (by simpa using h1) (by simpa using h2)
        simp [applyOpt, this.1, this.2]

/-- the loop over the predictor's tensors hands the optimiser, tensor by tensor, what the engine's rule computes -/
theorem combineAll_spec (eng : Mat → Mat → Rat → Option Mat) (α : Rat) (as bs gs : List Mat)
    (h : combineAll eng α as bs = some gs) :
    as.length = bs.length ∧ List.Forall₂ (fun ab g => eng ab.1 ab.2 α = some g) (as.zip bs) gs := by
  induction as generalizing bs gs with
  | nil =>
    cases bs with
    | nil => simp [combineAll] at h; subst h; simp
    | cons b bs => simp [combineAll] at h
  | cons a as ih =>
    cases bs with
    | nil => simp [combineAll] at h
    | cons b bs =>
      simp only [combineAll] at h
      cases he : eng a b α with
      | none => simp [he] at h
      | some g =>
        cases hr : combineAll eng α as bs with
        | none => simp [he, hr] at h
        | some r =>
          simp [he, hr] at h
          subst h
          have := ih bs r hr
          exact ⟨by simp [this.1], by simpa using ⟨he, this.2⟩⟩

/-- a total engine never produces the NaN model -/
theorem combineAll_total (eng : Mat → Mat → Rat → Option Mat) (α : Rat) (htot : ∀ A B, (eng A B α).isSome = true)
    (as bs : List Mat) (h : as.length = bs.length) : ∃ gs, combineAll eng α as bs = some gs ∧ gs.length = as.length := by
  induction as generalizing bs with
  | nil =>
    cases bs with
    | nil => exact ⟨[], rfl, rfl⟩
    | cons b bs => simp at h
  | cons a as ih =>
    cases bs with
    | nil => simp at h
    | cons b bs =>
      obtain ⟨r, hr, hl⟩ := ih bs (by simpa using h)
      obtain ⟨g, hg⟩ := Option.isSome_iff_exists.mp (htot a b)
      exact ⟨g :: r, by simp [combineAll, hg, hr], by simp [hl]⟩

/-- the NaN model stays NaN -/
theorem foldl_trainStep_none {τP τA : Type} (eng : Mat → Mat → Rat → Option Mat) (α : Rat) (optP : Opt τP)
    (optA : Opt τA) (G : List Mat → List Mat → Nat → Nat → Grads) (L : List Schedule.Step) :
    Schedule.partialFitSeq (trainStep eng α optP optA G) none L = none := by
  unfold Schedule.partialFitSeq
  induction L with
  | nil => rfl
  | cons s L ih => simpa [trainStep] using ih

/-! ### review R2: the table-driven step `trainStepRec` (what the driver op `advstep.fit` folds) -/

/-- one more `train_step` on an optional model (`none` = the NaN model, which stays NaN) -/
def stepOpt (eng : Mat → Mat → Rat → Option Mat) (α lrP lrA : Rat) (m : Option (Model Unit Unit)) (g : Grads) :
    Option (Model Unit Unit) := m.bind (fun m => step eng α (sgd lrP) (sgd lrA) m g)

/-- `trainStepRec` consumes exactly one recorded gradient triple per step and applies `step` (plain SGD) to it -/
theorem trainStepRec_cons (eng : Mat → Mat → Rat → Option Mat) (α lrP lrA : Rat) (m : Option (Model Unit Unit))
    (g : Grads) (rest : List Grads) (lo hi : Nat) :
    trainStepRec eng α lrP lrA (m, g :: rest) lo hi = (stepOpt eng α lrP lrA m g, rest) := by
  cases m <;> simp [trainStepRec, stepOpt]

/-- folding `trainStepRec` over any list of scheduled steps = folding `step` over the first `steps.length` recorded
    gradient triples, in order (the slice bounds are not looked at: the recorded gradients ARE those of the slice);
    the unused records remain -/
theorem partialFitSeq_trainStepRec (eng : Mat → Mat → Rat → Option Mat) (α lrP lrA : Rat) (steps : List Schedule.Step)
    (gs : List Grads) (m0 : Option (Model Unit Unit)) (h : steps.length ≤ gs.length) :
    Schedule.partialFitSeq (trainStepRec eng α lrP lrA) (m0, gs) steps =
      ((gs.take steps.length).foldl (stepOpt eng α lrP lrA) m0, gs.drop steps.length) := by
  unfold Schedule.partialFitSeq
  induction steps generalizing gs m0 with
  | nil => simp
  | cons s steps ih =>
    cases gs with
    | nil => simp at h
    | cons g rest =>
      simp only [List.foldl_cons, trainStepRec_cons, List.length_cons, List.take_succ_cons, List.drop_succ_cons]
      exact ih rest _ (by simpa using h)

/-- ERROR BRANCH of the table: with fewer records than steps the result is the NaN model (`none`), never a silently
    shorter training run -/
theorem partialFitSeq_trainStepRec_exhausted (eng : Mat → Mat → Rat → Option Mat) (α lrP lrA : Rat)
    (steps : List Schedule.Step) (gs : List Grads) (m0 : Option (Model Unit Unit)) (h : gs.length < steps.length) :
    (Schedule.partialFitSeq (trainStepRec eng α lrP lrA) (m0, gs) steps).1 = none := by
  unfold Schedule.partialFitSeq
  induction steps generalizing gs m0 with
  | nil => simp at h
  | cons s steps ih =>
    cases gs with
    | nil =>
      have hnone : ∀ (L : List Schedule.Step) (r : List Grads),
          (L.foldl (fun st s => trainStepRec eng α lrP lrA st s.lo s.hi) (none, r)).1 = none := by
        intro L
        induction L with
        | nil => intro r; rfl
        | cons t L ihL =>
          intro r
          cases r with
          | nil => simpa [trainStepRec] using ihL []
          | cons g r => simpa [trainStepRec] using ihL r
      cases m0 <;> simpa [trainStepRec] using hnone steps []
    | cons g rest =>
      simp only [List.foldl_cons, trainStepRec_cons]
      exact ih rest _ (by simpa using h)

/-- the whole step keeps the number of tensors of both players (no tensor is dropped by the `zip`s of the model)
    whenever autograd delivers one gradient per tensor -/
theorem step_lengths {τP τA : Type} (eng : Mat → Mat → Rat → Option Mat) (α : Rat) (optP : Opt τP) (optA : Opt τA)
    (m m' : Model τP τA) (g : Grads) (hP : m.pred.state.length = m.pred.params.length)
    (hA : m.adv.state.length = m.adv.params.length) (hgP : g.dWLP.length = m.pred.params.length)
    (hgU : g.dULA.length = m.adv.params.length) (h : step eng α optP optA m g = some m') :
    m'.pred.params.length = m.pred.params.length ∧ m'.pred.state.length = m.pred.params.length ∧
    m'.adv.params.length = m.adv.params.length ∧ m'.adv.state.length = m.adv.params.length := by
  unfold step at h
  cases hc : combineAll eng α g.dWLP g.dWLA with
  | none => simp [hc] at h
  | some gs =>
    simp only [hc, Option.some.injEq] at h
    subst h
    have hs := combineAll_spec eng α _ _ gs hc
    have hl : gs.length = m.pred.params.length := by
      have := hs.2.length_eq
      simp only [List.length_zip] at this
      omega
    have h1 := applyOpt_length optP m.pred.params m.pred.state gs hP hl
    have h2 := applyOpt_length optA m.adv.params m.adv.state g.dULA hA hgU
    exact ⟨h1.1, h1.2, h2.1, h2.2⟩

end AdvStep
