/-
Lemmas for the feature-name model (`Model/FeatureNames.lean`).
Imports one non-Mathlib module of the toolchain: `Std.Data.String.ToNat` (`Nat.repr_injective`).
-/
import FairModel.Lemmas.Prelude
import FairModel.Model.FeatureNames
import Std.Data.String.ToNat

namespace FeatureNames

theorem defaultName_inj (base : String) (i j : Nat) (h : defaultName base i = defaultName base j) : i = j := by
  unfold defaultName FeatureNamesSrc.defaultName at h
  have h2 := congrArg String.toList h
  simp only [String.toList_append, List.append_cancel_left_eq] at h2
  exact Nat.repr_injective (String.toList_inj.mp h2)

theorem default_names_nodup (base : String) (k : Nat) : ((List.range k).map (defaultName base)).Nodup := by
  apply List.Nodup.map_on _ List.nodup_range
  intro i _ j _ h
  exact defaultName_inj base i j h

theorem firstDuplicate_none_iff (seen l : List String) :
    firstDuplicate seen l = none ↔ l.Nodup ∧ ∀ x ∈ l, x ∉ seen := by
  induction l generalizing seen with
  | nil => simp [firstDuplicate]
  | cons n ns ih =>
    unfold firstDuplicate
    by_cases h : n ∈ seen
    · rw [if_pos h]
      constructor
      · intro hc; cases hc
      · intro hc; exact absurd h (hc.2 n (by simp))
    · rw [if_neg h, ih]
      simp only [List.nodup_cons, List.mem_cons, forall_eq_or_imp, not_or]
      constructor
      · rintro ⟨h1, h2⟩
        exact ⟨⟨fun hm => (h2 n hm).1 rfl, h1⟩, h, fun x hx => (h2 x hx).2⟩
      · rintro ⟨⟨h1, h2⟩, _, h4⟩
        exact ⟨h2, fun x hx => ⟨fun he => h1 (he ▸ hx), h4 x hx⟩⟩

theorem firstDuplicate_nil_none_iff (l : List String) : firstDuplicate [] l = none ↔ l.Nodup := by
  rw [firstDuplicate_none_iff]; simp

/-- all-string labels are taken over unchanged -/
theorem columnsNames_str (base : String) (i : Nat) (ss : List String) :
    columnsNames base i (ss.map NameVal.str) = .ok ss := by
  induction ss generalizing i with
  | nil => rfl
  | cons s ss ih => simp [columnsNames, groupFeatureName, ih]

/-- a non-string label anywhere rejects the DataFrame / dict -/
theorem columnsNames_other (base : String) (i : Nat) (cs : List NameVal) (h : NameVal.other ∈ cs) :
    columnsNames base i cs = .error .columnNameNotString := by
  induction cs generalizing i with
  | nil => simp at h
  | cons c cs ih =>
    cases c with
    | other => simp [columnsNames]
    | str s =>
      have : NameVal.other ∈ cs := by simpa using h
      simp [columnsNames, groupFeatureName, ih (i + 1) this]

theorem all_str_or_other (cs : List NameVal) :
    (∃ ss : List String, cs = ss.map NameVal.str) ∨ NameVal.other ∈ cs := by
  induction cs with
  | nil => exact .inl ⟨[], rfl⟩
  | cons c cs ih =>
    cases c with
    | other => exact .inr (by simp)
    | str s =>
      rcases ih with ⟨ss, rfl⟩ | h
      · exact .inl ⟨s :: ss, rfl⟩
      · exact .inr (by simp [h])

end FeatureNames
