/-
Helper lemmas added by the R1 review of C10 (inverse-cdf `choice`: the chosen position has positive
probability; a probability-1 entry is chosen for every draw).  Lemmas only; the property statements are in
`Properties/C10.lean`.
-/
import FairModel.Lemmas.Pmf

namespace Pmf

/-- the position `choice` returns lies inside the vector and carries a POSITIVE probability, for every draw
    `0 ≤ u < sum probs` (in particular every `u ∈ [0,1)` for a probability vector) -/
theorem choiceIdx_prob_pos (probs : List Rat) (hp : ∀ p ∈ probs, 0 ≤ p) (u : Rat) (hu0 : 0 ≤ u)
    (hu1 : u < probs.sum) :
    ∃ h : choiceIdx probs u < probs.length, 0 < probs[choiceIdx probs u] := by
  have hlt : choiceIdx probs u < probs.length := by
    unfold choiceIdx
    exact choiceIdxFrom_lt probs 0 u hu0 (by linarith)
  refine ⟨hlt, ?_⟩
  have h := (choiceIdxFrom_eq_iff probs hp 0 u hu0 (choiceIdx probs u) hlt).mp rfl
  rw [List.sum_take_succ probs _ hlt] at h
  linarith [h.1, h.2]

/-- splitting the total at position `i` -/
theorem sum_split_at (probs : List Rat) (i : Nat) (hi : i < probs.length) :
    probs.sum = (probs.take i).sum + probs[i] + (probs.drop (i + 1)).sum := by
  rw [← List.sum_take_add_sum_drop probs (i + 1), List.sum_take_succ probs i hi]

/-- in a probability vector an entry equal to 1 leaves nothing in front of it -/
theorem take_sum_zero_of_one (probs : List Rat) (hp : ∀ p ∈ probs, 0 ≤ p) (hsum : probs.sum = 1)
    (i : Nat) (hi : i < probs.length) (h1 : probs[i] = 1) : (probs.take i).sum = 0 := by
  have hs := sum_split_at probs i hi
  have h0 := take_sum_nonneg probs hp i
  have hd : 0 ≤ (probs.drop (i + 1)).sum := by
    apply List.sum_nonneg
    intro p hp'
    exact hp p (List.mem_of_mem_drop hp')
  linarith

end Pmf
