/-
Review additions for C18 (R2): lemmas behind
  * `C18.resample_constant_metric_all_quantiles` / `C18.identical_rows_all_quantiles` — "a metric that is constant over
    the rows has all quantiles equal to the point estimate" for ANY metric (not only the row-ignoring `.const`);
  * `C18.ci_index_eq_point_estimate` — the index of `by_group_ci` IS the index of the point estimate once every group
    is hit by a resample;
  * `C18.extreme_pair_encloses_mean` — the 0- and 1-quantile enclose the resampling mean.
-/
import FairModel.Lemmas.Bootstrap

namespace Bootstrap
open BaseMetrics Weights

/-! ### a statistic that takes the same value on every drawn resample -/

theorem stat_sample (m : BMetric) (v : Rat) (rows : List WRow) (idx : List Nat) (f : Frame)
    (hv : ∀ rs, pick rows idx = some rs → rs ≠ [] → evalB m rs = .ok v)
    (h : sampleFrame m rows idx = some (some f)) : f.overall = v := by
  obtain ⟨rs, hp, hne, hf⟩ := sampleFrame_some _ _ _ _ h
  have h1 := (frameOf_fields _ _ _ hf).2
  rw [hv rs hp hne] at h1
  injection h1 with e
  exact e.symm

theorem stat_column (m : BMetric) (v : Rat) (rows : List WRow) (idxs : List (List Nat))
    (hlen : ∀ idx ∈ idxs, idx ≠ [])
    (hv : ∀ idx ∈ idxs, ∀ rs, pick rows idx = some rs → rs ≠ [] → evalB m rs = .ok v)
    (samples : List (Option Frame)) (h : samplesOf m rows idxs = some samples) :
    ∀ x ∈ column fOverall samples, x = .fin v := by
  intro x hx
  unfold column at hx
  obtain ⟨s, hs, rfl⟩ := List.mem_map.mp hx
  obtain ⟨idx, hidx, hsf⟩ := mapM_some_mem _ idxs samples h s hs
  cases s with
  | none => exact absurd (sampleFrame_none _ _ _ hsf) (hlen idx hidx)
  | some f =>
    simp only [fOverall]
    rw [stat_sample m v rows idx f (hv idx hidx) hsf]

theorem stat_overall_ci (skip : Bool) (m : BMetric) (v : Rat) (rows : List WRow) (idxs : List (List Nat))
    (hne : idxs ≠ []) (hlen : ∀ idx ∈ idxs, idx ≠ [])
    (hv : ∀ idx ∈ idxs, ∀ rs, pick rows idx = some rs → rs ≠ [] → evalB m rs = .ok v)
    (qs : List Rat) (hq : ∀ q ∈ qs, 0 ≤ q ∧ q ≤ 1) (c : CI) (h : ci skip m rows idxs qs = some c) :
    ∀ x ∈ c.overall, x = .fin v := by
  obtain ⟨samples, hs, _, e1, _⟩ := ci_fields skip _ rows idxs qs c h
  have hcol := stat_column m v rows idxs hlen hv samples hs
  have hne' : column fOverall samples ≠ [] := by
    have hl := (mapM_some_get _ idxs samples hs).1
    intro e
    have : samples = [] := by simpa [column] using e
    rw [this] at hl
    exact hne (List.length_eq_zero_iff.mp hl.symm)
  exact ciOf_const skip _ hne' _ hcol qs hq _ e1

/-- n identical rows: every resample of n positions IS the data -/
theorem pick_replicate (r : WRow) (n : Nat) (idx : List Nat) (rs : List WRow) (hl : idx.length = n)
    (h : pick (List.replicate n r) idx = some rs) : rs = List.replicate n r := by
  rw [List.eq_replicate_iff]
  refine ⟨by rw [pick_length _ idx rs h, hl], ?_⟩
  intro x hx
  exact List.eq_of_mem_replicate (pick_subset _ idx rs h x hx)

/-! ### the index of `by_group_ci` equals the point estimate's index when every group is drawn -/

theorem ciKeys_eq_keys (m : BMetric) (rows : List WRow) (idxs : List (List Nat)) (samples : List (Option Frame))
    (h : samplesOf m rows idxs = some samples)
    (hall : ∀ key ∈ keys rows, ∃ idx ∈ idxs, ∃ i ∈ idx, ∃ r, rows[i]? = some r ∧ r.g = key) :
    ciKeys samples = keys rows := by
  apply sorted_ext _ _ (sorted_uniqueSorted _) (sorted_uniqueSorted _)
  intro x
  constructor
  · exact ciKeys_subset m rows idxs samples h x
  · intro hx
    obtain ⟨idx, hidx, i, hi, r, hr, hg⟩ := hall x hx
    rw [← hg]
    exact ciKeys_hit m rows idxs samples h idx hidx i hi r hr

/-! ### the extreme quantiles enclose the mean -/

theorem interp_zero (s : List Rat) : interp s 0 = s.getD 0 0 := by
  unfold interp
  have : (0 : Rat).floor = 0 := by decide +kernel
  simp [this]

theorem interp_last (s : List Rat) (hne : s ≠ []) :
    interp s (((s.length - 1 : Nat) : Rat)) = s.getD (s.length - 1) 0 := by
  have hlen : 0 < s.length := List.length_pos_iff.mpr hne
  have hf : (((s.length - 1 : Nat) : Rat)).floor.toNat = s.length - 1 :=
    floor_toNat_eq _ (s.length - 1) (le_refl _) (by linarith)
  unfold interp
  rw [hf]
  have : min (s.length - 1 + 1) (s.length - 1) = s.length - 1 := by omega
  rw [this]; ring

theorem quantileLinear_zero_le (xs : List Rat) (x : Rat) (hx : x ∈ xs) : quantileLinear xs 0 ≤ x := by
  rw [quantileLinear_eq, mul_zero, interp_zero]
  have hm : x ∈ sortR xs := (mem_sortR x xs).mpr hx
  obtain ⟨i, hi, rfl⟩ := List.getElem_of_mem hm
  have := sorted_getD_le (sortR xs) (sortR_sorted xs) 0 i (Nat.zero_le _) hi
  rwa [getD_eq _ i hi] at this

theorem le_quantileLinear_one (xs : List Rat) (x : Rat) (hx : x ∈ xs) : x ≤ quantileLinear xs 1 := by
  have hne : xs ≠ [] := List.ne_nil_of_mem hx
  have hne' := sortR_ne_nil xs hne
  rw [quantileLinear_eq, mul_one, ← sortR_length xs, interp_last _ hne']
  have hm : x ∈ sortR xs := (mem_sortR x xs).mpr hx
  obtain ⟨i, hi, rfl⟩ := List.getElem_of_mem hm
  have := sorted_getD_le (sortR xs) (sortR_sorted xs) i ((sortR xs).length - 1) (by omega) (by omega)
  rwa [getD_eq _ i hi] at this

theorem mean_between_extreme_quantiles (xs : List Rat) (hne : xs ≠ []) :
    quantileLinear xs 0 ≤ mean xs ∧ mean xs ≤ quantileLinear xs 1 := by
  have hpos : (0 : Rat) < xs.length := by
    have : 0 < xs.length := List.length_pos_iff.mpr hne
    exact_mod_cast this
  have h1 := sum_ge xs (quantileLinear xs 0) (fun x hx => quantileLinear_zero_le xs x hx)
  have h2 := sum_ge (xs.map (fun x => -x)) (-(quantileLinear xs 1))
    (by intro y hy; obtain ⟨x, hx, rfl⟩ := List.mem_map.mp hy; have := le_quantileLinear_one xs x hx; linarith)
  rw [sum_map_neg, List.length_map] at h2
  unfold mean
  constructor
  · rw [le_div_iff₀ hpos]; linarith
  · rw [div_le_iff₀ hpos]; linarith

end Bootstrap
