import FairModel.Lemmas.Perm
import FairModel.Lemmas.Aggregate

/-! The aggregates of a MetricFrame (`group_min`, `group_max`, `difference`, `ratio`) only depend on the
`by_group` table as a multiset of (index tuple, value) entries (C12: needed for the relabelling clause,
where the index order changes with the new labels). -/

namespace Aggregate
open Frame XR

/-- same frame up to the order of the `by_group` entries -/
structure TablesPerm (t t' : Tables) : Prop where
  ncf : t.ncf = t'.ncf
  byGroup : t.byGroup.Perm t'.byGroup
  overall : t.overall = t'.overall
  others : t.othersNonscalar = t'.othersNonscalar

variable {t t' : Tables}

theorem strata_perm (h : TablesPerm t t') : strata t = strata t' := by
  unfold strata stratumOf
  rw [h.ncf]
  exact uniq_keys_perm (h.byGroup.map _)

theorem vals_perm (h : TablesPerm t t') (c : Key) : (vals t c).Perm (vals t' c) := by
  unfold vals stratumOf
  rw [h.ncf]
  exact (h.byGroup.filter _).map _

theorem hasNonscalar_perm (h : TablesPerm t t') : hasNonscalar t = hasNonscalar t' := by
  unfold hasNonscalar
  rw [h.others, h.overall, MetricPool.any_perm _ h.byGroup]

theorem overallAt_perm (h : TablesPerm t t') (c : Key) : overallAt t c = overallAt t' c := by
  unfold overallAt
  rw [h.overall]

theorem applyGrouping_perm (g : Grouping) (e : Errors) (h : TablesPerm t t') :
    applyGrouping g e t = applyGrouping g e t' := by
  unfold applyGrouping
  rw [hasNonscalar_perm h, strata_perm h]
  split
  · rfl
  · congr 1
    apply List.map_congr_left
    intro c _
    rw [g.apply_perm (vals_perm h c)]

theorem diffOf_perm {vs vs' : List XR} (hp : vs.Perm vs') (s : XR) : diffOf vs s = diffOf vs' s := by
  unfold diffOf
  exact Grouping.apply_perm _ (hp.map _)

theorem ratioOverallOf_perm {vs vs' : List XR} (hp : vs.Perm vs') (o : XR) :
    ratioOverallOf vs o = ratioOverallOf vs' o := by
  unfold ratioOverallOf
  exact Grouping.apply_perm _ (hp.map _)

theorem difference_perm (m : Method) (e : Errors) (h : TablesPerm t t') :
    difference m e t = difference m e t' := by
  unfold difference
  cases m
  · simp only
    rw [applyGrouping_perm _ e h, strata_perm h]
    split
    · rfl
    · congr 1
      apply List.map_congr_left
      intro c _
      rw [diffOf_perm (vals_perm h c)]
  · simp only
    rw [hasNonscalar_perm h, strata_perm h]
    split
    · rfl
    · congr 1
      apply List.map_congr_left
      intro c _
      rw [diffOf_perm (vals_perm h c), overallAt_perm h]

theorem ratio_perm (m : Method) (e : Errors) (h : TablesPerm t t') : ratio m e t = ratio m e t' := by
  unfold ratio
  cases m
  · simp only
    rw [applyGrouping_perm _ e h, applyGrouping_perm _ e h]
  · simp only
    rw [hasNonscalar_perm h, strata_perm h]
    split
    · rfl
    · congr 1
      apply List.map_congr_left
      intro c _
      rw [ratioOverallOf_perm (vals_perm h c), overallAt_perm h]

end Aggregate
