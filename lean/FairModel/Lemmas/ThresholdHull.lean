/-
Geometry of `_filter_points_to_get_convex_hull` (Andrew's monotone chain, upper hull) as modelled in
`Model/Threshold.lean`: sortedness of `sortLex`, and the loop invariant of `hullRev`:
the stack is a lexicographically decreasing (top first) sub-collection of the processed points, strictly concave,
its top / bottom are the last / first processed point, and EVERY processed point lies on or below the line
through ANY two consecutive stack vertices.
-/
import FairModel.Lemmas.Prelude
import FairModel.Model.Threshold
import FairModel.Lemmas.ThresholdSrc

namespace Threshold

/-- twice the signed area of `a b q`; `≤ 0` means `q` is on or below (to the right of) the directed line `a → b` -/
def cross (a b q : Pt) : Rat := (b.x - a.x) * (q.y - a.y) - (b.y - a.y) * (q.x - a.x)

/-- lexicographic order on (x, y) -/
def LexLe (a b : Pt) : Prop := a.x < b.x ∨ (a.x = b.x ∧ a.y ≤ b.y)

theorem LexLe.refl (a : Pt) : LexLe a a := Or.inr ⟨rfl, le_refl _⟩

theorem LexLe.trans {a b c : Pt} (h1 : LexLe a b) (h2 : LexLe b c) : LexLe a c := by
  unfold LexLe at *
  rcases h1 with h1 | ⟨h1, h1'⟩ <;> rcases h2 with h2 | ⟨h2, h2'⟩
  · left; linarith
  · left; linarith
  · left; linarith
  · right; exact ⟨by linarith, by linarith⟩

theorem LexLe.x_le {a b : Pt} (h : LexLe a b) : a.x ≤ b.x := by
  rcases h with h | ⟨h, _⟩ <;> linarith

theorem lexLt_iff (a b : Pt) : lexLt a b = true ↔ (a.x < b.x ∨ (a.x = b.x ∧ a.y < b.y)) := src_lexLt a b

theorem LexLe.of_lexLt {a b : Pt} (h : lexLt a b = true) : LexLe a b := by
  rw [lexLt_iff] at h
  rcases h with h | ⟨h, h'⟩
  · exact Or.inl h
  · exact Or.inr ⟨h, le_of_lt h'⟩

theorem LexLe.of_not_lexLt {a b : Pt} (h : ¬ lexLt a b = true) : LexLe b a := by
  rw [lexLt_iff] at h
  have h : b.x ≤ a.x ∧ (a.x = b.x → b.y ≤ a.y) := by
    constructor
    · by_contra hc; exact h (Or.inl (not_le.mp hc))
    · intro he; by_contra hc; exact h (Or.inr ⟨he, not_le.mp hc⟩)
  unfold LexLe
  rcases lt_trichotomy b.x a.x with h1 | h1 | h1
  · exact Or.inl h1
  · right; exact ⟨h1, h.2 h1.symm⟩
  · exact absurd h1 (not_lt.mpr h.1)

/-! ### `sortLex` -/

theorem mem_insertLex (p q : Pt) (l : List Pt) : q ∈ insertLex p l ↔ q = p ∨ q ∈ l := by
  induction l with
  | nil => simp [insertLex]
  | cons a l ih =>
    unfold insertLex
    split
    · simp only [List.mem_cons, ih]; tauto
    · simp only [List.mem_cons]

theorem mem_sortLex (q : Pt) (l : List Pt) : q ∈ sortLex l ↔ q ∈ l := by
  induction l with
  | nil => simp [sortLex]
  | cons a l ih =>
    have : sortLex (a :: l) = insertLex a (sortLex l) := rfl
    rw [this, mem_insertLex, ih]; simp

theorem pairwise_insertLex (p : Pt) (l : List Pt) (h : l.Pairwise LexLe) : (insertLex p l).Pairwise LexLe := by
  induction l with
  | nil => simp [insertLex]
  | cons a l ih =>
    unfold insertLex
    rw [List.pairwise_cons] at h
    split
    · next hlt =>
      rw [List.pairwise_cons]
      refine ⟨?_, ih h.2⟩
      intro q hq
      rw [mem_insertLex] at hq
      rcases hq with rfl | hq
      · exact LexLe.of_lexLt hlt
      · exact h.1 q hq
    · next hlt =>
      have hpa : LexLe p a := LexLe.of_not_lexLt hlt
      rw [List.pairwise_cons]
      refine ⟨?_, List.pairwise_cons.mpr h⟩
      intro q hq
      rcases List.mem_cons.mp hq with rfl | hq
      · exact hpa
      · exact hpa.trans (h.1 q hq)

theorem pairwise_sortLex (l : List Pt) : (sortLex l).Pairwise LexLe := by
  induction l with
  | nil => simp [sortLex]
  | cons a l ih => exact pairwise_insertLex a _ ih

/-! ### the cross-product identity behind every geometric step -/

theorem cross_identity (ux uy vx vy wx wy : Rat) :
    ux * (vx * wy - vy * wx) + vx * (wx * uy - wy * ux) + wx * (ux * vy - uy * vx) = 0 := by ring

/-- four lexicographically increasing points, two consecutive strict right turns ⇒ the last point is strictly
    below the first edge -/
theorem cross_chain {a b c d : Pt} (hab : LexLe a b) (hbc : LexLe b c) (hcd : LexLe c d)
    (h1 : cross a b c < 0) (h2 : cross b c d < 0) : cross a b d < 0 := by
  unfold cross at *
  have hux := hab.x_le
  have hvx := hbc.x_le
  have hwx := hcd.x_le
  rcases hbc with hbc | ⟨hbx, hby⟩
  · -- v.x > 0
    have id := cross_identity (b.x - a.x) (b.y - a.y) (c.x - b.x) (c.y - b.y) (d.x - c.x) (d.y - c.y)
    -- u×w * v.x = -(u.x * (v×w)) - w.x * (u×v)
    have hv : 0 < c.x - b.x := by linarith
    have huv : (b.x - a.x) * (c.y - b.y) - (b.y - a.y) * (c.x - b.x) < 0 := by nlinarith
    have hvw : (c.x - b.x) * (d.y - c.y) - (c.y - b.y) * (d.x - c.x) < 0 := by nlinarith
    have huw : (c.x - b.x) * ((b.x - a.x) * (d.y - c.y) - (b.y - a.y) * (d.x - c.x)) ≤ 0 := by
      have t1 : 0 ≤ (b.x - a.x) * -((c.x - b.x) * (d.y - c.y) - (c.y - b.y) * (d.x - c.x)) :=
        mul_nonneg (by linarith) (by linarith)
      have t2 : 0 ≤ (d.x - c.x) * -((b.x - a.x) * (c.y - b.y) - (b.y - a.y) * (c.x - b.x)) :=
        mul_nonneg (by linarith) (by linarith)
      nlinarith
    have huw' : (b.x - a.x) * (d.y - c.y) - (b.y - a.y) * (d.x - c.x) ≤ 0 := by
      by_contra hc
      have hc := not_le.mp hc
      have := mul_pos hv hc
      linarith
    nlinarith
  · -- b.x = c.x : then cross a b c = (b.x - a.x) * (c.y - b.y) ≥ 0, contradiction
    exfalso
    have : 0 ≤ (b.x - a.x) * (c.y - b.y) := mul_nonneg (by linarith) (by linarith)
    rw [← hbx] at h1
    nlinarith

/-- `q` left of `t`, below the edge `t' → t`; `r` strictly below that edge and right of `t` ⇒ `q` is below `t → r` -/
theorem cross_left {t' t r q : Pt} (h1 : LexLe t' t) (h2 : LexLe t r) (hq : q.x < t.x)
    (hb : cross t' t q ≤ 0) (hr : cross t' t r < 0) : cross t r q ≤ 0 := by
  unfold cross at *
  have hux := h1.x_le
  have hvx := h2.x_le
  have id := cross_identity (t.x - t'.x) (t.y - t'.y) (r.x - t.x) (r.y - t.y) (q.x - t.x) (q.y - t.y)
  have huw : (t.x - t'.x) * (q.y - t.y) - (t.y - t'.y) * (q.x - t.x) ≤ 0 := by nlinarith
  have huv : (t.x - t'.x) * (r.y - t.y) - (t.y - t'.y) * (r.x - t.x) < 0 := by nlinarith
  have t1 : 0 ≤ (r.x - t.x) * -((t.x - t'.x) * (q.y - t.y) - (t.y - t'.y) * (q.x - t.x)) :=
    mul_nonneg (by linarith) (by linarith)
  have t2 : 0 < -(q.x - t.x) * -((t.x - t'.x) * (r.y - t.y) - (t.y - t'.y) * (r.x - t.x)) :=
    mul_pos (by linarith) (by linarith)
  have key : (t.x - t'.x) * ((r.x - t.x) * (q.y - t.y) - (r.y - t.y) * (q.x - t.x)) < 0 := by nlinarith
  by_contra hc
  have hc := not_le.mp hc
  have : 0 ≤ (t.x - t'.x) * ((r.x - t.x) * (q.y - t.y) - (r.y - t.y) * (q.x - t.x)) :=
    mul_nonneg (by linarith) (le_of_lt hc)
  linarith

/-- pop step, `q` at or right of the popped vertex `r1` -/
theorem cross_pop_right {r0 r1 r2 q : Pt} (h01 : LexLe r0 r1) (h12 : LexLe r1 r2) (hq2 : LexLe q r2)
    (hq1 : r1.x ≤ q.x) (hb : cross r1 r2 q ≤ 0) (hd : cross r0 r2 r1 ≤ 0) : cross r0 r2 q ≤ 0 := by
  unfold cross at *
  have hax := h01.x_le
  have hbx := h12.x_le
  have hpx := hq2.x_le
  rcases lt_or_eq_of_le hbx with hlt | heq
  · -- a = r1 - r0, b = r2 - r1, p = r2 - q
    have id := cross_identity (r1.x - r0.x) (r1.y - r0.y) (r2.x - r1.x) (r2.y - r1.y) (r2.x - q.x) (r2.y - q.y)
    have hpb : (r2.x - q.x) * (r2.y - r1.y) - (r2.y - q.y) * (r2.x - r1.x) ≤ 0 := by nlinarith
    have hba : (r2.x - r1.x) * (r1.y - r0.y) - (r2.y - r1.y) * (r1.x - r0.x) ≤ 0 := by nlinarith
    have t1 : 0 ≤ (r1.x - r0.x) * -((r2.x - q.x) * (r2.y - r1.y) - (r2.y - q.y) * (r2.x - r1.x)) :=
      mul_nonneg (by linarith) (by linarith)
    have t2 : 0 ≤ (r2.x - q.x) * -((r2.x - r1.x) * (r1.y - r0.y) - (r2.y - r1.y) * (r1.x - r0.x)) :=
      mul_nonneg (by linarith) (by linarith)
    have key : (r2.x - r1.x) * ((r2.x - q.x) * (r1.y - r0.y) - (r2.y - q.y) * (r1.x - r0.x)) ≤ 0 := by nlinarith
    have hpa : (r2.x - q.x) * (r1.y - r0.y) - (r2.y - q.y) * (r1.x - r0.x) ≤ 0 := by
      by_contra hc
      have hc := not_le.mp hc
      have := mul_pos (by linarith : 0 < r2.x - r1.x) hc
      linarith
    nlinarith
  · -- r1.x = r2.x = q.x
    have hqx : q.x = r2.x := by linarith
    have hqy : q.y ≤ r2.y := by
      rcases hq2 with h | ⟨_, h⟩
      · linarith
      · exact h
    have : 0 ≤ (r2.x - r0.x) * (r2.y - q.y) := mul_nonneg (by linarith) (by linarith)
    rw [hqx]
    nlinarith

/-- pop step, `q` strictly between `r0` and the popped vertex `r1` -/
theorem cross_pop_mid {r0 r1 r2 q : Pt} (h12 : LexLe r1 r2)
    (hq0 : r0.x ≤ q.x) (hq1 : q.x < r1.x) (hb : cross r0 r1 q ≤ 0) (hd : cross r0 r2 r1 ≤ 0) :
    cross r0 r2 q ≤ 0 := by
  unfold cross at *
  have hbx := h12.x_le
  have id := cross_identity (r1.x - r0.x) (r1.y - r0.y) (r2.x - r0.x) (r2.y - r0.y) (q.x - r0.x) (q.y - r0.y)
  have t1 : 0 ≤ (r2.x - r0.x) * -((r1.x - r0.x) * (q.y - r0.y) - (r1.y - r0.y) * (q.x - r0.x)) :=
    mul_nonneg (by linarith) (by linarith)
  have t2 : 0 ≤ (q.x - r0.x) * -((r2.x - r0.x) * (r1.y - r0.y) - (r2.y - r0.y) * (r1.x - r0.x)) :=
    mul_nonneg (by linarith) (by linarith)
  have key : (r1.x - r0.x) * ((r2.x - r0.x) * (q.y - r0.y) - (r2.y - r0.y) * (q.x - r0.x)) ≤ 0 := by nlinarith
  by_contra hc
  have hc := not_le.mp hc
  have := mul_pos (by linarith : 0 < r1.x - r0.x) hc
  linarith

/-- the `dropTest` of the code in terms of `cross` -/
theorem dropTest_iff (r0 r1 r2 : Pt) : dropTest r0 r1 r2 = true ↔ cross r0 r2 r1 ≤ 0 := by
  rw [src_hullDrop]; unfold cross
  simp only [decide_eq_true_eq]
  constructor <;> intro h <;> linarith

theorem not_dropTest_iff (r0 r1 r2 : Pt) : ¬ dropTest r0 r1 r2 = true ↔ cross r0 r1 r2 < 0 := by
  rw [src_hullDrop]; unfold cross
  simp only [decide_eq_true_eq, not_le]
  constructor <;> intro h <;> linarith

/-! ### stack predicates (stack is top first) -/

/-- every three consecutive stack vertices make a strict right turn -/
def Concave : List Pt → Prop
  | r2 :: r1 :: r0 :: rest => cross r0 r1 r2 < 0 ∧ Concave (r1 :: r0 :: rest)
  | _ => True

/-- `q` is on or below the line through every two consecutive stack vertices -/
def BelowAll (q : Pt) : List Pt → Prop
  | b :: a :: rest => cross a b q ≤ 0 ∧ BelowAll q (a :: rest)
  | _ => True

def SortedDesc (S : List Pt) : Prop := S.Pairwise (fun a b => LexLe b a)

theorem Concave.tail {a : Pt} {S : List Pt} (h : Concave (a :: S)) : Concave S := by
  match S, h with
  | [], _ => trivial
  | [_], _ => trivial
  | _ :: _ :: _, h => exact h.2

theorem BelowAll.tail {q a : Pt} {S : List Pt} (h : BelowAll q (a :: S)) : BelowAll q S := by
  match S, h with
  | [], _ => trivial
  | _ :: _, h => exact h.2

/-- a point right of the top that is strictly below the top edge is strictly below every edge of a concave chain -/
theorem belowAll_of_top {r2 t1 t0 : Pt} {rest : List Pt}
    (hs : SortedDesc (t1 :: t0 :: rest)) (hc : Concave (t1 :: t0 :: rest))
    (h12 : LexLe t1 r2) (hx : cross t0 t1 r2 < 0) : BelowAll r2 (t1 :: t0 :: rest) := by
  induction rest generalizing t1 t0 with
  | nil => exact ⟨le_of_lt hx, trivial⟩
  | cons t00 rest ih =>
    refine ⟨le_of_lt hx, ?_⟩
    have hs' : SortedDesc (t0 :: t00 :: rest) := (List.pairwise_cons.mp hs).2
    have h01 : LexLe t0 t1 := (List.pairwise_cons.mp hs).1 t0 (by simp)
    have h00 : LexLe t00 t0 := (List.pairwise_cons.mp hs').1 t00 (by simp)
    have hx' : cross t00 t0 r2 < 0 := cross_chain h00 h01 h12 hc.1 hx
    exact ih hs' hc.2 (h01.trans h12) hx'

/-! ### `popWhile` -/

theorem popWhile_suffix (r2 : Pt) (S : List Pt) : popWhile r2 S <:+ S := by
  fun_induction popWhile r2 S with
  | case1 r1 r0 rest h ih => exact ih.trans (List.suffix_cons _ _)
  | case2 r1 r0 rest h => exact List.suffix_refl _
  | case3 l h => exact List.suffix_refl _

theorem popWhile_ne_nil (r2 : Pt) (S : List Pt) (h : S ≠ []) : popWhile r2 S ≠ [] := by
  fun_induction popWhile r2 S with
  | case1 r1 r0 rest _ ih => exact ih (by simp)
  | case2 r1 r0 rest _ => simp
  | case3 l _ => exact h

theorem popWhile_getLast? (r2 : Pt) (S : List Pt) : (popWhile r2 S).getLast? = S.getLast? := by
  fun_induction popWhile r2 S with
  | case1 r1 r0 rest _ ih => rw [ih]; simp [List.getLast?_cons_cons]
  | case2 r1 r0 rest _ => rfl
  | case3 l _ => rfl

/-- after popping, the two top vertices (if there are two) pass the keep-test -/
theorem popWhile_top (r2 : Pt) (S : List Pt) :
    ∀ t1 t0 rest, popWhile r2 S = t1 :: t0 :: rest → cross t0 t1 r2 < 0 := by
  fun_induction popWhile r2 S with
  | case1 r1 r0 rest _ ih => exact ih
  | case2 r1 r0 rest h =>
    intro t1 t0 rest' heq
    simp only [List.cons.injEq] at heq
    obtain ⟨rfl, rfl, _⟩ := heq
    exact (not_dropTest_iff _ _ _).mp h
  | case3 l h =>
    intro t1 t0 rest heq
    exact absurd heq (by intro hh; exact h t1 t0 rest hh)

theorem SortedDesc.suffix {S T : List Pt} (h : SortedDesc S) (hs : T <:+ S) : SortedDesc T :=
  List.Pairwise.sublist hs.sublist h

theorem Concave.suffix {S T : List Pt} (h : Concave S) (hs : T <:+ S) : Concave T := by
  obtain ⟨pre, rfl⟩ := hs
  induction pre with
  | nil => exact h
  | cons a pre ih => exact ih (Concave.tail h)

theorem BelowAll.suffix {q : Pt} {S T : List Pt} (h : BelowAll q S) (hs : T <:+ S) : BelowAll q T := by
  obtain ⟨pre, rfl⟩ := hs
  induction pre with
  | nil => exact h
  | cons a pre ih => exact ih (BelowAll.tail h)

/-- "top bound": every processed point at or right of the top vertex is on or below the line top → r2 -/
def TopBound (P : List Pt) (r2 : Pt) (S : List Pt) : Prop :=
  ∀ t ∈ S.head?, ∀ q ∈ P, t.x ≤ q.x → cross t r2 q ≤ 0

theorem popWhile_topBound (P : List Pt) (r2 : Pt) (S : List Pt)
    (hsorted : SortedDesc S) (hle : ∀ q ∈ P, LexLe q r2) (hS : ∀ s ∈ S, LexLe s r2)
    (hbelow : ∀ q ∈ P, BelowAll q S) (htop : TopBound P r2 S) : TopBound P r2 (popWhile r2 S) := by
  fun_induction popWhile r2 S with
  | case1 r1 r0 rest hdrop ih =>
    have hs' : SortedDesc (r0 :: rest) := (List.pairwise_cons.mp hsorted).2
    have h01 : LexLe r0 r1 := (List.pairwise_cons.mp hsorted).1 r0 (by simp)
    have h12 : LexLe r1 r2 := hS r1 (by simp)
    have hd : cross r0 r2 r1 ≤ 0 := (dropTest_iff _ _ _).mp hdrop
    apply ih hs' (fun s hs => hS s (by simp [hs])) (fun q hq => BelowAll.tail (hbelow q hq))
    intro t ht q hq htq
    simp only [List.head?_cons, Option.mem_def, Option.some.injEq] at ht
    subst ht
    by_cases hq1 : r1.x ≤ q.x
    · exact cross_pop_right h01 h12 (hle q hq) hq1 (htop r1 (by simp) q hq hq1) hd
    · exact cross_pop_mid h12 htq (not_le.mp hq1) (hbelow q hq).1 hd
  | case2 r1 r0 rest _ => exact htop
  | case3 l _ => exact htop

/-! ### the loop invariant of `hullRev` -/

structure HullInv (S P : List Pt) : Prop where
  sub : ∀ s ∈ S, s ∈ P
  sorted : SortedDesc S
  concave : Concave S
  below : ∀ q ∈ P, BelowAll q S
  top : S.head? = P.getLast?
  bottom : S.getLast? = P.head?

theorem HullInv.nil : HullInv [] [] :=
  ⟨by simp, List.Pairwise.nil, trivial, by simp, rfl, rfl⟩

theorem hullStep_inv {S P : List Pt} {r2 : Pt} (inv : HullInv S P)
    (hP : (P ++ [r2]).Pairwise LexLe) : HullInv (hullStep S r2) (P ++ [r2]) := by
  have hPs : P.Pairwise LexLe := (List.pairwise_append.mp hP).1
  have hle : ∀ q ∈ P, LexLe q r2 := fun q hq => (List.pairwise_append.mp hP).2.2 q hq r2 (by simp)
  have hS : ∀ s ∈ S, LexLe s r2 := fun s hs => hle s (inv.sub s hs)
  obtain ⟨T, hT⟩ : ∃ T, T = popWhile r2 S := ⟨_, rfl⟩
  have hsuf : T <:+ S := hT ▸ popWhile_suffix r2 S
  have hTs : SortedDesc T := inv.sorted.suffix hsuf
  have hTc : Concave T := inv.concave.suffix hsuf
  have hTsub : ∀ s ∈ T, s ∈ S := fun s hs => hsuf.subset hs
  have hTlast : T.getLast? = S.getLast? := hT ▸ popWhile_getLast? r2 S
  have hTtop : ∀ t1 t0 rest, T = t1 :: t0 :: rest → cross t0 t1 r2 < 0 := by
    intro t1 t0 rest h; exact popWhile_top r2 S t1 t0 rest (hT ▸ h)
  have hTne : S ≠ [] → T ≠ [] := fun h => hT ▸ popWhile_ne_nil r2 S h
  -- the top of S is the last processed point: TopBound holds initially
  have htop0 : TopBound P r2 S := by
    intro t ht q hq htq
    have hlast : P.getLast? = some t := by rw [← inv.top]; exact ht
    have hqt : LexLe q t := by
      obtain ⟨pre, rfl⟩ : ∃ pre, P = pre ++ [t] := by
        refine ⟨P.dropLast, ?_⟩
        exact (List.dropLast_append_getLast? t (by simpa using hlast)).symm
      rcases List.mem_append.mp hq with hq | hq
      · exact (List.pairwise_append.mp hPs).2.2 q hq t (by simp)
      · simp only [List.mem_singleton] at hq; subst hq; exact LexLe.refl _
    have htS : t ∈ S := by
      cases S with
      | nil => simp at ht
      | cons a S => simp only [List.head?_cons, Option.mem_def, Option.some.injEq] at ht; subst ht; simp
    have htr : LexLe t r2 := hS t htS
    have hx : q.x = t.x := le_antisymm hqt.x_le htq
    have hy : q.y ≤ t.y := by
      rcases hqt with h | ⟨_, h⟩
      · linarith
      · exact h
    unfold cross
    rw [hx]
    have : 0 ≤ (r2.x - t.x) * (t.y - q.y) := mul_nonneg (by have := htr.x_le; linarith) (by linarith)
    nlinarith
  have htopT : TopBound P r2 T := hT ▸ popWhile_topBound P r2 S inv.sorted hle hS inv.below htop0
  have hstep : hullStep S r2 = r2 :: T := by rw [hT]; rfl
  rw [hstep]
  clear hT hstep
  refine ⟨?_, ?_, ?_, ?_, ?_, ?_⟩
  · -- sub
    intro s hs
    rcases List.mem_cons.mp hs with rfl | hs
    · simp
    · exact List.mem_append_left _ (inv.sub s (hTsub s hs))
  · -- sorted
    exact List.pairwise_cons.mpr ⟨fun s hs => hS s (hTsub s hs), hTs⟩
  · -- concave
    match T, hTc, hTtop with
    | [], _, _ => trivial
    | [_], _, _ => trivial
    | t1 :: t0 :: rest, hTc, hTtop => exact ⟨hTtop t1 t0 rest rfl, hTc⟩
  · -- below
    intro q hq
    rcases List.mem_append.mp hq with hq | hq
    · -- an old point
      have hbT : BelowAll q T := (inv.below q hq).suffix hsuf
      match T, hbT, hTs, hTsub, hTlast, hTtop, htopT with
      | [], _, _, _, _, _, _ => trivial
      | [t], _, _, _, hTlast, _, htopT =>
        refine ⟨?_, trivial⟩
        -- t is the bottom = first point of P, so t.x ≤ q.x
        have hPh : P.head? = some t := by rw [← inv.bottom, ← hTlast]; rfl
        have htq : LexLe t q := by
          cases P with
          | nil => simp at hq
          | cons p P =>
            simp only [List.head?_cons, Option.some.injEq] at hPh
            subst hPh
            rcases List.mem_cons.mp hq with rfl | hq
            · exact LexLe.refl _
            · exact (List.pairwise_cons.mp hPs).1 q hq
        exact htopT t (by simp) q hq htq.x_le
      | t :: t' :: rest, hbT, hTs, hTsub, _, hTtop, htopT =>
        refine ⟨?_, hbT⟩
        by_cases htq : t.x ≤ q.x
        · exact htopT t (by simp) q hq htq
        · have hkeep : cross t' t r2 < 0 := hTtop t t' rest rfl
          have h1 : LexLe t' t := (List.pairwise_cons.mp hTs).1 t' (by simp)
          have h2 : LexLe t r2 := hS t (hTsub t (by simp))
          exact cross_left h1 h2 (not_le.mp htq) hbT.1 hkeep
    · -- the new point itself
      simp only [List.mem_singleton] at hq
      subst hq
      match T, hTs, hTc, hTsub, hTtop with
      | [], _, _, _, _ => trivial
      | [t], _, _, _, _ => exact ⟨by unfold cross; ring_nf; exact le_refl _, trivial⟩
      | t :: t' :: rest, hTs, hTc, hTsub, hTtop =>
        refine ⟨by unfold cross; ring_nf; exact le_refl _, ?_⟩
        exact belowAll_of_top hTs hTc (hS t (hTsub t (by simp))) (hTtop t t' rest rfl)
  · -- top
    simp
  · -- bottom
    cases hSe : S with
    | nil =>
      have hPnil : P = [] := by
        cases P with
        | nil => rfl
        | cons p P =>
          have := inv.top
          rw [hSe] at this
          have h2 := List.getLast?_eq_some_getLast (l := p :: P) (by simp)
          rw [h2] at this
          cases this
      have : T = [] := by
        have := hsuf; rw [hSe] at this; exact List.suffix_nil.mp this
      rw [this, hPnil]; rfl
    | cons s S' =>
      have hne : T ≠ [] := hTne (by rw [hSe]; simp)
      have h1 : (r2 :: T).getLast? = T.getLast? := by
        cases hTe : T with
        | nil => exact absurd hTe hne
        | cons a T' => simp [List.getLast?_cons_cons]
      rw [h1, hTlast, inv.bottom]
      cases P with
      | nil =>
        have := inv.sub s (by rw [hSe]; simp)
        simp at this
      | cons p P => rfl

theorem hullRev_inv_aux (rest : List Pt) : ∀ (S P : List Pt), HullInv S P → (P ++ rest).Pairwise LexLe →
    HullInv (rest.foldl hullStep S) (P ++ rest) := by
  induction rest with
  | nil => intro S P inv _; simpa using inv
  | cons r rest ih =>
    intro S P inv hP
    have hP' : ((P ++ [r]) ++ rest).Pairwise LexLe := by simpa using hP
    have := ih (hullStep S r) (P ++ [r]) (hullStep_inv inv (List.pairwise_append.mp hP').1) hP'
    simpa using this

/-- the invariant holds for the finished hull of any lexicographically sorted point list -/
theorem hullRev_inv (pts : List Pt) (h : pts.Pairwise LexLe) : HullInv (hullRev pts) pts := by
  have := hullRev_inv_aux pts [] [] HullInv.nil (by simpa using h)
  simpa [hullRev] using this

end Threshold
