import FairModel.Lemmas.Schedule
import FairModel.Model.SchedLifted

namespace SchedL
open SchedCfg Schedule

/-! ### Python `ceil(a / b)` on naturals is `Schedule.ceilDiv` -/

theorem pyCeilDiv_natCast (n b : Nat) (hb : 0 < b) : pyCeilDiv (n : Int) (b : Int) = ((ceilDiv n b : Nat) : Int) := by
  unfold pyCeilDiv
  have hb' : (0 : Int) < b := by exact_mod_cast hb
  rw [Int.fdiv_eq_ediv_of_nonneg _ (le_of_lt hb')]
  set q := (-(n : Int)) / (b : Int) with hq
  set c := ceilDiv n b with hc
  have h1 : q * b ≤ -(n : Int) := Int.ediv_mul_le _ (ne_of_gt hb')
  have h2 : -(n : Int) < (q + 1) * b := by
    have := Int.lt_ediv_add_one_mul_self (-(n : Int)) hb'
    simpa [hq] using this
  have h3 : n ≤ c * b := le_ceilDiv_mul n b hb
  have h3' : (n : Int) ≤ (c : Int) * b := by exact_mod_cast h3
  have h4 : c = 0 ∨ (c - 1) * b < n := by
    by_cases h0 : c = 0
    · exact Or.inl h0
    · right
      exact (lt_ceilDiv_iff n b (c - 1) hb).mp (by omega)
  -- -c ≤ q
  have ha : -(c : Int) ≤ q := by
    by_contra hcon
    have : q + 1 ≤ -(c : Int) := by omega
    have := Int.mul_le_mul_of_nonneg_right this (le_of_lt hb')
    nlinarith
  have hb2 : q ≤ -(c : Int) := by
    rcases h4 with h0 | h4
    · have : (n : Int) ≤ 0 := by simpa [h0] using h3'
      have hn0 : (n : Int) = 0 := by omega
      by_contra hcon
      have : (1 : Int) ≤ q := by omega
      have := Int.mul_le_mul_of_nonneg_right this (le_of_lt hb')
      nlinarith
    · have h4' : ((c : Int) - 1) * b < n := by
        have hc1 : 1 ≤ c := by
          by_contra h; have : c = 0 := by omega
          simp [this] at h4 h3
          omega
        have : (((c - 1 : Nat) : Int)) = (c : Int) - 1 := by omega
        rw [← this]; exact_mod_cast h4
      by_contra hcon
      have : -(c : Int) + 1 ≤ q := by omega
      have := Int.mul_le_mul_of_nonneg_right this (le_of_lt hb')
      nlinarith
  omega


/-! ### the reference configuration, statement by statement -/

theorem runCbs_or (k : Int) (cbs : List (Int → Bool)) (i : Nat) (stop : Bool) (calls : List (Nat × Int)) :
    runCbs .orAcc k cbs i stop calls =
      (stop || cbs.any (fun cb => cb k), calls ++ (List.range' i cbs.length).map (fun j => (j, k))) := by
  induction cbs generalizing i stop calls with
  | nil => simp [runCbs]
  | cons cb r ih =>
    simp only [runCbs, ih, accF, List.any_cons, List.length_cons, List.range'_succ, List.map_cons,
      List.append_assoc, List.cons_append, List.nil_append, Bool.or_assoc]

theorem hitMax_ref (mi : Option Nat) (d : Nat) :
    reference.hitMax (enc mi) ((d : Int) + 1) = Schedule.hitMax mi (d + 1) := by
  cases mi with
  | none => simp [reference, enc, Schedule.hitMax]
  | some m =>
    have h : ((m : Int) != -1) = true := by simp
    simp only [reference, enc, Schedule.hitMax, h, Bool.true_and]
    congr 1
    apply propext
    constructor <;> intro h <;> omega

theorem sliceSrc_ref (n b k : Nat) : sliceSrc reference (n : Int) (b : Int) k = sliceOf n b k := by
  have h1 : ((k : Int) * (b : Int)) = ((k * b : Nat) : Int) := by push_cast; ring
  have h2 : min (((k : Int) + 1) * (b : Int)) (n : Int) = ((min ((k + 1) * b) n : Nat) : Int) := by push_cast; ring_nf
  simp only [sliceSrc, reference, sliceOf, h1, h2, Int.toNat_natCast]

theorem bodyStep_of_returned {σ : Type} (cfg : Cfg) (mi : Int) (cbs : List (Int → Bool)) (ts : σ → Nat → Nat → σ)
    (b n : Int) (st : St σ) (k : Nat) (h : st.returned = true) : bodyStep cfg mi cbs ts b n st k = st := by
  simp [bodyStep, h]

theorem foldl_bodyStep_of_returned {σ : Type} (cfg : Cfg) (mi : Int) (cbs : List (Int → Bool)) (ts : σ → Nat → Nat → σ)
    (b n : Int) (L : List Nat) (st : St σ) (h : st.returned = true) :
    L.foldl (bodyStep cfg mi cbs ts b n) st = st := by
  induction L with
  | nil => rfl
  | cons k L ih => simp only [List.foldl_cons, bodyStep_of_returned cfg mi cbs ts b n st k h]; exact ih

/-- closed form of one pass through the batch loop body at the reference configuration -/
theorem bodyStep_ref {σ : Type} (mi : Int) (cbs : List (Int → Bool)) (ts : σ → Nat → Nat → σ) (b n : Int)
    (s : σ) (d : Int) (c : List (Nat × Int)) (k : Nat) :
    bodyStep reference mi cbs ts b n ⟨s, d, false, false, c⟩ k =
      if reference.hitMax mi (d + 1) then
        ⟨ts s (sliceSrc reference n b k).1 (sliceSrc reference n b k).2, d + 1, true, false, c⟩
      else if cbs.isEmpty then
        ⟨ts s (sliceSrc reference n b k).1 (sliceSrc reference n b k).2, d + 1, false, false, c⟩
      else
        ⟨ts s (sliceSrc reference n b k).1 (sliceSrc reference n b k).2, d + 1, cbs.any (fun cb => cb (d + 1)), false,
          c ++ (List.range' 0 cbs.length).map (fun j => (j, d + 1))⟩ := by
  have hb : reference.body = [.train, .incIter, .checkMax, .callbacks] := rfl
  have hi : ∀ i, reference.incIter i = i + 1 := fun _ => rfl
  have hs : ∀ i, reference.cbStep i = i := fun _ => rfl
  have e0 : reference.exitMax = .returnSelf := rfl
  have e1 : reference.exitStop = .returnSelf := rfl
  have e2 : reference.stopAcc = .orAcc := rfl
  have e3 : reference.stopInit = false := rfl
  simp only [bodyStep, hb, List.foldl_cons, List.foldl_nil, execEv, hi, hs, Bool.or_self, Bool.false_eq_true, if_false]
  generalize sliceSrc reference n b k = sl
  generalize reference.hitMax mi (d + 1) = hm
  cases hm with
  | true => simp [doExit, e0]
  | false =>
    by_cases h2 : cbs.isEmpty = true
    · simp [h2]
    · simp only [h2, Bool.false_eq_true, if_false, Bool.or_self, e1, e2, e3, runCbs_or, Bool.false_or, doExit]
      by_cases h3 : cbs.any (fun cb => cb (d + 1)) = true
      · simp [h3]
      · simp [h3]


theorem bodyStep_ref_broke {σ : Type} (mi : Int) (cbs : List (Int → Bool)) (ts : σ → Nat → Nat → σ) (b n : Int)
    (st : St σ) (k : Nat) : (bodyStep reference mi cbs ts b n st k).broke = st.broke := by
  obtain ⟨s, d, r, br, c⟩ := st
  cases r with
  | true => simp [bodyStep]
  | false =>
    cases br with
    | true => simp [bodyStep]
    | false =>
      rw [bodyStep_ref]
      split
      · rfl
      · split <;> rfl

theorem foldl_bodyStep_ref_broke {σ : Type} (mi : Int) (cbs : List (Int → Bool)) (ts : σ → Nat → Nat → σ) (b n : Int)
    (L : List Nat) (st : St σ) : (L.foldl (bodyStep reference mi cbs ts b n) st).broke = st.broke := by
  induction L generalizing st with
  | nil => rfl
  | cons k L ih => simp only [List.foldl_cons, ih, bodyStep_ref_broke]

/-- at the reference configuration nothing ever `break`s, so the epoch loop is a plain fold of the batch loop -/
theorem epochStep_ref {σ : Type} (mi : Int) (cbs : List (Int → Bool)) (ts : σ → Nat → Nat → σ) (b n bt : Int)
    (st : St σ) (e : Nat) (h : st.broke = false) :
    epochStep reference mi cbs ts b n bt st e = (List.range bt.toNat).foldl (bodyStep reference mi cbs ts b n) st := by
  have hset : ∀ r : St σ, r.broke = false → ({ r with broke := false } : St σ) = r := by
    intro r hr; cases r; simp_all
  unfold epochStep
  obtain ⟨s, d, r, br, c⟩ := st
  simp only at h
  subst h
  cases r with
  | true =>
    simp only [if_true]
    exact (foldl_bodyStep_of_returned _ _ _ _ _ _ _ _ rfl).symm
  | false =>
    simp only [Bool.false_eq_true, if_false]
    exact hset _ (by rw [foldl_bodyStep_ref_broke])

theorem foldl_epochStep_ref {σ : Type} (mi : Int) (cbs : List (Int → Bool)) (ts : σ → Nat → Nat → σ) (b n bt : Int)
    (l : List Nat) (st : St σ) (h : st.broke = false) :
    l.foldl (epochStep reference mi cbs ts b n bt) st =
      (l.flatMap (fun _ => List.range bt.toNat)).foldl (bodyStep reference mi cbs ts b n) st := by
  induction l generalizing st with
  | nil => rfl
  | cons e l ih =>
    simp only [List.foldl_cons, List.flatMap_cons, List.foldl_append, epochStep_ref mi cbs ts b n bt st e h]
    exact ih _ (by rw [foldl_bodyStep_ref_broke]; exact h)

/-- the batch loop at the reference configuration, run over any list of batch numbers from a live state, performs
    exactly the steps of `Schedule.run` on the corresponding slices and records exactly the documented callback
    invocations -/
theorem foldl_bodyStep_run {σ : Type} (mi : Option Nat) (cbs : List (Int → Bool)) (ts : σ → Nat → Nat → σ) (n b : Nat)
    (L : List Nat) (s : σ) (d : Nat) (c : List (Nat × Int)) :
    let R := run mi (!cbs.isEmpty) (fun k => cbs.any (fun cb => cb (k : Int))) d (L.map (sliceOf n b))
    let r := L.foldl (bodyStep reference (enc mi) cbs ts b n) ⟨s, d, false, false, c⟩
    r.state = partialFitSeq ts s R ∧ r.nIter = ((d + R.length : Nat) : Int) ∧ r.calls = c ++ callsOf cbs.length R := by
  induction L generalizing s d c with
  | nil => simp [run, partialFitSeq, callsOf]
  | cons k L ih =>
    simp only [List.foldl_cons, List.map_cons]
    rw [bodyStep_ref, hitMax_ref, sliceSrc_ref]
    unfold run
    by_cases h1 : Schedule.hitMax mi (d + 1) = true
    · simp only [h1, if_true]
      rw [foldl_bodyStep_of_returned _ _ _ _ _ _ _ _ rfl]
      simp [partialFitSeq, callsOf]
    · simp only [h1, Bool.false_eq_true, if_false]
      by_cases h2 : cbs.isEmpty = true
      · have hnil : cbs = [] := List.isEmpty_iff.mp h2
        subst hnil
        have := ih (ts s (sliceOf n b k).1 (sliceOf n b k).2) (d + 1) c
        simp only [List.isEmpty_nil, Bool.not_true, Bool.false_and, Bool.false_eq_true, if_false, if_true,
          partialFitSeq, List.foldl_cons, List.length_cons, callsOf, List.flatMap_cons, List.nil_append,
          List.any_nil] at this ⊢
        have e : ((d : Int) + 1) = ((d + 1 : Nat) : Int) := by push_cast; rfl
        rw [e]
        refine ⟨this.1, ?_, this.2.2⟩
        rw [this.2.1]; push_cast; ring
      · simp only [h2, Bool.false_eq_true, if_false, Bool.not_false, Bool.true_and]
        have e : ((d : Int) + 1) = ((d + 1 : Nat) : Int) := by push_cast; rfl
        by_cases h3 : cbs.any (fun cb => cb ((d + 1 : Nat) : Int)) = true
        · rw [e]
          simp only [h3, if_true]
          rw [foldl_bodyStep_of_returned _ _ _ _ _ _ _ _ rfl]
          simp [partialFitSeq, callsOf]
        · rw [e]
          simp only [h3, Bool.false_eq_true, if_false]
          have := ih (ts s (sliceOf n b k).1 (sliceOf n b k).2) (d + 1)
            (c ++ (List.range' 0 cbs.length).map (fun j => (j, ((d + 1 : Nat) : Int))))
          simp only [h2, Bool.not_false] at this
          simp only [partialFitSeq, List.foldl_cons, List.length_cons, callsOf, List.flatMap_cons, if_true,
            List.append_assoc] at this ⊢
          refine ⟨this.1, ?_, this.2.2⟩
          rw [this.2.1]; push_cast; ring


/-! ### the interpreter at the reference configuration is the `Schedule` model -/

theorem enc_ne_neg_one (k : Nat) : ((k : Int) == -1) = false := by
  simp

theorem rejects_ref (ep mi : Option Nat) (bt : Nat) :
    reference.rejects (enc ep) (enc mi) = (epochsOf ep mi bt).isNone := by
  cases ep <;> cases mi <;> simp [reference, enc, epochsOf, enc_ne_neg_one]

theorem batchSize_ref (n : Nat) (bs : Option Nat) :
    reference.batchSize (enc bs) (n : Int) = ((batchSizeOf n bs : Nat) : Int) := by
  cases bs <;> simp [reference, enc, batchSizeOf]

theorem batches_ref (n b : Nat) (hb : 0 < b) : reference.batches (n : Int) (b : Int) = ((batchesOf n b : Nat) : Int) :=
  pyCeilDiv_natCast n b hb

theorem epochs_ref (ep mi : Option Nat) (bt e : Nat) (hbt : 0 < bt) (h : epochsOf ep mi bt = some e) :
    reference.epochs (enc ep) (enc mi) (bt : Int) = (e : Int) := by
  cases ep with
  | some e' => simp [epochsOf] at h; subst h; simp [reference, enc]
  | none =>
    cases mi with
    | none => simp [epochsOf] at h
    | some m =>
      simp [epochsOf] at h; subst h
      simp only [reference, enc]
      exact pyCeilDiv_natCast m bt hbt

theorem allSlices_eq_map (n b e : Nat) :
    allSlices n b e = ((List.range e).flatMap (fun _ => List.range (batchesOf n b))).map (sliceOf n b) := by
  simp [allSlices, epochSlices, List.map_flatMap]

/-- `fit` interpreted at the reference configuration: rejected exactly when the `Schedule` model rejects; otherwise the
    final training state is the fold of the single-step entry point over the scheduled slices, `n_iter_` is the number
    of scheduled steps, and the callbacks were invoked exactly as `callsOf` documents. -/
theorem fit_reference {σ : Type} (n : Nat) (bs ep mi : Option Nat) (cbs : List (Int → Bool))
    (ts : σ → Nat → Nat → σ) (s0 : σ) (hn : 0 < n) (hbs : ∀ k, bs = some k → 0 < k) :
    match schedule n bs ep mi (!cbs.isEmpty) (fun k => cbs.any (fun cb => cb (k : Int))) with
    | none => fit reference n (enc bs) (enc ep) (enc mi) cbs ts s0 = none
    | some steps => ∃ st, fit reference n (enc bs) (enc ep) (enc mi) cbs ts s0 = some st ∧
        st.state = partialFitSeq ts s0 steps ∧ st.nIter = (steps.length : Int) ∧
        st.calls = callsOf cbs.length steps := by
  have hb : 0 < batchSizeOf n bs := by
    cases bs with
    | none => exact hn
    | some k => exact hbs k rfl
  have hbt : 0 < batchesOf n (batchSizeOf n bs) := ceilDiv_pos n _ hn hb
  simp only [schedule, fit]
  rw [rejects_ref ep mi (batchesOf n (batchSizeOf n bs))]
  cases he : epochsOf ep mi (batchesOf n (batchSizeOf n bs)) with
  | none => simp
  | some e =>
    simp only [Option.isNone_some, Bool.false_eq_true, if_false]
    refine ⟨_, rfl, ?_⟩
    rw [batchSize_ref, batches_ref n _ hb, epochs_ref ep mi _ e hbt he]
    simp only [Int.toNat_natCast]
    rw [foldl_epochStep_ref _ _ _ _ _ _ _ _ rfl, allSlices_eq_map]
    simp only [Int.toNat_natCast]
    have h0 : (reference.nIterInit : Int) = ((0 : Nat) : Int) := rfl
    rw [h0]
    have := foldl_bodyStep_run mi cbs ts n (batchSizeOf n bs)
      ((List.range e).flatMap (fun _ => List.range (batchesOf n (batchSizeOf n bs)))) s0 0 []
    simpa using this


theorem epochSlicesSrc_ref (n : Nat) (bs : Option Nat) (hn : 0 < n) (hbs : ∀ k, bs = some k → 0 < k) :
    epochSlicesSrc reference n (enc bs) = epochSlices n (batchSizeOf n bs) := by
  have hb : 0 < batchSizeOf n bs := by
    cases bs with
    | none => exact hn
    | some k => exact hbs k rfl
  simp only [epochSlicesSrc, epochSlices, batchSize_ref, batches_ref n _ hb, Int.toNat_natCast]
  apply List.map_congr_left
  intro k _
  exact sliceSrc_ref n _ k

end SchedL
