import FairModel.Lemmas.Fairness

/-! Helper lemmas added by the review of C03: first-principles definitions of the REMAINING base metrics
behind the generated `<metric>_<transform>` functions (true/false negative rate, accuracy, zero-one loss,
mean absolute / squared error) and the proof that the pool cells (`MetricPool.eval`, for the rates the
`BaseMetrics` model of sklearn's normalised confusion matrix) equal them on every non-empty slice.
The specification side is written with `wsum` (filter, then sum the weights) and Mathlib's `|·|`, `^2`;
the model side with `sumBy` of if-then-else summands resp. the confusion-matrix cells. -/

namespace Fairness
open Frame Aggregate MetricPool XR

/-- Σ_{y=0,pred=0} w / Σ_{y=0} w, and 0 when no row has y=0 (empty denominator) -/
def tnrSpec (ds : List Dat) : Rat :=
  if wsum (fun d => d.y == 0) ds = 0 then 0
  else wsum (fun d => d.y == 0 && d.pred == 0) ds / wsum (fun d => d.y == 0) ds

/-- Σ_{y=1,pred=0} w / Σ_{y=1} w, and 0 when no row has y=1 -/
def fnrSpec (ds : List Dat) : Rat :=
  if wsum (fun d => d.y == 1) ds = 0 then 0
  else wsum (fun d => d.y == 1 && d.pred == 0) ds / wsum (fun d => d.y == 1) ds

/-- Σ_{y=pred} w / Σ w -/
def accuracySpec (ds : List Dat) : Rat := wsum (fun d => d.y == d.pred) ds / wsum (fun _ => true) ds
/-- Σ_{y≠pred} w / Σ w -/
def zeroOneSpec (ds : List Dat) : Rat := wsum (fun d => !(d.y == d.pred)) ds / wsum (fun _ => true) ds
/-- Σ w·|y − pred| / Σ w -/
def maeSpec (ds : List Dat) : Rat :=
  (ds.map (fun d => d.p0 * |d.y - d.pred|)).sum / wsum (fun _ => true) ds
/-- Σ w·(y − pred)² / Σ w -/
def mseSpec (ds : List Dat) : Rat :=
  (ds.map (fun d => d.p0 * (d.y - d.pred) ^ 2)).sum / wsum (fun _ => true) ds
/-- Σ w·pred / Σ w -/
def meanPredictionSpec (ds : List Dat) : Rat :=
  (ds.map (fun d => d.p0 * d.pred)).sum / wsum (fun _ => true) ds

theorem fnr_eq_spec {ds : List Dat} (h : Binary ds) (hne : ds ≠ []) :
    eval .fnr ds = .scalar (fin (fnrSpec ds)) := by
  simp only [eval, rateCell, binary_isInt h, if_true, BaseMetrics.rate]
  have key : ∀ neg : Int, (neg = 0 ∨ (neg = BaseMetrics.int64Min ∧ ∀ d ∈ ds, d.y = 1 ∧ d.pred = 1)) →
      BaseMetrics.fnrOf (ds.map toBM) neg 1 = fnrSpec ds := by
    intro neg hneg
    simp only [BaseMetrics.fnrOf, BaseMetrics.rowTot, BaseMetrics.cell, wsum_toBM, fnrSpec]
    have e11 : wsum (fun d => (toBM d).yt == 1 && (toBM d).yp == 1) ds = wsum (fun d => d.y == 1 && d.pred == 1) ds := by
      apply wsum_congr; intro d hd
      simp only [toBM]
      rw [num_eq_iff (h d hd).1 1 (Or.inr rfl), num_eq_iff (h d hd).2 1 (Or.inr rfl)]; simp
    have e1n : wsum (fun d => (toBM d).yt == 1 && (toBM d).yp == neg) ds = wsum (fun d => d.y == 1 && !(d.pred == 1)) ds := by
      rcases hneg with rfl | ⟨rfl, hall⟩
      · apply wsum_congr; intro d hd
        simp only [toBM]
        rw [num_eq_iff (h d hd).1 1 (Or.inr rfl), num_eq_iff (h d hd).2 0 (Or.inl rfl)]
        rcases (h d hd).2 with h2 | h2 <;> simp [h2]
      · rw [wsum_eq_zero_of_none, wsum_eq_zero_of_none]
        · intro d hd; simp [(hall d hd).2]
        · intro d hd; simp [toBM, (hall d hd).2, BaseMetrics.int64Min]
    have e10 : wsum (fun d => d.y == 1 && d.pred == 0) ds = wsum (fun d => d.y == 1 && !(d.pred == 1)) ds := by
      apply wsum_congr; intro d hd
      rcases (h d hd).2 with h2 | h2 <;> simp [h2]
    rw [e11, e1n, e10, add_comm, ← wsum_split (fun d => d.y == 1) (fun d => d.pred == 1) ds]
    rfl
  rcases labelsForCM_binary h hne with h0 | ⟨h0, hall⟩
  · rw [h0]; simp only [BaseMetrics.rateOf, Cell.ofRat]; rw [key 0 (Or.inl rfl)]
  · rw [h0]; simp only [BaseMetrics.rateOf, Cell.ofRat]; rw [key _ (Or.inr ⟨rfl, hall⟩)]

theorem tnr_eq_spec {ds : List Dat} (h : Binary ds) (hne : ds ≠ []) :
    eval .tnr ds = .scalar (fin (tnrSpec ds)) := by
  simp only [eval, rateCell, binary_isInt h, if_true, BaseMetrics.rate]
  have key : ∀ neg : Int, (neg = 0 ∨ (neg = BaseMetrics.int64Min ∧ ∀ d ∈ ds, d.y = 1 ∧ d.pred = 1)) →
      BaseMetrics.tnrOf (ds.map toBM) neg 1 = tnrSpec ds := by
    intro neg hneg
    simp only [BaseMetrics.tnrOf, BaseMetrics.rowTot, BaseMetrics.cell, wsum_toBM, tnrSpec]
    rcases hneg with rfl | ⟨rfl, hall⟩
    · have e01 : wsum (fun d => (toBM d).yt == 0 && (toBM d).yp == 1) ds = wsum (fun d => d.y == 0 && d.pred == 1) ds := by
        apply wsum_congr; intro d hd
        simp only [toBM]
        rw [num_eq_iff (h d hd).1 0 (Or.inl rfl), num_eq_iff (h d hd).2 1 (Or.inr rfl)]; simp
      have e00 : wsum (fun d => (toBM d).yt == 0 && (toBM d).yp == 0) ds = wsum (fun d => d.y == 0 && !(d.pred == 1)) ds := by
        apply wsum_congr; intro d hd
        simp only [toBM]
        rw [num_eq_iff (h d hd).1 0 (Or.inl rfl), num_eq_iff (h d hd).2 0 (Or.inl rfl)]
        rcases (h d hd).2 with h2 | h2 <;> simp [h2]
      have e0 : wsum (fun d => d.y == 0 && d.pred == 0) ds = wsum (fun d => d.y == 0 && !(d.pred == 1)) ds := by
        apply wsum_congr; intro d hd
        rcases (h d hd).2 with h2 | h2 <;> simp [h2]
      rw [e01, e00, e0, add_comm, ← wsum_split (fun d => d.y == 0) (fun d => d.pred == 1) ds]
      rfl
    · have z1 : wsum (fun d => (toBM d).yt == BaseMetrics.int64Min && (toBM d).yp == 1) ds = 0 :=
        wsum_eq_zero_of_none (by intro d hd; simp [toBM, (hall d hd).1, BaseMetrics.int64Min])
      have z2 : wsum (fun d => (toBM d).yt == BaseMetrics.int64Min && (toBM d).yp == BaseMetrics.int64Min) ds = 0 :=
        wsum_eq_zero_of_none (by intro d hd; simp [toBM, (hall d hd).1, BaseMetrics.int64Min])
      have z3 : wsum (fun d => d.y == 0) ds = 0 :=
        wsum_eq_zero_of_none (by intro d hd; simp [(hall d hd).1])
      rw [z1, z2, z3]; simp [BaseMetrics.ratio]
  rcases labelsForCM_binary h hne with h0 | ⟨h0, hall⟩
  · rw [h0]; simp only [BaseMetrics.rateOf, Cell.ofRat]; rw [key 0 (Or.inl rfl)]
  · rw [h0]; simp only [BaseMetrics.rateOf, Cell.ofRat]; rw [key _ (Or.inr ⟨rfl, hall⟩)]

/-! ### the `Σ … / Σ w` metrics -/

theorem sumBy_p0_eq_wsum (ds : List Dat) : sumBy (·.p0) ds = wsum (fun _ => true) ds := by
  simp [sumBy, wsum]

/-- with positive weights on a non-empty slice the numpy quotient is the exact finite quotient -/
theorem quot_pos (n : Rat) {ds : List Dat} (hw : ∀ d ∈ ds, 0 < d.p0) (hne : ds ≠ []) :
    quot n (sumBy (·.p0) ds) = .scalar (fin (n / wsum (fun _ => true) ds)) := by
  have hpos := wsum_true_pos hw hne
  unfold quot
  rw [sumBy_p0_eq_wsum, div_fin_fin, if_neg (ne_of_gt hpos)]

theorem sumBy_ite_wsum (p : Dat → Bool) (ds : List Dat) :
    sumBy (fun d => if p d then d.p0 else 0) ds = wsum p ds := by
  induction ds with
  | nil => simp [sumBy, wsum]
  | cons d ds ih =>
    simp only [sumBy, wsum, List.map_cons, List.sum_cons, List.filter_cons] at ih ⊢
    by_cases hp : p d <;> simp [hp, ih]

theorem accuracy_eq_spec {ds : List Dat} (hw : ∀ d ∈ ds, 0 < d.p0) (hne : ds ≠ []) :
    eval .accuracy ds = .scalar (fin (accuracySpec ds)) := by
  have e : sumBy (fun d => if d.y = d.pred then d.p0 else 0) ds = wsum (fun d => d.y == d.pred) ds := by
    rw [← sumBy_ite_wsum]
    unfold sumBy; congr 1; apply List.map_congr_left; intro d _
    by_cases hq : d.y = d.pred <;> simp [hq]
  simp only [eval]
  rw [quot_pos _ hw hne, e]
  rfl

theorem zeroOne_eq_spec {ds : List Dat} (hw : ∀ d ∈ ds, 0 < d.p0) (hne : ds ≠ []) :
    eval .zeroOne ds = .scalar (fin (zeroOneSpec ds)) := by
  have e : sumBy (fun d => if d.y = d.pred then 0 else d.p0) ds = wsum (fun d => !(d.y == d.pred)) ds := by
    rw [← sumBy_ite_wsum]
    unfold sumBy; congr 1; apply List.map_congr_left; intro d _
    by_cases hq : d.y = d.pred <;> simp [hq]
  simp only [eval]
  rw [quot_pos _ hw hne, e]
  rfl

theorem mae_eq_spec {ds : List Dat} (hw : ∀ d ∈ ds, 0 < d.p0) (hne : ds ≠ []) :
    eval .mae ds = .scalar (fin (maeSpec ds)) := by
  have e : sumBy (fun d => (if d.y - d.pred < 0 then d.pred - d.y else d.y - d.pred) * d.p0) ds =
      (ds.map (fun d => d.p0 * |d.y - d.pred|)).sum := by
    unfold sumBy; congr 1; apply List.map_congr_left; intro d _
    by_cases hq : d.y - d.pred < 0
    · rw [if_pos hq, abs_of_neg hq]; ring
    · rw [if_neg hq, abs_of_nonneg (not_lt.mp hq)]; ring
  simp only [eval]
  rw [quot_pos _ hw hne, e]
  rfl

theorem mse_eq_spec {ds : List Dat} (hw : ∀ d ∈ ds, 0 < d.p0) (hne : ds ≠ []) :
    eval .mse ds = .scalar (fin (mseSpec ds)) := by
  have e : sumBy (fun d => (d.y - d.pred) * (d.y - d.pred) * d.p0) ds =
      (ds.map (fun d => d.p0 * (d.y - d.pred) ^ 2)).sum := by
    unfold sumBy; congr 1; apply List.map_congr_left; intro d _
    ring
  simp only [eval]
  rw [quot_pos _ hw hne, e]
  rfl

theorem meanpred_eq_spec {ds : List Dat} (hw : ∀ d ∈ ds, 0 < d.p0) (hne : ds ≠ []) :
    eval .meanpred ds = .scalar (fin (meanPredictionSpec ds)) := by
  have e : sumBy (fun d => d.pred * d.p0) ds = (ds.map (fun d => d.p0 * d.pred)).sum := by
    unfold sumBy; congr 1; apply List.map_congr_left; intro d _
    ring
  simp only [eval]
  rw [quot_pos _ hw hne, e]
  rfl

end Fairness
