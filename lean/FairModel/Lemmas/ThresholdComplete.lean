/-
Completeness of the sweep: EVERY threshold operation `ThresholdOperation(">", t)` (and `("<", t)` when flip is
allowed), for an arbitrary threshold `t` (finite or ±inf, possibly equal to a score), predicts on the group's rows
exactly like one of the tradeoff points of `_calculate_tradeoff_points`.  Hence "mixtures of tradeoff points" in
C05 are all randomisations over thresholdings of the scores.
-/
import FairModel.Lemmas.ThresholdGroup

set_option linter.unusedSimpArgs false

namespace Threshold
open ThresholdGen

/-- upward closed score predicates -/
def UpClosed (P : Rat → Bool) : Prop := ∀ s s', s ≤ s' → P s = true → P s' = true

theorem below_upClosed (t : Thr) : UpClosed t.below := by
  intro s s' h hs
  cases t with
  | pinf => simp [Thr.below, src_opGt_eq] at hs
  | ninf => rfl
  | fin q =>
    simp only [Thr.below, src_opGt_eq, decide_eq_true_eq] at hs ⊢
    linarith

theorem not_above_upClosed (t : Thr) : UpClosed (fun s => !t.above s) := by
  intro s s' h hs
  cases t with
  | pinf => simp [Thr.above, src_opLt_eq] at hs
  | ninf => rfl
  | fin q =>
    simp only [Thr.above, src_opLt_eq, Bool.not_eq_true', decide_eq_false_iff_not, not_lt] at hs ⊢
    linarith

theorem sweepAux_complete (P : Rat → Bool) (hP : UpClosed P) (suf : List Row) :
    ∀ (c0 c1 : Nat), DescSorted suf → (∀ r, suf.head? = some r → P r.score = true) → suf ≠ [] →
    ∃ s ∈ sweepAux suf c0 c1, ∀ x ∈ suf, s.1.below x.score = P x.score := by
  induction suf with
  | nil => intro _ _ _ _ h; exact absurd rfl h
  | cons r rest ih =>
    intro c0 c1 hs hhead _
    have hPr : P r.score = true := hhead r rfl
    unfold sweepAux
    cases rest with
    | nil =>
      refine ⟨_, List.mem_singleton.mpr rfl, ?_⟩
      intro x hx
      simp only [List.mem_singleton] at hx
      subst hx
      simp [Thr.below, src_opGt_eq, hPr, src_thrSentinel]
    | cons r' rest' =>
      simp only [src_midThreshold]
      have hs' : DescSorted (r' :: rest') := (List.pairwise_cons.mp hs).2
      have hrr' : r'.score ≤ r.score := (List.pairwise_cons.mp hs).1 r' (by simp)
      have hrest : ∀ x ∈ r' :: rest', x.score ≤ r'.score := by
        intro x hx
        rcases List.mem_cons.mp hx with rfl | hx
        · exact le_refl _
        · exact (List.pairwise_cons.mp hs').1 x hx
      split
      · next heq =>
        obtain ⟨s, hs1, hs2⟩ := ih (if r.label then c0 else c0 + 1) (if r.label then c1 + 1 else c1) hs'
          (fun x hx => by simp only [List.head?_cons, Option.some.injEq] at hx; subst hx; rw [heq]; exact hPr)
          (by simp)
        refine ⟨s, hs1, ?_⟩
        intro x hx
        rcases List.mem_cons.mp hx with rfl | hx
        · have := hs2 r' (by simp)
          rw [heq] at this; exact this
        · exact hs2 x hx
      · next hne =>
        have hlt : r'.score < r.score := lt_of_le_of_ne hrr' hne
        by_cases hPr' : P r'.score = true
        · obtain ⟨s, hs1, hs2⟩ := ih (if r.label then c0 else c0 + 1) (if r.label then c1 + 1 else c1) hs'
            (fun x hx => by simp only [List.head?_cons, Option.some.injEq] at hx; subst hx; exact hPr')
            (by simp)
          refine ⟨s, List.mem_cons_of_mem _ hs1, ?_⟩
          intro x hx
          rcases List.mem_cons.mp hx with rfl | hx
          · have h1 := hs2 r' (by simp)
            rw [hPr'] at h1
            rw [hPr]
            exact below_upClosed s.1 _ _ hrr' h1
          · exact hs2 x hx
        · refine ⟨_, List.mem_cons_self, ?_⟩
          intro x hx
          rcases List.mem_cons.mp hx with rfl | hx
          · simp only [Thr.below, src_opGt_eq, hPr, decide_eq_true_eq]; linarith
          · have hx' := hrest x hx
            have hPx : P x.score = false := by
              by_contra hc
              have hc' : P x.score = true := by simpa using hc
              exact hPr' (hP _ _ hx' hc')
            simp only [Thr.below, src_opGt_eq, hPx, decide_eq_false_iff_not, not_lt]; linarith

/-- every upward closed set of rows is the set above the threshold of some sweep step -/
theorem sweepSteps_complete (P : Rat → Bool) (hP : UpClosed P) (rows : List Row) :
    ∃ s ∈ sweepSteps rows, ∀ x ∈ rows, s.1.below x.score = P x.score := by
  have hperm := sortDesc_perm rows
  cases hL : sortDesc rows with
  | nil =>
    refine ⟨_, sweepSteps_has_pinf rows, ?_⟩
    intro x hx
    have := hperm.mem_iff.mpr hx
    rw [hL] at this; simp at this
  | cons r rest =>
    by_cases hr : P r.score = true
    · obtain ⟨s, hs1, hs2⟩ := sweepAux_complete P hP (r :: rest) 0 0 (hL ▸ sortDesc_sorted rows)
        (fun x hx => by simp only [List.head?_cons, Option.some.injEq] at hx; subst hx; exact hr) (by simp)
      refine ⟨s, ?_, fun x hx => hs2 x (hL ▸ hperm.mem_iff.mpr hx)⟩
      unfold sweepSteps; rw [hL]; exact List.mem_cons_of_mem _ hs1
    · -- the largest score fails P, so every score does
      refine ⟨_, sweepSteps_has_pinf rows, ?_⟩
      intro x hx
      have hx' : x ∈ r :: rest := hL ▸ hperm.mem_iff.mpr hx
      have hsorted : DescSorted (r :: rest) := hL ▸ sortDesc_sorted rows
      have hle : x.score ≤ r.score := by
        rcases List.mem_cons.mp hx' with rfl | h
        · exact le_refl _
        · exact (List.pairwise_cons.mp hsorted).1 x h
      have : P x.score = false := by
        by_contra hc
        have hc' : P x.score = true := by simpa using hc
        exact hr (hP _ _ hle hc')
      simp [Thr.below, src_opGt_eq, this]

theorem confusion_congr {o o' : Op} {rows : List Row} (h : ∀ r ∈ rows, o.apply r.score = o'.apply r.score) :
    confusion o rows = confusion o' rows := by
  unfold confusion expCM
  apply CM.ext' <;> (apply sumBy_congr; intro r hr; simp only [h r hr])

/-- **sweep_complete**: any threshold operation (with "<" only when flip is allowed) has the same confusion
    counts on the group's rows as one of the tradeoff points -/
theorem sweep_complete (flip : Bool) (xm ym : Metric) (rows : List Row) (o : Op)
    (ho : o.gt = true ∨ flip = true) :
    ∃ p ∈ rawPoints flip xm ym rows, p.op.gt = o.gt ∧ confusion p.op rows = confusion o rows := by
  cases hgt : o.gt with
  | true =>
    obtain ⟨s, hs1, hs2⟩ := sweepSteps_complete o.thr.below (below_upClosed _) rows
    refine ⟨_, mem_rawPoints.mpr ⟨s, hs1, (true, true), operations_has_gt flip, rfl⟩, rfl, ?_⟩
    apply confusion_congr
    intro r hr
    simp only [Op.apply, hgt, if_true]
    exact hs2 r hr
  | false =>
    have hflip : flip = true := by
      rcases ho with h | h
      · rw [hgt] at h; cases h
      · exact h
    obtain ⟨s, hs1, hs2⟩ := sweepSteps_complete (fun x => !o.thr.above x) (not_above_upClosed _) rows
    have hsound := sweepSteps_sound rows s hs1
    have hop : (false, false) ∈ operations flip := by
      rw [hflip]; simp [operations, operationsFlip]
    refine ⟨_, mem_rawPoints.mpr ⟨s, hs1, (false, false), hop, rfl⟩, rfl, ?_⟩
    apply confusion_congr
    intro r hr
    simp only [Op.apply, hgt, Bool.false_eq_true, if_false]
    rw [hsound.2.2 r hr, hs2 r hr]
    simp

end Threshold
