/-
Helper lemmas for C18: numpy's linear quantile on a sorted list (monotone, bounded, constant),
positive width, CI entry lists (length, order), count = n, index of by_group_ci.
-/
import FairModel.Lemmas.Weights
import FairModel.Model.Bootstrap

namespace Bootstrap
open BaseMetrics Weights

/-! ### sorting -/

theorem insertR_perm (x : Rat) (l : List Rat) : (insertR x l).Perm (x :: l) := by
  induction l with
  | nil => simp [insertR]
  | cons y ys ih =>
    unfold insertR
    split
    · exact List.Perm.refl _
    · exact (List.Perm.cons y ih).trans (List.Perm.swap x y ys)

theorem insertR_sorted (x : Rat) (l : List Rat) (hl : l.Pairwise (· ≤ ·)) :
    (insertR x l).Pairwise (· ≤ ·) := by
  induction l with
  | nil => simp [insertR]
  | cons y ys ih =>
    unfold insertR
    rw [List.pairwise_cons] at hl
    split
    · next h =>
      rw [List.pairwise_cons]
      refine ⟨?_, List.pairwise_cons.mpr hl⟩
      intro b hb
      rcases List.mem_cons.mp hb with rfl | hb
      · exact h
      · exact le_trans h (hl.1 b hb)
    · next h =>
      rw [List.pairwise_cons]
      refine ⟨?_, ih hl.2⟩
      intro b hb
      rcases List.mem_cons.mp ((insertR_perm x ys).mem_iff.mp hb) with rfl | hb
      · exact le_of_lt (not_le.mp h)
      · exact hl.1 b hb

theorem sortR_sorted (l : List Rat) : (sortR l).Pairwise (· ≤ ·) := by
  induction l with
  | nil => simp [sortR]
  | cons a t ih => exact insertR_sorted a _ ih

theorem sortR_perm (l : List Rat) : (sortR l).Perm l := by
  induction l with
  | nil => exact List.Perm.refl _
  | cons a t ih => exact (insertR_perm a _).trans (List.Perm.cons a ih)

@[simp] theorem sortR_length (l : List Rat) : (sortR l).length = l.length := (sortR_perm l).length_eq

theorem mem_sortR (x : Rat) (l : List Rat) : x ∈ sortR l ↔ x ∈ l := (sortR_perm l).mem_iff

theorem sortR_ne_nil (l : List Rat) (h : l ≠ []) : sortR l ≠ [] := by
  intro e
  have := sortR_length l
  rw [e] at this
  exact h (List.length_eq_zero_iff.mp this.symm)

theorem getD_eq (s : List Rat) (i : Nat) (hi : i < s.length) : s.getD i 0 = s[i] := by
  simp [List.getD_eq_getElem?_getD, hi]

theorem getD_mem (s : List Rat) (i : Nat) (hi : i < s.length) : s.getD i 0 ∈ s := by
  rw [getD_eq _ _ hi]; exact List.getElem_mem hi

theorem sorted_getD_le (s : List Rat) (hs : s.Pairwise (· ≤ ·)) (i j : Nat) (hij : i ≤ j)
    (hj : j < s.length) : s.getD i 0 ≤ s.getD j 0 := by
  rw [getD_eq _ _ hj, getD_eq _ _ (lt_of_le_of_lt hij hj)]
  rcases Nat.lt_or_eq_of_le hij with h | h
  · exact (List.pairwise_iff_getElem.mp hs) i j (lt_of_le_of_lt hij hj) hj h
  · subst h; exact le_refl _

/-! ### floor of a non-negative rational -/

theorem floor_facts (h : Rat) (h0 : 0 ≤ h) :
    ((h.floor.toNat : Nat) : Rat) ≤ h ∧ h < ((h.floor.toNat : Nat) : Rat) + 1 := by
  have hf : (0 : Int) ≤ h.floor := Rat.le_floor_iff.mpr (by simpa using h0)
  have e : ((h.floor.toNat : Nat) : Int) = h.floor := Int.toNat_of_nonneg hf
  have e' : ((h.floor.toNat : Nat) : Rat) = ((h.floor : Int) : Rat) := by
    exact_mod_cast congrArg (fun t : Int => (t : Rat)) e
  rw [e']
  refine ⟨Rat.floor_le h, ?_⟩
  have := Rat.lt_floor_add_one h
  push_cast at this
  exact this

theorem floor_toNat_mono (h1 h2 : Rat) (h : h1 ≤ h2) : h1.floor.toNat ≤ h2.floor.toNat :=
  Int.toNat_le_toNat (Rat.floor_monotone h)

theorem floor_toNat_le (h : Rat) (h0 : 0 ≤ h) (m : Nat) (hm : h ≤ (m : Rat)) : h.floor.toNat ≤ m := by
  have := (floor_facts h h0).1
  have : ((h.floor.toNat : Nat) : Rat) ≤ (m : Rat) := le_trans this hm
  exact_mod_cast this

theorem floor_toNat_eq (h : Rat) (j : Nat) (h1 : (j : Rat) ≤ h) (h2 : h < (j : Rat) + 1) :
    h.floor.toNat = j := by
  have h0 : 0 ≤ h := le_trans (by positivity) h1
  obtain ⟨a, b⟩ := floor_facts h h0
  have x1 : ((h.floor.toNat : Nat) : Rat) < (j : Rat) + 1 := lt_of_le_of_lt a h2
  have x2 : (j : Rat) < ((h.floor.toNat : Nat) : Rat) + 1 := lt_of_le_of_lt h1 b
  have y1 : h.floor.toNat < j + 1 := by exact_mod_cast x1
  have y2 : j < h.floor.toNat + 1 := by exact_mod_cast x2
  omega

/-! ### the interpolation function -/

/-- value at virtual index `h` -/
def interp (s : List Rat) (h : Rat) : Rat :=
  s.getD h.floor.toNat 0 +
    (s.getD (min (h.floor.toNat + 1) (s.length - 1)) 0 - s.getD h.floor.toNat 0) * (h - (h.floor.toNat : Rat))

theorem quantileSorted_eq (s : List Rat) (q : Rat) :
    quantileSorted s q = interp s (((s.length - 1 : Nat) : Rat) * q) := rfl

/-- at virtual index `h ∈ [0, k-1]` the value lies between the two neighbouring order statistics -/
theorem interp_bounds (s : List Rat) (hs : s.Pairwise (· ≤ ·)) (hne : s ≠ []) (h : Rat) (h0 : 0 ≤ h)
    (hk : h ≤ ((s.length - 1 : Nat) : Rat)) :
    s.getD h.floor.toNat 0 ≤ interp s h ∧
    interp s h ≤ s.getD (min (h.floor.toNat + 1) (s.length - 1)) 0 := by
  have hlen : 0 < s.length := List.length_pos_iff.mpr hne
  obtain ⟨f1, f2⟩ := floor_facts h h0
  have hj : h.floor.toNat ≤ s.length - 1 := floor_toNat_le h h0 _ hk
  have hab := sorted_getD_le s hs h.floor.toNat (min (h.floor.toNat + 1) (s.length - 1))
    (by omega) (by omega)
  unfold interp
  constructor
  · nlinarith
  · nlinarith

theorem interp_mono (s : List Rat) (hs : s.Pairwise (· ≤ ·)) (hne : s ≠ []) (h1 h2 : Rat)
    (h0 : 0 ≤ h1) (h12 : h1 ≤ h2) (hk : h2 ≤ ((s.length - 1 : Nat) : Rat)) :
    interp s h1 ≤ interp s h2 := by
  have hlen : 0 < s.length := List.length_pos_iff.mpr hne
  have h02 : 0 ≤ h2 := le_trans h0 h12
  have hj12 := floor_toNat_mono h1 h2 h12
  have hj2 : h2.floor.toNat ≤ s.length - 1 := floor_toNat_le h2 h02 _ hk
  obtain ⟨a1, b1⟩ := interp_bounds s hs hne h1 h0 (le_trans h12 hk)
  obtain ⟨a2, b2⟩ := interp_bounds s hs hne h2 h02 hk
  rcases Nat.lt_or_eq_of_le hj12 with hlt | heq
  · -- different cells: interp h1 ≤ s[j1+1] ≤ s[j2] ≤ interp h2
    have hmid := sorted_getD_le s hs (min (h1.floor.toNat + 1) (s.length - 1)) h2.floor.toNat
      (by omega) (by omega)
    linarith
  · -- same cell: same end points, larger fraction
    obtain ⟨f1, _⟩ := floor_facts h1 h0
    have hab := sorted_getD_le s hs h2.floor.toNat (min (h2.floor.toNat + 1) (s.length - 1))
      (by omega) (by omega)
    unfold interp
    rw [heq]
    have : h1 - (h2.floor.toNat : Rat) ≤ h2 - (h2.floor.toNat : Rat) := by linarith
    nlinarith

/-! ### the quantile of an arbitrary non-empty list -/

theorem quantileLinear_eq (xs : List Rat) (q : Rat) :
    quantileLinear xs q = interp (sortR xs) (((xs.length - 1 : Nat) : Rat) * q) := by
  unfold quantileLinear; rw [quantileSorted_eq, sortR_length]

theorem vindex_range (k : Nat) (q : Rat) (q0 : 0 ≤ q) (q1 : q ≤ 1) :
    0 ≤ ((k - 1 : Nat) : Rat) * q ∧ ((k - 1 : Nat) : Rat) * q ≤ ((k - 1 : Nat) : Rat) := by
  have : (0 : Rat) ≤ ((k - 1 : Nat) : Rat) := by positivity
  constructor
  · positivity
  · nlinarith

theorem quantileLinear_mono (xs : List Rat) (hne : xs ≠ []) (q1 q2 : Rat) (h0 : 0 ≤ q1) (h12 : q1 ≤ q2)
    (h1 : q2 ≤ 1) : quantileLinear xs q1 ≤ quantileLinear xs q2 := by
  rw [quantileLinear_eq, quantileLinear_eq]
  have hk : (0 : Rat) ≤ ((xs.length - 1 : Nat) : Rat) := by positivity
  apply interp_mono _ (sortR_sorted xs) (sortR_ne_nil xs hne)
  · exact (vindex_range _ q1 h0 (le_trans h12 h1)).1
  · exact mul_le_mul_of_nonneg_left h12 hk
  · rw [sortR_length]; exact (vindex_range _ q2 (le_trans h0 h12) h1).2

theorem quantileLinear_mem_bounds (xs : List Rat) (hne : xs ≠ []) (q : Rat) (q0 : 0 ≤ q) (q1 : q ≤ 1) :
    ∃ a ∈ xs, ∃ b ∈ xs, a ≤ quantileLinear xs q ∧ quantileLinear xs q ≤ b := by
  rw [quantileLinear_eq]
  have hs := sortR_sorted xs
  have hne' := sortR_ne_nil xs hne
  have hlen : 0 < (sortR xs).length := List.length_pos_iff.mpr hne'
  obtain ⟨r0, r1⟩ := vindex_range xs.length q q0 q1
  have hk : ((xs.length - 1 : Nat) : Rat) * q ≤ (((sortR xs).length - 1 : Nat) : Rat) := by
    rw [sortR_length]; exact r1
  obtain ⟨a, b⟩ := interp_bounds _ hs hne' _ r0 hk
  have hj := floor_toNat_le _ r0 _ hk
  refine ⟨_, (mem_sortR _ _).mp (getD_mem _ _ (by omega)), _, (mem_sortR _ _).mp (getD_mem _ _ (by omega)), a, b⟩

theorem quantileLinear_between (xs : List Rat) (hne : xs ≠ []) (q : Rat) (q0 : 0 ≤ q) (q1 : q ≤ 1)
    (lo hi : Rat) (hb : ∀ x ∈ xs, lo ≤ x ∧ x ≤ hi) :
    lo ≤ quantileLinear xs q ∧ quantileLinear xs q ≤ hi := by
  obtain ⟨a, ha, b, hb', h1, h2⟩ := quantileLinear_mem_bounds xs hne q q0 q1
  exact ⟨le_trans (hb a ha).1 h1, le_trans h2 (hb b hb').2⟩

theorem quantileLinear_const (xs : List Rat) (hne : xs ≠ []) (c : Rat) (hc : ∀ x ∈ xs, x = c)
    (q : Rat) (q0 : 0 ≤ q) (q1 : q ≤ 1) : quantileLinear xs q = c := by
  have := quantileLinear_between xs hne q q0 q1 c c (fun x hx => by rw [hc x hx]; exact ⟨le_refl _, le_refl _⟩)
  exact le_antisymm this.2 this.1

end Bootstrap

namespace Bootstrap
open BaseMetrics Weights

/-! ### positive width for a non-constant sample list -/

theorem interp_width (s : List Rat) (hs : s.Pairwise (· ≤ ·)) (k : Nat) (hk : s.length = k + 2)
    (hmM : s.getD 0 0 < s.getD (k + 1) 0) (h1 h2 : Rat) (h10 : 0 ≤ h1) (h11 : h1 < 1) (h12 : h1 < h2)
    (hlo : (k : Rat) < h2) (hhi : h2 ≤ (k : Rat) + 1) : interp s h1 < interp s h2 := by
  have j1 : h1.floor.toNat = 0 := floor_toNat_eq h1 0 (by simpa using h10) (by simpa using h11)
  have A : interp s h1 = s.getD 0 0 + (s.getD 1 0 - s.getD 0 0) * h1 := by
    unfold interp; rw [j1]
    have : min (0 + 1) (s.length - 1) = 1 := by omega
    rw [this]; simp
  have s01 := sorted_getD_le s hs 0 1 (by omega) (by omega)
  have s1k := sorted_getD_le s hs 1 (k + 1) (by omega) (by omega)
  have skk := sorted_getD_le s hs k (k + 1) (by omega) (by omega)
  rcases eq_or_lt_of_le hhi with heq | hlt
  · -- h2 = k+1 : the maximum
    have j2 : h2.floor.toNat = k + 1 := floor_toNat_eq h2 (k + 1) (by push_cast; linarith) (by push_cast; linarith)
    have B : interp s h2 = s.getD (k + 1) 0 := by
      unfold interp; rw [j2]
      have : min (k + 1 + 1) (s.length - 1) = k + 1 := by omega
      rw [this]; simp
    rw [A, B]; nlinarith
  · have j2 : h2.floor.toNat = k := floor_toNat_eq h2 k (le_of_lt hlo) hlt
    have B : interp s h2 = s.getD k 0 + (s.getD (k + 1) 0 - s.getD k 0) * (h2 - (k : Rat)) := by
      unfold interp; rw [j2]
      have : min (k + 1) (s.length - 1) = k + 1 := by omega
      rw [this]
    rw [A, B]
    rcases Nat.eq_zero_or_pos k with hk0 | hkpos
    · subst hk0
      simp only [Nat.cast_zero, sub_zero, zero_add] at *
      nlinarith
    · have s1k' := sorted_getD_le s hs 1 k (by omega) (by omega)
      have g0 : 0 < h2 - (k : Rat) := by linarith
      have g1 : h2 - (k : Rat) < 1 := by linarith
      by_cases c1 : s.getD 0 0 < s.getD 1 0
      · nlinarith
      · have e01 : s.getD 0 0 = s.getD 1 0 := le_antisymm s01 (not_lt.mp c1)
        by_cases c2 : s.getD k 0 < s.getD (k + 1) 0
        · nlinarith
        · have ekk : s.getD k 0 = s.getD (k + 1) 0 := le_antisymm skk (not_lt.mp c2)
          rw [e01, ekk]; nlinarith

/-- a sample list that is not constant has a strictly positive width between a low and a high
    quantile: `q_lo·(k−1) < 1`, `q_hi·(k−1) > k−2`, `q_lo < q_hi` (k = number of samples) -/
theorem quantileLinear_width (xs : List Rat) (a b : Rat) (ha : a ∈ xs) (hb : b ∈ xs) (hab : a < b)
    (qlo qhi : Rat) (h0 : 0 ≤ qlo) (h1 : qhi ≤ 1) (hlt : qlo < qhi)
    (hlo : qlo * ((xs.length : Rat) - 1) < 1) (hhi : (xs.length : Rat) - 2 < qhi * ((xs.length : Rat) - 1)) :
    quantileLinear xs qlo < quantileLinear xs qhi := by
  have hs := sortR_sorted xs
  have hlen := sortR_length xs
  -- at least two elements
  have h2 : 2 ≤ xs.length := by
    rcases xs with _ | ⟨x, _ | ⟨y, t⟩⟩
    · simp at ha
    · simp at ha hb; rw [ha, hb] at hab; exact absurd hab (lt_irrefl _)
    · simp
  obtain ⟨k, hk⟩ : ∃ k, xs.length = k + 2 := ⟨xs.length - 2, by omega⟩
  have hks : (sortR xs).length = k + 2 := by rw [hlen, hk]
  -- min < max
  obtain ⟨i, hi, ei⟩ := List.getElem_of_mem ((mem_sortR a xs).mpr ha)
  obtain ⟨j, hj, ej⟩ := List.getElem_of_mem ((mem_sortR b xs).mpr hb)
  have m1 := sorted_getD_le _ hs 0 i (by omega) hi
  have m2 := sorted_getD_le _ hs j (k + 1) (by omega) (by omega)
  rw [getD_eq _ _ hi, ei] at m1
  rw [getD_eq _ _ hj, ej] at m2
  have hmM : (sortR xs).getD 0 0 < (sortR xs).getD (k + 1) 0 := by linarith
  rw [quantileLinear_eq, quantileLinear_eq]
  have hc : ((xs.length - 1 : Nat) : Rat) = (k : Rat) + 1 := by rw [hk]; push_cast; simp
  have hl : (xs.length : Rat) = (k : Rat) + 2 := by rw [hk]; push_cast; ring
  rw [hc]
  rw [hl] at hlo hhi
  have kpos : (0 : Rat) ≤ (k : Rat) := by positivity
  apply interp_width _ hs k hks hmM
  · positivity
  · nlinarith
  · nlinarith
  · nlinarith
  · nlinarith

/-! ### the resampling mean of a non-constant list lies strictly inside (min, max) -/

def mean (xs : List Rat) : Rat := xs.sum / xs.length

theorem sum_ge (xs : List Rat) (lo : Rat) (h : ∀ x ∈ xs, lo ≤ x) : lo * xs.length ≤ xs.sum := by
  induction xs with
  | nil => simp
  | cons x t ih =>
    have := ih (fun y hy => h y (by simp [hy]))
    have := h x (by simp)
    simp only [List.sum_cons, List.length_cons]; push_cast; linarith

theorem sum_gt (xs : List Rat) (lo : Rat) (h : ∀ x ∈ xs, lo ≤ x) (a : Rat) (ha : a ∈ xs) (hlt : lo < a) :
    lo * xs.length < xs.sum := by
  induction xs with
  | nil => simp at ha
  | cons x t ih =>
    have hx := h x (by simp)
    have ht : ∀ y ∈ t, lo ≤ y := fun y hy => h y (by simp [hy])
    simp only [List.sum_cons, List.length_cons]; push_cast
    rcases List.mem_cons.mp ha with rfl | hm
    · have := sum_ge t lo ht; linarith
    · have := ih ht hm; linarith

theorem sum_map_neg (xs : List Rat) : (xs.map (fun x => -x)).sum = -xs.sum := by
  induction xs with
  | nil => simp
  | cons x t ih => simp only [List.map_cons, List.sum_cons, ih]; ring

theorem mean_strictly_inside (xs : List Rat) (lo hi : Rat) (hb : ∀ x ∈ xs, lo ≤ x ∧ x ≤ hi)
    (a b : Rat) (ha : a ∈ xs) (hb' : b ∈ xs) (hla : lo < a) (hbh : b < hi) :
    lo < mean xs ∧ mean xs < hi := by
  have hpos : (0 : Rat) < xs.length := by
    have : 0 < xs.length := List.length_pos_of_mem ha
    exact_mod_cast this
  have h1 := sum_gt xs lo (fun x hx => (hb x hx).1) a ha hla
  have h2 := sum_gt (xs.map (fun x => -x)) (-hi)
    (by intro y hy; obtain ⟨x, hx, rfl⟩ := List.mem_map.mp hy; have := (hb x hx).2; linarith)
    (-b) (List.mem_map.mpr ⟨b, hb', rfl⟩) (by linarith)
  rw [sum_map_neg, List.length_map] at h2
  unfold mean
  constructor
  · rw [lt_div_iff₀ hpos]; linarith
  · rw [div_lt_iff₀ hpos]; linarith

end Bootstrap

namespace Bootstrap
open BaseMetrics Weights

/-! ### `mapM` on `Option` -/

theorem mapM_some_get {α β} (f : α → Option β) : ∀ (l : List α) (l' : List β), l.mapM f = some l' →
    l'.length = l.length ∧ ∀ (i : Nat) (hi : i < l.length) (hi' : i < l'.length), f l[i] = some l'[i]
  | [], l', h => by
    simp at h; subst h; exact ⟨rfl, fun i hi => absurd hi (by simp)⟩
  | a :: t, l', h => by
    rw [List.mapM_cons] at h
    cases hfa : f a with
    | none => rw [hfa] at h; simp at h
    | some b =>
      cases ht : t.mapM f with
      | none => rw [hfa, ht] at h; simp at h
      | some t' =>
        rw [hfa, ht] at h
        simp at h; subst h
        obtain ⟨hl, hg⟩ := mapM_some_get f t t' ht
        refine ⟨by simp [hl], ?_⟩
        intro i hi hi'
        cases i with
        | zero => simpa using hfa
        | succ n => simpa using hg n (by simpa using hi) (by simpa using hi')

theorem mapM_some_mem {α β} (f : α → Option β) (l : List α) (l' : List β) (h : l.mapM f = some l')
    (b : β) (hb : b ∈ l') : ∃ a ∈ l, f a = some b := by
  obtain ⟨hl, hg⟩ := mapM_some_get f l l' h
  obtain ⟨i, hi, rfl⟩ := List.getElem_of_mem hb
  exact ⟨l[i]'(by omega), List.getElem_mem _, hg i (by omega) hi⟩

/-! ### quantiles of extended values -/

/-- order of two CI entries: both NaN, or both finite and ordered -/
def XRle (a b : XR) : Prop := (a = .nan ∧ b = .nan) ∨ ∃ x y, a = .fin x ∧ b = .fin y ∧ x ≤ y

theorem finOnly_length : ∀ (xs : List XR) (l : List Rat), finOnly xs = some l → l.length = xs.length
  | [], l, h => by simp [finOnly] at h; subst h; rfl
  | .fin q :: rest, l, h => by
    simp only [finOnly] at h
    cases hr : finOnly rest with
    | none => rw [hr] at h; simp at h
    | some r => rw [hr] at h; simp at h; subst h; simp [finOnly_length rest r hr]
  | .nan :: _, _, h => by simp [finOnly] at h
  | .pinf :: _, _, h => by simp [finOnly] at h
  | .ninf :: _, _, h => by simp [finOnly] at h

theorem finOnly_mem : ∀ (xs : List XR) (l : List Rat), finOnly xs = some l → ∀ x ∈ l, XR.fin x ∈ xs
  | [], l, h => by simp [finOnly] at h; subst h; simp
  | .fin q :: rest, l, h => by
    simp only [finOnly] at h
    cases hr : finOnly rest with
    | none => rw [hr] at h; simp at h
    | some r =>
      rw [hr] at h; simp at h; subst h
      intro x hx
      rcases List.mem_cons.mp hx with rfl | hm
      · simp
      · exact List.mem_cons_of_mem _ (finOnly_mem rest r hr x hm)
  | .nan :: _, _, h => by simp [finOnly] at h
  | .pinf :: _, _, h => by simp [finOnly] at h
  | .ninf :: _, _, h => by simp [finOnly] at h

theorem quantileProp_mono (xs : List XR) (q1 q2 : Rat) (h0 : 0 ≤ q1) (h12 : q1 ≤ q2) (h1 : q2 ≤ 1)
    (v1 v2 : XR) (e1 : quantileProp xs q1 = some v1) (e2 : quantileProp xs q2 = some v2) : XRle v1 v2 := by
  unfold quantileProp at e1 e2
  by_cases hE : xs.isEmpty
  · simp [hE] at e1
  · by_cases hN : xs.any isNaN
    · simp [hE, hN] at e1 e2; subst e1 e2; exact Or.inl ⟨rfl, rfl⟩
    · simp only [hE, hN] at e1 e2
      cases hf : finOnly xs with
      | none => rw [hf] at e1; simp at e1
      | some l =>
        rw [hf] at e1 e2; simp at e1 e2; subst e1 e2
        have hl := finOnly_length xs l hf
        have hne : l ≠ [] := by
          intro e; subst e
          have : xs = [] := List.length_eq_zero_iff.mp (by simpa using hl.symm)
          simp [this] at hE
        exact Or.inr ⟨_, _, rfl, rfl, quantileLinear_mono l hne q1 q2 h0 h12 h1⟩

theorem quantileSkip_mono (xs : List XR) (q1 q2 : Rat) (h0 : 0 ≤ q1) (h12 : q1 ≤ q2) (h1 : q2 ≤ 1)
    (v1 v2 : XR) (e1 : quantileSkip xs q1 = some v1) (e2 : quantileSkip xs q2 = some v2) : XRle v1 v2 := by
  unfold quantileSkip at e1 e2
  by_cases hE : (xs.filter (fun x => !isNaN x)).isEmpty
  · simp only [hE, if_true] at e1 e2
    simp at e1 e2; subst e1 e2; exact Or.inl ⟨rfl, rfl⟩
  · simp only [hE] at e1 e2
    cases hf : finOnly (xs.filter (fun x => !isNaN x)) with
    | none => rw [hf] at e1; simp at e1
    | some l =>
      rw [hf] at e1 e2; simp at e1 e2; subst e1 e2
      have hl := finOnly_length _ l hf
      have hne : l ≠ [] := by
        intro e; subst e
        have : xs.filter (fun x => !isNaN x) = [] := List.length_eq_zero_iff.mp (by simpa using hl.symm)
        simp [this] at hE
      exact Or.inr ⟨_, _, rfl, rfl, quantileLinear_mono l hne q1 q2 h0 h12 h1⟩

theorem quantileXR_mono (skip : Bool) (xs : List XR) (q1 q2 : Rat) (h0 : 0 ≤ q1) (h12 : q1 ≤ q2) (h1 : q2 ≤ 1)
    (v1 v2 : XR) (e1 : quantileXR skip xs q1 = some v1) (e2 : quantileXR skip xs q2 = some v2) : XRle v1 v2 := by
  unfold quantileXR at e1 e2
  cases skip
  · exact quantileProp_mono xs q1 q2 h0 h12 h1 v1 v2 (by simpa using e1) (by simpa using e2)
  · exact quantileSkip_mono xs q1 q2 h0 h12 h1 v1 v2 (by simpa using e1) (by simpa using e2)

/-- a CI entry list is shaped and ordered like the quantile list -/
def Ordered (qs : List Rat) (l : List XR) : Prop :=
  l.length = qs.length ∧
  ∀ (i j : Nat) (hi : i < qs.length) (hj : j < qs.length) (hi' : i < l.length) (hj' : j < l.length),
    qs[i] ≤ qs[j] → XRle l[i] l[j]

theorem ciOf_ordered (skip : Bool) (samples : List XR) (qs : List Rat) (hq : ∀ q ∈ qs, 0 ≤ q ∧ q ≤ 1)
    (l : List XR) (h : ciOf skip samples qs = some l) : Ordered qs l := by
  obtain ⟨hl, hg⟩ := mapM_some_get _ qs l h
  refine ⟨hl, ?_⟩
  intro i j hi hj hi' hj' hij
  exact quantileXR_mono skip samples qs[i] qs[j] (hq _ (List.getElem_mem _)).1 hij
    (hq _ (List.getElem_mem _)).2 _ _ (hg i hi hi') (hg j hj hj')

/-- all samples equal to one finite value: every quantile is that value -/
theorem quantileXR_const (skip : Bool) (xs : List XR) (hne : xs ≠ []) (c : Rat) (hc : ∀ x ∈ xs, x = .fin c)
    (q : Rat) (q0 : 0 ≤ q) (q1 : q ≤ 1) : quantileXR skip xs q = some (.fin c) := by
  have hnan : xs.any isNaN = false := by
    rw [List.any_eq_false]; intro x hx; rw [hc x hx]; simp [isNaN]
  have hfilt : xs.filter (fun x => !isNaN x) = xs := by
    rw [List.filter_eq_self]; intro x hx; rw [hc x hx]; simp [isNaN]
  have hE : xs.isEmpty = false := by cases xs <;> simp at hne ⊢
  have key : ∃ l, finOnly xs = some l ∧ l ≠ [] ∧ ∀ y ∈ l, y = c := by
    clear hnan hfilt hE
    induction xs with
    | nil => exact absurd rfl hne
    | cons x t ih =>
      have hx := hc x (by simp)
      subst hx
      by_cases ht : t = []
      · subst ht; exact ⟨[c], by simp [finOnly], by simp, by simp⟩
      · obtain ⟨l, h1, _, h3⟩ := ih ht (fun y hy => hc y (by simp [hy]))
        refine ⟨c :: l, by simp [finOnly, h1], by simp, ?_⟩
        intro y hy
        rcases List.mem_cons.mp hy with rfl | hm
        · rfl
        · exact h3 y hm
  obtain ⟨l, h1, h2, h3⟩ := key
  unfold quantileXR quantileSkip quantileProp
  cases skip
  · simp [hE, hnan, h1, quantileLinear_const l h2 c h3 q q0 q1]
  · simp [hfilt, hE, h1, quantileLinear_const l h2 c h3 q q0 q1]

theorem ciOf_const (skip : Bool) (xs : List XR) (hne : xs ≠ []) (c : Rat) (hc : ∀ x ∈ xs, x = .fin c)
    (qs : List Rat) (hq : ∀ q ∈ qs, 0 ≤ q ∧ q ≤ 1) (l : List XR) (h : ciOf skip xs qs = some l) :
    ∀ v ∈ l, v = .fin c := by
  intro v hv
  obtain ⟨q, hqm, hqv⟩ := mapM_some_mem _ qs l h v hv
  rw [quantileXR_const skip xs hne c hc q (hq q hqm).1 (hq q hqm).2] at hqv
  exact (Option.some.inj hqv).symm

end Bootstrap

namespace Bootstrap
open BaseMetrics Weights

/-! ### resamples -/

theorem pick_length (rows : List WRow) (idx : List Nat) (rs : List WRow) (h : pick rows idx = some rs) :
    rs.length = idx.length := (mapM_some_get _ idx rs h).1

theorem pick_subset (rows : List WRow) (idx : List Nat) (rs : List WRow) (h : pick rows idx = some rs) :
    ∀ r ∈ rs, r ∈ rows := by
  intro r hr
  obtain ⟨i, _, hi⟩ := mapM_some_mem _ idx rs h r hr
  exact List.mem_of_getElem? hi

theorem frameOf_fields (m : BMetric) (rs : List WRow) (f : Frame) (h : frameOf m rs = .ok f) :
    f.keys = keys rs ∧ evalB m rs = .ok f.overall := by
  unfold frameOf at h
  split at h
  · cases h
  · next ov hov =>
    split at h
    · cases h
    · next vals hv =>
      cases h
      exact ⟨rfl, hov⟩

/-- what a resample contributes: `none` iff it is empty; otherwise the frame of the picked rows -/
theorem sampleFrame_some (m : BMetric) (rows : List WRow) (idx : List Nat) (f : Frame)
    (h : sampleFrame m rows idx = some (some f)) :
    ∃ rs, pick rows idx = some rs ∧ rs ≠ [] ∧ frameOf m rs = .ok f := by
  unfold sampleFrame at h
  split at h
  · cases h
  · cases h
  · next rs hne hp =>
    split at h
    · cases h
    · next f' hf =>
      cases h
      exact ⟨_, hp, by intro e; exact hne e, hf⟩

theorem sampleFrame_none (m : BMetric) (rows : List WRow) (idx : List Nat)
    (h : sampleFrame m rows idx = some none) : idx = [] := by
  unfold sampleFrame at h
  split at h
  · cases h
  · next hp =>
    have := pick_length rows idx [] hp
    exact List.length_eq_zero_iff.mp this.symm
  · split at h <;> cases h

/-- every resample of n ≥ 1 positions has exactly n rows: `count` overall is n in every sample -/
theorem count_sample (rows : List WRow) (idx : List Nat) (f : Frame)
    (h : sampleFrame .count rows idx = some (some f)) : f.overall = (idx.length : Rat) := by
  obtain ⟨rs, hp, _, hf⟩ := sampleFrame_some _ _ _ _ h
  have := (frameOf_fields _ _ _ hf).2
  simp only [evalB] at this
  have e : (rs.length : Rat) = f.overall := by
    injection this
  rw [← e, pick_length rows idx rs hp]

theorem count_column (rows : List WRow) (idxs : List (List Nat)) (n : Nat) (hn : 0 < n)
    (hlen : ∀ idx ∈ idxs, idx.length = n) (samples : List (Option Frame))
    (h : samplesOf .count rows idxs = some samples) :
    ∀ x ∈ column fOverall samples, x = .fin (n : Rat) := by
  intro x hx
  unfold column at hx
  obtain ⟨s, hs, rfl⟩ := List.mem_map.mp hx
  obtain ⟨idx, hidx, hsf⟩ := mapM_some_mem _ idxs samples h s hs
  cases s with
  | none =>
    have e0 := sampleFrame_none _ _ _ hsf
    have e1 := hlen idx hidx
    rw [e0] at e1; simp at e1; omega
  | some f =>
    have := count_sample rows idx f hsf
    simp only [fOverall]
    rw [this, hlen idx hidx]

/-! ### the CI record -/

theorem ci_fields (skip : Bool) (m : BMetric) (rows : List WRow) (idxs : List (List Nat)) (qs : List Rat)
    (c : CI) (h : ci skip m rows idxs qs = some c) :
    ∃ samples, samplesOf m rows idxs = some samples ∧ c.keys = ciKeys samples ∧
      ciOf skip (column fOverall samples) qs = some c.overall ∧
      byGroupCI samples qs = some c.byGroup ∧
      ciOf skip (column fMin samples) qs = some c.gmin ∧
      ciOf skip (column fMax samples) qs = some c.gmax ∧
      ciOf skip (column fDiffB samples) qs = some c.diffBetween ∧
      ciOf skip (column fDiffO samples) qs = some c.diffOverall ∧
      ciOf skip (column Frame.ratioBetween samples) qs = some c.ratioBetween ∧
      ciOf skip (column Frame.ratioOverall samples) qs = some c.ratioOverall := by
  unfold ci at h
  split at h
  · cases h
  · next samples hs =>
    split at h
    · next ov bg mn mx db dO rb ro e1 e2 e3 e4 e5 e6 e7 e8 =>
      cases h
      exact ⟨samples, hs, rfl, e1, e2, e3, e4, e5, e6, e7, e8⟩
    · cases h

theorem ci_wellformed (skip : Bool) (m : BMetric) (rows : List WRow) (idxs : List (List Nat)) (qs : List Rat)
    (hq : ∀ q ∈ qs, 0 ≤ q ∧ q ≤ 1) (c : CI) (h : ci skip m rows idxs qs = some c) :
    Ordered qs c.overall ∧ c.byGroup.length = c.keys.length ∧ (∀ row ∈ c.byGroup, Ordered qs row) ∧
    Ordered qs c.gmin ∧ Ordered qs c.gmax ∧ Ordered qs c.diffBetween ∧ Ordered qs c.diffOverall ∧
    Ordered qs c.ratioBetween ∧ Ordered qs c.ratioOverall := by
  obtain ⟨samples, _, hk, e1, e2, e3, e4, e5, e6, e7, e8⟩ := ci_fields skip m rows idxs qs c h
  refine ⟨ciOf_ordered _ _ _ hq _ e1, ?_, ?_, ciOf_ordered _ _ _ hq _ e3, ciOf_ordered _ _ _ hq _ e4,
    ciOf_ordered _ _ _ hq _ e5, ciOf_ordered _ _ _ hq _ e6, ciOf_ordered _ _ _ hq _ e7,
    ciOf_ordered _ _ _ hq _ e8⟩
  · rw [hk]; exact (mapM_some_get _ _ _ e2).1
  · intro row hrow
    obtain ⟨key, _, hkey⟩ := mapM_some_mem _ _ _ e2 row hrow
    exact ciOf_ordered _ _ _ hq _ hkey

theorem count_overall_ci (skip : Bool) (rows : List WRow) (idxs : List (List Nat)) (n : Nat) (hn : 0 < n)
    (hne : idxs ≠ []) (hlen : ∀ idx ∈ idxs, idx.length = n) (qs : List Rat)
    (hq : ∀ q ∈ qs, 0 ≤ q ∧ q ≤ 1) (c : CI) (h : ci skip .count rows idxs qs = some c) :
    ∀ v ∈ c.overall, v = .fin (n : Rat) := by
  obtain ⟨samples, hs, _, e1, _⟩ := ci_fields skip _ rows idxs qs c h
  have hcol := count_column rows idxs n hn hlen samples hs
  have hne' : column fOverall samples ≠ [] := by
    have hl := (mapM_some_get _ idxs samples hs).1
    intro e
    have : samples = [] := by simpa [column] using e
    rw [this] at hl
    exact hne (List.length_eq_zero_iff.mp hl.symm)
  exact ciOf_const skip _ hne' _ hcol qs hq _ e1

/-- index of `by_group_ci`: only groups of the data occur ... -/
theorem ciKeys_subset (m : BMetric) (rows : List WRow) (idxs : List (List Nat)) (samples : List (Option Frame))
    (h : samplesOf m rows idxs = some samples) : ∀ key ∈ ciKeys samples, key ∈ keys rows := by
  intro key hk
  unfold ciKeys at hk
  rw [mem_uniqueSorted, List.mem_flatMap] at hk
  obtain ⟨s, hs, hks⟩ := hk
  cases s with
  | none => simp at hks
  | some f =>
    obtain ⟨idx, _, hsf⟩ := mapM_some_mem _ idxs samples h _ hs
    obtain ⟨rs, hp, _, hf⟩ := sampleFrame_some _ _ _ _ hsf
    have hkeys := (frameOf_fields _ _ _ hf).1
    simp only at hks
    rw [hkeys] at hks
    unfold keys at hks ⊢
    rw [mem_uniqueSorted, List.mem_map] at hks ⊢
    obtain ⟨r, hr, hg⟩ := hks
    exact ⟨r, pick_subset rows idx rs hp r hr, hg⟩

/-- ... and every group that is hit by at least one resample occurs -/
theorem ciKeys_hit (m : BMetric) (rows : List WRow) (idxs : List (List Nat)) (samples : List (Option Frame))
    (h : samplesOf m rows idxs = some samples) (idx : List Nat) (hidx : idx ∈ idxs) (i : Nat) (hi : i ∈ idx)
    (r : WRow) (hr : rows[i]? = some r) : r.g ∈ ciKeys samples := by
  obtain ⟨hl, hg⟩ := mapM_some_get _ idxs samples h
  obtain ⟨b, hb, rfl⟩ := List.getElem_of_mem hidx
  have hsb := hg b hb (by omega)
  unfold ciKeys
  rw [mem_uniqueSorted, List.mem_flatMap]
  refine ⟨samples[b]'(by omega), List.getElem_mem _, ?_⟩
  cases hs : samples[b]'(by omega) with
  | none =>
    rw [hs] at hsb
    have := sampleFrame_none _ _ _ hsb
    rw [this] at hi; simp at hi
  | some f =>
    rw [hs] at hsb
    obtain ⟨rs, hp, _, hf⟩ := sampleFrame_some _ _ _ _ hsb
    simp only
    rw [(frameOf_fields _ _ _ hf).1]
    unfold keys
    rw [mem_uniqueSorted, List.mem_map]
    -- the picked rows contain rows[i]
    obtain ⟨hl2, hg2⟩ := mapM_some_get _ _ rs hp
    obtain ⟨p, hp', rfl⟩ := List.getElem_of_mem hi
    have := hg2 p hp' (by omega)
    rw [hr] at this
    exact ⟨r, by rw [Option.some.inj this]; exact List.getElem_mem _, rfl⟩

end Bootstrap

namespace Bootstrap
open BaseMetrics Weights

/-- a metric that ignores the rows: every non-empty resample reports the constant -/
theorem const_sample (v : Rat) (rows : List WRow) (idx : List Nat) (f : Frame)
    (h : sampleFrame (.const v) rows idx = some (some f)) : f.overall = v := by
  obtain ⟨rs, _, _, hf⟩ := sampleFrame_some _ _ _ _ h
  have := (frameOf_fields _ _ _ hf).2
  simp only [evalB] at this
  injection this with e
  exact e.symm

theorem const_column (v : Rat) (rows : List WRow) (idxs : List (List Nat))
    (hlen : ∀ idx ∈ idxs, idx ≠ []) (samples : List (Option Frame))
    (h : samplesOf (.const v) rows idxs = some samples) :
    ∀ x ∈ column fOverall samples, x = .fin v := by
  intro x hx
  unfold column at hx
  obtain ⟨s, hs, rfl⟩ := List.mem_map.mp hx
  obtain ⟨idx, hidx, hsf⟩ := mapM_some_mem _ idxs samples h s hs
  cases s with
  | none => exact absurd (sampleFrame_none _ _ _ hsf) (hlen idx hidx)
  | some f =>
    simp only [fOverall]
    rw [const_sample v rows idx f hsf]

theorem const_overall_ci (skip : Bool) (v : Rat) (rows : List WRow) (idxs : List (List Nat))
    (hne : idxs ≠ []) (hlen : ∀ idx ∈ idxs, idx ≠ []) (qs : List Rat)
    (hq : ∀ q ∈ qs, 0 ≤ q ∧ q ≤ 1) (c : CI) (h : ci skip (.const v) rows idxs qs = some c) :
    ∀ x ∈ c.overall, x = .fin v := by
  obtain ⟨samples, hs, _, e1, _⟩ := ci_fields skip _ rows idxs qs c h
  have hcol := const_column v rows idxs hlen samples hs
  have hne' : column fOverall samples ≠ [] := by
    have hl := (mapM_some_get _ idxs samples hs).1
    intro e
    have : samples = [] := by simpa [column] using e
    rw [this] at hl
    exact hne (List.length_eq_zero_iff.mp hl.symm)
  exact ciOf_const skip _ hne' _ hcol qs hq _ e1

end Bootstrap
