import FairModel.Lemmas.Prelude
import FairModel.Model.Schedule

namespace Schedule

/-! ### ceilings -/

theorem lt_ceilDiv_iff (n b k : Nat) (hb : 0 < b) : k < ceilDiv n b ↔ k * b < n := by
  unfold ceilDiv
  rw [Nat.lt_iff_add_one_le, Nat.le_div_iff_mul_le hb]
  constructor
  · intro h
    have : (k + 1) * b = k * b + b := by ring
    omega
  · intro h
    have : (k + 1) * b = k * b + b := by ring
    omega

theorem ceilDiv_pos (n b : Nat) (hn : 0 < n) (hb : 0 < b) : 0 < ceilDiv n b := by
  rw [lt_ceilDiv_iff n b 0 hb]; simpa using hn

theorem le_ceilDiv_mul (n b : Nat) (hb : 0 < b) : n ≤ ceilDiv n b * b := by
  by_contra h
  have : ceilDiv n b < ceilDiv n b := (lt_ceilDiv_iff n b _ hb).mpr (by omega)
  omega

/-! ### the slices of one epoch -/

/-- consecutive, non-empty slices from `a` to `e` -/
inductive Covers : Nat → List (Nat × Nat) → Nat → Prop
  | nil (a : Nat) : Covers a [] a
  | cons {lo hi e : Nat} {rest : List (Nat × Nat)} : lo < hi → Covers hi rest e → Covers lo ((lo, hi) :: rest) e

theorem length_epochSlices (n b : Nat) : (epochSlices n b).length = batchesOf n b := by
  simp [epochSlices]

theorem sliceOf_lo (n b k : Nat) : (sliceOf n b k).1 = k * b := rfl

theorem sliceOf_hi_inner (n b k : Nat) (hb : 0 < b) (h : k + 1 < batchesOf n b) :
    (sliceOf n b k).2 = (k + 1) * b := by
  have := (lt_ceilDiv_iff n b (k + 1) hb).mp h
  simp only [sliceOf]; omega

theorem sliceOf_hi_last (n b k : Nat) (hb : 0 < b) (h : k + 1 = batchesOf n b) :
    (sliceOf n b k).2 = n := by
  have := le_ceilDiv_mul n b hb
  unfold batchesOf at h
  rw [← h] at this
  simp only [sliceOf]; omega

theorem sliceOf_nonempty (n b k : Nat) (hb : 0 < b) (h : k < batchesOf n b) :
    (sliceOf n b k).1 < (sliceOf n b k).2 := by
  have := (lt_ceilDiv_iff n b k hb).mp h
  have e : (k + 1) * b = k * b + b := by ring
  simp only [sliceOf]; omega

theorem sliceOf_size_le (n b k : Nat) : (sliceOf n b k).2 - (sliceOf n b k).1 ≤ b := by
  have e : (k + 1) * b = k * b + b := by ring
  simp only [sliceOf]; omega

theorem covers_range' (n b : Nat) (hb : 0 < b) (m k : Nat) (hm : 0 < m) (hk : k + m = batchesOf n b) :
    Covers (k * b) ((List.range' k m).map (sliceOf n b)) n := by
  induction m generalizing k with
  | zero => omega
  | succ m ih =>
    rw [List.range'_succ, List.map_cons]
    have hne := sliceOf_nonempty n b k hb (by omega)
    by_cases h0 : m = 0
    · subst h0
      have hl := sliceOf_hi_last n b k hb (by omega)
      have : sliceOf n b k = (k * b, n) := by
        ext
        · rfl
        · exact hl
      rw [this] at hne ⊢
      simp only [List.range'_zero, List.map_nil]
      exact Covers.cons hne (Covers.nil n)
    · have hi := sliceOf_hi_inner n b k hb (by omega)
      have : sliceOf n b k = (k * b, (k + 1) * b) := by
        ext
        · rfl
        · exact hi
      rw [this] at hne ⊢
      exact Covers.cons hne (ih (k + 1) (by omega) (by omega))

theorem epochSlices_covers (n b : Nat) (hn : 0 < n) (hb : 0 < b) : Covers 0 (epochSlices n b) n := by
  have hp := ceilDiv_pos n b hn hb
  have := covers_range' n b hb (batchesOf n b) 0 hp (by omega)
  simpa [epochSlices, List.range_eq_range'] using this

theorem length_allSlices (n b e : Nat) : (allSlices n b e).length = e * batchesOf n b := by
  unfold allSlices
  induction e with
  | zero => simp
  | succ e ih =>
    rw [List.range_succ, List.flatMap_append, List.length_append, ih]
    simp [length_epochSlices]; ring

/-! ### the flat schedule -/

theorem run_stepNo (mi : Option Nat) (cb : Bool) (stop : Nat → Bool) (d : Nat) (L : List (Nat × Nat)) :
    (run mi cb stop d L).map (·.stepNo) = List.range' (d + 1) (run mi cb stop d L).length := by
  induction L generalizing d with
  | nil => simp [run]
  | cons p L ih =>
    obtain ⟨lo, hi⟩ := p
    unfold run
    split
    · simp
    · split
      · simp
      · simp only [List.map_cons, List.length_cons, List.range'_succ]
        rw [ih (d + 1)]

theorem run_prefix (mi : Option Nat) (cb : Bool) (stop : Nat → Bool) (d : Nat) (L : List (Nat × Nat)) :
    (run mi cb stop d L).map (fun s => (s.lo, s.hi)) <+: L := by
  induction L generalizing d with
  | nil => simp [run]
  | cons p L ih =>
    obtain ⟨lo, hi⟩ := p
    unfold run
    split
    · simp [List.prefix_cons_iff]
    · split
      · simp [List.prefix_cons_iff]
      · simp only [List.map_cons]
        exact List.prefix_cons_iff.mpr (Or.inr ⟨_, rfl, ih (d + 1)⟩)

theorem run_callbackFired (mi : Option Nat) (cb : Bool) (stop : Nat → Bool) (d : Nat) (L : List (Nat × Nat)) :
    ∀ s ∈ run mi cb stop d L, s.callbackFired = (cb && !hitMax mi s.stepNo) := by
  induction L generalizing d with
  | nil => simp [run]
  | cons p L ih =>
    obtain ⟨lo, hi⟩ := p
    unfold run
    split
    · next h => intro s hs; simp at hs; subst hs; simp [h]
    · next h =>
      split
      · next h2 =>
        intro s hs; simp at hs; subst hs
        simp only [Bool.and_eq_true] at h2
        simp [h, h2.1]
      · intro s hs
        rcases List.mem_cons.mp hs with rfl | hs
        · simp [h]
        · exact ih (d + 1) s hs

/-- nobody stops: all planned steps, capped by max_iter -/
theorem run_length_no_stop (mi : Option Nat) (cb : Bool) (stop : Nat → Bool) (d : Nat) (L : List (Nat × Nat))
    (hstop : ∀ k, (cb && stop k) = false) (hmi : ∀ m, mi = some m → d < m) :
    (run mi cb stop d L).length = match mi with
      | none => L.length
      | some m => min L.length (m - d) := by
  induction L generalizing d with
  | nil => cases mi <;> simp [run]
  | cons p L ih =>
    obtain ⟨lo, hi⟩ := p
    unfold run
    cases mi with
    | none =>
      simp only [hitMax, hstop]
      simpa using ih (d + 1) (by intro m hm; cases hm)
    | some m =>
      have hd := hmi m rfl
      by_cases h : m ≤ d + 1
      · simp only [hitMax, h, decide_true, if_true, List.length_cons, List.length_nil]
        omega
      · simp only [hitMax, h, decide_false, hstop, Bool.false_eq_true, if_false, List.length_cons]
        have := ih (d + 1) (by intro m' hm'; cases hm'; omega)
        simp only at this
        rw [this]; omega

/-- the run ends at the first step whose callback says True (if max_iter / the plan do not end it earlier) -/
theorem run_stops_at_first_true (mi : Option Nat) (stop : Nat → Bool) (d k : Nat) (L : List (Nat × Nat))
    (hdk : d < k) (hk : k ≤ d + L.length) (hs : stop k = true)
    (hbefore : ∀ j, d < j → j < k → stop j = false) (hmi : ∀ m, mi = some m → k < m) :
    (run mi true stop d L).length = k - d ∧
      ((run mi true stop d L).getLast?).map (fun s => (s.stepNo, s.callbackFired)) = some (k, true) := by
  induction L generalizing d with
  | nil => simp at hk; omega
  | cons p L ih =>
    obtain ⟨lo, hi⟩ := p
    have hm : hitMax mi (d + 1) = false := by
      cases mi with
      | none => rfl
      | some m => have := hmi m rfl; simp [hitMax]; omega
    unfold run
    simp only [hm, Bool.false_eq_true, if_false, Bool.true_and]
    by_cases hkd : k = d + 1
    · subst hkd
      simp [hs]
    · have hsd : stop (d + 1) = false := hbefore (d + 1) (by omega) (by omega)
      simp only [hsd, Bool.false_eq_true, if_false, List.length_cons]
      have := ih (d + 1) (by omega) (by simp at hk; omega) (fun j h1 h2 => hbefore j (by omega) h2)
      refine ⟨by omega, ?_⟩
      have hne : run mi true stop (d + 1) L ≠ [] := by
        intro h0; rw [h0] at this; simp at this
      rw [List.getLast?_cons_of_ne_nil hne]
      exact this.2

/-! ### the nested loops are the fold over the flat schedule -/

theorem foldl_batchBody_returned {σ : Type} (mi : Option Nat) (cb : Bool) (stop : Nat → Bool)
    (ts : σ → Nat → Nat → σ) (L : List (Nat × Nat)) (st : Loop σ) (h : st.returned = true) :
    L.foldl (batchBody mi cb stop ts) st = st := by
  induction L with
  | nil => rfl
  | cons p L ih => simp only [List.foldl_cons, batchBody, h, if_true]; exact ih

theorem foldl_batchBody_run {σ : Type} (mi : Option Nat) (cb : Bool) (stop : Nat → Bool)
    (ts : σ → Nat → Nat → σ) (L : List (Nat × Nat)) (s : σ) (d : Nat) :
    (L.foldl (batchBody mi cb stop ts) ⟨s, d, false⟩).state = partialFitSeq ts s (run mi cb stop d L) ∧
    (L.foldl (batchBody mi cb stop ts) ⟨s, d, false⟩).nIter = d + (run mi cb stop d L).length := by
  induction L generalizing s d with
  | nil => simp [run, partialFitSeq]
  | cons p L ih =>
    obtain ⟨lo, hi⟩ := p
    simp only [List.foldl_cons]
    unfold run
    by_cases h1 : hitMax mi (d + 1) = true
    · have e : batchBody mi cb stop ts ⟨s, d, false⟩ (lo, hi) = ⟨ts s lo hi, d + 1, true⟩ := by
        simp [batchBody, h1]
      rw [e, foldl_batchBody_returned _ _ _ _ _ _ rfl]
      simp [h1, partialFitSeq]
    · by_cases h2 : (cb && stop (d + 1)) = true
      · have e : batchBody mi cb stop ts ⟨s, d, false⟩ (lo, hi) = ⟨ts s lo hi, d + 1, true⟩ := by
          simp only [batchBody, Bool.false_eq_true, if_false, h1, h2, if_true]
        rw [e, foldl_batchBody_returned _ _ _ _ _ _ rfl]
        simp [h1, h2, partialFitSeq]
      · have e : batchBody mi cb stop ts ⟨s, d, false⟩ (lo, hi) = ⟨ts s lo hi, d + 1, false⟩ := by
          simp only [batchBody, Bool.false_eq_true, if_false, h1, h2]
        rw [e]
        have := ih (ts s lo hi) (d + 1)
        simp only [h1, h2, Bool.false_eq_true, if_false, List.length_cons, partialFitSeq, List.foldl_cons] at this ⊢
        exact ⟨this.1, by omega⟩

theorem foldl_epochs {σ : Type} (n b : Nat) (mi : Option Nat) (cb : Bool) (stop : Nat → Bool)
    (ts : σ → Nat → Nat → σ) (l : List Nat) (st : Loop σ) :
    l.foldl (epochBody n b mi cb stop ts) st =
      (l.flatMap (fun _ => epochSlices n b)).foldl (batchBody mi cb stop ts) st := by
  induction l generalizing st with
  | nil => rfl
  | cons e l ih => simp only [List.foldl_cons, List.flatMap_cons, List.foldl_append, epochBody]; exact ih _

/-! ### predict -/

theorem le_maxOf (o : List Rat) : ∀ v ∈ o, v ≤ maxOf o := by
  induction o with
  | nil => simp
  | cons x xs ih =>
    cases xs with
    | nil => simp [maxOf]
    | cons y r =>
      intro v hv
      simp only [maxOf]
      rcases List.mem_cons.mp hv with rfl | hv
      · split
        · next h => exact le_of_lt h
        · exact le_refl _
      · have := ih v hv
        split
        · exact this
        · next h => exact le_trans this (not_lt.mp h)

theorem maxOf_mem (o : List Rat) (h : o ≠ []) : maxOf o ∈ o := by
  induction o with
  | nil => exact absurd rfl h
  | cons x xs ih =>
    cases xs with
    | nil => simp [maxOf]
    | cons y r =>
      simp only [maxOf]
      split
      · exact List.mem_cons_of_mem _ (ih (by simp))
      · exact List.mem_cons_self

theorem argmaxFirst_lt (o : List Rat) (h : o ≠ []) : argmaxFirst o < o.length := by
  unfold argmaxFirst
  apply List.findIdx_lt_length_of_exists
  exact ⟨maxOf o, maxOf_mem o h, by simp⟩

theorem argmaxFirst_spec (o : List Rat) (h : o ≠ []) :
    o[argmaxFirst o]'(argmaxFirst_lt o h) = maxOf o := by
  have h1 : (o[argmaxFirst o]'(argmaxFirst_lt o h) == maxOf o) = true :=
    List.findIdx_getElem (xs := o) (p := fun v => v == maxOf o) (w := argmaxFirst_lt o h)
  exact eq_of_beq h1

theorem argmaxFirst_first (o : List Rat) (j : Nat) (hj : j < argmaxFirst o) (hl : j < o.length) :
    o[j] < maxOf o := by
  have hne := List.not_of_lt_findIdx (xs := o) (p := fun v => v == maxOf o) hj
  have hle := le_maxOf o o[j] (List.getElem_mem hl)
  have : o[j] ≠ maxOf o := by simpa using hne
  exact lt_of_le_of_ne hle this

end Schedule
