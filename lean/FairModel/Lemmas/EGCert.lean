import FairModel.Lemmas.LinProg

/-!
Lemmas about the `best_h` cache (`EGLoop.bestH`, `argmin`) and the multiplier loop of `eval_gap`
(`EGLoop.evalLoop` / `evalGap`).
-/
namespace EGLoop
open Saddle Finset

/-! ### `values.idxmin()` -/

/-- the lifted scan rule of `values.idxmin()` (`EGLoopGen.argBetter`): a later value wins only when strictly smaller -/
theorem argBetter_iff (v b : Rat) : EGLoopGen.argBetter v b = true ↔ v < b := by
  simp [EGLoopGen.argBetter]

/-- the lifted `L_low` update test of `eval_gap` (`EGGen.lowImproves`) -/
theorem lowImproves_iff (x l : Rat) : EGGen.lowImproves x l = true ↔ x < l := by
  simp [EGGen.lowImproves]

/-- `_eval` projects the multiplier BEFORE it computes `L` (lifted statement order `EGLoopGen.evalProjectsFirst`) -/
theorem projLam_def (X : Ctx) (lam : List Rat) : projLam X lam = projectIf X.ratioOne (X.c.length / 2) (vec lam) := by
  unfold projLam
  simp [EGLoopGen.evalProjectsFirst]

theorem argminFrom_spec : ∀ (vs : List Rat) (i bi : Nat) (bv : Rat),
    (argminFrom vs i bi bv).2 ≤ bv ∧ (∀ v ∈ vs, (argminFrom vs i bi bv).2 ≤ v) ∧
    ((argminFrom vs i bi bv) = (bi, bv) ∨
      ∃ k, k < vs.length ∧ (argminFrom vs i bi bv).1 = i + k ∧ vs.getD k 0 = (argminFrom vs i bi bv).2)
  | [], _, _, _ => ⟨le_refl _, by simp, Or.inl rfl⟩
  | v :: vs, i, bi, bv => by
    unfold argminFrom
    split
    · next hlt =>
      have hlt := (argBetter_iff _ _).mp hlt
      obtain ⟨h1, h2, h3⟩ := argminFrom_spec vs (i + 1) i v
      refine ⟨le_trans h1 (le_of_lt hlt), ?_, ?_⟩
      · intro w hw
        rcases List.mem_cons.mp hw with rfl | hw
        · exact h1
        · exact h2 w hw
      · right
        rcases h3 with h | ⟨k, hk, hk1, hk2⟩
        · exact ⟨0, by simp, by rw [h]; simp, by rw [h]; simp⟩
        · exact ⟨k + 1, by simp; omega, by rw [hk1]; omega, by simpa using hk2⟩
    · next hge =>
      have hge : ¬ v < bv := fun h => hge ((argBetter_iff _ _).mpr h)
      obtain ⟨h1, h2, h3⟩ := argminFrom_spec vs (i + 1) bi bv
      refine ⟨h1, ?_, ?_⟩
      · intro w hw
        rcases List.mem_cons.mp hw with rfl | hw
        · exact le_trans h1 (not_lt.mp hge)
        · exact h2 w hw
      · rcases h3 with h | ⟨k, hk, hk1, hk2⟩
        · left; exact h
        · right; exact ⟨k + 1, by simp; omega, by rw [hk1]; omega, by simpa using hk2⟩

/-- `idxmin`: the index is in range, carries the reported value, and that value is a minimum -/
theorem argmin_spec (vals : List Rat) (b : Nat × Rat) (h : argmin vals = some b) :
    b.1 < vals.length ∧ vals.getD b.1 0 = b.2 ∧ ∀ v ∈ vals, b.2 ≤ v := by
  cases vals with
  | nil => simp [argmin] at h
  | cons v vs =>
    simp only [argmin, Option.some.injEq] at h
    obtain ⟨h1, h2, h3⟩ := argminFrom_spec vs 1 0 v
    rw [h] at h1 h2 h3
    refine ⟨?_, ?_, ?_⟩
    · rcases h3 with h3 | ⟨k, hk, hk1, _⟩
      · rw [h3]; simp
      · rw [hk1]; simp; omega
    · rcases h3 with h3 | ⟨k, hk, hk1, hk2⟩
      · rw [h3]; simp
      · rw [hk1, show 1 + k = k + 1 by omega]; simpa using hk2
    · intro w hw
      rcases List.mem_cons.mp hw with rfl | hw
      · exact h1
      · exact h2 w hw

theorem argmin_none (vals : List Rat) (h : argmin vals = none) : vals = [] := by
  cases vals with
  | nil => rfl
  | cons v vs => simp [argmin] at h

/-! ### `best_h` -/

/-- the store is append-only, and a classifier is appended exactly when the oracle's answer beats every stored value
    by more than `_PRECISION` at the multiplier asked -/
theorem bestH_store (hs : List Hyp) (lam : List Rat) (h : Hyp) :
    ((bestH hs lam h).1 = hs ∧ (bestH hs lam h).2 < hs.length) ∨
    ((bestH hs lam h).1 = hs ++ [h] ∧ (bestH hs lam h).2 = hs.length ∧
      ∀ g ∈ hs, storedValue lam h < storedValue lam g - EGGen.precision) := by
  unfold bestH
  split
  · next hn =>
    right
    have := argmin_none _ hn
    simp only [List.map_eq_nil_iff] at this
    subst this
    exact ⟨rfl, rfl, by simp⟩
  · next b hb =>
    obtain ⟨h1, h2, h3⟩ := argmin_spec _ b hb
    split
    · next himp =>
      right
      refine ⟨rfl, rfl, ?_⟩
      intro g hg
      simp only [EGGen.improves, decide_eq_true_eq] at himp
      have := h3 (storedValue lam g) (List.mem_map.mpr ⟨g, hg, rfl⟩)
      linarith
    · left
      exact ⟨rfl, by simpa using h1⟩

theorem bestH_idx_lt (hs : List Hyp) (lam : List Rat) (h : Hyp) : (bestH hs lam h).2 < (bestH hs lam h).1.length := by
  rcases bestH_store hs lam h with ⟨h1, h2⟩ | ⟨h1, h2, _⟩
  · rw [h1]; exact h2
  · rw [h1, h2]; simp

theorem bestH_length_le (hs : List Hyp) (lam : List Rat) (h : Hyp) : hs.length ≤ (bestH hs lam h).1.length := by
  rcases bestH_store hs lam h with ⟨h1, _⟩ | ⟨h1, _, _⟩ <;> rw [h1] <;> simp

theorem bestH_mem (hs : List Hyp) (lam : List Rat) (h : Hyp) : ∀ g ∈ (bestH hs lam h).1, g ∈ hs ∨ g = h := by
  intro g hg
  rcases bestH_store hs lam h with ⟨h1, _⟩ | ⟨h1, _, _⟩
  · rw [h1] at hg; exact Or.inl hg
  · rw [h1] at hg
    rcases List.mem_append.mp hg with h2 | h2
    · exact Or.inl h2
    · exact Or.inr (by simpa using h2)

theorem getD_map_storedValue (hs : List Hyp) (lam : List Rat) (k : Nat) (hk : k < hs.length) :
    (hs.map (storedValue lam)).getD k 0 = storedValue lam (hs.getD k default) := by
  simp [List.getD_eq_getElem?_getD, hk]

/-- the returned classifier's value at the multiplier asked is within `_PRECISION` of the oracle's answer, and it is a
    minimum over the store as it is after the call -/
theorem bestH_value (hs : List Hyp) (lam : List Rat) (h : Hyp) :
    storedValue lam ((bestH hs lam h).1.getD (bestH hs lam h).2 default) ≤ storedValue lam h + EGGen.precision ∧
    ∀ g ∈ (bestH hs lam h).1,
      storedValue lam ((bestH hs lam h).1.getD (bestH hs lam h).2 default) ≤ storedValue lam g := by
  have hprec : (0 : Rat) ≤ EGGen.precision := by norm_num [EGGen.precision]
  unfold bestH
  split
  · next hn =>
    have := argmin_none _ hn
    simp only [List.map_eq_nil_iff] at this
    subst this
    simp only [List.nil_append, List.length_nil, List.getD_cons_zero, List.mem_singleton]
    exact ⟨by linarith, fun g hg => by rw [hg]⟩
  · next b hb =>
    obtain ⟨h1, h2, h3⟩ := argmin_spec _ b hb
    have hb1 : b.1 < hs.length := by simpa using h1
    rw [getD_map_storedValue hs lam b.1 hb1] at h2
    split
    · next himp =>
      simp only [EGGen.improves, decide_eq_true_eq] at himp
      have hget : (hs ++ [h]).getD hs.length default = h := by
        simp [List.getD_eq_getElem?_getD]
      rw [hget]
      refine ⟨by linarith, ?_⟩
      intro g hg
      rcases List.mem_append.mp hg with hg | hg
      · have := h3 (storedValue lam g) (List.mem_map.mpr ⟨g, hg, rfl⟩)
        linarith
      · rw [List.mem_singleton] at hg; rw [hg]
    · next hnot =>
      simp only [EGGen.improves, decide_eq_true_eq, not_lt] at hnot
      rw [h2]
      refine ⟨by linarith, ?_⟩
      intro g hg
      exact h3 (storedValue lam g) (List.mem_map.mpr ⟨g, hg, rfl⟩)

/-! ### class membership of the stored classifiers -/

/-- `h` is classifier `i` of the (finite) hypothesis class described by the table `TC` -/
def IsMember (TC : Table) (h : Hyp) (i : Nat) : Prop :=
  i < TC.nH ∧ h.err = TC.err i ∧ h.gam.length = TC.nC ∧ ∀ j < TC.nC, h.gam.getD j 0 = TC.gam j i

def Members (TC : Table) (hs : List Hyp) : Prop := ∀ h ∈ hs, ∃ i, IsMember TC h i

theorem bestH_members (TC : Table) (hs : List Hyp) (lam : List Rat) (h : Hyp) (hm : Members TC hs)
    (hh : ∃ i, IsMember TC h i) : Members TC (bestH hs lam h).1 := by
  intro g hg
  rcases bestH_mem hs lam h g hg with h1 | h1
  · exact hm g h1
  · rw [h1]; exact hh

/-- the Lagrangian of a stored classifier equals that of the class member it is -/
theorem lPure_member (TC : Table) (c : List Rat) (hc : TC.nC = c.length) (hcc : TC.c = vec c) (hs : List Hyp)
    (lam : Nat → Rat) (k : Nat) (hk : k < hs.length) (i : Nat) (hm : IsMember TC (hs.getD k default) i) :
    lPure (tableOf c hs) lam k = lPure TC lam i := by
  rw [lPure_eq (tableOf c hs) lam k hk, lPure_eq TC lam i hm.1]
  show (hs.getD k default).err + ∑ j ∈ range c.length, lam j * ((hs.getD k default).gam.getD j 0 - vec c j) = _
  rw [hm.2.1, hc, hcc]
  congr 1
  apply Finset.sum_congr rfl
  intro j hj
  rw [hm.2.2.2 j (by rw [hc]; exact Finset.mem_range.mp hj)]

theorem getD_mem {α : Type} [Inhabited α] (l : List α) (k : Nat) (hk : k < l.length) : l.getD k default ∈ l := by
  rw [List.getD_eq_getElem?_getD, List.getElem?_eq_getElem hk]
  exact List.getElem_mem hk

/-! ### the multiplier loop of eval_gap -/

theorem updLow_spec (r : GapRes) (x : Rat) :
    (updLow r x).L = r.L ∧ (updLow r x).Lhigh = r.Lhigh ∧ (updLow r x).Llow ≤ r.Llow ∧ (updLow r x).Llow ≤ x := by
  unfold updLow
  split
  · next h => exact ⟨rfl, rfl, le_of_lt ((lowImproves_iff _ _).mp h), le_refl _⟩
  · next h => exact ⟨rfl, rfl, le_refl _, not_lt.mp (fun hh => h ((lowImproves_iff _ _).mpr hh))⟩

theorem updLow_ge (r : GapRes) (x m : Rat) (h1 : m ≤ r.Llow) (h2 : m ≤ x) : m ≤ (updLow r x).Llow := by
  unfold updLow
  split
  · exact h2
  · exact h1

/-- `L` and `L_high` are not touched by the loop, `L_low` only decreases -/
theorem evalLoop_fixed (X : Ctx) (O : Nat → Hyp) (lamHat : List Rat) : ∀ (ms : List Rat) (hs : List Hyp) (k : Nat)
    (r : GapRes), (evalLoop X O lamHat ms hs k r).2.2.L = r.L ∧ (evalLoop X O lamHat ms hs k r).2.2.Lhigh = r.Lhigh ∧
      (evalLoop X O lamHat ms hs k r).2.2.Llow ≤ r.Llow
  | [], _, _, _ => ⟨rfl, rfl, le_refl _⟩
  | mul :: ms, hs, k, r => by
    unfold evalLoop
    simp only []
    obtain ⟨u1, u2, u3, _⟩ := updLow_spec r (lagr (tableOf X.c (bestH hs (lamHat.map (fun x => mul * x)) (O k)).1)
        (unit (bestH hs (lamHat.map (fun x => mul * x)) (O k)).2) (projLam X lamHat))
    split
    · exact ⟨u1, u2, u3⟩
    · obtain ⟨h1, h2, h3⟩ := evalLoop_fixed X O lamHat ms (bestH hs (lamHat.map (fun x => mul * x)) (O k)).1 (k + 1)
        (updLow r (lagr (tableOf X.c (bestH hs (lamHat.map (fun x => mul * x)) (O k)).1)
          (unit (bestH hs (lamHat.map (fun x => mul * x)) (O k)).2) (projLam X lamHat)))
      exact ⟨h1.trans u1, h2.trans u2, le_trans h3 u3⟩

/-- **any oracle**: if every answer is a member of the class, `L_low` never falls below a common lower bound `m` of
    the class' Lagrangian values (and the store keeps containing class members only) -/
theorem evalLoop_members (X : Ctx) (O : Nat → Hyp) (lamHat : List Rat) (TC : Table) (hc : TC.nC = X.c.length)
    (hcc : TC.c = vec X.c) (hO : ∀ k, ∃ i, IsMember TC (O k) i) (m : Rat)
    (hm : ∀ i < TC.nH, m ≤ lPure TC (projLam X lamHat) i) :
    ∀ (ms : List Rat) (hs : List Hyp) (k : Nat) (r : GapRes), Members TC hs → m ≤ r.Llow →
      Members TC (evalLoop X O lamHat ms hs k r).1 ∧ m ≤ (evalLoop X O lamHat ms hs k r).2.2.Llow
  | [], _, _, _, h1, h2 => ⟨h1, h2⟩
  | mul :: ms, hs, k, r, h1, h2 => by
    have hmem := bestH_members TC hs (lamHat.map (fun x => mul * x)) (O k) h1 (hO k)
    have hidx := bestH_idx_lt hs (lamHat.map (fun x => mul * x)) (O k)
    obtain ⟨i, hi⟩ := hmem _ (getD_mem _ _ hidx)
    have hlow : m ≤ lagr (tableOf X.c (bestH hs (lamHat.map (fun x => mul * x)) (O k)).1)
        (unit (bestH hs (lamHat.map (fun x => mul * x)) (O k)).2) (projLam X lamHat) := by
      have := lPure_member TC X.c hc hcc _ (projLam X lamHat) _ hidx i hi
      unfold lPure at this
      rw [this]
      exact hm i hi.1
    have hupd := updLow_ge r _ m h2 hlow
    unfold evalLoop
    simp only []
    split
    · exact ⟨hmem, hupd⟩
    · exact evalLoop_members X O lamHat TC hc hcc hO m hm ms _ (k + 1) _ hmem hupd

/-- the candidate of the FIRST multiplier is always used (the `break` is tested after the update) -/
theorem evalLoop_first (X : Ctx) (O : Nat → Hyp) (lamHat : List Rat) (mul : Rat) (ms : List Rat) (hs : List Hyp)
    (k : Nat) (r : GapRes) :
    (evalLoop X O lamHat (mul :: ms) hs k r).2.2.Llow ≤
      lagr (tableOf X.c (bestH hs (lamHat.map (fun x => mul * x)) (O k)).1)
        (unit (bestH hs (lamHat.map (fun x => mul * x)) (O k)).2) (projLam X lamHat) := by
  obtain ⟨_, _, _, u4⟩ := updLow_spec r (lagr (tableOf X.c (bestH hs (lamHat.map (fun x => mul * x)) (O k)).1)
      (unit (bestH hs (lamHat.map (fun x => mul * x)) (O k)).2) (projLam X lamHat))
  unfold evalLoop
  simp only []
  split
  · exact u4
  · exact le_trans (evalLoop_fixed X O lamHat ms _ (k + 1) _).2.2 u4

/-! ### from `h_value` (what best_h compares) to the Lagrangian (what eval_gap records) -/

theorem dot_eq_sum' (a b : List Rat) : dot a b = ∑ i ∈ range a.length, a.getD i 0 * b.getD i 0 :=
  LinProg.dot_eq_sum a b

/-- the class value `h_value` of member `i` at the (unprojected) multiplier list `lam` -/
def classValue (TC : Table) (lam : List Rat) (i : Nat) : Rat := TC.err i + ∑ j ∈ range TC.nC, TC.gam j i * vec lam j

theorem storedValue_member (TC : Table) (h : Hyp) (i : Nat) (hm : IsMember TC h i) (lam : List Rat) :
    storedValue lam h = classValue TC lam i := by
  unfold storedValue EGLoopGen.hValue classValue
  rw [dot_eq_sum', hm.2.1, hm.2.2.1]
  congr 1
  apply Finset.sum_congr rfl
  intro j hj
  rw [hm.2.2.2 j (Finset.mem_range.mp hj)]; rfl

/-- when `_eval` projects (ratio = 1) the gamma vectors of the class are antisymmetric in the (+,-) halves -/
def AntiSym (X : Ctx) (TC : Table) : Prop :=
  X.ratioOne = true → X.c.length = X.c.length / 2 + X.c.length / 2 ∧
    ∀ i < TC.nH, ∀ j < X.c.length / 2, TC.gam (X.c.length / 2 + j) i = -TC.gam j i

/-- `L(h_i, project(lambda)) = h_value_i(lambda) - project(lambda).bound`: the two orders on classifiers coincide -/
theorem lPure_as_value (X : Ctx) (TC : Table) (hc : TC.nC = X.c.length) (ha : AntiSym X TC) (lam : List Rat) (i : Nat)
    (hi : i < TC.nH) :
    lPure TC (projLam X lam) i = classValue TC lam i - ∑ j ∈ range TC.nC, projLam X lam j * TC.c j := by
  rw [lPure_eq TC _ i hi]
  unfold classValue
  have hdot : ∑ j ∈ range TC.nC, projLam X lam j * TC.gam j i = ∑ j ∈ range TC.nC, TC.gam j i * vec lam j := by
    simp only [projLam_def]
    unfold projectIf
    cases hr : X.ratioOne
    · simp only [Bool.false_eq_true, if_false]
      apply Finset.sum_congr rfl; intro j _; ring
    · obtain ⟨hlen, hg⟩ := ha hr
      simp only [if_true]
      rw [show TC.nC = X.c.length / 2 + X.c.length / 2 from hc.trans hlen,
        project_dot (X.c.length / 2) (vec lam) (fun j => TC.gam j i) (hg i hi)]
      apply Finset.sum_congr rfl; intro j _; ring
  have : ∑ j ∈ range TC.nC, projLam X lam j * (TC.gam j i - TC.c j)
      = ∑ j ∈ range TC.nC, projLam X lam j * TC.gam j i - ∑ j ∈ range TC.nC, projLam X lam j * TC.c j := by
    rw [← Finset.sum_sub_distrib]
    apply Finset.sum_congr rfl; intro j _; ring
  rw [this, hdot]; ring

theorem map_one_mul (l : List Rat) : l.map (fun x => (1 : Rat) * x) = l := by
  induction l with
  | nil => rfl
  | cons a l ih => simp

/-! ### which `eval_gap` call certified which iterate (loop-level bookkeeping) -/

theorem evalLoop_members_only (X : Ctx) (O : Nat → Hyp) (lamHat : List Rat) (TC : Table)
    (hO : ∀ k, ∃ i, IsMember TC (O k) i) :
    ∀ (ms : List Rat) (hs : List Hyp) (k : Nat) (r : GapRes), Members TC hs →
      Members TC (evalLoop X O lamHat ms hs k r).1
  | [], _, _, _, h1 => h1
  | mul :: ms, hs, k, r, h1 => by
    have hmem := bestH_members TC hs (lamHat.map (fun x => mul * x)) (O k) h1 (hO k)
    unfold evalLoop
    simp only []
    split
    · exact hmem
    · exact evalLoop_members_only X O lamHat TC hO ms _ (k + 1) _ hmem

theorem evalGap_members (X : Ctx) (O : Nat → Hyp) (TC : Table) (hO : ∀ k, ∃ i, IsMember TC (O k) i) (hs : List Hyp)
    (k : Nat) (Q lamHat : List Rat) (h : Members TC hs) : Members TC (evalGap X O hs k Q lamHat).1 := by
  unfold evalGap
  exact evalLoop_members_only X O lamHat TC hO _ hs k _ h

/-- the gap `eval_gap` reports for the call recorded in `c` -/
def certGap (P : Params) (O : Oracles) (c : Cert) : Rat := (evalGap P.ctx O.h c.hs c.k c.Q c.lamHat).2.2.gap

structure CertInv (P : Params) (O : Oracles) (TC : Table) (s : State) : Prop where
  gaps_eq : s.gaps = s.certs.map (fun e => e.2.1)
  qs_eq : s.qs = s.certs.map (fun e => e.2.2)
  cert_ok : ∀ e ∈ s.certs, e.2.1 = certGap P O e.1 ∧ e.2.2 = e.1.Q ∧ Members TC e.1.hs
  lp_ok : ∀ r, s.lpRes = some r →
    r.2 = (evalGap P.ctx O.h s.lpFrom.1 s.lpFrom.2 r.1.Q r.1.lam).2.2 ∧ Members TC s.lpFrom.1
  store : Members TC s.hs

theorem solveLP_spec (P : Params) (O : Oracles) (TC : Table) (hO : ∀ k, ∃ i, IsMember TC (O.h k) i) (s : State)
    (hlp : ∀ r, s.lpRes = some r →
      r.2 = (evalGap P.ctx O.h s.lpFrom.1 s.lpFrom.2 r.1.Q r.1.lam).2.2 ∧ Members TC s.lpFrom.1)
    (hst : Members TC s.hs) :
    (solveLP P O s).1.lpRes = some ((solveLP P O s).2.1, (solveLP P O s).2.2) ∧
    (solveLP P O s).2.2 = (evalGap P.ctx O.h (solveLP P O s).1.lpFrom.1 (solveLP P O s).1.lpFrom.2
        (solveLP P O s).2.1.Q (solveLP P O s).2.1.lam).2.2 ∧
    Members TC (solveLP P O s).1.lpFrom.1 ∧ Members TC (solveLP P O s).1.hs := by
  unfold solveLP
  split
  · next r hr =>
    have hr' : s.lpRes = some r := by
      split at hr
      · exact hr
      · cases hr
    obtain ⟨h1, h2⟩ := hlp r hr'
    exact ⟨hr', h1, h2, hst⟩
  · exact ⟨rfl, rfl, hst, evalGap_members P.ctx O.h TC hO s.hs s.calls _ _ hst⟩

theorem certInv_init (P : Params) (O : Oracles) (TC : Table) : CertInv P O TC (initState P) := by
  constructor <;> simp [initState, Members]

theorem certInv_finish (P : Params) (O : Oracles) (TC : Table) (hO : ∀ k, ∃ i, IsMember TC (O.h k) i) (s : State)
    (hs : CertInv P O TC s) : CertInv P O TC (finish P s (decision P O s)) := by
  -- facts about the decision
  have hbh := bestH_members TC s.hs (lamVec P s.theta) (O.h s.calls) hs.store (hO s.calls)
  have key : (decision P O s).gap = certGap P O (decision P O s).cert ∧
      (decision P O s).q = (decision P O s).cert.Q ∧ Members TC (decision P O s).cert.hs ∧
      (∀ r, (decision P O s).s2.lpRes = some r →
        r.2 = (evalGap P.ctx O.h (decision P O s).s2.lpFrom.1 (decision P O s).s2.lpFrom.2 r.1.Q r.1.lam).2.2 ∧
        Members TC (decision P O s).s2.lpFrom.1) ∧
      Members TC (decision P O s).s2.hs := by
    unfold decision
    split
    · exact ⟨rfl, rfl, hbh, hs.lp_ok, evalGap_members P.ctx O.h TC hO _ _ _ _ hbh⟩
    · simp only []
      obtain ⟨s1, s2, s3, s4⟩ := solveLP_spec P O TC hO
        { s with
          hs := (evalGap P.ctx O.h (bestH s.hs (lamVec P s.theta) (O.h s.calls)).1 (s.calls + 1)
            (normalise (bump s.qsum (bestH s.hs (lamVec P s.theta) (O.h s.calls)).2))
            (meanCols P.c.length (s.lamCols ++ [lamVec P s.theta]))).1,
          calls := (evalGap P.ctx O.h (bestH s.hs (lamVec P s.theta) (O.h s.calls)).1 (s.calls + 1)
            (normalise (bump s.qsum (bestH s.hs (lamVec P s.theta) (O.h s.calls)).2))
            (meanCols P.c.length (s.lamCols ++ [lamVec P s.theta]))).2.1 }
        hs.lp_ok (evalGap_members P.ctx O.h TC hO _ _ _ _ hbh)
      refine ⟨?_, ?_, ?_, ?_, s4⟩
      · split
        · rfl
        · unfold certGap; simp only []; rw [← s2]
      · split <;> rfl
      · split
        · exact hbh
        · exact s3
      · intro r hr
        rw [s1] at hr
        cases hr
        exact ⟨s2, s3⟩
  obtain ⟨k1, k2, k3, k4, k5⟩ := key
  constructor
  · show s.gaps ++ [(decision P O s).gap] = (s.certs ++ [((decision P O s).cert, (decision P O s).gap, (decision P O s).q)]).map _
    rw [List.map_append, ← hs.gaps_eq]; rfl
  · show s.qs ++ [(decision P O s).q] = (s.certs ++ [((decision P O s).cert, (decision P O s).gap, (decision P O s).q)]).map _
    rw [List.map_append, ← hs.qs_eq]; rfl
  · intro e he
    have he' : e ∈ s.certs ++ [((decision P O s).cert, (decision P O s).gap, (decision P O s).q)] := he
    rcases List.mem_append.mp he' with h | h
    · exact hs.cert_ok e h
    · rw [List.mem_singleton] at h
      rw [h]
      exact ⟨k1, k2, k3⟩
  · exact k4
  · exact k5

theorem certInv_runN (P : Params) (O : Oracles) (TC : Table) (hO : ∀ k, ∃ i, IsMember TC (O.h k) i) :
    ∀ n, CertInv P O TC (runN P O n)
  | 0 => certInv_init P O TC
  | n + 1 => by
    show CertInv P O TC (iter P O (runN P O n))
    cases hgo : ((runN P O n).done || decide (P.maxIter ≤ (runN P O n).t))
    · rw [iter_go P O _ hgo]; exact certInv_finish P O TC hO _ (certInv_runN P O TC hO n)
    · rw [iter_stop P O _ hgo]; exact certInv_runN P O TC hO n

/-! ### the certifying multiplier is non-negative -/

theorem projLam_nonneg (X : Ctx) (lam : List Rat) (h : ∀ x ∈ lam, 0 ≤ x) (j : Nat) : 0 ≤ projLam X lam j := by
  rw [projLam_def]
  unfold projectIf
  split
  · exact Saddle.project_nonneg _ _ j
  · unfold vec
    by_cases hj : j < lam.length
    · rw [List.getD_eq_getElem?_getD, List.getElem?_eq_getElem hj]
      exact h _ (List.getElem_mem hj)
    · rw [List.getD_eq_getElem?_getD, List.getElem?_eq_none (not_lt.mp hj)]
      exact le_refl _

theorem decision_cert_lam (P : Params) (O : Oracles) (s : State) :
    (decision P O s).cert.lamHat = (decision P O s).lamEG ∨ (∃ k, (decision P O s).cert.lamHat = (O.lp k).lam) ∨
    (∃ r, s.lpRes = some r ∧ (decision P O s).cert.lamHat = r.1.lam) := by
  unfold decision
  split
  · left; rfl
  · simp only []
    split
    · left; rfl
    · right
      rcases solveLP_ans P O _ with h | ⟨r, hr, h⟩
      · left; exact ⟨_, congrArg LPAns.lam h⟩
      · right; exact ⟨r, hr, congrArg LPAns.lam h⟩

/-- every certifying multiplier recorded so far, and the cached LP multiplier, are entry-wise non-negative -/
structure LamInv (s : State) : Prop where
  certs_nonneg : ∀ e ∈ s.certs, ∀ x ∈ e.1.lamHat, 0 ≤ x
  lp_nonneg : ∀ r, s.lpRes = some r → ∀ x ∈ r.1.lam, 0 ≤ x

theorem lamInv_finish (P : Params) (O : Oracles) (hB : 0 < P.B) (he : ∀ x, 0 < P.e x)
    (hP : 0 ≤ EGLoopGen.etaInit P.eta0 P.B) (hlpl : ∀ k, ∀ x ∈ (O.lp k).lam, 0 ≤ x) (s : State)
    (hs : Inv P O s) (hgo : (s.done || decide (P.maxIter ≤ s.t)) = false) (hl : LamInv s) :
    LamInv (finish P s (decision P O s)) := by
  have hnext := inv_finish P O hB he hP s hs hgo
  have hEG : ∀ x ∈ (decision P O s).lamEG, 0 ≤ x :=
    (hnext.lamEG_good (decision P O s).lamEG (by
      show (decision P O s).lamEG ∈ s.lamEGs ++ [(decision P O s).lamEG]
      simp)).2.1
  constructor
  · intro e hmem
    have hmem' : e ∈ s.certs ++ [((decision P O s).cert, (decision P O s).gap, (decision P O s).q)] := hmem
    rcases List.mem_append.mp hmem' with h | h
    · exact hl.certs_nonneg e h
    · rw [List.mem_singleton] at h
      rw [h]
      show ∀ x ∈ (decision P O s).cert.lamHat, 0 ≤ x
      rcases decision_cert_lam P O s with h1 | ⟨k, h1⟩ | ⟨r, hr, h1⟩
      · rw [h1]; exact hEG
      · rw [h1]; exact hlpl k
      · rw [h1]; exact hl.lp_nonneg r hr
  · intro r hr
    have hr' : (decision P O s).s2.lpRes = some r := hr
    rcases decision_lpRes P O s with ⟨k, g, h⟩ | h
    · rw [h] at hr'; cases hr'; exact hlpl k
    · rw [h] at hr'; exact hl.lp_nonneg r hr'

theorem lamInv_runN (P : Params) (O : Oracles) (hB : 0 < P.B) (he : ∀ x, 0 < P.e x)
    (hP : 0 ≤ EGLoopGen.etaInit P.eta0 P.B) (hlpl : ∀ k, ∀ x ∈ (O.lp k).lam, 0 ≤ x) :
    ∀ n, LamInv (runN P O n)
  | 0 => by constructor <;> simp [runN, initState]
  | n + 1 => by
    show LamInv (iter P O (runN P O n))
    cases hgo : ((runN P O n).done || decide (P.maxIter ≤ (runN P O n).t))
    · rw [iter_go P O _ hgo]
      exact lamInv_finish P O hB he hP hlpl _ (inv_runN P O hB he hP n) hgo (lamInv_runN P O hB he hP hlpl n)
    · rw [iter_stop P O _ hgo]; exact lamInv_runN P O hB he hP hlpl n

/-! ### how many oracle calls a run makes, how many classifiers it stores -/

theorem bestH_length_le_succ (hs : List Hyp) (lam : List Rat) (h : Hyp) : (bestH hs lam h).1.length ≤ hs.length + 1 := by
  rcases bestH_store hs lam h with ⟨h1, _⟩ | ⟨h1, _, _⟩ <;> rw [h1] <;> simp

/-- the multiplier loop makes between 1 (non-empty list) and `len(list)` oracle calls and stores at most one classifier
    per call -/
theorem evalLoop_calls (X : Ctx) (O : Nat → Hyp) (lamHat : List Rat) : ∀ (ms : List Rat) (hs : List Hyp) (k : Nat)
    (r : GapRes), (evalLoop X O lamHat ms hs k r).2.1 ≤ k + ms.length ∧ k ≤ (evalLoop X O lamHat ms hs k r).2.1 ∧
      (evalLoop X O lamHat ms hs k r).1.length + k ≤ hs.length + (evalLoop X O lamHat ms hs k r).2.1
  | [], _, _, _ => ⟨by simp [evalLoop], by simp [evalLoop], by simp [evalLoop]⟩
  | mul :: ms, hs, k, r => by
    have hb := bestH_length_le_succ hs (lamHat.map (fun x => mul * x)) (O k)
    unfold evalLoop
    simp only []
    split
    · refine ⟨?_, ?_, ?_⟩ <;> dsimp only [List.length_cons] <;> omega
    · obtain ⟨h1, h2, h3⟩ := evalLoop_calls X O lamHat ms (bestH hs (lamHat.map (fun x => mul * x)) (O k)).1 (k + 1)
        (updLow r (lagr (tableOf X.c (bestH hs (lamHat.map (fun x => mul * x)) (O k)).1)
          (unit (bestH hs (lamHat.map (fun x => mul * x)) (O k)).2) (projLam X lamHat)))
      refine ⟨by simp only [List.length_cons]; omega, by omega, by omega⟩

theorem evalGap_calls (X : Ctx) (O : Nat → Hyp) (hs : List Hyp) (k : Nat) (Q lamHat : List Rat) :
    (evalGap X O hs k Q lamHat).2.1 ≤ k + EGGen.muls.length ∧ k ≤ (evalGap X O hs k Q lamHat).2.1 ∧
    (evalGap X O hs k Q lamHat).1.length + k ≤ hs.length + (evalGap X O hs k Q lamHat).2.1 := by
  unfold evalGap
  exact evalLoop_calls X O lamHat EGGen.muls hs k _

theorem solveLP_calls (P : Params) (O : Oracles) (s : State) :
    (solveLP P O s).1.calls ≤ s.calls + EGGen.muls.length ∧ s.calls ≤ (solveLP P O s).1.calls ∧
    (solveLP P O s).1.hs.length + s.calls ≤ s.hs.length + (solveLP P O s).1.calls := by
  unfold solveLP
  split
  · exact ⟨by simp, le_refl _, le_refl _⟩
  · exact evalGap_calls P.ctx O.h s.hs s.calls _ _

theorem decision_calls (P : Params) (O : Oracles) (s : State) :
    (decision P O s).s2.calls ≤ s.calls + (1 + 2 * EGGen.muls.length) ∧
    (decision P O s).s2.hs.length + s.calls ≤ s.hs.length + (decision P O s).s2.calls := by
  have hb := bestH_length_le_succ s.hs (lamVec P s.theta) (O.h s.calls)
  obtain ⟨e1, e2, e3⟩ := evalGap_calls P.ctx O.h (bestH s.hs (lamVec P s.theta) (O.h s.calls)).1 (s.calls + 1)
    (normalise (bump s.qsum (bestH s.hs (lamVec P s.theta) (O.h s.calls)).2))
    (meanCols P.c.length (s.lamCols ++ [lamVec P s.theta]))
  unfold decision
  split
  · refine ⟨?_, ?_⟩ <;> dsimp only <;> omega
  · simp only []
    obtain ⟨l1, l2, l3⟩ := solveLP_calls P O
      { s with
        hs := (evalGap P.ctx O.h (bestH s.hs (lamVec P s.theta) (O.h s.calls)).1 (s.calls + 1)
          (normalise (bump s.qsum (bestH s.hs (lamVec P s.theta) (O.h s.calls)).2))
          (meanCols P.c.length (s.lamCols ++ [lamVec P s.theta]))).1,
        calls := (evalGap P.ctx O.h (bestH s.hs (lamVec P s.theta) (O.h s.calls)).1 (s.calls + 1)
          (normalise (bump s.qsum (bestH s.hs (lamVec P s.theta) (O.h s.calls)).2))
          (meanCols P.c.length (s.lamCols ++ [lamVec P s.theta]))).2.1 }
    dsimp only at l1 l2 l3
    refine ⟨?_, ?_⟩ <;> omega

/-- `n_oracle_calls_ <= (1 + 2 len(multiplier list)) * iterations` and at most one classifier is stored per call -/
theorem calls_runN (P : Params) (O : Oracles) : ∀ n,
    (runN P O n).calls ≤ (1 + 2 * EGGen.muls.length) * (runN P O n).t ∧ (runN P O n).hs.length ≤ (runN P O n).calls
  | 0 => by simp [runN, initState]
  | n + 1 => by
    obtain ⟨ih1, ih2⟩ := calls_runN P O n
    show (iter P O (runN P O n)).calls ≤ _ * (iter P O (runN P O n)).t ∧
      (iter P O (runN P O n)).hs.length ≤ (iter P O (runN P O n)).calls
    cases hgo : ((runN P O n).done || decide (P.maxIter ≤ (runN P O n).t))
    · rw [iter_go P O _ hgo]
      obtain ⟨d1, d2⟩ := decision_calls P O (runN P O n)
      show (decision P O (runN P O n)).s2.calls ≤ _ * ((runN P O n).t + 1) ∧
        (decision P O (runN P O n)).s2.hs.length ≤ (decision P O (runN P O n)).s2.calls
      constructor
      · rw [Nat.mul_add, Nat.mul_one]; omega
      · omega
    · rw [iter_stop P O _ hgo]; exact ⟨ih1, ih2⟩

end EGLoop
