import FairModel.Lemmas.Prelude
import FairModel.Model.Container

namespace Cont
open ContainerSites (Conv)

theorem convert_eq_convertP (c : Conv) (a : Arg) (h : dropsLabels c a = true) :
    convert c a = convertP c a.payload := by
  cases c <;> simp_all [convert, convertP, dropsLabels]

theorem rangeIndex_nodup (n : Nat) : (rangeIndex n).Nodup := by
  unfold rangeIndex
  exact List.Nodup.map (fun a b h => by simpa using h) List.nodup_range

theorem rangeIndex_length (n : Nat) : (rangeIndex n).length = n := by simp [rangeIndex]

theorem rangeIndex_idxOf (n i : Nat) (h : i < n) : (rangeIndex n).idxOf (i : Int) = i := by
  have hl : i < (rangeIndex n).length := by rw [rangeIndex_length]; exact h
  have hget : (rangeIndex n)[i] = (i : Int) := by simp [rangeIndex]
  have := (rangeIndex_nodup n).idxOf_getElem i hl
  rw [hget] at this
  exact this

theorem range_map_getElem? (vals : List Rat) :
    (List.range vals.length).map (fun (i : Nat) => vals[i]?) = vals.map some := by
  apply List.ext_getElem
  · simp
  · intro i h1 h2
    simp at h1
    simp [h1]

/-- Aligning a FRESH Series (RangeIndex) by label is pairing by position. -/
theorem place_fresh (vals : List Rat) :
    place vals.length (.labelled (rangeIndex vals.length) vals) = .ok (vals.map some) := by
  simp only [place, rangeIndex_nodup, if_true]
  congr 1
  rw [← range_map_getElem? vals]
  apply List.map_congr_left
  intro i hi
  rw [rangeIndex_idxOf _ _ (List.mem_range.mp hi)]

theorem place_convertP (c : Conv) (vals : List Rat) :
    place vals.length (convertP c vals) = .ok (vals.map some) := by
  cases c
  case fresh => exact place_fresh vals
  all_goals simp [convertP, place]

theorem placeAll_congr (n : Nat) : ∀ (convs : List Conv) (args args' : List Arg),
    List.Forall₂ (fun a a' => a.payload = a'.payload) args args' →
    (∀ p ∈ convs.zip args, dropsLabels p.1 p.2 = true) →
    (∀ p ∈ convs.zip args', dropsLabels p.1 p.2 = true) →
    placeAll n convs args = placeAll n convs args'
  | [], _, _, _, _, _ => by simp [placeAll]
  | _ :: _, [], [], _, _, _ => rfl
  | _ :: _, [], _ :: _, h, _, _ => by cases h
  | _ :: _, _ :: _, [], h, _, _ => by cases h
  | c :: cs, a :: as, a' :: as', h, h1, h2 => by
    cases h with
    | cons hp ht =>
      have e1 := convert_eq_convertP c a (h1 (c, a) (by simp))
      have e2 := convert_eq_convertP c a' (h2 (c, a') (by simp))
      have ih := placeAll_congr n cs as as' ht
        (fun p hp' => h1 p (by simp only [List.zip_cons_cons, List.mem_cons]; exact Or.inr hp'))
        (fun p hp' => h2 p (by simp only [List.zip_cons_cons, List.mem_cons]; exact Or.inr hp'))
      simp only [placeAll, e1, e2, hp, ih]

theorem placeAll_positional (n : Nat) : ∀ (convs : List Conv) (args : List Arg),
    convs.length = args.length →
    (∀ p ∈ convs.zip args, dropsLabels p.1 p.2 = true) →
    (∀ a ∈ args, a.payload.length = n) →
    placeAll n convs args = .ok (args.map (fun a => a.payload.map some))
  | [], [], _, _, _ => rfl
  | [], _ :: _, h, _, _ => by simp at h
  | _ :: _, [], h, _, _ => by simp at h
  | c :: cs, a :: as, hl, h1, h2 => by
    have e1 := convert_eq_convertP c a (h1 (c, a) (by simp))
    have hn := h2 a (by simp)
    have ih := placeAll_positional n cs as (by simpa using hl)
      (fun p hp' => h1 p (by simp only [List.zip_cons_cons, List.mem_cons]; exact Or.inr hp'))
      (fun x hx => h2 x (by simp [hx]))
    have hp := place_convertP c a.payload
    rw [hn] at hp
    simp only [placeAll, e1, hp, ih, List.map_cons]

end Cont
