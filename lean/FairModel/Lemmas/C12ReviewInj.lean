/-
Review R3 for C12, second part: from "injective on ALL labels" to "a bijection of the OBSERVED labels".

`C12.rename_equivariant` asks for relabellings `σs j` that are injective on every string.  A user's relabelling is a
bijection of the labels that occur in the data onto new labels (e.g. a ↦ z, b ↦ c — which sends `z` to `z` as well and
is therefore NOT injective on all strings).  Here: every function that is injective on a finite list of labels agrees
on that list with a function that is injective everywhere (built from label swaps), every key of a result table
consists of observed labels, and relabelling only looks at observed labels.
-/
import FairModel.Lemmas.C12Review

namespace Perm
open Frame

variable {α β : Type}

/-- a map that is injective ON a finite list of labels agrees there with a map that is injective EVERYWHERE -/
theorem exists_injective_extension (g : Level → Level) :
    ∀ (L : List Level), (∀ a ∈ L, ∀ b ∈ L, g a = g b → a = b) →
      ∃ g' : Level → Level, Function.Injective g' ∧ ∀ x ∈ L, g' x = g x := by
  intro L
  induction L with
  | nil => intro _; exact ⟨id, Function.injective_id, by simp⟩
  | cons x L ih =>
    intro h
    obtain ⟨g', hinj, hag⟩ :=
      ih (fun a ha b hb => h a (List.mem_cons_of_mem _ ha) b (List.mem_cons_of_mem _ hb))
    by_cases hx : x ∈ L
    · refine ⟨g', hinj, ?_⟩
      intro y hy
      rcases List.mem_cons.mp hy with rfl | hy
      · exact hag _ hx
      · exact hag _ hy
    · by_cases hr : ∃ w, g' w = g x
      · -- the wanted value is taken by some `w` outside `L`: exchange `x` and `w` first
        obtain ⟨w, hw⟩ := hr
        have hwL : w ∉ L := by
          intro hwl
          have e1 : g w = g x := by rw [← hag w hwl, hw]
          have e2 := h w (List.mem_cons_of_mem _ hwl) x (List.mem_cons_self ..) e1
          exact hx (e2 ▸ hwl)
        refine ⟨g' ∘ swapLevels x w, hinj.comp (swapLevels_injective x w), ?_⟩
        intro y hy
        rcases List.mem_cons.mp hy with rfl | hy
        · simp [swapLevels, hw]
        · have h1 : y ≠ x := fun e => hx (e ▸ hy)
          have h2 : y ≠ w := fun e => hwL (e ▸ hy)
          simp [swapLevels, h1, h2, hag y hy]
      · -- the wanted value is free: move the value of `x` there afterwards
        refine ⟨swapLevels (g' x) (g x) ∘ g', (swapLevels_injective _ _).comp hinj, ?_⟩
        intro y hy
        rcases List.mem_cons.mp hy with rfl | hy
        · simp [swapLevels]
        · have h1 : g' y ≠ g' x := fun e => hx (hinj e ▸ hy)
          have h2 : g' y ≠ g x := fun e => hr ⟨y, e⟩
          rw [hag y hy] at h1 h2
          simp [swapLevels, h1, h2, hag y hy]

/-- relabelling a tuple only looks at the labels in the tuple -/
theorem mapCols_congr_on (σs σs' : Nat → Level → Level) (k : Key)
    (h : ∀ j, j < k.length → σs j (k.getD j "") = σs' j (k.getD j "")) : mapCols σs k = mapCols σs' k := by
  induction k generalizing σs σs' with
  | nil => rfl
  | cons a k ih =>
    simp only [mapCols]
    have h0 : σs 0 a = σs' 0 a := by simpa using h 0 (by simp)
    rw [h0, ih (fun j => σs (j + 1)) (fun j => σs' (j + 1))
      (fun j hj => by simpa using h (j + 1) (by simpa using hj))]

/-- every index tuple of a result table with `n ≥ 1` grouping columns has width `n` -/
theorem applyFunctions_key_length (nanv : β) (kf : Row α → Key) (n : Nat) (f : List α → β) (rows : List (Row α))
    (hlen : ∀ r ∈ rows, (kf r).length = n) :
    ∀ e ∈ applyFunctions nanv kf n f rows, n ≠ 0 → e.1.length = n := by
  intro e he hn
  unfold applyFunctions at he
  rw [if_neg hn] at he
  dsimp only at he
  split at he
  · simp only [reindex, List.mem_map] at he
    obtain ⟨k, hk, rfl⟩ := he
    have h2 := forall2_iff_getD.mp (mem_product.mp hk)
    rw [h2.1]
    simp [levels]
  · simp only [grouped, List.mem_map] at he
    obtain ⟨k, hk, rfl⟩ := he
    rw [mem_uniq, List.mem_map] at hk
    obtain ⟨r, hr, rfl⟩ := hk
    exact hlen r hr

/-- every index tuple of a result table consists of OBSERVED labels, column by column -/
theorem applyFunctions_key_observed (nanv : β) (kf : Row α → Key) (n : Nat) (f : List α → β) (rows : List (Row α))
    (_hlen : ∀ r ∈ rows, (kf r).length = n) :
    ∀ e ∈ applyFunctions nanv kf n f rows, ∀ j, j < e.1.length → ∃ r ∈ rows, e.1.getD j "" = (kf r).getD j "" := by
  intro e he j hj
  unfold applyFunctions at he
  split at he
  · simp only [List.mem_singleton] at he
    subst he
    simp at hj
  · dsimp only at he
    split at he
    · simp only [reindex, List.mem_map] at he
      obtain ⟨k, hk, rfl⟩ := he
      have h2 := forall2_iff_getD.mp (mem_product.mp hk)
      have hl : (levels kf n rows).length = n := by simp [levels]
      have hj' : j < n := by
        have : k.length = n := by rw [h2.1, hl]
        simpa [this] using hj
      have h3 := h2.2 j (by rw [hl]; exact hj')
      unfold levels at h3
      rw [getD_map_range _ n j hj', mem_uniq] at h3
      simp only [col, List.mem_map] at h3
      obtain ⟨k', ⟨r, hr, rfl⟩, hk'⟩ := h3
      exact ⟨r, hr, hk'.symm⟩
    · simp only [grouped, List.mem_map] at he
      obtain ⟨k, hk, rfl⟩ := he
      rw [mem_uniq, List.mem_map] at hk
      obtain ⟨r, hr, rfl⟩ := hk
      exact ⟨r, hr, rfl⟩

/-- `σs` restricted to the labels that OCCUR in the rows is injective, column by column (columns numbered as in the
    `by_group` index, control columns first): what "renaming the group labels by a bijection" means for a data set -/
def InjOnObserved (σs : Nat → Level → Level) (rows : List (Row α)) : Prop :=
  ∀ j, ∀ r ∈ rows, ∀ r' ∈ rows, σs j (r.key.getD j "") = σs j (r'.key.getD j "") → r.key.getD j "" = r'.key.getD j ""

theorem InjOnObserved.of_injective {σs : Nat → Level → Level} (h : ∀ j, Function.Injective (σs j))
    (rows : List (Row α)) : InjOnObserved σs rows := fun j _ _ _ _ e => h j e

/-- a bijection of the observed labels agrees on them with a family that is injective on all labels -/
theorem exists_injective_agreeing (σs : Nat → Level → Level) (rows : List (Row α)) (h : InjOnObserved σs rows) :
    ∃ σs' : Nat → Level → Level, (∀ j, Function.Injective (σs' j)) ∧
      ∀ j, ∀ r ∈ rows, σs' j (r.key.getD j "") = σs j (r.key.getD j "") := by
  have hj : ∀ j, ∃ g', Function.Injective g' ∧ ∀ x ∈ rows.map (fun r => r.key.getD j ""), g' x = σs j x := by
    intro j
    apply exists_injective_extension
    intro a ha b hb hab
    simp only [List.mem_map] at ha hb
    obtain ⟨r, hr, rfl⟩ := ha
    obtain ⟨r', hr', rfl⟩ := hb
    exact h j r hr r' hr' hab
  exact ⟨fun j => (hj j).choose, fun j => (hj j).choose_spec.1,
    fun j r hr => (hj j).choose_spec.2 _ (List.mem_map.mpr ⟨r, hr, rfl⟩)⟩

/-- relabelling a row only looks at the labels of the row -/
theorem renCols_congr_on (σs σs' : Nat → Level → Level) (r : Row α)
    (h : ∀ j, σs' j (r.key.getD j "") = σs j (r.key.getD j "")) : renCols σs r = renCols σs' r := by
  have h1 : mapCols σs r.cf = mapCols σs' r.cf := by
    apply mapCols_congr_on
    intro j hj
    have := h j
    simp only [Row.key, List.getD_eq_getElem?_getD, List.getElem?_append_left hj] at this
    simpa [List.getD_eq_getElem?_getD] using this.symm
  have h2 : mapCols (fun j => σs (r.cf.length + j)) r.sf = mapCols (fun j => σs' (r.cf.length + j)) r.sf := by
    apply mapCols_congr_on
    intro j hj
    have := h (r.cf.length + j)
    simp only [Row.key, List.getD_eq_getElem?_getD, List.getElem?_append_right (Nat.le_add_right _ _),
      Nat.add_sub_cancel_left] at this
    simpa [List.getD_eq_getElem?_getD] using this.symm
  simp only [renCols, h1, h2]

theorem map_renCols_congr_on (σs σs' : Nat → Level → Level) (rows : List (Row α))
    (h : ∀ j, ∀ r ∈ rows, σs' j (r.key.getD j "") = σs j (r.key.getD j "")) :
    rows.map (renCols σs) = rows.map (renCols σs') :=
  List.map_congr_left (fun r hr => renCols_congr_on σs σs' r (fun j => h j r hr))

/-- the renamed entries of a result table of `rows` are the same for two relabellings that agree on the observed
    labels (`kf` = full key or control key; `hk`: the key is a prefix-compatible part of the full key) -/
theorem map_entries_congr_on (nanv : β) (kf : Row α → Key) (n : Nat) (f : List α → β) (rows : List (Row α))
    (hlen : ∀ r ∈ rows, (kf r).length = n) (hk : ∀ r ∈ rows, ∀ j, j < n → (kf r).getD j "" = r.key.getD j "")
    (σs σs' : Nat → Level → Level) (h : ∀ j, ∀ r ∈ rows, σs' j (r.key.getD j "") = σs j (r.key.getD j "")) :
    (applyFunctions nanv kf n f rows).map (fun e => (mapCols σs e.1, e.2)) =
      (applyFunctions nanv kf n f rows).map (fun e => (mapCols σs' e.1, e.2)) := by
  apply List.map_congr_left
  intro e he
  have hw : ∀ j, j < e.1.length → j < n := by
    intro j hj
    obtain ⟨r, hr, _⟩ := applyFunctions_key_observed nanv kf n f rows hlen e he j hj
    -- the width of every index tuple is `n` (or the table is the single entry with the empty tuple)
    by_cases hn : n = 0
    · subst hn
      unfold applyFunctions at he
      simp only [if_true, List.mem_singleton] at he
      subst he
      simp at hj
    · exact Nat.lt_of_lt_of_le hj (Nat.le_of_eq (applyFunctions_key_length nanv kf n f rows hlen e he hn))
  congr 1
  apply mapCols_congr_on
  intro j hj
  obtain ⟨r, hr, hjr⟩ := applyFunctions_key_observed nanv kf n f rows hlen e he j hj
  rw [hjr, hk r hr j (hw j hj)]
  exact (h j r hr).symm

/-- on rows of the declared width only the `ncf + nsf` real columns have to be looked at (a decidable condition) -/
theorem InjOnObserved.of_width {σs : Nat → Level → Level} {rows : List (Row α)} {ncf nsf : Nat} (hwf : WF ncf nsf rows)
    (h : ∀ j, j < ncf + nsf → ∀ r ∈ rows, ∀ r' ∈ rows,
      σs j (r.key.getD j "") = σs j (r'.key.getD j "") → r.key.getD j "" = r'.key.getD j "") :
    InjOnObserved σs rows := by
  intro j r hr r' hr' e
  by_cases hj : j < ncf + nsf
  · exact h j hj r hr r' hr' e
  · have hl : ∀ r ∈ rows, r.key.length = ncf + nsf := fun r hr => by
      simp [Row.key, (hwf r hr).1, (hwf r hr).2]
    have h1 : r.key.getD j "" = "" := by
      simp [List.getD_eq_getElem?_getD, List.getElem?_eq_none (by rw [hl r hr]; omega : r.key.length ≤ j)]
    have h2 : r'.key.getD j "" = "" := by
      simp [List.getD_eq_getElem?_getD, List.getElem?_eq_none (by rw [hl r' hr']; omega : r'.key.length ≤ j)]
    rw [h1, h2]

end Perm
