/-
Interpolation layer of the ThresholdOptimizer model:
* the generated metrics are affine in the confusion counts, so the expected metric of a mixture of two
  predictors is the mixture of their metrics (`metric_affine`, `expCM_mix`);
* facts about the finished hull in reading order (`upperHull`), derived from the loop invariant;
* `interpIndex` returns a non-degenerate bracket (`interpIndex_bracket`) and `interpolateAt` a proper mixture
  of two consecutive hull vertices that hits the grid value exactly (`interpolateAt_sound`).
-/
import FairModel.Lemmas.ThresholdHull
import FairModel.Lemmas.ThresholdSweep

set_option linter.unusedSimpArgs false

namespace Threshold
open ThresholdGen

/-! ### affine metrics -/

/-- entrywise combination `a • A + b • B` of confusion counts -/
def CM.mix (a : Rat) (A : CM) (b : Rat) (B : CM) : CM :=
  { true_positives := a * A.true_positives + b * B.true_positives,
    false_positives := a * A.false_positives + b * B.false_positives,
    true_negatives := a * A.true_negatives + b * B.true_negatives,
    false_negatives := a * A.false_negatives + b * B.false_negatives }

/-- **metric_affine**: for confusion matrices with the same number of positives and of negatives, every
    METRIC_DICT entry of a convex (affine) combination is the combination of the metric values -/
theorem metric_affine (m : Metric) (a b : Rat) (A B : CM) (hab : a + b = 1)
    (hp : A.positives = B.positives) (hn : A.negatives = B.negatives) :
    m.eval (CM.mix a A b B) = a * m.eval A + b * m.eval B := by
  have hb : b = 1 - a := by linarith
  subst hb
  have hp' : B.true_positives + B.false_negatives = A.true_positives + A.false_negatives := by
    simpa [CM.positives] using hp.symm
  have hn' : B.true_negatives + B.false_positives = A.true_negatives + A.false_positives := by
    simpa [CM.negatives] using hn.symm
  have hP : (CM.mix a A (1 - a) B).positives = A.positives := by
    simp only [CM.mix, CM.positives]
    have : B.false_negatives = A.true_positives + A.false_negatives - B.true_positives := by linarith
    rw [this]; ring
  have hN : (CM.mix a A (1 - a) B).negatives = A.negatives := by
    simp only [CM.mix, CM.negatives]
    have : B.false_positives = A.true_negatives + A.false_positives - B.true_negatives := by linarith
    rw [this]; ring
  have hnA : A.n = A.positives + A.negatives := by simp only [CM.n, CM.positives, CM.negatives]; ring
  have hnB : B.n = A.n := by
    rw [hnA, hp, hn]; simp only [CM.n, CM.positives, CM.negatives]; ring
  have hnM : (CM.mix a A (1 - a) B).n = A.n := by
    rw [hnA, ← hP, ← hN]; simp only [CM.n, CM.positives, CM.negatives]; ring
  cases m <;> simp only [Metric.eval]
  all_goals first
    | (rw [hnM, hnB]; simp only [CM.mix, CM.predicted_positives]; ring1)
    | (rw [hN, ← hn]; simp only [CM.mix]; ring1)
    | (rw [hP, ← hp]; simp only [CM.mix]; ring1)
    | (rw [hP, hN, ← hp, ← hn]; simp only [CM.mix]; ring1)

/-! ### expected confusion counts of mixtures -/

theorem expCM_positives (prob : Rat → Rat) (rows : List Row) :
    (expCM prob rows).positives = (nPos rows : Rat) := by
  simp only [expCM, CM.positives]
  induction rows with
  | nil => simp [nPos]
  | cons r rs ih =>
    simp only [sumBy_cons, nPos, List.countP_cons] at ih ⊢
    cases hl : r.label <;> simp [hl] <;> linarith

theorem expCM_negatives (prob : Rat → Rat) (rows : List Row) :
    (expCM prob rows).negatives = (nNeg rows : Rat) := by
  simp only [expCM, CM.negatives]
  induction rows with
  | nil => simp [nNeg]
  | cons r rs ih =>
    simp only [sumBy_cons, nNeg, List.countP_cons] at ih ⊢
    cases hl : r.label <;> simp [hl] <;> linarith

/-- a mixture of two randomised predictors has the mixed expected confusion counts -/
theorem expCM_mix (a b : Rat) (f g : Rat → Rat) (rows : List Row) (hab : a + b = 1) :
    expCM (fun s => a * f s + b * g s) rows = CM.mix a (expCM f rows) b (expCM g rows) := by
  have hb : b = 1 - a := by linarith
  subst hb
  apply CM.ext'
  · simp only [expCM, CM.mix]; rw [← sumBy_lin]; apply sumBy_congr; intro r _; split <;> ring
  · simp only [expCM, CM.mix]; rw [← sumBy_lin]; apply sumBy_congr; intro r _; split <;> ring
  · simp only [expCM, CM.mix]; rw [← sumBy_lin]; apply sumBy_congr; intro r _; split <;> ring
  · simp only [expCM, CM.mix]; rw [← sumBy_lin]; apply sumBy_congr; intro r _; split <;> ring

/-- expected metric of a mixture = mixture of expected metrics -/
theorem eval_expCM_mix (m : Metric) (a b : Rat) (f g : Rat → Rat) (rows : List Row) (hab : a + b = 1) :
    m.eval (expCM (fun s => a * f s + b * g s) rows) =
      a * m.eval (expCM f rows) + b * m.eval (expCM g rows) := by
  rw [expCM_mix a b f g rows hab]
  exact metric_affine m a b _ _ hab (by rw [expCM_positives, expCM_positives])
    (by rw [expCM_negatives, expCM_negatives])

/-! ### the finished hull, in reading order -/

theorem belowAll_iff (q : Pt) (S : List Pt) :
    BelowAll q S ↔ ∀ l1 a b l2, S = l1 ++ b :: a :: l2 → cross a b q ≤ 0 := by
  induction S with
  | nil => exact ⟨fun _ l1 a b l2 h => by simp at h, fun _ => trivial⟩
  | cons s S ih =>
    cases S with
    | nil =>
      refine ⟨fun _ l1 a b l2 h => ?_, fun _ => trivial⟩
      have := congrArg List.length h
      simp at this; omega
    | cons s' S' =>
      constructor
      · intro h l1 a b l2 heq
        cases l1 with
        | nil =>
          simp only [List.nil_append, List.cons.injEq] at heq
          obtain ⟨rfl, rfl, _⟩ := heq
          exact h.1
        | cons x l1 =>
          simp only [List.cons_append, List.cons.injEq] at heq
          exact (ih.mp h.2) l1 a b l2 heq.2
      · intro h
        exact ⟨h [] s' s S' rfl, ih.mpr (fun l1 a b l2 heq => h (s :: l1) a b l2 (by simp [heq]))⟩

theorem concave_iff (S : List Pt) :
    Concave S ↔ ∀ l1 r2 r1 r0 l2, S = l1 ++ r2 :: r1 :: r0 :: l2 → cross r0 r1 r2 < 0 := by
  induction S with
  | nil => exact ⟨fun _ l1 _ _ _ l2 h => by simp at h, fun _ => trivial⟩
  | cons s S ih =>
    match S with
    | [] =>
      refine ⟨fun _ l1 r2 r1 r0 l2 h => ?_, fun _ => trivial⟩
      have := congrArg List.length h
      simp at this; omega
    | [s'] =>
      refine ⟨fun _ l1 r2 r1 r0 l2 h => ?_, fun _ => trivial⟩
      have := congrArg List.length h
      simp at this; omega
    | s' :: s'' :: S' =>
      constructor
      · intro h l1 r2 r1 r0 l2 heq
        cases l1 with
        | nil =>
          simp only [List.nil_append, List.cons.injEq] at heq
          obtain ⟨rfl, rfl, rfl, _⟩ := heq
          exact h.1
        | cons x l1 =>
          simp only [List.cons_append, List.cons.injEq] at heq
          exact (ih.mp h.2) l1 r2 r1 r0 l2 heq.2
      · intro h
        exact ⟨h [] s s' s'' S' rfl,
          ih.mpr (fun l1 r2 r1 r0 l2 heq => h (s :: l1) r2 r1 r0 l2 (by simp [heq]))⟩

/-- what the rest of the development needs to know about a hull `H` of a point list `pts` -/
structure GoodHull (H pts : List Pt) : Prop where
  sub : ∀ h ∈ H, h ∈ pts
  sorted : H.Pairwise LexLe
  /-- **hull_supporting**: every point is on or below the line through two consecutive hull vertices -/
  supporting : ∀ l1 a b l2, H = l1 ++ a :: b :: l2 → ∀ q ∈ pts, cross a b q ≤ 0
  /-- strictly increasing x from the second vertex on -/
  strict : ∀ l1 r0 r1 r2 l2, H = l1 ++ r0 :: r1 :: r2 :: l2 → r1.x < r2.x
  head : H.head? = pts.head?
  last : H.getLast? = pts.getLast?

theorem upperHull_good (pts : List Pt) (hs : pts.Pairwise LexLe) : GoodHull (upperHull pts) pts := by
  have inv := hullRev_inv pts hs
  have hrev : ∀ {l1 l2 : List Pt} {m : List Pt}, upperHull pts = l1 ++ m ++ l2 →
      hullRev pts = l2.reverse ++ m.reverse ++ l1.reverse := by
    intro l1 l2 m h
    have := congrArg List.reverse h
    simp only [upperHull_eq, List.reverse_reverse, List.reverse_append] at this
    rw [this]; simp
  refine ⟨?_, ?_, ?_, ?_, ?_, ?_⟩
  · intro h hh
    exact inv.sub h (by simpa [upperHull_eq] using hh)
  · have := inv.sorted
    unfold SortedDesc at this
    simpa [upperHull_eq, List.pairwise_reverse] using this
  · intro l1 a b l2 heq q hq
    have h := (belowAll_iff q _).mp (inv.below q hq) l2.reverse a b l1.reverse
    apply h
    have := hrev (l1 := l1) (l2 := l2) (m := [a, b]) (by simpa using heq)
    simpa using this
  · intro l1 r0 r1 r2 l2 heq
    have hc := (concave_iff _).mp inv.concave l2.reverse r2 r1 r0 l1.reverse (by
      have := hrev (l1 := l1) (l2 := l2) (m := [r0, r1, r2]) (by simpa using heq)
      simpa using this)
    -- sortedness of the three vertices
    have hsorted : (upperHull pts).Pairwise LexLe := by
      have := inv.sorted
      unfold SortedDesc at this
      simpa [upperHull_eq, List.pairwise_reverse] using this
    rw [heq] at hsorted
    have h3 := (List.pairwise_append.mp hsorted).2.1
    have h01 : LexLe r0 r1 := (List.pairwise_cons.mp h3).1 r1 (by simp)
    have h12 : LexLe r1 r2 := (List.pairwise_cons.mp (List.pairwise_cons.mp h3).2).1 r2 (by simp)
    rcases h12 with h | ⟨hx, hy⟩
    · exact h
    · exfalso
      unfold cross at hc
      have hx01 := h01.x_le
      have : 0 ≤ (r1.x - r0.x) * (r2.y - r1.y) := mul_nonneg (by linarith) (by linarith)
      rw [← hx] at hc
      nlinarith
  · have := inv.bottom
    simpa [upperHull_eq, List.head?_reverse] using this
  · have := inv.top
    simpa [upperHull_eq, List.getLast?_reverse] using this

/-! ### `interpIndex` -/

theorem countLE_spec (xs : List Rat) (g : Rat) :
    (∀ j, j < countLE xs g → ∃ v, xs[j]? = some v ∧ v ≤ g) ∧
    (∀ v, xs[countLE xs g]? = some v → g < v) ∧ countLE xs g ≤ xs.length := by
  induction xs with
  | nil => simp [countLE]
  | cons a t ih =>
    unfold countLE at ih ⊢
    by_cases ha : a ≤ g
    · simp only [List.takeWhile_cons, ha, decide_true, if_true, List.length_cons]
      refine ⟨?_, ?_, by omega⟩
      · intro j hj
        cases j with
        | zero => exact ⟨a, rfl, ha⟩
        | succ j => simpa using ih.1 j (by omega)
      · intro v hv
        simp only [List.getElem?_cons_succ] at hv
        exact ih.2.1 v hv
    · simp only [List.takeWhile_cons, ha, decide_false, Bool.false_eq_true, if_false, List.length_nil]
      refine ⟨by intro j hj; omega, ?_, by omega⟩
      intro v hv
      simp only [List.getElem?_cons_zero, Option.some.injEq] at hv
      subst hv; exact not_le.mp ha

/-- **interpIndex_bracket**: for a vertex list that starts at or below 0, ends at or above 1 and is strictly
    increasing from the second entry on, the index chosen for grid position `i` with value `g ∈ [0,1]`
    (`g = 0` iff `i = 0`) addresses a bracket `[a, b]` with `a ≤ g ≤ b` and `a < b`. -/
theorem interpIndex_bracket (xs : List Rat) (i : Nat) (g : Rat)
    (h0 : i = 0 → g = 0) (hpos : 1 ≤ i → 0 < g) (hg1 : g ≤ 1)
    (hhead : ∃ v, xs.head? = some v ∧ v ≤ 0) (hlast : ∃ v, xs.getLast? = some v ∧ 1 ≤ v)
    (hstrict : ∀ k, 1 ≤ k → ∀ a b, xs[k]? = some a → xs[k + 1]? = some b → a < b) :
    ∃ k a b, interpIndex xs i g = some k ∧ xs[k]? = some a ∧ xs[k + 1]? = some b ∧
      a ≤ g ∧ g ≤ b ∧ a < b := by
  obtain ⟨v0, hv0, hv0le⟩ := hhead
  obtain ⟨vl, hvl, hvlge⟩ := hlast
  obtain ⟨hin, hout, hlen⟩ := countLE_spec xs g
  have hg0 : 0 ≤ g := by
    rcases Nat.eq_zero_or_pos i with h | h
    · rw [h0 h]
    · exact le_of_lt (hpos h)
  have hx0 : xs[0]? = some v0 := by
    cases xs with
    | nil => simp at hv0
    | cons a t => simpa using hv0
  have hne : xs ≠ [] := by intro h; simp [h] at hv0
  have hlast' : xs[xs.length - 1]? = some vl := by
    rw [List.getLast?_eq_getElem?] at hvl; exact hvl
  -- c ≥ 1
  have hc1 : 1 ≤ countLE xs g := by
    by_contra hc
    have hc0 : countLE xs g = 0 := by omega
    have := hout v0 (by rw [hc0]; exact hx0)
    linarith
  set c := countLE xs g with hcdef
  obtain ⟨a, hka, hale⟩ := hin (c - 1) (by omega)
  have hlenpos : 0 < xs.length := List.length_pos_iff.mpr hne
  rw [src_interpIndex]
  simp only [← hcdef]
  rw [if_neg (by omega)]
  by_cases hdec : i ≥ 1 ∧ xs[c - 1]? = some g
  · -- grid value sits on a vertex: step one to the left
    rw [if_pos hdec]
    have hgpos := hpos hdec.1
    have hk0 : c - 1 ≠ 0 := by
      intro hk
      rw [hk, hx0] at hdec
      have := hdec.2
      simp only [Option.some.injEq] at this
      linarith
    rw [if_neg hk0]
    have hk2 : c - 1 - 1 + 1 = c - 1 := by omega
    obtain ⟨a', hka', _⟩ := hin (c - 1 - 1) (by omega)
    refine ⟨c - 1 - 1, a', g, rfl, hka', by rw [hk2]; exact hdec.2, ?_, le_refl _, ?_⟩
    · by_cases hk1 : c - 1 - 1 = 0
      · rw [hk1, hx0] at hka'
        simp only [Option.some.injEq] at hka'
        subst hka'; linarith
      · exact le_of_lt (hstrict (c - 1 - 1) (by omega) a' g hka' (by rw [hk2]; exact hdec.2))
    · by_cases hk1 : c - 1 - 1 = 0
      · rw [hk1, hx0] at hka'
        simp only [Option.some.injEq] at hka'
        subst hka'; linarith
      · exact hstrict (c - 1 - 1) (by omega) a' g hka' (by rw [hk2]; exact hdec.2)
  · rw [if_neg hdec]
    -- c < length, otherwise the last vertex is ≤ g
    have hclt : c < xs.length := by
      by_contra hc
      have hceq : c = xs.length := by omega
      have hlast2 : xs[c - 1]? = some vl := by rw [hceq]; exact hlast'
      rw [hka] at hlast2
      simp only [Option.some.injEq] at hlast2
      subst hlast2
      -- a = vl ≥ 1 ≥ g ≥ a
      have hag : a = g := le_antisymm hale (le_trans hg1 hvlge)
      rcases Nat.eq_zero_or_pos i with hi | hi
      · have := h0 hi; linarith
      · exact hdec ⟨hi, by rw [hka, hag]⟩
    obtain ⟨b, hkb⟩ : ∃ b, xs[c]? = some b := ⟨xs[c], List.getElem?_eq_getElem hclt⟩
    have hgb := hout b hkb
    have hk2 : c - 1 + 1 = c := by omega
    exact ⟨c - 1, a, b, rfl, hka, by rw [hk2]; exact hkb, hale, le_of_lt hgb, lt_of_le_of_lt hale hgb⟩

/-! ### `interpolateAt` -/

theorem getElem?_split {α} (l : List α) (k : Nat) (a b : α) (ha : l[k]? = some a) (hb : l[k + 1]? = some b) :
    ∃ l1 l2, l = l1 ++ a :: b :: l2 ∧ l1.length = k := by
  induction l generalizing k with
  | nil => simp at ha
  | cons x l ih =>
    cases k with
    | zero =>
      simp only [List.getElem?_cons_zero, Option.some.injEq] at ha
      subst ha
      cases l with
      | nil => simp at hb
      | cons y l =>
        simp only [zero_add, List.getElem?_cons_succ, List.getElem?_cons_zero, Option.some.injEq] at hb
        subst hb
        exact ⟨[], l, rfl, rfl⟩
    | succ k =>
      simp only [List.getElem?_cons_succ] at ha hb
      obtain ⟨l1, l2, h, hl⟩ := ih k ha hb
      exact ⟨x :: l1, l2, by simp [h], by simp [hl]⟩

/-- what `interpolateAt` returns -/
structure InterpSound (H : List Pt) (g : Rat) (r : Interp) : Prop where
  x_eq : r.x = g
  sum_one : r.p0 + r.p1 = 1
  p0_nonneg : 0 ≤ r.p0
  p1_nonneg : 0 ≤ r.p1
  verts : ∃ l1 a b l2, H = l1 ++ a :: b :: l2 ∧ r.op0 = a.op ∧ r.op1 = b.op ∧ a.x < b.x ∧
    r.p0 * a.x + r.p1 * b.x = g ∧ r.y = r.p0 * a.y + r.p1 * b.y ∧
    -- the interpolated value is the line through a and b evaluated at g
    (b.x - a.x) * (r.y - a.y) = (b.y - a.y) * (g - a.x)

theorem interpolateAt_sound (H : List Pt) (i : Nat) (g : Rat)
    (h0 : i = 0 → g = 0) (hpos : 1 ≤ i → 0 < g) (hg1 : g ≤ 1)
    (hhead : ∃ p, H.head? = some p ∧ p.x ≤ 0) (hlast : ∃ p, H.getLast? = some p ∧ 1 ≤ p.x)
    (hstrict : ∀ l1 r0 r1 r2 l2, H = l1 ++ r0 :: r1 :: r2 :: l2 → r1.x < r2.x) :
    ∃ r, interpolateAt H i g = some r ∧ InterpSound H g r := by
  have hxs_strict : ∀ k, 1 ≤ k → ∀ a b, (H.map (·.x))[k]? = some a → (H.map (·.x))[k + 1]? = some b → a < b := by
    intro k hk a b ha hb
    simp only [List.getElem?_map, Option.map_eq_some_iff] at ha hb
    obtain ⟨pa, hpa, rfl⟩ := ha
    obtain ⟨pb, hpb, rfl⟩ := hb
    obtain ⟨p0, hp0⟩ : ∃ p0, H[k - 1]? = some p0 := by
      have : k - 1 < H.length := by
        have := (List.getElem?_eq_some_iff.mp hpa).1; omega
      exact ⟨H[k - 1], List.getElem?_eq_getElem this⟩
    have hk1 : k - 1 + 1 = k := by omega
    obtain ⟨l1, l2, hsplit, _⟩ := getElem?_split H (k - 1) p0 pa hp0 (by rw [hk1]; exact hpa)
    -- pb is the element after pa
    have hl2 : ∃ l3, l2 = pb :: l3 := by
      have hlen : l1.length = k - 1 := by assumption
      rw [hsplit] at hpb
      have : (l1 ++ p0 :: pa :: l2)[k + 1]? = l2[0]? := by
        rw [List.getElem?_append_right (by omega)]
        have : k + 1 - l1.length = 2 := by omega
        rw [this]; rfl
      rw [this] at hpb
      cases l2 with
      | nil => simp at hpb
      | cons y l3 =>
        simp only [List.getElem?_cons_zero, Option.some.injEq] at hpb
        exact ⟨l3, by rw [hpb]⟩
    obtain ⟨l3, rfl⟩ := hl2
    exact hstrict l1 p0 pa pb l3 hsplit
  obtain ⟨p, hp, hpx⟩ := hhead
  obtain ⟨pl, hpl, hplx⟩ := hlast
  obtain ⟨k, a, b, hidx, hka, hkb, hag, hgb, hab⟩ := interpIndex_bracket (H.map (·.x)) i g h0 hpos hg1
    ⟨p.x, by simp [List.head?_map, hp], hpx⟩ ⟨pl.x, by simp [List.getLast?_map, hpl], hplx⟩ hxs_strict
  simp only [List.getElem?_map, Option.map_eq_some_iff] at hka hkb
  obtain ⟨pa, hpa, rfl⟩ := hka
  obtain ⟨pb, hpb, rfl⟩ := hkb
  have hden : pb.x - pa.x ≠ 0 := by intro h; linarith
  have hdpos : 0 < pb.x - pa.x := by linarith
  have hres : interpolateAt H i g = some
      { x := g, y := (pb.x - g) / (pb.x - pa.x) * pa.y + (1 - (pb.x - g) / (pb.x - pa.x)) * pb.y,
        p0 := (pb.x - g) / (pb.x - pa.x), op0 := pa.op, p1 := 1 - (pb.x - g) / (pb.x - pa.x), op1 := pb.op } := by
    rw [src_interpolateAt]
    rw [hidx]
    simp only [hpa, hpb]
    rw [if_neg hden]
  refine ⟨_, hres, ?_⟩
  · obtain ⟨l1, l2, hsplit, _⟩ := getElem?_split H k pa pb hpa hpb
    refine ⟨rfl, by ring, ?_, ?_, l1, pa, pb, l2, hsplit, rfl, rfl, hab, ?_, rfl, ?_⟩
    · exact div_nonneg (by linarith) (le_of_lt hdpos)
    · simp only
      rw [sub_nonneg, div_le_one hdpos]; linarith
    · simp only; field_simp; ring
    · simp only; field_simp; ring

end Threshold
