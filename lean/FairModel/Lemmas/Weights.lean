/-
Helper lemmas for C11: integer weights = multiplicities, scale invariance, and the lift through
grouping / aggregates.  Part A works on the base-metric model (`BaseMetrics.replicate`,
`weighted`, `scale`), part B on the grouped rows of `Model/Weights.lean`.
-/
import FairModel.Lemmas.BaseMetrics
import FairModel.Model.Weights

namespace BaseMetrics

/-! ### A.1 sums over replicated rows -/

/-- a row predicate that does not look at the weight (all predicates of the model are such) -/
def WeightBlind (p : Row → Bool) : Prop := ∀ (r : Row) (w' : Rat), p { r with w := w' } = p r

theorem weightBlind_cell (a b : Int) : WeightBlind (fun r => r.yt == a && r.yp == b) := by
  intro r w'; rfl

theorem weightBlind_sel (pos : Int) : WeightBlind (fun r => r.yp == pos) := by
  intro r w'; rfl

theorem wsum_replicate_one (p : Row → Bool) (r : Row) (k : Nat) :
    wsum p (List.replicate k r) = if p r then (k : Rat) * r.w else 0 := by
  induction k with
  | zero => simp
  | succ n ih =>
    rw [List.replicate_succ, wsum_cons, ih]
    by_cases h : p r <;> simp [h]
    ring

theorem wsum_replicate (p : Row → Bool) (hp : WeightBlind p) (rows : List (Row × Nat)) :
    wsum p (replicate rows) = wsum p (weighted rows) := by
  induction rows with
  | nil => simp [replicate, weighted]
  | cons x xs ih =>
    obtain ⟨r, k⟩ := x
    have e1 : replicate ((r, k) :: xs) = List.replicate k { r with w := 1 } ++ replicate xs := by
      simp [replicate]
    have e2 : weighted ((r, k) :: xs) = { r with w := (k : Rat) } :: weighted xs := by
      simp [weighted]
    rw [e1, e2, wsum_append, wsum_cons, wsum_replicate_one, ih, hp r 1, hp r (k : Rat)]
    by_cases h : p r <;> simp [h]

theorem wsum_true_eq_totalW (rows : List Row) : wsum (fun _ => true) rows = totalW rows := by
  simp [wsum, totalW]

theorem totalW_replicate (rows : List (Row × Nat)) :
    totalW (replicate rows) = totalW (weighted rows) := by
  rw [← wsum_true_eq_totalW, ← wsum_true_eq_totalW]
  exact wsum_replicate _ (fun _ _ => rfl) rows

theorem cell_replicate (rows : List (Row × Nat)) (a b : Int) :
    cell (replicate rows) a b = cell (weighted rows) a b :=
  wsum_replicate _ (weightBlind_cell a b) rows

theorem rateOf_replicate (k : Kind) (rows : List (Row × Nat)) (neg pos : Int) :
    rateOf k (replicate rows) neg pos = rateOf k (weighted rows) neg pos := by
  cases k <;> simp only [rateOf, tprOf, fnrOf, fprOf, tnrOf, rowTot, cell_replicate]

/-! ### A.2 `uniqueSorted` depends only on the set of values -/

theorem mem_insertSorted (x y : Int) (l : List Int) :
    y ∈ insertSorted x l ↔ y = x ∨ y ∈ l := by
  induction l with
  | nil => simp [insertSorted]
  | cons a as ih =>
    unfold insertSorted
    split
    · simp
    · split
      · next h => subst h; simp
      · simp [ih]; tauto

theorem sorted_insertSorted (x : Int) (l : List Int) (hl : l.Pairwise (· < ·)) :
    (insertSorted x l).Pairwise (· < ·) := by
  induction l with
  | nil => simp [insertSorted]
  | cons a as ih =>
    unfold insertSorted
    rw [List.pairwise_cons] at hl
    split
    · next h =>
      rw [List.pairwise_cons]
      refine ⟨?_, List.pairwise_cons.mpr hl⟩
      intro b hb
      rcases List.mem_cons.mp hb with rfl | hb
      · exact h
      · exact lt_trans h (hl.1 b hb)
    · split
      · exact List.pairwise_cons.mpr hl
      · next h1 h2 =>
        rw [List.pairwise_cons]
        refine ⟨?_, ih hl.2⟩
        intro b hb
        rcases (mem_insertSorted x b as).mp hb with rfl | hb
        · omega
        · exact hl.1 b hb

theorem sorted_uniqueSorted (l : List Int) : (uniqueSorted l).Pairwise (· < ·) := by
  induction l with
  | nil => simp [uniqueSorted]
  | cons a as ih => exact sorted_insertSorted a _ ih

theorem mem_uniqueSorted (x : Int) (l : List Int) : x ∈ uniqueSorted l ↔ x ∈ l := by
  induction l with
  | nil => simp [uniqueSorted]
  | cons a as ih =>
    show x ∈ insertSorted a (uniqueSorted as) ↔ _
    rw [mem_insertSorted, ih]; simp

theorem sorted_ext : ∀ (a b : List Int), a.Pairwise (· < ·) → b.Pairwise (· < ·) →
    (∀ x, x ∈ a ↔ x ∈ b) → a = b
  | [], [], _, _, _ => rfl
  | [], y :: ys, _, _, h => by have := (h y).mpr (by simp); simp at this
  | x :: xs, [], _, _, h => by have := (h x).mp (by simp); simp at this
  | x :: xs, y :: ys, ha, hb, h => by
    rw [List.pairwise_cons] at ha hb
    have hxy : x = y := by
      have h1 := (h x).mp (by simp)
      have h2 := (h y).mpr (by simp)
      rcases List.mem_cons.mp h1 with e | m1
      · exact e
      · rcases List.mem_cons.mp h2 with e | m2
        · exact e.symm
        · have := hb.1 x m1; have := ha.1 y m2; omega
    subst hxy
    congr 1
    apply sorted_ext xs ys ha.2 hb.2
    intro z
    constructor
    · intro hz
      have := (h z).mp (by simp [hz])
      rcases List.mem_cons.mp this with e | m
      · subst e; have := ha.1 z hz; omega
      · exact m
    · intro hz
      have := (h z).mpr (by simp [hz])
      rcases List.mem_cons.mp this with e | m
      · subst e; have := hb.1 z hz; omega
      · exact m

theorem uniqueSorted_congr (a b : List Int) (h : ∀ x, x ∈ a ↔ x ∈ b) :
    uniqueSorted a = uniqueSorted b :=
  sorted_ext _ _ (sorted_uniqueSorted a) (sorted_uniqueSorted b)
    (fun x => by rw [mem_uniqueSorted, mem_uniqueSorted]; exact h x)

/-! ### A.3 replicated rows show the same values as the weighted rows (multiplicities ≥ 1) -/

/-- all multiplicities are positive integers (the property's quantifier) -/
def PosMult {α} (rows : List (α × Nat)) : Prop := ∀ p ∈ rows, 1 ≤ p.2

theorem mem_map_replicate (f : Row → Int) (hf : ∀ (r : Row) (w' : Rat), f { r with w := w' } = f r)
    (rows : List (Row × Nat)) (hk : PosMult rows) (x : Int) :
    x ∈ (replicate rows).map f ↔ x ∈ (weighted rows).map f := by
  simp only [replicate, weighted, List.mem_map, List.mem_flatMap, List.mem_replicate]
  constructor
  · rintro ⟨r, ⟨p, hp, _, rfl⟩, rfl⟩
    exact ⟨_, ⟨p, hp, rfl⟩, (hf p.1 _).trans (hf p.1 _).symm⟩
  · rintro ⟨r, ⟨p, hp, rfl⟩, rfl⟩
    have := hk p hp
    exact ⟨_, ⟨p, hp, by omega, rfl⟩, (hf p.1 _).trans (hf p.1 _).symm⟩

theorem allLabels_replicate (rows : List (Row × Nat)) (hk : PosMult rows) (x : Int) :
    x ∈ allLabels (replicate rows) ↔ x ∈ allLabels (weighted rows) := by
  unfold allLabels
  rw [List.mem_append, List.mem_append,
    mem_map_replicate (·.yt) (fun _ _ => rfl) rows hk, mem_map_replicate (·.yp) (fun _ _ => rfl) rows hk]

theorem labelsForCM_congr (a b : List Int) (p : Option Int) (h : uniqueSorted a = uniqueSorted b) :
    labelsForCM a p = labelsForCM b p := by
  unfold labelsForCM
  rw [h]

theorem rate_replicate (k : Kind) (rows : List (Row × Nat)) (hk : PosMult rows) (p : Option Int) :
    rate k (replicate rows) p = rate k (weighted rows) p := by
  unfold rate
  rw [labelsForCM_congr _ _ p (uniqueSorted_congr _ _ (allLabels_replicate rows hk))]
  split
  · rfl
  · rw [rateOf_replicate]

theorem replicate_isEmpty (rows : List (Row × Nat)) (hk : PosMult rows) :
    (replicate rows).isEmpty = (weighted rows).isEmpty := by
  cases rows with
  | nil => rfl
  | cons x xs =>
    have h1 : 1 ≤ x.2 := hk x (by simp)
    obtain ⟨m, hm⟩ : ∃ m, x.2 = m + 1 := ⟨x.2 - 1, by omega⟩
    simp [replicate, weighted, hm, List.replicate_succ]

theorem selectionRate_replicate (rows : List (Row × Nat)) (hk : PosMult rows) (pos : Int) :
    selectionRate (replicate rows) pos = selectionRate (weighted rows) pos := by
  unfold selectionRate
  rw [replicate_isEmpty rows hk, wsum_replicate _ (weightBlind_sel pos), totalW_replicate]

/-- the denominators of `selection_rate` / `mean_prediction` are genuinely positive: no theorem
    below holds because of Lean's `x / 0 = 0`. -/
theorem totalW_weighted_pos (rows : List (Row × Nat)) (hk : PosMult rows) (hne : rows ≠ []) :
    0 < totalW (weighted rows) := by
  induction rows with
  | nil => exact absurd rfl hne
  | cons x xs ih =>
    have h1 : 1 ≤ x.2 := hk x (by simp)
    have hx : (1 : Rat) ≤ (x.2 : Rat) := by exact_mod_cast h1
    simp only [weighted, totalW, List.map_cons, List.sum_cons]
    by_cases hxs : xs = []
    · subst hxs; simp; linarith
    · have := ih (fun p hp => hk p (by simp [hp])) hxs
      simp only [weighted, totalW] at this
      linarith

/-! mean_prediction -/

theorem psum_replicate_one (f : PRow → Rat) (r : PRow) (k : Nat) :
    ((List.replicate k r).map f).sum = (k : Rat) * f r := by
  induction k with
  | zero => simp
  | succ n ih => rw [List.replicate_succ, List.map_cons, List.sum_cons, ih]; push_cast; ring

theorem psum_replicateP (f : PRow → Rat) (c : PRow → Rat)
    (hf : ∀ (r : PRow) (w' : Rat), f { r with w := w' } = c r * w') (rows : List (PRow × Nat)) :
    ((replicateP rows).map f).sum = ((weightedP rows).map f).sum := by
  induction rows with
  | nil => simp [replicateP, weightedP]
  | cons x xs ih =>
    obtain ⟨r, k⟩ := x
    have e1 : replicateP ((r, k) :: xs) = List.replicate k { r with w := 1 } ++ replicateP xs := by
      simp [replicateP]
    have e2 : weightedP ((r, k) :: xs) = { r with w := (k : Rat) } :: weightedP xs := by
      simp [weightedP]
    rw [e1, e2, List.map_append, List.sum_append, psum_replicate_one, ih, List.map_cons, List.sum_cons,
      hf, hf]
    ring

theorem meanPrediction_replicateP (rows : List (PRow × Nat)) :
    meanPrediction (replicateP rows) = meanPrediction (weightedP rows) := by
  unfold meanPrediction
  rw [psum_replicateP (fun r => r.pred * r.w) (·.pred) (fun _ _ => rfl),
    psum_replicateP (·.w) (fun _ => 1) (fun _ _ => by simp)]

/-! ### A.4 scale invariance -/

theorem wsum_scale (p : Row → Bool) (hp : WeightBlind p) (c : Rat) (rows : List Row) :
    wsum p (scale c rows) = c * wsum p rows := by
  induction rows with
  | nil => simp [scale]
  | cons r rs ih =>
    have e : scale c (r :: rs) = { r with w := c * r.w } :: scale c rs := by simp [scale]
    rw [e, wsum_cons, wsum_cons, ih, hp r]
    by_cases h : p r <;> simp [h]
    ring

theorem totalW_scale (c : Rat) (rows : List Row) : totalW (scale c rows) = c * totalW rows := by
  rw [← wsum_true_eq_totalW, ← wsum_true_eq_totalW]
  exact wsum_scale _ (fun _ _ => rfl) c rows

theorem ratio_scale (c n d : Rat) (hc : c ≠ 0) : ratio (c * n) (c * d) = ratio n d := by
  unfold ratio
  by_cases hd : d = 0
  · simp [hd]
  · have : c * d ≠ 0 := mul_ne_zero hc hd
    simp [hd, this]
    field_simp

theorem cell_scale (c : Rat) (rows : List Row) (a b : Int) :
    cell (scale c rows) a b = c * cell rows a b :=
  wsum_scale _ (weightBlind_cell a b) c rows

theorem rateOf_scale (k : Kind) (c : Rat) (hc : c ≠ 0) (rows : List Row) (neg pos : Int) :
    rateOf k (scale c rows) neg pos = rateOf k rows neg pos := by
  cases k <;> simp only [rateOf, tprOf, fnrOf, fprOf, tnrOf, rowTot, cell_scale, ← mul_add] <;>
    exact ratio_scale c _ _ hc

theorem allLabels_scale (c : Rat) (rows : List Row) : allLabels (scale c rows) = allLabels rows := by
  simp [allLabels, scale, Function.comp_def]

theorem rate_scale (k : Kind) (c : Rat) (hc : c ≠ 0) (rows : List Row) (p : Option Int) :
    rate k (scale c rows) p = rate k rows p := by
  unfold rate
  rw [allLabels_scale]
  split
  · rfl
  · rw [rateOf_scale k c hc]

theorem selectionRate_scale (c : Rat) (hc : c ≠ 0) (rows : List Row) (pos : Int) :
    selectionRate (scale c rows) pos = selectionRate rows pos := by
  unfold selectionRate
  have he : (scale c rows).isEmpty = rows.isEmpty := by cases rows <;> simp [scale]
  rw [he, wsum_scale _ (weightBlind_sel pos), totalW_scale]
  split
  · rfl
  · congr 1
    by_cases ht : totalW rows = 0
    · simp [ht]
    · field_simp

def scaleP (c : Rat) (rows : List PRow) : List PRow := rows.map (fun r => { r with w := c * r.w })

theorem meanPrediction_scaleP (c : Rat) (hc : c ≠ 0) (rows : List PRow) :
    meanPrediction (scaleP c rows) = meanPrediction rows := by
  unfold meanPrediction scaleP
  have e1 : ∀ l : List PRow, ((l.map (fun r => ({ r with w := c * r.w } : PRow))).map
      (fun r => r.pred * r.w)).sum = c * (l.map (fun r => r.pred * r.w)).sum := by
    intro l
    induction l with
    | nil => simp
    | cons r rs ih => simp only [List.map_cons, List.sum_cons, ih]; ring
  have e2 : ∀ l : List PRow, ((l.map (fun r => ({ r with w := c * r.w } : PRow))).map (·.w)).sum
      = c * (l.map (·.w)).sum := by
    intro l
    induction l with
    | nil => simp
    | cons r rs ih => simp only [List.map_cons, List.sum_cons, ih]; ring
  rw [e1, e2]
  by_cases ht : (rows.map (·.w)).sum = 0
  · simp [ht]
  · field_simp

end BaseMetrics

/-! ## B. grouped rows (Model/Weights.lean) -/

namespace Weights
open BaseMetrics

def rowPairs (rows : List (WRow × Nat)) : List (Row × Nat) := rows.map (fun p => (p.1.toRow, p.2))
def prowPairs (rows : List (WRow × Nat)) : List (PRow × Nat) := rows.map (fun p => (p.1.toPRow, p.2))

theorem posMult_rowPairs (rows : List (WRow × Nat)) (hk : PosMult rows) : PosMult (rowPairs rows) := by
  intro p hp
  simp only [rowPairs, List.mem_map] at hp
  obtain ⟨q, hq, rfl⟩ := hp
  exact hk q hq

theorem wReplicate_cons (x : WRow × Nat) (xs : List (WRow × Nat)) :
    wReplicate (x :: xs) = List.replicate x.2 { x.1 with w := 1 } ++ wReplicate xs := by
  simp [wReplicate]

theorem wWeighted_cons (x : WRow × Nat) (xs : List (WRow × Nat)) :
    wWeighted (x :: xs) = { x.1 with w := (x.2 : Rat) } :: wWeighted xs := by
  simp [wWeighted]

theorem map_toRow_wReplicate (rows : List (WRow × Nat)) :
    (wReplicate rows).map WRow.toRow = replicate (rowPairs rows) := by
  induction rows with
  | nil => rfl
  | cons x xs ih =>
    rw [wReplicate_cons, List.map_append, ih]
    simp [rowPairs, replicate, WRow.toRow]

theorem map_toRow_wWeighted (rows : List (WRow × Nat)) :
    (wWeighted rows).map WRow.toRow = weighted (rowPairs rows) := by
  simp [wWeighted, weighted, rowPairs, WRow.toRow, Function.comp_def]

theorem map_toPRow_wReplicate (rows : List (WRow × Nat)) :
    (wReplicate rows).map WRow.toPRow = replicateP (prowPairs rows) := by
  induction rows with
  | nil => rfl
  | cons x xs ih =>
    rw [wReplicate_cons, List.map_append, ih]
    simp [prowPairs, replicateP, WRow.toPRow]

theorem map_toPRow_wWeighted (rows : List (WRow × Nat)) :
    (wWeighted rows).map WRow.toPRow = weightedP (prowPairs rows) := by
  simp [wWeighted, weightedP, prowPairs, WRow.toPRow, Function.comp_def]

theorem map_toRow_wScale (c : Rat) (rows : List WRow) :
    (wScale c rows).map WRow.toRow = scale c (rows.map WRow.toRow) := by
  simp [wScale, scale, WRow.toRow, Function.comp_def]

theorem map_toPRow_wScale (c : Rat) (rows : List WRow) :
    (wScale c rows).map WRow.toPRow = scaleP c (rows.map WRow.toPRow) := by
  simp [wScale, scaleP, WRow.toPRow, Function.comp_def]

theorem wReplicate_isEmpty (rows : List (WRow × Nat)) (hk : PosMult rows) :
    (wReplicate rows).isEmpty = (wWeighted rows).isEmpty := by
  cases rows with
  | nil => rfl
  | cons x xs =>
    have h1 : 1 ≤ x.2 := hk x (by simp)
    obtain ⟨m, hm⟩ : ∃ m, x.2 = m + 1 := ⟨x.2 - 1, by omega⟩
    simp [wReplicate, wWeighted, hm, List.replicate_succ]

/-- weight k ≡ k unit copies, for each of the six metrics (public functions incl. label handling) -/
theorem eval_weighted_eq_replicate (m : Metric) (rows : List (WRow × Nat)) (hk : PosMult rows) :
    eval m (wWeighted rows) = eval m (wReplicate rows) := by
  cases m with
  | rate k pos =>
    simp only [eval, map_toRow_wReplicate, map_toRow_wWeighted]
    exact (rate_replicate k _ (posMult_rowPairs rows hk) pos).symm
  | sel pos =>
    simp only [eval, map_toRow_wReplicate, map_toRow_wWeighted]
    exact (selectionRate_replicate _ (posMult_rowPairs rows hk) pos).symm
  | meanPred =>
    simp only [eval, meanPred, map_toPRow_wReplicate, map_toPRow_wWeighted, meanPrediction_replicateP]
    have h := wReplicate_isEmpty rows hk
    rw [← map_toPRow_wReplicate, ← map_toPRow_wWeighted]
    simp only [List.isEmpty_map] at *
    rw [h]

theorem eval_scale (m : Metric) (c : Rat) (hc : c ≠ 0) (rows : List WRow) :
    eval m (wScale c rows) = eval m rows := by
  cases m with
  | rate k pos => simp only [eval, map_toRow_wScale, rate_scale k c hc]
  | sel pos => simp only [eval, map_toRow_wScale, selectionRate_scale c hc]
  | meanPred =>
    simp only [eval, meanPred, map_toPRow_wScale, meanPrediction_scaleP c hc]
    simp [scaleP]

/-! ### grouping commutes with the three weight transformations -/

theorem groupRows_wReplicate (key : Int) (rows : List (WRow × Nat)) :
    groupRows key (wReplicate rows) = wReplicate (groupPairs key rows) := by
  induction rows with
  | nil => rfl
  | cons x xs ih =>
    rw [wReplicate_cons]
    unfold groupRows at ih ⊢
    rw [List.filter_append, ih, List.filter_replicate]
    unfold groupPairs
    rw [List.filter_cons]
    by_cases h : x.1.g == key
    · simp only [h, if_true]; rw [wReplicate_cons]
    · simp only [h]; simp

theorem groupRows_wWeighted (key : Int) (rows : List (WRow × Nat)) :
    groupRows key (wWeighted rows) = wWeighted (groupPairs key rows) := by
  induction rows with
  | nil => rfl
  | cons x xs ih =>
    rw [wWeighted_cons]
    unfold groupRows at ih ⊢
    unfold groupPairs
    rw [List.filter_cons, List.filter_cons, ih]
    by_cases h : x.1.g == key
    · simp only [h, if_true]; rw [wWeighted_cons]; rfl
    · simp only [h]; rfl

theorem groupRows_wScale (key : Int) (c : Rat) (rows : List WRow) :
    groupRows key (wScale c rows) = wScale c (groupRows key rows) := by
  induction rows with
  | nil => rfl
  | cons x xs ih =>
    unfold groupRows wScale at ih ⊢
    rw [List.map_cons, List.filter_cons, List.filter_cons, ih]
    by_cases h : x.g == key
    · simp only [h, if_true, List.map_cons]
    · simp only [h]; rfl

theorem posMult_groupPairs (key : Int) (rows : List (WRow × Nat)) (hk : PosMult rows) :
    PosMult (groupPairs key rows) := by
  intro p hp
  exact hk p (List.mem_of_mem_filter hp)

theorem keys_wReplicate (rows : List (WRow × Nat)) (hk : PosMult rows) :
    keys (wReplicate rows) = keys (wWeighted rows) := by
  unfold keys
  apply uniqueSorted_congr
  intro x
  simp only [wReplicate, wWeighted, List.mem_map, List.mem_flatMap, List.mem_replicate]
  constructor
  · rintro ⟨r, ⟨p, hp, _, rfl⟩, rfl⟩
    exact ⟨_, ⟨p, hp, rfl⟩, rfl⟩
  · rintro ⟨r, ⟨p, hp, rfl⟩, rfl⟩
    have := hk p hp
    exact ⟨_, ⟨p, hp, by omega, rfl⟩, rfl⟩

theorem keys_wScale (c : Rat) (rows : List WRow) : keys (wScale c rows) = keys rows := by
  simp [keys, wScale, Function.comp_def]

theorem byGroup_weighted_eq_replicate (m : Metric) (rows : List (WRow × Nat)) (hk : PosMult rows) :
    byGroup m (wWeighted rows) = byGroup m (wReplicate rows) := by
  unfold byGroup
  rw [keys_wReplicate rows hk]
  apply List.map_congr_left
  intro key _
  rw [groupRows_wWeighted, groupRows_wReplicate,
    eval_weighted_eq_replicate m _ (posMult_groupPairs key rows hk)]

theorem byGroup_scale (m : Metric) (c : Rat) (hc : c ≠ 0) (rows : List WRow) :
    byGroup m (wScale c rows) = byGroup m rows := by
  unfold byGroup
  rw [keys_wScale]
  apply List.map_congr_left
  intro key _
  rw [groupRows_wScale, eval_scale m c hc]

theorem frame_weighted_eq_replicate (m : Metric) (rows : List (WRow × Nat)) (hk : PosMult rows) :
    frame m (wWeighted rows) = frame m (wReplicate rows) := by
  unfold frame
  rw [eval_weighted_eq_replicate m rows hk, byGroup_weighted_eq_replicate m rows hk,
    keys_wReplicate rows hk]

theorem frame_scale (m : Metric) (c : Rat) (hc : c ≠ 0) (rows : List WRow) :
    frame m (wScale c rows) = frame m rows := by
  unfold frame
  rw [eval_scale m c hc, byGroup_scale m c hc, keys_wScale]

end Weights
