/-
Fit level of the ThresholdOptimizer model: list plumbing (`allSome`, `argmaxFirst`, `minList`), what a
successful `fitSimple` / `fitEO` consists of, that they succeed when every group has both labels, and the
expected metrics of the equalized-odds rule (with `p_ignore`).
-/
import FairModel.Lemmas.ThresholdGroup

set_option linter.unusedSimpArgs false

namespace Threshold
open ThresholdGen

/-! ### `allSome` -/

theorem allSome_eq_some {α} {l : List (Option α)} {r : List α} (h : allSome l = some r) : l = r.map some := by
  induction l generalizing r with
  | nil => simp only [allSome, Option.some.injEq] at h; subst h; rfl
  | cons a l ih =>
    cases a with
    | none => simp [allSome] at h
    | some a =>
      simp only [allSome] at h
      cases hl : allSome l with
      | none => rw [hl] at h; simp at h
      | some r' =>
        rw [hl] at h
        simp only [Option.some.injEq] at h
        subst h
        rw [ih hl]; rfl

theorem allSome_map_some {α} (r : List α) : allSome (r.map some) = some r := by
  induction r with
  | nil => rfl
  | cons a r ih => simp [allSome, ih]

theorem allSome_of_forall {α β} (f : α → Option β) (l : List α) (h : ∀ x ∈ l, ∃ b, f x = some b) :
    ∃ r, allSome (l.map f) = some r := by
  induction l with
  | nil => exact ⟨[], rfl⟩
  | cons a l ih =>
    obtain ⟨b, hb⟩ := h a (by simp)
    obtain ⟨r, hr⟩ := ih (fun x hx => h x (by simp [hx]))
    exact ⟨b :: r, by simp [allSome, hb, hr]⟩

/-- index form: the j-th result comes from the j-th input -/
theorem allSome_map_get {α β} {f : α → Option β} {l : List α} {r : List β} (h : allSome (l.map f) = some r) :
    r.length = l.length ∧ ∀ j (hj : j < l.length) (hj' : j < r.length), f l[j] = some r[j] := by
  have := allSome_eq_some h
  have hlen : r.length = l.length := by
    have := congrArg List.length this; simp at this; exact this.symm
  refine ⟨hlen, fun j hj hj' => ?_⟩
  have h2 := congrArg (fun x => x[j]?) this
  simp only [List.getElem?_map, List.getElem?_eq_getElem hj, List.getElem?_eq_getElem hj',
    Option.map_some] at h2
  exact Option.some.inj h2

/-! ### `argmaxFirst` -/

theorem argmaxAux_spec (vs : List Rat) : ∀ (i bi : Nat) (bv : Rat) (pre : List Rat),
    pre.length = i → bi < i → pre[bi]? = some bv → (∀ v ∈ pre, v ≤ bv) →
    ∃ m, (pre ++ vs)[argmaxAux vs i bi bv]? = some m ∧ ∀ v ∈ pre ++ vs, v ≤ m := by
  induction vs with
  | nil =>
    intro i bi bv pre _ _ hb hmax
    exact ⟨bv, by simpa [argmaxAux] using hb, by simpa using hmax⟩
  | cons v vs ih =>
    intro i bi bv pre hlen hbi hb hmax
    unfold argmaxAux
    have happ : pre ++ v :: vs = (pre ++ [v]) ++ vs := by simp
    split
    · next hlt =>
      rw [happ]
      apply ih (i + 1) i v (pre ++ [v]) (by simp [hlen]) (by omega)
      · rw [List.getElem?_append_right (by omega)]; simp [hlen]
      · intro w hw
        rcases List.mem_append.mp hw with hw | hw
        · exact le_trans (hmax w hw) (le_of_lt hlt)
        · simp only [List.mem_singleton] at hw; rw [hw]
    · next hlt =>
      rw [happ]
      apply ih (i + 1) bi bv (pre ++ [v]) (by simp [hlen]) (by omega)
      · rw [List.getElem?_append_left (by omega)]; exact hb
      · intro w hw
        rcases List.mem_append.mp hw with hw | hw
        · exact hmax w hw
        · simp only [List.mem_singleton] at hw; rw [hw]; exact not_lt.mp hlt

/-- `argmaxFirst` addresses a maximal entry of a non-empty list -/
theorem argmaxFirst_spec (l : List Rat) (hne : l ≠ []) :
    ∃ m, l[argmaxFirst l]? = some m ∧ ∀ v ∈ l, v ≤ m := by
  cases l with
  | nil => exact absurd rfl hne
  | cons v vs =>
    have := argmaxAux_spec vs 1 0 v [v] rfl (by omega) rfl (by simp)
    simpa [argmaxFirst] using this

/-- tie rule: every entry BEFORE the index returned is strictly smaller than the entry returned -/
theorem argmaxAux_first (vs : List Rat) : ∀ (i bi : Nat) (bv : Rat) (pre : List Rat),
    pre.length = i → bi < i → pre[bi]? = some bv → (∀ v ∈ pre, v ≤ bv) →
    (∀ k w, k < bi → pre[k]? = some w → w < bv) →
    ∀ k w m, k < argmaxAux vs i bi bv → (pre ++ vs)[k]? = some w →
      (pre ++ vs)[argmaxAux vs i bi bv]? = some m → w < m := by
  induction vs with
  | nil =>
    intro i bi bv pre _ _ hb _ hfirst k w m hk hw hm
    simp only [argmaxAux, List.append_nil] at hk hw hm
    rw [hb] at hm
    simp only [Option.some.injEq] at hm
    subst hm
    exact hfirst k w hk hw
  | cons v vs ih =>
    intro i bi bv pre hlen hbi hb hmax hfirst k w m
    unfold argmaxAux
    have happ : pre ++ v :: vs = (pre ++ [v]) ++ vs := by simp
    split
    · next hlt =>
      rw [happ]
      apply ih (i + 1) i v (pre ++ [v]) (by simp [hlen]) (by omega)
      · rw [List.getElem?_append_right (by omega)]; simp [hlen]
      · intro w hw
        rcases List.mem_append.mp hw with hw | hw
        · exact le_trans (hmax w hw) (le_of_lt hlt)
        · simp only [List.mem_singleton] at hw; rw [hw]
      · intro k' w' hk' hw'
        rw [List.getElem?_append_left (by omega)] at hw'
        exact lt_of_le_of_lt (hmax w' (List.mem_of_getElem? hw')) hlt
    · next hlt =>
      rw [happ]
      apply ih (i + 1) bi bv (pre ++ [v]) (by simp [hlen]) (by omega)
      · rw [List.getElem?_append_left (by omega)]; exact hb
      · intro w hw
        rcases List.mem_append.mp hw with hw | hw
        · exact hmax w hw
        · simp only [List.mem_singleton] at hw; rw [hw]; exact not_lt.mp hlt
      · intro k' w' hk' hw'
        rw [List.getElem?_append_left (by omega)] at hw'
        exact hfirst k' w' hk' hw'

/-- **`argmaxFirst` is `idxmax`**: the entry it addresses is maximal and every earlier entry is STRICTLY smaller, i.e. it
    is the first index attaining the maximum -/
theorem argmaxFirst_first (l : List Rat) (k : Nat) (w m : Rat) (hk : k < argmaxFirst l) (hw : l[k]? = some w)
    (hm : l[argmaxFirst l]? = some m) : w < m := by
  cases l with
  | nil => simp [argmaxFirst] at hk
  | cons v vs =>
    have := argmaxAux_first vs 1 0 v [v] rfl (by omega) rfl (by simp) (by intro k w hk; omega) k w m
    simp only [argmaxFirst] at hk hm
    exact this hk (by simpa using hw) (by simpa using hm)

/-! ### `minList` -/

theorem minList_spec (l : List Rat) (m : Rat) (h : minList l = some m) : m ∈ l ∧ ∀ v ∈ l, m ≤ v := by
  induction l generalizing m with
  | nil => simp [minList] at h
  | cons v vs ih =>
    unfold minList at h
    cases hm : minList vs with
    | none =>
      rw [hm] at h
      simp only [Option.some.injEq] at h
      subst h
      cases vs with
      | nil => simp
      | cons w ws =>
        unfold minList at hm
        cases h2 : minList ws <;> rw [h2] at hm <;> simp at hm
    | some m' =>
      rw [hm] at h
      simp only [Option.some.injEq] at h
      obtain ⟨hmem, hle⟩ := ih m' hm
      by_cases hlt : m' < v
      · rw [if_pos hlt] at h; subst h
        refine ⟨by simp [hmem], fun w hw => ?_⟩
        rcases List.mem_cons.mp hw with rfl | hw
        · exact le_of_lt hlt
        · exact hle w hw
      · rw [if_neg hlt] at h; subst h
        refine ⟨by simp, fun w hw => ?_⟩
        rcases List.mem_cons.mp hw with rfl | hw
        · exact le_refl _
        · exact le_trans (not_lt.mp hlt) (hle w hw)

theorem minList_isSome (l : List Rat) (hne : l ≠ []) : ∃ m, minList l = some m := by
  cases l with
  | nil => exact absurd rfl hne
  | cons v vs =>
    unfold minList
    cases minList vs <;> simp

/-! ### the curves of all groups -/

/-- every group has both labels -/
def BothLabels (groups : List (List Row)) : Prop := ∀ g ∈ groups, nPos g ≠ 0 ∧ nNeg g ≠ 0

instance (groups : List (List Row)) : Decidable (BothLabels groups) := by
  unfold BothLabels; infer_instance

/-- `hullsOf` succeeds exactly with the per-group hulls -/
theorem hullsOf_some {flip : Bool} {xm ym : Metric} {groups : List (List Row)} {hulls : List (List Pt)}
    (h : hullsOf flip xm ym groups = some hulls) :
    hulls.length = groups.length ∧
    ∀ j (hj : j < groups.length) (hj' : j < hulls.length), tradeoffCurve flip xm ym groups[j] = some hulls[j] :=
  allSome_map_get h

theorem hullsOf_bothLabels {flip : Bool} {xm ym : Metric} {groups : List (List Row)} {hulls : List (List Pt)}
    (h : hullsOf flip xm ym groups = some hulls) : BothLabels groups := by
  intro g hg
  obtain ⟨j, hj, rfl⟩ := List.getElem_of_mem hg
  obtain ⟨hlen, hget⟩ := hullsOf_some h
  exact tradeoffCurve_some_inv (hget j hj (by omega))

theorem hullsOf_exists (flip : Bool) (xm ym : Metric) (groups : List (List Row)) (hx : IsConstraintMetric xm)
    (hb : BothLabels groups) : ∃ hulls, hullsOf flip xm ym groups = some hulls := by
  apply allSome_of_forall
  intro g hg
  obtain ⟨H, gc⟩ := groupCurve_exists flip xm ym g hx (hb g hg).1 (hb g hg).2
  exact ⟨H, gc.eq⟩

/-- the group curve facts for the j-th hull -/
theorem hullsOf_groupCurve {flip : Bool} {xm ym : Metric} {groups : List (List Row)} {hulls : List (List Pt)}
    (hx : IsConstraintMetric xm) (h : hullsOf flip xm ym groups = some hulls)
    (j : Nat) (hj : j < groups.length) (hj' : j < hulls.length) :
    GroupCurve flip xm ym groups[j] hulls[j] := by
  have heq := (hullsOf_some h).2 j hj hj'
  obtain ⟨hp, hn⟩ := tradeoffCurve_some_inv heq
  obtain ⟨H, gc⟩ := groupCurve_exists flip xm ym groups[j] hx hp hn
  have : H = hulls[j] := by
    have := gc.eq; rw [heq] at this; exact (Option.some.inj this).symm
  rw [← this]; exact gc

theorem interpAll_some {hulls : List (List Pt)} {N i : Nat} {row : List Interp}
    (h : interpAll hulls N i = some row) :
    row.length = hulls.length ∧
    ∀ j (hj : j < hulls.length) (hj' : j < row.length), interpolateAt hulls[j] i (gridVal N i) = some row[j] :=
  allSome_map_get h

theorem curves_some {hulls : List (List Pt)} {N : Nat} {cs : List (List Interp)}
    (h : curves hulls N = some cs) :
    cs.length = N + 1 ∧ ∀ i (hi : i < cs.length), interpAll hulls N i = some cs[i] := by
  obtain ⟨hlen, hget⟩ := allSome_map_get h
  simp only [List.length_range] at hlen
  refine ⟨hlen, fun i hi => ?_⟩
  have := hget i (by simp; omega) hi
  simpa using this

theorem curves_exists {flip : Bool} {xm ym : Metric} {groups : List (List Row)} {hulls : List (List Pt)}
    (hx : IsConstraintMetric xm) (h : hullsOf flip xm ym groups = some hulls) {N : Nat} (hN : 1 ≤ N) :
    ∃ cs, curves hulls N = some cs := by
  apply allSome_of_forall
  intro i hi
  have hi' : i ≤ N := by have := List.mem_range.mp hi; omega
  unfold interpAll
  have hlen := (hullsOf_some h).1
  -- index-wise existence
  have : ∀ H ∈ hulls, ∃ r, interpolateAt H i (gridVal N i) = some r := by
    intro H hH
    obtain ⟨j, hj, rfl⟩ := List.getElem_of_mem hH
    obtain ⟨r, hr, _⟩ := group_interpolate (hullsOf_groupCurve hx h j (by omega) hj) hN hi'
    exact ⟨r, hr⟩
  exact allSome_of_forall _ hulls this

/-- the j-th entry of grid row `i` is the sound interpolation of group j -/
theorem curves_entry {flip : Bool} {xm ym : Metric} {groups : List (List Row)} {hulls : List (List Pt)}
    (hx : IsConstraintMetric xm) (h : hullsOf flip xm ym groups = some hulls) {N : Nat} (hN : 1 ≤ N)
    {cs : List (List Interp)} (hc : curves hulls N = some cs) (i : Nat) (hi : i < cs.length) :
    cs[i].length = groups.length ∧
    ∀ j (hj : j < groups.length) (hj' : j < cs[i].length) (hj'' : j < hulls.length),
      GroupCurve flip xm ym groups[j] hulls[j] ∧ InterpSound hulls[j] (gridVal N i) (cs[i][j]) := by
  obtain ⟨hclen, hcget⟩ := curves_some hc
  obtain ⟨hrlen, hrget⟩ := interpAll_some (hcget i hi)
  have hlen := (hullsOf_some h).1
  refine ⟨by omega, fun j hj hj' hj'' => ?_⟩
  have gc := hullsOf_groupCurve hx h j hj hj''
  obtain ⟨r, hr, hs⟩ := group_interpolate gc hN (show i ≤ N by omega)
  have := hrget j hj'' hj'
  rw [hr] at this
  rw [← Option.some.inj this]
  exact ⟨gc, hs⟩

/-! ### expected metrics of the equalized-odds rule -/

theorem ruleProb_eo (xBest yBest : Rat) (r : Interp) :
    ruleProb (eoRule xBest yBest r) =
      fun s => pIgnore r yBest * (fun _ => xBest) s + (1 - pIgnore r yBest) * ruleProb (simpleRule r) s := rfl

theorem sumBy_const (p : Row → Bool) (c : Rat) (rows : List Row) :
    sumBy (fun r => if p r then c else 0) rows = c * (rows.countP p : Rat) := by
  induction rows with
  | nil => simp
  | cons r rs ih =>
    rw [sumBy_cons, ih, List.countP_cons]
    by_cases h : p r <;> simp [h]; ring

/-- a predictor that answers 1 with the same probability `c` for every row has FPR = TPR = c -/
theorem const_rates (c : Rat) (rows : List Row) (hp : nPos rows ≠ 0) (hn : nNeg rows ≠ 0) :
    Metric.eval .false_positive_rate (expCM (fun _ => c) rows) = c ∧
    Metric.eval .true_positive_rate (expCM (fun _ => c) rows) = c := by
  have hP := expCM_positives (fun _ => c) rows
  have hN := expCM_negatives (fun _ => c) rows
  have hn' : (nNeg rows : Rat) ≠ 0 := Nat.cast_ne_zero.mpr hn
  have hp' : (nPos rows : Rat) ≠ 0 := Nat.cast_ne_zero.mpr hp
  have hfp : (expCM (fun _ => c) rows).false_positives = c * (nNeg rows : Rat) := by
    simp only [expCM, nNeg]
    rw [← sumBy_const]; apply sumBy_congr; intro r _; cases hl : r.label <;> simp [hl]
  have htp : (expCM (fun _ => c) rows).true_positives = c * (nPos rows : Rat) := by
    simp only [expCM, nPos]
    rw [← sumBy_const]
  constructor
  · simp only [Metric.eval]; rw [hN, hfp]; field_simp
  · simp only [Metric.eval]; rw [hP, htp]; field_simp

/-- expected FPR / TPR of the equalized-odds rule in terms of the plain interpolation -/
theorem expected_eo {flip : Bool} {rows : List Row} {H : List Pt}
    (gc : GroupCurve flip eoXMetric eoYMetric rows H) {g : Rat} {r : Interp} (hr : InterpSound H g r)
    (xBest yBest : Rat) :
    expectedMetric eoXMetric (eoRule xBest yBest r) rows =
        pIgnore r yBest * xBest + (1 - pIgnore r yBest) * g ∧
    expectedMetric eoYMetric (eoRule xBest yBest r) rows =
        pIgnore r yBest * xBest + (1 - pIgnore r yBest) * r.y := by
  obtain ⟨hp, hn⟩ := tradeoffCurve_some_inv gc.eq
  obtain ⟨hx, hy⟩ := expected_simple gc hr
  obtain ⟨cx, cy⟩ := const_rates xBest rows hp hn
  unfold expectedMetric at hx hy ⊢
  rw [ruleProb_eo]
  constructor
  · rw [eval_expCM_mix _ _ _ _ _ rows (by ring), hx]
    show _ * Metric.eval .false_positive_rate _ + _ = _
    rw [cx]
  · rw [eval_expCM_mix _ _ _ _ _ rows (by ring), hy]
    show _ * Metric.eval .true_positive_rate _ + _ = _
    rw [cy]

/-- the ROC hull is on or above the diagonal: the interpolated TPR at FPR = g is at least g -/
theorem roc_above_diagonal {flip : Bool} {rows : List Row} {H : List Pt}
    (gc : GroupCurve flip eoXMetric eoYMetric rows H) {g : Rat} {r : Interp} (hr : InterpSound H g r)
    (hg0 : 0 ≤ g) (hg1 : g ≤ 1) : g ≤ r.y := by
  obtain ⟨hp, hn⟩ := tradeoffCurve_some_inv gc.eq
  have hne := nPos_ne_zero_ne_nil hp
  obtain ⟨h0, h1⟩ := rawPoints_has_extremes flip eoXMetric eoYMetric rows hne
  have hn' : (nNeg rows : Rat) ≠ 0 := Nat.cast_ne_zero.mpr hn
  have hp' : (nPos rows : Rat) ≠ 0 := Nat.cast_ne_zero.mpr hp
  set P0 : Pt := ⟨eoXMetric.eval (actualCounts 0 0 (nNeg rows) (nPos rows)),
    eoYMetric.eval (actualCounts 0 0 (nNeg rows) (nPos rows)), ⟨true, .pinf⟩⟩ with hP0
  set P1 : Pt := ⟨eoXMetric.eval (actualCounts (nNeg rows) (nPos rows) (nNeg rows) (nPos rows)),
    eoYMetric.eval (actualCounts (nNeg rows) (nPos rows) (nNeg rows) (nPos rows)), ⟨true, .ninf⟩⟩ with hP1
  have e0x : P0.x = 0 := by simp [hP0, eoXMetric, Metric.eval, actualCounts]
  have e0y : P0.y = 0 := by simp [hP0, eoYMetric, Metric.eval, actualCounts]
  have e1x : P1.x = 1 := by simp [hP1, eoXMetric, Metric.eval, actualCounts, CM.negatives, hn']
  have e1y : P1.y = 1 := by simp [hP1, eoYMetric, Metric.eval, actualCounts, CM.positives, hp']
  have hdom := interp_dominates gc hr [(1 - g, P0), (g, P1)]
    ⟨by
      intro wp hwp
      simp only [List.mem_cons, List.not_mem_nil, or_false] at hwp
      rcases hwp with rfl | rfl
      · exact ⟨by simp only; linarith, h0⟩
      · exact ⟨hg0, h1⟩,
     by simp [Mixture.weight]⟩
    (by simp [Mixture.x, e0x, e1x])
  simp [Mixture.y, e0y, e1y] at hdom
  exact hdom

/-! ### what a successful fit consists of -/

theorem fitSimple_some {flip : Bool} {xm ym : Metric} {N : Nat} {groups : List (List Row)}
    {force : Option Nat} {fit : Fit} (h : fitSimple flip xm ym N groups force = some fit) :
    ∃ hulls cs best, hullsOf flip xm ym groups = some hulls ∧ curves hulls N = some cs ∧
      cs[fit.iBest]? = some best ∧ fit.interps = best ∧ fit.rules = best.map simpleRule ∧
      fit.objective = objSimple groups best ∧
      fit.iBest = force.getD (argmaxFirst (cs.map (objSimple groups))) := by
  rw [fitSimple_eq] at h
  cases hh : hullsOf flip xm ym groups with
  | none => rw [hh] at h; simp at h
  | some hulls =>
    rw [hh] at h
    simp only at h
    cases hc : curves hulls N with
    | none => rw [hc] at h; simp at h
    | some cs =>
      rw [hc] at h
      simp only at h
      split at h
      · next best o hb ho =>
        simp only [Option.some.injEq] at h
        subst h
        refine ⟨hulls, cs, best, rfl, hc, hb, rfl, rfl, ?_, rfl⟩
        simp only [List.getElem?_map, hb, Option.map_some, Option.some.injEq] at ho
        exact ho.symm
      · simp at h

theorem fitEO_some {flip : Bool} {obj : Metric} {N : Nat} {groups : List (List Row)}
    {force : Option Nat} {fit : Fit} {yBest : Rat} (h : fitEO flip obj N groups force = some (fit, yBest)) :
    ∃ hulls cs ymins best, hullsOf flip eoXMetric eoYMetric groups = some hulls ∧ curves hulls N = some cs ∧
      allSome (cs.map (fun is => minList (is.map (·.y)))) = some ymins ∧
      cs[fit.iBest]? = some best ∧ ymins[fit.iBest]? = some yBest ∧ fit.interps = best ∧
      fit.rules = best.map (eoRule (gridVal N fit.iBest) yBest) ∧
      fit.objective = objEO obj groups (gridVal N fit.iBest) yBest ∧
      fit.iBest = force.getD (argmaxFirst
        ((List.range (N + 1)).zipWith (fun i y => objEO obj groups (gridVal N i) y) ymins)) := by
  rw [fitEO_eq] at h
  cases hh : hullsOf flip eoXMetric eoYMetric groups with
  | none => rw [hh] at h; simp at h
  | some hulls =>
    rw [hh] at h
    simp only at h
    cases hc : curves hulls N with
    | none => rw [hc] at h; simp at h
    | some cs =>
      rw [hc] at h
      simp only at h
      cases hy : allSome (cs.map (fun is => minList (is.map (·.y)))) with
      | none => rw [hy] at h; simp at h
      | some ymins =>
        rw [hy] at h
        simp only at h
        split at h
        · next best o yb hb ho hyb =>
          simp only [Option.some.injEq, Prod.mk.injEq] at h
          obtain ⟨h1, h2⟩ := h
          subst h1 h2
          refine ⟨hulls, cs, ymins, best, rfl, hc, hy, hb, hyb, rfl, rfl, ?_, rfl⟩
          -- the objective entry
          have hlen : ymins.length = cs.length := by
            have := (allSome_map_get hy).1; exact this
          have hclen := (curves_some hc).1
          rw [List.getElem?_zipWith] at ho
          obtain ⟨i', hi'⟩ : ∃ i', (List.range (N + 1))[force.getD (argmaxFirst
              ((List.range (N + 1)).zipWith (fun i y => objEO obj groups (gridVal N i) y) ymins))]? = some i' := by
            cases hr : (List.range (N + 1))[force.getD (argmaxFirst
              ((List.range (N + 1)).zipWith (fun i y => objEO obj groups (gridVal N i) y) ymins))]? with
            | none => rw [hr] at ho; simp at ho
            | some i' => exact ⟨i', rfl⟩
          rw [hi', hyb] at ho
          simp only [Option.some.injEq] at ho
          rw [List.getElem?_range] at hi'
          · simp only [Option.some.injEq] at hi'
            rw [← ho, ← hi']
          · by_contra hcon
            rw [List.getElem?_eq_none (by simp; omega)] at hi'
            simp at hi'
        · simp at h

end Threshold
