/-
Cross-property lemmas, part 5: ErrorRateParity ↔ `accuracy_score` / `zero_one_loss`.

The utilities of `ErrorRateParity` are `[y, 1 − y]`, so the `pred` vector inside `UtilityParity.gamma` is
`(1 − 2y)·h + y`: for a hard predictor and 0/1 labels the 0/1 ERROR INDICATOR of each row.  On the frame a user
builds from the selected rows (`Cross.selDat`, unit weights) the first-principles `zero_one_loss` of C03
(`zeroOneSpec`) is therefore the moments-side mean of that vector, and `accuracy_score` is one minus it.
-/
import FairModel.Lemmas.CrossFrame

namespace Cross
open Moments Fairness Frame MetricPool XR

/-- the error indicator, summed over the selected rows -/
theorem sum_ind_err (P : Moments.Row → Bool) (rows : List Moments.Row) (h : List Rat)
    (hy : ∀ r ∈ rows, r.y = 0 ∨ r.y = 1) (hh : Hard h) :
    (List.zipWith (fun (r : Moments.Row) (p : Rat) => ind (P r && !(((r.y : Rat)) == p))) rows h).sum
      = dot (rows.map (fun r => ind (P r))) (predOf erpUtil rows h) := by
  unfold predOf
  induction rows generalizing h with
  | nil => simp
  | cons r rs ih =>
    cases h with
    | nil => simp
    | cons p ps =>
      have := ih ps (fun x hx => hy x (by simp [hx])) (fun x hx => hh x (by simp [hx]))
      simp only [List.zipWith_cons_cons, List.sum_cons, List.map_cons, dot_cons, this]
      congr 1
      rcases hy r (by simp) with h0 | h0 <;> rcases hh p (by simp) with rfl | rfl <;> cases P r <;>
        simp [ind, h0, MomentsSrc.predOf, Util.ud, erpUtil, MomentsSrc.utilDiff, MomentsSrc.erpU0, MomentsSrc.erpU1]

/-- `zero_one_loss` (hard predictions, 0/1 labels) of the selected rows = the moments-side mean of the
    ErrorRateParity utility -/
theorem zeroOneSpec_selDat (P : Moments.Row → Bool) (rows : List Moments.Row) (h : List Rat)
    (hl : h.length = rows.length) (hy : ∀ r ∈ rows, r.y = 0 ∨ r.y = 1) (hh : Hard h) :
    zeroOneSpec (selDat P rows h) = meanOn P rows (predOf erpUtil rows h) := by
  unfold zeroOneSpec meanOn
  rw [wsum_selDat, wsum_selDat]
  simp only [Bool.and_true, datOf]
  rw [sum_ind_count P rows h hl, sum_ind_err P rows h hy hh]

/-- `accuracy_score = 1 − zero_one_loss` on every non-empty selection -/
theorem accuracySpec_selDat (P : Moments.Row → Bool) (rows : List Moments.Row) (h : List Rat)
    (hl : h.length = rows.length) (hne : rows.filter P ≠ []) :
    accuracySpec (selDat P rows h) = 1 - zeroOneSpec (selDat P rows h) := by
  have hs := wsum_split (fun _ => true) (fun d => d.y == d.pred) (selDat P rows h)
  simp only [Bool.true_and] at hs
  have hpos : Fairness.wsum (fun _ => true) (selDat P rows h) ≠ 0 := by
    rw [wsum_selDat]
    simp only [Bool.and_true]
    rw [sum_ind_count P rows h hl]
    have := List.length_pos_of_ne_nil hne
    exact_mod_cast this.ne'
  unfold accuracySpec zeroOneSpec
  field_simp
  linarith

/-- the ErrorRateParity event rule IS the DemographicParity event rule (one event per control stratum) -/
theorem eventOf_erp_eq_dp : eventOf .erp = eventOf .dp := by
  funext r; rfl

end Cross
