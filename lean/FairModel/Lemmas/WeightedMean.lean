import FairModel.Lemmas.Prelude

/-! A sample-weighted mean of a per-row quantity over a partitioned list lies between the
smallest and the largest of the group means (positive weights). -/

namespace WeightedMean

variable {α κ : Type}

def num (q w : α → Rat) (l : List α) : Rat := (l.map (fun a => q a * w a)).sum
def den (w : α → Rat) (l : List α) : Rat := (l.map w).sum

@[simp] theorem num_nil (q w : α → Rat) : num q w [] = 0 := rfl
@[simp] theorem den_nil (w : α → Rat) : den w [] = 0 := rfl

theorem num_append (q w : α → Rat) (a b : List α) : num q w (a ++ b) = num q w a + num q w b := by
  simp [num]

theorem den_append (w : α → Rat) (a b : List α) : den w (a ++ b) = den w a + den w b := by
  simp [den]

theorem num_perm (q w : α → Rat) {a b : List α} (h : a.Perm b) : num q w a = num q w b :=
  (h.map _).sum_eq

theorem den_perm (w : α → Rat) {a b : List α} (h : a.Perm b) : den w a = den w b :=
  (h.map _).sum_eq

theorem den_nonneg (w : α → Rat) (l : List α) (hw : ∀ a ∈ l, 0 < w a) : 0 ≤ den w l := by
  induction l with
  | nil => simp
  | cons a l ih =>
    have h1 := hw a (by simp)
    have h2 := ih (fun x hx => hw x (by simp [hx]))
    simp only [den, List.map_cons, List.sum_cons] at h2 ⊢
    linarith

theorem den_pos (w : α → Rat) (l : List α) (hw : ∀ a ∈ l, 0 < w a) (hne : l ≠ []) : 0 < den w l := by
  cases l with
  | nil => exact absurd rfl hne
  | cons a l =>
    have h1 := hw a (by simp)
    have h2 := den_nonneg w l (fun x hx => hw x (by simp [hx]))
    simp only [den, List.map_cons, List.sum_cons] at h2 ⊢
    linarith

/-- If every non-empty group mean lies in `[m, M]`, so does the mean of the concatenation. -/
theorem mean_between (q w : α → Rat) (ks : List κ) (g : κ → List α)
    (hw : ∀ k ∈ ks, ∀ a ∈ g k, 0 < w a) (m M : Rat)
    (hb : ∀ k ∈ ks, g k ≠ [] → m ≤ num q w (g k) / den w (g k) ∧ num q w (g k) / den w (g k) ≤ M)
    (hne : ks.flatMap g ≠ []) :
    m ≤ num q w (ks.flatMap g) / den w (ks.flatMap g) ∧
      num q w (ks.flatMap g) / den w (ks.flatMap g) ≤ M := by
  have key : m * den w (ks.flatMap g) ≤ num q w (ks.flatMap g) ∧
      num q w (ks.flatMap g) ≤ M * den w (ks.flatMap g) := by
    clear hne
    induction ks with
    | nil => simp
    | cons k ks ih =>
      have ih := ih (fun k' hk' => hw k' (by simp [hk'])) (fun k' hk' => hb k' (by simp [hk']))
      simp only [List.flatMap_cons, num_append, den_append]
      have hk : m * den w (g k) ≤ num q w (g k) ∧ num q w (g k) ≤ M * den w (g k) := by
        by_cases he : g k = []
        · simp [he]
        · have hd := den_pos w (g k) (hw k (by simp)) he
          have := hb k (by simp) he
          rw [le_div_iff₀ hd, div_le_iff₀ hd] at this
          exact this
      constructor <;> nlinarith [hk.1, hk.2, ih.1, ih.2]
  have hd : 0 < den w (ks.flatMap g) := by
    apply den_pos w _ _ hne
    intro a ha
    obtain ⟨k, hk, hak⟩ := List.mem_flatMap.mp ha
    exact hw k hk a hak
  rw [le_div_iff₀ hd, div_le_iff₀ hd]
  exact key

end WeightedMean
