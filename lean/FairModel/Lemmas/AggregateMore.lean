import FairModel.Lemmas.Aggregate

/-! Further per-stratum facts: when the disparities vanish, and `ratio(to_overall) ≥ ratio(between_groups)`. -/

namespace Aggregate
open XR

theorem fins_ne_nil_of_min {l : List XR} (h : FinNan l) {m : Rat} (hm : minSkip l = fin m) : fins l ≠ [] := by
  intro h0
  have := (minSkip_eq_fin h hm).1
  rw [h0] at this; simp at this

/-- all non-NaN values coincide iff minimum = maximum -/
theorem min_eq_max_iff {l : List XR} (h : FinNan l) {m M : Rat} (hm : minSkip l = fin m) (hM : maxSkip l = fin M) :
    M = m ↔ ∀ q ∈ fins l, q = m := by
  obtain ⟨hm1, hm2⟩ := minSkip_eq_fin h hm
  obtain ⟨hM1, hM2⟩ := maxSkip_eq_fin h hM
  constructor
  · intro he q hq
    exact le_antisymm (he ▸ hM2 q hq) (hm2 q hq)
  · intro hall
    exact hall M hM1

/-- `diffOf vs (fin s) = 0` iff there is a non-NaN value and every non-NaN value equals `s` -/
theorem diffOf_eq_zero_iff {vs : List XR} (h : FinNan vs) (s : Rat) :
    diffOf vs (fin s) = fin 0 ↔ fins vs ≠ [] ∧ ∀ q ∈ fins vs, q = s := by
  rcases diffOf_spec h s with ⟨h0, hn⟩ | ⟨D, hD, ⟨q0, hq0, hDq⟩, hle⟩
  · rw [hn]
    constructor
    · intro hc; cases hc
    · intro ⟨hne, _⟩; exact absurd h0 hne
  · rw [hD]
    constructor
    · intro hz
      injection hz with hz
      refine ⟨fun h0 => by rw [h0] at hq0; simp at hq0, ?_⟩
      intro q hq
      have h1 := hle q hq
      rw [hz] at h1
      have h2 : |q - s| = 0 := le_antisymm h1 (abs_nonneg _)
      have := abs_eq_zero.mp h2
      linarith
    · intro ⟨_, hall⟩
      congr 1
      rw [hDq, hall q0 hq0]; simp

/-- a list whose only non-NaN value is `v` -/
theorem single_min_max {l : List XR} (h : FinNan l) {v : Rat} (hv : fins l = [v]) :
    minSkip l = fin v ∧ maxSkip l = fin v := by
  constructor
  · rcases minSkip_spec h with ⟨h0, _⟩ | ⟨m, hm, hmem, _⟩
    · rw [hv] at h0; cases h0
    · rw [hv] at hmem; simp at hmem; rw [hm, hmem]
  · rcases maxSkip_spec h with ⟨h0, _⟩ | ⟨m, hm, hmem, _⟩
    · rw [hv] at h0; cases h0
    · rw [hv] at hmem; simp at hmem; rw [hm, hmem]

/-- `min / max = 1` iff they coincide and are not zero -/
theorem div_eq_one_iff (m M : Rat) : XR.div (fin m) (fin M) = fin 1 ↔ (m = M ∧ M ≠ 0) := by
  rw [div_fin_fin]
  by_cases h0 : M = 0
  · rw [if_pos h0]
    constructor
    · intro h
      split at h
      · cases h
      · split at h <;> cases h
    · intro ⟨_, h⟩; exact absurd h0 h
  · rw [if_neg h0]
    constructor
    · intro h
      injection h with h
      refine ⟨?_, h0⟩
      field_simp at h
      exact h
    · intro ⟨h, _⟩
      subst h
      congr 1
      field_simp

/-- on a non-negative stratum whose overall value lies between the group minimum and maximum, every
    `ratio_sub_one (v / o)` is at least `min / max` -/
theorem ratioOverallOf_ge_between {vs : List XR} (h : FinNan vs) (hnn : ∀ q ∈ fins vs, 0 ≤ q)
    {m M o rb ro : Rat} (hm : minSkip vs = fin m) (hM : maxSkip vs = fin M) (hmo : m ≤ o) (hoM : o ≤ M)
    (hb : XR.div (fin m) (fin M) = fin rb) (ho : ratioOverallOf vs (fin o) = fin ro) : rb ≤ ro := by
  obtain ⟨hm1, hm2⟩ := minSkip_eq_fin h hm
  obtain ⟨hM1, hM2⟩ := maxSkip_eq_fin h hM
  have hm0 : 0 ≤ m := hnn m hm1
  -- the quotient min/max is finite, hence max ≠ 0
  have hM0 : M ≠ 0 := by
    intro h0
    rw [div_fin_fin, if_pos h0] at hb
    split at hb
    · cases hb
    · split at hb <;> cases hb
  have hMpos : 0 < M := lt_of_le_of_ne (hnn M hM1) (Ne.symm hM0)
  rw [div_fin_fin, if_neg hM0] at hb
  injection hb with hb
  have hron : 0 ≤ ro := by
    rcases ratioOverallOf_nonneg h hnn (le_trans hm0 hmo) with h' | h' | ⟨r', h', hr'⟩
    · rw [h'] at ho; cases ho
    · rw [h'] at ho; cases ho
    · rw [h'] at ho; cases ho; exact hr'
  by_cases hmz : m = 0
  · rw [← hb, hmz]; simpa using hron
  · have hmpos : 0 < m := lt_of_le_of_ne hm0 (Ne.symm hmz)
    have hopos : 0 < o := lt_of_lt_of_le hmpos hmo
    -- the minimum is attained by some group
    unfold ratioOverallOf at ho
    simp only [AggregateSpec.ratioOverallAgg, Grouping.apply] at ho
    rcases minSkip_mem (vs.map (fun v => AggregateSpec.ratioSubOne (XR.div v (fin o)))) with hn | hmem
    · rw [hn] at ho; cases ho
    · rw [ho] at hmem
      obtain ⟨v, hv, hve⟩ := List.mem_map.mp hmem
      rcases h v hv with rfl | ⟨q, rfl⟩
      · rw [show XR.div nan (fin o) = nan from rfl, ratioSubOne_nan] at hve; cases hve
      · have hq := mem_fins.mpr hv
        have hq1 := hm2 q hq
        have hq2 := hM2 q hq
        have hqpos : 0 < q := lt_of_lt_of_le hmpos hq1
        rw [div_fin_fin, if_neg (ne_of_gt hopos), ratioSubOne_fin] at hve
        rw [← hb]
        by_cases h1 : 1 < q / o
        · rw [if_pos h1] at hve
          injection hve with hve
          rw [← hve, one_div_div, div_le_div_iff₀ hMpos hqpos]
          nlinarith
        · rw [if_neg h1] at hve
          injection hve with hve
          rw [← hve, div_le_div_iff₀ hMpos hopos]
          nlinarith

end Aggregate
