import FairModel.Lemmas.Saddle
import FairModel.Model.EGLoop

/-!
Helper lemmas for the ExponentiatedGradient main-loop model (`Model/EGLoop.lean`):
list sums, the multiplier formula, the running mean, `Qsum`/`Q_EG`, and the field equations of `finish`/`iter`.
-/
namespace EGLoop
open Saddle Finset

/-! ### list sums -/

theorem list_sum_nonneg : ∀ (l : List Rat), (∀ x ∈ l, 0 ≤ x) → 0 ≤ l.sum
  | [], _ => by simp
  | a :: l, h => by
    simp only [List.sum_cons]
    have h1 := h a (by simp)
    have h2 := list_sum_nonneg l (fun x hx => h x (by simp [hx]))
    linarith

theorem sumTo_def (n : Nat) (f : Nat → Rat) : ((List.range n).map f).sum = ∑ i ∈ range n, f i := by
  have := sumTo_eq n f
  unfold sumTo at this
  exact this

theorem sum_range_getD : ∀ (l : List Rat), ((List.range l.length).map (fun j => l.getD j 0)).sum = l.sum
  | [] => by simp
  | a :: l => by
    have ih := sum_range_getD l
    rw [sumTo_def] at ih ⊢
    rw [List.length_cons, Finset.sum_range_succ']
    simp only [List.getD_cons_succ, List.getD_cons_zero, List.sum_cons]
    rw [ih]; ring

theorem sum_map_div {α : Type} (l : List α) (f : α → Rat) (d : Rat) :
    (l.map (fun x => f x / d)).sum = (l.map f).sum / d := by
  induction l with
  | nil => simp
  | cons a l ih => simp only [List.map_cons, List.sum_cons, ih]; ring

/-! ### (a) the multiplier vector -/

theorem exp_sum_nonneg (e : Rat → Rat) (he : ∀ x, 0 < e x) (theta : List Rat) : 0 ≤ (theta.map e).sum := by
  apply list_sum_nonneg
  intro x hx
  obtain ⟨y, _, rfl⟩ := List.mem_map.mp hx
  exact le_of_lt (he y)

/-- a multiplier vector as the theorems need it: right length, non-negative, L1 norm strictly below `B` -/
def GoodLam (B : Rat) (n : Nat) (v : List Rat) : Prop := v.length = n ∧ (∀ x ∈ v, 0 ≤ x) ∧ v.sum < B

theorem lamVec_good (P : Params) (hB : 0 < P.B) (he : ∀ x, 0 < P.e x) (theta : List Rat) :
    GoodLam P.B theta.length (lamVec P theta) := by
  have hS := exp_sum_nonneg P.e he theta
  refine ⟨by simp [lamVec], ?_, ?_⟩
  · intro v hv
    unfold lamVec at hv
    obtain ⟨x, hx, rfl⟩ := List.mem_map.mp hv
    obtain ⟨y, _, rfl⟩ := List.mem_map.mp hx
    unfold EGLoopGen.lamOf
    have := he y
    positivity
  · unfold lamVec
    have h1 : ((theta.map P.e).map (fun x => EGLoopGen.lamOf P.B x (theta.map P.e).sum)).sum
        = P.B * (theta.map P.e).sum / (1 + (theta.map P.e).sum) := by
      unfold EGLoopGen.lamOf
      rw [sum_map_div (theta.map P.e) (fun x => P.B * x) (1 + (theta.map P.e).sum)]
      congr 1
      generalize theta.map P.e = l
      induction l with
      | nil => simp
      | cons a l ih => simp only [List.map_cons, List.sum_cons, ih]; ring
    rw [h1, div_lt_iff₀ (by linarith)]
    nlinarith

/-! ### (b) the running mean `lambda_EG` -/

theorem meanCols_length (n : Nat) (cols : List (List Rat)) : (meanCols n cols).length = n := by simp [meanCols]

theorem sum_exchange (n : Nat) : ∀ (cols : List (List Rat)),
    ((List.range n).map (fun j => (cols.map (fun col => col.getD j 0)).sum)).sum
      = (cols.map (fun col => ((List.range n).map (fun j => col.getD j 0)).sum)).sum
  | [] => by simp
  | c :: cols => by
    have ih := sum_exchange n cols
    simp only [List.map_cons, List.sum_cons]
    rw [← ih, sumTo_def, sumTo_def, sumTo_def, ← Finset.sum_add_distrib]

theorem list_sum_lt (B : Rat) : ∀ (l : List Rat), l ≠ [] → (∀ x ∈ l, x < B) → l.sum < (l.length : Rat) * B
  | [], h, _ => absurd rfl h
  | [a], _, h => by simpa using h a (by simp)
  | a :: b :: l, _, h => by
    have ih := list_sum_lt B (b :: l) (by simp) (fun x hx => h x (by simp [hx]))
    have ha := h a (by simp)
    simp only [List.sum_cons, List.length_cons] at ih ⊢
    push_cast at ih ⊢
    linarith

/-- the lifted aggregation `lambda_EG = self.lambda_vecs_EG_.mean(axis=1)` (`EGLoopGen.lamEGAgg`) in closed form -/
theorem meanCols_def (n : Nat) (cols : List (List Rat)) :
    meanCols n cols = (List.range n).map (fun j => (cols.map (fun col => col.getD j 0)).sum / (cols.length : Rat)) := by
  unfold meanCols EGLoopGen.lamEGAgg
  rfl

/-- `Qs.append(..)` keeps the value of the iteration: the appended objects are fresh (lifted data-flow fact
    `EGLoopGen.qsEntriesFresh`; false e.g. for the in-place running mean of the seeded change C08a) -/
theorem storeQ_fresh (qs : List (List Rat)) (fl : List Bool) (qEG q : List Rat) : storeQ qs fl qEG q = qs ++ [q] := by
  unfold storeQ
  simp [EGLoopGen.qsEntriesFresh]

theorem finish_qs (P : Params) (s : State) (D : Decision) : (finish P s D).qs = s.qs ++ [D.q] := by
  simp [finish, storeQ_fresh]

theorem meanCols_good (B : Rat) (n : Nat) (cols : List (List Rat)) (hne : cols ≠ [])
    (h : ∀ c ∈ cols, GoodLam B n c) : GoodLam B n (meanCols n cols) := by
  have hlen : (0 : Rat) < (cols.length : Rat) := by
    have : 0 < cols.length := List.length_pos_iff.mpr hne
    exact_mod_cast this
  refine ⟨meanCols_length n cols, ?_, ?_⟩
  · intro v hv
    rw [meanCols_def] at hv
    obtain ⟨j, _, rfl⟩ := List.mem_map.mp hv
    apply div_nonneg _ (le_of_lt hlen)
    apply list_sum_nonneg
    intro x hx
    obtain ⟨c, hc, rfl⟩ := List.mem_map.mp hx
    by_cases hj : j < c.length
    · have : c.getD j 0 = c[j] := by simp [List.getD_eq_getElem?_getD, hj]
      rw [this]; exact (h c hc).2.1 _ (List.getElem_mem hj)
    · have : c.getD j 0 = 0 := by simp [List.getD_eq_getElem?_getD, not_lt.mp hj]
      rw [this]
  · rw [meanCols_def]
    rw [sum_map_div (List.range n) (fun j => (cols.map (fun col => col.getD j 0)).sum) (cols.length : Rat)]
    rw [sum_exchange, div_lt_iff₀ hlen]
    have h2 : ∀ x ∈ cols.map (fun col => ((List.range n).map (fun j => col.getD j 0)).sum), x < B := by
      intro x hx
      obtain ⟨c, hc, rfl⟩ := List.mem_map.mp hx
      have hg := h c hc
      rw [← hg.1, sum_range_getD]; exact hg.2.2
    have := list_sum_lt B _ (by simpa using hne) h2
    simp only [List.length_map] at this
    linarith

/-! ### (c) `Qsum` and `Q_EG` -/

/-- a probability vector -/
def IsProb (q : List Rat) : Prop := (∀ x ∈ q, 0 ≤ x) ∧ q.sum = 1

theorem qNew_nonneg : (0 : Rat) ≤ EGLoopGen.qNew := by norm_num [EGLoopGen.qNew]
theorem qBump_pos : (0 : Rat) < EGLoopGen.qBump := by norm_num [EGLoopGen.qBump]

theorem bump_nonneg : ∀ (q : List Rat) (i : Nat), (∀ x ∈ q, 0 ≤ x) → ∀ x ∈ bump q i, 0 ≤ x
  | [], 0, _, x, hx => by
    simp only [bump, List.mem_singleton] at hx
    rw [hx]; linarith [qNew_nonneg, qBump_pos]
  | [], i + 1, h, x, hx => by
    simp only [bump, List.mem_cons] at hx
    rcases hx with rfl | hx
    · exact le_refl _
    · exact bump_nonneg [] i h x hx
  | a :: q, 0, h, x, hx => by
    simp only [bump, List.mem_cons] at hx
    rcases hx with rfl | hx
    · linarith [h a (by simp), qBump_pos]
    · exact h x (by simp [hx])
  | a :: q, i + 1, h, x, hx => by
    simp only [bump, List.mem_cons] at hx
    rcases hx with rfl | hx
    · exact h _ (by simp)
    · exact bump_nonneg q i (fun y hy => h y (by simp [hy])) x hx

theorem bump_sum_pos : ∀ (q : List Rat) (i : Nat), (∀ x ∈ q, 0 ≤ x) → 0 < (bump q i).sum
  | [], 0, _ => by simp only [bump, List.sum_cons, List.sum_nil]; linarith [qNew_nonneg, qBump_pos]
  | [], i + 1, h => by simp only [bump, List.sum_cons]; linarith [bump_sum_pos [] i h]
  | a :: q, 0, h => by
    simp only [bump, List.sum_cons]
    have := list_sum_nonneg q (fun y hy => h y (by simp [hy]))
    linarith [h a (by simp), qBump_pos]
  | a :: q, i + 1, h => by
    simp only [bump, List.sum_cons]
    linarith [h a (by simp), bump_sum_pos q i (fun y hy => h y (by simp [hy]))]

theorem bump_length : ∀ (q : List Rat) (i : Nat), (bump q i).length = max q.length (i + 1)
  | [], 0 => by simp [bump]
  | [], i + 1 => by simp [bump, bump_length [] i]
  | a :: q, 0 => by simp [bump]
  | a :: q, i + 1 => by simp [bump, bump_length q i]

theorem normalise_isProb (q : List Rat) (hq : ∀ x ∈ q, 0 ≤ x) (hs : 0 < q.sum) : IsProb (normalise q) := by
  constructor
  · intro x hx
    unfold normalise at hx
    obtain ⟨y, hy, rfl⟩ := List.mem_map.mp hx
    unfold EGLoopGen.qNorm
    exact div_nonneg (hq y hy) (le_of_lt hs)
  · unfold normalise EGLoopGen.qNorm
    rw [sum_map_div q (fun x => x) q.sum]
    simp only [List.map_id']
    exact div_self (ne_of_gt hs)

theorem normalise_length (q : List Rat) : (normalise q).length = q.length := by simp [normalise]

theorem padTo_isProb (n : Nat) (q : List Rat) (h : IsProb q) : IsProb (padTo n q) := by
  unfold padTo
  constructor
  · intro x hx
    rcases List.mem_append.mp hx with h1 | h1
    · exact h.1 x h1
    · rw [List.eq_of_mem_replicate h1]
  · rw [List.sum_append, h.2]; simp

/-! ### field equations of `finish` / `iter` -/

theorem iter_stop (P : Params) (O : Oracles) (s : State) (h : (s.done || decide (P.maxIter ≤ s.t)) = true) :
    iter P O s = s := by
  unfold iter; rw [if_pos h]

theorem iter_go (P : Params) (O : Oracles) (s : State) (h : (s.done || decide (P.maxIter ≤ s.t)) = false) :
    iter P O s = finish P s (decision P O s) := by
  unfold iter; rw [if_neg (by simp [h])]

theorem decision_lam (P : Params) (O : Oracles) (s : State) : (decision P O s).lam = lamVec P s.theta := by
  unfold decision; split <;> rfl

theorem decision_lamEG (P : Params) (O : Oracles) (s : State) :
    (decision P O s).lamEG = meanCols P.c.length (s.lamCols ++ [lamVec P s.theta]) := by
  unfold decision; split <;> rfl

theorem decision_qsum (P : Params) (O : Oracles) (s : State) :
    (decision P O s).qsum = bump s.qsum (bestH s.hs (lamVec P s.theta) (O.h s.calls)).2 := by
  unfold decision; split <;> rfl

/-- the pair `solve_linprog` returns is a fresh answer of the LP oracle or the cached one -/
theorem solveLP_ans (P : Params) (O : Oracles) (s : State) :
    (solveLP P O s).2.1 = O.lp s.lpCalls ∨ ∃ r, s.lpRes = some r ∧ (solveLP P O s).2.1 = r.1 := by
  unfold solveLP
  split
  · next r hr =>
    right
    refine ⟨r, ?_, rfl⟩
    split at hr
    · exact hr
    · cases hr
  · left; rfl

/-- what is appended to `Qs` is either `Q_EG` of this iteration or the `Q` of an LP answer (fresh or cached) -/
theorem decision_q (P : Params) (O : Oracles) (s : State) :
    (decision P O s).q = normalise (decision P O s).qsum ∨ (∃ k, (decision P O s).q = (O.lp k).Q) ∨
    (∃ r, s.lpRes = some r ∧ (decision P O s).q = r.1.Q) := by
  unfold decision
  split
  · left; rfl
  · simp only []
    split
    · left; rfl
    · right
      rcases solveLP_ans P O _ with h | ⟨r, hr, h⟩
      · left; exact ⟨_, congrArg LPAns.Q h⟩
      · right; exact ⟨r, hr, congrArg LPAns.Q h⟩

theorem decision_useEG (P : Params) (O : Oracles) (s : State) (h : (decision P O s).useEG = true) :
    (decision P O s).q = normalise (decision P O s).qsum := by
  unfold decision at h ⊢
  split
  · rfl
  · next hskip =>
    rw [if_neg hskip] at h
    simp only [] at h ⊢
    rw [if_pos h]

/-- the cached LP result after the step is an answer of the LP oracle or the previously cached one -/
theorem solveLP_lpRes (P : Params) (O : Oracles) (s : State) :
    (∃ k g, (solveLP P O s).1.lpRes = some (O.lp k, g)) ∨ (solveLP P O s).1.lpRes = s.lpRes := by
  unfold solveLP
  split
  · right; rfl
  · left; exact ⟨_, _, rfl⟩

theorem decision_lpRes (P : Params) (O : Oracles) (s : State) :
    (∃ k g, (decision P O s).s2.lpRes = some (O.lp k, g)) ∨ (decision P O s).s2.lpRes = s.lpRes := by
  unfold decision
  split
  · right; rfl
  · simp only []
    rcases solveLP_lpRes P O _ with h | h
    · left; exact h
    · right; rw [h]

/-! ### the loop invariant -/

theorem thetaStep_length (P : Params) (theta : List Rat) (eta : Rat) (gamma : List Rat) :
    (thetaStep P theta eta gamma).length = P.c.length := by simp [thetaStep]

theorem shrinkOf_due (P : Params) (s : State) (D : Decision) (h : shrinkOf P s D = true) : dueOf P s D = true := by
  unfold shrinkOf at h
  simp only [Bool.and_eq_true] at h
  exact h.1

theorem shrinkEta_pow_succ (x : Rat) (k : Nat) :
    EGLoopGen.etaShrunk (x * EGGen.shrinkEta ^ k) = x * EGGen.shrinkEta ^ (k + 1) := by
  unfold EGLoopGen.etaShrunk; ring

/-- Everything the C08 loop theorems need about a reachable state. -/
structure Inv (P : Params) (O : Oracles) (s : State) : Prop where
  len_gaps : s.gaps.length = s.t
  len_qs : s.qs.length = s.t
  len_lamCols : s.lamCols.length = s.t
  len_gapsEG : s.gapsEG.length = s.t
  len_lamEGs : s.lamEGs.length = s.t
  len_fromLP : s.fromLP.length = s.t
  len_thetas : s.thetas.length = s.t
  len_etas : s.etas.length = s.t
  t_le : s.t ≤ P.maxIter
  theta_len : s.theta.length = P.c.length
  lam_good : ∀ v ∈ s.lamCols, GoodLam P.B P.c.length v
  lamEG_good : ∀ v ∈ s.lamEGs, GoodLam P.B P.c.length v
  qsum_nonneg : ∀ x ∈ s.qsum, 0 ≤ x
  eta_eq : s.eta = EGLoopGen.etaInit P.eta0 P.B * EGGen.shrinkEta ^ s.shrinks
  shrinks_le : s.shrinks ≤ s.checks
  checks_le : s.checks ≤ s.t
  lp_from_oracle : ∀ r, s.lpRes = some r → ∃ k, r.1 = O.lp k
  qs_prob : (∀ k, IsProb (O.lp k).Q) → ∀ q ∈ s.qs, IsProb q
  done_spec : s.done = true → ∃ g, s.gaps.getLast? = some g ∧ EGGen.breakCond g P.nu (s.t - 1) = true
  etas_hist : ∀ x ∈ s.etas, s.eta ≤ x ∧ x ≤ EGLoopGen.etaInit P.eta0 P.B
  etas_mono : s.etas.Pairwise (fun a b => b ≤ a)
  qs_eg : ∀ p ∈ s.fromLP.zip s.qs, p.1 = false → IsProb p.2

theorem shrinkEta_range : (0 : Rat) ≤ EGGen.shrinkEta ∧ EGGen.shrinkEta ≤ 1 := by
  constructor <;> norm_num [EGGen.shrinkEta]

theorem inv_init (P : Params) (O : Oracles) (hP : 0 ≤ EGLoopGen.etaInit P.eta0 P.B) : Inv P O (initState P) := by
  constructor <;> simp [initState]

theorem etaOf_le (P : Params) (s : State) (D : Decision) (h : 0 ≤ s.eta) :
    etaOf P s D ≤ s.eta ∧ 0 ≤ etaOf P s D := by
  unfold etaOf
  have := shrinkEta_range
  split
  · unfold EGLoopGen.etaShrunk
    constructor <;> nlinarith
  · exact ⟨le_refl _, h⟩

theorem inv_finish (P : Params) (O : Oracles) (hB : 0 < P.B) (he : ∀ x, 0 < P.e x)
    (hP : 0 ≤ EGLoopGen.etaInit P.eta0 P.B) (s : State)
    (hs : Inv P O s) (hgo : (s.done || decide (P.maxIter ≤ s.t)) = false) :
    Inv P O (finish P s (decision P O s)) := by
  have hlt : s.t < P.maxIter := by
    simp only [Bool.or_eq_false_iff, decide_eq_false_iff_not, not_le] at hgo
    exact hgo.2
  have hlam : GoodLam P.B P.c.length (decision P O s).lam := by
    rw [decision_lam, ← hs.theta_len]; exact lamVec_good P hB he s.theta
  have heta0 : 0 ≤ s.eta := by
    rw [hs.eta_eq]; exact mul_nonneg hP (pow_nonneg shrinkEta_range.1 _)
  have hetaOf := etaOf_le P s (decision P O s) heta0
  constructor
  · simp [finish, hs.len_gaps]
  · rw [finish_qs]; simp [finish, hs.len_qs]
  · simp [finish, hs.len_lamCols]
  · simp [finish, hs.len_gapsEG]
  · simp [finish, hs.len_lamEGs]
  · simp [finish, hs.len_fromLP]
  · simp [finish, hs.len_thetas]
  · simp [finish, hs.len_etas]
  · show s.t + 1 ≤ P.maxIter
    omega
  · show (if brkOf P s (decision P O s) then s.theta else _).length = _
    split
    · exact hs.theta_len
    · exact thetaStep_length _ _ _ _
  · intro v hv
    have hv' : v ∈ s.lamCols ++ [(decision P O s).lam] := hv
    rcases List.mem_append.mp hv' with h | h
    · exact hs.lam_good v h
    · rw [List.mem_singleton] at h; rw [h]; exact hlam
  · intro v hv
    have hv' : v ∈ s.lamEGs ++ [(decision P O s).lamEG] := hv
    rcases List.mem_append.mp hv' with h | h
    · exact hs.lamEG_good v h
    · rw [List.mem_singleton] at h
      rw [h, decision_lamEG]
      apply meanCols_good _ _ _ (by simp)
      intro c hc
      rcases List.mem_append.mp hc with h2 | h2
      · exact hs.lam_good c h2
      · rw [List.mem_singleton] at h2; rw [h2, ← decision_lam P O s]; exact hlam
  · show ∀ x ∈ (decision P O s).qsum, 0 ≤ x
    rw [decision_qsum]
    exact bump_nonneg _ _ hs.qsum_nonneg
  · show etaOf P s (decision P O s) = _ * _ ^ (if shrinkOf P s (decision P O s) then s.shrinks + 1 else s.shrinks)
    unfold etaOf
    split
    · rw [hs.eta_eq, shrinkEta_pow_succ]
    · exact hs.eta_eq
  · show (if shrinkOf P s (decision P O s) then s.shrinks + 1 else s.shrinks)
        ≤ (if dueOf P s (decision P O s) then s.checks + 1 else s.checks)
    have := hs.shrinks_le
    by_cases h1 : shrinkOf P s (decision P O s) = true
    · rw [if_pos h1, if_pos (shrinkOf_due P s _ h1)]; omega
    · rw [if_neg h1]; split <;> omega
  · show (if dueOf P s (decision P O s) then s.checks + 1 else s.checks) ≤ s.t + 1
    have := hs.checks_le
    split <;> omega
  · intro r hr
    have hr' : (decision P O s).s2.lpRes = some r := hr
    rcases decision_lpRes P O s with ⟨k, g, h⟩ | h
    · rw [h] at hr'; cases hr'; exact ⟨k, rfl⟩
    · rw [h] at hr'; exact hs.lp_from_oracle r hr'
  · intro hlp q hq
    have hq' : q ∈ s.qs ++ [(decision P O s).q] := by rw [← finish_qs]; exact hq
    rcases List.mem_append.mp hq' with h | h
    · exact hs.qs_prob hlp q h
    · rw [List.mem_singleton] at h
      rw [h]
      rcases decision_q P O s with h1 | ⟨k, h1⟩ | ⟨r, hr, h1⟩
      · rw [h1, decision_qsum]
        exact normalise_isProb _ (bump_nonneg _ _ hs.qsum_nonneg) (bump_sum_pos _ _ hs.qsum_nonneg)
      · rw [h1]; exact hlp k
      · obtain ⟨k, hk⟩ := hs.lp_from_oracle r hr
        rw [h1, hk]; exact hlp k
  · intro hd
    have hd' : brkOf P s (decision P O s) = true := hd
    refine ⟨(decision P O s).gap, ?_, ?_⟩
    · show (s.gaps ++ [(decision P O s).gap]).getLast? = _
      simp
    · show EGGen.breakCond _ _ (s.t + 1 - 1) = true
      simpa [brkOf] using hd'
  · intro x hx
    have hx' : x ∈ s.etas ++ [etaOf P s (decision P O s)] := hx
    show etaOf P s (decision P O s) ≤ x ∧ _
    rcases List.mem_append.mp hx' with h | h
    · have := hs.etas_hist x h
      exact ⟨le_trans hetaOf.1 this.1, this.2⟩
    · rw [List.mem_singleton] at h
      rw [h]
      refine ⟨le_refl _, le_trans hetaOf.1 ?_⟩
      rw [hs.eta_eq]
      have := shrinkEta_range
      have hp : EGGen.shrinkEta ^ s.shrinks ≤ 1 := pow_le_one₀ this.1 this.2
      nlinarith
  · show (s.etas ++ [etaOf P s (decision P O s)]).Pairwise _
    rw [List.pairwise_append]
    refine ⟨hs.etas_mono, by simp, ?_⟩
    intro a ha b hb
    rw [List.mem_singleton] at hb
    rw [hb]
    exact le_trans hetaOf.1 (hs.etas_hist a ha).1
  · show ∀ p ∈ (s.fromLP ++ [!(decision P O s).useEG]).zip (finish P s (decision P O s)).qs, _
    rw [finish_qs, List.zip_append (by rw [hs.len_fromLP, hs.len_qs])]
    intro p hp hf
    rcases List.mem_append.mp hp with h | h
    · exact hs.qs_eg p h hf
    · simp only [List.zip_cons_cons, List.zip_nil_right, List.mem_singleton] at h
      rw [h] at hf ⊢
      simp only [Bool.not_eq_false'] at hf
      rw [decision_useEG P O s hf, decision_qsum]
      exact normalise_isProb _ (bump_nonneg _ _ hs.qsum_nonneg) (bump_sum_pos _ _ hs.qsum_nonneg)

theorem inv_iter (P : Params) (O : Oracles) (hB : 0 < P.B) (he : ∀ x, 0 < P.e x)
    (hP : 0 ≤ EGLoopGen.etaInit P.eta0 P.B) (s : State) (hs : Inv P O s) : Inv P O (iter P O s) := by
  cases hgo : (s.done || decide (P.maxIter ≤ s.t))
  · rw [iter_go P O s hgo]; exact inv_finish P O hB he hP s hs hgo
  · rw [iter_stop P O s hgo]; exact hs

theorem inv_runN (P : Params) (O : Oracles) (hB : 0 < P.B) (he : ∀ x, 0 < P.e x)
    (hP : 0 ≤ EGLoopGen.etaInit P.eta0 P.B) : ∀ n, Inv P O (runN P O n)
  | 0 => inv_init P O hP
  | n + 1 => inv_iter P O hB he hP _ (inv_runN P O hB he hP n)

/-- while the loop has not been left, pass `n` has run exactly `n` iterations -/
theorem runN_t (P : Params) (O : Oracles) : ∀ n, n ≤ P.maxIter → (runN P O n).done = false → (runN P O n).t = n
  | 0, _, _ => rfl
  | n + 1, hn, hd => by
    have hprev : (runN P O n).done = false := by
      cases hdn : (runN P O n).done
      · rfl
      · have : runN P O (n + 1) = runN P O n := by
          show iter P O (runN P O n) = _
          exact iter_stop P O _ (by simp [hdn])
        rw [this, hdn] at hd; cases hd
    have ht := runN_t P O n (by omega) hprev
    have hgo : ((runN P O n).done || decide (P.maxIter ≤ (runN P O n).t)) = false := by
      rw [hprev, ht]; simp; omega
    show (iter P O (runN P O n)).t = n + 1
    rw [iter_go P O _ hgo]
    show (runN P O n).t + 1 = n + 1
    rw [ht]

/-- **best iterate of a gap list whose last entry is below `nu`** -/
theorem bestIter_lt_of_last_lt (gaps : List Rat) (g nu : Rat) (hlast : gaps.getLast? = some g) (hg : g < nu) :
    ∃ i, bestIter gaps = some i ∧ gaps.getD i 0 < nu := by
  have hne : gaps ≠ [] := by
    intro h; rw [h] at hlast; simp at hlast
  obtain ⟨i, hi⟩ := bestIter_isSome gaps hne
  obtain ⟨h1, h2, h3⟩ := bestIter_spec gaps i hi
  refine ⟨i, hi, ?_⟩
  have hpos : 0 < gaps.length := List.length_pos_iff.mpr hne
  have hgl : gaps.getD (gaps.length - 1) 0 = g := by
    rw [getD_of_lt _ _ (by omega)]
    rw [List.getLast?_eq_getElem?] at hlast
    have : gaps[gaps.length - 1]? = some gaps[gaps.length - 1] := List.getElem?_eq_getElem (by omega)
    rw [this] at hlast
    exact Option.some.inj hlast
  simp only [EGGen.keep, decide_eq_true_eq] at h2 h3
  by_cases hk : g ≤ minOf gaps + EGGen.precision
  · have := h3 (gaps.length - 1) (by omega) (by rw [hgl]; exact hk)
    have hit : i = gaps.length - 1 := by omega
    rw [hit, hgl]; exact hg
  · have := not_le.mp hk
    linarith

end EGLoop
