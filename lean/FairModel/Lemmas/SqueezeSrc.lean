/-
Helper lemmas about the GENERATED shape-level translation `Generated/SqueezeSrc.lean`
(`_convert_to_ndarray_and_squeeze`, `selection_rate`, `mean_prediction`).
-/
import FairModel.Lemmas.Prelude
import FairModel.Generated.SqueezeSrc

namespace SqueezeSrc
open NdShape

/-- the translated `_convert_to_ndarray_and_squeeze` in closed form -/
theorem conv_eq (s : Shape) :
    convert_to_ndarray_and_squeeze_shape s =
      if size s = 0 then .ok s else if size s > 1 then .ok (npSqueeze s) else npReshape s [1] := by
  unfold convert_to_ndarray_and_squeeze_shape
  by_cases h0 : size s = 0
  · simp [h0]; rfl
  · by_cases h1 : size s > 1
    · simp [h0, h1]; rfl
    · simp only [beq_iff_eq, h0, if_false, h1, decide_false]
      cases hr : npReshape s [1] <;> simp [bind, Except.bind, pure, Except.pure]

theorem size_vec (n : Nat) : size [n] = n := by simp [size]

theorem squeeze_vec (n : Nat) (h : n > 1) : npSqueeze [n] = [n] := by
  have : n ≠ 1 := by omega
  simp [npSqueeze, this]

/-- a vector keeps its shape: `[n]` for EVERY `n`, incl. the empty and the one-element vector -/
theorem conv_vec (n : Nat) : convert_to_ndarray_and_squeeze_shape [n] = .ok [n] := by
  rw [conv_eq, size_vec]
  by_cases h0 : n = 0
  · simp [h0]
  · by_cases h1 : n > 1
    · simp [h0, h1, squeeze_vec n h1]
    · have : n = 1 := by omega
      subst this; simp [npReshape, size]

/-- a shape with more than one element has a non-unit dimension -/
theorem squeeze_ne_nil (s : Shape) (h : size s > 1) : npSqueeze s ≠ [] := by
  induction s with
  | nil => simp [size] at h
  | cons d ds ih =>
    by_cases hd : d = 1
    · subst hd
      have : size ds > 1 := by simpa [size] using h
      simpa [npSqueeze] using ih this
    · simp [npSqueeze, hd]

theorem size_zero_ne_nil (s : Shape) (h : size s = 0) : s ≠ [] := by
  intro hs; subst hs; simp [size] at h

end SqueezeSrc
