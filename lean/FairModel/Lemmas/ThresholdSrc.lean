/-
The tie between `Generated/TradeoffSrc.lean` (lifted on every run from `_tradeoff_curve_utilities.py`) and the
geometry the downstream theorems reason about.  `Model/Threshold.lean` is DEFINED over the generated definitions;
the `src_*` lemmas below say what those definitions have to be for the proofs of `hull_supporting`,
`interpIndex_bracket`, `interpolateAt_sound`, `sweep_point_sound`, `sweep_complete`, `parity_*`, `optimal_*`
to go through.  Every lemma file of the Threshold model imports this file and uses these lemmas instead of unfolding
the model, so a one-token edit of the source (`<=` → `<` in the turn test, swapped `p0`/`p1`, `side="left"`, another
midpoint, another sort key …) makes exactly the corresponding `src_*` lemma fail.
-/
import FairModel.Lemmas.Prelude
import FairModel.Model.Threshold

namespace Threshold

/-! ### `_filter_points_to_get_convex_hull` -/

/-- the turn test of the source: drop `r1` iff slope(r0→r1) ≤ slope(r0→r2), cross-multiplied -/
theorem src_hullDrop (r0 r1 r2 : Pt) :
    dropTest r0 r1 r2 = decide ((r1.y - r0.y) * (r2.x - r0.x) ≤ (r2.y - r0.y) * (r1.x - r0.x)) := rfl

/-- the loop shape `popWhile` mirrors by structural recursion: `while len(selected) >= 2`, `r1 = selected[-1]`,
    `r0 = selected[-2]`, `selected.pop()` removes the last entry -/
theorem src_hull_loop_shape :
    TradeoffSrc.hullMinLen = 2 ∧ TradeoffSrc.hullR1Back = 1 ∧ TradeoffSrc.hullR0Back = 2 ∧
    TradeoffSrc.hullPopsLast = true := by decide

/-! ### sorting -/

theorem src_scoreBefore (y r : Row) : scoreBefore y r = true ↔ y.score < r.score := by
  simp [scoreBefore, TradeoffSrc.scoreSortDescending]

/-- `.sort_values(by=["x", "y"])`, ascending -/
theorem src_lexLt (a b : Pt) : lexLt a b = true ↔ (a.x < b.x ∨ (a.x = b.x ∧ a.y < b.y)) := by
  show (decide (a.x < b.x) || (decide (a.x = b.x) && (decide (a.y < b.y) || (decide (a.y = b.y) && false)))) = true ↔ _
  simp

/-! ### the sweep -/

theorem src_thrInitial : thrInitial = Thr.pinf := rfl
theorem src_thrSentinel : thrSentinel = Thr.ninf := rfl

/-- the threshold between two blocks of scores is their midpoint -/
theorem src_midThreshold (t s : Rat) : TradeoffSrc.midThreshold t s = (t + s) / 2 := rfl

/-- the degenerate-label guard is a disjunction, `_get_counts` is (len, sum, len - sum) -/
theorem src_counts (len sum : Rat) :
    TradeoffSrc.degenerateGuardIsOr = true ∧ TradeoffSrc.countN len sum = len ∧
    TradeoffSrc.countPos len sum = sum ∧ TradeoffSrc.countNeg len sum = len - sum := ⟨rfl, rfl, rfl, rfl⟩

/-! ### `_get_interpolation_indices` / `_interpolate_curve` -/

/-- `searchsorted(side="right") - 1`, then one step to the left on equality for every grid index ≥ 1 -/
theorem src_interpIndex (xs : List Rat) (i : Nat) (g : Rat) :
    interpIndex xs i g =
      (if countLE xs g = 0 then none else
        if i ≥ 1 ∧ xs[countLE xs g - 1]? = some g then
          (if countLE xs g - 1 = 0 then none else some (countLE xs g - 1 - 1))
        else some (countLE xs g - 1)) := by
  simp only [interpIndex, searchIdx, TradeoffSrc.searchSideRight, TradeoffSrc.searchMinus, TradeoffSrc.corrStart,
    TradeoffSrc.corrStep, if_true, Nat.lt_one_iff]

theorem src_interpDen (xcur xnext g : Rat) : TradeoffSrc.interpP0Den xcur xnext g = xnext - xcur := rfl
theorem src_interpP0 (xcur xnext g : Rat) : TradeoffSrc.interpP0 xcur xnext g = (xnext - g) / (xnext - xcur) := rfl
theorem src_interpP1 (xcur xnext g : Rat) :
    TradeoffSrc.interpP1 xcur xnext g = 1 - (xnext - g) / (xnext - xcur) := rfl
theorem src_interpY (xcur xnext ycur ynext g : Rat) :
    TradeoffSrc.interpY xcur xnext ycur ynext g =
      (xnext - g) / (xnext - xcur) * ycur + (1 - (xnext - g) / (xnext - xcur)) * ynext := rfl

/-- operation0 belongs to the LEFT vertex of the bracket, operation1 to the right one -/
theorem src_interpOps : TradeoffSrc.op0FromNext = false ∧ TradeoffSrc.op1FromNext = true := ⟨rfl, rfl⟩

/-- `interpolateAt` in terms of plain arithmetic -/
theorem src_interpolateAt (hull : List Pt) (i : Nat) (g : Rat) :
    interpolateAt hull i g =
      (match interpIndex (hull.map (·.x)) i g with
       | none => none
       | some k =>
         match hull[k]?, hull[k + 1]? with
         | some a, some b =>
           if b.x - a.x = 0 then none
           else some { x := g, y := (b.x - g) / (b.x - a.x) * a.y + (1 - (b.x - g) / (b.x - a.x)) * b.y,
                       p0 := (b.x - g) / (b.x - a.x), op0 := a.op, p1 := 1 - (b.x - g) / (b.x - a.x), op1 := b.op }
         | _, _ => none) := rfl

/-! ### the glue of `ThresholdOptimizer.fit` (`Generated/ThresholdFitSrc.lean`) -/

/-- the grid is `np.linspace(0, 1, N + 1)`: its `i`-th entry is `i / N` -/
theorem src_gridVal (N i : Nat) : gridVal N i = (i : Rat) / (N : Rat) := by
  simp [gridVal, ThresholdFitSrc.gridLo, ThresholdFitSrc.gridHi, ThresholdFitSrc.gridExtra]

theorem foldl_add_eq_sum {α} (f : α → Rat) (l : List α) (a : Rat) :
    l.foldl (fun acc x => acc + f x) a = a + (l.map f).sum := by
  induction l generalizing a with
  | nil => simp
  | cons x xs ih => simp only [List.foldl_cons, List.map_cons, List.sum_cons]; rw [ih]; ring

/-- the overall curve is the frequency-weighted sum (`len(group) / n`) of the groups' interpolated objectives -/
theorem src_objSimple (groups : List (List Row)) (is : List Interp) :
    objSimple groups is =
      (List.zipWith (fun (g : List Row) (r : Interp) => ((g.length : Rat) / (totalRows groups : Rat)) * r.y) groups is).sum := by
  unfold objSimple
  have h : (fun (acc : Rat) (py : Rat × Rat) => ThresholdFitSrc.objAccum acc py.1 py.2) =
      (fun acc py => acc + (fun (py : Rat × Rat) => py.1 * py.2) py) := rfl
  rw [h, foldl_add_eq_sum]
  simp [ThresholdFitSrc.objInit, ThresholdFitSrc.groupFreq, List.map_zipWith]

/-- `p_ignore = 0` on the ROC diagonal, otherwise `(y - y_best) / (y - x)` -/
theorem src_pIgnore (r : Interp) (yBest : Rat) :
    pIgnore r yBest = if r.y = r.x then 0 else (r.y - yBest) / (r.y - r.x) := by
  simp [pIgnore, ThresholdFitSrc.pIgnoreOnDiagonal, ThresholdFitSrc.pIgnoreDiagValue, ThresholdFitSrc.pIgnoreValue]

/-- the best grid index is `idxmax` (first maximum, `argmaxFirst`); `n_negative = n - n_positive` -/
theorem src_fit_misc (n npos : Rat) :
    ThresholdFitSrc.bestIsIdxmax = true ∧ ThresholdFitSrc.eoNNeg n npos = n - npos := ⟨rfl, rfl⟩

/-! ### the predict path (`Generated/ThresholderSrc.lean`) -/

/-- operator ">" is `score > threshold`, operator "<" is `score < threshold` (strict, threshold on the right) -/
theorem src_opGt_eq (s t : Rat) : ThresholderSrc.opGt s t = decide (t < s) := by
  simp [ThresholderSrc.opGt]
theorem src_opLt_eq (s t : Rat) : ThresholderSrc.opLt s t = decide (s < t) := by
  simp [ThresholderSrc.opLt]

/-- `_pmf_predict`: `p_ignore * prediction_constant + (1 - p_ignore) * (p0 * operation0(s) + p1 * operation1(s))` -/
theorem src_ruleProb (r : Rule) (s : Rat) :
    ruleProb r s =
      (match r.ign with
       | none => r.p0 * ind (r.op0.apply s) + r.p1 * ind (r.op1.apply s)
       | some (pi, c) => pi * c + (1 - pi) * (r.p0 * ind (r.op0.apply s) + r.p1 * ind (r.op1.apply s))) := by
  unfold ruleProb
  cases r.ign with
  | none => rfl
  | some pc => rfl

end Threshold
