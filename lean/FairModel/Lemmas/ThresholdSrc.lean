/-
The tie between `Generated/TradeoffSrc.lean` (lifted on every run from `_tradeoff_curve_utilities.py`) and the
geometry the downstream theorems reason about.  `Model/Threshold.lean` is DEFINED over the generated definitions;
the `src_*` lemmas below say what those definitions have to be for the proofs of `hull_supporting`,
`interpIndex_bracket`, `interpolateAt_sound`, `sweep_point_sound`, `sweep_complete`, `parity_*`, `optimal_*`
to go through.  Every lemma file of the Threshold model imports this file and uses these lemmas instead of unfolding
the model, so a one-token edit of the source (`<=` → `<` in the turn test, swapped `p0`/`p1`, `side="left"`, another
midpoint, another sort key …) makes exactly the corresponding `src_*` lemma fail.
-/
import FairModel.Lemmas.Prelude
import FairModel.Model.Threshold

namespace Threshold

/-! ### `_filter_points_to_get_convex_hull` -/

/-- the turn test of the source: drop `r1` iff slope(r0→r1) ≤ slope(r0→r2), cross-multiplied -/
theorem src_hullDrop (r0 r1 r2 : Pt) :
    dropTest r0 r1 r2 = decide ((r1.y - r0.y) * (r2.x - r0.x) ≤ (r2.y - r0.y) * (r1.x - r0.x)) := rfl

/-- the loop shape `popWhile` mirrors by structural recursion: `while len(selected) >= 2`, `r1 = selected[-1]`,
    `r0 = selected[-2]`, `selected.pop()` removes the last entry -/
theorem src_hull_loop_shape :
    TradeoffSrc.hullMinLen = 2 ∧ TradeoffSrc.hullR1Back = 1 ∧ TradeoffSrc.hullR0Back = 2 ∧
    TradeoffSrc.hullPopsLast = true := by decide

/-- **bridge (the `while` loop)**: the loop computed WITH the lifted shape (`popWhileSrc`: minimal length
    `TradeoffSrc.hullMinLen`, `r1` / `r0` read `hullR1Back` / `hullR0Back` entries from the end, `pop` at the end
    `hullPopsLast`, turn test `hullDrop`) never raises `IndexError`, never runs out of its `len + 1` fuel, and returns what the
    structural recursion `popWhile` returns.  An edit of the loop shape in the source changes the generated values and
    breaks THIS theorem. -/
theorem popWhileSrc_eq (r2 : Pt) : ∀ (fuel : Nat) (st : List Pt), st.length < fuel →
    popWhileSrc r2 fuel st = some (popWhile r2 st)
  | 0, st, h => by omega
  | fuel + 1, [], _ => by simp [popWhileSrc, popWhile, TradeoffSrc.hullMinLen]
  | fuel + 1, [a], _ => by simp [popWhileSrc, popWhile, TradeoffSrc.hullMinLen]
  | fuel + 1, r1 :: r0 :: rest, h => by
    have ih := popWhileSrc_eq r2 fuel (r0 :: rest) (by simp only [List.length_cons] at h ⊢; omega)
    simp only [popWhileSrc, popWhile, TradeoffSrc.hullMinLen, stackBack, TradeoffSrc.hullR1Back,
      TradeoffSrc.hullR0Back, stackPop, TradeoffSrc.hullPopsLast, List.length_cons]
    by_cases hd : dropTest r0 r1 r2 = true
    · simp [hd, ih]
    · simp [hd]

theorem hullStepSrc_eq (sel : List Pt) (r2 : Pt) : hullStepSrc sel r2 = some (hullStep sel r2) := by
  simp [hullStepSrc, hullStep, popWhileSrc_eq r2 (sel.length + 1) sel (Nat.lt_succ_self _)]

theorem foldlM_hullStepSrc_eq (pts : List Pt) : ∀ sel : List Pt,
    pts.foldlM hullStepSrc sel = some (pts.foldl hullStep sel) := by
  induction pts with
  | nil => intro sel; rfl
  | cons p ps ih => intro sel; simp [List.foldlM_cons, hullStepSrc_eq, ih]

/-- **bridge (`_filter_points_to_get_convex_hull`)**: for the loop shape lifted from the source the function returns (no
    `IndexError`) Andrew's monotone chain `(hullRev pts).reverse`, the function all hull invariants are proved about -/
theorem hullSrc_eq (pts : List Pt) : hullSrc pts = some (hullRev pts).reverse := by
  simp [hullSrc, hullRev, foldlM_hullStepSrc_eq]

theorem upperHull_eq (pts : List Pt) : upperHull pts = (hullRev pts).reverse := by
  simp [upperHull, hullSrc_eq]

/-! ### sorting -/

theorem src_scoreBefore (y r : Row) : scoreBefore y r = true ↔ y.score < r.score := by
  simp [scoreBefore, TradeoffSrc.scoreSortDescending]

/-- `.sort_values(by=["x", "y"])`, ascending -/
theorem src_lexLt (a b : Pt) : lexLt a b = true ↔ (a.x < b.x ∨ (a.x = b.x ∧ a.y < b.y)) := by
  show (decide (a.x < b.x) || (decide (a.x = b.x) && (decide (a.y < b.y) || (decide (a.y = b.y) && false)))) = true ↔ _
  simp

/-! ### the sweep -/

theorem src_thrInitial : thrInitial = Thr.pinf := rfl
theorem src_thrSentinel : thrSentinel = Thr.ninf := rfl

/-- the threshold between two blocks of scores is their midpoint -/
theorem src_midThreshold (t s : Rat) : TradeoffSrc.midThreshold t s = (t + s) / 2 := rfl

/-- the degenerate-label guard is a disjunction, `_get_counts` is (len, sum, len - sum) -/
theorem src_counts (len sum : Rat) :
    TradeoffSrc.degenerateGuardIsOr = true ∧ TradeoffSrc.countN len sum = len ∧
    TradeoffSrc.countPos len sum = sum ∧ TradeoffSrc.countNeg len sum = len - sum := ⟨rfl, rfl, rfl, rfl⟩

theorem nPos_add_nNeg (rows : List Row) : nPos rows + nNeg rows = rows.length := by
  induction rows with
  | nil => rfl
  | cons r rs ih =>
    cases h : r.label <;> simp [nPos, nNeg, h] at ih ⊢ <;> omega

/-- **bridge (`_get_counts`)**: the lifted count expressions, evaluated on `len(labels)` and `sum(labels)` of 0/1 labels,
    are the number of rows, of positive rows and of negative rows -/
theorem srcCounts_eq (rows : List Row) :
    srcCounts rows = ((rows.length : Rat), (nPos rows : Rat), (nNeg rows : Rat)) := by
  have h := nPos_add_nNeg rows
  have hq : (rows.length : Rat) = (nPos rows : Rat) + (nNeg rows : Rat) := by exact_mod_cast h.symm
  simp only [srcCounts, TradeoffSrc.countN, TradeoffSrc.countPos, TradeoffSrc.countNeg, Prod.mk.injEq, true_and]
  rw [hq]; ring

theorem rawPoints_eq (flip : Bool) (xm ym : ThresholdGen.Metric) (rows : List Row) :
    rawPoints flip xm ym rows =
      (sweepSteps rows).flatMap (stepPoints (operations flip) xm ym (nNeg rows) (nPos rows)) := by
  simp only [rawPoints, srcCounts_eq]

/-- **bridge (the "Degenerate labels" guard)**: with the lifted connective and the lifted counts the guard fires iff the
    group has no positive or no negative row -/
theorem src_degenerate (rows : List Row) : degenerate rows = true ↔ (nPos rows = 0 ∨ nNeg rows = 0) := by
  simp [degenerate, srcCounts_eq, TradeoffSrc.degenerateGuardIsOr]

theorem tradeoffPoints_eq (flip : Bool) (xm ym : ThresholdGen.Metric) (rows : List Row) :
    tradeoffPoints flip xm ym rows =
      if nPos rows = 0 ∨ nNeg rows = 0 then none else some (sortLex (rawPoints flip xm ym rows)) := by
  unfold tradeoffPoints
  by_cases h : nPos rows = 0 ∨ nNeg rows = 0
  · rw [if_pos h, if_pos ((src_degenerate rows).mpr h)]
  · rw [if_neg h, if_neg (fun hd => h ((src_degenerate rows).mp hd))]

/-! ### `_get_interpolation_indices` / `_interpolate_curve` -/

/-- `searchsorted(side="right") - 1`, then one step to the left on equality for every grid index ≥ 1 -/
theorem src_interpIndex (xs : List Rat) (i : Nat) (g : Rat) :
    interpIndex xs i g =
      (if countLE xs g = 0 then none else
        if i ≥ 1 ∧ xs[countLE xs g - 1]? = some g then
          (if countLE xs g - 1 = 0 then none else some (countLE xs g - 1 - 1))
        else some (countLE xs g - 1)) := by
  simp only [interpIndex, searchIdx, TradeoffSrc.searchSideRight, TradeoffSrc.searchMinus, TradeoffSrc.corrStart,
    TradeoffSrc.corrStep, if_true, Nat.lt_one_iff]

theorem src_interpDen (xcur xnext g : Rat) : TradeoffSrc.interpP0Den xcur xnext g = xnext - xcur := rfl
theorem src_interpP0 (xcur xnext g : Rat) : TradeoffSrc.interpP0 xcur xnext g = (xnext - g) / (xnext - xcur) := rfl
theorem src_interpP1 (xcur xnext g : Rat) :
    TradeoffSrc.interpP1 xcur xnext g = 1 - (xnext - g) / (xnext - xcur) := rfl
theorem src_interpY (xcur xnext ycur ynext g : Rat) :
    TradeoffSrc.interpY xcur xnext ycur ynext g =
      (xnext - g) / (xnext - xcur) * ycur + (1 - (xnext - g) / (xnext - xcur)) * ynext := rfl

/-- operation0 belongs to the LEFT vertex of the bracket, operation1 to the right one -/
theorem src_interpOps : TradeoffSrc.op0FromNext = false ∧ TradeoffSrc.op1FromNext = true := ⟨rfl, rfl⟩

/-- `interpolateAt` in terms of plain arithmetic -/
theorem src_interpolateAt (hull : List Pt) (i : Nat) (g : Rat) :
    interpolateAt hull i g =
      (match interpIndex (hull.map (·.x)) i g with
       | none => none
       | some k =>
         match hull[k]?, hull[k + 1]? with
         | some a, some b =>
           if b.x - a.x = 0 then none
           else some { x := g, y := (b.x - g) / (b.x - a.x) * a.y + (1 - (b.x - g) / (b.x - a.x)) * b.y,
                       p0 := (b.x - g) / (b.x - a.x), op0 := a.op, p1 := 1 - (b.x - g) / (b.x - a.x), op1 := b.op }
         | _, _ => none) := rfl

/-! ### the glue of `ThresholdOptimizer.fit` (`Generated/ThresholdFitSrc.lean`) -/

/-- the grid is `np.linspace(0, 1, N + 1)`: its `i`-th entry is `i / N` -/
theorem src_gridVal (N i : Nat) : gridVal N i = (i : Rat) / (N : Rat) := by
  simp [gridVal, ThresholdFitSrc.gridLo, ThresholdFitSrc.gridHi, ThresholdFitSrc.gridExtra]

theorem foldl_add_eq_sum {α} (f : α → Rat) (l : List α) (a : Rat) :
    l.foldl (fun acc x => acc + f x) a = a + (l.map f).sum := by
  induction l generalizing a with
  | nil => simp
  | cons x xs ih => simp only [List.foldl_cons, List.map_cons, List.sum_cons]; rw [ih]; ring

/-- the overall curve is the frequency-weighted sum (`len(group) / n`) of the groups' interpolated objectives -/
theorem src_objSimple (groups : List (List Row)) (is : List Interp) :
    objSimple groups is =
      (List.zipWith (fun (g : List Row) (r : Interp) => ((g.length : Rat) / (totalRows groups : Rat)) * r.y) groups is).sum := by
  unfold objSimple
  have h : (fun (acc : Rat) (py : Rat × Rat) => ThresholdFitSrc.objAccum acc py.1 py.2) =
      (fun acc py => acc + (fun (py : Rat × Rat) => py.1 * py.2) py) := rfl
  rw [h, foldl_add_eq_sum]
  simp [ThresholdFitSrc.objInit, ThresholdFitSrc.groupFreq, List.map_zipWith]

/-- `p_ignore = 0` on the ROC diagonal, otherwise `(y - y_best) / (y - x)` -/
theorem src_pIgnore (r : Interp) (yBest : Rat) :
    pIgnore r yBest = if r.y = r.x then 0 else (r.y - yBest) / (r.y - r.x) := by
  simp [pIgnore, ThresholdFitSrc.pIgnoreOnDiagonal, ThresholdFitSrc.pIgnoreDiagValue, ThresholdFitSrc.pIgnoreValue]

/-- the best grid index is `idxmax` (first maximum, `argmaxFirst`); `n_negative = n - n_positive` -/
theorem src_fit_misc (n npos : Rat) :
    ThresholdFitSrc.bestIsIdxmax = true ∧ ThresholdFitSrc.eoNNeg n npos = n - npos := ⟨rfl, rfl⟩

/-- **bridge (`idxmax`)**: the lifted extremum of both methods is the FIRST MAXIMUM (`argmaxFirst`, see
    `argmaxFirst_spec` / `argmaxFirst_first`) -/
theorem bestIndexSimple_eq (l : List Rat) : bestIndexSimple l = argmaxFirst l := rfl
theorem bestIndexEO_eq (l : List Rat) : bestIndexEO l = argmaxFirst l := rfl

/-- **bridge (`np.amin(y_values, axis=1)`)**: the lifted reduction over the groups is the minimum -/
theorem yReduce_eq (l : List Rat) : yReduce l = minList l := rfl

/-- **assumption made explicit**: `np.around(., aroundDecimals)` is the identity on the exact model (the rounding of the float
    objective to 15 decimals is NOT modelled; the correspondence follows the implementation's pick among near-ties) -/
theorem aroundModel_eq (d : Nat) (v : Rat) : aroundModel d v = v := rfl

/-- **bridge (`prediction_constant=self._x_best`)** -/
theorem src_predictionConstant (xbest ybest : Rat) : ThresholdFitSrc.predictionConstant xbest ybest = xbest := rfl

theorem totalRows_eq (groups : List (List Row)) : totalRows groups = totalPos groups + totalNeg groups := by
  induction groups with
  | nil => rfl
  | cons g gs ih =>
    have h := nPos_add_nNeg g
    simp only [totalRows, totalPos, totalNeg, List.map_cons, List.sum_cons] at ih ⊢
    omega

/-- **bridge (`n_negative = n - n_positive`)**: the lifted expression is the number of negative rows of all groups -/
theorem eoNegatives_eq (groups : List (List Row)) : eoNegatives groups = (totalNeg groups : Rat) := by
  simp only [eoNegatives, ThresholdFitSrc.eoNNeg, totalRows_eq]
  push_cast; ring

theorem objEO_eq (obj : ThresholdGen.Metric) (groups : List (List Row)) (x y : Rat) :
    objEO obj groups x y = obj.eval (ThresholdGen.eoCounts (totalNeg groups) (totalPos groups) x y) := by
  simp only [objEO, eoNegatives_eq]

/-- **bridge (`_threshold_optimization_for_simple_constraints`)**: the fit computed with the lifted `idxmax` is the fit
    with the first maximum -/
theorem fitSimple_eq (flip : Bool) (xm ym : ThresholdGen.Metric) (N : Nat) (groups : List (List Row)) (force : Option Nat) :
    fitSimple flip xm ym N groups force =
      (match hullsOf flip xm ym groups with
       | none => none
       | some hulls =>
         match curves hulls N with
         | none => none
         | some cs =>
           let objs := cs.map (objSimple groups)
           let iBest := force.getD (argmaxFirst objs)
           match cs[iBest]?, objs[iBest]? with
           | some best, some o => some ⟨iBest, o, best, best.map simpleRule⟩
           | _, _ => none) := rfl

/-- **bridge (`_threshold_optimization_for_equalized_odds`)**: the fit computed with the lifted reduction (`np.amin`), the
    identity rounding, the lifted `idxmax` and the lifted `prediction_constant` is the fit with the pointwise minimum, the
    exact first maximum and `prediction_constant = x_best` -/
theorem fitEO_eq (flip : Bool) (obj : ThresholdGen.Metric) (N : Nat) (groups : List (List Row)) (force : Option Nat) :
    fitEO flip obj N groups force =
      (match hullsOf flip ThresholdGen.eoXMetric ThresholdGen.eoYMetric groups with
       | none => none
       | some hulls =>
         match curves hulls N with
         | none => none
         | some cs =>
           match allSome (cs.map (fun is => minList (is.map (·.y)))) with
           | none => none
           | some ymins =>
             let objs := (List.range (N + 1)).zipWith (fun i y => objEO obj groups (gridVal N i) y) ymins
             let iBest := force.getD (argmaxFirst objs)
             match cs[iBest]?, objs[iBest]?, ymins[iBest]? with
             | some best, some o, some yBest =>
               some (⟨iBest, o, best, best.map (eoRule (gridVal N iBest) yBest)⟩, yBest)
             | _, _, _ => none) := rfl

/-! ### the predict path (`Generated/ThresholderSrc.lean`) -/

/-- operator ">" is `score > threshold`, operator "<" is `score < threshold` (strict, threshold on the right) -/
theorem src_opGt_eq (s t : Rat) : ThresholderSrc.opGt s t = decide (t < s) := by
  simp [ThresholderSrc.opGt]
theorem src_opLt_eq (s t : Rat) : ThresholderSrc.opLt s t = decide (s < t) := by
  simp [ThresholderSrc.opLt]

/-- `_pmf_predict`: `p_ignore * prediction_constant + (1 - p_ignore) * (p0 * operation0(s) + p1 * operation1(s))` -/
theorem src_ruleProb (r : Rule) (s : Rat) :
    ruleProb r s =
      (match r.ign with
       | none => r.p0 * ind (r.op0.apply s) + r.p1 * ind (r.op1.apply s)
       | some (pi, c) => pi * c + (1 - pi) * (r.p0 * ind (r.op0.apply s) + r.p1 * ind (r.op1.apply s))) := by
  unfold ruleProb
  cases r.ign with
  | none => rfl
  | some pc => rfl

end Threshold
