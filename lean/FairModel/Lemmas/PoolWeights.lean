/-
The pool metrics of `Model/MetricPool.lean` that are weighted sums treat the integer weight `p0` as a
multiplicity (`Frame.WeightMult`), whatever the SECOND per-sample parameter `p1` is: replicating a row
replicates `p1` with it.
-/
import FairModel.Lemmas.FrameWeights
import FairModel.Model.MetricPool

namespace MetricPool
open Frame

/-- "row `d` with sample weight `k`" -/
def wtDat (d : Dat) (k : Nat) : Dat := { d with p0 := (k : Rat) }

theorem sumBy_replicate (g : Dat → Rat) (d : Dat) (k : Nat) :
    sumBy g (List.replicate k d) = (k : Rat) * g d := by
  induction k with
  | zero => simp [sumBy]
  | succ n ih =>
    simp only [sumBy, List.replicate_succ, List.map_cons, List.sum_cons] at ih ⊢
    rw [ih]; push_cast; ring

/-- an integrand that is linear in the weight sums to the same value over weights and over copies -/
theorem sumBy_weight_mult (g : Dat → Rat) (hg : ∀ (d : Dat) (k : Nat), g (wtDat d k) = (k : Rat) * g (wtDat d 1))
    (l : List (Dat × Nat)) :
    sumBy g (l.map (fun p => wtDat p.1 p.2)) = sumBy g (l.flatMap (fun p => List.replicate p.2 (wtDat p.1 1))) := by
  induction l with
  | nil => rfl
  | cons p ps ih =>
    have happ : ∀ a b : List Dat, sumBy g (a ++ b) = sumBy g a + sumBy g b := by
      intro a b; simp [sumBy]
    simp only [List.map_cons, List.flatMap_cons, happ]
    have hcons : ∀ (x : Dat) (xs : List Dat), sumBy g (x :: xs) = g x + sumBy g xs := by
      intro x xs; simp [sumBy]
    rw [hcons, ih, sumBy_replicate, hg]

theorem map_isEmpty_iff (l : List (Dat × Nat)) (hk : ∀ p ∈ l, 1 ≤ p.2) :
    (l.flatMap (fun p => List.replicate p.2 (wtDat p.1 1))).isEmpty = (l.map (fun p => wtDat p.1 p.2)).isEmpty := by
  cases l with
  | nil => rfl
  | cons p ps =>
    have := hk p (by simp)
    obtain ⟨n, hn⟩ : ∃ n, p.2 = n + 1 := ⟨p.2 - 1, by omega⟩
    simp [List.flatMap_cons, hn, List.replicate_succ]

/-- the total weight -/
theorem w_lin (d : Dat) (k : Nat) : (wtDat d k).p0 = (k : Rat) * (wtDat d 1).p0 := by simp [wtDat]

/-- the weighted-mean metrics of the pool and the two-parameter fingerprint `a . ids` -/
theorem eval_weight_mult (m : Metric)
    (hm : m = .selrate ∨ m = .meanpred ∨ m = .accuracy ∨ m = .meanerr ∨ m = .zeroOne ∨ m = .mae ∨ m = .mse ∨
          m = .fpPar) :
    WeightMult wtDat (eval m) := by
  intro l hk
  have hden := sumBy_weight_mult (·.p0) w_lin l
  rcases hm with rfl | rfl | rfl | rfl | rfl | rfl | rfl | rfl
  · simp only [eval, selRateCell, map_isEmpty_iff l hk]
    rw [hden, sumBy_weight_mult _ (fun d k => by by_cases h : d.pred = 1 <;> simp [wtDat, h]) l]
  · simp only [eval]
    rw [hden, sumBy_weight_mult _ (fun d k => by simp [wtDat]; ring) l]
  · simp only [eval]
    rw [hden, sumBy_weight_mult _ (fun d k => by by_cases h : d.y = d.pred <;> simp [wtDat, h]) l]
  · simp only [eval]
    rw [hden, sumBy_weight_mult _ (fun d k => by simp [wtDat]; ring) l]
  · simp only [eval]
    rw [hden, sumBy_weight_mult _ (fun d k => by by_cases h : d.y = d.pred <;> simp [wtDat, h]) l]
  · simp only [eval]
    rw [hden, sumBy_weight_mult _ (fun d k => by simp only [wtDat, Nat.cast_one]; ring_nf) l]
  · simp only [eval]
    rw [hden, sumBy_weight_mult _ (fun d k => by simp [wtDat]; ring) l]
  · simp only [eval]
    rw [sumBy_weight_mult _ (fun d k => by simp only [wtDat, Nat.cast_one]; ring_nf) l]

end MetricPool
