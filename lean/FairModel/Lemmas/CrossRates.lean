/-
Cross-property lemmas, part 1 (pure `Model/Moments.lean` side): the dictionary between the entries of
`gamma` and the per-(event, group) means of the utility, the "mixing" step (the event mean is the
frequency-weighted mean of its group means), and the affinity of `gamma` / linearity of the means in
the prediction vector (mixtures of predictors = the `weights_`-randomised classifier of
ExponentiatedGradient).

Everything is stated for an arbitrary event rule `ev`, arbitrary `ratio`, arbitrary utilities and ARBITRARY
rational prediction vectors (hard 0/1, soft, or expected predictions of a randomised classifier).
-/
import FairModel.Properties.C06

namespace Cross
open Moments

/-! ### `gamma ≤ bound` entrywise -/

/-- every entry of `gamma(h)` is at most `eps` (= `gamma ≤ bound()` entrywise, see `gammaLe_iff_bound`) -/
def GammaLe (ev : Ev) (rows : List Row) (ratio : Rat) (ut : Util) (h : List Rat) (eps : Rat) : Prop :=
  ∀ k ∈ index ev rows, gammaAt ev rows ratio ut h k ≤ eps

instance (ev : Ev) (rows : List Row) (ratio : Rat) (ut : Util) (h : List Rat) (eps : Rat) :
    Decidable (GammaLe ev rows ratio ut h eps) := by
  unfold GammaLe; exact List.decidableBAll _ _

instance (h : List Rat) : Decidable (Hard h) := by
  unfold Hard; exact List.decidableBAll _ _

theorem zip_map_map {α β γ} (l : List α) (f : α → β) (g : α → γ) :
    (l.map f).zip (l.map g) = l.map (fun a => (f a, g a)) := by
  induction l with
  | nil => rfl
  | cons a l ih => simp [ih]

/-- `GammaLe` is literally "the vector `gamma(h)` is entrywise at most the vector `bound()`" -/
theorem gammaLe_iff_bound (ev : Ev) (rows : List Row) (ratio : Rat) (ut : Util) (h : List Rat) (eps : Rat) :
    GammaLe ev rows ratio ut h eps ↔
      ∀ p ∈ (gamma ev rows ratio ut h).zip (bound ev rows eps), p.1 ≤ p.2 := by
  unfold GammaLe gamma bound
  rw [zip_map_map]
  constructor
  · intro hk p hp
    obtain ⟨k, hk', rfl⟩ := List.mem_map.mp hp
    exact hk k hk'
  · intro hp k hk
    exact hp _ (List.mem_map.mpr ⟨k, hk, rfl⟩)

/-- mean utility of the rows of event `e` in group `g` / of all rows of event `e` -/
def mEG (ev : Ev) (rows : List Row) (ut : Util) (h : List Rat) (e g : String) : Rat :=
  meanOn (inEG ev e g) rows (predOf ut rows h)
def mE (ev : Ev) (rows : List Row) (ut : Util) (h : List Rat) (e : String) : Rat :=
  meanOn (inE ev e) rows (predOf ut rows h)

/-- **dictionary**: both one-sided constraints of every observed (event, group) pair -/
theorem rates_of_gammaLe {ev : Ev} {rows : List Row} {ratio : Rat} {ut : Util} {h : List Rat} {eps : Rat}
    (hg : GammaLe ev rows ratio ut h eps) {e g : String} (hobs : Observed ev rows e g) :
    ratio * mEG ev rows ut h e g - mE ev rows ut h e ≤ eps ∧
    ratio * mE ev rows ut h e - mEG ev rows ut h e g ≤ eps := by
  have hp := hg ⟨.plus, e, g⟩ ((C06.index_exact ev rows _).mpr hobs)
  have hm := hg ⟨.minus, e, g⟩ ((C06.index_exact ev rows _).mpr hobs)
  rw [C06.gamma_plus ev rows ratio ut h e g hobs] at hp
  rw [C06.gamma_minus ev rows ratio ut h e g hobs] at hm
  exact ⟨hp, hm⟩

/-- the converse: the two families of inequalities are exactly `GammaLe` -/
theorem gammaLe_of_rates {ev : Ev} {rows : List Row} {ratio : Rat} {ut : Util} {h : List Rat} {eps : Rat}
    (hr : ∀ e g, Observed ev rows e g →
      ratio * mEG ev rows ut h e g - mE ev rows ut h e ≤ eps ∧
      ratio * mE ev rows ut h e - mEG ev rows ut h e g ≤ eps) :
    GammaLe ev rows ratio ut h eps := by
  intro k hk
  obtain ⟨s, e, g⟩ := k
  have hobs := (C06.index_exact ev rows _).mp hk
  cases s
  · rw [C06.gamma_plus ev rows ratio ut h e g hobs]; exact (hr e g hobs).1
  · rw [C06.gamma_minus ev rows ratio ut h e g hobs]; exact (hr e g hobs).2

/-- difference bound (`ratio = 1`): every group mean is within `eps` of its event mean -/
theorem abs_le_of_gammaLe {ev : Ev} {rows : List Row} {ut : Util} {h : List Rat} {eps : Rat}
    (hg : GammaLe ev rows 1 ut h eps) {e g : String} (hobs : Observed ev rows e g) :
    |mEG ev rows ut h e g - mE ev rows ut h e| ≤ eps := by
  obtain ⟨h1, h2⟩ := rates_of_gammaLe hg hobs
  rw [abs_le]; constructor <;> linarith

/-- … hence any two groups of the same event are within `2·eps` of each other -/
theorem abs_pair_le_of_gammaLe {ev : Ev} {rows : List Row} {ut : Util} {h : List Rat} {eps : Rat}
    (hg : GammaLe ev rows 1 ut h eps) {e g g' : String}
    (hobs : Observed ev rows e g) (hobs' : Observed ev rows e g') :
    |mEG ev rows ut h e g - mEG ev rows ut h e g'| ≤ 2 * eps := by
  have a := abs_le.mp (abs_le_of_gammaLe hg hobs)
  have b := abs_le.mp (abs_le_of_gammaLe hg hobs')
  rw [abs_le]; constructor <;> linarith [a.1, a.2, b.1, b.2]

/-- the slack of a satisfiable difference constraint is non-negative -/
theorem eps_nonneg_of_gammaLe {ev : Ev} {rows : List Row} {ut : Util} {h : List Rat} {eps : Rat}
    (hg : GammaLe ev rows 1 ut h eps) {e g : String} (hobs : Observed ev rows e g) : 0 ≤ eps :=
  le_trans (abs_nonneg _) (abs_le_of_gammaLe hg hobs)

/-! ### mixing: the event mean is the frequency-weighted mean of the group means -/

/-- `Σ_{r ∈ rows, p r} u_r` -/
def sumOn (p : Row → Bool) (rows : List Row) (u : List Rat) : Rat := dot (rows.map (fun r => ind (p r))) u

theorem sumOn_eq_zero_of_filter_nil (p : Row → Bool) (rows : List Row) (u : List Rat)
    (h : rows.filter p = []) : sumOn p rows u = 0 := by
  unfold sumOn
  have : ∀ r ∈ rows, ind (p r) = (fun _ => (0 : Rat)) r := by
    intro r hr
    have := List.filter_eq_nil_iff.mp h r hr
    simp [ind, this]
  rw [dot_map_congr _ _ rows u this, dot_map_zero]

theorem meanOn_mul_count (p : Row → Bool) (rows : List Row) (u : List Rat) :
    meanOn p rows u * ((rows.filter p).length : Rat) = sumOn p rows u := by
  by_cases h : rows.filter p = []
  · rw [sumOn_eq_zero_of_filter_nil p rows u h, h]; simp
  · have : ((rows.filter p).length : Rat) ≠ 0 := by
      have := List.length_pos_of_ne_nil h
      exact_mod_cast this.ne'
    unfold meanOn sumOn
    field_simp

theorem sumOn_ones (p : Row → Bool) (rows : List Row) :
    sumOn p rows (rows.map (fun _ => 1)) = ((rows.filter p).length : Rat) := by
  unfold sumOn
  induction rows with
  | nil => simp
  | cons r rs ih =>
    simp only [List.map_cons, dot_cons, ih, List.filter_cons]
    cases p r <;> simp [ind]; ring

/-- indicator of "group ∈ gs" summed over a duplicate-free list of group names -/
theorem sum_ind_groups (gs : List String) (hnd : gs.Nodup) (x : String) :
    (gs.map (fun g => ind (x == g))).sum = ind (decide (x ∈ gs)) := by
  induction gs with
  | nil => simp [ind]
  | cons g gs ih =>
    have hn := List.nodup_cons.mp hnd
    rw [List.map_cons, List.sum_cons, ih hn.2]
    by_cases hx : x = g
    · subst hx; simp [ind, hn.1]
    · have : (x == g) = false := by simpa using hx
      simp [ind, this, hx]

/-- the rows of a predicate split by group: `Σ_p u = Σ_g Σ_{p ∧ group = g} u` for any duplicate-free list
    of group names containing every group that occurs -/
theorem sumOn_partition (p : Row → Bool) (rows : List Row) (u : List Rat) (gs : List String)
    (hnd : gs.Nodup) (hall : ∀ r ∈ rows, r.g ∈ gs) :
    sumOn p rows u = (gs.map (fun g => sumOn (fun r => p r && (r.g == g)) rows u)).sum := by
  have swap : ∀ (gs : List String),
      (gs.map (fun g => sumOn (fun r => p r && (r.g == g)) rows u)).sum
        = dot (rows.map (fun r => (gs.map (fun g => ind (p r && (r.g == g)))).sum)) u := by
    intro gs
    induction gs with
    | nil => simp only [List.map_nil, List.sum_nil]; rw [dot_map_zero]
    | cons g gs ih =>
      simp only [List.map_cons, List.sum_cons]
      rw [ih]; unfold sumOn
      rw [← dot_map_add]
  rw [swap gs]
  unfold sumOn
  apply dot_map_congr
  intro r hr
  have h1 : (gs.map (fun g => ind (p r && (r.g == g)))) = gs.map (fun g => ind (p r) * ind (r.g == g)) := by
    apply List.map_congr_left; intro g _; rw [ind_mul]
  have h2 : ∀ (c : Rat) (l : List String) (f : String → Rat), (l.map (fun g => c * f g)).sum = c * (l.map f).sum := by
    intro c l f
    induction l with
    | nil => simp
    | cons a l ih => simp only [List.map_cons, List.sum_cons, ih]; ring
  rw [h1, h2, sum_ind_groups gs hnd r.g]
  simp [ind, hall r hr]

theorem groupVals_nodup (rows : List Row) : (groupVals rows).Nodup := nodup_dedupFirst _
theorem mem_groupVals (rows : List Row) {r : Row} (hr : r ∈ rows) : r.g ∈ groupVals rows :=
  (mem_dedupFirst _ _).mpr (List.mem_map.mpr ⟨r, hr, rfl⟩)

theorem inEG_fun (ev : Ev) (e g : String) : inEG ev e g = fun r => inE ev e r && (r.g == g) := rfl

/-- **mixing identity**: (event mean) · (event count) = Σ_g (group mean) · (group count), the sum over the
    distinct group names of the data (groups not occurring in the event contribute 0) -/
theorem mixing_identity (ev : Ev) (rows : List Row) (u : List Rat) (e : String) :
    meanOn (inE ev e) rows u * (countE ev rows e : Rat)
      = ((groupVals rows).map (fun g => meanOn (inEG ev e g) rows u * (countEG ev rows e g : Rat))).sum ∧
    (countE ev rows e : Rat) = ((groupVals rows).map (fun g => (countEG ev rows e g : Rat))).sum := by
  have hp := fun u => sumOn_partition (inE ev e) rows u (groupVals rows) (groupVals_nodup rows)
    (fun r hr => mem_groupVals rows hr)
  constructor
  · unfold countE countEG
    rw [meanOn_mul_count, hp u]
    congr 1
    apply List.map_congr_left
    intro g _
    rw [meanOn_mul_count]; rfl
  · unfold countE countEG
    rw [← sumOn_ones, hp]
    congr 1
    apply List.map_congr_left
    intro g _
    rw [← sumOn_ones]; rfl

theorem observed_of_countEG_ne_zero {ev : Ev} {rows : List Row} {e g : String}
    (h : countEG ev rows e g ≠ 0) : Observed ev rows e g := by
  unfold countEG at h
  obtain ⟨r, hr⟩ := List.exists_mem_of_ne_nil _ (List.ne_nil_of_length_pos (Nat.pos_of_ne_zero h))
  obtain ⟨hr1, hr2⟩ := List.mem_filter.mp hr
  simp only [inEG, Bool.and_eq_true, beq_iff_eq] at hr2
  exact ⟨r, hr1, hr2.1, hr2.2⟩

/-- the event mean lies between any lower and upper bound of its observed group means -/
theorem mE_between (ev : Ev) (rows : List Row) (u : List Rat) (e : String) (lo hi : Rat)
    (hb : ∀ g, Observed ev rows e g → lo ≤ meanOn (inEG ev e g) rows u ∧ meanOn (inEG ev e g) rows u ≤ hi)
    (hne : ∃ g, Observed ev rows e g) :
    lo ≤ meanOn (inE ev e) rows u ∧ meanOn (inE ev e) rows u ≤ hi := by
  obtain ⟨g0, hg0⟩ := hne
  have hpos : (0 : Rat) < (countE ev rows e : Rat) := by exact_mod_cast countE_pos ev rows e g0 hg0
  obtain ⟨h1, h2⟩ := mixing_identity ev rows u e
  have hterm : ∀ g ∈ groupVals rows,
      lo * (countEG ev rows e g : Rat) ≤ meanOn (inEG ev e g) rows u * (countEG ev rows e g : Rat) ∧
      meanOn (inEG ev e g) rows u * (countEG ev rows e g : Rat) ≤ hi * (countEG ev rows e g : Rat) := by
    intro g _
    by_cases hc : countEG ev rows e g = 0
    · simp [hc]
    · have hobs := observed_of_countEG_ne_zero hc
      have hcp : (0 : Rat) ≤ (countEG ev rows e g : Rat) := by exact_mod_cast Nat.zero_le _
      exact ⟨mul_le_mul_of_nonneg_right (hb g hobs).1 hcp, mul_le_mul_of_nonneg_right (hb g hobs).2 hcp⟩
  have hsum : ∀ (c : Rat), ((groupVals rows).map (fun g => c * (countEG ev rows e g : Rat))).sum
      = c * (countE ev rows e : Rat) := by
    intro c
    rw [h2]
    generalize groupVals rows = l
    induction l with
    | nil => simp
    | cons a l ih => simp only [List.map_cons, List.sum_cons, ih]; ring
  have lo_le := List.sum_le_sum (l := groupVals rows) (fun g hg => (hterm g hg).1)
  have le_hi := List.sum_le_sum (l := groupVals rows) (fun g hg => (hterm g hg).2)
  rw [hsum lo, ← h1] at lo_le
  rw [hsum hi, ← h1] at le_hi
  constructor
  · exact le_of_mul_le_mul_right lo_le hpos
  · exact le_of_mul_le_mul_right le_hi hpos

/-- all observed group means equal ⇒ the event mean is that common value -/
theorem mE_eq_of_groups_eq (ev : Ev) (rows : List Row) (u : List Rat) (e : String) (c : Rat)
    (hb : ∀ g, Observed ev rows e g → meanOn (inEG ev e g) rows u = c) (hne : ∃ g, Observed ev rows e g) :
    meanOn (inE ev e) rows u = c := by
  obtain ⟨h1, h2⟩ := mE_between ev rows u e c c (fun g hg => by rw [hb g hg]; exact ⟨le_refl _, le_refl _⟩) hne
  exact le_antisymm h2 h1

/-- **parity ⇒ gamma**: if every group of every event has the same mean as the other groups of that event,
    every entry of gamma is `(ratio − 1)·(that mean)`; for `ratio = 1` gamma vanishes entrywise -/
theorem gamma_of_parity (ev : Ev) (rows : List Row) (ratio : Rat) (ut : Util) (h : List Rat) (c : String → Rat)
    (hpar : ∀ e g, Observed ev rows e g → mEG ev rows ut h e g = c e) :
    ∀ k ∈ index ev rows, gammaAt ev rows ratio ut h k = (ratio - 1) * c k.event := by
  intro k hk
  obtain ⟨s, e, g⟩ := k
  have hobs := (C06.index_exact ev rows _).mp hk
  have hE : mE ev rows ut h e = c e :=
    mE_eq_of_groups_eq ev rows _ e (c e) (fun g' hg' => hpar e g' hg') ⟨g, hobs⟩
  have hG := hpar e g hobs
  unfold mEG at hG; unfold mE at hE
  cases s
  · rw [C06.gamma_plus ev rows ratio ut h e g hobs, hG, hE]; ring
  · rw [C06.gamma_minus ev rows ratio ut h e g hobs, hG, hE]; ring

theorem gamma_zero_of_parity (ev : Ev) (rows : List Row) (ut : Util) (h : List Rat) (c : String → Rat)
    (hpar : ∀ e g, Observed ev rows e g → mEG ev rows ut h e g = c e) :
    ∀ k ∈ index ev rows, gammaAt ev rows 1 ut h k = 0 := by
  intro k hk
  rw [gamma_of_parity ev rows 1 ut h c hpar k hk]; ring

/-! ### ratio bounds -/

/-- from the two one-sided ratio constraints: every group mean is at least `ratio·m − eps` and at most
    `(m + eps)/ratio`, `m` the event mean -/
theorem ratio_window {ev : Ev} {rows : List Row} {ratio : Rat} {ut : Util} {h : List Rat} {eps : Rat}
    (hr : 0 < ratio) (hg : GammaLe ev rows ratio ut h eps) {e g : String} (hobs : Observed ev rows e g) :
    ratio * mE ev rows ut h e - eps ≤ mEG ev rows ut h e g ∧
    mEG ev rows ut h e g ≤ (mE ev rows ut h e + eps) / ratio := by
  obtain ⟨h1, h2⟩ := rates_of_gammaLe hg hobs
  refine ⟨by linarith, ?_⟩
  rw [le_div_iff₀ hr]; linarith

/-- lower bound for the quotient smallest/largest group mean -/
theorem ratio_between_lower {ratio eps m mn mx : Rat} (hr : 0 < ratio)
    (hm : 0 < m + eps) (hmx : 0 < mx) (hmn : 0 ≤ mn)
    (h1 : ratio * m - eps ≤ mn) (h2 : mx ≤ (m + eps) / ratio) :
    ratio * (ratio * m - eps) / (m + eps) ≤ mn / mx := by
  rw [le_div_iff₀ hr] at h2
  rw [div_le_div_iff₀ hm hmx]
  by_cases hneg : ratio * m - eps ≤ 0
  · have : ratio * (ratio * m - eps) * mx ≤ 0 :=
      mul_nonpos_of_nonpos_of_nonneg (mul_nonpos_of_nonneg_of_nonpos (le_of_lt hr) hneg) (le_of_lt hmx)
    have : 0 ≤ mn * (m + eps) := mul_nonneg hmn (le_of_lt hm)
    linarith
  · calc ratio * (ratio * m - eps) * mx = (ratio * m - eps) * (mx * ratio) := by ring
      _ ≤ mn * (m + eps) := mul_le_mul h1 h2 (le_of_lt (mul_pos hmx hr)) hmn

/-- lower bound for `ratio_sub_one(group mean / overall mean)` -/
theorem ratio_overall_lower {ratio eps m v : Rat} (hr : 0 < ratio) (hr1 : ratio ≤ 1) (he : 0 ≤ eps) (hm : 0 < m)
    (h1 : ratio * m - eps ≤ v) (h2 : v ≤ (m + eps) / ratio) :
    (ratio * m - eps) / m ≤ (if 1 < v / m then 1 / (v / m) else v / m) := by
  rw [le_div_iff₀ hr] at h2
  split
  · next hgt =>
    have hv : 0 < v := by
      by_contra hv
      have : v / m ≤ 0 := div_nonpos_of_nonpos_of_nonneg (not_lt.mp hv) (le_of_lt hm)
      linarith
    rw [one_div_div, div_le_div_iff₀ hm hv]
    by_cases hneg : ratio * m - eps ≤ 0
    · have := mul_nonpos_of_nonpos_of_nonneg hneg (le_of_lt hv)
      have := mul_pos hm hm
      linarith
    · have e1 := mul_le_mul_of_nonneg_left h2 (le_of_lt (not_le.mp hneg))
      have e2 := mul_nonneg (sub_nonneg.mpr hr1) (mul_nonneg he (le_of_lt hm))
      have e3 := mul_nonneg he he
      apply le_of_mul_le_mul_left _ hr
      nlinarith
  · exact div_le_div_of_nonneg_right h1 (le_of_lt hm)

/-! ### mixtures of predictors (the `weights_`-randomised classifier) -/

/-- pointwise `Σ_{t<n} Q t · H t` of prediction vectors of length `len` -/
def mixN (len : Nat) (Q : Nat → Rat) (H : Nat → List Rat) : Nat → List Rat
  | 0 => List.replicate len 0
  | n + 1 => List.zipWith (· + ·) (mixN len Q H n) ((H n).map (Q n * ·))

theorem mixN_length (len : Nat) (Q : Nat → Rat) (H : Nat → List Rat) (n : Nat)
    (hH : ∀ t < n, (H t).length = len) : (mixN len Q H n).length = len := by
  induction n with
  | zero => simp [mixN]
  | succ n ih =>
    simp only [mixN, List.length_zipWith, List.length_map]
    rw [ih (fun t ht => hH t (by omega)), hH n (by omega)]; simp

theorem dot_add_smul (c a h : List Rat) (q : Rat) (la : a.length = c.length) (lh : h.length = c.length) :
    dot c (List.zipWith (· + ·) a (h.map (q * ·))) = dot c a + q * dot c h := by
  induction c generalizing a h with
  | nil => simp
  | cons x xs ih =>
    cases a with
    | nil => simp at la
    | cons y ys =>
      cases h with
      | nil => simp at lh
      | cons z zs =>
        simp only [List.length_cons, Nat.add_right_cancel_iff] at la lh
        simp only [List.map_cons, List.zipWith_cons_cons, dot_cons, ih ys zs la lh]; ring

theorem dot_zeros (c : List Rat) (n : Nat) : dot c (List.replicate n 0) = 0 := by
  induction c generalizing n with
  | nil => simp
  | cons x xs ih => cases n with
    | zero => simp
    | succ n => simp [List.replicate_succ, ih]

open Finset in
/-- the means are LINEAR in the prediction vector: the expected rate of the randomised classifier on any set
    of rows is the `Q`-mixture of the rates of its component predictors -/
theorem meanOn_mixN (p : Row → Bool) (rows : List Row) (Q : Nat → Rat) (H : Nat → List Rat) (n : Nat)
    (hH : ∀ t < n, (H t).length = rows.length) :
    meanOn p rows (mixN rows.length Q H n) = ∑ t ∈ range n, Q t * meanOn p rows (H t) := by
  induction n with
  | zero => simp [mixN, meanOn, dot_zeros]
  | succ n ih =>
    have ih' := ih (fun t ht => hH t (by omega))
    rw [Finset.sum_range_succ, ← ih']
    unfold meanOn at *
    simp only [mixN]
    rw [dot_add_smul _ _ _ _ (by rw [mixN_length _ _ _ _ (fun t ht => hH t (by omega))]; simp)
      (by rw [hH n (by omega)]; simp)]
    ring

/-- `predOf` of a sum: affine with offset `predOf 0` -/
theorem dot_predOf_add_smul (f : Row → Rat) (ut : Util) (rows : List Row) (a h : List Rat) (q : Rat)
    (la : a.length = rows.length) (lh : h.length = rows.length) :
    dot (rows.map f) (predOf ut rows (List.zipWith (· + ·) a (h.map (q * ·))))
      = dot (rows.map f) (predOf ut rows a)
        + q * (dot (rows.map f) (predOf ut rows h) - dot (rows.map f) (predOf ut rows (List.replicate rows.length 0))) := by
  unfold predOf
  induction rows generalizing a h with
  | nil => simp
  | cons r rs ih =>
    cases a with
    | nil => simp at la
    | cons y ys =>
      cases h with
      | nil => simp at lh
      | cons z zs =>
        simp only [List.length_cons, Nat.add_right_cancel_iff] at la lh
        have := ih ys zs la lh
        simp only [List.map_cons, List.zipWith_cons_cons, dot_cons, List.length_cons, List.replicate_succ,
          MomentsSrc.predOf] at this ⊢
        rw [this]; ring

/-- binary affinity of one gamma entry -/
theorem gammaAt_add_smul (ev : Ev) (rows : List Row) (ratio : Rat) (ut : Util) (a h : List Rat) (q : Rat) (k : Key)
    (la : a.length = rows.length) (lh : h.length = rows.length) :
    gammaAt ev rows ratio ut (List.zipWith (· + ·) a (h.map (q * ·))) k
      = gammaAt ev rows ratio ut a k
        + q * (gammaAt ev rows ratio ut h k - gammaAt ev rows ratio ut (List.replicate rows.length 0) k) := by
  unfold gammaAt uCol
  rw [dot_predOf_add_smul _ ut rows a h q la lh]
  unfold MomentsSrc.gammaOf
  ring

open Finset in
/-- **affinity of gamma**: for weights summing to one, gamma of the mixture is the mixture of the gammas
    (entry by entry) — `gamma(Q) = Σ_t Q_t · gamma(h_t)` as `_Lagrangian` computes it from its stored
    `gammas` columns -/
theorem gammaAt_mixN (ev : Ev) (rows : List Row) (ratio : Rat) (ut : Util) (Q : Nat → Rat) (H : Nat → List Rat)
    (n : Nat) (k : Key) (hH : ∀ t < n, (H t).length = rows.length) (hQ : ∑ t ∈ range n, Q t = 1) :
    gammaAt ev rows ratio ut (mixN rows.length Q H n) k = ∑ t ∈ range n, Q t * gammaAt ev rows ratio ut (H t) k := by
  have gen : ∀ m, m ≤ n →
      gammaAt ev rows ratio ut (mixN rows.length Q H m) k
        = ∑ t ∈ range m, Q t * gammaAt ev rows ratio ut (H t) k
          + (1 - ∑ t ∈ range m, Q t) * gammaAt ev rows ratio ut (List.replicate rows.length 0) k := by
    intro m hm
    induction m with
    | zero => simp [mixN]
    | succ m ih =>
      have ih' := ih (by omega)
      simp only [mixN]
      rw [gammaAt_add_smul ev rows ratio ut _ _ _ k
        (mixN_length _ _ _ _ (fun t ht => hH t (by omega))) (hH m (by omega)), ih',
        Finset.sum_range_succ, Finset.sum_range_succ]
      ring
  rw [gen n (le_refl _), hQ]; ring

end Cross
