/-
Cross-property lemmas, part 2: the bridge from the rows of `Model/Moments.lean` (label, group, control stratum;
prediction vector alongside) to the input of the MetricFrame / named-fairness-metric model
(`Model/Frame.lean`, `Model/Fairness.lean`): the frame a USER builds when they evaluate a mitigated predictor
with `fairlearn.metrics` (unit sample weights, the moment's group as the single sensitive feature).

`toFrame S rows h` = the rows selected by `S` (a control stratum, or everything), with predictions `h`.
The base-rate specifications of C03 on that frame are the `meanOn` means of the moments side.
-/
import FairModel.Lemmas.CrossRates
import FairModel.Properties.C03

namespace Cross
open Moments Fairness Frame MetricPool XR

/-- what the metric sees of one sample: label, prediction, unit weight -/
def datOf (r : Moments.Row) (p : Rat) : Dat := ⟨(r.y : Rat), p, 1, 0⟩

def frow (t : Moments.Row × Rat) : Frame.Row Dat := ⟨datOf t.1 t.2, [], [t.1.g]⟩

/-- MetricFrame input built from the rows selected by `S`, predictions `h`, sensitive feature = group -/
def toFrame (S : Moments.Row → Bool) (rows : List Moments.Row) (h : List Rat) : List (Frame.Row Dat) :=
  ((rows.zip h).filter (fun t => S t.1)).map frow

/-- the selected (row, prediction) pairs as metric data -/
def selDat (P : Moments.Row → Bool) (rows : List Moments.Row) (h : List Rat) : List Dat :=
  ((rows.zip h).filter (fun t => P t.1)).map (fun t => datOf t.1 t.2)

theorem slice_toFrame (S : Moments.Row → Bool) (rows : List Moments.Row) (h : List Rat) :
    slice (toFrame S rows h) = selDat S rows h := by
  simp [slice, toFrame, selDat, frow, Function.comp_def]

theorem mem_toFrame {S : Moments.Row → Bool} {rows : List Moments.Row} {h : List Rat} {r' : Frame.Row Dat}
    (hr : r' ∈ toFrame S rows h) : ∃ r p, (r, p) ∈ rows.zip h ∧ S r = true ∧ r' = frow (r, p) := by
  obtain ⟨t, ht, rfl⟩ := List.mem_map.mp hr
  obtain ⟨h1, h2⟩ := List.mem_filter.mp ht
  exact ⟨t.1, t.2, h1, h2, rfl⟩

theorem groupOf_toFrame (S : Moments.Row → Bool) (rows : List Moments.Row) (h : List Rat) (t : Moments.Row × Rat) :
    groupOf (toFrame S rows h) (frow t) = selDat (fun r => S r && (r.g == t.1.g)) rows h := by
  unfold groupOf rowsOf toFrame selDat slice
  rw [List.filter_map, List.filter_filter, List.map_map]
  congr 1
  apply List.filter_congr
  intro t' _
  simp [Row.key, frow, Bool.and_comm]

theorem wsum_selDat (q : Dat → Bool) (P : Moments.Row → Bool) (rows : List Moments.Row) (h : List Rat) :
    Fairness.wsum q (selDat P rows h) = (List.zipWith (fun r p => ind (P r && q (datOf r p))) rows h).sum := by
  unfold selDat Fairness.wsum
  induction rows generalizing h with
  | nil => simp
  | cons r rs ih =>
    cases h with
    | nil => simp
    | cons p ps =>
      have := ih ps
      simp only [List.zip_cons_cons, List.filter_cons, List.zipWith_cons_cons, List.sum_cons]
      cases hP : P r
      · simp only [Bool.false_eq_true, if_false, this, Bool.false_and, ind]; simp
      · simp only [if_true, List.map_cons, List.filter_cons, Bool.true_and]
        cases hq : q (datOf r p)
        · simp only [Bool.false_eq_true, if_false, this, ind]; simp
        · simp only [if_true, List.map_cons, List.sum_cons, this]; simp [ind, datOf]

theorem sum_ind_count (P : Moments.Row → Bool) (rows : List Moments.Row) (h : List Rat) (hl : h.length = rows.length) :
    (List.zipWith (fun r (_ : Rat) => ind (P r)) rows h).sum = ((rows.filter P).length : Rat) := by
  induction rows generalizing h with
  | nil => simp
  | cons r rs ih =>
    cases h with
    | nil => simp at hl
    | cons p ps =>
      simp only [List.length_cons, Nat.add_right_cancel_iff] at hl
      rw [filter_length_cons_cast]
      simp only [List.zipWith_cons_cons, List.sum_cons, ih ps hl]

theorem sum_ind_hard (P : Moments.Row → Bool) (rows : List Moments.Row) (h : List Rat) (hh : Hard h) :
    (List.zipWith (fun r p => ind (P r && (p == 1))) rows h).sum = dot (rows.map (fun r => ind (P r))) h := by
  induction rows generalizing h with
  | nil => simp
  | cons r rs ih =>
    cases h with
    | nil => simp
    | cons p ps =>
      have := ih ps (fun x hx => hh x (by simp [hx]))
      simp only [List.zipWith_cons_cons, List.sum_cons, List.map_cons, dot_cons, this]
      rcases hh p (by simp) with rfl | rfl <;> cases P r <;> simp [ind]

theorem sum_ind_any (P : Moments.Row → Bool) (rows : List Moments.Row) (h : List Rat) :
    (List.zipWith (fun r p => ind (P r) * p) rows h).sum = dot (rows.map (fun r => ind (P r))) h := by
  induction rows generalizing h with
  | nil => simp
  | cons r rs ih =>
    cases h with
    | nil => simp
    | cons p ps => simp only [List.zipWith_cons_cons, List.sum_cons, List.map_cons, dot_cons, ih ps]

theorem cast_beq_one (y : Int) : (((y : Rat)) == 1) = (y == 1) := by
  by_cases h : y = 1
  · subst h; simp
  · have : ((y : Rat)) ≠ 1 := by exact_mod_cast h
    simp [h]

theorem cast_beq_zero (y : Int) : (((y : Rat)) == 0) = (y == 0) := by
  by_cases h : y = 0
  · subst h; simp
  · simp [h]

/-! ### the C03 base-rate specifications on `selDat` are the moments-side means -/

/-- selection rate (hard predictions) of the selected rows = their mean prediction -/
theorem selRateSpec_selDat (P : Moments.Row → Bool) (rows : List Moments.Row) (h : List Rat)
    (hl : h.length = rows.length) (hh : Hard h) :
    selRateSpec (selDat P rows h) = meanOn P rows h := by
  unfold selRateSpec meanOn
  rw [wsum_selDat, wsum_selDat]
  simp only [Bool.and_true, datOf]
  rw [sum_ind_count P rows h hl, sum_ind_hard P rows h hh]

/-- TPR (c = 1) / FPR (c = 0) of the selected rows = mean prediction over their label-`c` rows
    (both sides are 0 when there is no such row: sklearn's `nan_to_num` resp. Lean's `x/0`; the theorems
    below never use that coincidence — they assume the label class is non-empty) -/
theorem tprSpec_selDat (P : Moments.Row → Bool) (rows : List Moments.Row) (h : List Rat)
    (hl : h.length = rows.length) (hh : Hard h) :
    tprSpec (selDat P rows h) = meanOn (fun r => P r && (r.y == 1)) rows h := by
  unfold tprSpec meanOn
  rw [wsum_selDat, wsum_selDat]
  simp only [datOf, cast_beq_one]
  have e1 : (List.zipWith (fun (r : Moments.Row) (_ : Rat) => ind (P r && (r.y == 1))) rows h).sum
      = (((rows.filter (fun r => P r && (r.y == 1))).length : Nat) : Rat) := sum_ind_count _ rows h hl
  have e2 : (List.zipWith (fun (r : Moments.Row) (p : Rat) => ind (P r && (r.y == 1 && p == 1))) rows h).sum
      = dot (rows.map (fun r => ind (P r && (r.y == 1)))) h := by
    rw [← sum_ind_hard (fun r => P r && (r.y == 1)) rows h hh]
    congr 2; funext r p; rw [Bool.and_assoc]
  rw [e1, e2]
  split
  · next h0 => rw [h0]; simp
  · rfl

theorem fprSpec_selDat (P : Moments.Row → Bool) (rows : List Moments.Row) (h : List Rat)
    (hl : h.length = rows.length) (hh : Hard h) :
    fprSpec (selDat P rows h) = meanOn (fun r => P r && (r.y == 0)) rows h := by
  unfold fprSpec meanOn
  rw [wsum_selDat, wsum_selDat]
  simp only [datOf, cast_beq_zero]
  have e1 : (List.zipWith (fun (r : Moments.Row) (_ : Rat) => ind (P r && (r.y == 0))) rows h).sum
      = (((rows.filter (fun r => P r && (r.y == 0))).length : Nat) : Rat) := sum_ind_count _ rows h hl
  have e2 : (List.zipWith (fun (r : Moments.Row) (p : Rat) => ind (P r && (r.y == 0 && p == 1))) rows h).sum
      = dot (rows.map (fun r => ind (P r && (r.y == 0)))) h := by
    rw [← sum_ind_hard (fun r => P r && (r.y == 0)) rows h hh]
    congr 2; funext r p; rw [Bool.and_assoc]
  rw [e1, e2]
  split
  · next h0 => rw [h0]; simp
  · rfl


/-! ### soft predictions: `mean_prediction` -/

/-- `fairlearn.metrics.mean_prediction` on a slice: weighted mean of the predictions -/
def meanPredSpec (ds : List Dat) : Rat := sumBy (fun d => d.pred * d.p0) ds / sumBy (·.p0) ds

theorem meanpred_finiteOn {nsf : Nat} {frows : List (Frame.Row Dat)} (hv : C03.Valid nsf frows) :
    FiniteOn (eval .meanpred) meanPredSpec frows := by
  intro ds hne hsub
  have hw : ∀ d ∈ ds, 0 < d.p0 := by
    intro d hd
    obtain ⟨r, hr, rfl⟩ := hsub d hd
    exact hv.wpos r hr
  have hpos := wsum_true_pos hw hne
  have e1 : sumBy (·.p0) ds = Fairness.wsum (fun _ => true) ds := by simp [sumBy, Fairness.wsum]
  simp only [eval, quot, meanPredSpec]
  rw [Aggregate.div_fin_fin, if_neg (by rw [e1]; exact ne_of_gt hpos)]

theorem sumBy_selDat (f : Dat → Rat) (P : Moments.Row → Bool) (rows : List Moments.Row) (h : List Rat) :
    sumBy f (selDat P rows h) = (List.zipWith (fun r p => ind (P r) * f (datOf r p)) rows h).sum := by
  unfold selDat sumBy
  induction rows generalizing h with
  | nil => simp
  | cons r rs ih =>
    cases h with
    | nil => simp
    | cons p ps =>
      have := ih ps
      simp only [List.zip_cons_cons, List.filter_cons, List.zipWith_cons_cons, List.sum_cons]
      cases hP : P r
      · simp only [Bool.false_eq_true, if_false, this, ind]; simp
      · simp only [if_true, List.map_cons, List.sum_cons, this, ind]; simp

/-- mean prediction (ANY rational predictions, e.g. expected predictions of a randomised classifier) of the
    selected rows = the moments-side mean -/
theorem meanPredSpec_selDat (P : Moments.Row → Bool) (rows : List Moments.Row) (h : List Rat)
    (hl : h.length = rows.length) :
    meanPredSpec (selDat P rows h) = meanOn P rows h := by
  unfold meanPredSpec meanOn
  rw [sumBy_selDat, sumBy_selDat]
  simp only [datOf, mul_one]
  rw [sum_ind_count P rows h hl, sum_ind_any P rows h]

/-! ### validity of the frame -/

theorem zip_filter_length (S : Moments.Row → Bool) (rows : List Moments.Row) (h : List Rat)
    (hl : h.length = rows.length) :
    ((rows.zip h).filter (fun t => S t.1)).length = (rows.filter S).length := by
  induction rows generalizing h with
  | nil => simp
  | cons r rs ih =>
    cases h with
    | nil => simp at hl
    | cons p ps =>
      simp only [List.length_cons, Nat.add_right_cancel_iff] at hl
      simp only [List.zip_cons_cons, List.filter_cons]
      cases S r <;> simp [ih ps hl]

theorem toFrame_valid (S : Moments.Row → Bool) (rows : List Moments.Row) (h : List Rat)
    (hl : h.length = rows.length) (hne : rows.filter S ≠ []) : C03.Valid 1 (toFrame S rows h) := by
  refine ⟨?_, by decide, ?_, ?_⟩
  · intro h0
    have := congrArg List.length h0
    simp only [toFrame, List.length_map, zip_filter_length S rows h hl, List.length_nil] at this
    exact hne (List.eq_nil_of_length_eq_zero this)
  · intro r' hr'
    obtain ⟨r, p, _, _, rfl⟩ := mem_toFrame hr'
    simp [frow]
  · intro r' hr'
    obtain ⟨r, p, _, _, rfl⟩ := mem_toFrame hr'
    simp [frow, datOf]

theorem toFrame_binary (S : Moments.Row → Bool) (rows : List Moments.Row) (h : List Rat)
    (hy : ∀ r ∈ rows, r.y = 0 ∨ r.y = 1) (hh : Hard h) :
    C03.BinaryRows (toFrame S rows h) := by
  intro r' hr'
  obtain ⟨r, p, hz, _, rfl⟩ := mem_toFrame hr'
  have hr := (List.of_mem_zip hz).1
  have hp := (List.of_mem_zip hz).2
  simp only [frow, datOf]
  refine ⟨?_, hh p hp⟩
  rcases hy r hr with h0 | h0 <;> simp [h0]

/-- every frame row's group is an observed group of the selection -/
theorem toFrame_group_mem {S : Moments.Row → Bool} {rows : List Moments.Row} {h : List Rat}
    {r' : Frame.Row Dat} (hr : r' ∈ toFrame S rows h) :
    ∃ t : Moments.Row × Rat, r' = frow t ∧ t.1 ∈ rows ∧ S t.1 = true := by
  obtain ⟨r, p, hz, hs, rfl⟩ := mem_toFrame hr
  exact ⟨(r, p), rfl, (List.of_mem_zip hz).1, hs⟩

/-! ### generic consequences of the C03 aggregate specifications -/

section generic
variable {m : Metric} {g : List Dat → Rat} {nsf : Nat} {frows : List (Frame.Row Dat)}

/-- difference(method=to_overall) is at most any common bound of |group value − overall value| -/
theorem diff_overall_le (hv : C03.Valid nsf frows) (hf : FiniteOn (eval m) g frows) (eps : Rat)
    (hb : ∀ r ∈ frows, |g (groupOf frows r) - g (slice frows)| ≤ eps) :
    ∃ D, run m .difference .toOverall true nsf frows = .value (fin D) ∧ 0 ≤ D ∧ D ≤ eps := by
  obtain ⟨D, h1, ⟨r, hr, hD⟩, _⟩ := C03.difference_overall_spec hv hf
  exact ⟨D, h1, by rw [hD]; exact abs_nonneg _, by rw [hD]; exact hb r hr⟩

/-- difference(method=between_groups) is at most any common bound of |group value − group value| -/
theorem diff_between_le (hv : C03.Valid nsf frows) (hf : FiniteOn (eval m) g frows) (c : Rat)
    (hb : ∀ r ∈ frows, ∀ r' ∈ frows, |g (groupOf frows r) - g (groupOf frows r')| ≤ c) :
    ∃ D, run m .difference .between true nsf frows = .value (fin D) ∧ 0 ≤ D ∧ D ≤ c := by
  obtain ⟨mn, mx, ⟨⟨r1, hr1, e1⟩, hmn⟩, ⟨⟨r2, hr2, e2⟩, _⟩, h3⟩ := C03.difference_between_spec hv hf
  refine ⟨mx - mn, h3, ?_, ?_⟩
  · have := hmn r2 hr2; rw [← e2] at this; linarith
  · rw [e1, e2]; exact le_trans (le_abs_self _) (hb r2 hr2 r1 hr1)

end generic

/-! ### event selectors of the DP moment -/

theorem dp_event_selects (r : Moments.Row) :
    inE (eventOf .dp) MomentsSrc.allEvent r = (r.c == none) := by
  unfold inE eventOf baseEvent
  cases hc : r.c with
  | none => simp
  | some c =>
    have : MomentsSrc.ctrlFormat c MomentsSrc.allEvent ≠ MomentsSrc.allEvent :=
      fun h => ctrlFormat_ne_self c _ h.symm
    simp [this]

theorem dp_event_selects_in_stratum (r : Moments.Row) (c0 : String) :
    inE (eventOf .dp) (MomentsSrc.ctrlFormat c0 MomentsSrc.allEvent) r = (r.c == some c0) := by
  unfold inE eventOf baseEvent
  cases hc : r.c with
  | none =>
    have : MomentsSrc.allEvent ≠ MomentsSrc.ctrlFormat c0 MomentsSrc.allEvent := ctrlFormat_ne_self c0 _
    simp [this]
  | some c =>
    by_cases hcc : c = c0
    · subst hcc; simp
    · have : MomentsSrc.ctrlFormat c MomentsSrc.allEvent ≠ MomentsSrc.ctrlFormat c0 MomentsSrc.allEvent :=
        fun h => hcc (ctrlFormat_inj _ _ _ h)
      simp [this, hcc]

end Cross
