/-
Per-group results for the ThresholdOptimizer model: for a group with both labels and a constraint metric on the
x-axis the tradeoff curve exists, spans [0,1], every grid value gets a non-degenerate interpolation, the expected
x-metric of the interpolated rule is exactly the grid value and its expected y-metric is the interpolated y, which
dominates every mixture of the group's threshold rules with the same x (`mixture_le_line`).
-/
import FairModel.Lemmas.ThresholdInterp

set_option linter.unusedSimpArgs false

namespace Threshold
open ThresholdGen

/-- the metrics that can be constrained: the values of SIMPLE_CONSTRAINTS and the x-axis of equalized odds -/
def IsConstraintMetric (xm : Metric) : Prop := xm ∈ simpleConstraints.map (·.2) ∨ xm = eoXMetric

instance (xm : Metric) : Decidable (IsConstraintMetric xm) := by unfold IsConstraintMetric; infer_instance

/-- at the two ends of the sweep (nothing / everything predicted positive) a constraint metric is 0 and 1 -/
theorem constraint_extremes (xm : Metric) (hx : IsConstraintMetric xm) (nneg npos : Nat)
    (hn : nneg ≠ 0) (hp : npos ≠ 0) :
    (xm.eval (actualCounts 0 0 nneg npos) = 0 ∧ xm.eval (actualCounts nneg npos nneg npos) = 1) ∨
    (xm.eval (actualCounts 0 0 nneg npos) = 1 ∧ xm.eval (actualCounts nneg npos nneg npos) = 0) := by
  have hn' : (nneg : Rat) ≠ 0 := Nat.cast_ne_zero.mpr hn
  have hp' : (npos : Rat) ≠ 0 := Nat.cast_ne_zero.mpr hp
  have hnp : (npos : Rat) + (nneg : Rat) ≠ 0 := by
    have h1 : (0 : Rat) < npos := by positivity
    have h2 : (0 : Rat) < nneg := by positivity
    linarith
  have hnp' : (nneg : Rat) + (npos : Rat) ≠ 0 := by rw [add_comm]; exact hnp
  unfold IsConstraintMetric at hx
  simp only [simpleConstraints, eoXMetric, List.map_cons, List.map_nil, List.mem_cons, List.not_mem_nil,
    or_false] at hx
  rcases hx with (rfl | rfl | rfl | rfl | rfl | rfl) | rfl <;>
    simp [Metric.eval, actualCounts, CM.predicted_positives, CM.n, CM.positives, CM.negatives, hn', hp', hnp, hnp']

/-- the two constant classifiers are tradeoff points -/
theorem rawPoints_has_extremes (flip : Bool) (xm ym : Metric) (rows : List Row) (hne : rows ≠ []) :
    (⟨xm.eval (actualCounts 0 0 (nNeg rows) (nPos rows)), ym.eval (actualCounts 0 0 (nNeg rows) (nPos rows)),
       ⟨true, .pinf⟩⟩ : Pt) ∈ rawPoints flip xm ym rows ∧
    (⟨xm.eval (actualCounts (nNeg rows) (nPos rows) (nNeg rows) (nPos rows)),
       ym.eval (actualCounts (nNeg rows) (nPos rows) (nNeg rows) (nPos rows)), ⟨true, .ninf⟩⟩ : Pt)
      ∈ rawPoints flip xm ym rows := by
  constructor
  · exact mem_rawPoints.mpr ⟨_, sweepSteps_has_pinf rows, (true, true), operations_has_gt flip, by
      simp [stepCounts]⟩
  · exact mem_rawPoints.mpr ⟨_, sweepSteps_has_ninf rows hne, (true, true), operations_has_gt flip, by
      simp [stepCounts]⟩

theorem sorted_head_le {l : List Pt} (hs : l.Pairwise LexLe) {q : Pt} (hq : q ∈ l) :
    ∃ p, l.head? = some p ∧ LexLe p q := by
  cases l with
  | nil => simp at hq
  | cons a l =>
    refine ⟨a, rfl, ?_⟩
    rcases List.mem_cons.mp hq with rfl | hq
    · exact LexLe.refl _
    · exact (List.pairwise_cons.mp hs).1 q hq

theorem sorted_le_last {l : List Pt} (hs : l.Pairwise LexLe) {q : Pt} (hq : q ∈ l) :
    ∃ p, l.getLast? = some p ∧ LexLe q p := by
  have hne : l ≠ [] := by intro h; simp [h] at hq
  refine ⟨l.getLast hne, List.getLast?_eq_some_getLast hne, ?_⟩
  have hsplit := List.dropLast_append_getLast hne
  rw [← hsplit] at hq hs
  rcases List.mem_append.mp hq with hq | hq
  · exact (List.pairwise_append.mp hs).2.2 q hq _ (by simp)
  · simp only [List.mem_singleton] at hq; rw [hq]; exact LexLe.refl _

/-- everything the fit needs to know about one group -/
structure GroupCurve (flip : Bool) (xm ym : Metric) (rows : List Row) (H : List Pt) : Prop where
  eq : tradeoffCurve flip xm ym rows = some H
  good : GoodHull H (sortLex (rawPoints flip xm ym rows))
  head : ∃ p, H.head? = some p ∧ p.x ≤ 0
  last : ∃ p, H.getLast? = some p ∧ 1 ≤ p.x

theorem nPos_ne_zero_ne_nil {rows : List Row} (h : nPos rows ≠ 0) : rows ≠ [] := by
  intro h'; subst h'; exact h rfl

theorem groupCurve_exists (flip : Bool) (xm ym : Metric) (rows : List Row) (hx : IsConstraintMetric xm)
    (hp : nPos rows ≠ 0) (hn : nNeg rows ≠ 0) :
    ∃ H, GroupCurve flip xm ym rows H := by
  have hne := nPos_ne_zero_ne_nil hp
  have hs := pairwise_sortLex (rawPoints flip xm ym rows)
  have good := upperHull_good _ hs
  obtain ⟨h0, h1⟩ := rawPoints_has_extremes flip xm ym rows hne
  rw [← mem_sortLex] at h0 h1
  have hex := constraint_extremes xm hx (nNeg rows) (nPos rows) hn hp
  -- a point with x = 0 and a point with x = 1
  obtain ⟨q0, hq0, hq0x⟩ : ∃ q ∈ sortLex (rawPoints flip xm ym rows), q.x = 0 := by
    rcases hex with h | h
    · exact ⟨_, h0, h.1⟩
    · exact ⟨_, h1, h.2⟩
  obtain ⟨q1, hq1, hq1x⟩ : ∃ q ∈ sortLex (rawPoints flip xm ym rows), q.x = 1 := by
    rcases hex with h | h
    · exact ⟨_, h1, h.2⟩
    · exact ⟨_, h0, h.1⟩
  refine ⟨upperHull (sortLex (rawPoints flip xm ym rows)), ?_, good, ?_, ?_⟩
  · unfold tradeoffCurve; rw [tradeoffPoints_eq]
    rw [if_neg (by push Not; exact ⟨hp, hn⟩)]
    rfl
  · obtain ⟨p, hp1, hp2⟩ := sorted_head_le hs hq0
    exact ⟨p, by rw [good.head]; exact hp1, by have := hp2.x_le; linarith⟩
  · obtain ⟨p, hp1, hp2⟩ := sorted_le_last hs hq1
    exact ⟨p, by rw [good.last]; exact hp1, by have := hp2.x_le; linarith⟩

theorem tradeoffCurve_some_inv {flip : Bool} {xm ym : Metric} {rows : List Row} {H : List Pt}
    (h : tradeoffCurve flip xm ym rows = some H) : nPos rows ≠ 0 ∧ nNeg rows ≠ 0 := by
  unfold tradeoffCurve at h; rw [tradeoffPoints_eq] at h
  by_cases hc : nPos rows = 0 ∨ nNeg rows = 0
  · rw [if_pos hc] at h; simp at h
  · push Not at hc; exact hc

/-! ### grid values -/

theorem gridVal_zero (N : Nat) : gridVal N 0 = 0 := by simp [src_gridVal]

theorem gridVal_pos {N i : Nat} (hN : 1 ≤ N) (hi : 1 ≤ i) : 0 < gridVal N i := by
  rw [src_gridVal]
  have h1 : (0 : Rat) < i := by exact_mod_cast hi
  have h2 : (0 : Rat) < N := by exact_mod_cast hN
  exact div_pos h1 h2

theorem gridVal_le_one {N i : Nat} (hN : 1 ≤ N) (hi : i ≤ N) : gridVal N i ≤ 1 := by
  rw [src_gridVal]
  have h2 : (0 : Rat) < N := by exact_mod_cast hN
  rw [div_le_one h2]
  exact_mod_cast hi

theorem gridVal_nonneg (N i : Nat) : 0 ≤ gridVal N i := by
  rw [src_gridVal]; positivity

/-- every grid point of a good group gets a proper interpolation -/
theorem group_interpolate {flip : Bool} {xm ym : Metric} {rows : List Row} {H : List Pt}
    (gc : GroupCurve flip xm ym rows H) {N i : Nat} (hN : 1 ≤ N) (hi : i ≤ N) :
    ∃ r, interpolateAt H i (gridVal N i) = some r ∧ InterpSound H (gridVal N i) r :=
  interpolateAt_sound H i (gridVal N i) (fun h => by rw [h]; exact gridVal_zero N)
    (fun h => gridVal_pos hN h) (gridVal_le_one hN hi) gc.head gc.last gc.good.strict

/-! ### expected metrics of the fitted rules -/

theorem ruleProb_simple (r : Interp) :
    ruleProb (simpleRule r) = fun s => r.p0 * ind (r.op0.apply s) + r.p1 * ind (r.op1.apply s) := rfl

theorem hull_vertex_sound {flip : Bool} {xm ym : Metric} {rows : List Row} {H : List Pt}
    (gc : GroupCurve flip xm ym rows H) {a : Pt} (ha : a ∈ H) :
    a.x = xm.eval (confusion a.op rows) ∧ a.y = ym.eval (confusion a.op rows) :=
  rawPoints_sound flip xm ym rows a ((mem_sortLex _ _).mp (gc.good.sub a ha))

/-- expected x- and y-metric of the plain interpolated rule: exactly the grid value and the interpolated y -/
theorem expected_simple {flip : Bool} {xm ym : Metric} {rows : List Row} {H : List Pt}
    (gc : GroupCurve flip xm ym rows H) {g : Rat} {r : Interp} (hr : InterpSound H g r) :
    expectedMetric xm (simpleRule r) rows = g ∧ expectedMetric ym (simpleRule r) rows = r.y := by
  obtain ⟨l1, a, b, l2, hH, ho0, ho1, _, hx, hy, _⟩ := hr.verts
  have ha : a ∈ H := by rw [hH]; simp
  have hb : b ∈ H := by rw [hH]; simp
  obtain ⟨hax, hay⟩ := hull_vertex_sound gc ha
  obtain ⟨hbx, hby⟩ := hull_vertex_sound gc hb
  unfold expectedMetric
  rw [ruleProb_simple]
  constructor
  · rw [eval_expCM_mix xm r.p0 r.p1 _ _ rows hr.sum_one, ho0, ho1]
    show r.p0 * xm.eval (confusion a.op rows) + r.p1 * xm.eval (confusion b.op rows) = g
    rw [← hax, ← hbx]; exact hx
  · rw [eval_expCM_mix ym r.p0 r.p1 _ _ rows hr.sum_one, ho0, ho1]
    show r.p0 * ym.eval (confusion a.op rows) + r.p1 * ym.eval (confusion b.op rows) = r.y
    rw [← hay, ← hby]; exact hy.symm

/-- the probabilities of the plain interpolated rule are in [0,1] -/
theorem ruleProb_simple_range {H : List Pt} {g : Rat} {r : Interp} (hr : InterpSound H g r) (s : Rat) :
    0 ≤ ruleProb (simpleRule r) s ∧ ruleProb (simpleRule r) s ≤ 1 := by
  rw [ruleProb_simple]
  have h0 := hr.p0_nonneg
  have h1 := hr.p1_nonneg
  have hs := hr.sum_one
  simp only [ind]
  constructor <;> (split <;> split <;> linarith)

/-! ### mixtures of tradeoff points -/

/-- a randomisation over threshold rules: weights and the tradeoff points chosen -/
abbrev Mixture := List (Rat × Pt)

def Mixture.weight (m : Mixture) : Rat := (m.map (·.1)).sum
def Mixture.x (m : Mixture) : Rat := (m.map (fun wp => wp.1 * wp.2.x)).sum
def Mixture.y (m : Mixture) : Rat := (m.map (fun wp => wp.1 * wp.2.y)).sum

/-- weights are non-negative, sum to 1, and every point is one of `pts` -/
def Mixture.Valid (m : Mixture) (pts : List Pt) : Prop :=
  (∀ wp ∈ m, 0 ≤ wp.1 ∧ wp.2 ∈ pts) ∧ m.weight = 1

theorem mixture_cross_sum (a b : Pt) (m : Mixture) :
    (m.map (fun wp => wp.1 * cross a b wp.2)).sum =
      (b.x - a.x) * (m.y - a.y * m.weight) - (b.y - a.y) * (m.x - a.x * m.weight) := by
  induction m with
  | nil => simp [Mixture.x, Mixture.y, Mixture.weight]
  | cons wp m ih =>
    simp only [Mixture.x, Mixture.y, Mixture.weight, List.map_cons, List.sum_cons] at ih ⊢
    rw [ih]; unfold cross; ring

theorem mixture_cross_nonpos (a b : Pt) (m : Mixture) (pts : List Pt)
    (hsup : ∀ q ∈ pts, cross a b q ≤ 0) (hv : ∀ wp ∈ m, 0 ≤ wp.1 ∧ wp.2 ∈ pts) :
    (m.map (fun wp => wp.1 * cross a b wp.2)).sum ≤ 0 := by
  induction m with
  | nil => simp
  | cons wp m ih =>
    simp only [List.map_cons, List.sum_cons]
    have h1 := hv wp (by simp)
    have h2 := ih (fun x hx => hv x (by simp [hx]))
    have h3 : wp.1 * cross a b wp.2 ≤ 0 := mul_nonpos_of_nonneg_of_nonpos h1.1 (hsup _ h1.2)
    linarith

/-- **mixture_le_line**: a mixture of points that all lie on or below the line through `a`, `b` (with
    `a.x < b.x`) lies on or below that line: its y is at most the line's value `ry` at the mixture's x -/
theorem mixture_le_line (a b : Pt) (pts : List Pt) (m : Mixture) (g ry : Rat)
    (hsup : ∀ q ∈ pts, cross a b q ≤ 0) (hab : a.x < b.x) (hv : m.Valid pts) (hx : m.x = g)
    (hline : (b.x - a.x) * (ry - a.y) = (b.y - a.y) * (g - a.x)) : m.y ≤ ry := by
  have h1 := mixture_cross_nonpos a b m pts hsup hv.1
  rw [mixture_cross_sum, hv.2, hx] at h1
  have hD : 0 < b.x - a.x := by linarith
  by_contra hc
  have hc := not_le.mp hc
  have : 0 < (b.x - a.x) * (m.y - ry) := mul_pos hD (by linarith)
  nlinarith

/-- the interpolated y of a good group dominates every mixture of the group's tradeoff points with x = g -/
theorem interp_dominates {flip : Bool} {xm ym : Metric} {rows : List Row} {H : List Pt}
    (gc : GroupCurve flip xm ym rows H) {g : Rat} {r : Interp} (hr : InterpSound H g r)
    (m : Mixture) (hv : m.Valid (rawPoints flip xm ym rows)) (hx : m.x = g) : m.y ≤ r.y := by
  obtain ⟨l1, a, b, l2, hH, _, _, hab, _, _, hline⟩ := hr.verts
  have hsup : ∀ q ∈ rawPoints flip xm ym rows, cross a b q ≤ 0 := fun q hq =>
    gc.good.supporting l1 a b l2 hH q ((mem_sortLex _ _).mpr hq)
  exact mixture_le_line a b _ m g r.y hsup hab hv hx hline

end Threshold
