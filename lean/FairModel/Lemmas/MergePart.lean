import FairModel.Lemmas.Merge
namespace Merge
section classes2
variable {α : Type} [DecidableEq α]

theorem distinct_nodup (l : List α) : (distinct l).Nodup := by
  induction l with
  | nil => simp [distinct]
  | cons x xs ih =>
    simp only [distinct, List.nodup_cons, List.mem_filter]
    refine ⟨fun h => ?_, ih.filter _⟩
    simpa using h.2

theorem positions_injective (k k' : α) (l : List α) (hk : k ∈ l) (h : positions k l = positions k' l) : k = k' := by
  obtain ⟨i, hlt, hi⟩ := List.getElem_of_mem hk
  have hm : i ∈ positions k l := by rw [mem_positions]; simp [List.getElem?_eq_getElem hlt, hi]
  rw [h, mem_positions, List.getElem?_eq_getElem hlt, hi] at hm
  exact Option.some.inj hm

theorem positions_lt (k : α) (l : List α) (i : Nat) (h : i ∈ positions k l) : i < l.length := by
  rw [mem_positions] at h
  exact (List.getElem?_eq_some_iff.mp h).1

end classes2
end Merge
