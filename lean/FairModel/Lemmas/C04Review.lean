/-
Review additions for C04: the grid lemmas WITHOUT the hypothesis `1 ≤ N`.

`np.linspace(0, 1, grid_size + 1)` with `grid_size = 0` is the one-point grid `[0.]`; fairlearn accepts it and fits the
rule at `x = 0`.  In the model `gridVal 0 0 = 0 + 0 * (1 - 0) / 0 = 0` (Lean's `x / 0 = 0` happens to give numpy's value
here, because the numerator is `0`), and the only admissible index is `i = 0`, so every lemma that needed `1 ≤ N` only
to know `0 < gridVal N i` for `1 ≤ i ≤ N` and `gridVal N i ≤ 1` holds for `N = 0` as well.
-/
import FairModel.Lemmas.ThresholdFit

namespace Threshold
open ThresholdGen

theorem gridVal_le_one_any {N i : Nat} (hi : i ≤ N) : gridVal N i ≤ 1 := by
  rcases Nat.eq_zero_or_pos N with h0 | hpos
  · subst h0
    have : i = 0 := by omega
    subst this
    rw [gridVal_zero]; exact zero_le_one
  · exact gridVal_le_one hpos hi

theorem group_interpolate_any {flip : Bool} {xm ym : Metric} {rows : List Row} {H : List Pt}
    (gc : GroupCurve flip xm ym rows H) {N i : Nat} (hi : i ≤ N) :
    ∃ r, interpolateAt H i (gridVal N i) = some r ∧ InterpSound H (gridVal N i) r :=
  interpolateAt_sound H i (gridVal N i) (fun h => by rw [h]; exact gridVal_zero N)
    (fun h => gridVal_pos (by omega) h) (gridVal_le_one_any hi) gc.head gc.last gc.good.strict

theorem curves_exists_any {flip : Bool} {xm ym : Metric} {groups : List (List Row)} {hulls : List (List Pt)}
    (hx : IsConstraintMetric xm) (h : hullsOf flip xm ym groups = some hulls) (N : Nat) :
    ∃ cs, curves hulls N = some cs := by
  apply allSome_of_forall
  intro i hi
  have hi' : i ≤ N := by have := List.mem_range.mp hi; omega
  unfold interpAll
  have hlen := (hullsOf_some h).1
  have : ∀ H ∈ hulls, ∃ r, interpolateAt H i (gridVal N i) = some r := by
    intro H hH
    obtain ⟨j, hj, rfl⟩ := List.getElem_of_mem hH
    obtain ⟨r, hr, _⟩ := group_interpolate_any (hullsOf_groupCurve hx h j (by omega) hj) hi'
    exact ⟨r, hr⟩
  exact allSome_of_forall _ hulls this

theorem curves_entry_any {flip : Bool} {xm ym : Metric} {groups : List (List Row)} {hulls : List (List Pt)}
    (hx : IsConstraintMetric xm) (h : hullsOf flip xm ym groups = some hulls) {N : Nat}
    {cs : List (List Interp)} (hc : curves hulls N = some cs) (i : Nat) (hi : i < cs.length) :
    cs[i].length = groups.length ∧
    ∀ j (hj : j < groups.length) (hj' : j < cs[i].length) (hj'' : j < hulls.length),
      GroupCurve flip xm ym groups[j] hulls[j] ∧ InterpSound hulls[j] (gridVal N i) (cs[i][j]) := by
  obtain ⟨hclen, hcget⟩ := curves_some hc
  obtain ⟨hrlen, hrget⟩ := interpAll_some (hcget i hi)
  have hlen := (hullsOf_some h).1
  refine ⟨by omega, fun j hj hj' hj'' => ?_⟩
  have gc := hullsOf_groupCurve hx h j hj hj''
  obtain ⟨r, hr, hs⟩ := group_interpolate_any gc (show i ≤ N by omega)
  have := hrget j hj'' hj'
  rw [hr] at this
  rw [← Option.some.inj this]
  exact ⟨gc, hs⟩

end Threshold
