/-
The generated translation of `DisaggregatedResult._apply_functions` / `create`
(`Generated/FrameSrc.lean`) equals the hand-written model `Frame.applyFunctions` / `byGroup` /
`overall` for the column names `MetricFrame.__init__` passes (`*_eq_model`).
-/
import FairModel.Lemmas.Frame
import FairModel.Generated.FrameSrc

set_option linter.unusedSimpArgs false

namespace FrameSrc
open Frame FramePrims

variable {α β : Type}

theorem map_range_getD (l : List Level) : (List.range l.length).map (fun i => l.getD i "") = l := by
  apply List.ext_getElem
  · simp
  · intro i h1 h2
    simp at h1
    simp [List.getD_eq_getElem?_getD, h1]

theorem grouped_congr (kf kf' : Row α → Key) (f : List α → β) (rows : List (Row α))
    (h : ∀ r ∈ rows, kf r = kf' r) : grouped kf f rows = grouped kf' f rows := by
  unfold grouped rowsOf
  have e1 : rows.map kf = rows.map kf' := List.map_congr_left h
  rw [e1]
  apply List.map_congr_left
  intro k _
  have e2 : rows.filter (fun r => kf r == k) = rows.filter (fun r => kf' r == k) := by
    apply List.filter_congr
    intro r hr; rw [h r hr]
  rw [e2]

/-- the key built from the named columns is `cf ++ sf` on well-formed rows -/
theorem names_key (ncf nsf : Nat) (r : Row α) (hcf : r.cf.length = ncf) (hsf : r.sf.length = nsf) :
    ((List.range ncf).map Col.cf ++ sfNames nsf).map (colVal r) = r.cf ++ r.sf := by
  simp only [sfNames, List.map_append, List.map_map]
  have h1 : (List.range ncf).map (colVal r ∘ Col.cf) = r.cf := by
    rw [← hcf]; exact map_range_getD r.cf
  have h2 : (List.range nsf).map (colVal r ∘ Col.sf) = r.sf := by
    rw [← hsf]; exact map_range_getD r.sf
  rw [h1, h2]

theorem ckey_names (ncf : Nat) (r : Row α) (hcf : r.cf.length = ncf) :
    ((List.range ncf).map Col.cf).map (colVal r) = r.cf := by
  simp only [List.map_map]
  rw [← hcf]; exact map_range_getD r.cf

theorem col_cf (ncf nsf : Nat) (rows : List (Row α)) (hwf : WF ncf nsf rows) (i : Nat) (hi : i < ncf) :
    column rows (.cf i) = col i (rows.map Row.key) := by
  simp only [column, col, List.map_map]
  apply List.map_congr_left
  intro r hr
  have := (hwf r hr).1
  simp [colVal, Row.key, List.getD_eq_getElem?_getD, List.getElem?_append_left (this ▸ hi)]

theorem col_sf (ncf nsf : Nat) (rows : List (Row α)) (hwf : WF ncf nsf rows) (i : Nat) :
    column rows (.sf i) = col (ncf + i) (rows.map Row.key) := by
  simp only [column, col, List.map_map]
  apply List.map_congr_left
  intro r hr
  have := (hwf r hr).1
  simp [colVal, Row.key, List.getD_eq_getElem?_getD, List.getElem?_append_right, this]

theorem col_ckey (rows : List (Row α)) (i : Nat) :
    column rows (.cf i) = col i (rows.map Row.ckey) := by
  simp only [column, col, List.map_map]
  apply List.map_congr_left
  intro r _
  simp [colVal, Row.ckey]

theorem levels_names (ncf nsf : Nat) (rows : List (Row α)) (hwf : WF ncf nsf rows) :
    ((List.range ncf).map Col.cf ++ sfNames nsf).map (fun c => npUnique (column rows c)) =
      levels Row.key (ncf + nsf) rows := by
  simp only [levels, List.range_add, List.map_append, List.map_map, sfNames, npUnique]
  congr 1
  · apply List.map_congr_left
    intro i hi
    simp only [Function.comp, col_cf ncf nsf rows hwf i (List.mem_range.mp hi)]
  · apply List.map_congr_left
    intro i _
    simp only [Function.comp, col_sf ncf nsf rows hwf i]

theorem levels_cnames (ncf : Nat) (rows : List (Row α)) :
    ((List.range ncf).map Col.cf).map (fun c => npUnique (column rows c)) = levels Row.ckey ncf rows := by
  simp only [levels, List.map_map, npUnique]
  apply List.map_congr_left
  intro i _
  simp only [Function.comp, col_ckey rows i]

/-- a key made of feature values of a row without missing values has no missing component -/
theorem keyHasNa_names (r : Row α) (h : naLevel ∉ r.cf ∧ naLevel ∉ r.sf) (ncf nsf : Nat)
    (hcf : r.cf.length = ncf) (hsf : r.sf.length = nsf) :
    keyHasNa (((List.range ncf).map Col.cf ++ sfNames nsf).map (colVal r)) = false := by
  rw [names_key ncf nsf r hcf hsf]
  simp only [keyHasNa, List.contains_eq_mem, List.mem_append, decide_eq_false_iff_not]
  tauto

theorem keyHasNa_cnames (r : Row α) (h : naLevel ∉ r.cf ∧ naLevel ∉ r.sf) (ncf : Nat) (hcf : r.cf.length = ncf) :
    keyHasNa (((List.range ncf).map Col.cf).map (colVal r)) = false := by
  rw [ckey_names ncf r hcf]
  simp only [keyHasNa, List.contains_eq_mem, decide_eq_false_iff_not]
  exact h.1

/-- **`groupby(dropna=...)` is irrelevant without missing values**: whatever the flag, rows without a missing feature
    value are grouped as by the plain `groupbyApply` -/
theorem groupbyApplyNa_noMissing (dropna : Bool) (rows : List (Row α)) (names : List Col) (f : List α → β)
    (h : ∀ r ∈ rows, keyHasNa (names.map (colVal r)) = false) :
    groupbyApplyNa dropna rows names f = groupbyApply rows names f := by
  unfold groupbyApplyNa
  cases dropna
  · rfl
  · have : rows.filter (fun r => !keyHasNa (names.map (colVal r))) = rows := by
      apply List.filter_eq_self.mpr
      intro r hr; simp [h r hr]
    simp only [if_true, this]

/-- what `dropna=True` does: a row whose key has a missing component is in no group (it is filtered before grouping) -/
theorem groupbyApplyNa_true (rows : List (Row α)) (names : List Col) (f : List α → β) :
    groupbyApplyNa true rows names f =
      groupbyApply (rows.filter (fun r => !keyHasNa (names.map (colVal r)))) names f := by
  simp [groupbyApplyNa]

/-- `create(...).by_group`, with the names `MetricFrame.__init__` passes, is the model's `byGroup`
    (for rows without a missing feature value: `NoMissing`, the quantifier of the generators) -/
theorem create_by_group_eq_model (nanv : β) (ncf nsf : Nat) (f : List α → β) (rows : List (Row α))
    (hwf : WF ncf nsf rows) (hna : NoMissing rows) :
    create_by_group nanv rows f (sfNames nsf) (cfNames ncf) = byGroup nanv ncf nsf f rows := by
  have hkey : ∀ r ∈ rows, ((List.range ncf).map Col.cf ++ sfNames nsf).map (colVal r) = Row.key r :=
    fun r hr => names_key ncf nsf r (hwf r hr).1 (hwf r hr).2
  have hnames : (cfNames ncf).getD [] ++ sfNames nsf = (List.range ncf).map Col.cf ++ sfNames nsf := by
    unfold cfNames; split
    · next h => subst h; simp
    · simp
  have hlen : ((List.range ncf).map Col.cf ++ sfNames nsf).length = ncf + nsf := by simp [sfNames]
  unfold create_by_group apply_functions byGroup applyFunctions
  have hk : ∀ r ∈ rows, keyHasNa (((List.range ncf).map Col.cf ++ sfNames nsf).map (colVal r)) = false :=
    fun r hr => keyHasNa_names r (hna r hr) ncf nsf (hwf r hr).1 (hwf r hr).2
  simp only [Option.isNone_some, Option.getD_some, Bool.false_or, hnames, hlen, beq_iff_eq,
    groupbyApplyNa_noMissing _ rows _ f hk,
    groupbyApply, ungrouped, fromProduct, decide_eq_true_eq]
  split
  · rfl
  · rw [grouped_congr _ Row.key f rows hkey, levels_names ncf nsf rows hwf]

/-- `create(...).overall` is the model's `overall` -/
theorem create_overall_eq_model (nanv : β) (ncf nsf : Nat) (f : List α → β) (rows : List (Row α))
    (hwf : WF ncf nsf rows) (hna : NoMissing rows) :
    create_overall nanv rows f (sfNames nsf) (cfNames ncf) = overall nanv ncf f rows := by
  unfold create_overall apply_functions overall applyFunctions cfNames
  by_cases h0 : ncf = 0
  · subst h0; simp [ungrouped]
  · have hkey : ∀ r ∈ rows, ((List.range ncf).map Col.cf).map (colVal r) = Row.ckey r :=
      fun r hr => ckey_names ncf r (hwf r hr).1
    have hk : ∀ r ∈ rows, keyHasNa (((List.range ncf).map Col.cf).map (colVal r)) = false :=
      fun r hr => keyHasNa_cnames r (hna r hr) ncf (hwf r hr).1
    simp only [h0, if_false, Option.isNone_some, Option.getD_some, Bool.false_or, List.length_map,
      List.length_range, beq_iff_eq, groupbyApplyNa_noMissing _ rows _ f hk,
      groupbyApply, fromProduct, decide_eq_true_eq]
    rw [grouped_congr _ Row.ckey f rows hkey, levels_cnames ncf rows]

/-- the call in `MetricFrame.__init__` -/
theorem init_by_group_eq_model (nanv : β) (ncf nsf : Nat) (f : List α → β) (rows : List (Row α))
    (hwf : WF ncf nsf rows) (hna : NoMissing rows) :
    init_by_group nanv rows f nsf ncf = byGroup nanv ncf nsf f rows :=
  create_by_group_eq_model nanv ncf nsf f rows hwf hna

theorem init_overall_eq_model (nanv : β) (ncf nsf : Nat) (f : List α → β) (rows : List (Row α))
    (hwf : WF ncf nsf rows) (hna : NoMissing rows) :
    init_overall nanv rows f nsf ncf = overall nanv ncf f rows :=
  create_overall_eq_model nanv ncf nsf f rows hwf hna

end FrameSrc
