/-
More lemmas for C06 / C07: sums of gamma over the groups of one event, affinity of gamma in the predictor
(mixtures with weights summing to 1), constant predictors, the declared range of the regression losses and
positional lookup of multipliers.
-/
import FairModel.Lemmas.MomentsReduction
import FairModel.Generated.LossRange

namespace Moments

/-! ### sums over a list of groups -/

theorem sum_map_add {α} (l : List α) (f g : α → Rat) :
    (l.map (fun a => f a + g a)).sum = (l.map f).sum + (l.map g).sum := by
  induction l with
  | nil => simp
  | cons a as ih => simp only [List.map_cons, List.sum_cons, ih]; ring

theorem sum_map_mul_left {α} (l : List α) (c : Rat) (f : α → Rat) :
    (l.map (fun a => c * f a)).sum = c * (l.map f).sum := by
  induction l with
  | nil => simp
  | cons a as ih => simp only [List.map_cons, List.sum_cons, ih]; ring

/-- a value occurs exactly once in a duplicate-free list that contains it -/
theorem sum_ind_eq (G : List String) (hnd : G.Nodup) (a : String) :
    (G.map (fun g => ind (a == g))).sum = if a ∈ G then 1 else 0 := by
  induction G with
  | nil => simp
  | cons x xs ih =>
    rw [List.nodup_cons] at hnd
    simp only [List.map_cons, List.sum_cons, ih hnd.2, List.mem_cons]
    by_cases hax : a = x
    · subst hax
      simp [ind, hnd.1]
    · have : (a == x) = false := by simp [hax]
      simp [ind, this, hax]

/-- splitting the rows selected by `p` by their group: the per-group sums add up to the whole -/
theorem sum_groups (G : List String) (hnd : G.Nodup) (p : Row → Bool) (rows : List Row) (u : List Rat)
    (hG : ∀ r ∈ rows, p r = true → r.g ∈ G) :
    (G.map (fun g => dot (rows.map (fun r => ind (p r && r.g == g))) u)).sum
      = dot (rows.map (fun r => ind (p r))) u := by
  induction rows generalizing u with
  | nil => simp
  | cons r rs ih =>
    cases u with
    | nil => simp
    | cons x xs =>
      simp only [List.map_cons, dot_cons]
      rw [sum_map_add, ih xs (fun r' hr' => hG r' (by simp [hr']))]
      congr 1
      have : (fun g : String => ind (p r && r.g == g) * x) = (fun g => (ind (p r) * x) * ind (r.g == g)) := by
        funext g; rw [← ind_mul]; ring
      rw [this, sum_map_mul_left, sum_ind_eq G hnd]
      by_cases hp : p r = true
      · simp [hG r (by simp) hp]
      · have : p r = false := by simpa using hp
        simp [this, ind]

theorem filter_length_eq_dot (p : Row → Bool) (rows : List Row) :
    ((rows.filter p).length : Rat) = dot (rows.map (fun r => ind (p r))) (List.replicate rows.length 1) := by
  induction rows with
  | nil => simp
  | cons r rs ih =>
    simp only [List.map_cons, List.length_cons, List.replicate_succ, dot_cons, ← ih, List.filter_cons]
    by_cases hp : p r = true
    · simp [hp, ind]; ring
    · have : p r = false := by simpa using hp
      simp [this, ind]

/-- the groups observed together with event `e`, in index order -/
def groupsOf (ev : Ev) (rows : List Row) (e : String) : List String :=
  ((observedPairs ev rows).filter (fun q => q.1 == e)).map (·.2)

theorem mem_groupsOf (ev : Ev) (rows : List Row) (e g : String) :
    g ∈ groupsOf ev rows e ↔ Observed ev rows e g := by
  unfold groupsOf
  rw [← mem_observedPairs]
  simp only [List.mem_map, List.mem_filter, beq_iff_eq, Prod.exists]
  constructor
  · rintro ⟨a, b, ⟨hm, rfl⟩, rfl⟩; exact hm
  · intro h; exact ⟨e, g, ⟨h, rfl⟩, rfl⟩

theorem nodup_groupsOf (ev : Ev) (rows : List Row) (e : String) : (groupsOf ev rows e).Nodup := by
  unfold groupsOf
  have hn := (nodup_observedPairs ev rows).filter (fun q => q.1 == e)
  refine List.Nodup.map_on ?_ hn
  intro a ha b hb hab
  simp only [List.mem_filter, beq_iff_eq] at ha hb
  exact Prod.ext (ha.2.trans hb.2.symm) hab

theorem group_mem_of_inE (ev : Ev) (rows : List Row) (e : String) (r : Row) (hr : r ∈ rows)
    (h : inE ev e r = true) : r.g ∈ groupsOf ev rows e := by
  rw [mem_groupsOf]
  exact ⟨r, hr, by simpa [inE] using h, rfl⟩

/-- `Σ_g Σ_{i ∈ (e,g)} u_i = Σ_{i ∈ e} u_i` -/
theorem sum_groups_event (ev : Ev) (rows : List Row) (e : String) (u : List Rat) :
    ((groupsOf ev rows e).map (fun g => dot (rows.map (fun r => ind (inEG ev e g r))) u)).sum
      = dot (rows.map (fun r => ind (inE ev e r))) u := by
  have := sum_groups (groupsOf ev rows e) (nodup_groupsOf ev rows e) (inE ev e) rows u
    (fun r hr h => group_mem_of_inE ev rows e r hr h)
  simpa [inEG_eq] using this

/-- `Σ_g #(e,g) = #e` -/
theorem sum_groups_count (ev : Ev) (rows : List Row) (e : String) :
    ((groupsOf ev rows e).map (fun g => (countEG ev rows e g : Rat))).sum = (countE ev rows e : Rat) := by
  unfold countEG countE
  simp only [filter_length_eq_dot]
  exact sum_groups_event ev rows e _

/-! ### gamma as an affine function of the predictor -/

/-- pointwise mixture `Σ_j w_j · h_j` of predictors of length `n` -/
def mix (n : Nat) (ws : List Rat) (hs : List (List Rat)) : List Rat :=
  (ws.zip hs).foldr (fun p acc => vadd (p.2.map (fun x => p.1 * x)) acc) (List.replicate n 0)

theorem mix_nil (n : Nat) (hs : List (List Rat)) : mix n [] hs = List.replicate n 0 := by simp [mix]
theorem mix_nil_right (n : Nat) (ws : List Rat) : mix n ws [] = List.replicate n 0 := by simp [mix]
theorem mix_cons (n : Nat) (w : Rat) (ws : List Rat) (h : List Rat) (hs : List (List Rat)) :
    mix n (w :: ws) (h :: hs) = vadd (h.map (fun x => w * x)) (mix n ws hs) := by simp [mix]

theorem mix_length (n : Nat) (ws : List Rat) (hs : List (List Rat)) (hall : ∀ h ∈ hs, h.length = n) :
    (mix n ws hs).length = n := by
  induction ws generalizing hs with
  | nil => simp [mix_nil]
  | cons w ws ih =>
    cases hs with
    | nil => simp [mix_nil_right]
    | cons h hs =>
      rw [mix_cons]
      simp only [vadd, List.length_zipWith, List.length_map]
      rw [ih hs (fun h' hh' => hall h' (by simp [hh'])), hall h (by simp)]
      simp

theorem dot_zeros (v : List Rat) (n : Nat) : dot v (List.replicate n 0) = 0 := by
  induction v generalizing n with
  | nil => simp
  | cons x xs ih =>
    cases n with
    | zero => simp
    | succ m => simp [List.replicate_succ, ih m]

theorem dot_vadd_right (v a b : List Rat) (hab : a.length = b.length) :
    dot v (vadd a b) = dot v a + dot v b := by
  rw [dot_comm, dot_vadd_left a b v hab, dot_comm a, dot_comm b]

theorem dot_smul_right (v h : List Rat) (c : Rat) : dot v (h.map (fun x => c * x)) = c * dot v h := by
  rw [dot_comm, dot_map_smul c (fun x => x) h v]
  simp [dot_comm]

/-- a linear functional of a mixture is the mixture of its values -/
theorem dot_mix (v : List Rat) (n : Nat) (ws : List Rat) (hs : List (List Rat)) (hlen : ws.length = hs.length)
    (hall : ∀ h ∈ hs, h.length = n) :
    dot v (mix n ws hs) = dot ws (hs.map (fun h => dot v h)) := by
  induction ws generalizing hs with
  | nil => simp [mix_nil, dot_zeros]
  | cons w ws ih =>
    cases hs with
    | nil => simp at hlen
    | cons h hs =>
      simp only [List.length_cons, Nat.add_right_cancel_iff] at hlen
      have hall' : ∀ h' ∈ hs, h'.length = n := fun h' hh' => hall h' (by simp [hh'])
      rw [mix_cons, dot_vadd_right _ _ _ (by rw [List.length_map, hall h (by simp), mix_length n ws hs hall']),
        dot_smul_right, ih hs hlen hall']
      simp

/-- entry `k` of gamma = its value at the zero predictor + a linear functional of the predictor -/
theorem gammaAt_lin (ev : Ev) (rows : List Row) (ratio : Rat) (ut : Util) (h : List Rat) (k : Key)
    (hl : h.length = rows.length) :
    gammaAt ev rows ratio ut h k
      = gammaAt ev rows ratio ut (List.replicate rows.length 0) k
        + -(1 / (rows.length : Rat)) * dot (rows.map (fun r => ut.ud r * uEntry ev rows ratio r k)) h := by
  have := gammaAt_sub ev rows ratio ut h (List.replicate rows.length 0) k hl (by simp)
  rw [← hl, vsub_zeros', hl] at this
  linarith
where
  vsub_zeros' {h : List Rat} : vsub h (List.replicate h.length 0) = h := by
    induction h with
    | nil => simp [vsub]
    | cons x xs ih =>
      simp only [vsub, List.length_cons, List.replicate_succ, List.zipWith_cons_cons] at ih ⊢
      rw [ih]; simp

theorem dot_const_right (ws : List Rat) {α} (l : List α) (c : Rat) (hlen : ws.length = l.length) :
    dot ws (l.map (fun _ => c)) = ws.sum * c := by
  induction ws generalizing l with
  | nil => simp
  | cons w ws ih =>
    cases l with
    | nil => simp at hlen
    | cons a as =>
      simp only [List.length_cons, Nat.add_right_cancel_iff] at hlen
      simp only [List.map_cons, dot_cons, List.sum_cons, ih as hlen]; ring

theorem dot_map_add_right (ws : List Rat) {α} (l : List α) (f g : α → Rat) :
    dot ws (l.map (fun a => f a + g a)) = dot ws (l.map f) + dot ws (l.map g) := by
  rw [dot_comm, dot_map_add, dot_comm _ ws, dot_comm _ ws]

theorem dot_map_smul_right (ws : List Rat) {α} (l : List α) (c : Rat) (f : α → Rat) :
    dot ws (l.map (fun a => c * f a)) = c * dot ws (l.map f) := by
  rw [dot_comm, dot_map_smul, dot_comm]

/-- gamma of a mixture with weights summing to 1 is the mixture of the gammas -/
theorem gammaAt_mix (ev : Ev) (rows : List Row) (ratio : Rat) (ut : Util) (ws : List Rat) (hs : List (List Rat))
    (k : Key) (hlen : ws.length = hs.length) (hall : ∀ h ∈ hs, h.length = rows.length) (hsum : ws.sum = 1) :
    gammaAt ev rows ratio ut (mix rows.length ws hs) k = dot ws (hs.map (fun h => gammaAt ev rows ratio ut h k)) := by
  rw [gammaAt_lin ev rows ratio ut _ k (mix_length _ ws hs hall), dot_mix _ _ ws hs hlen hall]
  have e : hs.map (fun h => gammaAt ev rows ratio ut h k)
      = hs.map (fun h => gammaAt ev rows ratio ut (List.replicate rows.length 0) k
          + -(1 / (rows.length : Rat)) * dot (rows.map (fun r => ut.ud r * uEntry ev rows ratio r k)) h) :=
    List.map_congr_left (fun h hh => gammaAt_lin ev rows ratio ut h k (hall h hh))
  rw [e, dot_map_add_right, dot_const_right ws hs _ hlen, hsum, dot_map_smul_right]
  ring

/-! ### constant predictors -/

theorem dot_ind_const (p : Row → Bool) (rows : List Row) (c : Rat) :
    dot (rows.map (fun r => ind (p r))) (List.replicate rows.length c) = ((rows.filter p).length : Rat) * c := by
  induction rows with
  | nil => simp
  | cons r rs ih =>
    simp only [List.map_cons, List.length_cons, List.replicate_succ, dot_cons, ih, List.filter_cons]
    by_cases hp : p r = true
    · simp [hp, ind]; ring
    · have : p r = false := by simpa using hp
      simp [this, ind]

theorem meanOn_const (p : Row → Bool) (rows : List Row) (c : Rat) (hne : (rows.filter p).length ≠ 0) :
    meanOn p rows (List.replicate rows.length c) = c := by
  unfold meanOn
  rw [dot_ind_const]
  have : ((rows.filter p).length : Rat) ≠ 0 := by exact_mod_cast hne
  field_simp

/-! ### the regression losses -/

theorem lr_absR_eq (x : Rat) : LossRange.absR x = |x| := by
  unfold LossRange.absR
  split
  · next h => rw [abs_of_neg h]
  · next h => rw [abs_of_nonneg (not_lt.mp h)]

/-- `np.clip(x, lo, hi)` as modelled: within `[lo, hi]` when `lo ≤ hi`, and the constant `hi` otherwise -/
theorem clipR_cases (x lo hi : Rat) :
    (lo ≤ hi → lo ≤ MomentsSrc.clipR x lo hi ∧ MomentsSrc.clipR x lo hi ≤ hi) ∧
    (hi < lo → MomentsSrc.clipR x lo hi = hi) := by
  unfold MomentsSrc.clipR
  constructor
  · intro hlh
    by_cases h1 : x < lo
    · simp only [h1, if_true]
      have : ¬ hi < lo := not_lt.mpr hlh
      simp [this, hlh]
    · simp only [h1, if_false]
      by_cases h2 : hi < x
      · simp [h2, hlh]
      · simp only [h2, if_false]; exact ⟨not_lt.mp h1, not_lt.mp h2⟩
  · intro hlt
    by_cases h1 : x < lo
    · simp [h1, hlt]
    · have : hi < x := lt_of_lt_of_le hlt (not_lt.mp h1)
      simp [h1, this]

/-- the pandas path: identical to `clipR` for `lo ≤ hi`, clipping into `[hi, lo]` otherwise -/
theorem clipS_cases (x lo hi : Rat) :
    (lo ≤ hi → MomentsSrc.clipS x lo hi = MomentsSrc.clipR x lo hi) ∧
    (hi < lo → hi ≤ MomentsSrc.clipS x lo hi ∧ MomentsSrc.clipS x lo hi ≤ lo) := by
  unfold MomentsSrc.clipS
  constructor
  · intro h; simp [not_lt.mpr h]
  · intro h; simp only [h, if_true]; exact (clipR_cases x hi lo).1 h.le

/-- a per-group mean of values in `[a, b]` lies in `[a, b]` (scaled by the group size) -/
theorem dot_ind_bounds {α} (p : α → Bool) (rows : List α) (v : List Rat) (a b : Rat) (hl : v.length = rows.length)
    (hv : ∀ x ∈ v, a ≤ x ∧ x ≤ b) :
    a * ((rows.filter p).length : Rat) ≤ dot (rows.map (fun r => ind (p r))) v ∧
    dot (rows.map (fun r => ind (p r))) v ≤ b * ((rows.filter p).length : Rat) := by
  induction rows generalizing v with
  | nil => simp
  | cons r rs ih =>
    cases v with
    | nil => simp at hl
    | cons x xs =>
      simp only [List.length_cons, Nat.add_right_cancel_iff] at hl
      obtain ⟨h1, h2⟩ := ih xs hl (fun y hy => hv y (by simp [hy]))
      obtain ⟨hx1, hx2⟩ := hv x (by simp)
      simp only [List.map_cons, dot_cons, List.filter_cons]
      by_cases hp : p r = true
      · rw [if_pos hp]
        have hi : ind (p r) = 1 := by simp [ind, hp]
        rw [hi, List.length_cons]
        push_cast
        constructor <;> nlinarith
      · rw [if_neg hp]
        have hi : ind (p r) = 0 := by simp [ind, hp]
        rw [hi]
        constructor <;> linarith

/-- positional lookup: the multiplier of the `i`-th index label -/
theorem lookup_get (K : List String) (hnd : K.Nodup) (lam : List Rat) (hlen : lam.length = K.length)
    (i : Nat) (hi : i < K.length) :
    lookup K lam (K[i]) = lam[i]'(by rw [hlen]; exact hi) := by
  induction K generalizing lam i with
  | nil => simp at hi
  | cons k ks ih =>
    cases lam with
    | nil => simp at hlen
    | cons l ls =>
      simp only [List.length_cons, Nat.add_right_cancel_iff] at hlen
      rw [List.nodup_cons] at hnd
      rw [lookup_cons]
      cases i with
      | zero =>
        simp only [List.getElem_cons_zero, beq_self_eq_true, ind, if_true]
        have : lookup ks ls k = 0 := by
          unfold lookup
          have hz : ks.map (fun k' => ind (k' == k)) = ks.map (fun _ => (0 : Rat)) := by
            apply List.map_congr_left
            intro k' hk'
            have : k' ≠ k := fun h => hnd.1 (h ▸ hk')
            simp [ind, this]
          rw [hz, dot_map_zero]
        rw [this]; ring
      | succ j =>
        simp only [List.getElem_cons_succ]
        have hj : j < ks.length := by simpa using hi
        have hne : k ≠ ks[j] := fun h => hnd.1 (h ▸ List.getElem_mem hj)
        have : (k == ks[j]) = false := by simp [hne]
        rw [this, ih hnd.2 ls hlen j hj]
        simp [ind]

end Moments
