import FairModel.Lemmas.Prelude
import FairModel.Model.Validation

namespace Validation
open Generated.ValidationTables

theorem isBinary_iff (y : List Rat) : isBinary y = true ↔ ∀ v ∈ y, v = 0 ∨ v = 1 := by
  simp [isBinary, List.all_eq_true]

theorem hasDup_eq_false_iff (l : List String) : hasDup l = false ↔ l.Nodup := by
  induction l with
  | nil => simp [hasDup]
  | cons x xs ih => simp [hasDup, ih]

theorem degenerateGroup_iff (a b : Nat) : degenerateGroup a b = true ↔ a = 0 ∨ b = 0 := by
  simp [degenerateGroup]

theorem nPositive_ne_zero_iff (ls : List Rat) : nPositive ls ≠ 0 ↔ ∃ v ∈ ls, v = 1 := by
  unfold nPositive
  rw [← Nat.pos_iff_ne_zero, List.length_pos_iff_exists_mem]
  simp [List.mem_filter]

theorem nNegative_ne_zero_iff (ls : List Rat) : nNegative ls ≠ 0 ↔ ∃ v ∈ ls, v ≠ 1 := by
  unfold nNegative nPositive
  induction ls with
  | nil => simp
  | cons a l ih =>
    by_cases h : a = 1
    · subst h
      simp only [List.filter_cons, beq_self_eq_true, ite_true, List.length_cons, Nat.add_sub_add_right]
      rw [ih]; simp
    · have : (a == 1) = false := by simpa using h
      simp only [List.filter_cons, this, List.length_cons, Bool.false_eq_true, ite_false]
      constructor
      · intro _; exact ⟨a, by simp, h⟩
      · intro _
        have := List.length_filter_le (fun x : Rat => x == 1) l
        omega

theorem mem_groupLabels (sf : List Nat) (y : List Rat) (g : Nat) (v : Rat) :
    v ∈ groupLabels sf y g ↔ ∃ p ∈ sf.zip y, p.1 = g ∧ p.2 = v := by
  simp [groupLabels, List.mem_map, List.mem_filter]

/-- the per-group guard of `_calculate_tradeoff_points`, for 0/1 labels: no group is refused iff every group
    contains both labels -/
theorem anyDegenerate_eq_false_iff (sf : List Nat) (y : List Rat) (hy : ∀ v ∈ y, v = 0 ∨ v = 1) :
    anyDegenerate sf y = false ↔
      ∀ g ∈ sf, (∃ p ∈ sf.zip y, p.1 = g ∧ p.2 = 1) ∧ (∃ p ∈ sf.zip y, p.1 = g ∧ p.2 = 0) := by
  unfold anyDegenerate
  rw [List.any_eq_false]
  apply forall₂_congr
  intro g _
  rw [degenerateGroup_iff, not_or, ← ne_eq, ← ne_eq, nPositive_ne_zero_iff, nNegative_ne_zero_iff]
  constructor
  · rintro ⟨⟨v, hv, rfl⟩, ⟨w, hw, hw1⟩⟩
    refine ⟨(mem_groupLabels sf y g 1).mp hv, ?_⟩
    obtain ⟨p, hp, hpg, rfl⟩ := (mem_groupLabels sf y g w).mp hw
    have : p.2 ∈ y := (List.of_mem_zip hp).2
    rcases hy p.2 this with h0 | h1
    · exact ⟨p, hp, hpg, h0⟩
    · exact absurd h1 hw1
  · rintro ⟨h1, ⟨p, hp, hpg, hp0⟩⟩
    refine ⟨⟨1, (mem_groupLabels sf y g 1).mpr h1, rfl⟩, ⟨0, (mem_groupLabels sf y g 0).mpr ⟨p, hp, hpg, hp0⟩, by norm_num⟩⟩

/-! review R2: the hand-written counts of `_get_counts` (`n_positive = sum(labels)`, `n_negative = n - n_positive`) -/

theorem nPositive_le_length (ls : List Rat) : nPositive ls ≤ ls.length := by
  unfold nPositive; exact List.length_filter_le _ _

/-- the `Nat` subtraction in `nNegative` never truncates -/
theorem nPositive_add_nNegative (ls : List Rat) : nPositive ls + nNegative ls = ls.length := by
  have := nPositive_le_length ls
  unfold nNegative; omega

/-- for 0/1 labels the source's `sum(labels)` is the number of ones the model counts -/
theorem sum_eq_nPositive (ls : List Rat) (h : ∀ v ∈ ls, v = 0 ∨ v = 1) : ls.sum = (nPositive ls : Rat) := by
  induction ls with
  | nil => simp [nPositive]
  | cons a l ih =>
    have hl : ∀ v ∈ l, v = 0 ∨ v = 1 := fun v hv => h v (List.mem_cons_of_mem _ hv)
    have ih' := ih hl
    unfold nPositive at ih' ⊢
    rcases h a (by simp) with rfl | rfl
    · have : ((0 : Rat) == 1) = false := by decide
      simp [this, ih']
    · simp [ih']; ring

/-! ## the lifted body of `_validate_and_reformat_input` (Generated/ValidateSrc.lean, run by `runChecks`) -/

section Lifted
open Generated.ValidateSrc

/-- no check of an ordered list fires iff every condition is false -/
theorem firstFailure_eq_none_iff (f : Atom → Bool) (cs : List Check) :
    firstFailure f cs = none ↔ ∀ c ∈ cs, evalCond f c.cond = false := by
  induction cs with
  | nil => simp [firstFailure]
  | cons c cs ih =>
    by_cases h : evalCond f c.cond = true
    · simp [firstFailure, h]
    · have h' : evalCond f c.cond = false := by simpa using h
      simp [firstFailure, h', ih]

/-- a list of checks accepts a descriptor iff none of its conditions holds on it (for ANY list of checks) -/
theorem runChecks_ok_iff (cs : List Check) (ey es eb : Bool) (d : MitData) :
    runChecks cs ey es eb d = .ok ↔ ∀ c ∈ cs, evalCond (evalAtom ey es eb d) c.cond = false := by
  unfold runChecks
  rw [← firstFailure_eq_none_iff]
  cases h : firstFailure (evalAtom ey es eb d) cs with
  | none => simp
  | some e => cases e <;> simp [excOutcome]

/-- the failure a list of checks reports is the kind of one of its checks whose condition holds, and no earlier check
    of the list fires (first-match semantics) -/
theorem firstFailure_eq_some (f : Atom → Bool) (cs : List Check) (e : Exc) (h : firstFailure f cs = some e) :
    ∃ pre c post, cs = pre ++ c :: post ∧ c.exc = e ∧ evalCond f c.cond = true ∧ ∀ p ∈ pre, evalCond f p.cond = false := by
  induction cs with
  | nil => simp [firstFailure] at h
  | cons c cs ih =>
    by_cases hc : evalCond f c.cond = true
    · simp only [firstFailure, hc, ite_true, Option.some.injEq] at h
      exact ⟨[], c, cs, rfl, h, hc, by simp⟩
    · have hc' : evalCond f c.cond = false := by simpa using hc
      simp only [firstFailure, hc', Bool.false_eq_true, ite_false] at h
      obtain ⟨pre, c', post, rfl, he, hf, hp⟩ := ih h
      refine ⟨c :: pre, c', post, rfl, he, hf, ?_⟩
      intro p hp'
      rcases List.mem_cons.mp hp' with rfl | hp'
      · exact hc'
      · exact hp p hp'

/-- if every check of a list raises ValueError, the list never reports anything else -/
theorem runChecks_kind (cs : List Check) (hk : ∀ c ∈ cs, c.exc = .valueError) (ey es eb : Bool) (d : MitData) :
    runChecks cs ey es eb d = .ok ∨ runChecks cs ey es eb d = .valueError := by
  unfold runChecks
  cases h : firstFailure (evalAtom ey es eb d) cs with
  | none => exact Or.inl rfl
  | some e =>
    obtain ⟨pre, c, post, rfl, he, _, _⟩ := firstFailure_eq_some _ _ _ h
    have := hk c (by simp)
    rw [he] at this
    subst this
    exact Or.inr rfl

/-- the lifted label set is {0, 1}: the lifted membership test is the hand-written `isBinary` -/
theorem labelsIn_labelSet (y : List Rat) : labelsIn labelSet y = isBinary y := by
  simp [labelsIn, labelSet, isBinary]

/-- BRIDGE: the check list lifted from the working tree, run with first-match semantics, is the hand-written model of
    `_validate_and_reformat_input` — for every value of the three flags and every descriptor.  A source edit that drops a
    check the descriptor can see, changes a condition (`is None` / `is not None`, the label set, `expect_y`), or gives two
    checks of different kinds another order changes `checks` and breaks this proof. -/
theorem validateSrc_eq_validateWith (ey es eb : Bool) (d : MitData) :
    validateSrc ey es eb d = validateWith ey es eb d := by
  rcases d with ⟨n, y, sf, cf⟩
  simp only [validateSrc, runChecks, checks, firstFailure, evalCond, evalAtom, labelsIn_labelSet, validateWith]
  cases y <;> cases sf <;> cases cf <;> cases ey <;> cases es <;> cases eb <;> simp [excOutcome] <;> split_ifs <;> simp_all

end Lifted

end Validation
