import FairModel.Lemmas.Prelude
import FairModel.Model.Validation

namespace Validation
open Generated.ValidationTables

theorem isBinary_iff (y : List Rat) : isBinary y = true ↔ ∀ v ∈ y, v = 0 ∨ v = 1 := by
  simp [isBinary, List.all_eq_true]

theorem hasDup_eq_false_iff (l : List String) : hasDup l = false ↔ l.Nodup := by
  induction l with
  | nil => simp [hasDup]
  | cons x xs ih => simp [hasDup, ih]

theorem degenerateGroup_iff (a b : Nat) : degenerateGroup a b = true ↔ a = 0 ∨ b = 0 := by
  simp [degenerateGroup]

theorem nPositive_ne_zero_iff (ls : List Rat) : nPositive ls ≠ 0 ↔ ∃ v ∈ ls, v = 1 := by
  unfold nPositive
  rw [← Nat.pos_iff_ne_zero, List.length_pos_iff_exists_mem]
  simp [List.mem_filter]

theorem nNegative_ne_zero_iff (ls : List Rat) : nNegative ls ≠ 0 ↔ ∃ v ∈ ls, v ≠ 1 := by
  unfold nNegative nPositive
  induction ls with
  | nil => simp
  | cons a l ih =>
    by_cases h : a = 1
    · subst h
      simp only [List.filter_cons, beq_self_eq_true, ite_true, List.length_cons, Nat.add_sub_add_right]
      rw [ih]; simp
    · have : (a == 1) = false := by simpa using h
      simp only [List.filter_cons, this, List.length_cons, Bool.false_eq_true, ite_false]
      constructor
      · intro _; exact ⟨a, by simp, h⟩
      · intro _
        have := List.length_filter_le (fun x : Rat => x == 1) l
        omega

theorem mem_groupLabels (sf : List Nat) (y : List Rat) (g : Nat) (v : Rat) :
    v ∈ groupLabels sf y g ↔ ∃ p ∈ sf.zip y, p.1 = g ∧ p.2 = v := by
  simp [groupLabels, List.mem_map, List.mem_filter]

/-- the per-group guard of `_calculate_tradeoff_points`, for 0/1 labels: no group is refused iff every group
    contains both labels -/
theorem anyDegenerate_eq_false_iff (sf : List Nat) (y : List Rat) (hy : ∀ v ∈ y, v = 0 ∨ v = 1) :
    anyDegenerate sf y = false ↔
      ∀ g ∈ sf, (∃ p ∈ sf.zip y, p.1 = g ∧ p.2 = 1) ∧ (∃ p ∈ sf.zip y, p.1 = g ∧ p.2 = 0) := by
  unfold anyDegenerate
  rw [List.any_eq_false]
  apply forall₂_congr
  intro g _
  rw [degenerateGroup_iff, not_or, ← ne_eq, ← ne_eq, nPositive_ne_zero_iff, nNegative_ne_zero_iff]
  constructor
  · rintro ⟨⟨v, hv, rfl⟩, ⟨w, hw, hw1⟩⟩
    refine ⟨(mem_groupLabels sf y g 1).mp hv, ?_⟩
    obtain ⟨p, hp, hpg, rfl⟩ := (mem_groupLabels sf y g w).mp hw
    have : p.2 ∈ y := (List.of_mem_zip hp).2
    rcases hy p.2 this with h0 | h1
    · exact ⟨p, hp, hpg, h0⟩
    · exact absurd h1 hw1
  · rintro ⟨h1, ⟨p, hp, hpg, hp0⟩⟩
    refine ⟨⟨1, (mem_groupLabels sf y g 1).mpr h1, rfl⟩, ⟨0, (mem_groupLabels sf y g 0).mpr ⟨p, hp, hpg, hp0⟩, by norm_num⟩⟩

/-! review R2: the hand-written counts of `_get_counts` (`n_positive = sum(labels)`, `n_negative = n - n_positive`) -/

theorem nPositive_le_length (ls : List Rat) : nPositive ls ≤ ls.length := by
  unfold nPositive; exact List.length_filter_le _ _

/-- the `Nat` subtraction in `nNegative` never truncates -/
theorem nPositive_add_nNegative (ls : List Rat) : nPositive ls + nNegative ls = ls.length := by
  have := nPositive_le_length ls
  unfold nNegative; omega

/-- for 0/1 labels the source's `sum(labels)` is the number of ones the model counts -/
theorem sum_eq_nPositive (ls : List Rat) (h : ∀ v ∈ ls, v = 0 ∨ v = 1) : ls.sum = (nPositive ls : Rat) := by
  induction ls with
  | nil => simp [nPositive]
  | cons a l ih =>
    have hl : ∀ v ∈ l, v = 0 ∨ v = 1 := fun v hv => h v (List.mem_cons_of_mem _ hv)
    have ih' := ih hl
    unfold nPositive at ih' ⊢
    rcases h a (by simp) with rfl | rfl
    · have : ((0 : Rat) == 1) = false := by decide
      simp [this, ih']
    · simp [ih']; ring

end Validation
