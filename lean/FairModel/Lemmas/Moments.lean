/-
Helper lemmas for `Model/Moments.lean` (C06, C07): list-sum algebra, index membership, the
specification-level `meanOn`, and the exchange of the two finite sums behind the reduction identity.
-/
import FairModel.Lemmas.Prelude
import FairModel.Model.Moments

namespace Moments

/-! ### dedup / sort -/

theorem mem_dedupFirst {α} [DecidableEq α] (a : α) (l : List α) : a ∈ dedupFirst l ↔ a ∈ l := by
  induction l with
  | nil => simp [dedupFirst]
  | cons x xs ih =>
    simp only [dedupFirst, List.mem_cons, List.mem_filter, ih]
    by_cases h : a = x <;> simp [h]

theorem nodup_dedupFirst {α} [DecidableEq α] (l : List α) : (dedupFirst l).Nodup := by
  induction l with
  | nil => simp [dedupFirst]
  | cons x xs ih =>
    simp only [dedupFirst, List.nodup_cons, List.mem_filter]
    exact ⟨by simp, ih.filter _⟩

theorem insertBy_perm {α} (le : α → α → Bool) (x : α) (l : List α) : (insertBy le x l).Perm (x :: l) := by
  induction l with
  | nil => simp [insertBy]
  | cons y ys ih =>
    unfold insertBy
    split
    · exact List.Perm.refl _
    · exact (List.Perm.cons y ih).trans (List.Perm.swap x y ys)

theorem sortBy_perm {α} (le : α → α → Bool) (l : List α) : (sortBy le l).Perm l := by
  induction l with
  | nil => simp [sortBy]
  | cons x xs ih =>
    have : sortBy le (x :: xs) = insertBy le x (sortBy le xs) := rfl
    rw [this]
    exact (insertBy_perm le x _).trans (List.Perm.cons x ih)

theorem mem_sortedDistinct {α} [DecidableEq α] (le : α → α → Bool) (a : α) (l : List α) :
    a ∈ sortedDistinct le l ↔ a ∈ l := by
  unfold sortedDistinct
  rw [(sortBy_perm le _).mem_iff, mem_dedupFirst]

theorem nodup_sortedDistinct {α} [DecidableEq α] (le : α → α → Bool) (l : List α) :
    (sortedDistinct le l).Nodup := by
  unfold sortedDistinct
  rw [(sortBy_perm le _).nodup_iff]; exact nodup_dedupFirst l

/-! ### dot products and aligned sums -/

@[simp] theorem dot_nil_left (b : List Rat) : dot [] b = 0 := by simp [dot]
@[simp] theorem dot_nil_right (a : List Rat) : dot a [] = 0 := by simp [dot]
@[simp] theorem dot_cons (x y : Rat) (a b : List Rat) : dot (x :: a) (y :: b) = x * y + dot a b := by
  simp [dot]

theorem dot_comm (a b : List Rat) : dot a b = dot b a := by
  induction a generalizing b with
  | nil => simp
  | cons x xs ih => cases b with
    | nil => simp
    | cons y ys => simp [ih ys, mul_comm]

theorem dot_append (a b c d : List Rat) (h : a.length = c.length) :
    dot (a ++ b) (c ++ d) = dot a c + dot b d := by
  induction a generalizing c with
  | nil => cases c with
    | nil => simp
    | cons y ys => simp at h
  | cons x xs ih => cases c with
    | nil => simp at h
    | cons y ys =>
      simp only [List.length_cons, Nat.add_right_cancel_iff] at h
      simp only [List.cons_append, dot_cons, ih ys h]; ring

/-- `Σ f(aᵢ)·vᵢ` as a dot product -/
theorem dot_map_add {α} (f g : α → Rat) (l : List α) (v : List Rat) :
    dot (l.map (fun a => f a + g a)) v = dot (l.map f) v + dot (l.map g) v := by
  induction l generalizing v with
  | nil => simp
  | cons x xs ih => cases v with
    | nil => simp
    | cons y ys => simp only [List.map_cons, dot_cons, ih ys]; ring

theorem dot_map_smul {α} (c : Rat) (f : α → Rat) (l : List α) (v : List Rat) :
    dot (l.map (fun a => c * f a)) v = c * dot (l.map f) v := by
  induction l generalizing v with
  | nil => simp
  | cons x xs ih => cases v with
    | nil => simp
    | cons y ys => simp only [List.map_cons, dot_cons, ih ys]; ring

theorem dot_map_zero {α} (l : List α) (v : List Rat) : dot (l.map (fun _ => (0 : Rat))) v = 0 := by
  induction l generalizing v with
  | nil => simp
  | cons x xs ih => cases v with
    | nil => simp
    | cons y ys => simp only [List.map_cons, dot_cons, ih ys]; ring

theorem dot_map_congr {α} (f g : α → Rat) (l : List α) (v : List Rat) (h : ∀ a ∈ l, f a = g a) :
    dot (l.map f) v = dot (l.map g) v := by
  rw [List.map_congr_left h]

/-- the affine prediction `a·p + b` against a fixed column `f`: the difference for two prediction vectors
    is the `a·f`-weighted sum of their difference (the offset `b` cancels). -/
theorem dot_affine_sub {α} (f a b : α → Rat) (l : List α) (h h' : List Rat)
    (hl : h.length = l.length) (hl' : h'.length = l.length) :
    dot (l.map f) (List.zipWith (fun r p => a r * p + b r) l h)
      - dot (l.map f) (List.zipWith (fun r p => a r * p + b r) l h')
    = dot (l.map (fun r => a r * f r)) (vsub h h') := by
  induction l generalizing h h' with
  | nil => simp
  | cons x xs ih =>
    cases h with
    | nil => simp at hl
    | cons p ps =>
      cases h' with
      | nil => simp at hl'
      | cons p' ps' =>
        simp only [List.length_cons, Nat.add_right_cancel_iff] at hl hl'
        have := ih ps ps' hl hl'
        simp only [List.map_cons, List.zipWith_cons_cons, dot_cons, vsub] at this ⊢
        linarith

/-! ### counting -/

theorem ind_mul (a b : Bool) : ind a * ind b = ind (a && b) := by
  cases a <;> cases b <;> simp [ind]

theorem ind_sq (a : Bool) : ind a * ind a = ind a := by cases a <;> simp [ind]

theorem inEG_eq (ev : Ev) (e g : String) (r : Row) : inEG ev e g r = (inE ev e r && (r.g == g)) := rfl

theorem mem_pairs (ev : Ev) (rows : List Row) (e g : String) :
    (e, g) ∈ pairs ev rows ↔ ∃ r ∈ rows, ev r = some e ∧ r.g = g := by
  unfold pairs
  simp only [List.mem_filterMap, Option.map_eq_some_iff, Prod.mk.injEq]
  constructor
  · rintro ⟨r, hr, e', he', rfl, rfl⟩; exact ⟨r, hr, he', rfl⟩
  · rintro ⟨r, hr, he, rfl⟩; exact ⟨r, hr, e, he, rfl, rfl⟩

/-- a pair is *observed*: some row carries this event and this group -/
def Observed (ev : Ev) (rows : List Row) (e g : String) : Prop := ∃ r ∈ rows, ev r = some e ∧ r.g = g

theorem mem_observedPairs (ev : Ev) (rows : List Row) (e g : String) :
    (e, g) ∈ observedPairs ev rows ↔ Observed ev rows e g := by
  unfold observedPairs Observed
  rw [mem_sortedDistinct, mem_pairs]

theorem nodup_observedPairs (ev : Ev) (rows : List Row) : (observedPairs ev rows).Nodup :=
  nodup_sortedDistinct _ _

theorem countEG_pos (ev : Ev) (rows : List Row) (e g : String) (h : Observed ev rows e g) :
    0 < countEG ev rows e g := by
  obtain ⟨r, hr, he, hg⟩ := h
  unfold countEG
  apply List.length_pos_of_mem (a := r)
  simp [List.mem_filter, hr, inEG, he, hg]

theorem countE_pos (ev : Ev) (rows : List Row) (e g : String) (h : Observed ev rows e g) :
    0 < countE ev rows e := by
  obtain ⟨r, hr, he, _⟩ := h
  unfold countE
  apply List.length_pos_of_mem (a := r)
  simp [List.mem_filter, hr, inE, he]

theorem rows_pos (ev : Ev) (rows : List Row) (e g : String) (h : Observed ev rows e g) :
    0 < rows.length := by
  obtain ⟨r, hr, _, _⟩ := h
  exact List.length_pos_of_mem hr

/-! ### specification-level means -/

/-- mean of the values `u` (aligned with the rows) over the rows satisfying `p` -/
def meanOn (p : Row → Bool) (rows : List Row) (u : List Rat) : Rat :=
  dot (rows.map (fun r => ind (p r))) u / ((rows.filter p).length : Rat)

/-- the two sums behind one `+` column of `U` -/
theorem dot_uPlus (ev : Ev) (rows : List Row) (ratio : Rat) (e g : String) (u : List Rat) :
    dot (uCol ev rows ratio ⟨.plus, e, g⟩) u
      = dot (rows.map (fun r => ind (inE ev e r))) u / probE ev rows e
        - ratio * (dot (rows.map (fun r => ind (inEG ev e g r))) u / probEG ev rows e g) := by
  unfold uCol uEntry
  simp only [MomentsSrc.uPlus, ind_mul, ← inEG_eq]
  have : (fun r : Row => ind (inE ev e r) / probE ev rows e + -ratio * ind (inEG ev e g r) / probEG ev rows e g)
       = (fun r : Row => (1 / probE ev rows e) * ind (inE ev e r) + (-ratio / probEG ev rows e g) * ind (inEG ev e g r)) := by
    funext r; ring
  rw [this, dot_map_add, dot_map_smul, dot_map_smul]; ring

theorem dot_uMinus (ev : Ev) (rows : List Row) (ratio : Rat) (e g : String) (u : List Rat) :
    dot (uCol ev rows ratio ⟨.minus, e, g⟩) u
      = dot (rows.map (fun r => ind (inEG ev e g r))) u / probEG ev rows e g
        - ratio * (dot (rows.map (fun r => ind (inE ev e r))) u / probE ev rows e) := by
  unfold uCol uEntry
  simp only [MomentsSrc.uMinus, ind_mul, ← inEG_eq]
  have : (fun r : Row => -ratio * ind (inE ev e r) / probE ev rows e + ind (inEG ev e g r) / probEG ev rows e g)
       = (fun r : Row => (-ratio / probE ev rows e) * ind (inE ev e r) + (1 / probEG ev rows e g) * ind (inEG ev e g r)) := by
    funext r; ring
  rw [this, dot_map_add, dot_map_smul, dot_map_smul]; ring

/-- a row without event has an all-zero row in `U` -/
theorem uEntry_of_no_event (ev : Ev) (rows : List Row) (ratio : Rat) (r : Row) (k : Key) (h : ev r = none) :
    uEntry ev rows ratio r k = 0 := by
  unfold uEntry
  have : inE ev k.event r = false := by simp [inE, h]
  cases hk : k.sign <;> simp [this, ind, MomentsSrc.uPlus, MomentsSrc.uMinus]

/-- for ratio 1 the `-` column is the negated `+` column -/
theorem uEntry_minus_ratio_one (ev : Ev) (rows : List Row) (r : Row) (e g : String) :
    uEntry ev rows 1 r ⟨.minus, e, g⟩ = - uEntry ev rows 1 r ⟨.plus, e, g⟩ := by
  simp only [uEntry, MomentsSrc.uPlus, MomentsSrc.uMinus]; ring

/-- two prediction vectors that agree wherever the column is non-zero give the same product -/
theorem dot_congr_on {α} (f : α → Rat) (l : List α) (u u' : List Rat)
    (hl : u.length = l.length) (hl' : u'.length = l.length)
    (h : ∀ t ∈ l.zip (u.zip u'), f t.1 ≠ 0 → t.2.1 = t.2.2) :
    dot (l.map f) u = dot (l.map f) u' := by
  induction l generalizing u u' with
  | nil => simp
  | cons x xs ih =>
    cases u with
    | nil => simp at hl
    | cons p ps =>
      cases u' with
      | nil => simp at hl'
      | cons p' ps' =>
        simp only [List.length_cons, Nat.add_right_cancel_iff] at hl hl'
        simp only [List.map_cons, dot_cons]
        rw [ih ps ps' hl hl' (fun t ht => h t (by simp [ht]))]
        have h0 : f x ≠ 0 → p = p' := h (x, p, p') (by simp)
        by_cases hx : f x = 0
        · simp [hx]
        · rw [h0 hx]

/-! ### projection of multiplier pairs -/

theorem clip0_nonneg (x : Rat) : 0 ≤ clip0 x := by
  unfold clip0; split
  · exact le_refl _
  · linarith

theorem clip0_sub (x : Rat) : clip0 x - clip0 (-x) = x := by
  unfold clip0; split <;> split <;> linarith

theorem clip0_add_le (a b : Rat) (ha : 0 ≤ a) (hb : 0 ≤ b) : clip0 (a - b) + clip0 (-(a - b)) ≤ a + b := by
  unfold clip0; split <;> split <;> linarith

/-! the LIFTED text of `UtilityParity.project_lambda` (`Generated/ProjectLambdaSrc.lean`) against the closed forms the
    proofs use: a change of a sign, of the clip threshold / replacement value, of the order "negate, then clip" or of the
    `ratio == 1.0` guard in the source breaks exactly these lemmas (and with them C07 `project_lambda_*`) -/

theorem src_posOf_clip0 (a b : Rat) : ProjectLambdaSrc.posOf a b = clip0 (a - b) := by
  unfold ProjectLambdaSrc.posOf clip0
  split_ifs <;> linarith

theorem src_negOf_clip0 (a b : Rat) : ProjectLambdaSrc.negOf a b = clip0 (-(a - b)) := by
  unfold ProjectLambdaSrc.negOf clip0
  split_ifs <;> linarith

theorem src_projects_iff (ratio : Rat) : ProjectLambdaSrc.projects ratio = true ↔ ratio = 1 := by
  simp [ProjectLambdaSrc.projects]

theorem zipWith_posOf (lp lm : List Rat) :
    List.zipWith ProjectLambdaSrc.posOf lp lm = (List.zipWith (· - ·) lp lm).map clip0 := by
  rw [List.map_zipWith]
  exact congrArg (fun f => List.zipWith f lp lm) (funext fun a => funext fun b => src_posOf_clip0 a b)

theorem zipWith_negOf (lp lm : List Rat) :
    List.zipWith ProjectLambdaSrc.negOf lp lm = (List.zipWith (· - ·) lp lm).map (fun x => clip0 (-x)) := by
  rw [List.map_zipWith]
  exact congrArg (fun f => List.zipWith f lp lm) (funext fun a => funext fun b => src_negOf_clip0 a b)

/-- the model's `projectLambda` (defined over the lifted text) in closed form -/
theorem projectLambda_closed (ratio : Rat) (lp lm : List Rat) :
    projectLambda ratio lp lm =
      if ratio = 1 then ((List.zipWith (· - ·) lp lm).map clip0, (List.zipWith (· - ·) lp lm).map (fun x => clip0 (-x)))
      else (lp, lm) := by
  unfold projectLambda
  by_cases h : ratio = 1
  · rw [if_pos ((src_projects_iff ratio).mpr h), if_pos h, zipWith_posOf, zipWith_negOf]
  · have : ¬ ProjectLambdaSrc.projects ratio = true := fun hh => h ((src_projects_iff ratio).mp hh)
    rw [if_neg this, if_neg h]

/-- pairwise form of the projection inequality for ratio 1 (`gm = -gp`) -/
theorem project_pairs_le (eps : Rat) (heps : 0 ≤ eps) (lp lm gp : List Rat)
    (hp : ∀ x ∈ lp, 0 ≤ x) (hm : ∀ x ∈ lm, 0 ≤ x)
    (h1 : lp.length = gp.length) (h2 : lm.length = gp.length) :
    dot lp (gp.map (fun x => x - eps)) + dot lm (gp.map (fun x => -x - eps))
      ≤ dot ((List.zipWith (· - ·) lp lm).map clip0) (gp.map (fun x => x - eps))
        + dot ((List.zipWith (· - ·) lp lm).map (fun x => clip0 (-x))) (gp.map (fun x => -x - eps)) := by
  induction gp generalizing lp lm with
  | nil => simp
  | cons g gs ih =>
    cases lp with
    | nil => simp at h1
    | cons a as =>
      cases lm with
      | nil => simp at h2
      | cons b bs =>
        simp only [List.length_cons, Nat.add_right_cancel_iff] at h1 h2
        have ha := hp a (by simp)
        have hb := hm b (by simp)
        have := ih as bs (fun x hx => hp x (by simp [hx])) (fun x hx => hm x (by simp [hx])) h1 h2
        simp only [List.map_cons, List.zipWith_cons_cons, dot_cons]
        have e1 := clip0_sub (a - b)
        have e2 := clip0_add_le a b ha hb
        have e3 : (clip0 (a - b) - clip0 (-(a - b))) * g = (a - b) * g := by rw [e1]
        have e4 := mul_nonneg heps (sub_nonneg.mpr e2)
        linarith

/-! ### weighted 0/1 error -/

def posPart (w : List Rat) : Rat := (w.map (fun x => if 0 < x then x else 0)).sum

/-- every entry is 0 or 1 -/
def Hard (h : List Rat) : Prop := ∀ x ∈ h, x = 0 ∨ x = 1

/-- every entry is in [0,1] -/
def Soft (h : List Rat) : Prop := ∀ x ∈ h, 0 ≤ x ∧ x ≤ 1

theorem Hard.soft {h : List Rat} (hh : Hard h) : Soft h := by
  intro x hx; rcases hh x hx with rfl | rfl <;> constructor <;> norm_num

theorem absR_eq (x : Rat) : MomentsSrc.absR x = |x| := by
  unfold MomentsSrc.absR; split
  · next h => rw [abs_of_neg h]
  · next h => rw [abs_of_nonneg (not_lt.mp h)]

end Moments
