import FairModel.Lemmas.Aggregate
import FairModel.Lemmas.AggregateMore
import FairModel.Lemmas.WeightedMean

/-! Helper lemmas added by the review of C02:
  * weighted means with NON-NEGATIVE weights (groups of total weight 0 have an undefined mean and are
    skipped) — generalises `WeightedMean.mean_between` (positive weights);
  * a Boolean (decidable) form of `Aggregate.FiniteCells`, so that non-vacuity examples can discharge
    the hypothesis by `decide +kernel`;
  * the complete case analysis of the IEEE quotient group_min / group_max on finite tables. -/

namespace WeightedMean

variable {α κ : Type}

theorem den_nonneg' (w : α → Rat) (l : List α) (hw : ∀ a ∈ l, 0 ≤ w a) : 0 ≤ den w l := by
  induction l with
  | nil => simp
  | cons a l ih =>
    have h1 := hw a (by simp)
    have h2 := ih (fun x hx => hw x (by simp [hx]))
    simp only [den, List.map_cons, List.sum_cons] at h2 ⊢
    linarith

/-- non-negative weights summing to 0 are all 0, so the weighted sum vanishes as well (0/0) -/
theorem num_eq_zero_of_den_zero (q w : α → Rat) (l : List α) (hw : ∀ a ∈ l, 0 ≤ w a)
    (hd : den w l = 0) : num q w l = 0 := by
  induction l with
  | nil => simp
  | cons a l ih =>
    have h1 := hw a (by simp)
    have h2 := den_nonneg' w l (fun x hx => hw x (by simp [hx]))
    simp only [den, List.map_cons, List.sum_cons] at hd h2
    have ha : w a = 0 := by linarith
    have hl : den w l = 0 := by simp only [den]; linarith
    have h3 := ih (fun x hx => hw x (by simp [hx])) hl
    simp only [num, List.map_cons, List.sum_cons] at h3 ⊢
    rw [ha, h3]; ring

/-- NON-NEGATIVE weights: if every group mean that is defined (total weight ≠ 0) lies in `[m, M]`, so
    does the mean of the concatenation, provided it is defined. -/
theorem mean_between_nonneg (q w : α → Rat) (ks : List κ) (g : κ → List α)
    (hw : ∀ k ∈ ks, ∀ a ∈ g k, 0 ≤ w a) (m M : Rat)
    (hb : ∀ k ∈ ks, den w (g k) ≠ 0 →
      m ≤ num q w (g k) / den w (g k) ∧ num q w (g k) / den w (g k) ≤ M)
    (hne : den w (ks.flatMap g) ≠ 0) :
    m ≤ num q w (ks.flatMap g) / den w (ks.flatMap g) ∧
      num q w (ks.flatMap g) / den w (ks.flatMap g) ≤ M := by
  have key : m * den w (ks.flatMap g) ≤ num q w (ks.flatMap g) ∧
      num q w (ks.flatMap g) ≤ M * den w (ks.flatMap g) := by
    clear hne
    induction ks with
    | nil => simp
    | cons k ks ih =>
      have ih := ih (fun k' hk' => hw k' (by simp [hk'])) (fun k' hk' => hb k' (by simp [hk']))
      simp only [List.flatMap_cons, num_append, den_append]
      have hk : m * den w (g k) ≤ num q w (g k) ∧ num q w (g k) ≤ M * den w (g k) := by
        by_cases he : den w (g k) = 0
        · rw [he, num_eq_zero_of_den_zero q w (g k) (hw k (by simp)) he]; simp
        · have hd : 0 < den w (g k) :=
            lt_of_le_of_ne (den_nonneg' w (g k) (hw k (by simp))) (Ne.symm he)
          have := hb k (by simp) he
          rw [le_div_iff₀ hd, div_le_iff₀ hd] at this
          exact this
      constructor <;> nlinarith [hk.1, hk.2, ih.1, ih.2]
  have hd : 0 < den w (ks.flatMap g) := by
    refine lt_of_le_of_ne (den_nonneg' w _ ?_) (Ne.symm hne)
    intro a ha
    obtain ⟨k, hk, hak⟩ := List.mem_flatMap.mp ha
    exact hw k hk a hak
  rw [le_div_iff₀ hd, div_le_iff₀ hd]
  exact key

end WeightedMean

namespace Aggregate
open XR

/-- a cell that is a finite number or NaN -/
def cellFinNan : Frame.Cell → Bool
  | .scalar .nan => true
  | .scalar (.fin _) => true
  | _ => false

/-- decidable form of `FiniteCells` -/
def finiteCellsB (t : Tables) : Bool :=
  t.byGroup.all (fun e => cellFinNan e.2) && t.overall.all (fun e => cellFinNan e.2)

theorem cellFinNan_iff (c : Frame.Cell) :
    cellFinNan c = true ↔ (c = .scalar nan ∨ ∃ q, c = .scalar (fin q)) := by
  cases c with
  | scalar x => cases x <;> simp [cellFinNan]
  | nonscalar => simp [cellFinNan]
  | raised => simp [cellFinNan]

theorem finiteCells_of_B {t : Tables} (h : finiteCellsB t = true) : FiniteCells t := by
  simp only [finiteCellsB, Bool.and_eq_true, List.all_eq_true] at h
  exact ⟨fun e he => (cellFinNan_iff e.2).mp (h.1 e he), fun e he => (cellFinNan_iff e.2).mp (h.2 e he)⟩

/-- the IEEE quotient `m / M` of a finite minimum and maximum (`m ≤ M`): never `+inf`.
    `0/0 = NaN`, `negative/0 = -inf`, otherwise the exact quotient. -/
theorem div_min_max_cases {m M : Rat} (hle : m ≤ M) :
    (M = 0 ∧ m = 0 ∧ XR.div (fin m) (fin M) = nan) ∨
    (M = 0 ∧ m < 0 ∧ XR.div (fin m) (fin M) = ninf) ∨
    (M ≠ 0 ∧ XR.div (fin m) (fin M) = fin (m / M)) := by
  rw [div_fin_fin]
  by_cases h0 : M = 0
  · subst h0
    by_cases hm : m = 0
    · left; exact ⟨rfl, hm, by simp [hm]⟩
    · right; left
      have hneg : m < 0 := lt_of_le_of_ne hle hm
      exact ⟨rfl, hneg, by simp [hm, not_lt.mpr (le_of_lt hneg)]⟩
  · right; right; exact ⟨h0, by simp [h0]⟩

end Aggregate
