import FairModel.Lemmas.Prelude
import FairModel.Model.BaseMetrics

namespace BaseMetrics

@[simp] theorem wsum_nil (p : Row → Bool) : wsum p [] = 0 := by simp [wsum]

theorem wsum_cons (p : Row → Bool) (r : Row) (rs : List Row) :
    wsum p (r :: rs) = (if p r then r.w else 0) + wsum p rs := by
  unfold wsum
  by_cases h : p r <;> simp [h]

theorem wsum_append (p : Row → Bool) (a b : List Row) :
    wsum p (a ++ b) = wsum p a + wsum p b := by
  simp [wsum]

theorem wsum_nonneg (p : Row → Bool) (rows : List Row) (hw : ∀ r ∈ rows, 0 ≤ r.w) :
    0 ≤ wsum p rows := by
  induction rows with
  | nil => simp
  | cons r rs ih =>
    rw [wsum_cons]
    have h1 := hw r (by simp)
    have h2 := ih (fun x hx => hw x (by simp [hx]))
    split <;> linarith

theorem wsum_pos_of_mem (p : Row → Bool) (rows : List Row) (hw : ∀ r ∈ rows, 0 ≤ r.w)
    (r : Row) (hr : r ∈ rows) (hp : p r = true) (hpos : 0 < r.w) : 0 < wsum p rows := by
  induction rows with
  | nil => simp at hr
  | cons x xs ih =>
    rw [wsum_cons]
    have hx := hw x (by simp)
    have hxs : ∀ y ∈ xs, 0 ≤ y.w := fun y hy => hw y (by simp [hy])
    have h2 := wsum_nonneg p xs hxs
    rcases List.mem_cons.mp hr with rfl | hmem
    · simp [hp]; linarith
    · have := ih hxs hmem
      split <;> linarith

theorem ratio_nonneg {n d : Rat} (hn : 0 ≤ n) (hd : 0 ≤ d) : 0 ≤ ratio n d := by
  unfold ratio; split
  · exact le_refl _
  · exact div_nonneg hn hd

theorem ratio_le_one {n d : Rat} (hd : 0 ≤ d) (hnd : n ≤ d) : ratio n d ≤ 1 := by
  unfold ratio; split
  · exact zero_le_one
  · next h =>
    have : 0 < d := lt_of_le_of_ne hd (Ne.symm h)
    rw [div_le_one this]; exact hnd

theorem ratio_add {a b : Rat} (h : a + b ≠ 0) : ratio a (a + b) + ratio b (a + b) = 1 := by
  unfold ratio; simp [h]; field_simp

theorem ratio_zero_den (n : Rat) : ratio n 0 = 0 := by simp [ratio]

end BaseMetrics
