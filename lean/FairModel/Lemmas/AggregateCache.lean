import FairModel.Lemmas.Prelude
import FairModel.Model.AggregateCache

/-! The lifted result cache of `MetricFrame` (`Generated/PopulateSrc.lean` interpreted by `Model/AggregateCache.lean`)
is the hand-written model: slot `(method, errors)` holds `Aggregate.*` evaluated with exactly that method and errors
value, the accessors default to `errors='raise'` (group_min / group_max), `errors='coerce'` and
`method='between_groups'` (difference / ratio), and `_extract_result` hands out the documented part. -/

namespace AggCache
open Frame Aggregate PopulateSrc FramePrims

/-- what each cache slot is DOCUMENTED to hold (hand-written) -/
def direct : Slot → Tables → Option Series
  | .groupMin e, t => groupMin e t
  | .groupMax e, t => groupMax e t
  | .difference m e, t => Aggregate.difference m e t
  | .ratio m e, t => Aggregate.ratio m e t

theorem documentedMode_not_fails (usc : Bool) (ncf : Nat) : extractFails (documentedMode usc ncf) ncf = false := by
  unfold extractFails documentedMode
  cases usc <;> by_cases h : 0 < ncf <;> simp [h]; omega

/-- the flag `_populate_results` / `_group` pass makes the lifted `_extract_result` follow the documented table -/
theorem extract_mode_eq (usc : Bool) (ncf : Nat) :
    FrameSrc.extract_result usc (decide (0 < ncf)) false = documentedMode usc ncf := by
  unfold FrameSrc.extract_result documentedMode
  cases usc <;> by_cases h : 0 < ncf <;> simp [h]

/-- every slot is filled, by the call with ITS OWN method and errors value, extracted with `no_control_levels=False` -/
theorem src_populate_entries (s : Slot) :
    entryOf s = some ⟨s, (match s with
      | .groupMin e => .grouping .min e | .groupMax e => .grouping .max e
      | .difference m e => .difference m e | .ratio m e => .ratio m e), false⟩ := by
  cases s with
  | groupMin e => cases e <;> rfl
  | groupMax e => cases e <;> rfl
  | difference m e => cases m <;> cases e <;> rfl
  | ratio m e => cases m <;> cases e <;> rfl

theorem cached_eq (usc : Bool) (s : Slot) (t : Tables) :
    cached usc s t = .got (documentedMode usc t.ncf) (direct s t) := by
  unfold cached
  rw [src_populate_entries]
  simp only [extract_mode_eq, documentedMode_not_fails]
  cases s <;> rfl

theorem groupMinPub_eq (errors : Option Errors) (usc : Bool) (t : Tables) :
    groupMinPub errors usc t = .got (documentedMode usc t.ncf) (groupMin (errors.getD .raise) t) := by
  simp only [groupMinPub, cached_eq]
  cases errors with
  | none => simp [groupMinDefaultErrors, validErrors, groupMinSlot, direct]
  | some e => cases e <;> simp [validErrors, groupMinSlot, direct]

theorem groupMaxPub_eq (errors : Option Errors) (usc : Bool) (t : Tables) :
    groupMaxPub errors usc t = .got (documentedMode usc t.ncf) (groupMax (errors.getD .raise) t) := by
  simp only [groupMaxPub, cached_eq]
  cases errors with
  | none => simp [groupMaxDefaultErrors, validErrors, groupMaxSlot, direct]
  | some e => cases e <;> simp [validErrors, groupMaxSlot, direct]

theorem differencePub_eq (method : Option Method) (errors : Option Errors) (usc : Bool) (t : Tables) :
    differencePub method errors usc t =
      .got (documentedMode usc t.ncf) (Aggregate.difference (method.getD .between) (errors.getD .coerce) t) := by
  simp only [differencePub, cached_eq]
  rcases method with _ | m <;> rcases errors with _ | e <;> (try cases m) <;> (try cases e) <;>
    simp [differenceDefaultMethod, differenceDefaultErrors, validErrors, compareMethods, differenceSlot, direct]

theorem ratioPub_eq (method : Option Method) (errors : Option Errors) (usc : Bool) (t : Tables) :
    ratioPub method errors usc t =
      .got (documentedMode usc t.ncf) (Aggregate.ratio (method.getD .between) (errors.getD .coerce) t) := by
  simp only [ratioPub, cached_eq]
  rcases method with _ | m <;> rcases errors with _ | e <;> (try cases m) <;> (try cases e) <;>
    simp [ratioDefaultMethod, ratioDefaultErrors, validErrors, compareMethods, ratioSlot, direct]

/-- the 12 explicit calls of the cache op are the 12 results of the hand-written op `agg.eval` -/
theorem allCalls_explicit (usc : Bool) (t : Tables) :
    ((allCalls usc t).take 12).map Got.value = allResults t := by
  simp [allCalls, allResults, groupMinPub_eq, groupMaxPub_eq, differencePub_eq, ratioPub_eq, Got.value]

/-- ... and the 12 calls that leave arguments out are the documented defaults -/
theorem allCalls_defaults (usc : Bool) (t : Tables) :
    ((allCalls usc t).drop 12).map Got.value =
      [groupMin .raise t, groupMax .raise t,
       Aggregate.difference .between .coerce t, Aggregate.difference .between .coerce t,
       Aggregate.difference .toOverall .coerce t,
       Aggregate.difference .between .raise t, Aggregate.difference .between .coerce t,
       Aggregate.ratio .between .coerce t, Aggregate.ratio .between .coerce t, Aggregate.ratio .toOverall .coerce t,
       Aggregate.ratio .between .raise t, Aggregate.ratio .between .coerce t] := by
  simp [allCalls, groupMinPub_eq, groupMaxPub_eq, differencePub_eq, ratioPub_eq, Got.value]

/-- every call hands out the documented part of the underlying result -/
theorem allCalls_mode (usc : Bool) (t : Tables) :
    ∀ g ∈ allCalls usc t, ∃ r, g = .got (documentedMode usc t.ncf) r := by
  simp [allCalls, groupMinPub_eq, groupMaxPub_eq, differencePub_eq, ratioPub_eq]

end AggCache
