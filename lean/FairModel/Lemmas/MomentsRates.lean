/-
Lemmas tying `Model/Moments.lean` to the rate functions of `Model/BaseMetrics.lean` (the model behind
MetricFrame's per-group metrics), and the closed form of `ErrorRate.gamma`.
-/
import FairModel.Lemmas.Moments
import FairModel.Lemmas.BaseMetrics

namespace Moments

/-! ### ErrorRate.gamma -/

theorem filter_map_sum_cons (q : Rat → Bool) (f : Rat → Rat) (x : Rat) (xs : List Rat) :
    (((x :: xs).filter q).map f).sum = (if q x then f x else 0) + ((xs.filter q).map f).sum := by
  by_cases h : q x <;> simp [h]

theorem errNum_soft (fp fn : Rat) (ys h : List Rat) (hl : h.length = ys.length)
    (hy : Hard ys) (hh : Soft h) :
    (((vsub ys h).filter (fun x => decide (0 < x))).map (fun x => x * fn)).sum
      + (((vsub ys h).filter (fun x => decide (x < 0))).map (fun x => -x * fp)).sum
      = (List.zipWith (fun y p => fn * y * (1 - p) + fp * (1 - y) * p) ys h).sum := by
  induction ys generalizing h with
  | nil => simp [vsub]
  | cons y ys ih =>
    cases h with
    | nil => simp at hl
    | cons p ps =>
      simp only [List.length_cons, Nat.add_right_cancel_iff] at hl
      have ih' := ih ps hl (fun x hx => hy x (by simp [hx])) (fun x hx => hh x (by simp [hx]))
      have hp := hh p (by simp)
      simp only [vsub, List.zipWith_cons_cons, filter_map_sum_cons, List.sum_cons] at ih' ⊢
      rcases hy y (by simp) with rfl | rfl
      · by_cases h0 : p = 0
        · subst h0; simp only [sub_zero, lt_self_iff_false, decide_false, Bool.false_eq_true, if_false]
          linarith
        · have : 0 < p := lt_of_le_of_ne hp.1 (Ne.symm h0)
          have h1 : ¬ (0 : Rat) < 0 - p := by linarith
          have h2 : (0 : Rat) - p < 0 := by linarith
          simp only [decide_eq_true_eq, h1, h2, if_true, if_false]; linarith
      · by_cases h0 : p = 1
        · subst h0; simp only [sub_self, lt_self_iff_false, decide_false, Bool.false_eq_true, if_false]
          linarith
        · have : p < 1 := lt_of_le_of_ne hp.2 h0
          have h1 : (0 : Rat) < 1 - p := by linarith
          have h2 : ¬ (1 : Rat) - p < 0 := by linarith
          simp only [decide_eq_true_eq, h1, h2, if_true, if_false]; linarith

theorem errGamma_soft (fp fn : Rat) (ys h : List Rat) (hl : h.length = ys.length)
    (hy : Hard ys) (hh : Soft h) :
    errGamma fp fn ys h
      = (List.zipWith (fun y p => fn * y * (1 - p) + fp * (1 - y) * p) ys h).sum / (ys.length : Rat) := by
  unfold errGamma MomentsSrc.errorValue
  simp only
  rw [errNum_soft fp fn ys h hl hy hh]

theorem hard_cost_sum (fp fn : Rat) (ys h : List Rat) (hl : h.length = ys.length)
    (hy : Hard ys) (hh : Hard h) :
    (List.zipWith (fun y p => fn * y * (1 - p) + fp * (1 - y) * p) ys h).sum
      = fp * (((ys.zip h).filter (fun t => t.1 == 0 && t.2 == 1)).length : Rat)
        + fn * (((ys.zip h).filter (fun t => t.1 == 1 && t.2 == 0)).length : Rat) := by
  induction ys generalizing h with
  | nil => simp
  | cons y ys ih =>
    cases h with
    | nil => simp at hl
    | cons p ps =>
      simp only [List.length_cons, Nat.add_right_cancel_iff] at hl
      have ih' := ih ps hl (fun x hx => hy x (by simp [hx])) (fun x hx => hh x (by simp [hx]))
      simp only [List.zipWith_cons_cons, List.sum_cons, List.zip_cons_cons, List.filter_cons, ih']
      rcases hy y (by simp) with rfl | rfl <;> rcases hh p (by simp) with rfl | rfl <;> simp <;> ring

/-! ### BaseMetrics rows of a selection -/

/-- the rows selected by `p`, with their hard predictions, as unit-weight `BaseMetrics` rows -/
def toBM (p : Row → Bool) (rows : List Row) (hp : List Int) : List BaseMetrics.Row :=
  ((rows.zip hp).filter (fun t => p t.1)).map (fun t => ⟨t.1.y, t.2, 1⟩)

/-- rate of predictions equal to 1 among the rows with label `c` (c = 1: TPR, c = 0: FPR) -/
def condRate (c : Int) (bm : List BaseMetrics.Row) : Rat :=
  BaseMetrics.ratio (BaseMetrics.cell bm c 1) (BaseMetrics.rowTot bm 0 1 c)

theorem wsum_toBM (q : BaseMetrics.Row → Bool) (p : Row → Bool) (rows : List Row) (hp : List Int)
    (hl : hp.length = rows.length) :
    BaseMetrics.wsum q (toBM p rows hp)
      = (List.zipWith (fun r x => ind (p r && q ⟨r.y, x, 1⟩)) rows hp).sum := by
  induction rows generalizing hp with
  | nil => simp [toBM]
  | cons r rs ih =>
    cases hp with
    | nil => simp at hl
    | cons x xs =>
      simp only [List.length_cons, Nat.add_right_cancel_iff] at hl
      have := ih xs hl
      unfold toBM at this ⊢
      simp only [List.zip_cons_cons, List.filter_cons, List.zipWith_cons_cons, List.sum_cons]
      cases hpr : p r
      · simp only [Bool.false_eq_true, ↓reduceIte, this, Bool.false_and, ind]; simp
      · simp only [↓reduceIte, List.map_cons, BaseMetrics.wsum_cons, this, Bool.true_and]
        by_cases hq : q ⟨r.y, x, 1⟩ <;> simp [hq, ind]

theorem totalW_toBM (p : Row → Bool) (rows : List Row) (hp : List Int) (hl : hp.length = rows.length) :
    BaseMetrics.totalW (toBM p rows hp) = ((rows.filter p).length : Rat) := by
  induction rows generalizing hp with
  | nil => simp [toBM, BaseMetrics.totalW]
  | cons r rs ih =>
    cases hp with
    | nil => simp at hl
    | cons x xs =>
      simp only [List.length_cons, Nat.add_right_cancel_iff] at hl
      have := ih xs hl
      unfold toBM BaseMetrics.totalW at this ⊢
      simp only [List.zip_cons_cons, List.filter_cons]
      cases hpr : p r
      · simp only [Bool.false_eq_true, ↓reduceIte, this]
      · simp only [↓reduceIte, List.map_cons, List.sum_cons, this, List.length_cons]; push_cast; ring

theorem toBM_ne_nil (p : Row → Bool) (rows : List Row) (hp : List Int) (hl : hp.length = rows.length)
    (hne : rows.filter p ≠ []) : toBM p rows hp ≠ [] := by
  intro h
  have := totalW_toBM p rows hp hl
  rw [h] at this
  simp [BaseMetrics.totalW] at this
  exact hne (List.eq_nil_of_length_eq_zero (by exact_mod_cast this.symm))

theorem filter_length_cons_cast (q : Row → Bool) (r : Row) (rs : List Row) :
    (((r :: rs).filter q).length : Rat) = ind (q r) + ((rs.filter q).length : Rat) := by
  cases h : q r <;> simp [h, ind]; ring

theorem dot_ind_sel (p : Row → Bool) (rows : List Row) (hp : List Int) :
    dot (rows.map (fun r => ind (p r))) (hp.map (fun x => ind (x == 1)))
      = (List.zipWith (fun r x => ind (p r && x == 1)) rows hp).sum := by
  induction rows generalizing hp with
  | nil => simp
  | cons r rs ih =>
    cases hp with
    | nil => simp
    | cons x xs => simp only [List.map_cons, dot_cons, ih xs, List.zipWith_cons_cons, List.sum_cons, ind_mul]

theorem selectionRate_toBM (p : Row → Bool) (rows : List Row) (hp : List Int) (hl : hp.length = rows.length)
    (hne : rows.filter p ≠ []) :
    BaseMetrics.selectionRate (toBM p rows hp) 1 = .ok (meanOn p rows (hp.map (fun x => ind (x == 1)))) := by
  have h1 := toBM_ne_nil p rows hp hl hne
  unfold BaseMetrics.selectionRate
  have : (toBM p rows hp).isEmpty = false := by
    cases h : toBM p rows hp with
    | nil => exact absurd h h1
    | cons _ _ => rfl
  simp only [this, Bool.false_eq_true, if_false]
  congr 1
  rw [wsum_toBM _ p rows hp hl, totalW_toBM p rows hp hl]
  unfold meanOn
  rw [dot_ind_sel]

theorem condRate_toBM (P : Row → Bool) (rows : List Row) (hp : List Int) (c : Int)
    (hl : hp.length = rows.length) (hh : ∀ x ∈ hp, x = 0 ∨ x = 1)
    (hne : rows.filter (fun r => P r && r.y == c) ≠ []) :
    meanOn (fun r => P r && r.y == c) rows (hp.map (fun x => ind (x == 1))) = condRate c (toBM P rows hp) := by
  unfold condRate BaseMetrics.cell BaseMetrics.rowTot BaseMetrics.cell
  rw [wsum_toBM _ P rows hp hl, wsum_toBM _ P rows hp hl]
  have hden : (List.zipWith (fun r x => ind (P r && (r.y == c && x == 0))) rows hp).sum
        + (List.zipWith (fun r x => ind (P r && (r.y == c && x == 1))) rows hp).sum
      = ((rows.filter (fun r => P r && r.y == c)).length : Rat) := by
    clear hne
    have hterm : ∀ (r : Row) (x : Int), (x = 0 ∨ x = 1) →
        ind (P r && (r.y == c && x == 0)) + ind (P r && (r.y == c && x == 1)) = ind (P r && r.y == c) := by
      intro r x hx
      rcases hx with rfl | rfl <;> cases P r <;> cases (r.y == c) <;> simp [ind]
    induction rows generalizing hp with
    | nil => simp
    | cons r rs ih =>
      cases hp with
      | nil => simp at hl
      | cons x xs =>
        simp only [List.length_cons, Nat.add_right_cancel_iff] at hl
        have := ih xs hl (fun y hy => hh y (by simp [hy]))
        have ht := hterm r x (hh x (by simp))
        rw [filter_length_cons_cast]
        simp only [List.zipWith_cons_cons, List.sum_cons]
        linarith
  have hpos : ((rows.filter (fun r => P r && r.y == c)).length : Rat) ≠ 0 := by
    have := List.length_pos_of_ne_nil hne
    exact_mod_cast this.ne'
  simp only [hden]
  unfold BaseMetrics.ratio meanOn
  rw [if_neg hpos, dot_ind_sel]
  congr 3
  funext r x
  rw [Bool.and_assoc]

/-! ### error rate (ErrorRateParity) -/

/-- unit-weight misclassification rate of `BaseMetrics` rows -/
def errRateBM (bm : List BaseMetrics.Row) : Rat :=
  BaseMetrics.wsum (fun b => b.yt != b.yp) bm / BaseMetrics.totalW bm

theorem dot_ind_erp (p : Row → Bool) (rows : List Row) (hp : List Int)
    (hy : ∀ r ∈ rows, r.y = 0 ∨ r.y = 1) (hh : ∀ x ∈ hp, x = 0 ∨ x = 1) :
    dot (rows.map (fun r => ind (p r))) (predOf erpUtil rows (hp.map (fun x => ind (x == 1))))
      = (List.zipWith (fun r x => ind (p r && (r.y != x))) rows hp).sum := by
  unfold predOf
  induction rows generalizing hp with
  | nil => simp
  | cons r rs ih =>
    cases hp with
    | nil => simp
    | cons x xs =>
      have := ih xs (fun r hr => hy r (by simp [hr])) (fun y hy' => hh y (by simp [hy']))
      simp only [List.map_cons, List.zipWith_cons_cons, dot_cons, List.sum_cons, this]
      congr 1
      simp only [MomentsSrc.predOf, Util.ud, erpUtil, MomentsSrc.utilDiff, MomentsSrc.erpU0, MomentsSrc.erpU1]
      rcases hy r (by simp) with h0 | h0 <;> rcases hh x (by simp) with rfl | rfl <;> cases p r <;>
        simp [h0, ind]

theorem errRate_toBM (p : Row → Bool) (rows : List Row) (hp : List Int) (hl : hp.length = rows.length)
    (hy : ∀ r ∈ rows, r.y = 0 ∨ r.y = 1) (hh : ∀ x ∈ hp, x = 0 ∨ x = 1) :
    meanOn p rows (predOf erpUtil rows (hp.map (fun x => ind (x == 1)))) = errRateBM (toBM p rows hp) := by
  unfold meanOn errRateBM
  rw [dot_ind_erp p rows hp hy hh, wsum_toBM _ p rows hp hl, totalW_toBM p rows hp hl]

/-! ### events within a control stratum -/

theorem ctrlFormat_inj (c c' e : String) (h : MomentsSrc.ctrlFormat c e = MomentsSrc.ctrlFormat c' e) : c = c' := by
  unfold MomentsSrc.ctrlFormat at h
  have h2 := congrArg String.toList h
  simp only [String.toList_append] at h2
  have h3 := List.append_cancel_right (List.append_cancel_right h2)
  have h4 := List.append_cancel_right h3
  have h5 := List.append_cancel_left h4
  exact String.toList_inj.mp h5

theorem ctrlFormat_ne_self (c e : String) : e ≠ MomentsSrc.ctrlFormat c e := by
  intro h
  unfold MomentsSrc.ctrlFormat at h
  have h2 := congrArg (fun s => s.toList.length) h
  simp only [String.toList_append, List.length_append] at h2
  have : (0 : Nat) < ("control=" : String).toList.length := by decide
  omega

/-- with control features, the event `control=c0,<e0>` of a moment that conditions on label `lab` selects
    exactly the rows of stratum `c0` with that label -/
theorem inE_stratum (k : Kind) (lab : Int) (e0 c0 : String) (r : Row)
    (hbase : baseEvent k r = if r.y = lab then some e0 else none) :
    inE (eventOf k) (MomentsSrc.ctrlFormat c0 e0) r = ((r.c == some c0) && (r.y == lab)) := by
  unfold inE eventOf
  rw [hbase]
  cases hc : r.c with
  | none =>
    by_cases hy : r.y = lab
    · simp [hy, (ctrlFormat_ne_self c0 e0)]
    · simp [hy]
  | some c =>
    by_cases hy : r.y = lab
    · simp only [hy, if_true, beq_self_eq_true, Bool.and_true]
      by_cases hcc : c = c0
      · subst hcc; simp
      · have : MomentsSrc.ctrlFormat c e0 ≠ MomentsSrc.ctrlFormat c0 e0 := fun h => hcc (ctrlFormat_inj _ _ _ h)
        simp [this, hcc]
    · simp [hy]

end Moments
