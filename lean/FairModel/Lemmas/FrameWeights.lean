/-
Weight = multiplicity at the level of the full MetricFrame model (`Model/Frame.lean`): any number of
sensitive / control features, re-indexing, and an ARBITRARY row payload — so a metric with SEVERAL
per-sample parameters is covered: replicating a row replicates all of its parameters with it.
-/
import FairModel.Lemmas.Frame

namespace Frame

variable {α β κ : Type}

/-- strictly increasing lists with the same members are equal -/
theorem sorted_ext_gen [LT κ] (asymm : ∀ a b : κ, a < b → b < a → False) :
    ∀ (a b : List κ), a.Pairwise (· < ·) → b.Pairwise (· < ·) → (∀ x, x ∈ a ↔ x ∈ b) → a = b
  | [], [], _, _, _ => rfl
  | [], y :: ys, _, _, h => by have := (h y).mpr (by simp); simp at this
  | x :: xs, [], _, _, h => by have := (h x).mp (by simp); simp at this
  | x :: xs, y :: ys, ha, hb, h => by
    rw [List.pairwise_cons] at ha hb
    have hxy : x = y := by
      have h1 := (h x).mp (by simp)
      have h2 := (h y).mpr (by simp)
      rcases List.mem_cons.mp h1 with e | m1
      · exact e
      · rcases List.mem_cons.mp h2 with e | m2
        · exact e.symm
        · exact (asymm _ _ (hb.1 x m1) (ha.1 y m2)).elim
    subst hxy
    congr 1
    apply sorted_ext_gen asymm xs ys ha.2 hb.2
    intro z
    constructor
    · intro hz
      have := (h z).mp (by simp [hz])
      rcases List.mem_cons.mp this with e | m
      · subst e; exact (asymm _ _ (ha.1 z hz) (ha.1 z hz)).elim
      · exact m
    · intro hz
      have := (h z).mpr (by simp [hz])
      rcases List.mem_cons.mp this with e | m
      · subst e; exact (asymm _ _ (hb.1 z hz) (hb.1 z hz)).elim
      · exact m

theorem level_asymm (a b : Level) : a < b → b < a → False :=
  fun h1 h2 => String.lt_irrefl a (String.lt_trans h1 h2)

theorem key_asymm (a b : Key) : a < b → b < a → False := by
  intro h1 h2
  have h := key_trans a b a h1 h2
  exact List.lt_irrefl a h

theorem uniq_congr_level (a b : List Level) (h : ∀ x, x ∈ a ↔ x ∈ b) : uniq a = uniq b :=
  sorted_ext_gen level_asymm _ _ (pairwise_uniq level_trans level_tri a) (pairwise_uniq level_trans level_tri b)
    (fun x => by rw [mem_uniq, mem_uniq]; exact h x)

theorem uniq_congr_key (a b : List Key) (h : ∀ x, x ∈ a ↔ x ∈ b) : uniq a = uniq b :=
  sorted_ext_gen key_asymm _ _ (pairwise_uniq key_trans key_tri a) (pairwise_uniq key_trans key_tri b)
    (fun x => by rw [mem_uniq, mem_uniq]; exact h x)

/-! ### weighted vs. physically replicated rows -/

/-- multiplicity `k` written into the payload (`wt a k` = "row `a` with sample weight `k`") -/
def weightedRows (wt : α → Nat → α) (rows : List (Row α × Nat)) : List (Row α) :=
  rows.map (fun p => { p.1 with dat := wt p.1.dat p.2 })

/-- every row repeated `k` times with unit weight — all other per-sample parameters travel with it -/
def replicatedRows (wt : α → Nat → α) (rows : List (Row α × Nat)) : List (Row α) :=
  rows.flatMap (fun p => List.replicate p.2 { p.1 with dat := wt p.1.dat 1 })

/-- the metric treats an integer weight as a multiplicity on every slice -/
def WeightMult (wt : α → Nat → α) (f : List α → β) : Prop :=
  ∀ l : List (α × Nat), (∀ p ∈ l, 1 ≤ p.2) →
    f (l.map (fun p => wt p.1 p.2)) = f (l.flatMap (fun p => List.replicate p.2 (wt p.1 1)))

/-- the index tuple does not look at the payload -/
def KeyIgnoresDat (kf : Row α → Key) : Prop := ∀ (r : Row α) (d : α), kf ⟨d, r.cf, r.sf⟩ = kf r

theorem keyIgnoresDat_key : KeyIgnoresDat (Row.key (α := α)) := fun _ _ => rfl
theorem keyIgnoresDat_ckey : KeyIgnoresDat (Row.ckey (α := α)) := fun _ _ => rfl

theorem mem_keys_weighted (wt : α → Nat → α) (kf : Row α → Key) (hkf : KeyIgnoresDat kf)
    (rows : List (Row α × Nat)) (k : Key) :
    k ∈ (weightedRows wt rows).map kf ↔ ∃ p ∈ rows, kf p.1 = k := by
  simp only [weightedRows, List.map_map, List.mem_map, Function.comp, hkf _ _]

theorem mem_keys_replicated (wt : α → Nat → α) (kf : Row α → Key) (hkf : KeyIgnoresDat kf)
    (rows : List (Row α × Nat)) (hk : ∀ p ∈ rows, 1 ≤ p.2) (k : Key) :
    k ∈ (replicatedRows wt rows).map kf ↔ ∃ p ∈ rows, kf p.1 = k := by
  simp only [replicatedRows, List.mem_map, List.mem_flatMap, List.mem_replicate]
  constructor
  · rintro ⟨r, ⟨p, hp, _, rfl⟩, rfl⟩
    exact ⟨p, hp, (hkf _ _).symm⟩
  · rintro ⟨p, hp, rfl⟩
    exact ⟨_, ⟨p, hp, by have := hk p hp; omega, rfl⟩, hkf _ _⟩

theorem rowsOf_weighted (wt : α → Nat → α) (kf : Row α → Key) (hkf : KeyIgnoresDat kf)
    (rows : List (Row α × Nat)) (k : Key) :
    rowsOf kf k (weightedRows wt rows) = weightedRows wt (rows.filter (fun p => kf p.1 == k)) := by
  simp only [rowsOf, weightedRows, List.filter_map]
  congr 1
  apply List.filter_congr
  intro p _
  simp [Function.comp, hkf _ _]

theorem rowsOf_replicated (wt : α → Nat → α) (kf : Row α → Key) (hkf : KeyIgnoresDat kf)
    (rows : List (Row α × Nat)) (k : Key) :
    rowsOf kf k (replicatedRows wt rows) = replicatedRows wt (rows.filter (fun p => kf p.1 == k)) := by
  induction rows with
  | nil => rfl
  | cons p ps ih =>
    simp only [rowsOf, replicatedRows, List.flatMap_cons, List.filter_append] at ih ⊢
    rw [ih]
    by_cases h : kf p.1 = k
    · have h' : (kf p.1 == k) = true := by simpa using h
      simp only [List.filter_cons, h', if_true, List.flatMap_cons]
      congr 1
      rw [List.filter_eq_self]
      intro r hr
      rw [List.mem_replicate] at hr
      rw [hr.2, hkf]; simpa using h
    · have h' : (kf p.1 == k) = false := by simpa using h
      simp only [List.filter_cons, h', Bool.false_eq_true, if_false]
      rw [List.filter_eq_nil_iff.mpr, List.nil_append]
      intro r hr
      rw [List.mem_replicate] at hr
      rw [hr.2, hkf]; simpa using h

theorem slice_weighted (wt : α → Nat → α) (rows : List (Row α × Nat)) :
    slice (weightedRows wt rows) = (rows.map (fun p => (p.1.dat, p.2))).map (fun p => wt p.1 p.2) := by
  simp [slice, weightedRows, List.map_map, Function.comp_def]

theorem slice_replicated (wt : α → Nat → α) (rows : List (Row α × Nat)) :
    slice (replicatedRows wt rows) =
      (rows.map (fun p => (p.1.dat, p.2))).flatMap (fun p => List.replicate p.2 (wt p.1 1)) := by
  simp [slice, replicatedRows, List.map_flatMap, List.flatMap_map, List.map_replicate]

/-- on every subset of the rows the metric cannot tell weights from copies -/
theorem f_slice_eq (wt : α → Nat → α) (f : List α → β) (hf : WeightMult wt f)
    (rows : List (Row α × Nat)) (hk : ∀ p ∈ rows, 1 ≤ p.2) :
    f (slice (weightedRows wt rows)) = f (slice (replicatedRows wt rows)) := by
  rw [slice_weighted, slice_replicated]
  apply hf
  intro p hp
  simp only [List.mem_map] at hp
  obtain ⟨q, hq, rfl⟩ := hp
  exact hk q hq

/-- **`_apply_functions` cannot tell integer weights from physical copies**: same index (incl. the
    re-indexed empty combinations) and same value in every cell, for any grouping columns, any payload
    (any number of per-sample parameters) and any metric that is weight-multiplicative on slices. -/
theorem applyFunctions_weight_mult (nanv : β) (wt : α → Nat → α) (kf : Row α → Key)
    (hkf : KeyIgnoresDat kf) (n : Nat) (f : List α → β) (hf : WeightMult wt f)
    (rows : List (Row α × Nat)) (hk : ∀ p ∈ rows, 1 ≤ p.2) :
    applyFunctions nanv kf n f (weightedRows wt rows) = applyFunctions nanv kf n f (replicatedRows wt rows) := by
  have hkeys : ∀ k, k ∈ (weightedRows wt rows).map kf ↔ k ∈ (replicatedRows wt rows).map kf := by
    intro k; rw [mem_keys_weighted wt kf hkf, mem_keys_replicated wt kf hkf rows hk]
  have hgrouped : grouped kf f (weightedRows wt rows) = grouped kf f (replicatedRows wt rows) := by
    unfold grouped
    rw [uniq_congr_key _ _ hkeys]
    apply List.map_congr_left
    intro k _
    rw [rowsOf_weighted wt kf hkf, rowsOf_replicated wt kf hkf]
    rw [f_slice_eq wt f hf _ (fun p hp => hk p (List.mem_filter.mp hp).1)]
  have hlevels : levels kf n (weightedRows wt rows) = levels kf n (replicatedRows wt rows) := by
    unfold levels
    apply List.map_congr_left
    intro j _
    apply uniq_congr_level
    intro a
    simp only [col, List.mem_map]
    constructor
    · rintro ⟨k, hk1, rfl⟩; exact ⟨k, List.mem_map.mp ((hkeys k).mp (List.mem_map.mpr hk1)), rfl⟩
    · rintro ⟨k, hk1, rfl⟩; exact ⟨k, List.mem_map.mp ((hkeys k).mpr (List.mem_map.mpr hk1)), rfl⟩
  unfold applyFunctions
  split
  · rw [f_slice_eq wt f hf rows hk]
  · dsimp only
    rw [hgrouped, hlevels]

end Frame
