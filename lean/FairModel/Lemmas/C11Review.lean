/-
Helper lemmas added by the review of C11 (sample weights mean multiplicity):
  * the four confusion-matrix RATES of the metric pool are weight-multiplicative on slices
    (`Frame.WeightMult`), so the whole-MetricFrame statement covers them for any number of sensitive /
    control features (before the review only the weighted means and `a . ids` were covered there; the
    rates only in the one-feature model `Model/Weights.lean`);
  * `_apply_functions` is invariant under any row-wise change of the payload the metric cannot see
    (`applyFunctions_mapDat`) — instantiated with "multiply the weight by c > 0" for the pool's rates and
    weighted means (IEEE quotient `quot`, so a zero total weight is NaN/±inf on both sides, not Lean's 0).
-/
import FairModel.Lemmas.Weights
import FairModel.Lemmas.PoolWeights

namespace Frame
variable {α β : Type}

/-- change the payload of every row, keep its feature values -/
def mapDat (g : α → α) (rows : List (Row α)) : List (Row α) := rows.map (fun r => ⟨g r.dat, r.cf, r.sf⟩)

theorem applyFunctions_mapDat (nanv : β) (kf : Row α → Key) (hkf : KeyIgnoresDat kf) (n : Nat)
    (f : List α → β) (g : α → α) (hf : ∀ l, f (l.map g) = f l) (rows : List (Row α)) :
    applyFunctions nanv kf n f (mapDat g rows) = applyFunctions nanv kf n f rows := by
  have hkeys : (mapDat g rows).map kf = rows.map kf := by
    simp only [mapDat, List.map_map]
    apply List.map_congr_left
    intro r _
    exact hkf r (g r.dat)
  have hrows : ∀ k, rowsOf kf k (mapDat g rows) = mapDat g (rowsOf kf k rows) := by
    intro k
    simp only [rowsOf, mapDat, List.filter_map]
    congr 1
    apply List.filter_congr
    intro r _
    simp only [Function.comp]
    rw [hkf r (g r.dat)]
  have hslice : ∀ rs : List (Row α), slice (mapDat g rs) = (slice rs).map g := by
    intro rs; simp [slice, mapDat, List.map_map, Function.comp_def]
  have hgrouped : grouped kf f (mapDat g rows) = grouped kf f rows := by
    unfold grouped
    rw [hkeys]
    apply List.map_congr_left
    intro k _
    rw [hrows, hslice, hf]
  have hlevels : levels kf n (mapDat g rows) = levels kf n rows := by
    unfold levels; rw [hkeys]
  simp only [applyFunctions, hgrouped, hlevels, hslice, hf]

end Frame

namespace MetricPool
open Frame

theorem isIntLabel_wtDat (d : Dat) (k : Nat) : isIntLabel (wtDat d k) = isIntLabel d := rfl

theorem all_isIntLabel_weight (l : List (Dat × Nat)) (hk : ∀ p ∈ l, 1 ≤ p.2) :
    (l.flatMap (fun p => List.replicate p.2 (wtDat p.1 1))).all isIntLabel =
      (l.map (fun p => wtDat p.1 p.2)).all isIntLabel := by
  rw [Bool.eq_iff_iff]
  simp only [List.all_eq_true, List.mem_flatMap, List.mem_replicate, List.mem_map]
  constructor
  · rintro h x ⟨p, hp, rfl⟩
    have h1 : p.2 ≠ 0 := by have := hk p hp; omega
    have := h (wtDat p.1 1) ⟨p, hp, h1, rfl⟩
    rw [isIntLabel_wtDat] at this ⊢; exact this
  · rintro h x ⟨p, hp, _, rfl⟩
    have := h (wtDat p.1 p.2) ⟨p, hp, rfl⟩
    rw [isIntLabel_wtDat] at this ⊢; exact this

theorem map_toBM_weighted (l : List (Dat × Nat)) :
    (l.map (fun p => wtDat p.1 p.2)).map toBM = BaseMetrics.weighted (l.map (fun p => (toBM p.1, p.2))) := by
  simp [BaseMetrics.weighted, toBM, wtDat, List.map_map, Function.comp_def]

theorem map_toBM_replicated (l : List (Dat × Nat)) :
    (l.flatMap (fun p => List.replicate p.2 (wtDat p.1 1))).map toBM =
      BaseMetrics.replicate (l.map (fun p => (toBM p.1, p.2))) := by
  simp [BaseMetrics.replicate, toBM, wtDat, List.map_flatMap, List.flatMap_map, List.map_replicate]

/-- the four rates of the pool (label handling of `_get_labels_for_confusion_matrix` included) cannot tell
    an integer weight from that many copies of the row, on any slice -/
theorem rateCell_weight_mult (k : BaseMetrics.Kind) : WeightMult wtDat (rateCell k) := by
  intro l hk
  have hpm : BaseMetrics.PosMult (l.map (fun p => (toBM p.1, p.2))) := by
    intro q hq
    simp only [List.mem_map] at hq
    obtain ⟨p, hp, rfl⟩ := hq
    exact hk p hp
  unfold rateCell
  rw [all_isIntLabel_weight l hk, map_toBM_weighted, map_toBM_replicated,
    BaseMetrics.rate_replicate k _ hpm none]

theorem eval_weight_mult_rate (m : Metric) (hm : m = .tpr ∨ m = .fpr ∨ m = .tnr ∨ m = .fnr) :
    WeightMult wtDat (eval m) := by
  rcases hm with rfl | rfl | rfl | rfl <;> exact rateCell_weight_mult _

/-! ### multiplying the weight parameter by c > 0 -/

/-- "row `d` with its sample weight multiplied by `c`" -/
def scDat (c : Rat) (d : Dat) : Dat := { d with p0 := c * d.p0 }

theorem quot_scale (c n d : Rat) (hc : 0 < c) : quot (c * n) (c * d) = quot n d := by
  have hc' : c ≠ 0 := ne_of_gt hc
  unfold quot
  simp only [XR.div]
  by_cases hd : d = 0
  · subst hd
    by_cases hn : n = 0
    · subst hn; simp
    · have h1 : c * n ≠ 0 := mul_ne_zero hc' hn
      simp [h1, hn, mul_pos_iff_of_pos_left hc]
  · have h2 : c * d ≠ 0 := mul_ne_zero hc' hd
    simp only [h2, hd, if_false]
    rw [mul_div_mul_left _ _ hc']

theorem sumBy_scale (g : Dat → Rat) (c : Rat) (hg : ∀ d, g (scDat c d) = c * g d) (l : List Dat) :
    sumBy g (l.map (scDat c)) = c * sumBy g l := by
  induction l with
  | nil => simp [sumBy]
  | cons d ds ih =>
    simp only [sumBy, List.map_cons, List.sum_cons] at ih ⊢
    rw [ih, hg]; ring

theorem rateCell_scale (k : BaseMetrics.Kind) (c : Rat) (hc : 0 < c) (l : List Dat) :
    rateCell k (l.map (scDat c)) = rateCell k l := by
  have h1 : (l.map (scDat c)).all isIntLabel = l.all isIntLabel := by
    rw [List.all_map]; rfl
  have h2 : (l.map (scDat c)).map toBM = BaseMetrics.scale c (l.map toBM) := by
    simp [BaseMetrics.scale, toBM, scDat, List.map_map, Function.comp_def]
  unfold rateCell
  rw [h1, h2, BaseMetrics.rate_scale k c (ne_of_gt hc)]

/-- the pool's rates and weighted means are unchanged when every weight is multiplied by c > 0 -/
theorem eval_scale_inv (m : Metric)
    (hm : m = .tpr ∨ m = .fpr ∨ m = .tnr ∨ m = .fnr ∨ m = .selrate ∨ m = .meanpred ∨ m = .accuracy ∨
          m = .meanerr ∨ m = .zeroOne ∨ m = .mae ∨ m = .mse)
    (c : Rat) (hc : 0 < c) (l : List Dat) : eval m (l.map (scDat c)) = eval m l := by
  have hden := sumBy_scale (·.p0) c (fun d => rfl) l
  rcases hm with rfl | rfl | rfl | rfl | rfl | rfl | rfl | rfl | rfl | rfl | rfl
  · exact rateCell_scale _ c hc l
  · exact rateCell_scale _ c hc l
  · exact rateCell_scale _ c hc l
  · exact rateCell_scale _ c hc l
  · have he : (l.map (scDat c)).isEmpty = l.isEmpty := by cases l <;> rfl
    simp only [eval, selRateCell, he]
    rw [hden, sumBy_scale _ c (fun d => by by_cases h : d.pred = 1 <;> simp [scDat, h]) l, quot_scale _ _ _ hc]
  · simp only [eval]
    rw [hden, sumBy_scale _ c (fun d => by simp [scDat]; ring) l, quot_scale _ _ _ hc]
  · simp only [eval]
    rw [hden, sumBy_scale _ c (fun d => by by_cases h : d.y = d.pred <;> simp [scDat, h]) l, quot_scale _ _ _ hc]
  · simp only [eval]
    rw [hden, sumBy_scale _ c (fun d => by simp [scDat]; ring) l, quot_scale _ _ _ hc]
  · simp only [eval]
    rw [hden, sumBy_scale _ c (fun d => by by_cases h : d.y = d.pred <;> simp [scDat, h]) l, quot_scale _ _ _ hc]
  · simp only [eval]
    rw [hden, sumBy_scale _ c (fun d => by simp only [scDat]; ring_nf) l, quot_scale _ _ _ hc]
  · simp only [eval]
    rw [hden, sumBy_scale _ c (fun d => by simp [scDat]; ring) l, quot_scale _ _ _ hc]

end MetricPool
