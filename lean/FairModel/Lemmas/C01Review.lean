/-
Helper lemmas added by review R3 for C01:
  * the WHOLE result table of `_apply_functions` as one list equation (index = `product` of the per-column
    levels over ALL rows, also for a single grouping column; value of every entry),
  * `FrameMulti.mkRows`: the payload of row `j` is `j`, the row numbers of a cell are the positions (in the
    original order) of the feature rows equal to the index tuple, all of them `< n`,
  * slicing WITHOUT a default (`sliceAt`): on row numbers `< length` the `getD _ 0` of `sliceDF` / `ownKwargs`
    is never taken; on a too short column it IS taken (`getD_pads_short_column`, the totalisation artefact —
    real MetricFrame raises ValueError there).
-/
import FairModel.Lemmas.FrameMulti

namespace Frame

variable {α β : Type}

/-! ### `uniq` commutes with an order-embedding -/

section uniqmap
variable {κ κ' : Type} [LT κ] [DecidableLT κ] [DecidableEq κ] [LT κ'] [DecidableLT κ'] [DecidableEq κ']

omit [DecidableEq κ] [DecidableEq κ'] in
theorem ins_map (g : κ → κ') (hlt : ∀ a b, g a < g b ↔ a < b) (a : κ) (l : List κ) :
    ins (g a) (l.map g) = (ins a l).map g := by
  induction l with
  | nil => rfl
  | cons b l ih =>
    simp only [List.map_cons, ins]
    by_cases h : a < b
    · rw [if_pos h, if_pos ((hlt a b).mpr h)]; rfl
    · rw [if_neg h, if_neg (fun h' => h ((hlt a b).mp h')), ih]; rfl

theorem uniq_map (g : κ → κ') (hinj : ∀ a b, g a = g b → a = b) (hlt : ∀ a b, g a < g b ↔ a < b)
    (l : List κ) : uniq (l.map g) = (uniq l).map g := by
  induction l with
  | nil => rfl
  | cons a l ih =>
    have h1 : uniq (g a :: l.map g) =
        if g a ∈ uniq (l.map g) then uniq (l.map g) else ins (g a) (uniq (l.map g)) := rfl
    have h2 : uniq (a :: l) = if a ∈ uniq l then uniq l else ins a (uniq l) := rfl
    rw [List.map_cons, h1, h2, ih]
    have hmem : g a ∈ (uniq l).map g ↔ a ∈ uniq l := by
      rw [List.mem_map]
      constructor
      · rintro ⟨b, hb, he⟩; rw [← hinj b a he]; exact hb
      · intro h; exact ⟨a, h, rfl⟩
    by_cases h : a ∈ uniq l
    · rw [if_pos h, if_pos (hmem.mpr h)]
    · rw [if_neg h, if_neg (fun h' => h (hmem.mp h')), ins_map g hlt]

end uniqmap

theorem singleton_lt (a b : Level) : ([a] : Key) < [b] ↔ a < b := by
  rw [List.cons_lt_cons_iff]
  constructor
  · rintro (h | ⟨_, h⟩)
    · exact h
    · exact absurd h (by simp)
  · exact Or.inl

theorem product_single (l : List Level) : product [l] = l.map (fun a => [a]) := by
  simp only [product, List.map_cons, List.map_nil]
  induction l with
  | nil => rfl
  | cons a l ih => simp [ih]

/-- one grouping column: the observed tuples are the product of the one list of levels -/
theorem uniq_keys_single (kf : Row α → Key) (rows : List (Row α)) (hlen : ∀ r ∈ rows, (kf r).length = 1) :
    uniq (rows.map kf) = product (levels kf 1 rows) := by
  have hk : rows.map kf = (col 0 (rows.map kf)).map (fun a => [a]) := by
    simp only [col, List.map_map]
    apply List.map_congr_left
    intro r hr
    have := hlen r hr
    match h : kf r, this with
    | [a], _ => simp [h]
  have hl : levels kf 1 rows = [uniq (col 0 (rows.map kf))] := by simp [levels]
  rw [hl, product_single, ← uniq_map (fun a : Level => ([a] : Key)) (fun a b h => by simpa using h) singleton_lt, ← hk]

/-- THE WHOLE TABLE, one equation.  With `n ≥ 1` grouping columns the result of `_apply_functions` is, entry
    by entry and in this order, the Cartesian product of the sorted distinct values of each grouping column
    (each taken over ALL rows) paired with: the metric on exactly the rows carrying that tuple, or NaN when
    there is none.  Nothing else is in the table and nothing of it is missing. -/
theorem applyFunctions_eq_table (nanv : β) (kf : Row α → Key) (n : Nat) (hn : 0 < n) (f : List α → β)
    (rows : List (Row α)) (hlen : ∀ r ∈ rows, (kf r).length = n) :
    applyFunctions nanv kf n f rows =
      (product (levels kf n rows)).map (fun k =>
        (k, if rowsOf kf k rows = [] then nanv else f (slice (rowsOf kf k rows)))) := by
  unfold applyFunctions
  rw [if_neg (by omega)]
  dsimp only
  split
  · simp only [reindex]
    apply List.map_congr_left
    intro k _
    rw [lookup_grouped]
    split <;> rfl
  · have hn1 : n = 1 := by omega
    subst hn1
    rw [← uniq_keys_single kf rows hlen]
    simp only [grouped]
    apply List.map_congr_left
    intro k hk
    have : ¬ rowsOf kf k rows = [] := by
      rw [rowsOf_eq_nil_iff]; simpa [mem_uniq] using hk
    rw [if_neg this]

/-- the levels of a column are the sorted distinct values that column takes on ANY row (not per stratum) -/
theorem mem_levels (kf : Row α → Key) (n : Nat) (rows : List (Row α)) (j : Nat) (hj : j < n) (a : Level) :
    a ∈ (levels kf n rows).getD j [] ↔ ∃ r ∈ rows, (kf r).getD j "" = a := by
  rw [levels, getD_map_range _ n j hj, mem_uniq]
  simp [col]

theorem levels_length (kf : Row α → Key) (n : Nat) (rows : List (Row α)) : (levels kf n rows).length = n := by
  simp [levels]

theorem product_length (ls : List (List Level)) : (product ls).length = (ls.map List.length).prod := by
  induction ls with
  | nil => rfl
  | cons l ls ih =>
    simp only [product, List.map_cons, List.prod_cons, List.length_flatMap, List.length_map, ih]
    induction l with
    | nil => simp
    | cons a l ihl => simp [Nat.succ_mul, Nat.add_comm]

end Frame

namespace FrameMulti
open Frame FramePrims

variable {γ : Type}

/-! ### `mkRows`: payload = row number -/

theorem mkRows_eq_zipIdx (feats : List (List Level × List Level)) :
    mkRows feats = feats.zipIdx.map (fun pj => ⟨pj.2, pj.1.1, pj.1.2⟩) := by
  apply List.ext_getElem
  · simp [mkRows]
  · intro i h1 h2
    simp only [mkRows, List.length_map, List.length_range] at h1
    simp [mkRows, List.getD_eq_getElem?_getD, h1]

theorem mkRows_wf (ncf nsf : Nat) (feats : List (List Level × List Level))
    (h : ∀ p ∈ feats, p.1.length = ncf ∧ p.2.length = nsf) : WF ncf nsf (mkRows feats) := by
  intro r hr
  rw [mkRows_eq_zipIdx, List.mem_map] at hr
  obtain ⟨⟨p, j⟩, hp, rfl⟩ := hr
  have hm := List.mem_zipIdx hp
  have : p ∈ feats := by rw [hm.2.2]; exact List.getElem_mem _
  exact h p this

theorem mkRows_noMissing (feats : List (List Level × List Level))
    (h : ∀ p ∈ feats, FramePrims.naLevel ∉ p.1 ∧ FramePrims.naLevel ∉ p.2) : FramePrims.NoMissing (mkRows feats) := by
  intro r hr
  rw [mkRows_eq_zipIdx, List.mem_map] at hr
  obtain ⟨⟨p, j⟩, hp, rfl⟩ := hr
  have hm := List.mem_zipIdx hp
  have : p ∈ feats := by rw [hm.2.2]; exact List.getElem_mem _
  exact h p this

/-- the row numbers (in the original order) of the feature rows equal to the index tuple `k` -/
def rowIdx (feats : List (List Level × List Level)) (k : Key) : List Nat :=
  (feats.zipIdx.filter (fun pj => pj.1.1 ++ pj.1.2 == k)).map (·.2)

/-- … and of the rows whose CONTROL part equals `c` -/
def rowIdxC (feats : List (List Level × List Level)) (c : Key) : List Nat :=
  (feats.zipIdx.filter (fun pj => pj.1.1 == c)).map (·.2)

theorem slice_rowsOf_mkRows (feats : List (List Level × List Level)) (k : Key) :
    slice (rowsOf Row.key k (mkRows feats)) = rowIdx feats k := by
  simp only [slice, rowsOf, rowIdx, mkRows_eq_zipIdx, List.filter_map, List.map_map]
  rfl

theorem slice_rowsOf_ckey_mkRows (feats : List (List Level × List Level)) (c : Key) :
    slice (rowsOf Row.ckey c (mkRows feats)) = rowIdxC feats c := by
  simp only [slice, rowsOf, rowIdxC, mkRows_eq_zipIdx, List.filter_map, List.map_map]
  rfl

theorem rowIdx_lt (feats : List (List Level × List Level)) (k : Key) :
    ∀ j ∈ rowIdx feats k, j < feats.length := by
  intro j hj
  simp only [rowIdx, List.mem_map, List.mem_filter] at hj
  obtain ⟨⟨p, i⟩, ⟨hp, _⟩, rfl⟩ := hj
  have := List.mem_zipIdx hp
  omega

theorem rowIdxC_lt (feats : List (List Level × List Level)) (c : Key) :
    ∀ j ∈ rowIdxC feats c, j < feats.length := by
  intro j hj
  simp only [rowIdxC, List.mem_map, List.mem_filter] at hj
  obtain ⟨⟨p, i⟩, ⟨hp, _⟩, rfl⟩ := hj
  have := List.mem_zipIdx hp
  omega

theorem rowIdx_eq_nil_iff (feats : List (List Level × List Level)) (k : Key) :
    rowIdx feats k = [] ↔ rowsOf Row.key k (mkRows feats) = [] := by
  rw [← slice_rowsOf_mkRows]; simp [slice]

theorem rowIdxC_eq_nil_iff (feats : List (List Level × List Level)) (c : Key) :
    rowIdxC feats c = [] ↔ rowsOf Row.ckey c (mkRows feats) = [] := by
  rw [← slice_rowsOf_ckey_mkRows]; simp [slice]

/-! ### slicing without a default -/

/-- `df[col]` of the slice with row numbers `idx`: positions outside the column are DROPPED (no default) -/
def sliceAt (v : List Rat) (idx : List Nat) : List Rat := idx.filterMap (fun j => v[j]?)

/-- on row numbers inside the column the `getD _ 0` of `sliceDF` / `ownKwargs` is never taken -/
theorem map_getD_eq_sliceAt (v : List Rat) (idx : List Nat) (h : ∀ j ∈ idx, j < v.length) :
    idx.map (fun j => v.getD j 0) = sliceAt v idx := by
  induction idx with
  | nil => rfl
  | cons j idx ih =>
    have hj : j < v.length := h j (by simp)
    have ih' := ih (fun i hi => h i (by simp [hi]))
    simp only [sliceAt, List.map_cons, List.filterMap_cons] at ih' ⊢
    rw [List.getElem?_eq_getElem hj]
    simp only [List.getD_eq_getElem?_getD, List.getElem?_eq_getElem hj, Option.getD_some]
    rw [← ih']
    simp [List.getD_eq_getElem?_getD]

theorem sliceAt_length (v : List Rat) (idx : List Nat) (h : ∀ j ∈ idx, j < v.length) :
    (sliceAt v idx).length = idx.length := by
  rw [← map_getD_eq_sliceAt v idx h]; simp

/-- every non-None sample parameter of `m` has one value per row (a Boolean the driver could evaluate; real
    MetricFrame raises ValueError "Length of values ... does not match length of index" otherwise) -/
def ParamsFull (n : Nat) (m : MetricSpec γ) : Prop :=
  m.params.all (fun p => match p.2 with | none => true | some v => v.length == n) = true

instance (n : Nat) (m : MetricSpec γ) : Decidable (ParamsFull n m) := by unfold ParamsFull; infer_instance

/-- the keyword arrays a metric must receive for the rows `idx`, WITHOUT a default -/
def ownKwargsAt (m : MetricSpec γ) (idx : List Nat) : List (String × List Rat) :=
  m.params.filterMap (fun p => p.2.map (fun v => (p.1, sliceAt v idx)))

theorem ownKwargs_eq_at (n : Nat) (m : MetricSpec γ) (hp : ParamsFull n m) (idx : List Nat)
    (h : ∀ j ∈ idx, j < n) : ownKwargs m idx = ownKwargsAt m idx := by
  unfold ownKwargs ownKwargsAt
  apply List.filterMap_congr
  intro p hpm
  cases hv : p.2 with
  | none => rfl
  | some v =>
    simp only [Option.map_some]
    have hl : v.length = n := by
      have := List.all_eq_true.mp hp p hpm
      simpa [hv] using this
    rw [map_getD_eq_sliceAt v idx (fun j hj => by rw [hl]; exact h j hj)]

/-! ### the rows the drivers build are well formed -/

theorem rowFeatures_spec (n : Nat) (cols : List (List Level)) (feats : List (List Level))
    (h : MetricPool.rowFeatures n cols = some feats) :
    feats.length = n ∧ ∀ fs ∈ feats, fs.length = cols.length := by
  unfold MetricPool.rowFeatures at h
  split at h
  · injection h with h
    subst h
    refine ⟨by simp, ?_⟩
    intro fs hfs
    simp only [List.mem_map] at hfs
    obtain ⟨i, _, rfl⟩ := hfs
    simp
  · cases h

/-- `fm.eval`: the rows handed to `byGroupFrame` / `overallFrame` satisfy the `WF` hypothesis of the theorems -/
theorem fm_rows_wf (n ncf : Nat) (cols : List (List Level)) (feats : List (List Level))
    (h : MetricPool.rowFeatures n cols = some feats) (hc : ncf ≤ cols.length) :
    WF ncf (cols.length - ncf) (mkRows (feats.map (fun fs => (fs.take ncf, fs.drop ncf)))) := by
  apply mkRows_wf
  intro p hp
  simp only [List.mem_map] at hp
  obtain ⟨fs, hfs, rfl⟩ := hp
  have hlen : fs.length = cols.length := (rowFeatures_spec n cols feats h).2 fs hfs
  refine ⟨?_, ?_⟩
  · show (fs.take ncf).length = ncf
    rw [List.length_take, hlen]; omega
  · show (fs.drop ncf).length = cols.length - ncf
    rw [List.length_drop, hlen]

/-- `frame.eval`: the rows handed to `byGroup` / `overall` satisfy `WF`, and there is one per input row -/
theorem frame_rows_wf (ncf : Nat) (ys ps p0 p1 : List Rat) (cols : List (List Level))
    (rows : List (Row MetricPool.Dat)) (h : MetricPool.mkRows ncf ys ps p0 p1 cols = some rows) :
    WF ncf (cols.length - ncf) rows ∧ rows.length = ys.length := by
  unfold MetricPool.mkRows at h
  simp only [bind, Option.bind] at h
  split at h
  · cases h
  · next hg =>
    simp only [Bool.or_eq_true, decide_eq_true_eq, not_or, Nat.not_lt] at hg
    split at h
    · cases h
    · next feats hfe =>
      simp only [pure, Option.some.injEq] at h
      subst h
      obtain ⟨hl, hfs⟩ := rowFeatures_spec _ _ _ hfe
      constructor
      · intro r hr
        simp only [List.mem_map] at hr
        obtain ⟨⟨d, fs⟩, hmem, rfl⟩ := hr
        have hlen : fs.length = cols.length := hfs fs (List.of_mem_zip hmem).2
        have hc : ncf ≤ cols.length := hg.2
        refine ⟨?_, ?_⟩
        · show (fs.take ncf).length = ncf
          rw [List.length_take, hlen]; omega
        · show (fs.drop ncf).length = cols.length - ncf
          rw [List.length_drop, hlen]
      · simp [List.length_zip, hl]
        omega

end FrameMulti
