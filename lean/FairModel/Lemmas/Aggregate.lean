import FairModel.Lemmas.XR
import FairModel.Lemmas.Frame
import FairModel.Model.Aggregate

/-! Per-stratum facts about the aggregates: `vs` is the list of group values of one control
stratum (NaN = empty group), `o` its overall value.  The grouping functions come from the
generated `AggregateSpec` (so these proofs are re-checked against the source on every run). -/

namespace Aggregate
open XR

theorem minSkip_eq_fin {l : List XR} (h : FinNan l) {m : Rat} (hm : minSkip l = fin m) :
    m ∈ fins l ∧ ∀ q ∈ fins l, m ≤ q := by
  rcases minSkip_spec h with ⟨_, hn⟩ | ⟨m', hm', hmem, hle⟩
  · rw [hn] at hm; cases hm
  · rw [hm'] at hm; cases hm; exact ⟨hmem, hle⟩

theorem maxSkip_eq_fin {l : List XR} (h : FinNan l) {m : Rat} (hm : maxSkip l = fin m) :
    m ∈ fins l ∧ ∀ q ∈ fins l, q ≤ m := by
  rcases maxSkip_spec h with ⟨_, hn⟩ | ⟨m', hm', hmem, hle⟩
  · rw [hn] at hm; cases hm
  · rw [hm'] at hm; cases hm; exact ⟨hmem, hle⟩

theorem minSkip_eq_nan {l : List XR} (h : FinNan l) (hm : minSkip l = nan) : fins l = [] := by
  rcases minSkip_spec h with ⟨h0, _⟩ | ⟨m', hm', _, _⟩
  · exact h0
  · rw [hm'] at hm; cases hm

theorem maxSkip_eq_nan {l : List XR} (h : FinNan l) (hm : maxSkip l = nan) : fins l = [] := by
  rcases maxSkip_spec h with ⟨h0, _⟩ | ⟨m', hm', _, _⟩
  · exact h0
  · rw [hm'] at hm; cases hm

/-- both are NaN together (no non-empty group) or both finite -/
theorem min_max_together {l : List XR} (h : FinNan l) :
    (minSkip l = nan ∧ maxSkip l = nan) ∨ (∃ m M, minSkip l = fin m ∧ maxSkip l = fin M ∧ m ≤ M) := by
  rcases minSkip_spec h with ⟨h0, hn⟩ | ⟨m, hm, hmem, _⟩
  · left
    refine ⟨hn, ?_⟩
    rcases maxSkip_spec h with ⟨_, hx⟩ | ⟨M, _, hM, _⟩
    · exact hx
    · rw [h0] at hM; simp at hM
  · right
    rcases maxSkip_spec h with ⟨h0, _⟩ | ⟨M, hM, _, hle⟩
    · rw [h0] at hmem; simp at hmem
    · exact ⟨m, M, hm, hM, hle m hmem⟩

/-- `diffOf` with a finite subtrahend, rewritten with `mapFin` -/
theorem diffOf_fin {vs : List XR} (h : FinNan vs) (s : Rat) :
    diffOf vs (fin s) = maxSkip (vs.map (mapFin (fun q => |q - s|))) := by
  unfold diffOf
  simp only [AggregateSpec.diffAgg, Grouping.apply]
  congr 1
  apply List.map_congr_left
  intro x hx
  exact abs_sub_fin x s (h x hx)

theorem diffOf_nan (vs : List XR) : diffOf vs nan = nan := by
  unfold diffOf
  simp only [AggregateSpec.diffAgg, Grouping.apply]
  induction vs with
  | nil => rfl
  | cons x l ih =>
    rw [List.map_cons, maxSkip_cons, abs_sub_nan, ih]; rfl

/-- difference to a finite reference value `s`: NaN iff there is no non-empty group, otherwise the
    largest `|v - s|`, attained by some group -/
theorem diffOf_spec {vs : List XR} (h : FinNan vs) (s : Rat) :
    (fins vs = [] ∧ diffOf vs (fin s) = nan) ∨
    (∃ D, diffOf vs (fin s) = fin D ∧ (∃ q ∈ fins vs, D = |q - s|) ∧ ∀ q ∈ fins vs, |q - s| ≤ D) := by
  rw [diffOf_fin h]
  have h' := finNan_map_mapFin (fun q => |q - s|) h
  have hf := fins_map_mapFin (fun q => |q - s|) h
  rcases maxSkip_spec h' with ⟨h0, hn⟩ | ⟨D, hD, hmem, hle⟩
  · left
    rw [hf] at h0
    exact ⟨by simpa using h0, hn⟩
  · right
    rw [hf] at hmem hle
    refine ⟨D, hD, ?_, ?_⟩
    · obtain ⟨q, hq, rfl⟩ := List.mem_map.mp hmem
      exact ⟨q, hq, rfl⟩
    · intro q hq
      exact hle _ (List.mem_map.mpr ⟨q, hq, rfl⟩)

/-- between_groups: the subtrahend is the group minimum, and the result is max - min -/
theorem diffOf_min {vs : List XR} (h : FinNan vs) {m M : Rat}
    (hm : minSkip vs = fin m) (hM : maxSkip vs = fin M) : diffOf vs (fin m) = fin (M - m) := by
  obtain ⟨hm1, hm2⟩ := minSkip_eq_fin h hm
  obtain ⟨hM1, hM2⟩ := maxSkip_eq_fin h hM
  rcases diffOf_spec h m with ⟨h0, _⟩ | ⟨D, hD, ⟨q, hq, hDq⟩, hle⟩
  · rw [h0] at hm1; simp at hm1
  · rw [hD]
    congr 1
    have h1 : |q - m| = q - m := abs_of_nonneg (by linarith [hm2 q hq])
    have h2 := hle M hM1
    have h3 : |M - m| = M - m := abs_of_nonneg (by linarith [hm2 M hM1])
    have h4 := hM2 q hq
    linarith

/-! ### ratios -/

/-- IEEE quotient of group minimum and maximum, all cases -/
theorem div_fin_fin (a b : Rat) :
    XR.div (fin a) (fin b) =
      if b = 0 then (if a = 0 then nan else if 0 < a then pinf else ninf) else fin (a / b) := rfl

/-- `ratio_sub_one` on every kind of argument -/
theorem ratioSubOne_fin (r : Rat) :
    AggregateSpec.ratioSubOne (fin r) = if 1 < r then fin (1 / r) else fin r := by
  unfold AggregateSpec.ratioSubOne
  by_cases h : 1 < r
  · have hr : r ≠ 0 := by linarith
    simp [XR.lt, h, XR.div, hr]
  · simp [XR.lt, h]

theorem ratioSubOne_pinf : AggregateSpec.ratioSubOne pinf = fin 0 := by decide +kernel
theorem ratioSubOne_ninf : AggregateSpec.ratioSubOne ninf = ninf := by decide +kernel
theorem ratioSubOne_nan : AggregateSpec.ratioSubOne nan = nan := by decide +kernel

/-- "at most one" on extended values (NaN = undefined is allowed) -/
def LeOne (x : XR) : Prop := x = nan ∨ x = ninf ∨ ∃ r, x = fin r ∧ r ≤ 1

theorem ratioSubOne_leOne (x : XR) : LeOne (AggregateSpec.ratioSubOne x) := by
  cases x with
  | nan => left; exact ratioSubOne_nan
  | ninf => right; left; exact ratioSubOne_ninf
  | pinf => right; right; exact ⟨0, ratioSubOne_pinf, by norm_num⟩
  | fin r =>
    right; right
    rw [ratioSubOne_fin]
    by_cases h : 1 < r
    · refine ⟨1 / r, by simp [h], ?_⟩
      rw [div_le_one (by linarith)]; linarith
    · exact ⟨r, by simp [h], not_lt.mp h⟩

theorem ratioOverallOf_leOne (vs : List XR) (o : XR) : LeOne (ratioOverallOf vs o) := by
  unfold ratioOverallOf
  simp only [AggregateSpec.ratioOverallAgg, Grouping.apply]
  rcases minSkip_mem (vs.map (fun v => AggregateSpec.ratioSubOne (XR.div v o))) with h | h
  · left; exact h
  · obtain ⟨v, _, hv⟩ := List.mem_map.mp h
    rw [← hv]; exact ratioSubOne_leOne _

/-- "non-negative" on extended values (NaN allowed) -/
def NonNeg (x : XR) : Prop := x = nan ∨ x = pinf ∨ ∃ r, x = fin r ∧ 0 ≤ r

theorem ratioSubOne_nonneg {x : XR} (hx : NonNeg x) : NonNeg (AggregateSpec.ratioSubOne x) := by
  rcases hx with rfl | rfl | ⟨r, rfl, hr⟩
  · left; exact ratioSubOne_nan
  · right; right; exact ⟨0, ratioSubOne_pinf, le_refl _⟩
  · right; right
    rw [ratioSubOne_fin]
    by_cases h : 1 < r
    · exact ⟨1 / r, by simp [h], by positivity⟩
    · exact ⟨r, by simp [h], hr⟩

theorem div_nonneg_fin {a b : Rat} (ha : 0 ≤ a) (hb : 0 ≤ b) : NonNeg (XR.div (fin a) (fin b)) := by
  rw [div_fin_fin]
  by_cases hb0 : b = 0
  · rw [if_pos hb0]
    by_cases ha0 : a = 0
    · left; simp [ha0]
    · right; left
      have : 0 < a := lt_of_le_of_ne ha (Ne.symm ha0)
      simp [ha0, this]
  · right; right
    exact ⟨a / b, by simp [hb0], div_nonneg ha hb⟩

theorem ratioOverallOf_nonneg {vs : List XR} (h : FinNan vs) (hv : ∀ q ∈ fins vs, 0 ≤ q) {o : Rat}
    (ho : 0 ≤ o) : NonNeg (ratioOverallOf vs (fin o)) := by
  unfold ratioOverallOf
  simp only [AggregateSpec.ratioOverallAgg, Grouping.apply]
  rcases minSkip_mem (vs.map (fun v => AggregateSpec.ratioSubOne (XR.div v (fin o)))) with h' | h'
  · left; exact h'
  · obtain ⟨v, hvm, hv'⟩ := List.mem_map.mp h'
    rw [← hv']
    apply ratioSubOne_nonneg
    rcases h v hvm with rfl | ⟨q, rfl⟩
    · left; rfl
    · exact div_nonneg_fin (hv q (mem_fins.mpr hvm)) ho

/-! ### table level: every aggregate at a stratum is the per-stratum function of `vals` / `overallAt` -/

/-- value of an aggregate result at stratum `c` (`none` = the call raised or has no such row) -/
def valueAt (r : Option (List (Frame.Key × XR))) (c : Frame.Key) : Option XR :=
  match r with
  | none => none
  | some tbl => tbl.lookup c

theorem lookup_strata (t : Tables) (g : Frame.Key → XR) {c : Frame.Key} (hc : c ∈ strata t) :
    ((strata t).map (fun c => (c, g c))).lookup c = some (g c) := by
  rw [Frame.lookup_map_self g (strata t) c, if_pos hc]

/-- all cells are scalars that are finite or NaN (no ±inf metric values, nothing non-scalar) -/
def FiniteCells (t : Tables) : Prop :=
  (∀ e ∈ t.byGroup, e.2 = .scalar nan ∨ ∃ q, e.2 = .scalar (fin q)) ∧
  (∀ e ∈ t.overall, e.2 = .scalar nan ∨ ∃ q, e.2 = .scalar (fin q))

theorem lookup_mem {κ β : Type} [BEq κ] [LawfulBEq κ] {l : List (κ × β)} {k : κ} {v : β}
    (h : l.lookup k = some v) : (k, v) ∈ l := by
  induction l with
  | nil => simp at h
  | cons a l ih =>
    obtain ⟨a1, a2⟩ := a
    rw [List.lookup_cons] at h
    by_cases hk : k = a1
    · subst hk; simp at h; subst h; simp
    · have : (k == a1) = false := by simpa using hk
      rw [this] at h
      exact List.mem_cons_of_mem _ (ih h)

theorem overallAt_finNan {t : Tables} (h : FiniteCells t) (c : Frame.Key) :
    overallAt t c = nan ∨ ∃ o, overallAt t c = fin o := by
  unfold overallAt
  split
  · next cell hl =>
    rcases h.2 _ (lookup_mem hl) with h' | ⟨q, h'⟩
    · left; simp only at h'; rw [h']; rfl
    · right; simp only at h'; exact ⟨q, by rw [h']; rfl⟩
  · left; rfl

theorem finNan_vals {t : Tables} (h : FiniteCells t) (c : Frame.Key) : FinNan (vals t c) := by
  intro x hx
  simp only [vals, List.mem_map, List.mem_filter] at hx
  obtain ⟨e, ⟨he, _⟩, rfl⟩ := hx
  rcases h.1 e he with h' | ⟨q, h'⟩
  · left; rw [h']; rfl
  · right; exact ⟨q, by rw [h']; rfl⟩

theorem applyGrouping_eq (g : Grouping) (e : Errors) (t : Tables)
    (h : e = .coerce ∨ hasNonscalar t = false) :
    applyGrouping g e t = some ((strata t).map (fun c => (c, g.apply (vals t c)))) := by
  unfold applyGrouping
  rw [if_neg]
  rintro ⟨h1, h2⟩
  rcases h with h | h
  · rw [h] at h1; cases h1
  · rw [h] at h2; cases h2

theorem groupMin_at (e : Errors) (t : Tables) (h : e = .coerce ∨ hasNonscalar t = false)
    {c : Frame.Key} (hc : c ∈ strata t) : valueAt (groupMin e t) c = some (minSkip (vals t c)) := by
  unfold groupMin
  rw [applyGrouping_eq _ e t h]
  exact lookup_strata t (fun c => minSkip (vals t c)) hc

theorem groupMax_at (e : Errors) (t : Tables) (h : e = .coerce ∨ hasNonscalar t = false)
    {c : Frame.Key} (hc : c ∈ strata t) : valueAt (groupMax e t) c = some (maxSkip (vals t c)) := by
  unfold groupMax
  rw [applyGrouping_eq _ e t h]
  exact lookup_strata t (fun c => maxSkip (vals t c)) hc

theorem difference_between_at (e : Errors) (t : Tables) (h : e = .coerce ∨ hasNonscalar t = false)
    {c : Frame.Key} (hc : c ∈ strata t) :
    valueAt (difference .between e t) c = some (diffOf (vals t c) (minSkip (vals t c))) := by
  unfold difference
  simp only [AggregateSpec.diffBetweenSubtrahend]
  rw [applyGrouping_eq _ e t h]
  simp only [valueAt]
  rw [lookup_strata t _ hc]
  simp only [Grouping.apply]
  rw [lookup_strata t (fun c => minSkip (vals t c)) hc]
  rfl

theorem difference_overall_at (e : Errors) (t : Tables) (h : hasNonscalar t = false)
    {c : Frame.Key} (hc : c ∈ strata t) :
    valueAt (difference .toOverall e t) c = some (diffOf (vals t c) (overallAt t c)) := by
  unfold difference
  simp only [h, Bool.false_eq_true, if_false, valueAt]
  exact lookup_strata t _ hc

theorem ratio_between_at (e : Errors) (t : Tables) (h : e = .coerce ∨ hasNonscalar t = false)
    {c : Frame.Key} (hc : c ∈ strata t) :
    valueAt (ratio .between e t) c = some (XR.div (minSkip (vals t c)) (maxSkip (vals t c))) := by
  unfold ratio
  simp only [AggregateSpec.ratioBetweenNum, AggregateSpec.ratioBetweenDen]
  rw [applyGrouping_eq _ e t h, applyGrouping_eq _ e t h]
  simp only [valueAt, List.map_map, Grouping.apply]
  have : ((fun x : Frame.Key × XR => (x.1, XR.div x.2
      ((((strata t).map (fun c => (c, maxSkip (vals t c)))).lookup x.1).getD nan))) ∘
      fun c => (c, minSkip (vals t c))) =
      fun c => (c, XR.div (minSkip (vals t c))
        ((((strata t).map (fun c => (c, maxSkip (vals t c)))).lookup c).getD nan)) := by
    funext c; rfl
  rw [this, lookup_strata t _ hc, lookup_strata t (fun c => maxSkip (vals t c)) hc]
  rfl

theorem ratio_overall_at (e : Errors) (t : Tables) (h : hasNonscalar t = false)
    {c : Frame.Key} (hc : c ∈ strata t) :
    valueAt (ratio .toOverall e t) c = some (ratioOverallOf (vals t c) (overallAt t c)) := by
  unfold ratio
  simp only [h, Bool.false_eq_true, if_false, valueAt]
  exact lookup_strata t _ hc

end Aggregate
