/-
Fit → predict: the pmf that `InterpolatedThresholder._pmf_predict` (model `Pmf.thrPositive`, over the expressions lifted from
the source) computes from the `interpolation_dict` stored by the fit is, on every row of group `j`, the `ruleProb` of the
fitted rule `j` that the parity / optimality theorems of C04 / C05 talk about; and every fitted Bunch satisfies the
hypotheses (`Pmf.Rule.Valid 0`, and `allGt` without flip) of the C10 range / monotonicity theorems.
-/
import FairModel.Lemmas.ThresholdOpt
import FairModel.Lemmas.Pmf
import FairModel.Model.ThresholdPredict

namespace ThresholdPredict
open Threshold ThresholdGen

/-- `ThresholdOperation.__call__` of the stored operation = the operation the fit reasons about (incl. ±inf) -/
theorem apply_toThrOp (o : Op) (s : Rat) : (toThrOp o).apply s = ind (o.apply s) := by
  obtain ⟨gt, thr⟩ := o
  cases gt <;> cases thr <;> simp [toThrOp, toXR, Pmf.ThrOp.apply, Op.apply, Thr.below, Thr.above, ind]

/-- `_pmf_predict`'s expression on the stored Bunch = `ruleProb` of the fitted rule -/
theorem positive_toPmfRule (r : Rule) (s : Rat) : (toPmfRule r).positive s = ruleProb r s := by
  unfold Pmf.Rule.positive Pmf.Rule.interp ruleProb toPmfRule
  simp only [apply_toThrOp]
  cases r.ign with
  | none => rfl
  | some pc => rfl

theorem dictOf_keys (names : List String) (rules : List Rule) (hlen : names.length = rules.length) :
    (dictOf names rules).map (·.1) = names := by
  induction names generalizing rules with
  | nil => simp [dictOf]
  | cons n ns ih =>
    cases rules with
    | nil => simp at hlen
    | cons r rs =>
      simp only [dictOf, List.zipWith_cons_cons, List.map_cons, List.cons.injEq, true_and]
      exact ih rs (by simpa using hlen)

theorem dictOf_mem (names : List String) (rules : List Rule) (j : Nat) (hj : j < names.length) (hj' : j < rules.length) :
    (names[j], toPmfRule rules[j]) ∈ dictOf names rules := by
  unfold dictOf
  rw [List.mem_iff_getElem]
  exact ⟨j, by simp [hj, hj'], by simp⟩

/-- **the pmf `predict` uses for a row of group `j` is the fitted rule `j`** (distinct sensitive-feature values) -/
theorem thrPositive_dictOf (names : List String) (rules : List Rule) (hnd : names.Nodup)
    (hlen : names.length = rules.length) (j : Nat) (hj : j < names.length) (hj' : j < rules.length) (s : Rat) :
    Pmf.thrPositive (dictOf names rules) names[j] s = ruleProb rules[j] s := by
  rw [Pmf.thrPositive_of_mem (dictOf names rules) names[j] (toPmfRule rules[j]) s
      (by rw [dictOf_keys names rules hlen]; exact hnd) (dictOf_mem names rules j hj hj')]
  exact positive_toPmfRule _ s

/-- expected value of metric `m` on `rows` when row scores are turned into probabilities by the fitted model's
    `_pmf_predict` for sensitive-feature value `name` -/
def predictedMetric (m : Metric) (dict : List (String × Pmf.Rule)) (name : String) (rows : List Row) : Rat :=
  m.eval (expCM (fun s => Pmf.thrPositive dict name s) rows)

theorem predictedMetric_eq (m : Metric) (names : List String) (rules : List Rule) (hnd : names.Nodup)
    (hlen : names.length = rules.length) (j : Nat) (hj : j < names.length) (hj' : j < rules.length) (rows : List Row) :
    predictedMetric m (dictOf names rules) names[j] rows = expectedMetric m rules[j] rows := by
  unfold predictedMetric expectedMetric
  congr 2
  funext s
  exact thrPositive_dictOf names rules hnd hlen j hj hj' s

/-! ### every fitted Bunch is a valid rule -/

theorem rawPoints_noflip_gt (xm ym : Metric) (rows : List Row) (p : Pt) (hp : p ∈ rawPoints false xm ym rows) :
    p.op.gt = true := by
  rw [rawPoints_eq] at hp
  obtain ⟨s, _, hs⟩ := List.mem_flatMap.mp hp
  unfold stepPoints operations at hs
  simp only [Bool.false_eq_true, if_false, operationsNoFlip, List.map_cons, List.map_nil, List.mem_singleton] at hs
  rw [hs]

/-- the two operations of an interpolation are hull vertices' operations, hence `>` when `flip = False` -/
theorem interp_ops_gt {xm ym : Metric} {rows : List Row} {H : List Pt} (gc : GroupCurve false xm ym rows H)
    {g : Rat} {r : Interp} (hr : InterpSound H g r) : r.op0.gt = true ∧ r.op1.gt = true := by
  obtain ⟨l1, a, b, l2, hH, ho0, ho1, _⟩ := hr.verts
  have ha : a ∈ H := by rw [hH]; simp
  have hb : b ∈ H := by rw [hH]; simp
  have ha' := (mem_sortLex _ _).mp (gc.good.sub a ha)
  have hb' := (mem_sortLex _ _).mp (gc.good.sub b hb)
  rw [ho0, ho1]
  exact ⟨rawPoints_noflip_gt xm ym rows a ha', rawPoints_noflip_gt xm ym rows b hb'⟩

theorem toPmfRule_allGt (r : Rule) (h0 : r.op0.gt = true) (h1 : r.op1.gt = true) : (toPmfRule r).allGt = true := by
  simp [Pmf.Rule.allGt, toPmfRule, toThrOp, h0, h1]

theorem valid_simple {H : List Pt} {g : Rat} {r : Interp} (hr : InterpSound H g r) :
    (toPmfRule (simpleRule r)).Valid 0 :=
  ⟨hr.p0_nonneg, hr.p1_nonneg, by simp [toPmfRule, simpleRule, hr.sum_one],
   by simp [toPmfRule, simpleRule, hr.sum_one], by intro pi c h; simp [toPmfRule, simpleRule] at h⟩

theorem valid_eo {H : List Pt} {g : Rat} {r : Interp} (hr : InterpSound H g r) (xBest yBest : Rat)
    (hpi : 0 ≤ pIgnore r yBest ∧ pIgnore r yBest ≤ 1) (hx : 0 ≤ xBest ∧ xBest ≤ 1) :
    (toPmfRule (eoRule xBest yBest r)).Valid 0 :=
  ⟨hr.p0_nonneg, hr.p1_nonneg, by simp [toPmfRule, eoRule, hr.sum_one],
   by simp [toPmfRule, eoRule, hr.sum_one], by
     intro pi c h
     simp only [toPmfRule, eoRule, Option.some.injEq, Prod.mk.injEq] at h
     obtain ⟨rfl, rfl⟩ := h
     exact ⟨hpi.1, hpi.2, hx.1, hx.2⟩⟩

theorem valid_of (r : Rule) (h0 : 0 ≤ r.p0) (h1 : 0 ≤ r.p1) (hs : r.p0 + r.p1 = 1)
    (hign : ∀ pi c, r.ign = some (pi, c) → 0 ≤ pi ∧ pi ≤ 1 ∧ 0 ≤ c ∧ c ≤ 1) : (toPmfRule r).Valid 0 :=
  ⟨h0, h1, by simp [toPmfRule, hs], by simp [toPmfRule, hs], fun pi c h => hign pi c h⟩

theorem mem_dictOf {names : List String} {rules : List Rule} {e : String × Pmf.Rule} (he : e ∈ dictOf names rules) :
    ∃ j, ∃ (_ : j < names.length) (hj' : j < rules.length), e.2 = toPmfRule rules[j] := by
  unfold dictOf at he
  obtain ⟨j, hj, hget⟩ := List.mem_iff_getElem.mp he
  simp only [List.length_zipWith] at hj
  refine ⟨j, by omega, by omega, ?_⟩
  rw [← hget]; simp

/-! ### row-wise prediction -/

theorem predictLabels_length (names : List String) (fit : Fit) (rows : List (String × Rat)) (us : List Rat) :
    (predictLabels names fit rows us).length = min rows.length us.length := by
  simp [predictLabels, predictPmf, Pmf.thrPmf]

theorem src_probOf (row : Rat × Rat) : probOf row = row.2 := by
  simp [probOf, ThresholderSrc.probColumn]

theorem predictLabels_get (names : List String) (fit : Fit) (rows : List (String × Rat)) (us : List Rat)
    (i : Nat) (hi : i < rows.length) (hu : i < us.length) (h : i < (predictLabels names fit rows us).length) :
    (predictLabels names fit rows us)[i] =
      Pmf.bernoulli (Pmf.thrPositive (dictOf names fit.rules) rows[i].1 rows[i].2) us[i] := by
  simp [predictLabels, predictPmf, Pmf.thrPmf, src_probOf, Pmf.pmfRow, (Pmf.src_cols _).2]

end ThresholdPredict
