/-
Optimality layer (C05): weighted objective of a family of per-group mixtures, its domination by the fitted
grid row, the arg-max over the grid, constant classifiers, and monotonicity of the equalized-odds objectives.
-/
import FairModel.Lemmas.ThresholdFit

set_option linter.unusedSimpArgs false
set_option linter.unusedTactic false

namespace Threshold
open ThresholdGen

/-- group frequency `len(group) / n` -/
def freq (groups : List (List Row)) (g : List Row) : Rat := (g.length : Rat) / (totalRows groups : Rat)

theorem freq_nonneg (groups : List (List Row)) (g : List Row) : 0 ≤ freq groups g := by
  unfold freq; positivity

/-- frequency-weighted objective of a family of per-group mixtures (one mixture per group, same order) -/
def mixObjective (groups : List (List Row)) (ms : List Mixture) : Rat :=
  (List.zipWith (fun g (m : Mixture) => freq groups g * m.y) groups ms).sum

theorem objSimple_eq (groups : List (List Row)) (is : List Interp) :
    objSimple groups is = (List.zipWith (fun g (r : Interp) => freq groups g * r.y) groups is).sum :=
  src_objSimple groups is

theorem zipWith_sum_le {α β} (G : List (List Row)) (f : List Row → α → Rat) (h : List Row → β → Rat) :
    ∀ (as : List α) (bs : List β), as.length = G.length → bs.length = G.length →
    (∀ j (hj : j < G.length) (hja : j < as.length) (hjb : j < bs.length), f G[j] as[j] ≤ h G[j] bs[j]) →
    (List.zipWith f G as).sum ≤ (List.zipWith h G bs).sum := by
  induction G with
  | nil => intro as bs _ _ _; simp
  | cons g G ih =>
    intro as bs ha hb hle
    cases as with
    | nil => simp at ha
    | cons a as =>
      cases bs with
      | nil => simp at hb
      | cons b bs =>
        simp only [List.zipWith_cons_cons, List.sum_cons]
        have h0 := hle 0 (by simp) (by simp) (by simp)
        have h1 := ih as bs (by simpa using ha) (by simpa using hb)
          (fun j hj hja hjb => by
            have := hle (j + 1) (by simp; omega) (by simp; omega) (by simp; omega)
            simpa using this)
        simp only [List.getElem_cons_zero] at h0
        linarith

theorem zipWith_sum_eq {α β} (G : List (List Row)) (f : List Row → α → Rat) (h : List Row → β → Rat)
    (as : List α) (bs : List β) (ha : as.length = G.length) (hb : bs.length = G.length)
    (heq : ∀ j (hj : j < G.length) (hja : j < as.length) (hjb : j < bs.length), f G[j] as[j] = h G[j] bs[j]) :
    (List.zipWith f G as).sum = (List.zipWith h G bs).sum :=
  le_antisymm (zipWith_sum_le G f h as bs ha hb (fun j hj hja hjb => le_of_eq (heq j hj hja hjb)))
    (zipWith_sum_le G h f bs as hb ha (fun j hj hjb hja => le_of_eq (heq j hj hja hjb).symm))

/-- uniform version of `constraint_extremes`: which end of the sweep has x = 0 depends on the metric only -/
theorem constraint_extremes_uniform (xm : Metric) (hx : IsConstraintMetric xm) :
    (∀ nneg npos : Nat, nneg ≠ 0 → npos ≠ 0 →
      xm.eval (actualCounts 0 0 nneg npos) = 0 ∧ xm.eval (actualCounts nneg npos nneg npos) = 1) ∨
    (∀ nneg npos : Nat, nneg ≠ 0 → npos ≠ 0 →
      xm.eval (actualCounts 0 0 nneg npos) = 1 ∧ xm.eval (actualCounts nneg npos nneg npos) = 0) := by
  unfold IsConstraintMetric at hx
  simp only [simpleConstraints, eoXMetric, List.map_cons, List.map_nil, List.mem_cons, List.not_mem_nil,
    or_false] at hx
  have key : ∀ nneg npos : Nat, nneg ≠ 0 → npos ≠ 0 →
      ((nneg : Rat) ≠ 0 ∧ (npos : Rat) ≠ 0 ∧ (npos : Rat) + (nneg : Rat) ≠ 0 ∧ (nneg : Rat) + (npos : Rat) ≠ 0) := by
    intro nneg npos hn hp
    have hn' : (nneg : Rat) ≠ 0 := Nat.cast_ne_zero.mpr hn
    have hp' : (npos : Rat) ≠ 0 := Nat.cast_ne_zero.mpr hp
    have h1 : (0 : Rat) < npos := by positivity
    have h2 : (0 : Rat) < nneg := by positivity
    exact ⟨hn', hp', by linarith, by linarith⟩
  rcases hx with (rfl | rfl | rfl | rfl | rfl | rfl) | rfl
  all_goals first
    | (left; intro nneg npos hn hp; obtain ⟨a, b, c, d⟩ := key nneg npos hn hp
       simp [Metric.eval, actualCounts, CM.predicted_positives, CM.n, CM.positives, CM.negatives, a, b, c, d]; done)
    | (right; intro nneg npos hn hp; obtain ⟨a, b, c, d⟩ := key nneg npos hn hp
       simp [Metric.eval, actualCounts, CM.predicted_positives, CM.n, CM.positives, CM.negatives, a, b, c, d]; done)

theorem gridVal_self {N : Nat} (hN : 1 ≤ N) : gridVal N N = 1 := by
  rw [src_gridVal]
  have : (N : Rat) ≠ 0 := by
    have : (0 : Rat) < N := by exact_mod_cast hN
    linarith
  exact div_self this

/-! ### equalized-odds objective is non-decreasing in the common TPR -/

theorem objEO_mono (obj : Metric) (hobj : obj ∈ objectivesEO) (groups : List (List Row)) (x y y' : Rat)
    (hy : y ≤ y') : objEO obj groups x y ≤ objEO obj groups x y' := by
  simp only [objectivesEO, List.mem_cons, List.not_mem_nil, or_false] at hobj
  have hp : (0 : Rat) ≤ (totalPos groups : Rat) := by positivity
  have hn : (0 : Rat) ≤ (totalNeg groups : Rat) := by positivity
  rcases hobj with rfl | rfl
  · -- accuracy
    simp only [objEO_eq, Metric.eval, eoCounts, CM.n]
    have e : ∀ t : Rat, (totalPos groups : Rat) * t + (totalNeg groups : Rat) * (1 - x) + (totalNeg groups : Rat) * x +
        (totalPos groups : Rat) * (1 - t) = (totalPos groups : Rat) + (totalNeg groups : Rat) := by intro t; ring
    rw [e y, e y']
    apply div_le_div_of_nonneg_right _ (by linarith)
    have := mul_le_mul_of_nonneg_left hy hp
    linarith
  · -- balanced accuracy
    simp only [objEO_eq, Metric.eval, eoCounts, CM.positives, CM.negatives]
    have e : ∀ t : Rat, (totalPos groups : Rat) * t + (totalPos groups : Rat) * (1 - t) = (totalPos groups : Rat) := by
      intro t; ring
    rw [e y, e y']
    have h1 : 1 / 2 * ((totalPos groups : Rat) * y) / (totalPos groups : Rat) ≤
        1 / 2 * ((totalPos groups : Rat) * y') / (totalPos groups : Rat) := by
      apply div_le_div_of_nonneg_right _ hp
      have := mul_le_mul_of_nonneg_left hy hp
      linarith
    linarith

theorem getElem?_zipWith_range {N : Nat} {ymins : List Rat} (f : Nat → Rat → Rat) (hlen : ymins.length = N + 1)
    (i : Nat) (hi : i < N + 1) :
    ((List.range (N + 1)).zipWith f ymins)[i]? = some (f i (ymins[i]'(by omega))) := by
  rw [List.getElem?_zipWith, List.getElem?_range hi, List.getElem?_eq_getElem (by omega)]

/-! ### overall expected confusion counts of a fitted equalized-odds rule -/

def CM.add (A B : CM) : CM :=
  { true_positives := A.true_positives + B.true_positives, false_positives := A.false_positives + B.false_positives,
    true_negatives := A.true_negatives + B.true_negatives, false_negatives := A.false_negatives + B.false_negatives }

def CM.zero : CM := ⟨0, 0, 0, 0⟩

/-- expected confusion counts of the whole training set: sum over groups of each group's rule on its own rows -/
def overallCM (groups : List (List Row)) (rules : List Rule) : CM :=
  (List.zipWith (fun g r => expCM (ruleProb r) g) groups rules).foldr CM.add CM.zero

/-- a group whose rule has expected FPR `x` and TPR `y` contributes `eoCounts nneg npos x y` -/
theorem expCM_of_rates (prob : Rat → Rat) (rows : List Row) (x y : Rat) (hp : nPos rows ≠ 0) (hn : nNeg rows ≠ 0)
    (hx : eoXMetric.eval (expCM prob rows) = x) (hy : eoYMetric.eval (expCM prob rows) = y) :
    expCM prob rows = eoCounts (nNeg rows) (nPos rows) x y := by
  have hP := expCM_positives prob rows
  have hN := expCM_negatives prob rows
  have hn' : (nNeg rows : Rat) ≠ 0 := Nat.cast_ne_zero.mpr hn
  have hp' : (nPos rows : Rat) ≠ 0 := Nat.cast_ne_zero.mpr hp
  simp only [eoXMetric, eoYMetric, Metric.eval] at hx hy
  rw [hN] at hx
  rw [hP] at hy
  have hfp : (expCM prob rows).false_positives = (nNeg rows : Rat) * x := by
    rw [← hx]; field_simp
  have htp : (expCM prob rows).true_positives = (nPos rows : Rat) * y := by
    rw [← hy]; field_simp
  simp only [CM.positives, CM.negatives] at hP hN
  apply CM.ext'
  · simp only [eoCounts]; exact htp
  · simp only [eoCounts]; exact hfp
  · simp only [eoCounts]; linarith
  · simp only [eoCounts]; linarith

theorem eoCounts_add (a b c d : Nat) (x y : Rat) :
    CM.add (eoCounts a b x y) (eoCounts c d x y) = eoCounts ((a + c : Nat)) ((b + d : Nat)) x y := by
  apply CM.ext' <;> simp only [CM.add, eoCounts] <;> push_cast <;> ring

theorem overallCM_eq (x y : Rat) : ∀ (groups : List (List Row)) (rules : List Rule),
    rules.length = groups.length →
    (∀ j (hj : j < groups.length) (hj' : j < rules.length),
      nPos groups[j] ≠ 0 ∧ nNeg groups[j] ≠ 0 ∧
      expectedMetric eoXMetric rules[j] groups[j] = x ∧ expectedMetric eoYMetric rules[j] groups[j] = y) →
    overallCM groups rules = eoCounts (totalNeg groups) (totalPos groups) x y := by
  intro groups
  induction groups with
  | nil =>
    intro rules _ _
    apply CM.ext' <;> simp [overallCM, CM.zero, eoCounts, totalNeg, totalPos]
  | cons g G ih =>
    intro rules hlen h
    cases rules with
    | nil => simp at hlen
    | cons r R =>
      have h0 := h 0 (by simp) (by simp)
      simp only [List.getElem_cons_zero] at h0
      have hrest := ih R (by simpa using hlen) (fun j hj hj' => by
        have := h (j + 1) (by simp; omega) (by simp; omega)
        simpa using this)
      have hhead := expCM_of_rates (ruleProb r) g x y h0.1 h0.2.1 h0.2.2.1 h0.2.2.2
      unfold overallCM at hrest ⊢
      simp only [List.zipWith_cons_cons, List.foldr_cons]
      rw [hrest, hhead, eoCounts_add]
      simp [totalNeg, totalPos]

end Threshold
