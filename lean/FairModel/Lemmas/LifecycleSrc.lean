/-
`LifecycleSrc.guardPredict`: a machine whose prediction step runs through a purity flag IS the machine when the flag is on,
and taints the state at every prediction when it is off.
-/
import FairModel.Lemmas.Lifecycle
import FairModel.Model.LifecycleSrc

namespace LifecycleSrc
open Lifecycle

theorem guardPredict_true {σ : Type} (taint : σ → σ) (M : Machine σ) : guardPredict true taint M = M := by
  cases M with
  | mk init step =>
    unfold guardPredict
    congr 1
    funext s o
    cases o <;> rfl

theorem guardPredict_of_flag {σ : Type} {b : Bool} (hb : b = true) (taint : σ → σ) (M : Machine σ) :
    guardPredict b taint M = M := by
  subst hb; exact guardPredict_true taint M

theorem guardPredict_false_predict {σ : Type} (taint : σ → σ) (M : Machine σ) (s : σ) (k : Nat) :
    ((guardPredict false taint M).step s (.predict k)).1 = taint (M.step s (.predict k)).1 ∧
    ((guardPredict false taint M).step s (.predict k)).2 = (M.step s (.predict k)).2 := ⟨rfl, rfl⟩

/-- operations other than `predict` do not see the flag -/
theorem guardPredict_other {σ : Type} (b : Bool) (taint : σ → σ) (M : Machine σ) (s : σ) (o : Op)
    (ho : ∀ k, o ≠ .predict k) : (guardPredict b taint M).step s o = M.step s o := by
  cases o with
  | predict k => exact absurd rfl (ho k)
  | _ => rfl

end LifecycleSrc
