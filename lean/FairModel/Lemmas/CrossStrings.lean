/-
Cross-property lemmas, part 4: the characters of `toString (y : Int)` and what they imply for the event labels
of the EqualizedOdds moment with control features.

`_combine_event_and_control` formats the event of a row as `"control={c},{e}"` with `e = "label=" + str(y)`.
The control value `c` is an ARBITRARY string (it may contain commas and even the text `,label=1`), so that the
formatted label determines the stratum only because the part after the LAST comma is `label=<digits>` and
`str(y)` of an integer contains no comma: `toString_int_no_comma`.  With `Int`'s `toString` injective
(`toString_int_inj`) the formatted event determines BOTH the stratum and the label: `ctrlFormat_labelEvent_inj`,
for every `Int` label (no binary-label assumption) and every pair of control strings.
-/
import FairModel.Lemmas.C06Review
import Std.Data.String.ToNat

namespace Cross
open Moments

/-- every character of the decimal representation of a natural number is a digit -/
theorem nat_repr_isDigit (n : Nat) : ∀ ch ∈ n.repr.toList, ch.isDigit = true := by
  intro ch hch
  rw [Nat.repr_eq_ofList_toDigits, String.toList_ofList] at hch
  exact Nat.isDigit_of_mem_toDigits (by decide) (by decide) hch

theorem comma_not_digit : (',' : Char).isDigit = false := by decide
theorem minus_not_digit : ('-' : Char).isDigit = false := by decide

/-- `str(n)` of a natural number contains no comma -/
theorem nat_repr_no_comma (n : Nat) : ',' ∉ n.repr.toList := by
  intro h
  have := nat_repr_isDigit n ',' h
  rw [comma_not_digit] at this
  exact absurd this (by decide)

/-- **`str(y)` of an integer contains no comma** (its characters are `-` and decimal digits) -/
theorem toString_int_no_comma (y : Int) : ',' ∉ (toString y).toList := by
  rw [Int.toString_eq_repr, Int.repr_eq_if]
  split
  · exact nat_repr_no_comma _
  · rw [String.toList_append]
    intro h
    rcases List.mem_append.mp h with h | h
    · revert h; decide
    · exact nat_repr_no_comma _ h

/-- `str` is injective on the integers -/
theorem toString_int_inj (y y' : Int) (h : toString y = toString y') : y = y' := by
  rw [Int.toString_eq_repr, Int.toString_eq_repr, Int.repr_eq_if, Int.repr_eq_if] at h
  have hneg : ∀ (a b : Nat), a.repr ≠ "-" ++ b.repr := by
    intro a b e
    have e2 := congrArg String.toList e
    rw [String.toList_append] at e2
    have hm : '-' ∈ a.repr.toList := by rw [e2]; exact List.mem_append_left _ (by decide)
    have := nat_repr_isDigit a '-' hm
    rw [minus_not_digit] at this
    exact absurd this (by decide)
  by_cases h1 : 0 ≤ y <;> by_cases h2 : 0 ≤ y'
  · simp only [h1, h2, if_true] at h
    have := (Nat.repr_inj (m := _) (n := _)).1 h
    omega
  · simp only [h1, h2, if_true, if_false] at h
    exact absurd h (hneg _ _)
  · simp only [h1, h2, if_true, if_false] at h
    exact absurd h.symm (hneg _ _)
  · simp only [h1, h2, if_false] at h
    have e2 := congrArg String.toList h
    rw [String.toList_append, String.toList_append] at e2
    have := (Nat.repr_inj (m := _) (n := _)).1 (String.toList_inj.mp (List.append_cancel_left e2))
    omega

/-- splitting at the LAST occurrence of a separator: if neither tail contains `s`, then
    `a ++ s :: p = b ++ s :: q` forces `a = b` and `p = q` -/
theorem append_sep_inj {α} (s : α) (a b p q : List α) (hp : s ∉ p) (hq : s ∉ q)
    (h : a ++ s :: p = b ++ s :: q) : a = b ∧ p = q := by
  induction a generalizing b with
  | nil =>
    cases b with
    | nil => exact ⟨rfl, by simpa using h⟩
    | cons c b' =>
      exfalso
      simp only [List.nil_append, List.cons_append, List.cons.injEq] at h
      exact hp (by rw [h.2]; simp)
  | cons x a' ih =>
    cases b with
    | nil =>
      exfalso
      simp only [List.nil_append, List.cons_append, List.cons.injEq] at h
      exact hq (by rw [← h.2]; simp)
    | cons c b' =>
      simp only [List.cons_append, List.cons.injEq] at h
      obtain ⟨e1, e2⟩ := ih b' h.2
      exact ⟨by rw [h.1, e1], e2⟩

theorem label_prefix_no_comma : ',' ∉ (("label" : String) ++ "=").toList := by decide

/-- the text of a label event contains no comma -/
theorem labelEvent_no_comma (y : Int) : ',' ∉ (MomentsSrc.labelEvent y).toList := by
  unfold MomentsSrc.labelEvent
  rw [String.toList_append]
  intro h
  rcases List.mem_append.mp h with h | h
  · exact label_prefix_no_comma h
  · exact toString_int_no_comma y h

/-- label events are injective in the label, for ALL integers -/
theorem labelEvent_inj (y y' : Int) (h : MomentsSrc.labelEvent y = MomentsSrc.labelEvent y') : y = y' := by
  unfold MomentsSrc.labelEvent at h
  have h2 := congrArg String.toList h
  simp only [String.toList_append] at h2
  exact toString_int_inj y y' (String.toList_inj.mp (List.append_cancel_left h2))

/-- **the formatted event `control={c},label={y}` determines the stratum and the label** — any control strings
    (commas allowed), any integer labels -/
theorem ctrlFormat_labelEvent_inj (c c' : String) (y y' : Int)
    (h : MomentsSrc.ctrlFormat c (MomentsSrc.labelEvent y) = MomentsSrc.ctrlFormat c' (MomentsSrc.labelEvent y')) :
    c = c' ∧ y = y' := by
  unfold MomentsSrc.ctrlFormat at h
  have h2 := congrArg String.toList h
  simp only [String.toList_append] at h2
  have h3 := List.append_cancel_right h2
  have hc : (",": String).toList = [','] := by decide
  rw [hc] at h3
  simp only [List.append_assoc, List.singleton_append] at h3
  have h4 := List.append_cancel_left h3
  obtain ⟨e1, e2⟩ := append_sep_inj ',' _ _ _ _ (labelEvent_no_comma y) (labelEvent_no_comma y') h4
  exact ⟨String.toList_inj.mp e1, labelEvent_inj y y' (String.toList_inj.mp e2)⟩

/-- a control string with commas and a look-alike suffix is still told apart -/
example : MomentsSrc.ctrlFormat "x,label=1" (MomentsSrc.labelEvent 0) ≠ MomentsSrc.ctrlFormat "x" (MomentsSrc.labelEvent 1) := by
  decide +kernel

/-- **EqualizedOdds with control features, ANY row** (any integer label, with or without control value): the event
    `control=c0,label=lab` selects exactly the rows of stratum `c0` with label `lab` -/
theorem eo_event_selects_in_stratum (r : Row) (c0 : String) (lab : Int) :
    inE (eventOf .eo) (MomentsSrc.ctrlFormat c0 (MomentsSrc.labelEvent lab)) r = ((r.c == some c0) && (r.y == lab)) := by
  unfold inE eventOf baseEvent
  cases hc : r.c with
  | none =>
    have : MomentsSrc.labelEvent r.y ≠ MomentsSrc.ctrlFormat c0 (MomentsSrc.labelEvent lab) :=
      fun e => ctrlFormat_ne_labelEvent c0 _ r.y e.symm
    simp [this]
  | some c =>
    by_cases h1 : c = c0 ∧ r.y = lab
    · obtain ⟨rfl, h2⟩ := h1
      simp [h2]
    · have hne : MomentsSrc.ctrlFormat c (MomentsSrc.labelEvent r.y) ≠ MomentsSrc.ctrlFormat c0 (MomentsSrc.labelEvent lab) :=
        fun h => h1 (ctrlFormat_labelEvent_inj _ _ _ _ h)
      have hL : (some (MomentsSrc.ctrlFormat c (MomentsSrc.labelEvent r.y))
          == some (MomentsSrc.ctrlFormat c0 (MomentsSrc.labelEvent lab))) = false := by
        rw [beq_eq_false_iff_ne]; intro e; exact hne (Option.some.inj e)
      have hR : ((some c == some c0) && (r.y == lab)) = false := by
        by_cases hcc : c = c0
        · have hyl : r.y ≠ lab := fun e => h1 ⟨hcc, e⟩
          have : (r.y == lab) = false := by rw [beq_eq_false_iff_ne]; exact hyl
          rw [this, Bool.and_false]
        · have : (some c == some c0) = false := by
            rw [beq_eq_false_iff_ne]; intro e; exact hcc (Option.some.inj e)
          rw [this, Bool.false_and]
      simp only [hL, hR]

end Cross
