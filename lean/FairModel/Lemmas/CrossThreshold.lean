/-
Cross-property lemmas, part 3: the training data of `ThresholdOptimizer` (`Model/Threshold.lean`: one list of
(score, label) rows per sensitive-feature group, one fitted randomised rule per group) read as the rows and the
expected-prediction vector of a reduction moment (`Model/Moments.lean`).
-/
import FairModel.Lemmas.CrossRates
import FairModel.Properties.C04

namespace Cross
open Moments ThresholdGen

/-- a training row of group `nm` as a moment row (no control features) -/
def thrRow (nm : String) (r : Threshold.Row) : Moments.Row := ⟨if r.label then 1 else 0, nm, none⟩

/-- all training rows, group after group -/
def thrRows (names : List String) (groups : List (List Threshold.Row)) : List Moments.Row :=
  (List.zipWith (fun nm g => g.map (thrRow nm)) names groups).flatten

/-- per-row values `pr score`, `pr` the function of the row's group, in the order of `thrRows` -/
def blockVals (probs : List (Rat → Rat)) (groups : List (List Threshold.Row)) : List Rat :=
  (List.zipWith (fun pr g => g.map (fun r => pr r.score)) probs groups).flatten

/-- expected predictions `P(pred = 1 | score, group)` of the fitted rules on the training rows -/
def thrPred (rules : List Threshold.Rule) (groups : List (List Threshold.Row)) : List Rat :=
  blockVals (rules.map Threshold.ruleProb) groups

/-- mean of `prob score` over the rows of one group whose label satisfies `L` -/
def thrMean (L : Bool → Bool) (prob : Rat → Rat) (g : List Threshold.Row) : Rat :=
  Threshold.sumBy (fun r => if L r.label then prob r.score else 0) g /
    Threshold.sumBy (fun r => if L r.label then 1 else 0) g

open Threshold in
theorem sumBy_add (f g : Threshold.Row → Rat) (rows : List Threshold.Row) :
    sumBy f rows + sumBy g rows = sumBy (fun r => f r + g r) rows := by
  have := sumBy_lin 1 1 f g rows
  simp only [one_mul] at this
  exact this.symm

/-- the three constrained metrics of METRIC_DICT, on expected confusion counts, are these means -/
theorem thrMean_selection_rate (prob : Rat → Rat) (g : List Threshold.Row) :
    thrMean (fun _ => true) prob g = Metric.selection_rate.eval (Threshold.expCM prob g) := by
  unfold thrMean Metric.eval CM.predicted_positives CM.n Threshold.expCM
  simp only [if_true]
  congr 1
  · rw [sumBy_add]; apply Threshold.sumBy_congr; intro r _; cases r.label <;> simp
  · rw [sumBy_add, sumBy_add, sumBy_add]; apply Threshold.sumBy_congr; intro r _; cases r.label <;> simp

theorem thrMean_true_positive_rate (prob : Rat → Rat) (g : List Threshold.Row) :
    thrMean (fun b => b) prob g = Metric.true_positive_rate.eval (Threshold.expCM prob g) := by
  unfold thrMean Metric.eval CM.positives Threshold.expCM
  congr 1
  rw [sumBy_add]; apply Threshold.sumBy_congr; intro r _; cases r.label <;> simp

theorem thrMean_false_positive_rate (prob : Rat → Rat) (g : List Threshold.Row) :
    thrMean (fun b => !b) prob g = Metric.false_positive_rate.eval (Threshold.expCM prob g) := by
  unfold thrMean Metric.eval CM.negatives Threshold.expCM
  congr 1
  · apply Threshold.sumBy_congr; intro r _; cases r.label <;> simp
  · rw [sumBy_add]; apply Threshold.sumBy_congr; intro r _; cases r.label <;> simp

/-! ### sums over the flattened rows -/

/-- the moment-side predicate "label satisfies `L` and group is `nm`" -/
def pL (L : Bool → Bool) (nm : String) : Moments.Row → Bool := fun r => L (r.y == 1) && (r.g == nm)

theorem thrRow_label (nm : String) (r : Threshold.Row) : ((thrRow nm r).y == 1) = r.label := by
  cases h : r.label <;> simp [thrRow, h]

theorem sumOn_block (L : Bool → Bool) (nm nm' : String) (pr : Rat → Rat) (g : List Threshold.Row) :
    sumOn (pL L nm) (g.map (thrRow nm')) (g.map (fun r => pr r.score))
      = if nm' = nm then Threshold.sumBy (fun r => if L r.label then pr r.score else 0) g else 0 := by
  unfold sumOn
  induction g with
  | nil => simp [Threshold.sumBy]
  | cons r rs ih =>
    rw [List.map_cons, List.map_cons, List.map_cons, dot_cons, ih, Threshold.sumBy_cons]
    have hp : pL L nm (thrRow nm' r) = (L r.label && (nm' == nm)) := by
      unfold pL; rw [thrRow_label]; rfl
    rw [hp]
    by_cases hn : nm' = nm
    · subst hn; cases L r.label <;> simp [ind]
    · have : (nm' == nm) = false := by simpa using hn
      simp [hn, this, ind]

theorem sumOn_append (p : Moments.Row → Bool) (a b : List Moments.Row) (u v : List Rat) (h : a.length = u.length) :
    sumOn p (a ++ b) (u ++ v) = sumOn p a u + sumOn p b v := by
  unfold sumOn
  rw [List.map_append, dot_append _ _ _ _ (by simp [h])]

theorem mem_thrRows {names : List String} {groups : List (List Threshold.Row)} {r : Moments.Row}
    (hr : r ∈ thrRows names groups) :
    ∃ (j : Nat) (nm : String) (g : List Threshold.Row) (x : Threshold.Row),
      names[j]? = some nm ∧ groups[j]? = some g ∧ x ∈ g ∧ r = thrRow nm x := by
  induction names generalizing groups with
  | nil => simp [thrRows] at hr
  | cons nm rest ih =>
    cases groups with
    | nil => simp [thrRows] at hr
    | cons g gs =>
      simp only [thrRows, List.zipWith_cons_cons, List.flatten_cons, List.mem_append, List.mem_map] at hr
      rcases hr with ⟨x, hx, rfl⟩ | hr
      · exact ⟨0, nm, g, x, rfl, rfl, hx, rfl⟩
      · obtain ⟨j, nm', g', x, h1, h2, h3, h4⟩ := ih hr
        exact ⟨j + 1, nm', g', x, by simpa using h1, by simpa using h2, h3, h4⟩

theorem sumOn_absent (L : Bool → Bool) (nm : String) (names : List String) (groups : List (List Threshold.Row))
    (u : List Rat) (hn : nm ∉ names) : sumOn (pL L nm) (thrRows names groups) u = 0 := by
  apply sumOn_eq_zero_of_filter_nil
  rw [List.filter_eq_nil_iff]
  intro r hr
  obtain ⟨j, nm', g, x, h1, _, _, rfl⟩ := mem_thrRows hr
  have hmem : nm' ∈ names := List.mem_of_getElem? h1
  have : nm' ≠ nm := fun h => hn (h ▸ hmem)
  simp [pL, thrRow, this]

/-- **block sum**: the rows of group `names[j]` with label in `L` contribute exactly their own group's sum -/
theorem sumOn_thr (L : Bool → Bool) (names : List String) (groups : List (List Threshold.Row))
    (probs : List (Rat → Rat)) (hnd : names.Nodup) (j : Nat) (nm : String) (g : List Threshold.Row) (pr : Rat → Rat)
    (h1 : names[j]? = some nm) (h2 : groups[j]? = some g) (h3 : probs[j]? = some pr) :
    sumOn (pL L nm) (thrRows names groups) (blockVals probs groups)
      = Threshold.sumBy (fun r => if L r.label then pr r.score else 0) g := by
  induction names generalizing groups probs j with
  | nil => simp at h1
  | cons nm0 rest ih =>
    cases groups with
    | nil => simp at h2
    | cons g0 gs =>
      cases probs with
      | nil => simp at h3
      | cons pr0 prs =>
        have hn := List.nodup_cons.mp hnd
        simp only [thrRows, blockVals, List.zipWith_cons_cons, List.flatten_cons]
        rw [sumOn_append _ _ _ _ _ (by simp), sumOn_block]
        cases j with
        | zero =>
          simp only [List.getElem?_cons_zero, Option.some.injEq] at h1 h2 h3
          subst h1; subst h2; subst h3
          have := sumOn_absent L nm0 rest gs (blockVals prs gs) hn.1
          unfold thrRows blockVals at this
          rw [this]; simp
        | succ j =>
          simp only [List.getElem?_cons_succ] at h1 h2 h3
          have hne : nm0 ≠ nm := fun h => hn.1 (h ▸ List.mem_of_getElem? h1)
          have := ih gs prs hn.2 j h1 h2 h3
          unfold thrRows blockVals at this
          rw [this, if_neg hne]; simp

theorem thrRows_ones (names : List String) (groups : List (List Threshold.Row)) :
    (thrRows names groups).map (fun _ => (1 : Rat)) = blockVals (names.map (fun _ => fun _ => 1)) groups := by
  induction names generalizing groups with
  | nil => simp [thrRows, blockVals]
  | cons nm rest ih =>
    cases groups with
    | nil => simp [thrRows, blockVals]
    | cons g gs =>
      have := ih gs
      unfold thrRows blockVals at this ⊢
      simp only [List.map_cons, List.zipWith_cons_cons, List.flatten_cons, List.map_append, this, List.map_map]
      congr 1

theorem thr_lengths (names : List String) (groups : List (List Threshold.Row)) (probs : List (Rat → Rat))
    (hl : names.length = groups.length) (hl' : probs.length = groups.length) :
    (blockVals probs groups).length = (thrRows names groups).length := by
  induction names generalizing groups probs with
  | nil =>
    cases groups with
    | nil => simp [thrRows, blockVals]
    | cons g gs => simp at hl
  | cons nm rest ih =>
    cases groups with
    | nil => simp at hl
    | cons g gs =>
      cases probs with
      | nil => simp at hl'
      | cons pr prs =>
        simp only [List.length_cons, Nat.add_right_cancel_iff] at hl hl'
        have := ih gs prs hl hl'
        unfold thrRows blockVals at this ⊢
        simp only [List.zipWith_cons_cons, List.flatten_cons, List.length_append, List.length_map, this]

/-- **group mean on the moment side = group mean on the ThresholdOptimizer side** -/
theorem meanOn_thr (L : Bool → Bool) (names : List String) (groups : List (List Threshold.Row))
    (probs : List (Rat → Rat)) (hnd : names.Nodup) (j : Nat) (nm : String) (g : List Threshold.Row) (pr : Rat → Rat)
    (h1 : names[j]? = some nm) (h2 : groups[j]? = some g) (h3 : probs[j]? = some pr) :
    meanOn (pL L nm) (thrRows names groups) (blockVals probs groups) = thrMean L pr g := by
  unfold meanOn thrMean
  have e1 := sumOn_thr L names groups probs hnd j nm g pr h1 h2 h3
  have e2 := sumOn_thr L names groups (names.map (fun _ => fun _ => 1)) hnd j nm g (fun _ => 1) h1 h2
    (by rw [List.getElem?_map, h1]; rfl)
  rw [← thrRows_ones, sumOn_ones] at e2
  unfold sumOn at e1
  rw [e1, e2]

theorem meanOn_congr {p q : Moments.Row → Bool} {rows : List Moments.Row} (u : List Rat)
    (h : ∀ r ∈ rows, p r = q r) : meanOn p rows u = meanOn q rows u := by
  unfold meanOn
  rw [List.filter_congr h, dot_map_congr _ _ rows u (fun r hr => by rw [h r hr])]

/-- **generic ThresholdOptimizer ⇒ moment**: if on the training rows every event `e` of the moment selects the
    rows whose label satisfies some `L` and every group's rule has `thrMean L = c e`, then gamma (ratio 1) of the
    expected-prediction vector vanishes entrywise -/
theorem thr_gamma_zero (ev : Ev) (names : List String) (groups : List (List Threshold.Row))
    (rules : List Threshold.Rule) (c : String → Rat) (hnd : names.Nodup)
    (hl : names.length = groups.length) (hl' : rules.length = groups.length)
    (hsel : ∀ e, (∃ r ∈ thrRows names groups, ev r = some e) → ∃ L : Bool → Bool,
      (∀ r ∈ thrRows names groups, inE ev e r = L (r.y == 1)) ∧
      ∀ j (hj : j < groups.length) (hj' : j < rules.length), (∃ x ∈ groups[j], L x.label = true) →
        thrMean L (Threshold.ruleProb rules[j]) groups[j] = c e) :
    ∀ k ∈ index ev (thrRows names groups),
      gammaAt ev (thrRows names groups) 1 defaultUtil (thrPred rules groups) k = 0 := by
  apply gamma_zero_of_parity ev _ defaultUtil _ c
  intro e g hobs
  obtain ⟨r0, hr0, he0, hg0⟩ := hobs
  obtain ⟨L, hL1, hL2⟩ := hsel e ⟨r0, hr0, he0⟩
  obtain ⟨j, nm, gj, x, hj1, hj2, hx, rfl⟩ := mem_thrRows hr0
  have hlen : (thrPred rules groups).length = (thrRows names groups).length :=
    thr_lengths names groups _ hl (by simp [hl'])
  unfold mEG
  rw [C06.pred_default _ _ hlen]
  have hjg : j < groups.length := (List.getElem?_eq_some_iff.mp hj2).1
  have hjr : j < rules.length := by omega
  have hgj : groups[j] = gj := (List.getElem?_eq_some_iff.mp hj2).2
  have hpred : ∀ r ∈ thrRows names groups, inEG ev e g r = pL L nm r := by
    intro r hr
    rw [inEG_eq, hL1 r hr, ← hg0]; rfl
  rw [meanOn_congr _ hpred]
  unfold thrPred
  rw [meanOn_thr L names groups _ hnd j nm gj (Threshold.ruleProb rules[j]) hj1 hj2
    (by simp [List.getElem?_eq_getElem hjr])]
  have hLx : L x.label = true := by
    have := hL1 _ hr0
    rw [thrRow_label] at this
    rw [← this]; simp [inE, he0]
  have := hL2 j hjg hjr ⟨x, by rw [hgj]; exact hx, hLx⟩
  rw [hgj] at this
  exact this

/-! ### the event rules on `thrRows` (no control features, labels 0/1) -/

theorem thrRows_shape {names : List String} {groups : List (List Threshold.Row)} {r : Moments.Row}
    (hr : r ∈ thrRows names groups) : r.c = none ∧ (r.y = 0 ∨ r.y = 1) := by
  obtain ⟨_, nm, _, x, _, _, _, rfl⟩ := mem_thrRows hr
  cases h : x.label <;> simp [thrRow, h]

theorem event_shape (k : Kind) (r : Moments.Row) (hc : r.c = none) : eventOf k r = baseEvent k r := by
  unfold eventOf; rw [hc]; cases baseEvent k r <;> rfl

end Cross
