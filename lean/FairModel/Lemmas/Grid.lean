import FairModel.Lemmas.Prelude
import FairModel.Model.Grid

namespace Grid

/-- L1 norm of an integer vector -/
def l1 (v : List Int) : Nat := (v.map Int.natAbs).sum

@[simp] theorem l1_nil : l1 [] = 0 := rfl
@[simp] theorem l1_cons (a : Int) (v : List Int) : l1 (a :: v) = a.natAbs + l1 v := by simp [l1]

/-! ### the `values` of one coordinate -/

theorem mem_negVals {m : Nat} {v : Int} : v ∈ negVals m ↔ -(m : Int) ≤ v ∧ v < 0 := by
  simp only [negVals, List.mem_map, List.mem_reverse, List.mem_range]
  constructor
  · rintro ⟨i, hi, rfl⟩; omega
  · intro ⟨h1, h2⟩; exact ⟨(-v - 1).toNat, by omega, by omega⟩

theorem mem_nonnegVals {m : Nat} {v : Int} : v ∈ nonnegVals m ↔ 0 ≤ v ∧ v ≤ (m : Int) := by
  simp only [nonnegVals, List.mem_map, List.mem_range]
  constructor
  · rintro ⟨i, hi, rfl⟩; omega
  · intro ⟨h1, h2⟩; exact ⟨v.toNat, by omega, by omega⟩

theorem mem_values {neg last : Bool} {m : Nat} {v : Int} :
    v ∈ values neg last m ↔
      (if last then v.natAbs = m else v.natAbs ≤ m) ∧ (neg = false → 0 ≤ v) := by
  unfold values
  cases last <;> cases neg
  · simp [mem_nonnegVals]; omega
  · simp [mem_negVals, mem_nonnegVals]; omega
  · simp; omega
  · by_cases hm : 0 < m
    · simp [hm]; omega
    · simp [hm]; omega

theorem negVals_nodup (m : Nat) : (negVals m).Nodup := by
  unfold negVals
  refine List.Nodup.map ?_ (List.nodup_reverse.mpr List.nodup_range)
  intro a b h; simp at h; omega

theorem nonnegVals_nodup (m : Nat) : (nonnegVals m).Nodup := by
  unfold nonnegVals
  refine List.Nodup.map ?_ List.nodup_range
  intro a b h; simpa using h

theorem values_nodup (neg last : Bool) (m : Nat) : (values neg last m).Nodup := by
  unfold values
  split
  · split
    · next h => simp at h; simp; omega
    · simp
  · split
    · refine List.Nodup.append (negVals_nodup m) (nonnegVals_nodup m) ?_
      intro a h1 h2
      rw [mem_negVals] at h1; rw [mem_nonnegVals] at h2; omega
    · exact nonnegVals_nodup m

/-! ### the lattice -/

/-- `v` has one entry per coordinate and is non-negative wherever negatives are not allowed -/
def SignOK : List Bool → List Int → Prop
  | [], [] => True
  | b :: bs, v :: vs => (b = false → 0 ≤ v) ∧ SignOK bs vs
  | _, _ => False

theorem SignOK.length_eq : ∀ {bs : List Bool} {v : List Int}, SignOK bs v → v.length = bs.length
  | [], [], _ => rfl
  | [], _ :: _, h => by simp [SignOK] at h
  | _ :: _, [], h => by simp [SignOK] at h
  | _ :: bs, _ :: vs, h => by simp [SignOK] at h; simp [SignOK.length_eq h.2]

theorem signOK_nil_left {v : List Int} : SignOK [] v ↔ v = [] := by
  cases v <;> simp [SignOK]

/-- The lattice is EXACTLY the set of integer points of the (sign-restricted) L1 ball of radius
    `m`, resp. of the L1 sphere when the norm is forced. -/
theorem mem_lattice : ∀ (bs : List Bool) (f : Bool) (m : Nat) (v : List Int),
    v ∈ lattice bs f m ↔
      SignOK bs v ∧ (if f && !bs.isEmpty then l1 v = m else l1 v ≤ m)
  | [], f, m, v => by
    simp [lattice, signOK_nil_left]
    intro h; simp [h]
  | b :: bs, f, m, v => by
    simp only [lattice, List.mem_flatMap, List.mem_map]
    constructor
    · rintro ⟨a, ha, u, hu, rfl⟩
      rw [mem_values] at ha
      rw [mem_lattice bs f (m - a.natAbs) u] at hu
      obtain ⟨hs, hl⟩ := hu
      refine ⟨⟨ha.2, hs⟩, ?_⟩
      cases bs with
      | nil =>
        rw [signOK_nil_left] at hs; subst hs
        cases f <;> simp_all
      | cons b' bs' =>
        cases f <;> simp_all <;> omega
    · intro ⟨hs, hl⟩
      cases v with
      | nil => simp [SignOK] at hs
      | cons a u =>
        simp only [SignOK] at hs
        refine ⟨a, ?_, u, ?_, rfl⟩
        · rw [mem_values]
          refine ⟨?_, hs.1⟩
          cases bs with
          | nil =>
            have := signOK_nil_left.mp hs.2; subst this
            cases f <;> simp_all
          | cons b' bs' => cases f <;> simp_all <;> omega
        · rw [mem_lattice bs f (m - a.natAbs) u]
          refine ⟨hs.2, ?_⟩
          cases bs with
          | nil =>
            have := signOK_nil_left.mp hs.2; subst this
            cases f <;> simp_all
          | cons b' bs' => cases f <;> simp_all <;> omega

theorem lattice_nodup : ∀ (bs : List Bool) (f : Bool) (m : Nat), (lattice bs f m).Nodup
  | [], f, m => by simp [lattice]
  | b :: bs, f, m => by
    simp only [lattice]
    rw [List.nodup_flatMap]
    constructor
    · intro a _
      exact List.Nodup.map (fun x y h => by simpa using h) (lattice_nodup bs f _)
    · refine List.Pairwise.imp ?_ (values_nodup b _ m)
      intro a a' hne
      simp only [Function.onFun, List.disjoint_left, List.mem_map]
      rintro x ⟨u, _, rfl⟩ ⟨u', _, h⟩
      simp at h; exact hne h.1.symm

theorem lattice_ne_nil : ∀ (bs : List Bool) (f : Bool) (m : Nat), lattice bs f m ≠ []
  | [], f, m => by simp [lattice]
  | b :: bs, f, m => by
    intro h
    have hm : (m : Int) ∈ values b (bs.isEmpty && f) m := by
      rw [mem_values]; split <;> simp
    obtain ⟨u, hu⟩ := List.exists_mem_of_ne_nil _ (lattice_ne_nil bs f (m - (m : Int).natAbs))
    have : ((m : Int) :: u) ∈ lattice (b :: bs) f m := by
      simp only [lattice, List.mem_flatMap, List.mem_map]
      exact ⟨m, hm, u, hu, rfl⟩
    rw [h] at this; simp at this

/-! ### bridge: the source-derived definitions of `Model/Grid.lean` (over `Generated/GridSrc.lean`)
    coincide with the closed forms every lemma below is about.  These are the lemmas an edit of a lifted
    source expression breaks. -/

theorem posPart_def (q : Rat) : posPart q = if q < 0 then 0 else q := by
  simp [posPart, GridSrc.posClip]

theorem negPart_def (q : Rat) : negPart q = if -q < 0 then 0 else -q := by
  simp [negPart, GridSrc.negClip, GridSrc.negOf, GridSrc.negFromClipped]

theorem scale_def (limit : Rat) (n : Nat) : GridSrc.scale limit (n : Nat) = limit / (n : Rat) := by
  simp [GridSrc.scale]

theorem scaleCoefs_def (limit : Rat) (n : Nat) (v : List Int) :
    scaleCoefs limit n v = v.map (fun (c : Int) => (c : Rat) * (limit / (n : Rat))) := by
  simp [scaleCoefs, scale_def]

theorem pyRange_nonneg (m : Nat) : GridSrc.pyRange 0 ((m : Int) + 1) = nonnegVals m := by
  simp [GridSrc.pyRange, nonnegVals]
  
theorem pyRange_sym (m : Nat) :
    GridSrc.pyRange (-(m : Int)) ((m : Int) + 1) = negVals m ++ nonnegVals m := by
  apply List.ext_getElem
  · simp [GridSrc.pyRange, negVals, nonnegVals]; omega
  · intro i h1 h2
    simp only [GridSrc.pyRange, List.getElem_map, List.getElem_range]
    by_cases hi : i < m
    · rw [List.getElem_append_left (by simpa [negVals] using hi)]
      simp [negVals]; omega
    · rw [List.getElem_append_right (by simpa [negVals] using hi)]
      simp [negVals, nonnegVals]; omega

theorem values_src (neg last : Bool) (m : Nat) :
    (if last then GridSrc.lastValues neg (m : Int) else GridSrc.rangeValues neg (m : Int))
      = values neg last m := by
  unfold values GridSrc.lastValues GridSrc.rangeValues
  cases last <;> cases neg <;> simp [pyRange_nonneg, pyRange_sym]

theorem natAbs_le_of_mem_values {neg last : Bool} {m : Nat} {v : Int} (h : v ∈ values neg last m) :
    v.natAbs ≤ m := by
  unfold values at h
  cases last <;> cases neg
  · simp [nonnegVals] at h; obtain ⟨a, ha, rfl⟩ := h; omega
  · simp [negVals, nonnegVals] at h
    rcases h with ⟨a, ha, rfl⟩ | ⟨a, ha, rfl⟩ <;> omega
  · simp at h; subst h; simp
  · simp at h; split at h <;> simp at h
    · rcases h with rfl | rfl <;> simp
    · subst h; simp

theorem budget_src (i : Int) (m : Nat) (v : Int) (h : v.natAbs ≤ m) :
    GridSrc.budget i (m : Int) v = ((m - v.natAbs : Nat) : Int) := by
  simp only [GridSrc.budget, GridSrc.pyAbs]; split <;> omega

theorem accumulate_eq (na : List Bool) (f : Bool) : ∀ (fuel i m : Nat), i ≤ na.length →
    na.length - i + 1 ≤ fuel →
    accumulate na.length na f fuel (i : Int) (m : Int) = lattice (na.drop i) f m := by
  intro fuel
  induction fuel with
  | zero => intro i m _ h; omega
  | succ fuel ih =>
    intro i m hi hf
    rw [accumulate]
    by_cases hend : i = na.length
    · subst hend; simp [GridSrc.atEnd, lattice]
    · have hlt : i < na.length := by omega
      have hdrop : na.drop i = na[i] :: na.drop (i + 1) := List.drop_eq_getElem_cons hlt
      have hat : GridSrc.atEnd (i : Int) (na.length : Int) = false := by
        simp [GridSrc.atEnd]; omega
      have hlast : GridSrc.lastForced (i : Int) (na.length : Int) f = ((na.drop (i + 1)).isEmpty && f) := by
        simp only [GridSrc.lastForced]
        congr 1
        rw [Bool.eq_iff_iff]
        simp only [decide_eq_true_eq, List.isEmpty_iff, List.drop_eq_nil_iff]
        omega
      have hneg : na.getD (i : Int).toNat false = na[i] := by
        simp [List.getD_eq_getElem?_getD, hlt]
      simp only [hat, Bool.false_eq_true, if_false, hneg, hlast, values_src, hdrop, lattice]
      apply List.flatMap_congr
      intro v hv
      have hle := natAbs_le_of_mem_values hv
      rw [budget_src _ _ _ hle]
      have hnext : GridSrc.nextIndex (i : Int) (m : Int) v = ((i + 1 : Nat) : Int) := by
        simp [GridSrc.nextIndex]
      rw [hnext, ih (i + 1) (m - v.natAbs) (by omega) (by omega)]

theorem srcLattice_eq (na : List Bool) (f : Bool) (m : Nat) : srcLattice na f m = lattice na f m := by
  have := accumulate_eq na f (na.length + 1) 0 m (by omega) (by omega)
  simpa [srcLattice, GridSrc.startIndex] using this


theorem enough_def (a b : Nat) : GridSrc.enough (a : Nat) (b : Nat) = decide (b ≤ a) := by
  simp [GridSrc.enough]

theorem nextUnits_def (n : Nat) : GridSrc.nextUnits (n : Nat) = ((n + 1 : Nat) : Int) := by
  simp [GridSrc.nextUnits]

theorem truncate_def {α : Type} (acc : List α) (gs : Nat) : GridSrc.truncate acc (gs : Nat) = acc.take gs := by
  simp [GridSrc.truncate, GridSrc.pySliceTo]

theorem nUnits_def (na : List Bool) (f : Bool) (gs : Nat) :
    nUnits na f gs = (List.range (gs + 1)).find? (fun n => decide (gs ≤ (lattice na f n).length)) := by
  simp [nUnits, srcLattice_eq, enough_def]

theorem grid_def (na : List Bool) (f : Bool) (gs : Nat) (limit : Rat) (rows : List (List Rat × List Rat)) :
    grid na f gs limit rows =
      match nUnits na f gs with
      | none => .error .noUnits
      | some 0 => .error .zeroDiv
      | some (n + 1) => .ok (n + 1, ((lattice na f (n + 1)).take gs).map
          (fun v => lambdaOf rows (scaleCoefs limit (n + 1) v))) := by
  unfold grid
  split <;> simp_all [srcLattice_eq, truncate_def]

theorem trueDim_src (na : List Bool) (f : Bool) :
    (GridSrc.trueDim (na.length : Nat) f).toNat = trueDim na f := by
  unfold GridSrc.trueDim trueDim; split <;> omega

theorem aggL_max (x : Rat) (xs : List Rat) : aggL GridSrc.gammaAgg x xs = maxL x xs := rfl
theorem aggL_min (x : Rat) (xs : List Rat) : aggL GridSrc.selAgg x xs = minL x xs := rfl

theorem tradeoff_cons (cw obj g : Rat) (gs : List Rat) :
    tradeoff cw obj (g :: gs) = some ((1 - cw) * obj + cw * maxL g gs) := by
  simp [tradeoff, GridSrc.loss, aggL_max]

theorem argminFirst_cons (x : Rat) (xs : List Rat) :
    argminFirst (x :: xs) = some ((x :: xs).idxOf (minL x xs)) := by
  simp [argminFirst, aggL_min]

theorem relabel_def (w : List Rat) :
    relabel w = w.map (fun x => (if 0 < x then 1 else 0, if x < 0 then -x else x)) := by
  unfold relabel
  apply List.map_congr_left
  intro x _
  simp only [GridSrc.relabelY, GridSrc.relabelW, GridSrc.ratAbs, Prod.mk.injEq]
  by_cases h : 0 < x <;> simp [h]

/-- move the first coordinate one step away from zero -/
def bump : List Int → List Int
  | [] => []
  | a :: u => (if 0 ≤ a then a + 1 else a - 1) :: u

/-- The lattice grows strictly with the radius as soon as one coordinate is free
    (`trueDim ≥ 1`), so the `while True` search of `_GridGenerator.__init__` terminates. -/
theorem lattice_length_lt (b : Bool) (bs : List Bool) (f : Bool) (m : Nat)
    (h : ¬(bs = [] ∧ f = true)) :
    (lattice (b :: bs) f m).length < (lattice (b :: bs) f (m + 1)).length := by
  obtain ⟨u0, hu0⟩ := List.exists_mem_of_ne_nil _ (lattice_ne_nil bs f (m + 1))
  have hlast : (bs.isEmpty && f) = false := by
    cases bs <;> cases f <;> simp_all
  have hw : ((0 : Int) :: u0) ∈ lattice (b :: bs) f (m + 1) := by
    simp only [lattice, List.mem_flatMap, List.mem_map]
    refine ⟨0, ?_, u0, by simpa using hu0, rfl⟩
    rw [mem_values, hlast]; simp
  have hsub : ∀ x ∈ ((0 : Int) :: u0) :: (lattice (b :: bs) f m).map bump,
      x ∈ lattice (b :: bs) f (m + 1) := by
    intro x hx
    rcases List.mem_cons.mp hx with rfl | hx
    · exact hw
    · obtain ⟨v, hv, rfl⟩ := List.mem_map.mp hx
      rw [mem_lattice] at hv ⊢
      cases v with
      | nil => simp [SignOK] at hv
      | cons a u =>
        simp only [SignOK, bump] at hv ⊢
        refine ⟨⟨fun hb => ?_, hv.1.2⟩, ?_⟩
        · have := hv.1.1 hb; simp [this]; omega
        · have h2 := hv.2
          cases f <;> simp_all <;> split <;> omega
  have hnd : (((0 : Int) :: u0) :: (lattice (b :: bs) f m).map bump).Nodup := by
    rw [List.nodup_cons]
    constructor
    · intro hx
      obtain ⟨v, hv, hbv⟩ := List.mem_map.mp hx
      cases v with
      | nil => simp [bump] at hbv
      | cons a u => simp only [bump, List.cons.injEq] at hbv; split at hbv <;> omega
    · refine List.Nodup.map_on ?_ (lattice_nodup _ _ _)
      intro x hx y hy hxy
      rw [mem_lattice] at hx hy
      cases x with
      | nil => simp [SignOK] at hx
      | cons a u =>
        cases y with
        | nil => simp [SignOK] at hy
        | cons a' u' =>
          simp only [bump, List.cons.injEq] at hxy ⊢
          refine ⟨?_, hxy.2⟩
          have := hxy.1
          split at this <;> split at this <;> omega
  have := (List.subperm_of_subset hnd hsub).length_le
  simp at this; omega

theorem lattice_length_ge (b : Bool) (bs : List Bool) (f : Bool) (h : ¬(bs = [] ∧ f = true)) :
    ∀ m : Nat, m + 1 ≤ (lattice (b :: bs) f m).length
  | 0 => by
    have := lattice_ne_nil (b :: bs) f 0
    exact Nat.succ_le_of_lt (List.length_pos_iff.mpr this)
  | m + 1 => by
    have := lattice_length_ge b bs f h m
    have := lattice_length_lt b bs f m h
    omega

/-- The `while True` search terminates and returns the least sufficient radius. -/
theorem nUnits_spec (b : Bool) (bs : List Bool) (f : Bool) (gs : Nat) (h : ¬(bs = [] ∧ f = true)) :
    ∃ n, nUnits (b :: bs) f gs = some n ∧ n ≤ gs ∧ gs ≤ (lattice (b :: bs) f n).length ∧
      ∀ k < n, (lattice (b :: bs) f k).length < gs := by
  rw [nUnits_def]
  cases hfind : (List.range (gs + 1)).find?
      (fun n => decide (gs ≤ (lattice (b :: bs) f n).length)) with
  | none =>
    rw [List.find?_eq_none] at hfind
    have := hfind gs (by simp)
    have := lattice_length_ge b bs f h gs
    simp at *; omega
  | some n =>
    rw [List.find?_range_eq_some] at hfind
    refine ⟨n, rfl, ?_, by simpa using hfind.1, ?_⟩
    · have := hfind.2.1; simp at this; omega
    · intro k hk; have := hfind.2.2 k hk; simpa using this

/-! ### dot products, positive and negative parts -/

@[simp] theorem dot_nil_left (b : List Rat) : dot [] b = 0 := by simp [dot]
@[simp] theorem dot_nil_right (a : List Rat) : dot a [] = 0 := by simp [dot]
@[simp] theorem dot_cons (x y : Rat) (a b : List Rat) : dot (x :: a) (y :: b) = x * y + dot a b := by
  simp [dot]

theorem dot_nonneg : ∀ (a b : List Rat), (∀ x ∈ a, 0 ≤ x) → (∀ x ∈ b, 0 ≤ x) → 0 ≤ dot a b
  | [], _, _, _ => by simp
  | _ :: _, [], _, _ => by simp
  | x :: a, y :: b, ha, hb => by
    rw [dot_cons]
    have h1 := dot_nonneg a b (fun z hz => ha z (by simp [hz])) (fun z hz => hb z (by simp [hz]))
    have h2 := mul_nonneg (ha x (by simp)) (hb y (by simp))
    linarith

theorem dot_le_sum : ∀ (c P : List Rat), (∀ x ∈ c, 0 ≤ x ∧ x ≤ 1) → (∀ p ∈ P, 0 ≤ p) →
    dot c P ≤ P.sum
  | [], P, _, hP => by simpa using List.sum_nonneg hP
  | _ :: _, [], _, _ => by simp
  | x :: c, y :: P, hc, hP => by
    rw [dot_cons, List.sum_cons]
    have h1 := dot_le_sum c P (fun z hz => hc z (by simp [hz])) (fun z hz => hP z (by simp [hz]))
    have hx := hc x (by simp)
    have hy := hP y (by simp)
    nlinarith

theorem posPart_nonneg (q : Rat) : 0 ≤ posPart q := by rw [posPart_def]; split <;> linarith
theorem negPart_nonneg (q : Rat) : 0 ≤ negPart q := by rw [negPart_def]; split <;> linarith
theorem posPart_sub_negPart (q : Rat) : posPart q - negPart q = q := by
  rw [posPart_def, negPart_def]; split <;> split <;> linarith
theorem posPart_add_negPart (q : Rat) : posPart q + negPart q = |q| := by
  rw [posPart_def, negPart_def]
  split
  · next h => rw [abs_of_neg h]; split <;> linarith
  · next h => rw [abs_of_nonneg (not_lt.mp h)]; split <;> linarith

theorem dot_vadd : ∀ (a b P : List Rat), a.length = P.length → b.length = P.length →
    dot (vadd a b) P = dot a P + dot b P
  | [], b, P, h1, _ => by
    have : P = [] := List.length_eq_zero_iff.mp (by simpa using h1.symm)
    simp [vadd, this]
  | _ :: _, [], P, h1, h2 => by simp at h2; simp [← h2] at h1
  | _ :: _, _ :: _, [], h1, _ => by simp at h1
  | x :: a, y :: b, z :: P, h1, h2 => by
    simp only [vadd, List.zipWith_cons_cons, dot_cons]
    have := dot_vadd a b P (by simpa using h1) (by simpa using h2)
    simp only [vadd] at this
    rw [this]; ring

theorem vadd_length (a b : List Rat) : (vadd a b).length = min a.length b.length := by
  simp [vadd]

theorem colSums_length (d : Nat) : ∀ rows : List (List Rat), (∀ r ∈ rows, r.length = d) →
    (colSums d rows).length = d
  | [], _ => by simp [colSums, zeroVec]
  | r :: rows, h => by
    have ih := colSums_length d rows (fun x hx => h x (by simp [hx]))
    simp only [colSums, List.foldr_cons] at ih ⊢
    rw [vadd_length, ih, h r (by simp)]; simp

theorem dot_zeroVec (d : Nat) (P : List Rat) : dot (zeroVec d) P = 0 := by
  induction d generalizing P with
  | zero => simp [zeroVec]
  | succ d ih =>
    cases P with
    | nil => simp
    | cons y P => simp only [zeroVec, List.replicate_succ, dot_cons] at ih ⊢; rw [ih]; ring

theorem sum_dot_rows (d : Nat) (P : List Rat) (hP : P.length = d) :
    ∀ rows : List (List Rat), (∀ r ∈ rows, r.length = d) →
      (rows.map (fun r => dot r P)).sum = dot (colSums d rows) P
  | [], _ => by simp [colSums, dot_zeroVec]
  | r :: rows, h => by
    have ih := sum_dot_rows d P hP rows (fun x hx => h x (by simp [hx]))
    have hl := colSums_length d rows (fun x hx => h x (by simp [hx]))
    simp only [List.map_cons, List.sum_cons, ih, colSums, List.foldr_cons]
    rw [dot_vadd]
    · rw [h r (by simp), hP]
    · simp only [colSums] at hl; rw [hl, hP]

theorem vadd_nonneg (a b : List Rat) (ha : ∀ x ∈ a, 0 ≤ x) (hb : ∀ x ∈ b, 0 ≤ x) :
    ∀ x ∈ vadd a b, 0 ≤ x := by
  induction a generalizing b with
  | nil => simp [vadd]
  | cons x a ih =>
    cases b with
    | nil => simp [vadd]
    | cons y b =>
      intro z hz
      simp only [vadd, List.zipWith_cons_cons, List.mem_cons] at hz
      rcases hz with rfl | hz
      · have := ha x (by simp); have := hb y (by simp); linarith
      · exact ih b (fun z hz => ha z (by simp [hz])) (fun z hz => hb z (by simp [hz])) z hz

theorem colSums_nonneg (d : Nat) : ∀ rows : List (List Rat), (∀ r ∈ rows, ∀ x ∈ r, 0 ≤ x) →
    ∀ x ∈ colSums d rows, 0 ≤ x
  | [], _ => by simp [colSums, zeroVec]
  | r :: rows, h => by
    simp only [colSums, List.foldr_cons]
    exact vadd_nonneg _ _ (h r (by simp)) (colSums_nonneg d rows (fun x hx => h x (by simp [hx])))

/-! ### the multiplier vectors -/

theorem basisOK_spec {d : Nat} {rows : List (List Rat × List Rat)} (h : basisOK d rows = true) :
    (∀ r ∈ rows, r.1.length = d ∧ r.2.length = d ∧ (∀ x ∈ r.1, 0 ≤ x) ∧ (∀ x ∈ r.2, 0 ≤ x)) ∧
    (∀ x ∈ colSums d (rows.map (·.1)), x ≤ 1) ∧ (∀ x ∈ colSums d (rows.map (·.2)), x ≤ 1) := by
  simp only [basisOK, Bool.and_eq_true, List.all_eq_true, decide_eq_true_eq] at h
  refine ⟨fun r hr => ?_, h.1.2, h.2⟩
  have := h.1.1 r hr
  exact ⟨this.1.1.1, this.1.1.2, this.1.2, this.2⟩

theorem lambdaOf_nonneg (rows : List (List Rat × List Rat)) (coefs : List Rat)
    (h : ∀ r ∈ rows, (∀ x ∈ r.1, 0 ≤ x) ∧ (∀ x ∈ r.2, 0 ≤ x)) :
    ∀ x ∈ lambdaOf rows coefs, 0 ≤ x := by
  intro x hx
  simp only [lambdaOf, List.mem_map] at hx
  obtain ⟨r, hr, rfl⟩ := hx
  have hp : ∀ z ∈ coefs.map posPart, 0 ≤ z := by
    intro z hz; obtain ⟨q, _, rfl⟩ := List.mem_map.mp hz; exact posPart_nonneg q
  have hn : ∀ z ∈ coefs.map negPart, 0 ≤ z := by
    intro z hz; obtain ⟨q, _, rfl⟩ := List.mem_map.mp hz; exact negPart_nonneg q
  have := dot_nonneg r.1 _ (h r hr).1 hp
  have := dot_nonneg r.2 _ (h r hr).2 hn
  linarith

theorem lambdaOf_sum_le {d : Nat} {rows : List (List Rat × List Rat)} (hb : basisOK d rows = true)
    (coefs : List Rat) (hc : coefs.length = d) :
    (lambdaOf rows coefs).sum ≤ (coefs.map posPart).sum + (coefs.map negPart).sum := by
  obtain ⟨hr, hp, hn⟩ := basisOK_spec hb
  have hP : ∀ z ∈ coefs.map posPart, 0 ≤ z := by
    intro z hz; obtain ⟨q, _, rfl⟩ := List.mem_map.mp hz; exact posPart_nonneg q
  have hN : ∀ z ∈ coefs.map negPart, 0 ≤ z := by
    intro z hz; obtain ⟨q, _, rfl⟩ := List.mem_map.mp hz; exact negPart_nonneg q
  have e : (lambdaOf rows coefs).sum =
      ((rows.map (·.1)).map (fun r => dot r (coefs.map posPart))).sum +
      ((rows.map (·.2)).map (fun r => dot r (coefs.map negPart))).sum := by
    simp only [lambdaOf, List.map_map]
    rw [← List.sum_map_add]; rfl
  rw [e, sum_dot_rows d _ (by simpa using hc), sum_dot_rows d _ (by simpa using hc)]
  · have h1 := dot_le_sum (colSums d (rows.map (·.1))) (coefs.map posPart)
      (fun x hx => ⟨colSums_nonneg d _ (by
        intro r hr' x hx; obtain ⟨r0, hr0, rfl⟩ := List.mem_map.mp hr'; exact (hr r0 hr0).2.2.1 x hx) x hx,
        hp x hx⟩) hP
    have h2 := dot_le_sum (colSums d (rows.map (·.2))) (coefs.map negPart)
      (fun x hx => ⟨colSums_nonneg d _ (by
        intro r hr' x hx; obtain ⟨r0, hr0, rfl⟩ := List.mem_map.mp hr'; exact (hr r0 hr0).2.2.2 x hx) x hx,
        hn x hx⟩) hN
    linarith
  · intro r hr'; obtain ⟨r0, hr0, rfl⟩ := List.mem_map.mp hr'; exact (hr r0 hr0).2.1
  · intro r hr'; obtain ⟨r0, hr0, rfl⟩ := List.mem_map.mp hr'; exact (hr r0 hr0).1

theorem scale_parts_sum (s : Rat) (hs : 0 ≤ s) (n : Nat) (limit : Rat) (hsn : limit / (n : Rat) = s) :
    ∀ v : List Int, ((scaleCoefs limit n v).map posPart).sum + ((scaleCoefs limit n v).map negPart).sum
      = (l1 v : Rat) * s
  | [] => by simp [scaleCoefs_def]
  | a :: v => by
    have ih := scale_parts_sum s hs n limit hsn v
    simp only [scaleCoefs_def, List.map_cons, List.sum_cons, l1_cons, Nat.cast_add] at ih ⊢
    rw [hsn] at ih ⊢
    have := posPart_add_negPart ((a : Rat) * s)
    rw [abs_mul, abs_of_nonneg hs] at this
    have hc : ((a.natAbs : Nat) : Rat) = |(a : Rat)| := by
      rw [Nat.cast_natAbs, Int.cast_abs]
    rw [hc]; linarith

/-! ### injectivity of the basis map on a unit basis -/

theorem range_map_zero (d : Nat) : (List.range d).map (fun _ => (0 : Rat)) = zeroVec d := by
  induction d with
  | zero => rfl
  | succ d ih =>
    rw [List.range_succ_eq_map, List.map_cons, List.map_map, zeroVec, List.replicate_succ]
    congr 1

theorem unitVec_succ_zero (d : Nat) : unitVec (d + 1) 0 = 1 :: zeroVec d := by
  rw [unitVec, List.range_succ_eq_map, List.map_cons, List.map_map, ← range_map_zero]
  simp only [if_true, List.cons.injEq, true_and]
  apply List.map_congr_left
  intro i _; simp

theorem unitVec_succ_succ (d j : Nat) : unitVec (d + 1) (j + 1) = 0 :: unitVec d j := by
  rw [unitVec, List.range_succ_eq_map, List.map_cons, List.map_map, unitVec]
  simp

theorem dot_unitVec : ∀ (d j : Nat) (P : List Rat), P.length = d → j < d →
    dot (unitVec d j) P = P.getD j 0
  | 0, _, _, _, hj => by omega
  | d + 1, j, [], hP, _ => by simp at hP
  | d + 1, 0, y :: P, _, _ => by
    rw [unitVec_succ_zero, dot_cons, dot_zeroVec]; simp
  | d + 1, j + 1, y :: P, hP, hj => by
    rw [unitVec_succ_succ, dot_cons, dot_unitVec d j P (by simpa using hP) (by omega)]; simp

theorem unitBasis_spec {na : List Bool} {rows : List (List Rat × List Rat)}
    (h : unitBasis na rows = true) (j : Nat) (hj : j < na.length) :
    (∃ r ∈ rows, r.1 = unitVec na.length j ∧ r.2 = zeroVec na.length) ∧
    (na.getD j false = true → ∃ r ∈ rows, r.2 = unitVec na.length j ∧ r.1 = zeroVec na.length) := by
  simp only [unitBasis, List.all_eq_true, List.mem_range, Bool.and_eq_true, List.any_eq_true,
    decide_eq_true_eq, Bool.or_eq_true, Bool.not_eq_true'] at h
  have := h j hj
  refine ⟨?_, fun hn => ?_⟩
  · obtain ⟨r, hr, h1, h2⟩ := this.1; exact ⟨r, hr, h1, h2⟩
  · rcases this.2 with h0 | ⟨r, hr, h1, h2⟩
    · rw [hn] at h0; cases h0
    · exact ⟨r, hr, h1, h2⟩

theorem SignOK.nonneg_of : ∀ {bs : List Bool} {v : List Int}, SignOK bs v →
    ∀ (j : Nat) (hj : j < v.length), bs.getD j false = false → 0 ≤ v[j]
  | [], [], _, j, hj, _ => by simp at hj
  | [], _ :: _, h, _, _, _ => by simp [SignOK] at h
  | _ :: _, [], h, _, _, _ => by simp [SignOK] at h
  | b :: bs, a :: v, h, 0, _, hb => by
    simp only [SignOK] at h; simp at hb; simpa using h.1 hb
  | b :: bs, a :: v, h, j + 1, hj, hb => by
    simp only [SignOK] at h
    simpa using SignOK.nonneg_of h.2 j (by simpa using hj) (by simpa using hb)

theorem coef_inj (s : Rat) (hs : 0 < s) (a a' : Int) (hp : posPart (a * s) = posPart (a' * s))
    (hn : negPart (a * s) = negPart (a' * s)) : a = a' := by
  have h1 := posPart_sub_negPart ((a : Rat) * s)
  have h2 := posPart_sub_negPart ((a' : Rat) * s)
  have : (a : Rat) * s = a' * s := by rw [← h1, ← h2, hp, hn]
  have := mul_right_cancel₀ (ne_of_gt hs) this
  exact_mod_cast this

theorem negPart_of_nonneg (s : Rat) (hs : 0 < s) (a : Int) (ha : 0 ≤ a) : negPart ((a : Rat) * s) = 0 := by
  have : (0 : Rat) ≤ (a : Rat) * s := mul_nonneg (by exact_mod_cast ha) (le_of_lt hs)
  rw [negPart_def]; split <;> linarith

theorem getD_scale_part (g : Rat → Rat) (limit : Rat) (n : Nat) (v : List Int) (j : Nat) (hj : j < v.length) :
    ((scaleCoefs limit n v).map g).getD j 0 = g ((v[j] : Rat) * (limit / (n : Rat))) := by
  simp [scaleCoefs_def, List.getD_eq_getElem?_getD, hj]

/-- On a unit basis the map "lattice point ↦ multiplier vector" is injective. -/
theorem lambdaOf_inj {na : List Bool} {rows : List (List Rat × List Rat)}
    (hu : unitBasis na rows = true) (limit : Rat) (n : Nat) (hs : 0 < limit / (n : Rat))
    (v v' : List Int) (hv : SignOK na v) (hv' : SignOK na v')
    (h : lambdaOf rows (scaleCoefs limit n v) = lambdaOf rows (scaleCoefs limit n v')) : v = v' := by
  have hl := hv.length_eq
  have hl' := hv'.length_eq
  have hrows := List.map_inj_left.mp h
  apply List.ext_getElem (by rw [hl, hl'])
  intro j hj hj'
  have hjd : j < na.length := by omega
  obtain ⟨⟨r, hr, hr1, hr2⟩, hneg⟩ := unitBasis_spec hu j hjd
  have hlen : ∀ (g : Rat → Rat) (w : List Int), w.length = na.length →
      ((scaleCoefs limit n w).map g).length = na.length := by
    intro g w hw; simp [scaleCoefs_def, hw]
  have hpos : posPart ((v[j] : Rat) * (limit / n)) = posPart ((v'[j] : Rat) * (limit / n)) := by
    have := hrows r hr
    simp only [hr1, hr2, dot_zeroVec, add_zero] at this
    rw [dot_unitVec _ j _ (hlen _ v hl) hjd, dot_unitVec _ j _ (hlen _ v' hl') hjd,
      getD_scale_part _ _ _ _ _ hj, getD_scale_part _ _ _ _ _ hj'] at this
    exact this
  have hnegp : negPart ((v[j] : Rat) * (limit / n)) = negPart ((v'[j] : Rat) * (limit / n)) := by
    cases hb : na.getD j false with
    | true =>
      obtain ⟨r, hr, hr2, hr1⟩ := hneg hb
      have := hrows r hr
      simp only [hr1, hr2, dot_zeroVec, zero_add] at this
      rw [dot_unitVec _ j _ (hlen _ v hl) hjd, dot_unitVec _ j _ (hlen _ v' hl') hjd,
        getD_scale_part _ _ _ _ _ hj, getD_scale_part _ _ _ _ _ hj'] at this
      exact this
    | false =>
      rw [negPart_of_nonneg _ hs _ (hv.nonneg_of j hj hb), negPart_of_nonneg _ hs _ (hv'.nonneg_of j hj' hb)]
  exact coef_inj _ hs _ _ hpos hnegp

/-! ### selection -/

theorem minL_le_init : ∀ (x : Rat) (xs : List Rat), minL x xs ≤ x
  | _, [] => le_refl _
  | x, y :: ys => by
    simp only [minL]
    split
    · next h => exact le_trans (minL_le_init y ys) (le_of_lt h)
    · exact minL_le_init x ys

theorem minL_le_mem : ∀ (x : Rat) (xs : List Rat), ∀ y ∈ xs, minL x xs ≤ y
  | _, [], y, hy => by simp at hy
  | x, z :: zs, y, hy => by
    simp only [minL]
    rcases List.mem_cons.mp hy with rfl | hy
    · split
      · exact minL_le_init _ _
      · next h => exact le_trans (minL_le_init x zs) (not_lt.mp h)
    · exact minL_le_mem _ zs y hy

theorem minL_mem : ∀ (x : Rat) (xs : List Rat), minL x xs ∈ x :: xs
  | _, [] => by simp [minL]
  | x, y :: ys => by
    simp only [minL]
    split
    · have := minL_mem y ys; simp at this ⊢; tauto
    · have := minL_mem x ys; simp at this ⊢; tauto

theorem ne_of_lt_idxOf : ∀ (l : List Rat) (a : Rat) (j : Nat) (_ : j < l.idxOf a) (hl : j < l.length),
    l[j] ≠ a
  | [], _, _, _, hl => by simp at hl
  | b :: l, a, j, hj, hl => by
    rw [List.idxOf_cons] at hj
    by_cases hba : b = a
    · simp [hba] at hj
    · have hba' : (b == a) = false := by simpa using hba
      rw [hba'] at hj
      cases j with
      | zero => simpa using hba
      | succ j => simpa using ne_of_lt_idxOf l a j (by simpa using hj) (by simpa using hl)

/-! ### relabelling -/

/-- a 0/1 labeling as rationals -/
def toRat (h : List Nat) : List Rat := h.map (fun n => (n : Rat))

@[simp] theorem toRat_cons (a : Nat) (h : List Nat) : toRat (a :: h) = (a : Rat) :: toRat h := rfl
@[simp] theorem toRat_nil : toRat [] = [] := rfl

theorem posPart_of_pos {x : Rat} (h : 0 < x) : posPart x = x := by
  rw [posPart_def]; split <;> linarith
theorem posPart_of_nonpos {x : Rat} (h : ¬ 0 < x) : posPart x = 0 := by
  rw [posPart_def]; split
  · rfl
  · linarith

theorem weighted01_relabel : ∀ (w : List Rat) (h : List Nat), w.length = h.length →
    (∀ x ∈ h, x = 0 ∨ x = 1) →
    weighted01 (relabel w) h = (w.map posPart).sum - dot w (toRat h)
  | [], [], _, _ => by simp [relabel_def, weighted01]
  | [], _ :: _, hl, _ => by simp at hl
  | _ :: _, [], hl, _ => by simp at hl
  | x :: w, a :: h, hl, hb => by
    have ih := weighted01_relabel w h (by simpa using hl) (fun z hz => hb z (by simp [hz]))
    have e : weighted01 (relabel (x :: w)) (a :: h) =
        (if a = (if 0 < x then 1 else 0) then 0 else (if x < 0 then -x else x)) +
          weighted01 (relabel w) h := by
      simp only [relabel_def, List.map_cons, weighted01]
    rw [e, ih, List.map_cons, List.sum_cons, toRat_cons, dot_cons]
    rcases hb a (by simp) with rfl | rfl
    · by_cases hx : 0 < x
      · have h2 : ¬ x < 0 := not_lt.mpr (le_of_lt hx)
        rw [posPart_of_pos hx]; simp only [hx, h2, if_true, if_false]
        norm_num; ring
      · rw [posPart_of_nonpos hx]; simp only [hx, if_false, if_true]
        norm_num
    · by_cases hx : 0 < x
      · rw [posPart_of_pos hx]; simp only [hx, if_true]
        norm_num
      · rw [posPart_of_nonpos hx]; simp only [hx, if_false]
        by_cases hx0 : x < 0
        · simp only [hx0, if_true]; norm_num; ring
        · have : x = 0 := le_antisymm (not_lt.mp hx) (not_lt.mp hx0)
          subst this; norm_num

/-! ### the float starting point of the search is a lower bound -/

theorem values_length_le (b last : Bool) (m : Nat) :
    (values b last m).length ≤ (if last then (if b then 2 else 1) else (if b then 2 else 1) * (m + 1)) := by
  unfold values
  cases last <;> cases b <;> simp [negVals, nonnegVals]
  · omega
  · split <;> simp

def negCount (bs : List Bool) : Nat := (bs.filter id).length

/-- `len(build_integer_grid(m)) ≤ 2^(#coordinates that may be negative) * (m+1)^true_dim`: hence a
    lattice with at least `grid_size` points has `m ≥ (grid_size / 2^k)^(1/true_dim) - 1`, the float
    expression the implementation starts its search from. -/
theorem lattice_length_le_cube : ∀ (bs : List Bool) (f : Bool) (m : Nat),
    (lattice bs f m).length ≤ 2 ^ negCount bs * (m + 1) ^ trueDim bs f
  | [], f, m => by simp [lattice, negCount, trueDim]
  | b :: bs, f, m => by
    simp only [lattice, List.length_flatMap, List.length_map]
    have hbound : ∀ v ∈ values b (bs.isEmpty && f) m,
        (lattice bs f (m - v.natAbs)).length ≤ 2 ^ negCount bs * (m + 1) ^ trueDim bs f := by
      intro v _
      refine le_trans (lattice_length_le_cube bs f _) ?_
      apply Nat.mul_le_mul_left
      apply Nat.pow_le_pow_left; omega
    have hsum := List.sum_le_card_nsmul
      ((values b (bs.isEmpty && f) m).map (fun v => (lattice bs f (m - v.natAbs)).length))
      (2 ^ negCount bs * (m + 1) ^ trueDim bs f)
      (by intro x hx; obtain ⟨v, hv, rfl⟩ := List.mem_map.mp hx; exact hbound v hv)
    refine le_trans hsum ?_
    rw [List.length_map, nsmul_eq_mul, Nat.cast_id]
    have hv := values_length_le b (bs.isEmpty && f) m
    have hnc : negCount (b :: bs) = (if b then 1 else 0) + negCount bs := by
      cases b <;> simp [negCount]; omega
    cases bs with
    | nil =>
      cases f
      · -- not forced: trueDim [b] = 1
        simp only [List.isEmpty_nil, Bool.and_false, Bool.false_eq_true, if_false] at hv
        simp only [trueDim, negCount, List.filter_nil, List.length_nil, List.length_cons]
        cases b <;> simp at hv ⊢ <;> nlinarith
      · simp only [List.isEmpty_nil, Bool.and_true, if_true] at hv
        simp only [trueDim, negCount, List.filter_nil, List.length_nil, List.length_cons]
        cases b <;> simp at hv ⊢ <;> omega
    | cons b' bs' =>
      simp only [List.isEmpty_cons, Bool.false_and, Bool.false_eq_true, if_false] at hv
      have htd : trueDim (b :: b' :: bs') f = trueDim (b' :: bs') f + 1 := by
        cases f <;> simp [trueDim]
      rw [htd, hnc, pow_succ, pow_add]
      calc (values b false m).length * (2 ^ negCount (b' :: bs') * (m + 1) ^ trueDim (b' :: bs') f)
          ≤ ((if b then 2 else 1) * (m + 1)) * (2 ^ negCount (b' :: bs') * (m + 1) ^ trueDim (b' :: bs') f) :=
            Nat.mul_le_mul_right _ (by simpa using hv)
        _ = _ := by cases b <;> simp <;> ring

end Grid
