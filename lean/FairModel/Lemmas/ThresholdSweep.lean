/-
The threshold sweep of `_calculate_tradeoff_points` (model: `sweepSteps`, `rawPoints`): every emitted point carries
exactly the confusion counts of its own `ThresholdOperation` on the group's rows (ties included), the sweep
contains the two constant classifiers, and the generated metrics are affine in the confusion counts.
-/
import FairModel.Lemmas.Prelude
import FairModel.Model.Threshold
import FairModel.Lemmas.ThresholdSrc

namespace Threshold
open ThresholdGen

/-! ### sums and counts -/

@[simp] theorem sumBy_nil (f : Row → Rat) : sumBy f [] = 0 := rfl

@[simp] theorem sumBy_cons (f : Row → Rat) (r : Row) (rs : List Row) :
    sumBy f (r :: rs) = f r + sumBy f rs := by simp [sumBy]

theorem sumBy_congr {f g : Row → Rat} {rows : List Row} (h : ∀ r ∈ rows, f r = g r) :
    sumBy f rows = sumBy g rows := by
  induction rows with
  | nil => rfl
  | cons r rs ih =>
    rw [sumBy_cons, sumBy_cons, h r (by simp), ih (fun x hx => h x (by simp [hx]))]

theorem sumBy_lin (a b : Rat) (F G : Row → Rat) (rows : List Row) :
    sumBy (fun r => a * F r + b * G r) rows = a * sumBy F rows + b * sumBy G rows := by
  induction rows with
  | nil => simp
  | cons r rs ih => simp only [sumBy_cons, ih]; ring

theorem sumBy_ind (p : Row → Bool) (rows : List Row) :
    sumBy (fun r => if p r then 1 else 0) rows = (rows.countP p : Rat) := by
  induction rows with
  | nil => simp
  | cons r rs ih =>
    rw [sumBy_cons, ih, List.countP_cons]
    by_cases h : p r <;> simp [h]; ring

theorem countP_split (p q : Row → Bool) (rows : List Row) :
    rows.countP p = rows.countP (fun r => p r && q r) + rows.countP (fun r => p r && !q r) := by
  induction rows with
  | nil => simp
  | cons r rs ih =>
    simp only [List.countP_cons, ih]
    by_cases hp : p r <;> by_cases hq : q r <;> simp [hp, hq] <;> omega

/-! ### `sortDesc` is a permutation, sorted by decreasing score -/

theorem insertDesc_perm (r : Row) (l : List Row) : (insertDesc r l).Perm (r :: l) := by
  induction l with
  | nil => exact List.Perm.refl _
  | cons y ys ih =>
    unfold insertDesc
    split
    · exact List.Perm.refl _
    · exact (List.Perm.cons y ih).trans (List.Perm.swap r y ys)

theorem sortDesc_perm (rows : List Row) : (sortDesc rows).Perm rows := by
  induction rows with
  | nil => exact List.Perm.refl _
  | cons r rs ih => exact (insertDesc_perm r _).trans (List.Perm.cons r ih)

def DescSorted (l : List Row) : Prop := l.Pairwise (fun a b => b.score ≤ a.score)

theorem insertDesc_sorted (r : Row) (l : List Row) (h : DescSorted l) : DescSorted (insertDesc r l) := by
  induction l with
  | nil => simp [insertDesc, DescSorted]
  | cons y ys ih =>
    unfold insertDesc
    have hy := List.pairwise_cons.mp h
    split
    · next hlt =>
      have hlt := (src_scoreBefore _ _).mp hlt
      refine List.pairwise_cons.mpr ⟨?_, h⟩
      intro z hz
      rcases List.mem_cons.mp hz with rfl | hz
      · exact le_of_lt hlt
      · exact le_trans (hy.1 z hz) (le_of_lt hlt)
    · next hlt =>
      have hlt := fun h => hlt ((src_scoreBefore _ _).mpr h)
      refine List.pairwise_cons.mpr ⟨?_, ih hy.2⟩
      intro z hz
      rcases List.mem_cons.mp ((insertDesc_perm r ys).mem_iff.mp hz) with hz | hz
      · subst hz; exact not_lt.mp hlt
      · exact hy.1 z hz

theorem sortDesc_sorted (rows : List Row) : DescSorted (sortDesc rows) := by
  induction rows with
  | nil => exact List.Pairwise.nil
  | cons r rs ih => exact insertDesc_sorted r _ ih

/-! ### soundness of the sweep -/

/-- what a sweep step `(thr, c0, c1)` must say about the full row list `L` -/
def StepSound (L : List Row) (s : Thr × Nat × Nat) : Prop :=
  s.2.1 = L.countP (fun r => !r.label && s.1.below r.score) ∧
  s.2.2 = L.countP (fun r => r.label && s.1.below r.score) ∧
  ∀ r ∈ L, s.1.above r.score = !s.1.below r.score

theorem countP_eq_of_forall {p q : Row → Bool} {l : List Row} (h : ∀ r ∈ l, p r = q r) :
    l.countP p = l.countP q := by
  induction l with
  | nil => rfl
  | cons r rs ih =>
    simp only [List.countP_cons, h r (by simp), ih (fun x hx => h x (by simp [hx]))]

theorem countP_eq_zero_of_forall {p : Row → Bool} {l : List Row} (h : ∀ r ∈ l, p r = false) :
    l.countP p = 0 := by
  induction l with
  | nil => rfl
  | cons r rs ih =>
    simp [h r (by simp), ih (fun x hx => h x (by simp [hx]))]

theorem sweepAux_sound (suf : List Row) : ∀ (pre : List Row) (c0 c1 : Nat),
    DescSorted (pre ++ suf) →
    c0 = pre.countP (fun r => !r.label) → c1 = pre.countP (fun r => r.label) →
    ∀ s ∈ sweepAux suf c0 c1, StepSound (pre ++ suf) s := by
  induction suf with
  | nil => intro pre c0 c1 _ _ _ s hs; simp [sweepAux] at hs
  | cons r rest ih =>
    intro pre c0 c1 hsort h0 h1 s hs
    have hc0 : (if r.label then c0 else c0 + 1) = (pre ++ [r]).countP (fun r => !r.label) := by
      rw [List.countP_append, ← h0]; cases hl : r.label <;> simp [hl]
    have hc1 : (if r.label then c1 + 1 else c1) = (pre ++ [r]).countP (fun r => r.label) := by
      rw [List.countP_append, ← h1]; cases hl : r.label <;> simp [hl]
    have happ : pre ++ r :: rest = (pre ++ [r]) ++ rest := by simp
    unfold sweepAux at hs
    cases rest with
    | nil =>
      simp only [List.mem_singleton, src_thrSentinel] at hs
      subst hs
      refine ⟨?_, ?_, ?_⟩
      · simp only [Thr.below, src_opGt_eq, Bool.and_true]; exact hc0
      · simp only [Thr.below, src_opGt_eq, Bool.and_true]; exact hc1
      · intro x _; rfl
    | cons r' rest' =>
      simp only [src_midThreshold] at hs
      have hrec : ∀ s ∈ sweepAux (r' :: rest') (if r.label then c0 else c0 + 1) (if r.label then c1 + 1 else c1),
          StepSound (pre ++ r :: r' :: rest') s := by
        intro s hs
        rw [happ]
        exact ih (pre ++ [r]) _ _ (by rw [← happ]; exact hsort) hc0 hc1 s hs
      split at hs
      · exact hrec s hs
      · next hne =>
        rcases List.mem_cons.mp hs with rfl | hs
        · -- the emitted point: threshold halfway between r.score and r'.score
          have hsort' := List.pairwise_append.mp hsort
          have hrr' : r'.score ≤ r.score := (List.pairwise_cons.mp hsort'.2.1).1 r' (by simp)
          have hlt : r'.score < r.score := lt_of_le_of_ne hrr' hne
          have hpre : ∀ x ∈ pre ++ [r], r.score ≤ x.score := by
            intro x hx
            rcases List.mem_append.mp hx with hx | hx
            · exact hsort'.2.2 x hx r (by simp)
            · simp only [List.mem_singleton] at hx; subst hx; exact le_refl _
          have hsuf : ∀ x ∈ r' :: rest', x.score ≤ r'.score := by
            intro x hx
            rcases List.mem_cons.mp hx with rfl | hx
            · exact le_refl _
            · exact (List.pairwise_cons.mp (List.pairwise_cons.mp hsort'.2.1).2).1 x hx
          have hb1 : ∀ x ∈ pre ++ [r], (Thr.fin ((r.score + r'.score) / 2)).below x.score = true := by
            intro x hx
            have := hpre x hx
            simp only [Thr.below, src_opGt_eq, decide_eq_true_eq]; linarith
          have hb2 : ∀ x ∈ r' :: rest', (Thr.fin ((r.score + r'.score) / 2)).below x.score = false := by
            intro x hx
            have := hsuf x hx
            simp only [Thr.below, src_opGt_eq, decide_eq_false_iff_not, not_lt]; linarith
          have ha1 : ∀ x ∈ pre ++ [r], (Thr.fin ((r.score + r'.score) / 2)).above x.score = false := by
            intro x hx
            have := hpre x hx
            simp only [Thr.above, src_opLt_eq, decide_eq_false_iff_not, not_lt]; linarith
          have ha2 : ∀ x ∈ r' :: rest', (Thr.fin ((r.score + r'.score) / 2)).above x.score = true := by
            intro x hx
            have := hsuf x hx
            simp only [Thr.above, src_opLt_eq, decide_eq_true_eq]; linarith
          rw [happ]
          refine ⟨?_, ?_, ?_⟩
          · simp only
            rw [List.countP_append, countP_eq_zero_of_forall (l := r' :: rest'), Nat.add_zero, hc0]
            · exact countP_eq_of_forall (fun x hx => by simp [hb1 x hx])
            · intro x hx; simp [hb2 x hx]
          · simp only
            rw [List.countP_append, countP_eq_zero_of_forall (l := r' :: rest'), Nat.add_zero, hc1]
            · exact countP_eq_of_forall (fun x hx => by simp [hb1 x hx])
            · intro x hx; simp [hb2 x hx]
          · intro x hx
            rcases List.mem_append.mp hx with hx | hx
            · simp only; rw [ha1 x hx, hb1 x hx]; rfl
            · simp only; rw [ha2 x hx, hb2 x hx]; rfl
        · exact hrec s hs

theorem StepSound.of_perm {L L' : List Row} (h : L.Perm L') {s : Thr × Nat × Nat} (hs : StepSound L s) :
    StepSound L' s :=
  ⟨by rw [hs.1]; exact h.countP_eq _, by rw [hs.2.1]; exact h.countP_eq _,
   fun r hr => hs.2.2 r (h.mem_iff.mpr hr)⟩

/-- every sweep step counts exactly the rows above its threshold, and no score equals a threshold -/
theorem sweepSteps_sound (rows : List Row) : ∀ s ∈ sweepSteps rows, StepSound rows s := by
  intro s hs
  unfold sweepSteps at hs
  rw [src_thrInitial] at hs
  rcases List.mem_cons.mp hs with rfl | hs
  · refine ⟨?_, ?_, ?_⟩
    · simp [Thr.below, src_opGt_eq]
    · simp [Thr.below, src_opGt_eq]
    · intro r _; rfl
  · have := sweepAux_sound (sortDesc rows) [] 0 0 (by simpa using sortDesc_sorted rows) rfl rfl s hs
    exact StepSound.of_perm (by simpa using sortDesc_perm rows) this

theorem sweepAux_has_ninf (l : List Row) (hne : l ≠ []) : ∀ c0 c1, ∃ a b, (Thr.ninf, a, b) ∈ sweepAux l c0 c1 := by
  induction l with
  | nil => exact absurd rfl hne
  | cons r rest ih =>
    intro c0 c1
    unfold sweepAux
    cases rest with
    | nil => exact ⟨_, _, List.mem_singleton.mpr (by rw [src_thrSentinel])⟩
    | cons r' rest' =>
      simp only
      obtain ⟨a, b, hab⟩ := ih (by simp) (if r.label then c0 else c0 + 1) (if r.label then c1 + 1 else c1)
      split
      · exact ⟨a, b, hab⟩
      · exact ⟨a, b, List.mem_cons_of_mem _ hab⟩

/-- the sweep ends with the threshold `-inf`, where everything is counted -/
theorem sweepSteps_has_ninf (rows : List Row) (hne : rows ≠ []) :
    (Thr.ninf, nNeg rows, nPos rows) ∈ sweepSteps rows := by
  have hne' : sortDesc rows ≠ [] := by
    intro h
    have := (sortDesc_perm rows).length_eq
    rw [h] at this
    exact hne (List.length_eq_zero_iff.mp this.symm)
  obtain ⟨a, b, hab⟩ := sweepAux_has_ninf (sortDesc rows) hne' 0 0
  have hmem : (Thr.ninf, a, b) ∈ sweepSteps rows := List.mem_cons_of_mem _ hab
  have hs := sweepSteps_sound rows _ hmem
  have ha : a = nNeg rows := by
    have := hs.1; simp only at this
    rw [this]; unfold nNeg; exact countP_eq_of_forall (fun r _ => by simp [Thr.below, src_opGt_eq])
  have hb : b = nPos rows := by
    have := hs.2.1; simp only at this
    rw [this]; unfold nPos; exact countP_eq_of_forall (fun r _ => by simp [Thr.below, src_opGt_eq])
  rw [← ha, ← hb]; exact hmem

theorem sweepSteps_has_pinf (rows : List Row) : (Thr.pinf, 0, 0) ∈ sweepSteps rows := by
  simp [sweepSteps, src_thrInitial]

/-! ### confusion counts of a threshold operation -/

theorem confusion_tp (o : Op) (rows : List Row) :
    (confusion o rows).true_positives = (rows.countP (fun r => r.label && o.apply r.score) : Rat) := by
  rw [← sumBy_ind]
  show sumBy _ rows = _
  apply sumBy_congr
  intro r _
  cases r.label <;> simp [ind]

theorem confusion_fp (o : Op) (rows : List Row) :
    (confusion o rows).false_positives = (rows.countP (fun r => !r.label && o.apply r.score) : Rat) := by
  rw [← sumBy_ind]
  show sumBy _ rows = _
  apply sumBy_congr
  intro r _
  cases r.label <;> simp [ind]

theorem confusion_tn (o : Op) (rows : List Row) :
    (confusion o rows).true_negatives = (rows.countP (fun r => !r.label && !o.apply r.score) : Rat) := by
  rw [← sumBy_ind]
  show sumBy _ rows = _
  apply sumBy_congr
  intro r _
  cases hl : r.label <;> cases ha : o.apply r.score <;> simp [ind, hl, ha]

theorem confusion_fn (o : Op) (rows : List Row) :
    (confusion o rows).false_negatives = (rows.countP (fun r => r.label && !o.apply r.score) : Rat) := by
  rw [← sumBy_ind]
  show sumBy _ rows = _
  apply sumBy_congr
  intro r _
  cases hl : r.label <;> cases ha : o.apply r.score <;> simp [ind, hl, ha]

theorem CM.ext' {a b : CM} (h1 : a.true_positives = b.true_positives) (h2 : a.false_positives = b.false_positives)
    (h3 : a.true_negatives = b.true_negatives) (h4 : a.false_negatives = b.false_negatives) : a = b := by
  cases a; cases b; simp_all

/-- the operations list of the source pairs ">" with the actual and "<" with the flipped counts -/
theorem operations_shape (flip : Bool) : ∀ o ∈ operations flip, o = (true, true) ∨ o = (false, false) := by
  intro o ho
  cases flip <;> simp [operations, operationsFlip, operationsNoFlip] at ho <;> simp [ho]

theorem operations_has_gt (flip : Bool) : (true, true) ∈ operations flip := by
  cases flip <;> simp [operations, operationsFlip, operationsNoFlip]

/-- the counts the code hands to the metric are the confusion counts of the point's own operation -/
theorem stepCounts_eq (rows : List Row) (s : Thr × Nat × Nat) (hs : StepSound rows s)
    (o : Bool × Bool) (ho : o = (true, true) ∨ o = (false, false)) :
    stepCounts (nNeg rows) (nPos rows) s.2.1 s.2.2 o.2 = confusion ⟨o.1, s.1⟩ rows := by
  obtain ⟨h0, h1, h2⟩ := hs
  have hn := countP_split (fun r => !r.label) (fun r => s.1.below r.score) rows
  have hp := countP_split (fun r => r.label) (fun r => s.1.below r.score) rows
  have hn' : (nNeg rows : Rat) = (s.2.1 : Rat) + (rows.countP (fun r => !r.label && !s.1.below r.score) : Rat) := by
    unfold nNeg; rw [hn, h0]; push_cast; ring
  have hp' : (nPos rows : Rat) = (s.2.2 : Rat) + (rows.countP (fun r => r.label && !s.1.below r.score) : Rat) := by
    unfold nPos; rw [hp, h1]; push_cast; ring
  rcases ho with rfl | rfl
  · -- ">" with actual_counts
    apply CM.ext'
    · rw [confusion_tp]; simp only [stepCounts, actualCounts, Op.apply, if_true]; rw [h1]
    · rw [confusion_fp]; simp only [stepCounts, actualCounts, Op.apply, if_true]; rw [h0]
    · rw [confusion_tn]; simp only [stepCounts, actualCounts, Op.apply, if_true]; rw [hn']; ring
    · rw [confusion_fn]; simp only [stepCounts, actualCounts, Op.apply, if_true]; rw [hp']; ring
  · -- "<" with flipped_counts; `s < thr` is the negation of `s > thr` on the group's scores
    have hab : ∀ (c : Row → Bool), rows.countP (fun r => c r && s.1.above r.score) =
        rows.countP (fun r => c r && !s.1.below r.score) :=
      fun c => countP_eq_of_forall (fun r hr => by rw [h2 r hr])
    have hab' : ∀ (c : Row → Bool), rows.countP (fun r => c r && !s.1.above r.score) =
        rows.countP (fun r => c r && s.1.below r.score) :=
      fun c => countP_eq_of_forall (fun r hr => by rw [h2 r hr]; simp)
    apply CM.ext'
    · rw [confusion_tp]
      simp only [stepCounts, flippedCounts, Op.apply, Bool.false_eq_true, if_false]
      rw [hab (fun r => r.label), hp']; ring
    · rw [confusion_fp]
      simp only [stepCounts, flippedCounts, Op.apply, Bool.false_eq_true, if_false]
      rw [hab (fun r => !r.label), hn']; ring
    · rw [confusion_tn]
      simp only [stepCounts, flippedCounts, Op.apply, Bool.false_eq_true, if_false]
      rw [hab' (fun r => !r.label), h0]
    · rw [confusion_fn]
      simp only [stepCounts, flippedCounts, Op.apply, Bool.false_eq_true, if_false]
      rw [hab' (fun r => r.label), h1]

/-- membership in `rawPoints`, unfolded -/
theorem mem_rawPoints {flip : Bool} {xm ym : Metric} {rows : List Row} {p : Pt} :
    p ∈ rawPoints flip xm ym rows ↔
      ∃ s ∈ sweepSteps rows, ∃ o ∈ operations flip,
        p = { x := xm.eval (stepCounts (nNeg rows) (nPos rows) s.2.1 s.2.2 o.2),
              y := ym.eval (stepCounts (nNeg rows) (nPos rows) s.2.1 s.2.2 o.2), op := ⟨o.1, s.1⟩ } := by
  rw [rawPoints_eq]; unfold stepPoints
  simp only [List.mem_flatMap, List.mem_map]
  constructor
  · rintro ⟨s, hs, o, ho, rfl⟩; exact ⟨s, hs, o, ho, rfl⟩
  · rintro ⟨s, hs, o, ho, rfl⟩; exact ⟨s, hs, o, ho, rfl⟩

/-- **sweep_point_sound**: each tradeoff point's (x, y) is the metric pair of its own ThresholdOperation applied
    to the group's rows -/
theorem rawPoints_sound (flip : Bool) (xm ym : Metric) (rows : List Row) (p : Pt)
    (hp : p ∈ rawPoints flip xm ym rows) :
    p.x = xm.eval (confusion p.op rows) ∧ p.y = ym.eval (confusion p.op rows) := by
  obtain ⟨s, hs, o, ho, rfl⟩ := mem_rawPoints.mp hp
  have := stepCounts_eq rows s (sweepSteps_sound rows s hs) o (operations_shape flip o ho)
  simp only [this, and_self]

end Threshold
