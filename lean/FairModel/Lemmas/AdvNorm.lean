/-
C16, gap "norm kind": the norm that normalises dLA/dW is LIFTED (`AdvProjection.NormKind`, `torchNorm`, `tfNorm`); the model
(`Adversarial.gradWithN`, `engineGradN`) computes WITH it.  This file: what is true for EVERY norm kind (the update is
`A − c·B − α·B`; the exact orthogonality defect `<A,B>·(1 − ‖B‖₂²/‖B‖ₙ²)`), and what needs the 2-norm (orthogonality and
"the coefficient is the projection coefficient" — both, and only that).
-/
import FairModel.Lemmas.Adversarial

namespace Adversarial
open AdvProjection

/-! ### the Frobenius kind is the model that was there before -/

theorem gradWithN_frobenius (k : InnerKind) (A B : Mat) (α : Rat) :
    gradWithN k .frobenius A B α = gradWith k A B α := rfl

theorem engineGradN_frobenius (k : InnerKind) (t : TinyKind) (A B : Mat) (α : Rat) :
    engineGradN k .frobenius t A B α = engineGrad k t A B α := rfl

/-- for EVERY norm kind the update has the shape `A − c·B − α·B` with `c = k(B,A) / ‖B‖ₙ²` -/
theorem gradWithN_eq_gradCoef (k : InnerKind) (n : NormKind) (A B : Mat) (α : Rat) :
    gradWithN k n A B α = gradCoef (inner k B A / normSq n B) A B α := rfl

theorem engineGradN_nonzero (k : InnerKind) (n : NormKind) (t : TinyKind) (A B : Mat) (α : Rat) (hB : frob B B ≠ 0) :
    engineGradN k n t A B α = some (gradWithN k n A B α) := by
  simp [engineGradN, hB]

theorem engineGradN_zero (k : InnerKind) (n : NormKind) (A B : Mat) (α : Rat) (hB : frob B B = 0) :
    engineGradN k n .float32 A B α = some A ∧ engineGradN k n .float64 A B α = none := by
  simp [engineGradN, hB]

/-! ### absolute value, maximum -/

theorem absR_eq_abs (x : Rat) : absR x = |x| := by
  unfold absR
  split
  · next h => rw [abs_of_neg h]
  · next h => rw [abs_of_nonneg (not_lt.mp h)]

theorem maxR_eq_max (x y : Rat) : maxR x y = max x y := by
  unfold maxR
  split
  · next h => rw [max_eq_right (le_of_lt h)]
  · next h => rw [max_eq_left (not_lt.mp h)]

theorem absR_mul_self (x : Rat) : absR x * absR x = x * x := by
  rw [absR_eq_abs]; exact abs_mul_abs_self x

theorem absR_nonneg (x : Rat) : 0 ≤ absR x := by rw [absR_eq_abs]; exact abs_nonneg x

theorem absR_eq_zero (x : Rat) : absR x = 0 ↔ x = 0 := by rw [absR_eq_abs]; exact abs_eq_zero

/-! ### the three norms vanish exactly on the zero tensor -/

theorem sum_absR_nonneg (v : Vec) : 0 ≤ (v.map absR).sum := by
  induction v with
  | nil => simp
  | cons x xs ih => simp only [List.map_cons, List.sum_cons]; linarith [absR_nonneg x]

theorem sum_absR_eq_zero (v : Vec) : (v.map absR).sum = 0 ↔ ∀ x ∈ v, x = 0 := by
  induction v with
  | nil => simp
  | cons x xs ih =>
    simp only [List.map_cons, List.sum_cons, List.mem_cons, forall_eq_or_imp]
    have h1 := absR_nonneg x
    have h2 := sum_absR_nonneg xs
    constructor
    · intro h
      have hx : absR x = 0 := by linarith
      have hxs : (xs.map absR).sum = 0 := by linarith
      exact ⟨(absR_eq_zero x).mp hx, ih.mp hxs⟩
    · rintro ⟨hx, hxs⟩
      rw [ih.mpr hxs, (absR_eq_zero x).mpr hx]; ring

theorem foldl_maxR_ge_acc (l : Vec) (acc : Rat) : acc ≤ l.foldl maxR acc := by
  induction l generalizing acc with
  | nil => simp
  | cons x xs ih =>
    simp only [List.foldl_cons]
    exact le_trans (by rw [maxR_eq_max]; exact le_max_left _ _) (ih (maxR acc x))

theorem foldl_maxR_ge_mem (l : Vec) (acc x : Rat) (hx : x ∈ l) : x ≤ l.foldl maxR acc := by
  induction l generalizing acc with
  | nil => simp at hx
  | cons y ys ih =>
    simp only [List.foldl_cons]
    rcases List.mem_cons.mp hx with rfl | h
    · exact le_trans (by rw [maxR_eq_max]; exact le_max_right _ _) (foldl_maxR_ge_acc ys _)
    · exact ih _ h

theorem foldl_maxR_all_zero (l : Vec) (h : ∀ x ∈ l, x = 0) : l.foldl maxR 0 = 0 := by
  induction l with
  | nil => simp
  | cons y ys ih =>
    simp only [List.foldl_cons]
    have hy : y = 0 := h y (by simp)
    subst hy
    have : maxR 0 0 = 0 := by simp [maxR]
    rw [this]
    exact ih (fun x hx => h x (by simp [hx]))

theorem maxAbs_nonneg (B : Mat) : 0 ≤ maxAbs B := foldl_maxR_ge_acc _ 0

theorem maxAbs_eq_zero (B : Mat) : maxAbs B = 0 ↔ ∀ x ∈ flat B, x = 0 := by
  unfold maxAbs
  constructor
  · intro h x hx
    have h1 : absR x ≤ ((flat B).map absR).foldl maxR 0 :=
      foldl_maxR_ge_mem _ 0 (absR x) (List.mem_map_of_mem hx)
    have h2 := absR_nonneg x
    exact (absR_eq_zero x).mp (by linarith)
  · intro h
    apply foldl_maxR_all_zero
    intro y hy
    obtain ⟨x, hx, rfl⟩ := List.mem_map.mp hy
    rw [h x hx]; simp [absR]

theorem l1_nonneg (B : Mat) : 0 ≤ l1 B := sum_absR_nonneg _

theorem l1_eq_zero (B : Mat) : l1 B = 0 ↔ ∀ x ∈ flat B, x = 0 := sum_absR_eq_zero _

theorem frob_self_eq_zero_flat (B : Mat) : frob B B = 0 ↔ ∀ x ∈ flat B, x = 0 := by
  rw [frob_self_eq_zero]
  unfold flat
  constructor
  · intro h x hx
    obtain ⟨r, hr, hxr⟩ := List.mem_flatten.mp hx
    exact h r hr x hxr
  · intro h r hr x hx
    exact h x (List.mem_flatten.mpr ⟨r, hr, hx⟩)

/-- every lifted norm kind vanishes exactly when the tensor is zero: the zero branch of the loop body (`‖B‖ₙ = 0`, the
    regulariser `tiny` decides) is the same set of inputs for all of them -/
theorem normSq_eq_zero_iff (n : NormKind) (B : Mat) : normSq n B = 0 ↔ frob B B = 0 := by
  cases n
  · rfl
  · simp only [normSq, mul_self_eq_zero]
    rw [l1_eq_zero, frob_self_eq_zero_flat]
  · simp only [normSq, mul_self_eq_zero]
    rw [maxAbs_eq_zero, frob_self_eq_zero_flat]

theorem normSq_nonneg (n : NormKind) (B : Mat) : 0 ≤ normSq n B := by
  cases n
  · exact frob_self_nonneg B
  · exact mul_self_nonneg _
  · exact mul_self_nonneg _

/-- on a one-entry tensor all three norms are `|x|`: 1×1 tests cannot tell the kinds apart -/
theorem normSq_single_entry (n : NormKind) (x : Rat) : normSq n [[x]] = x * x := by
  cases n
  · simp [normSq]
  · simp [normSq, l1, flat, absR_mul_self]
  · have h : maxR 0 (absR x) = absR x := by
      rw [maxR_eq_max]; exact max_eq_right (absR_nonneg x)
    simp [normSq, maxAbs, flat, h, absR_mul_self]

/-! ### the three norms are ordered: max-abs ≤ 2-norm ≤ L1 -/

theorem dot_self_le_sum_absR_sq (v : Vec) : dot v v ≤ (v.map absR).sum * (v.map absR).sum := by
  induction v with
  | nil => simp
  | cons x xs ih =>
    simp only [dot_cons, List.map_cons, List.sum_cons]
    have h1 := absR_nonneg x
    have h2 := sum_absR_nonneg xs
    have h3 := absR_mul_self x
    nlinarith [mul_nonneg h1 h2]

theorem mul_self_le_dot_self_of_mem (v : Vec) (x : Rat) (hx : x ∈ v) : x * x ≤ dot v v := by
  induction v with
  | nil => simp at hx
  | cons y ys ih =>
    simp only [dot_cons]
    rcases List.mem_cons.mp hx with rfl | h
    · linarith [dot_self_nonneg ys]
    · linarith [ih h, mul_self_nonneg y]

theorem foldl_maxR_eq_acc_or_mem (l : Vec) (acc : Rat) : l.foldl maxR acc = acc ∨ l.foldl maxR acc ∈ l := by
  induction l generalizing acc with
  | nil => simp
  | cons y ys ih =>
    simp only [List.foldl_cons, List.mem_cons]
    rcases ih (maxR acc y) with h | h
    · rw [h]
      unfold maxR
      split
      · right; left; rfl
      · left; rfl
    · right; right; exact h

theorem maxAbs_sq_le_frob (B : Mat) : maxAbs B * maxAbs B ≤ frob B B := by
  rw [frob_eq_dot_flat (sameShape_refl B)]
  unfold maxAbs
  rcases foldl_maxR_eq_acc_or_mem ((flat B).map absR) 0 with h | h
  · rw [h]; simpa using dot_self_nonneg (flat B)
  · obtain ⟨x, hx, hxe⟩ := List.mem_map.mp h
    rw [← hxe, absR_mul_self]
    exact mul_self_le_dot_self_of_mem _ x hx

theorem frob_le_l1_sq (B : Mat) : frob B B ≤ l1 B * l1 B := by
  rw [frob_eq_dot_flat (sameShape_refl B)]
  exact dot_self_le_sum_absR_sq (flat B)

/-- `‖B‖_max² ≤ ‖B‖₂² ≤ ‖B‖₁²`: normalising with the L1 norm UNDER-projects (coefficient too small), with the max-abs norm
    OVER-projects (coefficient too large) -/
theorem normSq_order (B : Mat) :
    normSq .maxAbs B ≤ normSq .frobenius B ∧ normSq .frobenius B ≤ normSq .l1Flat B :=
  ⟨maxAbs_sq_le_frob B, frob_le_l1_sq B⟩

/-! ### which statement needs which norm -/

/-- EVERY norm kind: the exact orthogonality defect of the update (Frobenius projection line, norm kind `n`):
    `<g + α B, B> = <A,B> · (1 − ‖B‖₂² / ‖B‖ₙ²)`. -/
theorem frob_gradWithN_add (n : NormKind) {A B : Mat} (α : Rat) (h : sameShape A B = true) :
    frob (madd (gradWithN .frobenius n A B α) (msmul α B)) B = frob A B * (1 - frob B B / normSq n B) := by
  rw [gradWithN_eq_gradCoef, frob_gradCoef_add _ α h]
  show frob A B - frob B A / normSq n B * frob B B = _
  rw [frob_comm B A]
  ring

/-- ORTHOGONALITY NEEDS THE 2-NORM (and nothing else): for `B ≠ 0` and `<A,B> ≠ 0` the update is orthogonal to `B`
    IF AND ONLY IF the square of the norm used equals `<B,B>`.  (Scaling `B` by an arbitrary non-zero scalar instead of
    `1/‖B‖₂` is NOT enough: `unit = c·B` gives `proj·unit = c²<B,A> B`, orthogonal iff `c² <B,B> = 1`.) -/
theorem orthogonal_iff_normSq_eq_frob (n : NormKind) {A B : Mat} (α : Rat) (h : sameShape A B = true)
    (hB : frob B B ≠ 0) (hAB : frob A B ≠ 0) :
    frob (madd (gradWithN .frobenius n A B α) (msmul α B)) B = 0 ↔ normSq n B = frob B B := by
  have hn : normSq n B ≠ 0 := fun h0 => hB ((normSq_eq_zero_iff n B).mp h0)
  rw [frob_gradWithN_add n α h, mul_eq_zero]
  constructor
  · rintro (h1 | h1)
    · exact absurd h1 hAB
    · have : frob B B / normSq n B = 1 := by linarith
      rw [div_eq_one_iff_eq hn] at this
      exact this.symm
  · intro e
    right
    rw [e, div_self hB]; ring

/-- THE COEFFICIENT IS THE PROJECTION COEFFICIENT `<B,A>/<B,B>` iff the norm is the 2-norm (for `<B,A> ≠ 0`): the same
    condition as orthogonality. -/
theorem coefficient_is_projection_iff (n : NormKind) (A B : Mat) (hB : frob B B ≠ 0) (hBA : frob B A ≠ 0) :
    frob B A / normSq n B = frob B A / frob B B ↔ normSq n B = frob B B := by
  have hn : normSq n B ≠ 0 := fun h0 => hB ((normSq_eq_zero_iff n B).mp h0)
  constructor
  · intro e
    field_simp at e
    exact e.symm
  · intro e; rw [e]

/-- the literal three source lines (norm VALUE as a parameter `nrm`, `tiny = 0`) equal the model with norm kind `n`
    whenever `nrm` is the norm of that kind (`nrm² = ‖B‖ₙ²`) -/
theorem engineGradRaw_eq_N (unit : Rat → Rat → Rat → Rat) (grad : Rat → Rat → Rat → Rat → Rat → Rat)
    (hunit : ∀ b n, unit b n 0 = b / n) (hgrad : ∀ a u b p α, grad a u b p α = a - p * u - α * b)
    (k : InnerKind) (n : NormKind) (A B : Mat) (α nrm : Rat) (h : sameShape A B = true)
    (hn : nrm * nrm = normSq n B) (hn0 : nrm ≠ 0) :
    engineGradRaw unit grad k A B α nrm 0 = gradWithN k n A B α := by
  unfold engineGradRaw gradWithN
  simp only [unitMat_eq unit hunit, inner_msmul_left]
  apply matRaw_eq grad hgrad _ _ _ _ _ A B h
  rw [← hn]; field_simp

end Adversarial
