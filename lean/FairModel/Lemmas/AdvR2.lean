/-
Review R2 — the bridge between the two halves of the C16 tie:
  * `TrainStepL.lifted` (symbolic `.grad` bookkeeping of the statement list LIFTED from `PytorchEngine.train_step`), and
  * `AdvStep.step` (the whole-step function the driver ops `advstep.step` / `advstep.fit` evaluate, whose hand-written
    body says "predictor optimiser gets combineAll(dLP/dW, dLA/dW), adversary optimiser gets dLA/dU").
`readBuf` gives a symbolic buffer its meaning in terms of the autograd lists of one batch; `stepFromBookkeeping` is the
whole step DRIVEN BY an arbitrary bookkeeping result; `step_eq_stepFromBookkeeping_lifted` (in Properties/C16.lean) says
that at the lifted bookkeeping it is `AdvStep.step`.  An edit of the statement order in the source that changes what an
optimiser is handed changes `lifted`, and that theorem breaks.
-/
import FairModel.Lemmas.AdvStep
import FairModel.Model.TrainStepLifted

namespace AdvR2
open Adversarial AdvStep TrainStepL

/-- meaning of a symbolic `.grad` buffer of one player, given that player's two pure gradient lists of this batch:
    exactly dLP/dθ, exactly dLA/dθ, or `none` (a mixture / stale contents: not a gradient the property allows) -/
def readBuf (b : Buf) (dLP dLA : List Mat) : Option (List Mat) :=
  if b = ⟨1, 0, 0⟩ then some dLP else if b = ⟨0, 1, 0⟩ then some dLA else none

/-- the whole step as DICTATED by a bookkeeping result `ts`: the predictor's optimiser applies what `ts.appliedP` says
    (the combine rule on two readable copies, or a readable plain buffer), the adversary's what `ts.appliedA` says.
    The adversary's parameters are not reached by LP (`dLP/dU` does not exist): a buffer with an LP part is unreadable. -/
def stepFromBookkeeping {τP τA : Type} (ts : TS) (eng : Mat → Mat → Rat → Option Mat) (α : Rat) (optP : Opt τP)
    (optA : Opt τA) (m : Model τP τA) (g : Grads) : Option (Model τP τA) :=
  if !ts.ok then none else
  let gP : Option (List Mat) := match ts.appliedP with
    | some (.comb a b) => do
      let A ← readBuf a g.dWLP g.dWLA
      let B ← readBuf b g.dWLP g.dWLA
      combineAll eng α A B
    | some (.lin b) => readBuf b g.dWLP g.dWLA
    | none => none
  let gA : Option (List Mat) := match ts.appliedA with
    | some b => if b = ⟨0, 1, 0⟩ then some g.dULA else none
    | none => none
  match gP, gA with
  | some gs, some us =>
    let p := applyOpt optP m.pred.params m.pred.state gs
    let a := applyOpt optA m.adv.params m.adv.state us
    some ⟨⟨p.1, p.2⟩, ⟨a.1, a.2⟩⟩
  | _, _ => none

/-- for a bookkeeping result with the documented contents the dictated step is `AdvStep.step` -/
theorem stepFromBookkeeping_documented {τP τA : Type} (ts : TS) (hok : ts.ok = true)
    (hP : ts.appliedP = some (.comb ⟨1, 0, 0⟩ ⟨0, 1, 0⟩)) (hA : ts.appliedA = some ⟨0, 1, 0⟩)
    (eng : Mat → Mat → Rat → Option Mat) (α : Rat) (optP : Opt τP) (optA : Opt τA) (m : Model τP τA) (g : Grads) :
    stepFromBookkeeping ts eng α optP optA m g = step eng α optP optA m g := by
  unfold stepFromBookkeeping step
  simp only [hok, hP, hA, readBuf]
  have h1 : ((⟨0, 1, 0⟩ : Buf) = ⟨1, 0, 0⟩) = False := by simp
  simp only [h1]
  cases hc : combineAll eng α g.dWLP g.dWLA <;> simp [hc]

/-- regression: had the clearing between the two backward passes been dropped (second copy = dLP/dW + dLA/dW), the
    dictated step would NOT be a step of the documented kind: no model results (`none`), whatever the gradients -/
theorem stepFromBookkeeping_accumulated {τP τA : Type} (ts : TS)
    (hP : ts.appliedP = some (.comb ⟨1, 0, 0⟩ ⟨1, 1, 0⟩))
    (eng : Mat → Mat → Rat → Option Mat) (α : Rat) (optP : Opt τP) (optA : Opt τA) (m : Model τP τA) (g : Grads) :
    stepFromBookkeeping ts eng α optP optA m g = none := by
  unfold stepFromBookkeeping
  by_cases hok : ts.ok = true
  · have h1 : ((⟨1, 1, 0⟩ : Buf) = ⟨1, 0, 0⟩) = False := by simp
    have h2 : ((⟨1, 1, 0⟩ : Buf) = ⟨0, 1, 0⟩) = False := by simp
    simp [hok, hP, readBuf, h1, h2]
  · simp [hok]

end AdvR2
