import FairModel.Lemmas.Aggregate
import FairModel.Generated.AggregateGen

/-! The method bodies lifted from `_disaggregated_result.py` (`Generated/AggregateGen.lean`) are the
hand-written model `Aggregate.applyGrouping / difference / ratio`, for every table. -/

namespace Aggregate
open XR Frame

/-- a lookup in a value-mapped table -/
theorem lookup_map_snd {κ β γ : Type} [BEq κ] (f : β → γ) (l : List (κ × β)) (k : κ) :
    (l.map (fun e => (e.1, f e.2))).lookup k = (l.lookup k).map f := by
  induction l with
  | nil => rfl
  | cons a l ih =>
    obtain ⟨a1, a2⟩ := a
    simp only [List.map_cons, List.lookup_cons]
    cases k == a1 <;> simp [ih]

theorem overallAt_eq (t : Tables) (c : Key) :
    overallAt t c = (((t.overall.map (fun e => (e.1, coerce e.2))).lookup c).getD nan) := by
  unfold overallAt
  rw [lookup_map_snd coerce t.overall c]
  cases t.overall.lookup c <;> rfl

/-- the group-by of a series that carries the by_group index -/
theorem aggLevel_byGroup (g : Grouping) (t : Tables) (F : Key × Cell → XR) :
    Prim.aggLevel g t (t.byGroup.map (fun e => (e.1, F e))) =
      (strata t).map (fun c => (c, g.apply ((t.byGroup.filter (fun e => stratumOf t e.1 == c)).map F))) := by
  unfold Prim.aggLevel strata
  simp only [List.map_map, Function.comp_def, List.filter_map]

/-- ... whose values at stratum `c` only matter on the rows of stratum `c` -/
theorem aggLevel_byGroup_congr (g : Grouping) (t : Tables) (F : Key × Cell → XR) (G : Key → Cell → XR)
    (h : ∀ e ∈ t.byGroup, F e = G (stratumOf t e.1) e.2) :
    Prim.aggLevel g t (t.byGroup.map (fun e => (e.1, F e))) =
      (strata t).map (fun c => (c, g.apply
        ((t.byGroup.filter (fun e => stratumOf t e.1 == c)).map (fun e => G c e.2)))) := by
  rw [aggLevel_byGroup]
  apply List.map_congr_left
  intro c _
  congr 2
  apply List.map_congr_left
  intro e he
  obtain ⟨he1, he2⟩ := List.mem_filter.mp he
  rw [h e he1, eq_of_beq he2]

theorem vals_map (t : Tables) (c : Key) (f : XR → XR) :
    (vals t c).map f = (t.byGroup.filter (fun e => stratumOf t e.1 == c)).map (fun e => f (coerce e.2)) := by
  unfold vals
  rw [List.map_map]; rfl

end Aggregate

namespace AggregateGen
open Aggregate XR Frame

/-- the lifted body of `apply_grouping` is `Aggregate.applyGrouping` -/
theorem applyGroupingGen_eq (g : Grouping) (e : Errors) (t : Tables) :
    applyGroupingGen g e t = applyGrouping g e t := by
  unfold applyGroupingGen applyGrouping
  cases e with
  | raise =>
    by_cases h : hasNonscalar t = true
    · simp [Prim.byGroupNum, h]
    · simp only [Prim.byGroupNum, h, Bool.false_eq_true, if_false, and_false, Option.bind_eq_bind,
        Option.bind_some, Option.pure_def]
      rw [aggLevel_byGroup g t (fun e => coerce e.2)]
      rfl
  | coerce =>
    simp only [Prim.coerced, Option.bind_eq_bind, Option.bind_some, Option.pure_def, reduceCtorEq,
      false_and, if_false]
    rw [aggLevel_byGroup g t (fun e => coerce e.2)]
    rfl

theorem diff_core (t : Tables) (s : Series) :
    Prim.aggLevel AggregateSpec.diffAgg t (Prim.map XR.abs (Prim.bcast XR.sub t
        (t.byGroup.map (fun e => (e.1, coerce e.2))) s)) =
      (strata t).map (fun c => (c, diffOf (vals t c) ((s.lookup c).getD nan))) := by
  have h1 : Prim.map XR.abs (Prim.bcast XR.sub t (t.byGroup.map (fun e => (e.1, coerce e.2))) s) =
      t.byGroup.map (fun e => (e.1, XR.abs (XR.sub (coerce e.2) ((s.lookup (stratumOf t e.1)).getD nan)))) := by
    simp only [Prim.map, Prim.bcast, List.map_map, Function.comp_def]
  rw [h1, aggLevel_byGroup_congr _ t _ (fun c cell => XR.abs (XR.sub (coerce cell) ((s.lookup c).getD nan)))
    (fun _ _ => rfl)]
  apply List.map_congr_left
  intro c _
  unfold diffOf
  rw [vals_map]

/-- the lifted body of `difference` is `Aggregate.difference` -/
theorem differenceGen_eq (m : Method) (e : Errors) (t : Tables) :
    differenceGen m e t = difference m e t := by
  unfold differenceGen difference
  cases m with
  | between =>
    simp only [AggregateSpec.diffBetweenSubtrahend, Prim.coerced, Option.bind_eq_bind, Option.bind_some,
      Option.pure_def]
    cases hg : applyGrouping .min e t with
    | none => rfl
    | some s => exact congrArg some (diff_core t s)
  | toOverall =>
    by_cases h : hasNonscalar t = true
    · simp [Prim.overallNum, h]
    · simp only [Prim.overallNum, Prim.coerced, h, Bool.false_eq_true, if_false, Option.bind_eq_bind,
        Option.bind_some, Option.pure_def]
      refine congrArg some ?_
      rw [show Grouping.max = AggregateSpec.diffAgg from rfl, diff_core]
      apply List.map_congr_left
      intro c _
      rw [overallAt_eq]

theorem ratio_core (t : Tables) (s : Series) :
    Prim.aggLevel AggregateSpec.ratioOverallAgg t (Prim.map AggregateSpec.ratioSubOne (Prim.bcast XR.div t
        (t.byGroup.map (fun e => (e.1, coerce e.2))) s)) =
      (strata t).map (fun c => (c, ratioOverallOf (vals t c) ((s.lookup c).getD nan))) := by
  have h1 : Prim.map AggregateSpec.ratioSubOne (Prim.bcast XR.div t (t.byGroup.map (fun e => (e.1, coerce e.2))) s) =
      t.byGroup.map (fun e => (e.1, AggregateSpec.ratioSubOne
        (XR.div (coerce e.2) ((s.lookup (stratumOf t e.1)).getD nan)))) := by
    simp only [Prim.map, Prim.bcast, List.map_map, Function.comp_def]
  rw [h1, aggLevel_byGroup_congr _ t _
    (fun c cell => AggregateSpec.ratioSubOne (XR.div (coerce cell) ((s.lookup c).getD nan))) (fun _ _ => rfl)]
  apply List.map_congr_left
  intro c _
  unfold ratioOverallOf
  rw [vals_map]

/-- the lifted body of `ratio` is `Aggregate.ratio` -/
theorem ratioGen_eq (m : Method) (e : Errors) (t : Tables) :
    ratioGen m e t = ratio m e t := by
  unfold ratioGen ratio
  cases m with
  | between =>
    simp only [AggregateSpec.ratioBetweenNum, AggregateSpec.ratioBetweenDen]
    cases hn : applyGrouping .min e t with
    | none => rfl
    | some num =>
      cases hd : applyGrouping .max e t with
      | none => rfl
      | some den => rfl
  | toOverall =>
    by_cases h : hasNonscalar t = true
    · simp [Prim.byGroupNum, h]
    · simp only [Prim.overallNum, Prim.byGroupNum, h, Bool.false_eq_true, if_false, Option.bind_eq_bind,
        Option.bind_some, Option.pure_def]
      refine congrArg some ?_
      rw [show Grouping.min = AggregateSpec.ratioOverallAgg from rfl, ratio_core]
      apply List.map_congr_left
      intro c _
      rw [overallAt_eq]

end AggregateGen
