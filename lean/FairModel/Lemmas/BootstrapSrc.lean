/-
Facts tying the source-parametrised bootstrap model (`Model/BootstrapSrc.lean`, over `Generated/BootstrapSrc.lean`)
to the hand-written one (`Model/Bootstrap.lean`): for the CURRENT generated values they coincide.
-/
import FairModel.Lemmas.Bootstrap
import FairModel.Model.BootstrapSrc

namespace BootstrapSrc
open BaseMetrics Weights Bootstrap Generated.BootstrapSrc

theorem quantileBy_linear (xs : List Rat) (q : Rat) : quantileBy .linear xs q = quantileLinear xs q := rfl

theorem quantilePropBy_linear (xs : List XR) (q : Rat) : quantilePropBy .linear xs q = quantileProp xs q := rfl

theorem quantileSkipBy_linear (xs : List XR) (q : Rat) : quantileSkipBy .linear xs q = quantileSkip xs q := rfl

/-- the lifted quantile calls are `np.quantile` (Series path) and `np.nanquantile` (DataFrame path), both 'linear' -/
theorem quantileXRsrc_eq (frame : Bool) (xs : List XR) (q : Rat) :
    quantileXRsrc frame xs q = quantileXR frame xs q := by
  cases frame <;> rfl

theorem ciOfSrc_eq (frame : Bool) (samples : List XR) (qs : List Rat) :
    ciOfSrc frame samples qs = ciOf frame samples qs := by
  have h : quantileXRsrc frame samples = quantileXR frame samples := funext (quantileXRsrc_eq frame samples)
  have ho : qsUsed (if frame = true then frameQOrder else seriesQOrder) qs = qs := by cases frame <;> rfl
  simp only [ciOfSrc, ciOf, h, ho]

theorem byGroupCISrc_eq (samples : List (Option Frame)) (qs : List Rat) :
    byGroupCISrc samples qs = byGroupCI samples qs := by
  unfold byGroupCISrc byGroupCI
  simp only [ciOfSrc_eq]

theorem ciSrc_eq (frame : Bool) (m : BMetric) (rows : List WRow) (idxs : List (List Nat)) (qs : List Rat) :
    ciSrc frame m rows idxs qs = ci frame m rows idxs qs := by
  unfold ciSrc ci
  cases samplesOf m rows idxs with
  | none => rfl
  | some samples =>
    have ha : (!frameAligned && !sameKeys samples) = false := by
      have : frameAligned = true := rfl
      simp [this]
    simp only [ha, Bool.false_eq_true, if_false, ciOfSrc_eq, byGroupCISrc_eq]
    generalize ciOf frame (column fOverall samples) qs = a1
    generalize byGroupCI samples qs = a2
    generalize ciOf frame (column fMin samples) qs = a3
    generalize ciOf frame (column fMax samples) qs = a4
    generalize ciOf frame (column fDiffB samples) qs = a5
    generalize ciOf frame (column fDiffO samples) qs = a6
    generalize ciOf frame (column Frame.ratioBetween samples) qs = a7
    generalize ciOf frame (column Frame.ratioOverall samples) qs = a8
    cases a1 <;> cases a2 <;> cases a3 <;> cases a4 <;> cases a5 <;> cases a6 <;> cases a7 <;> cases a8 <;> rfl

theorem roundHalfEven_nat (n : Nat) : roundHalfEven (n : Rat) = n := by
  have hf : (n : Rat).floor = (n : Int) := by
    have := Rat.floor_intCast (n : Int)
    simpa using this
  unfold roundHalfEven
  simp only [hf]
  have : ((n : Rat) - ((n : Int) : Rat)) = 0 := by simp
  rw [this]
  norm_num

theorem drawCount_eq (n : Nat) : drawCount n = n := by
  have h : drawSize = .frac 1 := rfl
  unfold drawCount
  rw [h]
  simp only [one_mul]
  exact roundHalfEven_nat n

theorem loopCount_eq (B : Nat) : loopCount B = B := by
  have h : loopCountOffset = 0 := rfl
  unfold loopCount
  rw [h]; simp

theorem seedIndex_eq (i : Nat) : seedIndex i = some i := rfl

theorem validResample_length (n : Nat) (idx : List Nat) (h : validResample n idx = true) :
    idx.length = n ∧ ∀ i ∈ idx, i < n := by
  unfold validResample at h
  simp only [Bool.and_eq_true, beq_iff_eq, List.all_eq_true, decide_eq_true_eq] at h
  obtain ⟨⟨h1, h2⟩, _⟩ := h
  exact ⟨by rw [h1, drawCount_eq], h2⟩

/-- with replacement: ANY list of n positions below n is a possible resample (repetitions included) -/
theorem validResample_of_length (n : Nat) (idx : List Nat) (hl : idx.length = n) (hb : ∀ i ∈ idx, i < n) :
    validResample n idx = true := by
  have hr : sampleReplace = true := rfl
  unfold validResample
  simp only [Bool.and_eq_true, beq_iff_eq, List.all_eq_true, decide_eq_true_eq, hr, Bool.true_or, and_true]
  exact ⟨by rw [hl, drawCount_eq], hb⟩

end BootstrapSrc

/-! ### control features: the per-level computation is the resampled frame filtered by level -/
namespace Bootstrap
open BaseMetrics Weights

theorem levelRows_rank (L : Nat) : ∀ (tr : List TRow) (i : Nat) (p : TRow), tr[i]? = some p → p.1 = L →
    (levelRows L tr)[rank L tr i]? = some p.2 := by
  intro tr
  induction tr with
  | nil => intro i p h; simp at h
  | cons a t ih =>
    intro i p h hp
    cases i with
    | zero =>
      simp only [List.getElem?_cons_zero, Option.some.injEq] at h
      subst h
      simp [levelRows, rank, hp]
    | succ k =>
      simp only [List.getElem?_cons_succ] at h
      have := ih k p h hp
      by_cases ha : a.1 = L
      · simp [levelRows, rank, ha] at this ⊢; exact this
      · simp [levelRows, rank, ha] at this ⊢; exact this

/-- picking, from the rows of level L, the restricted positions of a resample gives exactly the level-L rows of the
    resampled data, in drawing order -/
theorem pick_restrict (L : Nat) (tr : List TRow) : ∀ (idx : List Nat), (∀ i ∈ idx, i < tr.length) →
    pick (levelRows L tr) (restrict L tr idx) = some (levelRows L (idx.filterMap (fun i => tr[i]?))) := by
  intro idx
  induction idx with
  | nil => intro _; rfl
  | cons i rest ih =>
    intro h
    have hi : i < tr.length := h i (by simp)
    have hr := ih (fun j hj => h j (by simp [hj]))
    obtain ⟨p, hp⟩ : ∃ p, tr[i]? = some p := ⟨tr[i], by simp [hi]⟩
    by_cases hL : p.1 = L
    · have hk := levelRows_rank L tr i p hp hL
      have e1 : restrict L tr (i :: rest) = rank L tr i :: restrict L tr rest := by
        simp [restrict, hp, hL]
      have e2 : levelRows L ((i :: rest).filterMap (fun i => tr[i]?)) =
          p.2 :: levelRows L (rest.filterMap (fun i => tr[i]?)) := by
        simp [levelRows, hp, hL]
      rw [e1, e2]
      simp only [pick, List.mapM_cons] at hr ⊢
      rw [hk, hr]; rfl
    · have e1 : restrict L tr (i :: rest) = restrict L tr rest := by
        simp [restrict, hp, hL]
      have e2 : levelRows L ((i :: rest).filterMap (fun i => tr[i]?)) =
          levelRows L (rest.filterMap (fun i => tr[i]?)) := by
        simp [levelRows, hp, hL]
      rw [e1, e2]; exact hr

/-- no cross-talk between control levels: data sets that agree on the control tags everywhere and on the rows of level L
    have the same CI at level L, whatever the other rows are -/
theorem levelRows_congr (L : Nat) : ∀ (tr1 tr2 : List TRow), tr1.map (fun p => p.1) = tr2.map (fun p => p.1) →
    (∀ (i : Nat) (p q : TRow), tr1[i]? = some p → tr2[i]? = some q → p.1 = L → p.2 = q.2) → levelRows L tr1 = levelRows L tr2 := by
  intro tr1
  induction tr1 with
  | nil => intro tr2 h _; cases tr2 <;> simp_all [levelRows]
  | cons a t ih =>
    intro tr2 h hrows
    cases tr2 with
    | nil => simp at h
    | cons b u =>
      simp only [List.map_cons, List.cons.injEq] at h
      have ht := ih u h.2 (fun i p q hp hq => hrows (i + 1) p q (by simp [hp]) (by simp [hq]))
      have hab := hrows 0 a b rfl rfl
      by_cases ha : a.1 = L
      · have hb : b.1 = L := h.1 ▸ ha
        simp only [levelRows] at ht ⊢
        simp [ha, hb, hab ha, ht]
      · have hb : ¬ b.1 = L := h.1 ▸ ha
        simp only [levelRows] at ht ⊢
        simp [ha, hb, ht]

theorem restrict_congr (L : Nat) (tr1 tr2 : List TRow) (h : tr1.map (fun p => p.1) = tr2.map (fun p => p.1)) (idx : List Nat) :
    restrict L tr1 idx = restrict L tr2 idx := by
  have hget : ∀ i : Nat, (tr1[i]?).map (fun p => p.1) = (tr2[i]?).map (fun p => p.1) := by
    intro i
    have := congrArg (fun l => l[i]?) h
    simpa [List.getElem?_map] using this
  have hrank : ∀ i, rank L tr1 i = rank L tr2 i := by
    intro i
    have ht : (tr1.take i).map (fun p => p.1) = (tr2.take i).map (fun p => p.1) := by rw [List.map_take, List.map_take, h]
    have e : ∀ (l : List TRow), (l.filter (fun p => p.1 == L)).length = ((l.map (fun p => p.1)).filter (· == L)).length := by
      intro l; induction l with
      | nil => rfl
      | cons a t ih => by_cases ha : a.1 = L <;> simp [ha, ih]
    unfold rank; rw [e, e, ht]
  unfold restrict
  have hf : ∀ i : Nat, ((tr1[i]?).map (fun (p : TRow) => p.1 == L)).getD false =
      ((tr2[i]?).map (fun (p : TRow) => p.1 == L)).getD false := by
    intro i
    have := hget i
    cases h1 : tr1[i]? <;> cases h2 : tr2[i]? <;> simp_all
  have hfun : (fun i : Nat => ((tr1[i]?).map (fun (p : TRow) => p.1 == L)).getD false) =
      (fun i : Nat => ((tr2[i]?).map (fun (p : TRow) => p.1 == L)).getD false) := funext hf
  rw [hfun]
  exact List.map_congr_left (fun i _ => hrank i)

end Bootstrap
