/-
Facts tying the source-parametrised bootstrap model (`Model/BootstrapSrc.lean`, over `Generated/BootstrapSrc.lean`)
to the hand-written one (`Model/Bootstrap.lean`): for the CURRENT generated values they coincide.
-/
import FairModel.Lemmas.Bootstrap
import FairModel.Model.BootstrapSrc

namespace BootstrapSrc
open BaseMetrics Weights Bootstrap Generated.BootstrapSrc

theorem quantileBy_linear (xs : List Rat) (q : Rat) : quantileBy .linear xs q = quantileLinear xs q := rfl

theorem quantilePropBy_linear (xs : List XR) (q : Rat) : quantilePropBy .linear xs q = quantileProp xs q := rfl

theorem quantileSkipBy_linear (xs : List XR) (q : Rat) : quantileSkipBy .linear xs q = quantileSkip xs q := rfl

/-- the lifted quantile calls are `np.quantile` (Series path) and `np.nanquantile` (DataFrame path), both 'linear' -/
theorem quantileXRsrc_eq (frame : Bool) (xs : List XR) (q : Rat) :
    quantileXRsrc frame xs q = quantileXR frame xs q := by
  cases frame <;> rfl

theorem ciOfSrc_eq (frame : Bool) (samples : List XR) (qs : List Rat) :
    ciOfSrc frame samples qs = ciOf frame samples qs := by
  have h : quantileXRsrc frame samples = quantileXR frame samples := funext (quantileXRsrc_eq frame samples)
  have ho : qsUsed (if frame = true then frameQOrder else seriesQOrder) qs = qs := by cases frame <;> rfl
  simp only [ciOfSrc, ciOf, h, ho]

theorem byGroupCISrc_eq (samples : List (Option Frame)) (qs : List Rat) :
    byGroupCISrc samples qs = byGroupCI samples qs := by
  unfold byGroupCISrc byGroupCI
  simp only [ciOfSrc_eq]

theorem ciSrc_eq (frame : Bool) (m : BMetric) (rows : List WRow) (idxs : List (List Nat)) (qs : List Rat) :
    ciSrc frame m rows idxs qs = ci frame m rows idxs qs := by
  unfold ciSrc ci
  cases samplesOf m rows idxs with
  | none => rfl
  | some samples =>
    have ha : (!frameAligned && !sameKeys samples) = false := by
      have : frameAligned = true := rfl
      simp [this]
    simp only [ha, Bool.false_eq_true, if_false, ciOfSrc_eq, byGroupCISrc_eq]
    generalize ciOf frame (column fOverall samples) qs = a1
    generalize byGroupCI samples qs = a2
    generalize ciOf frame (column fMin samples) qs = a3
    generalize ciOf frame (column fMax samples) qs = a4
    generalize ciOf frame (column fDiffB samples) qs = a5
    generalize ciOf frame (column fDiffO samples) qs = a6
    generalize ciOf frame (column Frame.ratioBetween samples) qs = a7
    generalize ciOf frame (column Frame.ratioOverall samples) qs = a8
    cases a1 <;> cases a2 <;> cases a3 <;> cases a4 <;> cases a5 <;> cases a6 <;> cases a7 <;> cases a8 <;> rfl

theorem roundHalfEven_nat (n : Nat) : roundHalfEven (n : Rat) = n := by
  have hf : (n : Rat).floor = (n : Int) := by
    have := Rat.floor_intCast (n : Int)
    simpa using this
  unfold roundHalfEven
  simp only [hf]
  have : ((n : Rat) - ((n : Int) : Rat)) = 0 := by simp
  rw [this]
  norm_num

theorem drawCount_eq (n : Nat) : drawCount n = n := by
  have h : drawSize = .frac 1 := rfl
  unfold drawCount
  rw [h]
  simp only [one_mul]
  exact roundHalfEven_nat n

theorem loopCount_eq (B : Nat) : loopCount B = B := by
  have h : loopCountOffset = 0 := rfl
  unfold loopCount
  rw [h]; simp

theorem seedIndex_eq (i : Nat) : seedIndex i = some i := rfl

theorem validResample_length (n : Nat) (idx : List Nat) (h : validResample n idx = true) :
    idx.length = n ∧ ∀ i ∈ idx, i < n := by
  unfold validResample at h
  simp only [Bool.and_eq_true, beq_iff_eq, List.all_eq_true, decide_eq_true_eq] at h
  obtain ⟨⟨h1, h2⟩, _⟩ := h
  exact ⟨by rw [h1, drawCount_eq], h2⟩

/-- with replacement: ANY list of n positions below n is a possible resample (repetitions included) -/
theorem validResample_of_length (n : Nat) (idx : List Nat) (hl : idx.length = n) (hb : ∀ i ∈ idx, i < n) :
    validResample n idx = true := by
  have hr : sampleReplace = true := rfl
  unfold validResample
  simp only [Bool.and_eq_true, beq_iff_eq, List.all_eq_true, decide_eq_true_eq, hr, Bool.true_or, and_true]
  exact ⟨by rw [hl, drawCount_eq], hb⟩

end BootstrapSrc
