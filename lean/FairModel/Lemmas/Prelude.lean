/-
The fixed set of Mathlib modules the proof files use (imported one module at a time,
never `import Mathlib`).  Model files never import this.
-/
import Mathlib.Tactic.Ring
import Mathlib.Tactic.Linarith
import Mathlib.Tactic.FieldSimp
import Mathlib.Tactic.Positivity
import Mathlib.Tactic.NormNum
import Mathlib.Algebra.Order.Field.Basic
import Mathlib.Algebra.Order.Field.Rat
import Mathlib.Algebra.BigOperators.Ring.Finset
import Mathlib.Algebra.Order.BigOperators.Group.List
import Mathlib.Data.List.Perm.Basic
