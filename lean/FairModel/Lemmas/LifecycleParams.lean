/-
`set_params` histories: an estimator whose `fit` reads only constructor parameters shows the specification's view for
every history; one whose `fit` reads an `__init__`-derived attribute does not (2-operation witness).
-/
import FairModel.Lemmas.Prelude
import FairModel.Model.LifecycleParams

namespace LifecycleParams
open Lifecycle

/-- the states a machine that does not read the derived attribute can be in, relative to the specification -/
def Rel (s : PState) (t : PSpecState) : Prop :=
  s.param = t.param ∧ s.fitted = t.fitted.map (fun p => (p.1, p.2, p.2))

theorem step_rel (s : PState) (t : PSpecState) (o : POp) (h : Rel s t) :
    Rel (pStep false s o).1 (pspecStep t o).1 ∧ (pStep false s o).2 = (pspecStep t o).2 := by
  obtain ⟨h1, h2⟩ := h
  rcases s with ⟨p, q, f⟩
  rcases t with ⟨p', f'⟩
  simp only at h1 h2
  subst h1 h2
  cases o <;> cases f' <;> simp [pStep, pspecStep, Rel]

theorem cls_rel (s : PState) (t : PSpecState) (h : Rel s t) : pCls s = pspecCls t := by
  obtain ⟨_, h2⟩ := h
  rcases s with ⟨p, q, f⟩
  rcases t with ⟨p', f'⟩
  simp only at h2
  subst h2
  cases f' with
  | none => rfl
  | some v => obtain ⟨d, v⟩ := v; simp [pCls, pspecCls]

theorem trace_rel : ∀ (ops : List POp) (s : PState) (t : PSpecState), Rel s t →
    (traceWith (pStep false) s ops).map (fun p => (p.1, pCls p.2)) =
      (traceWith pspecStep t ops).map (fun p => (p.1, pspecCls p.2)) := by
  intro ops
  induction ops with
  | nil => intro s t _; rfl
  | cons o os ih =>
    intro s t h
    obtain ⟨h1, h2⟩ := step_rel s t o h
    simp only [traceWith, List.map_cons]
    rw [h2, cls_rel _ _ h1, ih _ _ h1]

theorem view_false_eq_spec (p0 : Nat) (ops : List POp) : view false p0 ops = specView p0 ops :=
  trace_rel ops ⟨p0, p0, none⟩ ⟨p0, none⟩ ⟨rfl, rfl⟩

theorem runWith_snoc {σ : Type} (step : σ → POp → σ × Res) (s : σ) (ops : List POp) (o : POp) :
    runWith step s (ops ++ [o]) = (step (runWith step s ops) o).1 := by
  simp [runWith, List.foldl_append]

/-- the parameter value in force after a history: the last `set_params`, else the constructor value -/
def currentParam (p0 : Nat) (ops : List POp) : Nat :=
  ops.foldl (fun p o => match o with | .setParam v => v | _ => p) p0

theorem spec_param (ops : List POp) : ∀ (s : PSpecState),
    (runWith pspecStep s ops).param = currentParam s.param ops := by
  induction ops with
  | nil => intro s; rfl
  | cons o os ih =>
    intro s
    show (runWith pspecStep (pspecStep s o).1 os).param = currentParam (match o with | .setParam v => v | _ => s.param) os
    rw [ih]
    cases o <;> rfl

end LifecycleParams
