import FairModel.Lemmas.Prelude
import FairModel.Model.Adversarial

namespace Adversarial
open AdvProjection

/-! ### dot -/

@[simp] theorem dot_nil_left (v : Vec) : dot [] v = 0 := by simp [dot]
@[simp] theorem dot_nil_right (v : Vec) : dot v [] = 0 := by cases v <;> simp [dot]
@[simp] theorem dot_cons (x y : Rat) (xs ys : Vec) : dot (x :: xs) (y :: ys) = x * y + dot xs ys := by
  simp [dot]

theorem dot_comm (a b : Vec) : dot a b = dot b a := by
  induction a generalizing b with
  | nil => simp
  | cons x xs ih =>
    cases b with
    | nil => simp
    | cons y ys => simp [ih ys, mul_comm]

theorem dot_smul_left (c : Rat) (a b : Vec) : dot (smul c a) b = c * dot a b := by
  induction a generalizing b with
  | nil => simp [smul]
  | cons x xs ih =>
    cases b with
    | nil => simp
    | cons y ys =>
      have := ih ys
      simp only [smul, List.map_cons, dot_cons] at this ⊢
      rw [this]; ring

theorem dot_smul_right (c : Rat) (a b : Vec) : dot a (smul c b) = c * dot a b := by
  rw [dot_comm, dot_smul_left, dot_comm]

@[simp] theorem length_smul (c : Rat) (a : Vec) : (smul c a).length = a.length := by simp [smul]
@[simp] theorem length_vsub (a b : Vec) : (vsub a b).length = min a.length b.length := by simp [vsub]
@[simp] theorem length_vadd (a b : Vec) : (vadd a b).length = min a.length b.length := by simp [vadd]

theorem dot_vsub_left (a b z : Vec) (h : a.length = b.length) :
    dot (vsub a b) z = dot a z - dot b z := by
  induction a generalizing b z with
  | nil => cases b with
    | nil => simp [vsub]
    | cons y ys => simp at h
  | cons x xs ih =>
    cases b with
    | nil => simp at h
    | cons y ys =>
      cases z with
      | nil => simp
      | cons w ws =>
        have := ih ys ws (by simpa using h)
        simp only [vsub, List.zipWith_cons_cons, dot_cons] at this ⊢
        rw [this]; ring

theorem dot_vadd_left (a b z : Vec) (h : a.length = b.length) :
    dot (vadd a b) z = dot a z + dot b z := by
  induction a generalizing b z with
  | nil => cases b with
    | nil => simp [vadd]
    | cons y ys => simp at h
  | cons x xs ih =>
    cases b with
    | nil => simp at h
    | cons y ys =>
      cases z with
      | nil => simp
      | cons w ws =>
        have := ih ys ws (by simpa using h)
        simp only [vadd, List.zipWith_cons_cons, dot_cons] at this ⊢
        rw [this]; ring

theorem dot_append (a1 a2 b1 b2 : Vec) (h : a1.length = b1.length) :
    dot (a1 ++ a2) (b1 ++ b2) = dot a1 b1 + dot a2 b2 := by
  induction a1 generalizing b1 with
  | nil => cases b1 with
    | nil => simp
    | cons y ys => simp at h
  | cons x xs ih =>
    cases b1 with
    | nil => simp at h
    | cons y ys =>
      have := ih ys (by simpa using h)
      simp only [List.cons_append, dot_cons, this]; ring

theorem dot_self_nonneg (v : Vec) : 0 ≤ dot v v := by
  induction v with
  | nil => simp
  | cons x xs ih => simp only [dot_cons]; nlinarith [mul_self_nonneg x]

theorem dot_self_eq_zero (v : Vec) : dot v v = 0 ↔ ∀ x ∈ v, x = 0 := by
  induction v with
  | nil => simp
  | cons x xs ih =>
    simp only [dot_cons, List.mem_cons, forall_eq_or_imp]
    have h1 := mul_self_nonneg x
    have h2 := dot_self_nonneg xs
    constructor
    · intro h
      have hx : x * x = 0 := by linarith
      have hxs : dot xs xs = 0 := by linarith
      exact ⟨mul_self_eq_zero.mp hx, ih.mp hxs⟩
    · rintro ⟨hx, hxs⟩
      rw [ih.mpr hxs, hx]; ring

/-! ### the update on flattened tensors -/

theorem vadd_vsub_cancel (x y : Vec) (h : x.length = y.length) : vadd (vsub x y) y = x := by
  induction x generalizing y with
  | nil => cases y <;> simp [vadd, vsub]
  | cons a as ih =>
    cases y with
    | nil => simp at h
    | cons b bs =>
      have := ih bs (by simpa using h)
      simp only [vadd, vsub, List.zipWith_cons_cons] at this ⊢
      rw [this]; simp

/-- `g + alpha * b` is `a` minus its projection on `b` -/
theorem combine_add (a b : Vec) (α : Rat) (h : a.length = b.length) :
    vadd (combine a b α) (smul α b) = vsub a (smul (dot b a / dot b b) b) := by
  unfold combine
  apply vadd_vsub_cancel
  simp [h]

theorem dot_combine_add (a b : Vec) (α : Rat) (h : a.length = b.length) (hb : dot b b ≠ 0) :
    dot (vadd (combine a b α) (smul α b)) b = 0 := by
  rw [combine_add a b α h, dot_vsub_left _ _ _ (by simp [h]), dot_smul_left, dot_comm a b]
  field_simp
  ring

theorem observed_sgdStep (W g : Vec) (lr : Rat) (h : W.length = g.length) (hlr : lr ≠ 0) :
    observed W (sgdStep W g lr) lr = g := by
  unfold observed sgdStep
  induction W generalizing g with
  | nil => cases g with
    | nil => simp [vsub, smul]
    | cons y ys => simp at h
  | cons x xs ih =>
    cases g with
    | nil => simp at h
    | cons y ys =>
      have := ih ys (by simpa using h)
      simp only [vsub, smul, List.map_cons, List.zipWith_cons_cons] at this ⊢
      rw [this]
      congr 1
      field_simp
      ring

/-! ### matrices and flattening -/

@[simp] theorem frob_nil_left (B : Mat) : frob [] B = 0 := by simp [frob]
@[simp] theorem frob_nil_right (A : Mat) : frob A [] = 0 := by cases A <;> simp [frob]
@[simp] theorem frob_cons (r s : Vec) (A B : Mat) : frob (r :: A) (s :: B) = dot r s + frob A B := by
  simp [frob]

@[simp] theorem sameShape_nil : sameShape [] [] = true := by simp [sameShape]
@[simp] theorem sameShape_cons (r s : Vec) (A B : Mat) :
    sameShape (r :: A) (s :: B) = (r.length == s.length && sameShape A B) := by simp [sameShape]
@[simp] theorem sameShape_nil_cons (s : Vec) (B : Mat) : sameShape [] (s :: B) = false := by simp [sameShape]
@[simp] theorem sameShape_cons_nil (r : Vec) (A : Mat) : sameShape (r :: A) [] = false := by simp [sameShape]

theorem sameShape_refl (A : Mat) : sameShape A A = true := by
  induction A with
  | nil => simp
  | cons r A ih => simp [ih]

theorem sameShape_symm {A B : Mat} (h : sameShape A B = true) : sameShape B A = true := by
  induction A generalizing B with
  | nil => cases B <;> simp_all
  | cons r A ih =>
    cases B with
    | nil => simp at h
    | cons s B =>
      simp only [sameShape_cons, Bool.and_eq_true, beq_iff_eq] at h ⊢
      exact ⟨h.1.symm, ih h.2⟩

theorem sameShape_flat_length {A B : Mat} (h : sameShape A B = true) : (flat A).length = (flat B).length := by
  induction A generalizing B with
  | nil => cases B <;> simp_all [flat]
  | cons r A ih =>
    cases B with
    | nil => simp at h
    | cons s B =>
      simp only [sameShape_cons, Bool.and_eq_true, beq_iff_eq] at h
      have := ih h.2
      simp only [flat, List.flatten_cons, List.length_append] at this ⊢
      omega

/-- Frobenius product of two equally shaped matrices = dot product of their flattenings (any shape) -/
theorem frob_eq_dot_flat {A B : Mat} (h : sameShape A B = true) : frob A B = dot (flat A) (flat B) := by
  induction A generalizing B with
  | nil => cases B <;> simp_all [flat]
  | cons r A ih =>
    cases B with
    | nil => simp at h
    | cons s B =>
      simp only [sameShape_cons, Bool.and_eq_true, beq_iff_eq] at h
      simp only [frob_cons, flat, List.flatten_cons]
      rw [dot_append _ _ _ _ h.1, ih h.2]
      rfl

theorem flat_msmul (c : Rat) (M : Mat) : flat (msmul c M) = smul c (flat M) := by
  induction M with
  | nil => simp [flat, msmul, smul]
  | cons r M ih =>
    simp only [flat, msmul, smul, List.map_cons, List.flatten_cons, List.map_append] at ih ⊢
    rw [ih]

theorem sameShape_msmul_right {A B : Mat} (c : Rat) (h : sameShape A B = true) :
    sameShape A (msmul c B) = true := by
  induction A generalizing B with
  | nil => cases B <;> simp_all [msmul]
  | cons r A ih =>
    cases B with
    | nil => simp at h
    | cons s B =>
      simp only [sameShape_cons, Bool.and_eq_true, beq_iff_eq] at h
      have := ih h.2
      simp only [msmul, List.map_cons, sameShape_cons, length_smul, Bool.and_eq_true, beq_iff_eq] at this ⊢
      exact ⟨h.1, this⟩

theorem flat_msub {A B : Mat} (h : sameShape A B = true) : flat (msub A B) = vsub (flat A) (flat B) := by
  induction A generalizing B with
  | nil => cases B <;> simp_all [flat, msub, vsub]
  | cons r A ih =>
    cases B with
    | nil => simp at h
    | cons s B =>
      simp only [sameShape_cons, Bool.and_eq_true, beq_iff_eq] at h
      have := ih h.2
      simp only [flat, msub, vsub, List.zipWith_cons_cons, List.flatten_cons] at this ⊢
      rw [this, List.zipWith_append h.1]

theorem flat_madd {A B : Mat} (h : sameShape A B = true) : flat (madd A B) = vadd (flat A) (flat B) := by
  induction A generalizing B with
  | nil => cases B <;> simp_all [flat, madd, vadd]
  | cons r A ih =>
    cases B with
    | nil => simp at h
    | cons s B =>
      simp only [sameShape_cons, Bool.and_eq_true, beq_iff_eq] at h
      have := ih h.2
      simp only [flat, madd, vadd, List.zipWith_cons_cons, List.flatten_cons] at this ⊢
      rw [this, List.zipWith_append h.1]

theorem sameShape_msub_left {A B C : Mat} (h : sameShape A B = true) (h2 : sameShape A C = true) :
    sameShape (msub A B) C = true := by
  induction A generalizing B C with
  | nil => cases B <;> cases C <;> simp_all [msub]
  | cons r A ih =>
    cases B with
    | nil => simp at h
    | cons s B =>
      cases C with
      | nil => simp at h2
      | cons t C =>
        simp only [sameShape_cons, Bool.and_eq_true, beq_iff_eq] at h h2
        have := ih h.2 h2.2
        simp only [msub, List.zipWith_cons_cons, sameShape_cons, length_vsub, Bool.and_eq_true, beq_iff_eq] at this ⊢
        refine ⟨?_, this⟩
        omega

/-- the matrix-level normalised update with the Frobenius product is `combine` on the flattenings -/
theorem flat_gradWith_frobenius {A B : Mat} (α : Rat) (h : sameShape A B = true) :
    flat (gradWith .frobenius A B α) = combine (flat A) (flat B) α := by
  unfold gradWith combine inner
  have hBA := sameShape_symm h
  rw [flat_msub (sameShape_msub_left (sameShape_msmul_right _ h) (sameShape_msmul_right _ h)),
      flat_msub (sameShape_msmul_right _ h), flat_msmul, flat_msmul,
      frob_eq_dot_flat hBA, frob_eq_dot_flat (sameShape_refl B)]

theorem sameShape_gradWith {A B : Mat} (k : InnerKind) (α : Rat) (h : sameShape A B = true) :
    sameShape (gradWith k A B α) B = true := by
  unfold gradWith
  have hX := sameShape_msub_left (sameShape_msmul_right (inner k B A / frob B B) h) h
  exact sameShape_msub_left (sameShape_msmul_right α hX) hX

/-! ### sumInner -/

theorem sumInner_single (u a : Vec) : sumInner [u] [a] = dot u a := by simp [sumInner]

theorem sum_map_dot_smul (c : Rat) (u : Vec) (A : Mat) :
    (A.map (fun a => dot (smul c u) a)).sum = c * (A.map (fun a => dot u a)).sum := by
  induction A with
  | nil => simp
  | cons r A ih =>
    simp only [List.map_cons, List.sum_cons]
    rw [ih, dot_smul_left]; ring

theorem sumInner_msmul_left (c : Rat) (U A : Mat) : sumInner (msmul c U) A = c * sumInner U A := by
  unfold sumInner msmul
  induction U with
  | nil => simp
  | cons u U ih =>
    simp only [List.map_cons, List.sum_cons] at ih ⊢
    rw [ih, sum_map_dot_smul]; ring

theorem frob_msmul_left (c : Rat) (U A : Mat) : frob (msmul c U) A = c * frob U A := by
  induction U generalizing A with
  | nil => simp [msmul]
  | cons u U ih =>
    cases A with
    | nil => simp
    | cons a A =>
      have := ih A
      simp only [msmul, List.map_cons, frob_cons, dot_smul_left] at this ⊢
      rw [this]; ring

theorem inner_msmul_left (k : InnerKind) (c : Rat) (U A : Mat) : inner k (msmul c U) A = c * inner k U A := by
  cases k
  · exact frob_msmul_left c U A
  · exact sumInner_msmul_left c U A

/-! ### the code's literal form equals the normalised form -/

theorem unitMat_eq (unit : Rat → Rat → Rat → Rat) (hunit : ∀ b n, unit b n 0 = b / n) (B : Mat) (nrm : Rat) :
    unitMat unit B nrm 0 = msmul (1 / nrm) B := by
  unfold unitMat msmul smul
  apply List.map_congr_left; intro r _
  apply List.map_congr_left; intro b _
  rw [hunit]; ring

theorem rowRaw_eq (grad : Rat → Rat → Rat → Rat → Rat → Rat)
    (hgrad : ∀ a u b p α, grad a u b p α = a - p * u - α * b) (p α c c' : Rat) (hc : p * c = c')
    (ra rb : Vec) (h : ra.length = rb.length) :
    rowRaw grad p α ra (smul c rb) rb = vsub (vsub ra (smul c' rb)) (smul α rb) := by
  induction ra generalizing rb with
  | nil => cases rb <;> simp_all [rowRaw, vsub, smul]
  | cons a ra ih =>
    cases rb with
    | nil => simp at h
    | cons b rb =>
      have := ih rb (by simpa using h)
      simp only [smul, vsub, List.map_cons, rowRaw, List.zipWith_cons_cons] at this ⊢
      rw [this, hgrad, ← hc]
      congr 1
      ring

theorem matRaw_eq (grad : Rat → Rat → Rat → Rat → Rat → Rat)
    (hgrad : ∀ a u b p α, grad a u b p α = a - p * u - α * b) (p α c c' : Rat) (hc : p * c = c')
    (A B : Mat) (h : sameShape A B = true) :
    matRaw grad p α A (msmul c B) B = msub (msub A (msmul c' B)) (msmul α B) := by
  induction A generalizing B with
  | nil => cases B <;> simp_all [matRaw, msub, msmul]
  | cons ra A ih =>
    cases B with
    | nil => simp at h
    | cons rb B =>
      simp only [sameShape_cons, Bool.and_eq_true, beq_iff_eq] at h
      have := ih B h.2
      simp only [msmul, msub, List.map_cons, matRaw, List.zipWith_cons_cons] at this ⊢
      rw [this, rowRaw_eq grad hgrad p α c c' hc ra rb h.1]

theorem engineGradRaw_eq (unit : Rat → Rat → Rat → Rat) (grad : Rat → Rat → Rat → Rat → Rat → Rat)
    (hunit : ∀ b n, unit b n 0 = b / n) (hgrad : ∀ a u b p α, grad a u b p α = a - p * u - α * b)
    (k : InnerKind) (A B : Mat) (α nrm : Rat) (h : sameShape A B = true)
    (hn : nrm * nrm = frob B B) (hn0 : nrm ≠ 0) :
    engineGradRaw unit grad k A B α nrm 0 = gradWith k A B α := by
  unfold engineGradRaw gradWith
  simp only [unitMat_eq unit hunit, inner_msmul_left]
  apply matRaw_eq grad hgrad _ _ _ _ _ A B h
  rw [← hn]; field_simp

/-! ### zero tensors -/

theorem frob_self_nonneg (B : Mat) : 0 ≤ frob B B := by
  induction B with
  | nil => simp
  | cons r B ih => simp only [frob_cons]; linarith [dot_self_nonneg r]

theorem frob_self_eq_zero (B : Mat) : frob B B = 0 ↔ ∀ r ∈ B, ∀ x ∈ r, x = 0 := by
  induction B with
  | nil => simp
  | cons r B ih =>
    simp only [frob_cons, List.mem_cons, forall_eq_or_imp]
    have h1 := dot_self_nonneg r
    have h2 := frob_self_nonneg B
    constructor
    · intro h
      have hr : dot r r = 0 := by linarith
      have hB : frob B B = 0 := by linarith
      exact ⟨(dot_self_eq_zero r).mp hr, ih.mp hB⟩
    · rintro ⟨hr, hB⟩
      rw [ih.mpr hB, (dot_self_eq_zero r).mpr hr]; ring

/-! ### review R2: the update with an arbitrary projection coefficient; the literal form WITH the `tiny` regulariser -/

theorem sameShape_madd_left {X Y Z : Mat} (hy : sameShape X Y = true) (hz : sameShape X Z = true) :
    sameShape (madd X Y) Z = true := by
  induction X generalizing Y Z with
  | nil => cases Y <;> cases Z <;> simp_all [madd]
  | cons r X ih =>
    cases Y with
    | nil => simp at hy
    | cons s Y =>
      cases Z with
      | nil => simp at hz
      | cons t Z =>
        simp only [sameShape_cons, Bool.and_eq_true, beq_iff_eq] at hy hz
        have := ih hy.2 hz.2
        simp only [madd, List.zipWith_cons_cons, sameShape_cons, length_vadd, Bool.and_eq_true,
          beq_iff_eq] at this ⊢
        exact ⟨by omega, this⟩

theorem frob_comm (A B : Mat) : frob A B = frob B A := by
  induction A generalizing B with
  | nil => simp
  | cons r A ih =>
    cases B with
    | nil => simp
    | cons s B => simp [ih B, dot_comm r s]

/-- `A − c·B − α·B`: the shape of the update for ANY projection coefficient `c` -/
def gradCoef (c : Rat) (A B : Mat) (α : Rat) : Mat := msub (msub A (msmul c B)) (msmul α B)

theorem gradWith_eq_gradCoef (k : InnerKind) (A B : Mat) (α : Rat) :
    gradWith k A B α = gradCoef (inner k B A / frob B B) A B α := rfl

theorem sameShape_gradCoef {A B : Mat} (c α : Rat) (h : sameShape A B = true) :
    sameShape (gradCoef c A B α) B = true := by
  unfold gradCoef
  have hX := sameShape_msub_left (sameShape_msmul_right c h) h
  exact sameShape_msub_left (sameShape_msmul_right α hX) hX

/-- the exact orthogonality defect of `A − c·B − α·B`: `<G + α B, B> = <A,B> − c·<B,B>` (zero iff `c` is the projection
    coefficient, or `B = 0`) -/
theorem frob_gradCoef_add {A B : Mat} (c α : Rat) (h : sameShape A B = true) :
    frob (madd (gradCoef c A B α) (msmul α B)) B = frob A B - c * frob B B := by
  have hG := sameShape_gradCoef c α h
  have hs : sameShape (madd (gradCoef c A B α) (msmul α B)) B = true :=
    sameShape_madd_left (sameShape_msmul_right α hG) hG
  have hX := sameShape_msub_left (sameShape_msmul_right c h) h
  have hl := sameShape_flat_length h
  rw [frob_eq_dot_flat hs, flat_madd (sameShape_msmul_right α hG), flat_msmul]
  unfold gradCoef
  rw [flat_msub (sameShape_msmul_right α hX), flat_msub (sameShape_msmul_right c h), flat_msmul, flat_msmul,
    vadd_vsub_cancel _ _ (by simp [hl]), dot_vsub_left _ _ _ (by simp [hl]), dot_smul_left,
    ← frob_eq_dot_flat h, ← frob_eq_dot_flat (sameShape_refl B)]

theorem unitMat_eq_tiny (unit : Rat → Rat → Rat → Rat) (hunit : ∀ b n t, unit b n t = b / (n + t)) (B : Mat)
    (nrm tiny : Rat) : unitMat unit B nrm tiny = msmul (1 / (nrm + tiny)) B := by
  unfold unitMat msmul smul
  apply List.map_congr_left; intro r _
  apply List.map_congr_left; intro b _
  rw [hunit]; ring

/-- the code's literal three lines WITH the regulariser (`unit = B / (‖B‖ + tiny)`): the projection coefficient is
    `<B,A> / (‖B‖ + tiny)²`, not `<B,A> / ‖B‖²` -/
theorem engineGradRaw_tiny (unit : Rat → Rat → Rat → Rat) (grad : Rat → Rat → Rat → Rat → Rat → Rat)
    (hunit : ∀ b n t, unit b n t = b / (n + t)) (hgrad : ∀ a u b p α, grad a u b p α = a - p * u - α * b)
    (k : InnerKind) (A B : Mat) (α nrm tiny : Rat) (h : sameShape A B = true) :
    engineGradRaw unit grad k A B α nrm tiny = gradCoef (inner k B A / ((nrm + tiny) * (nrm + tiny))) A B α := by
  unfold engineGradRaw gradCoef
  simp only [unitMat_eq_tiny unit hunit, inner_msmul_left]
  apply matRaw_eq grad hgrad _ _ _ _ _ A B h
  rw [div_eq_mul_inv, div_eq_mul_inv, mul_inv]; ring

end Adversarial
