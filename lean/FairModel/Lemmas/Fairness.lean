import FairModel.Lemmas.Aggregate
import FairModel.Lemmas.BaseMetrics
import FairModel.Lemmas.WeightedMean
import FairModel.Properties.C01
import FairModel.Model.Fairness

/-! Helper lemmas for C03:
  A. on binary {0,1} data the confusion-matrix rates of `BaseMetrics` (as called with
     `pos_label=None`) are the direct weighted ratios `tprSpec` / `fprSpec`, `selection_rate` is
     `selRateSpec` (Part A);
  B. for a metric that is finite on every non-empty slice, the values the aggregates of the
     one-stratum frame see are exactly the metric values of the observed groups (Part B). -/

namespace Fairness
open Frame Aggregate MetricPool XR

/-! ### Part A -/

theorem mem_insertSorted {x z : Int} {l : List Int} :
    z ∈ BaseMetrics.insertSorted x l ↔ z = x ∨ z ∈ l := by
  induction l with
  | nil => simp [BaseMetrics.insertSorted]
  | cons y ys ih =>
    unfold BaseMetrics.insertSorted
    split
    · simp
    · split
      · next h => subst h; simp
      · simp [ih]; tauto

theorem mem_uniqueSorted {z : Int} {l : List Int} : z ∈ BaseMetrics.uniqueSorted l ↔ z ∈ l := by
  induction l with
  | nil => simp [BaseMetrics.uniqueSorted]
  | cons a l ih =>
    have : BaseMetrics.uniqueSorted (a :: l) = BaseMetrics.insertSorted a (BaseMetrics.uniqueSorted l) := rfl
    rw [this, mem_insertSorted, ih]; simp

theorem sorted_insertSorted (x : Int) {l : List Int} (h : l.Pairwise (· < ·)) :
    (BaseMetrics.insertSorted x l).Pairwise (· < ·) := by
  induction l with
  | nil => simp [BaseMetrics.insertSorted]
  | cons y ys ih =>
    have hy := List.pairwise_cons.mp h
    unfold BaseMetrics.insertSorted
    split
    · next hxy =>
      refine List.pairwise_cons.mpr ⟨?_, h⟩
      intro z hz
      rcases List.mem_cons.mp hz with rfl | hz
      · exact hxy
      · exact lt_trans hxy (hy.1 z hz)
    · split
      · exact h
      · next h1 h2 =>
        refine List.pairwise_cons.mpr ⟨?_, ih hy.2⟩
        intro z hz
        rcases mem_insertSorted.mp hz with rfl | hz
        · omega
        · exact hy.1 z hz

theorem sorted_uniqueSorted (l : List Int) : (BaseMetrics.uniqueSorted l).Pairwise (· < ·) := by
  induction l with
  | nil => simp [BaseMetrics.uniqueSorted]
  | cons a l ih => exact sorted_insertSorted a ih

/-- a strictly increasing list over {0,1} -/
theorem sorted01 {l : List Int} (hs : l.Pairwise (· < ·)) (h01 : ∀ z ∈ l, z = 0 ∨ z = 1) :
    l = [] ∨ l = [0] ∨ l = [1] ∨ l = [0, 1] := by
  match l, hs, h01 with
  | [], _, _ => left; rfl
  | [a], _, h01 =>
    rcases h01 a (by simp) with rfl | rfl
    · right; left; rfl
    · right; right; left; rfl
  | a :: b :: rest, hs, h01 =>
    have h1 := List.pairwise_cons.mp hs
    have hab := h1.1 b (by simp)
    have ha := h01 a (by simp)
    have hb := h01 b (by simp)
    have hrest : rest = [] := by
      cases rest with
      | nil => rfl
      | cons c r =>
        have hbc := (List.pairwise_cons.mp h1.2).1 c (by simp)
        have hc := h01 c (by simp)
        omega
    subst hrest
    right; right; right
    have : a = 0 ∧ b = 1 := by omega
    rw [this.1, this.2]

/-- y and pred are 0/1 -/
def Binary (ds : List Dat) : Prop := ∀ d ∈ ds, (d.y = 0 ∨ d.y = 1) ∧ (d.pred = 0 ∨ d.pred = 1)

theorem binary_isInt {ds : List Dat} (h : Binary ds) : ds.all isIntLabel = true := by
  rw [List.all_eq_true]
  intro d hd
  rcases (h d hd).1 with h1 | h1 <;> rcases (h d hd).2 with h2 | h2 <;> simp [isIntLabel, h1, h2]

theorem toBM_labels {ds : List Dat} (h : Binary ds) :
    ∀ z ∈ BaseMetrics.allLabels (ds.map toBM), z = 0 ∨ z = 1 := by
  intro z hz
  simp only [BaseMetrics.allLabels, List.mem_append, List.mem_map] at hz
  rcases hz with ⟨r, ⟨d, hd, rfl⟩, rfl⟩ | ⟨r, ⟨d, hd, rfl⟩, rfl⟩
  · rcases (h d hd).1 with h1 | h1 <;> simp [toBM, h1]
  · rcases (h d hd).2 with h1 | h1 <;> simp [toBM, h1]

/-- total weight (BaseMetrics side) of the rows satisfying a predicate, transported along `toBM` -/
theorem wsum_toBM (p : BaseMetrics.Row → Bool) (ds : List Dat) :
    BaseMetrics.wsum p (ds.map toBM) = wsum (fun d => p (toBM d)) ds := by
  induction ds with
  | nil => simp [BaseMetrics.wsum, wsum]
  | cons d ds ih =>
    rw [List.map_cons, BaseMetrics.wsum_cons, ih]
    have hw : (toBM d).w = d.p0 := rfl
    unfold wsum
    rw [List.filter_cons]
    by_cases h : p (toBM d) = true
    · rw [if_pos h, if_pos h, List.map_cons, List.sum_cons, hw]
    · rw [if_neg h, if_neg h, zero_add]

theorem wsum_congr {p q : Dat → Bool} {ds : List Dat} (h : ∀ d ∈ ds, p d = q d) : wsum p ds = wsum q ds := by
  unfold wsum
  rw [List.filter_congr h]

theorem wsum_split (p q : Dat → Bool) (ds : List Dat) :
    wsum p ds = wsum (fun d => p d && q d) ds + wsum (fun d => p d && !q d) ds := by
  induction ds with
  | nil => simp [wsum]
  | cons d ds ih =>
    simp only [wsum, List.filter_cons] at ih ⊢
    by_cases hp : p d <;> by_cases hq : q d <;> simp [hp, hq] <;> linarith

theorem wsum_eq_zero_of_none {p : Dat → Bool} {ds : List Dat} (h : ∀ d ∈ ds, p d = false) : wsum p ds = 0 := by
  unfold wsum
  rw [List.filter_eq_nil_iff.mpr (by intro d hd; simp [h d hd])]
  simp

/-- the (neg,pos) labels chosen for binary data and what that means for the data -/
theorem labelsForCM_binary {ds : List Dat} (h : Binary ds) (hne : ds ≠ []) :
    (BaseMetrics.labelsForCM (BaseMetrics.allLabels (ds.map toBM)) none = .ok (0, 1)) ∨
    (BaseMetrics.labelsForCM (BaseMetrics.allLabels (ds.map toBM)) none = .ok (BaseMetrics.int64Min, 1) ∧
      ∀ d ∈ ds, d.y = 1 ∧ d.pred = 1) := by
  have h01 := toBM_labels h
  have hu := sorted01 (sorted_uniqueSorted (BaseMetrics.allLabels (ds.map toBM)))
    (fun z hz => h01 z (mem_uniqueSorted.mp hz))
  rcases hu with hu | hu | hu | hu
  · -- impossible: there is at least one label
    exfalso
    cases ds with
    | nil => exact hne rfl
    | cons d ds =>
      have : (toBM d).yt ∈ BaseMetrics.uniqueSorted (BaseMetrics.allLabels ((d :: ds).map toBM)) := by
        rw [mem_uniqueSorted]; simp [BaseMetrics.allLabels]
      rw [hu] at this; simp at this
  · left; simp [BaseMetrics.labelsForCM, hu]
  · right
    refine ⟨by simp [BaseMetrics.labelsForCM, hu], ?_⟩
    intro d hd
    have hy : (toBM d).yt ∈ BaseMetrics.uniqueSorted (BaseMetrics.allLabels (ds.map toBM)) := by
      rw [mem_uniqueSorted]; simp only [BaseMetrics.allLabels, List.mem_append, List.mem_map]
      exact Or.inl ⟨toBM d, ⟨d, hd, rfl⟩, rfl⟩
    have hp : (toBM d).yp ∈ BaseMetrics.uniqueSorted (BaseMetrics.allLabels (ds.map toBM)) := by
      rw [mem_uniqueSorted]; simp only [BaseMetrics.allLabels, List.mem_append, List.mem_map]
      exact Or.inr ⟨toBM d, ⟨d, hd, rfl⟩, rfl⟩
    rw [hu] at hy hp
    simp only [List.mem_singleton, toBM] at hy hp
    constructor
    · rcases (h d hd).1 with h1 | h1
      · rw [h1] at hy; simp at hy
      · exact h1
    · rcases (h d hd).2 with h1 | h1
      · rw [h1] at hp; simp at hp
      · exact h1
  · left; simp [BaseMetrics.labelsForCM, hu]

theorem num_eq_iff {q : Rat} (hq : q = 0 ∨ q = 1) (k : Int) (hk : k = 0 ∨ k = 1) :
    (q.num == k) = (q == (k : Rat)) := by
  rcases hq with rfl | rfl <;> rcases hk with rfl | rfl <;> simp

/-- TPR cell of the pool = the direct weighted ratio (0 on an empty denominator) -/
theorem tpr_eq_spec {ds : List Dat} (h : Binary ds) (hne : ds ≠ []) :
    eval .tpr ds = .scalar (fin (tprSpec ds)) := by
  simp only [eval, rateCell, binary_isInt h, if_true, BaseMetrics.rate]
  have key : ∀ neg : Int, (neg = 0 ∨ (neg = BaseMetrics.int64Min ∧ ∀ d ∈ ds, d.y = 1 ∧ d.pred = 1)) →
      BaseMetrics.tprOf (ds.map toBM) neg 1 = tprSpec ds := by
    intro neg hneg
    simp only [BaseMetrics.tprOf, BaseMetrics.rowTot, BaseMetrics.cell, wsum_toBM, tprSpec]
    have e11 : wsum (fun d => (toBM d).yt == 1 && (toBM d).yp == 1) ds = wsum (fun d => d.y == 1 && d.pred == 1) ds := by
      apply wsum_congr; intro d hd
      simp only [toBM]
      rw [num_eq_iff (h d hd).1 1 (Or.inr rfl), num_eq_iff (h d hd).2 1 (Or.inr rfl)]; simp
    have e1n : wsum (fun d => (toBM d).yt == 1 && (toBM d).yp == neg) ds = wsum (fun d => d.y == 1 && !(d.pred == 1)) ds := by
      rcases hneg with rfl | ⟨rfl, hall⟩
      · apply wsum_congr; intro d hd
        simp only [toBM]
        rw [num_eq_iff (h d hd).1 1 (Or.inr rfl), num_eq_iff (h d hd).2 0 (Or.inl rfl)]
        rcases (h d hd).2 with h2 | h2 <;> simp [h2]
      · rw [wsum_eq_zero_of_none, wsum_eq_zero_of_none]
        · intro d hd; simp [(hall d hd).2]
        · intro d hd; simp [toBM, (hall d hd).2, BaseMetrics.int64Min]
    rw [e11, e1n, add_comm, ← wsum_split (fun d => d.y == 1) (fun d => d.pred == 1) ds]
    rfl
  rcases labelsForCM_binary h hne with h0 | ⟨h0, hall⟩
  · rw [h0]; simp only [BaseMetrics.rateOf, Cell.ofRat]; rw [key 0 (Or.inl rfl)]
  · rw [h0]; simp only [BaseMetrics.rateOf, Cell.ofRat]; rw [key _ (Or.inr ⟨rfl, hall⟩)]

/-- FPR cell of the pool = the direct weighted ratio (0 on an empty denominator) -/
theorem fpr_eq_spec {ds : List Dat} (h : Binary ds) (hne : ds ≠ []) :
    eval .fpr ds = .scalar (fin (fprSpec ds)) := by
  simp only [eval, rateCell, binary_isInt h, if_true, BaseMetrics.rate]
  have key : ∀ neg : Int, (neg = 0 ∨ (neg = BaseMetrics.int64Min ∧ ∀ d ∈ ds, d.y = 1 ∧ d.pred = 1)) →
      BaseMetrics.fprOf (ds.map toBM) neg 1 = fprSpec ds := by
    intro neg hneg
    simp only [BaseMetrics.fprOf, BaseMetrics.rowTot, BaseMetrics.cell, wsum_toBM, fprSpec]
    rcases hneg with rfl | ⟨rfl, hall⟩
    · have e01 : wsum (fun d => (toBM d).yt == 0 && (toBM d).yp == 1) ds = wsum (fun d => d.y == 0 && d.pred == 1) ds := by
        apply wsum_congr; intro d hd
        simp only [toBM]
        rw [num_eq_iff (h d hd).1 0 (Or.inl rfl), num_eq_iff (h d hd).2 1 (Or.inr rfl)]; simp
      have e00 : wsum (fun d => (toBM d).yt == 0 && (toBM d).yp == 0) ds = wsum (fun d => d.y == 0 && !(d.pred == 1)) ds := by
        apply wsum_congr; intro d hd
        simp only [toBM]
        rw [num_eq_iff (h d hd).1 0 (Or.inl rfl), num_eq_iff (h d hd).2 0 (Or.inl rfl)]
        rcases (h d hd).2 with h2 | h2 <;> simp [h2]
      rw [e01, e00, add_comm, ← wsum_split (fun d => d.y == 0) (fun d => d.pred == 1) ds]
      rfl
    · -- no row has y = 0: both sides are the "empty denominator" case
      have z1 : wsum (fun d => (toBM d).yt == BaseMetrics.int64Min && (toBM d).yp == 1) ds = 0 :=
        wsum_eq_zero_of_none (by intro d hd; simp [toBM, (hall d hd).1, BaseMetrics.int64Min])
      have z2 : wsum (fun d => (toBM d).yt == BaseMetrics.int64Min && (toBM d).yp == BaseMetrics.int64Min) ds = 0 :=
        wsum_eq_zero_of_none (by intro d hd; simp [toBM, (hall d hd).1, BaseMetrics.int64Min])
      have z3 : wsum (fun d => d.y == 0) ds = 0 :=
        wsum_eq_zero_of_none (by intro d hd; simp [(hall d hd).1])
      rw [z1, z2, z3]; simp [BaseMetrics.ratio]
  rcases labelsForCM_binary h hne with h0 | ⟨h0, hall⟩
  · rw [h0]; simp only [BaseMetrics.rateOf, Cell.ofRat]; rw [key 0 (Or.inl rfl)]
  · rw [h0]; simp only [BaseMetrics.rateOf, Cell.ofRat]; rw [key _ (Or.inr ⟨rfl, hall⟩)]

theorem wsum_true_pos {ds : List Dat} (hw : ∀ d ∈ ds, 0 < d.p0) (hne : ds ≠ []) :
    0 < wsum (fun _ => true) ds := by
  have : wsum (fun _ => true) ds = WeightedMean.den (·.p0) ds := by simp [wsum, WeightedMean.den]
  rw [this]; exact WeightedMean.den_pos _ ds hw hne

/-- selection-rate cell of the pool = Σ_{pred=1} w / Σ w -/
theorem selrate_eq_spec {ds : List Dat} (hw : ∀ d ∈ ds, 0 < d.p0) (hne : ds ≠ []) :
    eval .selrate ds = .scalar (fin (selRateSpec ds)) := by
  have hpos := wsum_true_pos hw hne
  have e1 : sumBy (·.p0) ds = wsum (fun _ => true) ds := by simp [sumBy, wsum]
  have e2 : sumBy (fun d => if d.pred = 1 then d.p0 else 0) ds = wsum (fun d => d.pred == 1) ds := by
    induction ds with
    | nil => simp [sumBy, wsum]
    | cons d ds ih =>
      have ih' : sumBy (fun d => if d.pred = 1 then d.p0 else 0) ds = wsum (fun d => d.pred == 1) ds := by
        by_cases hds : ds = []
        · subst hds; simp [sumBy, wsum]
        · exact ih (fun x hx => hw x (by simp [hx])) hds (wsum_true_pos (fun x hx => hw x (by simp [hx])) hds)
            (by simp [sumBy, wsum])
      simp only [sumBy, wsum, List.map_cons, List.sum_cons, List.filter_cons] at ih' ⊢
      by_cases hp : d.pred = 1 <;> simp [hp, ih']
  cases ds with
  | nil => exact absurd rfl hne
  | cons d ds =>
    simp only [eval, selRateCell, List.isEmpty_cons, Bool.false_eq_true, if_false, quot]
    rw [e1, e2, div_fin_fin, if_neg (ne_of_gt hpos)]
    rfl

/-! ### Part B: the one-stratum frame of a metric that is finite on every non-empty slice -/

/-- `f` returns the finite scalar `g ds` on every non-empty slice `ds` of the data -/
def FiniteOn (f : List Dat → Cell) (g : List Dat → Rat) (rows : List (Row Dat)) : Prop :=
  ∀ ds : List Dat, ds ≠ [] → (∀ d ∈ ds, ∃ r ∈ rows, r.dat = d) → f ds = .scalar (fin (g ds))

/-- the rows in the same group as `r` (same sensitive feature values), as the metric sees them -/
def groupOf (rows : List (Row Dat)) (r : Row Dat) : List Dat := slice (rowsOf Row.key r.key rows)

theorem groupOf_ne_nil {rows : List (Row Dat)} {r : Row Dat} (hr : r ∈ rows) : groupOf rows r ≠ [] := by
  have : r ∈ rowsOf Row.key r.key rows := mem_rowsOf.mpr ⟨hr, rfl⟩
  intro h
  have h' : rowsOf Row.key r.key rows = [] := by simpa [groupOf, slice] using h
  rw [h'] at this; simp at this

theorem slice_sub {rows : List (Row Dat)} (k : Key) :
    ∀ d ∈ slice (rowsOf Row.key k rows), ∃ r ∈ rows, r.dat = d := by
  intro d hd
  obtain ⟨r, hr, rfl⟩ := List.mem_map.mp hd
  exact ⟨r, (mem_rowsOf.mp hr).1, rfl⟩

/-- `applyAgg` reads the LIFTED result cache (`Generated/PopulateSrc.lean`: default `errors=` / `method=` of the public
    accessors, the slot they read, the call `_populate_results` stored there, the lifted `_extract_result`); for a
    bare-callable frame without control features it is the hard-coded call `applyAggModel` -/
theorem applyAgg_lifted_eq (k : AggKind) (meth : Method) (withMethod : Bool) (t : Tables) (h : t.ncf = 0) :
    applyAgg k meth withMethod t = applyAggModel k meth withMethod t := by
  -- proved from the slots THIS property uses only (default arguments; the errors='raise' slots of difference / ratio and
  -- the errors='coerce' slots of group_min / group_max are the business of C02.src_populate_eq_model)
  unfold applyAgg applyAggGot applyAggModel
  cases k <;> cases withMethod <;> cases meth <;>
    simp [AggCache.groupMinPub, AggCache.groupMaxPub, AggCache.differencePub, AggCache.ratioPub, AggCache.cached,
      AggCache.entryOf, AggCache.evalCall, AggCache.extractFails, PopulateSrc.populate, PopulateSrc.validErrors,
      PopulateSrc.compareMethods, PopulateSrc.groupMinDefaultErrors, PopulateSrc.groupMaxDefaultErrors,
      PopulateSrc.differenceDefaultMethod, PopulateSrc.differenceDefaultErrors, PopulateSrc.ratioDefaultMethod,
      PopulateSrc.ratioDefaultErrors, PopulateSrc.groupMinSlot, PopulateSrc.groupMaxSlot, PopulateSrc.differenceSlot,
      PopulateSrc.ratioSlot, FrameSrc.extract_result, h, groupMin, groupMax]

section oneStratum
variable {f : List Dat → Cell} {g : List Dat → Rat} {nsf : Nat} {rows : List (Row Dat)}

theorem byGroup_entry (hn : 0 < nsf) (hf : FiniteOn f g rows) (e : Key × Cell)
    (he : e ∈ (ofFrame 0 nsf f rows).byGroup) :
    e.2 = if rowsOf Row.key e.1 rows = [] then Cell.nan
          else .scalar (fin (g (slice (rowsOf Row.key e.1 rows)))) := by
  have h := C01.applyFunctions_cell Cell.nan Row.key (0 + nsf) (by omega) f rows e.1 e.2 he
  by_cases hemp : rowsOf Row.key e.1 rows = []
  · simpa [hemp] using h
  · rw [if_neg hemp] at h ⊢
    rw [h]
    exact hf _ (by simpa [slice] using hemp) (slice_sub e.1)

theorem stratumOf_nil (k : Key) : stratumOf (ofFrame 0 nsf f rows) k = [] := by
  simp [stratumOf, ofFrame]

theorem vals_nil_eq : vals (ofFrame 0 nsf f rows) [] = (ofFrame 0 nsf f rows).byGroup.map (fun e => coerce e.2) := by
  unfold vals
  congr 1
  rw [List.filter_eq_self]
  intro e _
  simp [stratumOf, ofFrame]

theorem finNan_vals_one (hn : 0 < nsf) (hf : FiniteOn f g rows) : FinNan (vals (ofFrame 0 nsf f rows) []) := by
  rw [vals_nil_eq]
  intro x hx
  obtain ⟨e, he, rfl⟩ := List.mem_map.mp hx
  rw [byGroup_entry hn hf e he]
  by_cases hemp : rowsOf Row.key e.1 rows = []
  · left; simp [hemp, Cell.nan, coerce]
  · right; exact ⟨g (slice (rowsOf Row.key e.1 rows)), by simp [hemp, coerce]⟩

/-- the finite values the aggregates see are exactly the metric values of the observed groups -/
theorem mem_vals_one (hn : 0 < nsf) (hwf : WF 0 nsf rows) (hf : FiniteOn f g rows) (x : Rat) :
    fin x ∈ vals (ofFrame 0 nsf f rows) [] ↔ ∃ r ∈ rows, x = g (groupOf rows r) := by
  rw [vals_nil_eq]
  constructor
  · intro hx
    obtain ⟨e, he, hex⟩ := List.mem_map.mp hx
    rw [byGroup_entry hn hf e he] at hex
    by_cases hemp : rowsOf Row.key e.1 rows = []
    · simp [hemp, Cell.nan, coerce] at hex
    · simp only [hemp, if_false, coerce] at hex
      injection hex with hex
      obtain ⟨r, hr⟩ := List.exists_mem_of_ne_nil _ hemp
      have hr' := mem_rowsOf.mp hr
      refine ⟨r, hr'.1, ?_⟩
      rw [groupOf, hr'.2]; exact hex.symm
  · rintro ⟨r, hr, rfl⟩
    have hk : r.key ∈ C01.keys (byGroup Cell.nan 0 nsf f rows) := by
      rw [C01.byGroup_index Cell.nan 0 nsf (by omega) f rows hwf]
      exact ⟨C01.keyLen_key hwf r hr, fun j _ => ⟨r, hr, rfl⟩⟩
    obtain ⟨e, he, hek⟩ := List.mem_map.mp hk
    refine List.mem_map.mpr ⟨e, he, ?_⟩
    have he' : e ∈ (ofFrame 0 nsf f rows).byGroup := he
    rw [byGroup_entry hn hf e he', hek]
    have hne : rowsOf Row.key r.key rows ≠ [] := by
      intro h0
      have : r ∈ rowsOf Row.key r.key rows := mem_rowsOf.mpr ⟨hr, rfl⟩
      rw [h0] at this; simp at this
    simp [hne, coerce, groupOf]

theorem byGroup_ne_nil (hn : 0 < nsf) (hwf : WF 0 nsf rows) (hne : rows ≠ []) :
    (ofFrame 0 nsf f rows).byGroup ≠ [] := by
  obtain ⟨r, hr⟩ := List.exists_mem_of_ne_nil _ hne
  have hk : r.key ∈ C01.keys (byGroup Cell.nan 0 nsf f rows) := by
    rw [C01.byGroup_index Cell.nan 0 nsf (by omega) f rows hwf]
    exact ⟨C01.keyLen_key hwf r hr, fun j _ => ⟨r, hr, rfl⟩⟩
  intro h0
  have : C01.keys (byGroup Cell.nan 0 nsf f rows) = [] := by
    have h1 : byGroup Cell.nan 0 nsf f rows = [] := h0
    simp [C01.keys, h1]
  rw [this] at hk; simp at hk

/-- without control features there is exactly one stratum -/
theorem strata_one (hn : 0 < nsf) (hwf : WF 0 nsf rows) (hne : rows ≠ []) :
    strata (ofFrame 0 nsf f rows) = [[]] := by
  unfold strata
  have hall : (ofFrame 0 nsf f rows).byGroup.map (fun e => stratumOf (ofFrame 0 nsf f rows) e.1) =
      List.replicate (ofFrame 0 nsf f rows).byGroup.length [] := by
    rw [List.eq_replicate_iff]
    refine ⟨by simp, ?_⟩
    intro k hk
    obtain ⟨e, _, rfl⟩ := List.mem_map.mp hk
    exact stratumOf_nil e.1
  rw [hall]
  have hlen : 0 < (ofFrame 0 nsf f rows).byGroup.length :=
    List.length_pos_of_ne_nil (byGroup_ne_nil hn hwf hne)
  exact uniq_replicate [] _ hlen

theorem overallAt_one (hf : FiniteOn f g rows) (hne : rows ≠ []) :
    overallAt (ofFrame 0 nsf f rows) [] = fin (g (slice rows)) := by
  have : (ofFrame 0 nsf f rows).overall = [([], f (slice rows))] := rfl
  unfold overallAt
  rw [this]
  simp only [List.lookup_cons, beq_self_eq_true]
  rw [hf (slice rows) (by simpa [slice] using hne) (by
    intro d hd
    obtain ⟨r, hr, rfl⟩ := List.mem_map.mp hd
    exact ⟨r, hr, rfl⟩)]
  rfl

theorem hasNonscalar_one (hn : 0 < nsf) (hf : FiniteOn f g rows) (hne : rows ≠ []) :
    hasNonscalar (ofFrame 0 nsf f rows) = false := by
  unfold hasNonscalar
  have h1 : (ofFrame 0 nsf f rows).othersNonscalar = false := rfl
  have h2 : (ofFrame 0 nsf f rows).byGroup.any (fun e => isNonscalar e.2) = false := by
    rw [List.any_eq_false]
    intro e he
    rw [byGroup_entry hn hf e he]
    split <;> simp [isNonscalar, Cell.nan]
  have h3 : (ofFrame 0 nsf f rows).overall.any (fun e => isNonscalar e.2) = false := by
    have : (ofFrame 0 nsf f rows).overall = [([], f (slice rows))] := rfl
    rw [this, hf (slice rows) (by simpa [slice] using hne) (by
      intro d hd
      obtain ⟨r, hr, rfl⟩ := List.mem_map.mp hd
      exact ⟨r, hr, rfl⟩)]
    simp [isNonscalar]
  simp [h1, h2, h3]

theorem frameRaised_one (hn : 0 < nsf) (hf : FiniteOn f g rows) (hne : rows ≠ []) :
    frameRaised (ofFrame 0 nsf f rows) = false := by
  unfold frameRaised
  have h2 : (ofFrame 0 nsf f rows).byGroup.any (fun e => e.2 == Cell.raised) = false := by
    rw [List.any_eq_false]
    intro e he
    rw [byGroup_entry hn hf e he]
    split <;> simp [Cell.nan]
  have h3 : (ofFrame 0 nsf f rows).overall.any (fun e => e.2 == Cell.raised) = false := by
    have : (ofFrame 0 nsf f rows).overall = [([], f (slice rows))] := rfl
    rw [this, hf (slice rows) (by simpa [slice] using hne) (by
      intro d hd
      obtain ⟨r, hr, rfl⟩ := List.mem_map.mp hd
      exact ⟨r, hr, rfl⟩)]
    simp
  simp [h2, h3]

/-- what one MetricFrame aggregate of the one-stratum frame evaluates to -/
def perStratum (k : AggKind) (m : Method) (vs : List XR) (o : XR) : XR :=
  match k, m with
  | .groupMin, _ => minSkip vs
  | .groupMax, _ => maxSkip vs
  | .difference, .between => diffOf vs (minSkip vs)
  | .difference, .toOverall => diffOf vs o
  | .ratio, .between => XR.div (minSkip vs) (maxSkip vs)
  | .ratio, .toOverall => ratioOverallOf vs o

theorem applyAgg_one (hn : 0 < nsf) (hwf : WF 0 nsf rows) (hf : FiniteOn f g rows) (hne : rows ≠ [])
    (k : AggKind) (m : Method) :
    applyAgg k m true (ofFrame 0 nsf f rows) =
      some [([], perStratum k m (vals (ofFrame 0 nsf f rows) []) (overallAt (ofFrame 0 nsf f rows) []))] := by
  have hs := strata_one (f := f) hn hwf hne
  have hns := hasNonscalar_one hn hf hne
  cases k <;> cases m <;>
    simp [applyAgg_lifted_eq _ _ _ _ (rfl : (ofFrame 0 nsf f rows).ncf = 0), applyAggModel, perStratum, difference, ratio, groupMin, groupMax, applyGrouping, hs, hns,
      AggregateSpec.diffBetweenSubtrahend, AggregateSpec.ratioBetweenNum, AggregateSpec.ratioBetweenDen,
      Grouping.apply]

end oneStratum

end Fairness
