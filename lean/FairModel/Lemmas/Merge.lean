import FairModel.Lemmas.Prelude
import FairModel.Model.Merge

namespace Merge

/-- the per-character encoding the replacement chain of the source amounts to -/
def escChar (c : Char) : Str := if c = esc ∨ c = sep then [esc, c] else [c]

theorem esc_ne_sep : esc ≠ sep := by decide

theorem replaceChar_nil (c : Char) (r : Str) : replaceChar c r [] = [] := rfl

theorem replaceChar_cons (c : Char) (r : Str) (x : Char) (xs : Str) :
    replaceChar c r (x :: xs) = (if x = c then r else [x]) ++ replaceChar c r xs := by
  simp [replaceChar]

theorem replaceChar_append (c : Char) (r : Str) (a b : Str) :
    replaceChar c r (a ++ b) = replaceChar c r a ++ replaceChar c r b := by
  simp [replaceChar]

/-- The chain of `.replace` calls found in the source (generated constants) is the per-character
    encoding `escChar`.  This is the lemma that breaks when a `.replace` is dropped, the two are
    swapped, or a character changes. -/
theorem escape_eq_flatMap (s : Str) : escape s = s.flatMap escChar := by
  unfold escape
  simp only [MergeConsts.replacements, List.foldl_cons, List.foldl_nil]
  induction s with
  | nil => rfl
  | cons x xs ih =>
    rw [replaceChar_cons, replaceChar_append, ih, List.flatMap_cons]
    congr 1
    by_cases h1 : x = Char.ofNat 92
    · subst h1; decide
    · by_cases h2 : x = Char.ofNat 44
      · subst h2; decide
      · have e1 : x ≠ esc := h1
        have e2 : x ≠ sep := h2
        simp [escChar, h1, h2, e1, e2, replaceChar]

theorem escape_nil : escape [] = [] := by rw [escape_eq_flatMap]; rfl

theorem escape_cons (x : Char) (xs : Str) : escape (x :: xs) = escChar x ++ escape xs := by
  simp [escape_eq_flatMap]

/-- glue a decoded prefix to the first field of what follows -/
def prependField (f : Str) : List Str → List Str
  | [] => [f]
  | g :: gs => (f ++ g) :: gs

theorem consHead_prependField (x : Char) (f : Str) (l : List Str) :
    consHead x (prependField f l) = prependField (x :: f) l := by
  cases l <;> rfl

theorem consHead_ne_nil (c : Char) (l : List Str) : consHead c l ≠ [] := by
  cases l <;> simp [consHead]

theorem splitAux_ne_nil (b : Bool) (t : Str) : splitAux b t ≠ [] := by
  induction t generalizing b with
  | nil => cases b <;> simp [splitAux]
  | cons c rest ih =>
    cases b
    · rw [splitAux]
      split
      · exact ih _
      · split
        · simp
        · exact consHead_ne_nil _ _
    · rw [splitAux]; exact consHead_ne_nil _ _

theorem splitAux_escape_append (f t : Str) :
    splitAux false (escape f ++ t) = prependField f (splitAux false t) := by
  induction f with
  | nil =>
    rw [escape_nil]
    simp only [List.nil_append]
    cases h : splitAux false t with
    | nil => exact absurd h (splitAux_ne_nil _ _)
    | cons g gs => simp [prependField]
  | cons x xs ih =>
    rw [escape_cons, List.append_assoc]
    by_cases h1 : x = esc
    · subst h1
      have : escChar esc = [esc, esc] := by decide
      rw [this]
      simp only [List.cons_append, List.nil_append]
      rw [splitAux]
      simp only [if_true]
      rw [splitAux, ih, consHead_prependField]
    · by_cases h2 : x = sep
      · subst h2
        have : escChar sep = [esc, sep] := by decide
        rw [this]
        simp only [List.cons_append, List.nil_append]
        rw [splitAux]
        simp only [if_true]
        rw [splitAux, ih, consHead_prependField]
      · have : escChar x = [x] := by simp [escChar, h1, h2]
        rw [this]
        simp only [List.cons_append, List.nil_append]
        rw [splitAux]
        simp only [h1, h2, if_false]
        rw [ih, consHead_prependField]

theorem split_joinWith_escape (fs : List Str) (hne : fs ≠ []) :
    split (joinWith (fs.map escape)) = fs := by
  induction fs with
  | nil => exact absurd rfl hne
  | cons f rest ih =>
    cases rest with
    | nil =>
      have := splitAux_escape_append f []
      simp only [List.append_nil] at this
      simp [split, joinWith, this, splitAux, prependField]
    | cons g rest' =>
      have ih' := ih (by simp)
      simp only [List.map_cons, joinWith, split] at ih' ⊢
      rw [splitAux_escape_append, splitAux]
      have hs : sep ≠ esc := fun h => esc_ne_sep h.symm
      simp only [hs, if_false, if_true]
      rw [ih']
      simp [prependField]

/-! ### partitions -/

section classes
variable {α β : Type} [DecidableEq α] [DecidableEq β]

theorem mem_positionsFrom (k : α) (l : List α) (s i : Nat) :
    i ∈ positionsFrom k s l ↔ s ≤ i ∧ l[i - s]? = some k := by
  induction l generalizing s with
  | nil => simp [positionsFrom]
  | cons x xs ih =>
    unfold positionsFrom
    by_cases hx : x = k
    · simp only [hx, if_true, List.mem_cons, ih]
      constructor
      · rintro (rfl | ⟨h1, h2⟩)
        · simp
        · refine ⟨by omega, ?_⟩
          have : i - s = (i - (s + 1)) + 1 := by omega
          rw [this]; simpa using h2
      · rintro ⟨h1, h2⟩
        by_cases hi : i = s
        · left; exact hi
        · right
          refine ⟨by omega, ?_⟩
          have : i - s = (i - (s + 1)) + 1 := by omega
          rw [this] at h2; simpa using h2
    · simp only [hx, if_false, ih]
      constructor
      · rintro ⟨h1, h2⟩
        refine ⟨by omega, ?_⟩
        have : i - s = (i - (s + 1)) + 1 := by omega
        rw [this]; simpa using h2
      · rintro ⟨h1, h2⟩
        by_cases hi : i = s
        · subst hi; simp at h2; exact absurd h2 hx
        · refine ⟨by omega, ?_⟩
          have : i - s = (i - (s + 1)) + 1 := by omega
          rw [this] at h2; simpa using h2

/-- position `i` is in the class of key `k` iff the `i`-th key is `k` -/
theorem mem_positions (k : α) (l : List α) (i : Nat) : i ∈ positions k l ↔ l[i]? = some k := by
  simp [positions, mem_positionsFrom]

theorem positions_ne_nil (k : α) (l : List α) : positions k l ≠ [] ↔ k ∈ l := by
  constructor
  · intro h
    obtain ⟨i, hi⟩ := List.exists_mem_of_ne_nil _ h
    rw [mem_positions] at hi
    exact List.mem_of_getElem? hi
  · intro h
    obtain ⟨i, hlt, hi⟩ := List.getElem_of_mem h
    have : i ∈ positions k l := by rw [mem_positions]; simp [List.getElem?_eq_getElem hlt, hi]
    exact List.ne_nil_of_mem this

theorem mem_distinct (a : α) (l : List α) : a ∈ distinct l ↔ a ∈ l := by
  induction l with
  | nil => simp [distinct]
  | cons x xs ih =>
    simp only [distinct, List.mem_cons, List.mem_filter, ih]
    by_cases h : a = x <;> simp [h]

theorem positionsFrom_map (f : α → β) (k : α) (l : List α) (s : Nat)
    (hinj : ∀ x ∈ l, f x = f k → x = k) :
    positionsFrom (f k) s (l.map f) = positionsFrom k s l := by
  induction l generalizing s with
  | nil => rfl
  | cons x xs ih =>
    have ih' := ih (s + 1) (fun y hy => hinj y (by simp [hy]))
    simp only [List.map_cons, positionsFrom, ih']
    by_cases hx : x = k
    · simp [hx]
    · have : f x ≠ f k := fun h => hx (hinj x (by simp) h)
      simp [hx, this]

theorem distinct_map (f : α → β) (l : List α)
    (hinj : ∀ x ∈ l, ∀ y ∈ l, f x = f y → x = y) :
    distinct (l.map f) = (distinct l).map f := by
  induction l with
  | nil => rfl
  | cons x xs ih =>
    have ih' := ih (fun a ha b hb => hinj a (by simp [ha]) b (by simp [hb]))
    simp only [List.map_cons, distinct, ih', List.filter_map, List.cons.injEq, true_and]
    congr 1
    apply List.filter_congr
    intro a ha
    have hax : a ∈ xs := (mem_distinct a xs).mp ha
    by_cases h : a = x
    · simp [h]
    · have : f a ≠ f x := fun e => h (hinj a (by simp [hax]) x (by simp) e)
      simp [h, this]

/-- an encoding that is injective on the keys present induces the same partition -/
theorem classes_map (f : α → β) (l : List α)
    (hinj : ∀ x ∈ l, ∀ y ∈ l, f x = f y → x = y) :
    classes (l.map f) = classes l := by
  unfold classes
  rw [distinct_map f l hinj, List.map_map]
  apply List.map_congr_left
  intro k hk
  have hkl : k ∈ l := (mem_distinct k l).mp hk
  simp only [Function.comp, positions]
  exact positionsFrom_map f k l 0 (fun x hx => hinj x hx k hkl)

theorem mem_classes (c : List Nat) (keys : List α) :
    c ∈ classes keys ↔ ∃ k ∈ keys, c = positions k keys := by
  simp only [classes, List.mem_map, mem_distinct]
  constructor
  · rintro ⟨k, hk, rfl⟩; exact ⟨k, hk, rfl⟩
  · rintro ⟨k, hk, rfl⟩; exact ⟨k, hk, rfl⟩

end classes

theorem mem_combos (r : List Str) (ls : List (List Str)) :
    r ∈ combos ls ↔ List.Forall₂ (fun x l => x ∈ l) r ls := by
  induction ls generalizing r with
  | nil =>
    simp only [combos, List.mem_singleton]
    constructor
    · rintro rfl; exact List.Forall₂.nil
    · intro h; cases h; rfl
  | cons l ls ih =>
    simp only [combos, List.mem_flatMap, List.mem_map]
    constructor
    · rintro ⟨x, hx, t, ht, rfl⟩
      exact List.Forall₂.cons hx ((ih t).mp ht)
    · intro h
      cases h with
      | cons hx ht => exact ⟨_, hx, _, (ih _).mpr ht, rfl⟩

theorem row_eq_range_map (r : List Str) : r = (List.range r.length).map (fun k => r.getD k []) := by
  apply List.ext_getElem
  · simp
  · intro i h1 h2
    simp [List.getD, List.getElem?_eq_getElem h1]

/-- every row of a rectangular table is one of the combinations of the column levels -/
theorem row_mem_combos (rows : List (List Str)) (w : Nat) (r : List Str) (hr : r ∈ rows)
    (hw : r.length = w) : r ∈ combos (columnLevels rows w) := by
  rw [mem_combos]
  have e := row_eq_range_map r
  rw [hw] at e
  rw [e]
  unfold columnLevels
  rw [List.forall₂_map_left_iff, List.forall₂_map_right_iff, List.forall₂_same]
  intro k _
  rw [mem_distinct]
  unfold column
  exact List.mem_map.mpr ⟨r, hr, rfl⟩

end Merge
