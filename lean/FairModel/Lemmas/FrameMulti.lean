/-
Lemmas for the multi-metric MetricFrame model (`Model/FrameMulti.lean`): what the constructor loop
writes into `all_data`, which column every keyword argument is read from, naturality of
`_apply_functions` in the value type, and the no-cross-talk theorem.
-/
import FairModel.Lemmas.FrameSrc
import FairModel.Model.FrameMulti

set_option linter.unusedSimpArgs false

namespace FrameMulti
open Frame FramePrims

variable {γ : Type}

/-! ### association lists -/

theorem lookup_of_mem_nodup {β : Type} (l : List (String × β)) (hnd : (l.map Prod.fst).Nodup)
    (c : String) (v : β) (h : (c, v) ∈ l) : l.lookup c = some v := by
  induction l with
  | nil => simp at h
  | cons x xs ih =>
    obtain ⟨k, w⟩ := x
    simp only [List.map_cons, List.nodup_cons] at hnd
    rcases List.mem_cons.mp h with heq | hmem
    · injection heq with h1 h2; subst h1; subst h2; simp [List.lookup]
    · have hne : c ≠ k := by
        intro he; subst he
        exact hnd.1 (List.mem_map.mpr ⟨(c, v), hmem, rfl⟩)
      have : (c == k) = false := by simpa using hne
      simp only [List.lookup, this]
      exact ih hnd.2 hmem

theorem lookup_append_of_not_mem {β : Type} (l b : List (String × β)) (c : String)
    (h : c ∉ l.map Prod.fst) : (l ++ b).lookup c = b.lookup c := by
  induction l with
  | nil => rfl
  | cons x xs ih =>
    obtain ⟨k, w⟩ := x
    simp only [List.map_cons, List.mem_cons, not_or] at h
    have : (c == k) = false := by simpa using h.1
    simp only [List.cons_append, List.lookup, this]
    exact ih h.2

theorem lookup_append_of_lookup {β : Type} (l b : List (String × β)) (c : String) (v : β)
    (h : l.lookup c = some v) : (l ++ b).lookup c = some v := by
  induction l with
  | nil => simp [List.lookup] at h
  | cons x xs ih =>
    obtain ⟨k, w⟩ := x
    simp only [List.cons_append, List.lookup] at h ⊢
    split <;> simp_all

theorem lookup_map_snd {α β β' : Type} [BEq α] (h : β → β') (t : List (α × β)) (k : α) :
    (t.map (fun p => (p.1, h p.2))).lookup k = (t.lookup k).map h := by
  induction t with
  | nil => rfl
  | cons x xs ih =>
    obtain ⟨a, b⟩ := x
    simp only [List.map_cons, List.lookup]
    split <;> simp [ih]

/-! ### what the constructor loop writes -/

/-- the (column name, values) pairs one metric writes, in order -/
def entriesOf (m : MetricSpec γ) : List (String × List Rat) :=
  m.params.filterMap (fun p => p.2.map (fun v => (pyFormat m.colPrefix ++ "_" ++ p.1, v)))

/-- keyword name -> column name of one metric -/
def mappingOf (m : MetricSpec γ) : List (String × String) :=
  m.params.filterMap (fun p => p.2.map (fun _ => (p.1, pyFormat m.colPrefix ++ "_" ++ p.1)))

def annotatedOf (m : MetricSpec γ) : Annotated γ :=
  ⟨m.name, m.func, FrameSrc.positional_argument_names, mappingOf m⟩

theorem foldl_construct_step (pre : Option String) (ps : List (String × Option (List Rat)))
    (d : AllData) (mp : List (String × String)) :
    ps.foldl (FrameSrc.construct_step pre) (d, mp) =
      ((ps.filterMap (fun p => p.2.map (fun v => (pyFormat pre ++ "_" ++ p.1, v)))).reverse ++ d,
       mp ++ ps.filterMap (fun p => p.2.map (fun _ => (p.1, pyFormat pre ++ "_" ++ p.1)))) := by
  induction ps generalizing d mp with
  | nil => simp
  | cons p ps ih =>
    obtain ⟨k, v⟩ := p
    cases v with
    | none => simp [List.foldl_cons, FrameSrc.construct_step, ih]
    | some v =>
      simp [List.foldl_cons, FrameSrc.construct_step, ih, setCol, dictSet, List.filterMap_cons]

theorem construct_eq (d : AllData) (m : MetricSpec γ) :
    construct d m = ((entriesOf m).reverse ++ d, annotatedOf m) := by
  simp [construct, foldl_construct_step, entriesOf, annotatedOf, mappingOf]

theorem constructAll_aux (ms : List (MetricSpec γ)) (d : AllData) (afs : List (Annotated γ)) :
    ms.foldl (fun acc m => let r := construct acc.1 m; (r.1, acc.2 ++ [r.2])) (d, afs) =
      ((ms.flatMap entriesOf).reverse ++ d, afs ++ ms.map annotatedOf) := by
  induction ms generalizing d afs with
  | nil => simp
  | cons m ms ih =>
    rw [List.foldl_cons, ih]
    simp [construct_eq, List.flatMap_cons, List.reverse_append, List.append_assoc]

theorem constructAll_eq (base : AllData) (ms : List (MetricSpec γ)) :
    constructAll base ms = ((ms.flatMap entriesOf).reverse ++ base, ms.map annotatedOf) := by
  simp [constructAll, constructAll_aux]

theorem entriesOf_fst (m : MetricSpec γ) : (entriesOf m).map Prod.fst = colsOf m := by
  simp only [entriesOf, colsOf, List.map_filterMap]
  congr 1
  funext p
  cases p.2 <;> rfl

/-- all generated column names are pairwise distinct and differ from the base columns -/
def ColsOK (base : AllData) (ms : List (MetricSpec γ)) : Prop :=
  (ms.flatMap colsOf ++ base.map Prod.fst).Nodup

theorem flatMap_entries_fst (ms : List (MetricSpec γ)) :
    (ms.flatMap entriesOf).map Prod.fst = ms.flatMap colsOf := by
  induction ms with
  | nil => rfl
  | cons m ms ih => simp [List.flatMap_cons, entriesOf_fst, ih]

/-- a generated column holds exactly the values of the parameter it was created for -/
theorem getCol_own (base : AllData) (ms : List (MetricSpec γ)) (hok : ColsOK base ms)
    (c : String) (v : List Rat) (h : (c, v) ∈ ms.flatMap entriesOf) :
    getCol ((ms.flatMap entriesOf).reverse ++ base) c = v := by
  unfold getCol
  have hnd : ((ms.flatMap entriesOf).reverse.map Prod.fst).Nodup := by
    rw [List.map_reverse, List.nodup_reverse, flatMap_entries_fst]
    exact (List.nodup_append.mp hok).1
  rw [lookup_append_of_lookup _ base c v
    (lookup_of_mem_nodup _ hnd c v (List.mem_reverse.mpr h))]
  rfl

/-- a base column (y_true, y_pred) is never shadowed -/
theorem getCol_base (base : AllData) (ms : List (MetricSpec γ)) (hok : ColsOK base ms)
    (c : String) (hc : c ∈ base.map Prod.fst) :
    getCol ((ms.flatMap entriesOf).reverse ++ base) c = getCol base c := by
  unfold getCol
  rw [lookup_append_of_not_mem]
  rw [List.map_reverse, List.mem_reverse, flatMap_entries_fst]
  intro hmem
  exact (List.nodup_append.mp hok).2.2 c hmem c hc rfl

theorem colsOK_single (base : AllData) (ms : List (MetricSpec γ)) (hok : ColsOK base ms)
    (m : MetricSpec γ) (hm : m ∈ ms) : ColsOK base [m] := by
  unfold ColsOK at hok ⊢
  simp only [List.flatMap_cons, List.flatMap_nil, List.append_nil]
  have h1 := List.nodup_append.mp hok
  have hsub : ∀ x, x ∈ colsOf m → x ∈ ms.flatMap colsOf :=
    fun x hx => List.mem_flatMap.mpr ⟨m, hm, hx⟩
  refine List.nodup_append.mpr ⟨?_, h1.2.1, fun a ha b hb => h1.2.2 a (hsub a ha) b hb⟩
  exact (List.nodup_flatMap.mp h1.1).1 m hm

/-! ### the annotated function of a metric receives exactly its own parameters -/

theorem kwargs_own (base : AllData) (ms : List (MetricSpec γ)) (hok : ColsOK base ms)
    (m : MetricSpec γ) (hm : m ∈ ms) (idx : List Nat) :
    (mappingOf m).map (fun p => (p.1, sliceDF ((ms.flatMap entriesOf).reverse ++ base) idx p.2)) =
      ownKwargs m idx := by
  unfold mappingOf ownKwargs
  rw [List.map_filterMap]
  apply List.filterMap_congr
  intro p hp
  obtain ⟨k, v⟩ := p
  cases v with
  | none => rfl
  | some v =>
    have hmem : (pyFormat m.colPrefix ++ "_" ++ k, v) ∈ ms.flatMap entriesOf := by
      refine List.mem_flatMap.mpr ⟨m, hm, ?_⟩
      unfold entriesOf
      exact List.mem_filterMap.mpr ⟨(k, some v), hp, rfl⟩
    simp only [Option.map_some, sliceDF, getCol_own base ms hok _ v hmem]

/-- `metricFn` on the shared `all_data`: the metric is called with y_true / y_pred of the slice and
    with exactly its own non-None sample parameters, sliced the same way -/
theorem metricFn_own (yt yp : List Rat) (ms : List (MetricSpec γ)) (hok : ColsOK (baseData yt yp) ms)
    (m : MetricSpec γ) (hm : m ∈ ms) (idx : List Nat) :
    metricFn (constructAll (baseData yt yp) ms).1 (annotatedOf m) idx =
      m.func [idx.map (fun j => yt.getD j 0), idx.map (fun j => yp.getD j 0)] (ownKwargs m idx) := by
  rw [constructAll_eq]
  simp only [metricFn, FrameSrc.annotated_call, annotatedOf, FrameSrc.positional_argument_names,
    List.map_cons, List.map_nil]
  rw [kwargs_own (baseData yt yp) ms hok m hm idx]
  have h1 := getCol_base (baseData yt yp) ms hok "y_true" (by simp [baseData])
  have h2 := getCol_base (baseData yt yp) ms hok "y_pred" (by simp [baseData])
  simp only [sliceDF, h1, h2]
  rfl

/-! ### naturality of `_apply_functions` in the value type -/

theorem applyFunctions_map {α β β' : Type} (h : β → β') (nanv : β) (kf : Row α → Key) (n : Nat)
    (f : List α → β) (rows : List (Row α)) :
    (applyFunctions nanv kf n f rows).map (fun p => (p.1, h p.2)) =
      applyFunctions (h nanv) kf n (fun l => h (f l)) rows := by
  unfold applyFunctions
  split
  · rfl
  · dsimp only
    have hg : (grouped kf f rows).map (fun p => (p.1, h p.2)) = grouped kf (fun l => h (f l)) rows := by
      simp [grouped, List.map_map, Function.comp_def]
    split
    · rw [← hg]
      simp only [reindex, List.map_map, Function.comp_def, lookup_map_snd]
      apply List.map_congr_left
      intro k _
      cases (grouped kf f rows).lookup k <;> rfl
    · exact hg

theorem lookup_fnDict (D : AllData) (ms : List (MetricSpec γ)) (hnd : (ms.map (·.name)).Nodup)
    (m : MetricSpec γ) (hm : m ∈ ms) (idx : List Nat) :
    (FrameSrc.apply_to_dataframe idx (fnDict D (ms.map annotatedOf))).lookup m.name =
      some (metricFn D (annotatedOf m) idx) := by
  apply lookup_of_mem_nodup
  · simp only [FrameSrc.apply_to_dataframe, fnDict, List.map_map, Function.comp_def, annotatedOf]
    exact hnd
  · simp only [FrameSrc.apply_to_dataframe, fnDict, List.map_map, List.mem_map, Function.comp_def]
    exact ⟨m, hm, rfl⟩

theorem lookup_nanRow (nanv : γ) (ms : List (MetricSpec γ)) (m : MetricSpec γ) (hm : m ∈ ms) :
    (nanRow nanv (ms.map annotatedOf)).lookup m.name = some nanv := by
  unfold nanRow
  induction ms with
  | nil => simp at hm
  | cons x xs ih =>
    simp only [List.map_cons, List.lookup, annotatedOf]
    by_cases hx : m.name = x.name
    · simp [hx]
    · have : (m.name == x.name) = false := by simpa using hx
      simp only [this]
      rcases List.mem_cons.mp hm with rfl | h
      · exact absurd rfl hx
      · simpa [annotatedOf] using ih h

/-! ### a checkable sufficient condition for `ColsOK` -/

theorem split_unique (c : Char) : ∀ (l1 l2 r1 r2 : List Char), c ∉ l1 → c ∉ l2 →
    l1 ++ c :: r1 = l2 ++ c :: r2 → l1 = l2 ∧ r1 = r2
  | [], [], r1, r2, _, _, h => by simpa using h
  | [], d :: l2, r1, r2, _, h2, h => by
    simp only [List.nil_append, List.cons_append, List.cons.injEq] at h
    exact absurd (by simp [h.1]) h2
  | a :: l1, [], r1, r2, h1, _, h => by
    simp only [List.nil_append, List.cons_append, List.cons.injEq] at h
    exact absurd (by simp [h.1]) h1
  | a :: l1, d :: l2, r1, r2, h1, h2, h => by
    simp only [List.cons_append, List.cons.injEq] at h
    have := split_unique c l1 l2 r1 r2 (fun hm => h1 (by simp [hm])) (fun hm => h2 (by simp [hm])) h.2
    exact ⟨by rw [h.1, this.1], this.2⟩

theorem colName_toList (n p : String) : (n ++ "_" ++ p).toList = n.toList ++ '_' :: p.toList := by
  simp [String.toList_append]

/-- the column name determines (metric name, parameter name) when metric names contain no underscore -/
theorem colName_inj (n1 n2 p1 p2 : String) (h1 : '_' ∉ n1.toList) (h2 : '_' ∉ n2.toList)
    (h : n1 ++ "_" ++ p1 = n2 ++ "_" ++ p2) : n1 = n2 ∧ p1 = p2 := by
  have h' := congrArg String.toList h
  rw [colName_toList, colName_toList] at h'
  have := split_unique '_' _ _ _ _ h1 h2 h'
  exact ⟨String.toList_inj.mp this.1, String.toList_inj.mp this.2⟩

theorem mem_cols (name : String) (ps : List (String × Option (List Rat))) (c : String)
    (h : c ∈ ps.filterMap (fun p => p.2.map (fun _ => name ++ "_" ++ p.1))) :
    ∃ k ∈ ps.map (·.1), c = name ++ "_" ++ k := by
  rw [List.mem_filterMap] at h
  obtain ⟨p, hp, hc⟩ := h
  cases hv : p.2 with
  | none => simp [hv] at hc
  | some v =>
    simp only [hv, Option.map_some, Option.some.injEq] at hc
    exact ⟨p.1, List.mem_map.mpr ⟨p, hp, rfl⟩, hc.symm⟩

theorem cols_nodup (name : String) (ps : List (String × Option (List Rat))) (h : (ps.map (·.1)).Nodup) :
    (ps.filterMap (fun p => p.2.map (fun _ => name ++ "_" ++ p.1))).Nodup := by
  induction ps with
  | nil => simp
  | cons p ps ih =>
    obtain ⟨k, v⟩ := p
    simp only [List.map_cons, List.nodup_cons] at h
    cases v with
    | none => simpa [List.filterMap_cons] using ih h.2
    | some v =>
      simp only [List.filterMap_cons, Option.map_some, List.nodup_cons]
      refine ⟨?_, ih h.2⟩
      intro hm
      obtain ⟨k', hk', he⟩ := mem_cols name ps _ hm
      have h' := congrArg String.toList he
      simp only [String.toList_append, List.append_cancel_left_eq] at h'
      have : k = k' := String.toList_inj.mp h'
      exact h.1 (this ▸ hk')

/-- A checkable sufficient condition for `ColsOK` (dict form): distinct metric names without an
    underscore and different from "y", distinct parameter names per metric. -/
theorem colsOK_of_no_underscore (yt yp : List Rat) (ms : List (MetricSpec γ))
    (hnames : (ms.map (·.name)).Nodup) (hpre : ∀ m ∈ ms, m.colPrefix = some m.name)
    (hparams : ∀ m ∈ ms, (m.params.map (·.1)).Nodup)
    (hus : ∀ m ∈ ms, '_' ∉ m.name.toList) (hy : ∀ m ∈ ms, m.name ≠ "y") :
    ColsOK (baseData yt yp) ms := by
  have hcols : ∀ m ∈ ms, ∀ c ∈ colsOf m, ∃ k, c = m.name ++ "_" ++ k := by
    intro m hm c hc
    unfold colsOf at hc
    rw [hpre m hm] at hc
    obtain ⟨k, _, he⟩ := mem_cols m.name m.params c hc
    exact ⟨k, he⟩
  unfold ColsOK
  rw [List.nodup_append]
  refine ⟨?_, by simp [baseData], ?_⟩
  · rw [List.nodup_flatMap]
    constructor
    · intro m hm
      unfold colsOf
      rw [hpre m hm]
      exact cols_nodup m.name m.params (hparams m hm)
    · have hp : ms.Pairwise (fun a b => a.name ≠ b.name) := (List.pairwise_map.mp hnames)
      refine hp.imp_of_mem ?_
      intro a b ha hb hne c hca hcb
      obtain ⟨k1, h1⟩ := hcols a ha c hca
      obtain ⟨k2, h2⟩ := hcols b hb c hcb
      exact hne (colName_inj _ _ _ _ (hus a ha) (hus b hb) (h1.symm.trans h2)).1
  · intro c hc d hd hcd
    subst hcd
    rw [List.mem_flatMap] at hc
    obtain ⟨m, hm, hcm⟩ := hc
    obtain ⟨k, hk⟩ := hcols m hm c hcm
    simp only [baseData, List.map_cons, List.map_nil, List.mem_cons, List.not_mem_nil, or_false] at hd
    rcases hd with hd | hd
    · have : m.name ++ "_" ++ k = "y" ++ "_" ++ "true" := by rw [← hk, hd]; rfl
      exact hy m hm (colName_inj _ _ _ _ (hus m hm) (by decide) this).1
    · have : m.name ++ "_" ++ k = "y" ++ "_" ++ "pred" := by rw [← hk, hd]; rfl
      exact hy m hm (colName_inj _ _ _ _ (hus m hm) (by decide) this).1

end FrameMulti
