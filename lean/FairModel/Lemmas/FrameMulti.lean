/-
Lemmas for the multi-metric MetricFrame model (`Model/FrameMulti.lean`): what the constructor loop
writes into `all_data`, which column every keyword argument is read from, naturality of
`_apply_functions` in the value type, and the no-cross-talk theorem.
-/
import FairModel.Lemmas.FrameSrc
import FairModel.Model.FrameMulti

set_option linter.unusedSimpArgs false

namespace FrameMulti
open Frame FramePrims

variable {γ : Type}

/-! ### association lists -/

theorem lookup_of_mem_nodup {β : Type} (l : List (String × β)) (hnd : (l.map Prod.fst).Nodup)
    (c : String) (v : β) (h : (c, v) ∈ l) : l.lookup c = some v := by
  induction l with
  | nil => simp at h
  | cons x xs ih =>
    obtain ⟨k, w⟩ := x
    simp only [List.map_cons, List.nodup_cons] at hnd
    rcases List.mem_cons.mp h with heq | hmem
    · injection heq with h1 h2; subst h1; subst h2; simp [List.lookup]
    · have hne : c ≠ k := by
        intro he; subst he
        exact hnd.1 (List.mem_map.mpr ⟨(c, v), hmem, rfl⟩)
      have : (c == k) = false := by simpa using hne
      simp only [List.lookup, this]
      exact ih hnd.2 hmem

theorem lookup_append_of_not_mem {β : Type} (l b : List (String × β)) (c : String)
    (h : c ∉ l.map Prod.fst) : (l ++ b).lookup c = b.lookup c := by
  induction l with
  | nil => rfl
  | cons x xs ih =>
    obtain ⟨k, w⟩ := x
    simp only [List.map_cons, List.mem_cons, not_or] at h
    have : (c == k) = false := by simpa using h.1
    simp only [List.cons_append, List.lookup, this]
    exact ih h.2

theorem lookup_append_of_lookup {β : Type} (l b : List (String × β)) (c : String) (v : β)
    (h : l.lookup c = some v) : (l ++ b).lookup c = some v := by
  induction l with
  | nil => simp [List.lookup] at h
  | cons x xs ih =>
    obtain ⟨k, w⟩ := x
    simp only [List.cons_append, List.lookup] at h ⊢
    split <;> simp_all

theorem lookup_map_snd {α β β' : Type} [BEq α] (h : β → β') (t : List (α × β)) (k : α) :
    (t.map (fun p => (p.1, h p.2))).lookup k = (t.lookup k).map h := by
  induction t with
  | nil => rfl
  | cons x xs ih =>
    obtain ⟨a, b⟩ := x
    simp only [List.map_cons, List.lookup]
    split <;> simp [ih]

/-! ### the uniquify loop `while col_name in all_data.columns: col_name = col_name + "_"` -/

theorem countP_lt {α : Type} (p q : α → Bool) (l : List α) (hpq : ∀ x, p x = true → q x = true)
    (c : α) (hc : c ∈ l) (hq : q c = true) (hp : p c = false) : l.countP p < l.countP q := by
  induction l with
  | nil => simp at hc
  | cons x xs ih =>
    have hmono : xs.countP p ≤ xs.countP q := List.countP_mono_left (fun x _ => hpq x)
    rcases List.mem_cons.mp hc with rfl | hmem
    · simp only [List.countP_cons, hq, hp, if_true]
      simp; omega
    · have := ih hmem
      simp only [List.countP_cons]
      by_cases hx : p x = true
      · simp [hx, hpq x hx]; omega
      · have hx' : p x = false := by simpa using hx
        simp only [hx', Bool.false_eq_true, if_false]
        split <;> omega

/-- the loop ends on a name that is not a column: every round strictly decreases the number of
    columns at least as long as the candidate (the candidate itself is one of them) -/
theorem uniquifyAux_fresh (cols : List String) (s : String) (hs : 1 ≤ s.length) :
    ∀ (fuel : Nat) (c : String), cols.countP (fun x => decide (c.length ≤ x.length)) < fuel →
      uniquifyAux cols s fuel c ∉ cols
  | 0, c, h => by omega
  | fuel + 1, c, h => by
    unfold uniquifyAux
    by_cases hc : cols.contains c = true
    · rw [if_pos hc]
      apply uniquifyAux_fresh cols s hs fuel (c ++ s)
      have hmem : c ∈ cols := by simpa using hc
      have hlt := countP_lt (fun x => decide ((c ++ s).length ≤ x.length)) (fun x => decide (c.length ≤ x.length)) cols
        (by intro x hx; simp only [decide_eq_true_eq, String.length_append] at hx ⊢; omega) c hmem (by simp)
        (by simp only [decide_eq_false_iff_not, String.length_append]; omega)
      omega
    · rw [if_neg hc]
      simpa using hc

theorem uniquifyCol_fresh (t : AllData) (c s : String) (hs : 1 ≤ s.length) :
    uniquifyCol t c s ∉ columns t := by
  unfold uniquifyCol
  apply uniquifyAux_fresh (columns t) s hs
  have : (columns t).countP (fun x => decide (c.length ≤ x.length)) ≤ (columns t).length := List.countP_le_length
  simp only [columns, List.length_map] at this ⊢
  omega

/-! ### what the constructor loop writes -/

theorem getCol_append_of_nodup (front t : AllData) (h : (columns (front ++ t)).Nodup) (c : String)
    (hc : c ∈ columns t) : getCol (front ++ t) c = getCol t c := by
  unfold getCol
  rw [lookup_append_of_not_mem]
  intro hf
  simp only [columns, List.map_append] at h hc
  exact (List.nodup_append.mp h).2.2 c hf c hc rfl

theorem getCol_cons_self (t : AllData) (c : String) (v : List Rat) : getCol ((c, v) :: t) c = v := by
  simp [getCol, List.lookup]

theorem step_some (pre : Option String) (t : AllData) (mp : List (String × String)) (k : String) (v : List Rat) :
    FrameSrc.construct_step pre (t, mp) (k, some v) =
      ((uniquifyCol t (pyFormat pre ++ "_" ++ k) "_", v) :: t,
       mp ++ [(k, uniquifyCol t (pyFormat pre ++ "_" ++ k) "_")]) := by
  simp [FrameSrc.construct_step, setCol, dictSet]

theorem step_none (pre : Option String) (t : AllData) (mp : List (String × String)) (k : String) :
    FrameSrc.construct_step pre (t, mp) (k, none) = (t, mp) := by
  simp [FrameSrc.construct_step]

/-- the loop over `sample_params.items()`: it only ADDS columns with fresh names in front of the table, and
    the mapping it returns points every non-None keyword at a column holding exactly its values -/
theorem foldl_step_spec (pre : Option String) (ps : List (String × Option (List Rat))) :
    ∀ (t : AllData) (mp : List (String × String)), (columns t).Nodup →
      ∃ front new, ps.foldl (FrameSrc.construct_step pre) (t, mp) = (front ++ t, mp ++ new) ∧
        (columns (front ++ t)).Nodup ∧
        new.map (fun p => (p.1, getCol (front ++ t) p.2)) = ps.filterMap (fun p => p.2.map (fun v => (p.1, v))) ∧
        ∀ p ∈ new, p.2 ∈ columns (front ++ t) := by
  induction ps with
  | nil => intro t mp ht; exact ⟨[], [], by simp, by simpa using ht, rfl, by simp⟩
  | cons p ps ih =>
    intro t mp ht
    obtain ⟨k, v⟩ := p
    cases v with
    | none =>
      rw [List.foldl_cons, step_none]
      obtain ⟨front, new, h1, h2, h3, h4⟩ := ih t mp ht
      exact ⟨front, new, h1, h2, by simpa [List.filterMap_cons] using h3, h4⟩
    | some v =>
      rw [List.foldl_cons, step_some]
      generalize hc : uniquifyCol t (pyFormat pre ++ "_" ++ k) "_" = c
      have hfresh : c ∉ columns t := hc ▸ uniquifyCol_fresh t _ "_" (by decide)
      have ht1 : (columns ((c, v) :: t)).Nodup := by
        simp only [columns, List.map_cons, List.nodup_cons]
        exact ⟨hfresh, ht⟩
      obtain ⟨front, new, h1, h2, h3, h4⟩ := ih ((c, v) :: t) (mp ++ [(k, c)]) ht1
      have hassoc : (front ++ [(c, v)]) ++ t = front ++ (c, v) :: t := by simp
      refine ⟨front ++ [(c, v)], (k, c) :: new, ?_, ?_, ?_, ?_⟩
      · rw [h1, hassoc]; simp
      · rw [hassoc]; exact h2
      · rw [hassoc]
        simp only [List.map_cons, List.filterMap_cons, Option.map_some]
        rw [h3, getCol_append_of_nodup front _ h2 c (by simp [columns]), getCol_cons_self]
      · rw [hassoc]
        intro q hq
        rcases List.mem_cons.mp hq with rfl | hq
        · simp [columns]
        · exact h4 q hq

/-- what `_construct_annotated_metric_function` returns for a metric, relative to a table `t` -/
def RelV (t : AllData) (m : MetricSpec γ) (af : Annotated γ) : Prop :=
  af.name = m.name ∧ af.func = m.func ∧ af.positional = FrameSrc.positional_argument_names ∧
  af.mapping.map (fun p => (p.1, getCol t p.2)) = ownVals m ∧ ∀ p ∈ af.mapping, p.2 ∈ columns t

theorem RelV_mono (front t : AllData) (m : MetricSpec γ) (af : Annotated γ) (h : RelV t m af)
    (hn : (columns (front ++ t)).Nodup) : RelV (front ++ t) m af := by
  obtain ⟨h1, h2, h3, h4, h5⟩ := h
  refine ⟨h1, h2, h3, ?_, ?_⟩
  · rw [← h4]
    apply List.map_congr_left
    intro p hp
    rw [getCol_append_of_nodup front t hn p.2 (h5 p hp)]
  · intro p hp
    simp only [columns, List.map_append, List.mem_append]
    exact Or.inr (h5 p hp)

theorem construct_spec (t : AllData) (m : MetricSpec γ) (ht : (columns t).Nodup) :
    ∃ front af, construct t m = (front ++ t, af) ∧ (columns (front ++ t)).Nodup ∧ RelV (front ++ t) m af := by
  obtain ⟨front, new, h1, h2, h3, h4⟩ := foldl_step_spec m.colPrefix m.params t [] ht
  refine ⟨front, ⟨m.name, m.func, FrameSrc.positional_argument_names, new⟩, ?_, h2, rfl, rfl, rfl, ?_, h4⟩
  · simp [construct, h1]
  · simpa [ownVals] using h3

theorem constructAll_spec (ms : List (MetricSpec γ)) :
    ∀ (t : AllData) (afs0 : List (Annotated γ)), (columns t).Nodup →
      ∃ front new, ms.foldl (fun acc m => let r := construct acc.1 m; (r.1, acc.2 ++ [r.2])) (t, afs0) =
          (front ++ t, afs0 ++ new) ∧ (columns (front ++ t)).Nodup ∧ List.Forall₂ (RelV (front ++ t)) ms new := by
  induction ms with
  | nil => intro t afs0 ht; exact ⟨[], [], by simp, by simpa using ht, List.Forall₂.nil⟩
  | cons m ms ih =>
    intro t afs0 ht
    obtain ⟨f1, af, hc, hn1, hr1⟩ := construct_spec t m ht
    obtain ⟨front, new, h1, h2, h3⟩ := ih (f1 ++ t) (afs0 ++ [af]) hn1
    have hassoc : (front ++ f1) ++ t = front ++ (f1 ++ t) := by simp
    refine ⟨front ++ f1, af :: new, ?_, ?_, ?_⟩
    · rw [List.foldl_cons]
      simp only [hc]
      rw [h1, hassoc]; simp
    · rw [hassoc]; exact h2
    · rw [hassoc]
      exact List.Forall₂.cons (RelV_mono front (f1 ++ t) m af hr1 h2) h3

theorem baseData_nodup (yt yp : List Rat) : (columns (baseData yt yp)).Nodup := by
  simp [columns, baseData]

/-- `_get_annotated_metric_functions` on the base table [y_true, y_pred]: every metric is paired with an
    annotated function whose keyword columns hold exactly the metric's own parameter values, and
    y_true / y_pred are still the data — for ANY metric names and parameter names -/
theorem constructAll_rel (yt yp : List Rat) (ms : List (MetricSpec γ)) :
    List.Forall₂ (RelV (constructAll (baseData yt yp) ms).1) ms (constructAll (baseData yt yp) ms).2 ∧
    getCol (constructAll (baseData yt yp) ms).1 "y_true" = yt ∧
    getCol (constructAll (baseData yt yp) ms).1 "y_pred" = yp := by
  obtain ⟨front, new, h1, h2, h3⟩ := constructAll_spec ms (baseData yt yp) [] (baseData_nodup yt yp)
  unfold constructAll
  rw [h1]
  refine ⟨by simpa using h3, ?_, ?_⟩
  · rw [getCol_append_of_nodup front _ h2 "y_true" (by simp [columns, baseData])]; rfl
  · rw [getCol_append_of_nodup front _ h2 "y_pred" (by simp [columns, baseData])]; rfl

theorem ownKwargs_eq (m : MetricSpec γ) (idx : List Nat) :
    ownKwargs m idx = (ownVals m).map (fun q => (q.1, idx.map (fun j => q.2.getD j 0))) := by
  unfold ownKwargs ownVals
  rw [List.map_filterMap]
  apply List.filterMap_congr
  intro p _
  cases p.2 <;> rfl

/-- an annotated function related to `m` calls `m.func` with the slice of y_true / y_pred and exactly
    `m`'s own parameters, sliced the same way -/
theorem metricFn_of_rel (D : AllData) (yt yp : List Rat) (m : MetricSpec γ) (af : Annotated γ)
    (h : RelV D m af) (h1 : getCol D "y_true" = yt) (h2 : getCol D "y_pred" = yp) (idx : List Nat) :
    metricFn D af idx =
      m.func [idx.map (fun j => yt.getD j 0), idx.map (fun j => yp.getD j 0)] (ownKwargs m idx) := by
  obtain ⟨_, hf, hp, hm, _⟩ := h
  simp only [metricFn, FrameSrc.annotated_call, hf, hp, FrameSrc.positional_argument_names, List.map_cons,
    List.map_nil, sliceDF, h1, h2]
  congr 1
  rw [ownKwargs_eq, ← hm, List.map_map]
  rfl

/-! ### naturality of `_apply_functions` in the value type -/

theorem applyFunctions_map {α β β' : Type} (h : β → β') (nanv : β) (kf : Row α → Key) (n : Nat)
    (f : List α → β) (rows : List (Row α)) :
    (applyFunctions nanv kf n f rows).map (fun p => (p.1, h p.2)) =
      applyFunctions (h nanv) kf n (fun l => h (f l)) rows := by
  unfold applyFunctions
  split
  · rfl
  · dsimp only
    have hg : (grouped kf f rows).map (fun p => (p.1, h p.2)) = grouped kf (fun l => h (f l)) rows := by
      simp [grouped, List.map_map, Function.comp_def]
    split
    · rw [← hg]
      simp only [reindex, List.map_map, Function.comp_def, lookup_map_snd]
      apply List.map_congr_left
      intro k _
      cases (grouped kf f rows).lookup k <;> rfl
    · exact hg

/-- looking a metric up by name in the dict handed to `apply_to_dataframe` finds its own annotated function -/
theorem lookup_fnDict_rel (D : AllData) (ms : List (MetricSpec γ)) (afs : List (Annotated γ))
    (hrel : List.Forall₂ (RelV D) ms afs) (hnd : (ms.map (·.name)).Nodup) (m : MetricSpec γ) (hm : m ∈ ms) (nanv : γ) :
    ∃ af, RelV D m af ∧ (nanRow nanv afs).lookup m.name = some nanv ∧
      ∀ idx, (FrameSrc.apply_to_dataframe idx (fnDict D afs)).lookup m.name = some (metricFn D af idx) := by
  induction hrel with
  | nil => simp at hm
  | @cons x af xs afs' hx _ ih =>
    simp only [List.map_cons, List.nodup_cons] at hnd
    by_cases hname : m.name = x.name
    · have hmx : m = x := by
        rcases List.mem_cons.mp hm with h | h
        · exact h
        · exact absurd (List.mem_map.mpr ⟨m, h, hname⟩) hnd.1
      subst hmx
      refine ⟨af, hx, ?_, ?_⟩
      · simp [nanRow, List.lookup, hx.1]
      · intro idx
        simp [FrameSrc.apply_to_dataframe, fnDict, List.lookup, hx.1]
    · have hm' : m ∈ xs := by
        rcases List.mem_cons.mp hm with h | h
        · exact absurd (h ▸ rfl) hname
        · exact h
      obtain ⟨af', h1, h2, h3⟩ := ih hnd.2 hm'
      have hne : (m.name == af.name) = false := by rw [hx.1]; simpa using hname
      refine ⟨af', h1, ?_, ?_⟩
      · simpa [nanRow, List.lookup, hne] using h2
      · intro idx
        have := h3 idx
        simpa [FrameSrc.apply_to_dataframe, fnDict, List.lookup, hne] using this

/-- the single-metric construction is the one-element case -/
theorem construct_rel (yt yp : List Rat) (m : MetricSpec γ) :
    RelV (construct (baseData yt yp) m).1 m (construct (baseData yt yp) m).2 ∧
    getCol (construct (baseData yt yp) m).1 "y_true" = yt ∧ getCol (construct (baseData yt yp) m).1 "y_pred" = yp := by
  obtain ⟨front, af, hc, hn, hr⟩ := construct_spec (baseData yt yp) m (baseData_nodup yt yp)
  rw [hc]
  refine ⟨hr, ?_, ?_⟩
  · rw [getCol_append_of_nodup front _ hn "y_true" (by simp [columns, baseData])]; rfl
  · rw [getCol_append_of_nodup front _ hn "y_pred" (by simp [columns, baseData])]; rfl

end FrameMulti
