import FairModel.Lemmas.Prelude
import FairModel.Model.Saddle

namespace Saddle
open Finset

theorem sumTo_eq (n : Nat) (f : Nat → Rat) : sumTo n f = ∑ i ∈ range n, f i := by
  induction n with
  | zero => simp [sumTo]
  | succ n ih =>
    rw [Finset.sum_range_succ, ← ih]
    simp [sumTo, List.range_succ]

/-! the LIFTED `_eval` expressions (`EGGen.lagrOf`, `lagrTerm`, `violOf`, `violAgg`) in the closed form every proof below
    uses; an edit of `L = error + np.sum(lambda_vec * (gamma - bound))` or of `(gamma - bound).max()` in the source
    changes the generated text and breaks these three lemmas (hence every C08 theorem about `lagr`, `viol`, `lHigh`) -/

theorem viol_def (T : Table) (Q : Nat → Rat) (j : Nat) : viol T Q j = gamQ T Q j - T.c j := by
  unfold viol EGGen.violOf; ring

theorem lagr_def (T : Table) (Q lam : Nat → Rat) :
    lagr T Q lam = errQ T Q + sumTo T.nC (fun j => lam j * viol T Q j) := by
  unfold lagr EGGen.lagrOf EGGen.lagrTerm viol EGGen.violOf
  rfl

theorem violAgg_eq (a b : Rat) : EGGen.violAgg a b = EGGen.max2 a b := by
  unfold EGGen.violAgg; rfl

theorem maxViol_def (T : Table) (Q : Nat → Rat) :
    maxViol T Q = (List.range T.nC).foldl (fun acc j => EGGen.max2 acc (viol T Q j)) (viol T Q 0) := by
  unfold maxViol EGGen.violAgg
  rfl

theorem errQ_unit (T : Table) (i : Nat) (hi : i < T.nH) : errQ T (unit i) = T.err i := by
  rw [errQ, sumTo_eq]
  simp only [unit, ite_mul, one_mul, zero_mul]
  rw [Finset.sum_ite_eq' (range T.nH) i]
  simp [hi]

theorem gamQ_unit (T : Table) (i j : Nat) (hi : i < T.nH) : gamQ T (unit i) j = T.gam j i := by
  rw [gamQ, sumTo_eq]
  simp only [unit, ite_mul, one_mul, zero_mul]
  rw [Finset.sum_ite_eq' (range T.nH) i]
  simp [hi]

theorem lPure_eq (T : Table) (lam : Nat → Rat) (i : Nat) (hi : i < T.nH) :
    lPure T lam i = T.err i + ∑ j ∈ range T.nC, lam j * (T.gam j i - T.c j) := by
  rw [lPure, lagr_def, errQ_unit T i hi, sumTo_eq]
  congr 1
  apply Finset.sum_congr rfl
  intro j _
  rw [viol_def, gamQ_unit T i j hi]

/-- The Lagrangian is affine in `Q`: for weights summing to one it is the mixture of the pure values. -/
theorem lagr_mix (T : Table) (Q lam : Nat → Rat) (hQ : ∑ i ∈ range T.nH, Q i = 1) :
    lagr T Q lam = ∑ i ∈ range T.nH, Q i * lPure T lam i := by
  have h1 : ∀ i ∈ range T.nH, Q i * lPure T lam i =
      Q i * T.err i + ∑ j ∈ range T.nC, lam j * (Q i * T.gam j i - Q i * T.c j) := by
    intro i hi
    rw [lPure_eq T lam i (Finset.mem_range.mp hi), mul_add, Finset.mul_sum]
    congr 1
    apply Finset.sum_congr rfl
    intro j _; ring
  rw [Finset.sum_congr rfl h1, Finset.sum_add_distrib, Finset.sum_comm]
  rw [lagr_def, errQ, sumTo_eq, sumTo_eq]
  congr 1
  apply Finset.sum_congr rfl
  intro j _
  rw [← Finset.mul_sum, Finset.sum_sub_distrib, ← Finset.sum_mul, hQ, one_mul, viol_def, gamQ, sumTo_eq]

/-! ### L_low : a running minimum -/

theorem foldMin_le_init (f : Nat → Rat) : ∀ (l : List Nat) (init : Rat),
    l.foldl (fun acc i => if f i < acc then f i else acc) init ≤ init
  | [], _ => le_refl _
  | i :: l, init => by
    simp only [List.foldl_cons]
    refine le_trans (foldMin_le_init f l _) ?_
    split
    · next h => exact le_of_lt h
    · exact le_refl _

theorem foldMin_le_mem (f : Nat → Rat) : ∀ (l : List Nat) (init : Rat), ∀ i ∈ l,
    l.foldl (fun acc i => if f i < acc then f i else acc) init ≤ f i
  | [], _, i, hi => by simp at hi
  | k :: l, init, i, hi => by
    simp only [List.foldl_cons]
    rcases List.mem_cons.mp hi with rfl | hi
    · refine le_trans (foldMin_le_init f l _) ?_
      split
      · exact le_refl _
      · next h => exact not_lt.mp h
    · exact foldMin_le_mem f l _ i hi

theorem le_foldMin (f : Nat → Rat) (m : Rat) : ∀ (l : List Nat) (init : Rat), m ≤ init →
    (∀ i ∈ l, m ≤ f i) → m ≤ l.foldl (fun acc i => if f i < acc then f i else acc) init
  | [], _, h, _ => h
  | k :: l, init, h, hl => by
    simp only [List.foldl_cons]
    apply le_foldMin f m l
    · split
      · exact hl k (by simp)
      · exact h
    · intro i hi; exact hl i (by simp [hi])

theorem lLow_le_L (T : Table) (Q lam : Nat → Rat) (cands : List Nat) :
    lLow T Q lam cands ≤ lagr T Q lam := foldMin_le_init _ _ _

theorem lLow_le_pure (T : Table) (Q lam : Nat → Rat) (cands : List Nat) (i : Nat) (hi : i ∈ cands) :
    lLow T Q lam cands ≤ lPure T lam i := foldMin_le_mem _ _ _ i hi

/-- every mixture over the class has Lagrangian value at least `L_low` computed over the whole class -/
theorem lLow_le_mix (T : Table) (Q lam Q' : Nat → Rat) (hsum : ∑ i ∈ range T.nH, Q' i = 1)
    (hnn : ∀ i < T.nH, 0 ≤ Q' i) :
    lLow T Q lam (List.range T.nH) ≤ lagr T Q' lam := by
  rw [lagr_mix T Q' lam hsum]
  have : lLow T Q lam (List.range T.nH) = ∑ i ∈ range T.nH, Q' i * lLow T Q lam (List.range T.nH) := by
    rw [← Finset.sum_mul, hsum, one_mul]
  rw [this]
  apply Finset.sum_le_sum
  intro i hi
  have hi' := Finset.mem_range.mp hi
  exact mul_le_mul_of_nonneg_left (lLow_le_pure T Q lam _ i (List.mem_range.mpr hi')) (hnn i hi')

/-! ### L_high : the best response of the lambda player -/

theorem max2_ge_left (a b : Rat) : a ≤ EGGen.max2 a b := by
  unfold EGGen.max2; split
  · next h => exact le_of_lt h
  · exact le_refl _

theorem max2_ge_right (a b : Rat) : b ≤ EGGen.max2 a b := by
  unfold EGGen.max2; split
  · exact le_refl _
  · next h => exact not_lt.mp h

theorem max2_le {a b g : Rat} (h : EGGen.max2 a b ≤ g) : a ≤ g ∧ b ≤ g :=
  ⟨le_trans (max2_ge_left a b) h, le_trans (max2_ge_right a b) h⟩

theorem foldMax_ge_init (f : Nat → Rat) : ∀ (l : List Nat) (init : Rat),
    init ≤ l.foldl (fun acc j => EGGen.max2 acc (f j)) init
  | [], _ => le_refl _
  | _ :: l, init => by
    simp only [List.foldl_cons]
    exact le_trans (max2_ge_left _ _) (foldMax_ge_init f l _)

theorem foldMax_ge_mem (f : Nat → Rat) : ∀ (l : List Nat) (init : Rat), ∀ j ∈ l,
    f j ≤ l.foldl (fun acc j => EGGen.max2 acc (f j)) init
  | [], _, j, hj => by simp at hj
  | k :: l, init, j, hj => by
    simp only [List.foldl_cons]
    rcases List.mem_cons.mp hj with rfl | hj
    · exact le_trans (max2_ge_right _ _) (foldMax_ge_init f l _)
    · exact foldMax_ge_mem f l _ j hj

theorem viol_le_maxViol (T : Table) (Q : Nat → Rat) (j : Nat) (hj : j < T.nC) :
    viol T Q j ≤ maxViol T Q := by
  rw [maxViol_def]; exact foldMax_ge_mem _ _ _ j (List.mem_range.mpr hj)

/-- `L_high` dominates the error and `error + B * violation_j` for every constraint (`B ≥ 0`). -/
theorem lHigh_ge (T : Table) (B : Rat) (hB : 0 ≤ B) (Q : Nat → Rat) :
    errQ T Q ≤ lHigh T B Q ∧ ∀ j < T.nC, errQ T Q + B * viol T Q j ≤ lHigh T B Q := by
  unfold lHigh EGGen.lHigh
  split
  · next h =>
    have hpos : 0 < maxViol T Q := by simpa using h
    refine ⟨by nlinarith, fun j hj => ?_⟩
    have := viol_le_maxViol T Q j hj
    nlinarith
  · next h =>
    have hle : maxViol T Q ≤ 0 := by simpa using h
    refine ⟨le_refl _, fun j hj => ?_⟩
    have := viol_le_maxViol T Q j hj
    nlinarith

/-- `L_high` really is the value of the best response of the multiplier player:
    `L(Q, λ) ≤ L_high` for every `λ ≥ 0` with `‖λ‖₁ ≤ B`. -/
theorem lagr_le_lHigh (T : Table) (B : Rat) (Q lam : Nat → Rat)
    (hl : ∀ j < T.nC, 0 ≤ lam j) (hB : ∑ j ∈ range T.nC, lam j ≤ B) :
    lagr T Q lam ≤ lHigh T B Q := by
  have hB0 : 0 ≤ B := le_trans (Finset.sum_nonneg (fun j hj => hl j (Finset.mem_range.mp hj))) hB
  rw [lagr_def, sumTo_eq]
  set M := maxViol T Q with hM
  have hterm : ∑ j ∈ range T.nC, lam j * viol T Q j ≤ ∑ j ∈ range T.nC, lam j * (if 0 < M then M else 0) := by
    apply Finset.sum_le_sum
    intro j hj
    have hj' := Finset.mem_range.mp hj
    have h1 := viol_le_maxViol T Q j hj'
    have h2 := hl j hj'
    split
    · exact mul_le_mul_of_nonneg_left h1 h2
    · next h =>
      have h3 : M ≤ 0 := not_lt.mp h
      have h4 : viol T Q j ≤ 0 := le_trans h1 h3
      have := mul_le_mul_of_nonneg_left h4 h2
      simpa using this
  rw [← Finset.sum_mul] at hterm
  unfold lHigh EGGen.lHigh
  split
  · next h =>
    have hpos : 0 < M := by simpa using h
    simp only [hpos, if_true] at hterm
    have : (∑ j ∈ range T.nC, lam j) * M ≤ B * M := mul_le_mul_of_nonneg_right hB (le_of_lt hpos)
    linarith
  · next h =>
    have hle : ¬ 0 < M := by simpa using h
    simp only [hle, if_false, mul_zero] at hterm
    linarith

/-! ### project_lambda -/

theorem posPart_nonneg (q : Rat) : 0 ≤ posPart q := by unfold posPart; split <;> linarith

theorem posPart_sub (a b : Rat) : posPart (a - b) - posPart (b - a) = a - b := by
  unfold posPart; split <;> split <;> linarith

theorem posPart_add_le (a b : Rat) (ha : 0 ≤ a) (hb : 0 ≤ b) : posPart (a - b) + posPart (b - a) ≤ a + b := by
  unfold posPart; split <;> split <;> linarith

/-- the lifted `+` entry of `project_lambda` is the positive part of the pair's difference … -/
theorem src_posOf (a b : Rat) : ProjectLambdaSrc.posOf a b = posPart (a - b) := by
  unfold ProjectLambdaSrc.posOf posPart
  split_ifs <;> linarith

/-- … and the lifted `-` entry is the positive part of the opposite difference (this is where the data flow of the
    source — `lambda_neg` negates the UNCLIPPED `lambda_pos` — and its signs enter the C08 proofs) -/
theorem src_negOf (a b : Rat) : ProjectLambdaSrc.negOf a b = posPart (b - a) := by
  unfold ProjectLambdaSrc.negOf posPart
  split_ifs <;> linarith

theorem project_nonneg (m : Nat) (lam : Nat → Rat) (j : Nat) : 0 ≤ project m lam j := by
  unfold project; split
  · rw [src_posOf]; exact posPart_nonneg _
  · rw [src_negOf]; exact posPart_nonneg _

theorem project_lo (m : Nat) (lam : Nat → Rat) (j : Nat) (hj : j < m) :
    project m lam j = posPart (lam j - lam (j + m)) := by simp [project, hj, src_posOf]

theorem project_hi (m : Nat) (lam : Nat → Rat) (j : Nat) :
    project m lam (m + j) = posPart (lam (m + j) - lam j) := by
  have : ¬ (m + j < m) := by omega
  simp [project, this, src_negOf]

/-- `project_lambda` does not change `λ·γ` when the `-` entries of `γ` are the negated `+` entries
    (true for every UtilityParity moment with ratio 1), so a best response to `λ` is a best response to
    the projected vector: `best_h(λ̂)` may be called with the unprojected multipliers. -/
theorem project_dot (m : Nat) (lam gam : Nat → Rat) (hg : ∀ j < m, gam (m + j) = -gam j) :
    ∑ j ∈ range (m + m), project m lam j * gam j = ∑ j ∈ range (m + m), lam j * gam j := by
  rw [Finset.sum_range_add, Finset.sum_range_add, ← Finset.sum_add_distrib, ← Finset.sum_add_distrib]
  apply Finset.sum_congr rfl
  intro j hj
  have hj' := Finset.mem_range.mp hj
  rw [project_lo m lam j hj', project_hi, hg j hj', add_comm j m]
  have h2 := congrArg (fun x => x * gam j) (posPart_sub (lam j) (lam (m + j)))
  linarith [h2]

theorem project_l1_le (m : Nat) (lam : Nat → Rat) (hl : ∀ j < m + m, 0 ≤ lam j) :
    ∑ j ∈ range (m + m), project m lam j ≤ ∑ j ∈ range (m + m), lam j := by
  rw [Finset.sum_range_add, Finset.sum_range_add, ← Finset.sum_add_distrib, ← Finset.sum_add_distrib]
  apply Finset.sum_le_sum
  intro j hj
  have hj' := Finset.mem_range.mp hj
  rw [project_lo m lam j hj', project_hi, add_comm j m]
  exact posPart_add_le _ _ (hl j (by omega)) (hl (m + j) (by omega))

/-! ### selection of the returned iterate -/

theorem minL_le_init : ∀ (x : Rat) (xs : List Rat), minL x xs ≤ x
  | _, [] => le_refl _
  | x, y :: ys => by
    simp only [minL]
    split
    · next h => exact le_trans (minL_le_init y ys) (le_of_lt h)
    · exact minL_le_init x ys

theorem minL_le_mem : ∀ (x : Rat) (xs : List Rat), ∀ y ∈ xs, minL x xs ≤ y
  | _, [], y, hy => by simp at hy
  | x, z :: zs, y, hy => by
    simp only [minL]
    rcases List.mem_cons.mp hy with rfl | hy
    · split
      · exact minL_le_init _ _
      · next h => exact le_trans (minL_le_init x zs) (not_lt.mp h)
    · exact minL_le_mem _ zs y hy

theorem minL_mem : ∀ (x : Rat) (xs : List Rat), minL x xs ∈ x :: xs
  | _, [] => by simp [minL]
  | x, y :: ys => by
    simp only [minL]
    split
    · have := minL_mem y ys; simp at this ⊢; tauto
    · have := minL_mem x ys; simp at this ⊢; tauto

/-- the minimum of a gap list (0 for the empty list, which never occurs) -/
def minOf : List Rat → Rat
  | [] => 0
  | g :: gs => minL g gs

theorem getD_of_lt (l : List Rat) (k : Nat) (hk : k < l.length) : l.getD k 0 = l[k] := by
  simp [List.getD_eq_getElem?_getD, hk]

theorem minOf_le (gaps : List Rat) (k : Nat) (hk : k < gaps.length) : minOf gaps ≤ gaps.getD k 0 := by
  cases gaps with
  | nil => simp at hk
  | cons g gs =>
    have hm : (g :: gs).getD k 0 ∈ g :: gs := by
      rw [getD_of_lt _ _ hk]; exact List.getElem_mem hk
    rcases List.mem_cons.mp hm with h | h
    · rw [h]; exact minL_le_init g gs
    · exact minL_le_mem g gs _ h

theorem getLast?_ge_of_sorted : ∀ (l : List Nat) (i : Nat), l.Pairwise (· < ·) → l.getLast? = some i →
    ∀ k ∈ l, k ≤ i
  | [], _, _, h, _, _ => by simp at h
  | [a], i, _, h, k, hk => by simp at h hk; omega
  | a :: b :: l, i, hp, h, k, hk => by
    rw [List.getLast?_cons_cons] at h
    have hp' := List.pairwise_cons.mp hp
    rcases List.mem_cons.mp hk with rfl | hk
    · have hi : i ∈ b :: l := List.mem_of_getLast? h
      exact le_of_lt (hp'.1 i hi)
    · exact getLast?_ge_of_sorted (b :: l) i hp'.2 h k hk

/-- `best_iter_` is the LAST iteration whose gap is within `_PRECISION` of the smallest gap. -/
theorem bestIter_spec (gaps : List Rat) (i : Nat) (h : bestIter gaps = some i) :
    i < gaps.length ∧ EGGen.keep (gaps.getD i 0) (minOf gaps) = true ∧
    ∀ k < gaps.length, EGGen.keep (gaps.getD k 0) (minOf gaps) = true → k ≤ i := by
  cases gaps with
  | nil => simp [bestIter] at h
  | cons g gs =>
    simp only [bestIter, EGGen.pickLast, if_true] at h
    have hmem := List.mem_of_getLast? h
    rw [List.mem_filter, List.mem_range] at hmem
    refine ⟨hmem.1, hmem.2, ?_⟩
    intro k hk hkeep
    have hsorted : ((List.range (g :: gs).length).filter
        (fun i => EGGen.keep ((g :: gs).getD i 0) (minL g gs))).Pairwise (· < ·) :=
      List.Pairwise.filter _ List.pairwise_lt_range
    exact getLast?_ge_of_sorted _ i hsorted h k (List.mem_filter.mpr ⟨List.mem_range.mpr hk, hkeep⟩)

theorem keep_min (m : Rat) : EGGen.keep m m = true := by
  simp only [EGGen.keep, EGGen.precision]; norm_num

theorem bestIter_isSome (gaps : List Rat) (hne : gaps ≠ []) : ∃ i, bestIter gaps = some i := by
  cases gaps with
  | nil => exact absurd rfl hne
  | cons g gs =>
    simp only [bestIter, EGGen.pickLast, if_true]
    have hm := minL_mem g gs
    obtain ⟨k, hk, hkv⟩ := List.getElem_of_mem hm
    have hkept : k ∈ (List.range (g :: gs).length).filter
        (fun i => EGGen.keep ((g :: gs).getD i 0) (minL g gs)) := by
      rw [List.mem_filter, List.mem_range]
      refine ⟨hk, ?_⟩
      rw [getD_of_lt _ _ hk, hkv]; exact keep_min _
    cases hl : ((List.range (g :: gs).length).filter
        (fun i => EGGen.keep ((g :: gs).getD i 0) (minL g gs))).getLast? with
    | none => rw [List.getLast?_eq_none_iff] at hl; rw [hl] at hkept; simp at hkept
    | some i => exact ⟨i, rfl⟩

end Saddle
