/-
Helper lemmas added by review R3 for C09:
* the error branches of `Grid.grid` / `Grid.gridFrom` (grid_size ≤ 1),
* existence of the grid from ANY start of the search,
* when `Grid.select` returns `none`,
* the bridge from the Grid model's weights / `dot` to the Lagrangian of `Lemmas/Oracle.lean` (C07), so that the
  best-response clause can be stated for the REAL `objective + λ·γ` instead of an abstract affine `F`.
-/
import FairModel.Lemmas.GridMore
import FairModel.Lemmas.Oracle

namespace Grid

/-! ### grid_size ≤ 1: `n_units = 0`, `float(grid_limit) / n_units` raises -/

theorem lattice_length_pos (na : List Bool) (f : Bool) (n : Nat) : 1 ≤ (lattice na f n).length := by
  have := lattice_ne_nil na f n
  cases h : lattice na f n with
  | nil => exact absurd h this
  | cons a l => simp

/-- the search finds radius 0 as soon as one point is enough -/
theorem nUnits_of_le_one (na : List Bool) (f : Bool) (gs : Nat) (h : gs ≤ 1) : nUnits na f gs = some 0 := by
  rw [nUnits_def]
  have h0 := lattice_length_pos na f 0
  have : List.range (gs + 1) = 0 :: (List.range gs).map (· + 1) := by
    rw [List.range_succ_eq_map]
  rw [this, List.find?_cons]
  have hd : decide (gs ≤ (lattice na f 0).length) = true := by simp; omega
  simp [hd]

/-! ### `Grid.select` returns `none` only for an empty list of records or an empty gamma vector -/

theorem allSomeR_isSome_iff : ∀ (l : List (Option Rat)), (allSomeR l).isSome = true ↔ ∀ x ∈ l, x.isSome = true
  | [] => by simp [allSomeR]
  | none :: l => by simp [allSomeR]
  | some a :: l => by
    have ih := allSomeR_isSome_iff l
    simp only [allSomeR, Option.isSome_map, List.mem_cons, forall_eq_or_imp, Option.isSome_some, true_and]
    exact ih

theorem allSomeR_length : ∀ (l : List (Option Rat)) (r : List Rat), allSomeR l = some r → r.length = l.length
  | [], r, h => by simp [allSomeR] at h; simp [← h]
  | none :: _, r, h => by simp [allSomeR] at h
  | some a :: l, r, h => by
    simp only [allSomeR, Option.map_eq_some_iff] at h
    obtain ⟨r', hr', rfl⟩ := h
    simp [allSomeR_length l r' hr']

/-! ### the prediction of the relabelled target costs nothing -/

theorem weighted01_self : ∀ (data : List (Nat × Rat)), weighted01 data (data.map (·.1)) = 0
  | [] => by simp [weighted01]
  | (y, w) :: data => by
    simp only [List.map_cons, weighted01, if_true, zero_add]
    exact weighted01_self data

/-! ### all combined weights zero (the F12 shape) -/

theorem labels_all_zero (w : List Rat) (hz : ∀ x ∈ w, x = 0) :
    (relabel w).map (·.1) = List.replicate w.length 0 := by
  rw [relabel_def, List.map_map]
  apply List.eq_replicate_iff.mpr
  refine ⟨by simp, ?_⟩
  intro b hb
  obtain ⟨x, hx, rfl⟩ := List.mem_map.mp hb
  simp [hz x hx]

theorem eraseDups_replicate_succ (n : Nat) (a : Nat) : (List.replicate (n + 1) a).eraseDups = [a] := by
  rw [List.replicate_succ, List.eraseDups_cons]
  have : (List.replicate n a).filter (fun b => !b == a) = [] := by
    rw [List.filter_eq_nil_iff]
    intro b hb
    rw [List.mem_replicate] at hb
    simp [hb.2]
  rw [this]; simp

/-! ### the default offset -/

theorem zipWith_withOffset_default : ∀ (lam : List Rat),
    List.zipWith GridSrc.withOffset lam (List.replicate lam.length GridSrc.defaultOffset) = lam
  | [] => rfl
  | x :: l => by
    have ih := zipWith_withOffset_default l
    simp only [List.length_cons, List.replicate_succ, List.zipWith_cons_cons, ih, List.cons.injEq, and_true]
    simp [GridSrc.withOffset, GridSrc.defaultOffset]

/-! ### bridge to the Lagrangian of C07 (`Lemmas/Oracle.lean`) -/

theorem dot_eq_moments (a b : List Rat) : Grid.dot a b = Moments.dot a b := rfl

/-- `weights = constraints.signed_weights(λ) + objective.signed_weights()` (objective NOT in the span) is the total
    signed weight vector of C07 -/
theorem combineWeights_false : ∀ (w ow : List Rat), combineWeights false w ow = Moments.vadd ow w
  | [], ow => by cases ow <;> simp [combineWeights, Moments.vadd]
  | _ :: _, [] => by simp [combineWeights, Moments.vadd]
  | x :: w, y :: ow => by
    have ih := combineWeights_false w ow
    simp only [combineWeights, Moments.vadd, List.zipWith_cons_cons, List.cons.injEq] at ih ⊢
    exact ⟨by simp [GridSrc.combine, add_comm], ih⟩

theorem combineWeights_totalW (ev : Moments.Ev) (rows : List Moments.Row) (ratio : Rat) (ut : Moments.Util)
    (fp fn : Rat) (lam : List Rat) :
    combineWeights false (Moments.signedWeights ev rows ratio ut lam)
        (Moments.errWeights fp fn (Moments.labelsOf rows) none)
      = Oracle.totalW ev rows ratio ut fp fn lam := by
  rw [combineWeights_false]; rfl

theorem toRat_length (h : List Nat) : (toRat h).length = h.length := by simp [toRat]

theorem toRat_hard' (p : List Nat) (hp : ∀ x ∈ p, x = 0 ∨ x = 1) : Moments.Hard (toRat p) := by
  induction p with
  | nil => intro x hx; simp at hx
  | cons a p ih =>
    intro x hx
    rw [toRat_cons] at hx
    rcases List.mem_cons.mp hx with rfl | hx'
    · rcases hp a (by simp) with rfl | rfl <;> simp
    · exact ih (fun y hy => hp y (by simp [hy])) x hx'

/-- for a HARD labeling of the right length the real `objective + λ·γ` is affine in `Σ wᵢhᵢ` with slope `−1/n`,
    `w` = the combined signed weights GridSearch relabels from (C07's `dot_totalW`) -/
theorem lagr_affine (ev : Moments.Ev) (rows : List Moments.Row) (ratio : Rat) (ut : Moments.Util) (fp fn : Rat)
    (lam : List Rat) (h : List Nat) (hne : rows ≠ []) (hl : h.length = rows.length)
    (hy : Moments.Hard (Moments.labelsOf rows)) (hh : ∀ x ∈ h, x = 0 ∨ x = 1) :
    Oracle.lagr ev rows ratio ut fp fn lam (toRat h)
      = Oracle.lagr ev rows ratio ut fp fn lam (List.replicate rows.length 0)
        - (1 / (rows.length : Rat)) * Grid.dot (Oracle.totalW ev rows ratio ut fp fn lam) (toRat h) := by
  have hn : (rows.length : Rat) ≠ 0 := by
    have := List.length_pos_of_ne_nil hne
    exact_mod_cast this.ne'
  have := Oracle.dot_totalW ev rows ratio ut fp fn lam (toRat h) hne (by rw [toRat_length, hl]) hy
    (toRat_hard' h hh).soft
  rw [dot_eq_moments, this]
  field_simp
  ring

end Grid
