import FairModel.Lemmas.Frame
import FairModel.Lemmas.Weights
import FairModel.Model.MetricPool
import FairModel.Model.Aggregate

/-! Permutation lemmas for the MetricFrame model (C12): `uniq` (sorted distinct values) depends only on
the multiset of its input, slices of permuted rows are permutations of each other, hence `grouped`,
`levels`, `applyFunctions` are invariant for permutation-invariant metric functions; the pool metrics are
permutation invariant; the NaN-skipping min/max of `XRArith` are permutation invariant. -/

deriving instance DecidableEq for Frame.Row

namespace Frame

variable {α β κ : Type}

/-- a metric function that does not look at the order of the rows of its slice -/
def PermInv (f : List α → β) : Prop := ∀ a b : List α, a.Perm b → f a = f b

section uniq
variable [LT κ] [DecidableLT κ] [DecidableEq κ]

omit [DecidableLT κ] [DecidableEq κ] in
/-- two strictly increasing lists with the same members are equal -/
theorem sorted_ext (htr : ∀ a b c : κ, a < b → b < c → a < c) (hirr : ∀ a : κ, ¬ a < a)
    {l₁ l₂ : List κ} (h₁ : l₁.Pairwise (· < ·)) (h₂ : l₂.Pairwise (· < ·))
    (hm : ∀ x, x ∈ l₁ ↔ x ∈ l₂) : l₁ = l₂ := by
  have hnd : ∀ l : List κ, l.Pairwise (· < ·) → l.Nodup := fun l hl => by
    unfold List.Nodup
    refine hl.imp ?_
    intro a b hab heq
    subst heq
    exact hirr a hab
  have hp : l₁.Perm l₂ := (List.perm_ext_iff_of_nodup (hnd _ h₁) (hnd _ h₂)).mpr hm
  exact hp.eq_of_pairwise (fun a b _ _ hab hba => absurd (htr a b a hab hba) (hirr a)) h₁ h₂

/-- `np.unique` of a permuted (indeed: of any list with the same members) column is the same list -/
theorem uniq_congr (htr : ∀ a b c : κ, a < b → b < c → a < c)
    (htri : ∀ a b : κ, a < b ∨ a = b ∨ b < a) (hirr : ∀ a : κ, ¬ a < a)
    {l₁ l₂ : List κ} (hm : ∀ x, x ∈ l₁ ↔ x ∈ l₂) : uniq l₁ = uniq l₂ :=
  sorted_ext htr hirr (pairwise_uniq htr htri l₁) (pairwise_uniq htr htri l₂)
    (fun x => by rw [mem_uniq, mem_uniq]; exact hm x)

theorem uniq_perm (htr : ∀ a b c : κ, a < b → b < c → a < c)
    (htri : ∀ a b : κ, a < b ∨ a = b ∨ b < a) (hirr : ∀ a : κ, ¬ a < a)
    {l₁ l₂ : List κ} (hp : l₁.Perm l₂) : uniq l₁ = uniq l₂ :=
  uniq_congr htr htri hirr (fun _ => hp.mem_iff)

end uniq

theorem level_irrefl (a : Level) : ¬ a < a := String.lt_irrefl a

theorem key_irrefl (a : Key) : ¬ a < a := by
  induction a with
  | nil => simp
  | cons x xs ih =>
    rw [List.cons_lt_cons_iff]
    rintro (h | ⟨_, h⟩)
    · exact level_irrefl x h
    · exact ih h

theorem uniq_levels_perm {l₁ l₂ : List Level} (hp : l₁.Perm l₂) : uniq l₁ = uniq l₂ :=
  uniq_perm level_trans level_tri level_irrefl hp

theorem uniq_keys_perm {l₁ l₂ : List Key} (hp : l₁.Perm l₂) : uniq l₁ = uniq l₂ :=
  uniq_perm key_trans key_tri key_irrefl hp

theorem uniq_levels_congr {l₁ l₂ : List Level} (hm : ∀ x, x ∈ l₁ ↔ x ∈ l₂) : uniq l₁ = uniq l₂ :=
  uniq_congr level_trans level_tri level_irrefl hm

theorem uniq_keys_congr {l₁ l₂ : List Key} (hm : ∀ x, x ∈ l₁ ↔ x ∈ l₂) : uniq l₁ = uniq l₂ :=
  uniq_congr key_trans key_tri key_irrefl hm

/-! ### slices of permuted rows -/

theorem rowsOf_perm (kf : Row α → Key) (k : Key) {rows rows' : List (Row α)} (hp : rows.Perm rows') :
    (rowsOf kf k rows).Perm (rowsOf kf k rows') := hp.filter _

theorem slice_perm {rs rs' : List (Row α)} (hp : rs.Perm rs') : (slice rs).Perm (slice rs') := hp.map _

theorem grouped_perm (kf : Row α → Key) (f : List α → β) (hf : PermInv f)
    {rows rows' : List (Row α)} (hp : rows.Perm rows') : grouped kf f rows = grouped kf f rows' := by
  unfold grouped
  rw [uniq_keys_perm (hp.map kf)]
  apply List.map_congr_left
  intro k _
  rw [hf _ _ (slice_perm (rowsOf_perm kf k hp))]

/-- the levels of every grouping column (hence the Cartesian index) do not depend on the row order —
    no hypothesis on the metric -/
theorem levels_perm (kf : Row α → Key) (n : Nat) {rows rows' : List (Row α)} (hp : rows.Perm rows') :
    levels kf n rows = levels kf n rows' := by
  unfold levels
  apply List.map_congr_left
  intro j _
  exact uniq_levels_perm ((hp.map kf).map _)

theorem applyFunctions_perm (nanv : β) (kf : Row α → Key) (n : Nat) (f : List α → β) (hf : PermInv f)
    {rows rows' : List (Row α)} (hp : rows.Perm rows') :
    applyFunctions nanv kf n f rows = applyFunctions nanv kf n f rows' := by
  unfold applyFunctions
  rw [hf _ _ (slice_perm hp), grouped_perm kf f hf hp, levels_perm kf n hp]

/-- the index of the result table is the same for permuted rows, whatever the metric does -/
theorem applyFunctions_keys_perm (nanv : β) (kf : Row α → Key) (n : Nat) (f : List α → β)
    {rows rows' : List (Row α)} (hp : rows.Perm rows') :
    (applyFunctions nanv kf n f rows).map (·.1) = (applyFunctions nanv kf n f rows').map (·.1) := by
  unfold applyFunctions
  split
  · rfl
  · dsimp only
    split
    · simp only [reindex, List.map_map, levels_perm kf n hp]
      rfl
    · simp only [grouped, List.map_map, uniq_keys_perm (hp.map kf)]
      rfl

end Frame

/-! ### the metric pool is permutation invariant -/

namespace MetricPool
open Frame

theorem sumBy_perm (g : Dat → Rat) {a b : List Dat} (hp : a.Perm b) : sumBy g a = sumBy g b :=
  (hp.map g).sum_eq

theorem all_perm {γ : Type} (p : γ → Bool) {a b : List γ} (hp : a.Perm b) : a.all p = b.all p := by
  rw [Bool.eq_iff_iff]
  simp only [List.all_eq_true]
  exact ⟨fun h x hx => h x (hp.mem_iff.mpr hx), fun h x hx => h x (hp.mem_iff.mp hx)⟩

theorem any_perm {γ : Type} (p : γ → Bool) {a b : List γ} (hp : a.Perm b) : a.any p = b.any p := by
  rw [Bool.eq_iff_iff]
  simp only [List.any_eq_true]
  exact ⟨fun ⟨x, hx, h⟩ => ⟨x, hp.mem_iff.mp hx, h⟩, fun ⟨x, hx, h⟩ => ⟨x, hp.mem_iff.mpr hx, h⟩⟩

theorem wsum_perm (p : BaseMetrics.Row → Bool) {a b : List BaseMetrics.Row} (hp : a.Perm b) :
    BaseMetrics.wsum p a = BaseMetrics.wsum p b := by
  unfold BaseMetrics.wsum
  exact ((hp.filter p).map _).sum_eq

theorem rateOf_perm (k : BaseMetrics.Kind) {a b : List BaseMetrics.Row} (hp : a.Perm b) (neg pos : Int) :
    BaseMetrics.rateOf k a neg pos = BaseMetrics.rateOf k b neg pos := by
  cases k <;>
    simp only [BaseMetrics.rateOf, BaseMetrics.tprOf, BaseMetrics.fnrOf, BaseMetrics.fprOf, BaseMetrics.tnrOf,
      BaseMetrics.rowTot, BaseMetrics.cell, wsum_perm _ hp]

theorem rate_perm (k : BaseMetrics.Kind) {a b : List BaseMetrics.Row} (hp : a.Perm b) (pos : Option Int) :
    BaseMetrics.rate k a pos = BaseMetrics.rate k b pos := by
  unfold BaseMetrics.rate
  have hl : BaseMetrics.labelsForCM (BaseMetrics.allLabels a) pos =
      BaseMetrics.labelsForCM (BaseMetrics.allLabels b) pos := by
    apply BaseMetrics.labelsForCM_congr
    apply BaseMetrics.uniqueSorted_congr
    intro x
    simp only [BaseMetrics.allLabels, List.mem_append, List.mem_map]
    constructor
    · rintro (⟨r, hr, rfl⟩ | ⟨r, hr, rfl⟩)
      · exact Or.inl ⟨r, hp.mem_iff.mp hr, rfl⟩
      · exact Or.inr ⟨r, hp.mem_iff.mp hr, rfl⟩
    · rintro (⟨r, hr, rfl⟩ | ⟨r, hr, rfl⟩)
      · exact Or.inl ⟨r, hp.mem_iff.mpr hr, rfl⟩
      · exact Or.inr ⟨r, hp.mem_iff.mpr hr, rfl⟩
  rw [hl]
  split
  · rfl
  · next neg pos' _ => rw [rateOf_perm k hp]

theorem rateCell_perm (k : BaseMetrics.Kind) {a b : List Dat} (hp : a.Perm b) : rateCell k a = rateCell k b := by
  unfold rateCell
  rw [all_perm _ hp, rate_perm k (hp.map toBM)]

theorem selRateCell_perm {a b : List Dat} (hp : a.Perm b) : selRateCell a = selRateCell b := by
  unfold selRateCell
  have : a.isEmpty = b.isEmpty := by
    cases a <;> cases b <;> simp_all
  rw [this, sumBy_perm _ hp, sumBy_perm _ hp]

/-- every metric of the pool (count, selection rate, the four confusion-matrix rates, mean prediction,
    accuracy, the error means and the fingerprint sums) is invariant under permutation of its slice -/
theorem eval_permInv (m : Metric) : PermInv (eval m) := by
  intro a b hp
  cases m <;> simp only [eval]
  · rw [hp.length_eq]
  · exact selRateCell_perm hp
  · exact rateCell_perm _ hp
  · exact rateCell_perm _ hp
  · exact rateCell_perm _ hp
  · exact rateCell_perm _ hp
  all_goals (try rw [sumBy_perm _ hp, sumBy_perm _ hp])
  all_goals (try rw [sumBy_perm _ hp])

end MetricPool

/-! ### NaN-skipping min / max do not depend on the order of the values -/

namespace XR

theorem minSkip2_left_comm (x y z : XR) : minSkip2 x (minSkip2 y z) = minSkip2 y (minSkip2 x z) := by
  cases x <;> cases y <;> cases z <;> simp [minSkip2, isNan, lt] <;> grind

theorem maxSkip2_left_comm (x y z : XR) : maxSkip2 x (maxSkip2 y z) = maxSkip2 y (maxSkip2 x z) := by
  cases x <;> cases y <;> cases z <;> simp [maxSkip2, isNan, lt] <;> grind

theorem minSkip_perm {a b : List XR} (hp : a.Perm b) : minSkip a = minSkip b := by
  unfold minSkip
  have : LeftCommutative minSkip2 := ⟨minSkip2_left_comm⟩
  exact hp.foldr_eq nan

theorem maxSkip_perm {a b : List XR} (hp : a.Perm b) : maxSkip a = maxSkip b := by
  unfold maxSkip
  have : LeftCommutative maxSkip2 := ⟨maxSkip2_left_comm⟩
  exact hp.foldr_eq nan

end XR

theorem Grouping.apply_perm (g : Grouping) {a b : List XR} (hp : a.Perm b) : g.apply a = g.apply b := by
  cases g
  · exact XR.minSkip_perm hp
  · exact XR.maxSkip_perm hp
