import FairModel.Lemmas.Prelude
import FairModel.Model.CorrRemover

namespace CorrRemover
open Finset

/-! ### list sums as `Finset.range` sums -/

theorem sumTo_eq (n : Nat) (f : Nat → Rat) : sumTo n f = ∑ i ∈ range n, f i := by
  unfold sumTo
  induction n with
  | zero => simp
  | succ n ih =>
    rw [List.range_succ, List.map_append, List.sum_append, ih, Finset.sum_range_succ]
    simp

theorem list_sum_eq (l : List Rat) : l.sum = ∑ i ∈ range l.length, l.getD i 0 := by
  induction l with
  | nil => simp
  | cons a l ih =>
    rw [List.sum_cons, List.length_cons, Finset.sum_range_succ', ih]
    simp [add_comm]

/-! ### `getD` of the list constructors used by the model -/

theorem getD_vec {n j : Nat} (f : Nat → Rat) (h : j < n) : (vec n f).getD j 0 = f j := by
  simp [vec, List.getD_eq_getElem?_getD, h]

theorem length_vec (n : Nat) (f : Nat → Rat) : (vec n f).length = n := by simp [vec]

theorem getD_zipWith (f : Rat → Rat → Rat) (a b : List Rat) (i : Nat)
    (ha : i < a.length) (hb : i < b.length) :
    (List.zipWith f a b).getD i 0 = f (a.getD i 0) (b.getD i 0) := by
  simp [List.getD_eq_getElem?_getD, ha, hb]

theorem getD_map_row {α : Type} (f : α → Rat) (l : List α) (d : α) (i : Nat) (h : i < l.length) :
    (l.map f).getD i 0 = f (l.getD i d) := by
  simp [List.getD_eq_getElem?_getD, h]

theorem ext_getD (a b : List Rat) (hl : a.length = b.length)
    (h : ∀ i, i < a.length → a.getD i 0 = b.getD i 0) : a = b := by
  apply List.ext_getElem hl
  intro i h1 h2
  have := h i h1
  simpa [List.getD_eq_getElem?_getD, h1, h2] using this

theorem length_pick (idx : List Nat) (r : List Rat) : (pick idx r).length = idx.length := by
  simp [pick]

theorem getD_pick (idx : List Nat) (r : List Rat) (k : Nat) (h : k < idx.length) :
    (pick idx r).getD k 0 = r.getD (idx.getD k 0) 0 := by
  unfold pick
  rw [getD_map_row (fun c => r.getD c 0) idx 0 k h]

theorem length_vsub (a b : List Rat) : (vsub a b).length = min a.length b.length := by
  simp [vsub]

theorem length_rowTimes (r : List Rat) (β : Mat) (mz : Nat) : (rowTimes r β mz).length = mz := by
  simp [rowTimes, vec]

theorem length_residRow (β : Mat) (sc z : List Rat) : (residRow β sc z).length = z.length := by
  simp [residRow, length_vsub, length_rowTimes]

theorem length_blend (α : Rat) (f u : List Rat) : (blend α f u).length = min f.length u.length := by
  simp [blend]

theorem length_transformRow (p : Params) (x : List Rat) :
    (transformRow p x).length = (nonSensIdx p.ids p.m).length := by
  simp [transformRow, length_blend, length_residRow, length_pick]

/-! ### entries of matrices built row-wise -/

theorem ent_map (f : List Rat → List Rat) (X : Mat) (i j : Nat) (h : i < X.length) :
    ent (X.map f) i j = (f (X.getD i [])).getD j 0 := by
  unfold ent
  congr 1
  simp [List.getD_eq_getElem?_getD, h]

theorem getD_colOf (M : Mat) (j i : Nat) (h : i < M.length) :
    (colOf M j).getD i 0 = ent M i j := by
  unfold colOf ent
  rw [getD_map_row (fun r => r.getD j 0) M [] i h]

theorem length_colOf (M : Mat) (j : Nat) : (colOf M j).length = M.length := by simp [colOf]

/-- entry of the centred sensitive block -/
theorem ent_center (S : Mat) (mean : List Rat) (i k : Nat) (hi : i < S.length)
    (hk : k < (S.getD i []).length) (hm : k < mean.length) :
    ent (center S mean) i k = ent S i k - mean.getD k 0 := by
  unfold center
  rw [ent_map _ _ _ _ hi]
  unfold vsub
  rw [getD_zipWith _ _ _ _ hk hm]
  rfl

theorem length_sens_row (ids : List Nat) (X : Mat) (i : Nat) (hi : i < X.length) :
    ((sens ids X).getD i []).length = ids.length := by
  simp [sens, List.getD_eq_getElem?_getD, hi, length_pick]

theorem length_sens (ids : List Nat) (X : Mat) : (sens ids X).length = X.length := by simp [sens]

/-! ### covariance algebra -/

theorem sum_sub_mean (b : List Rat) : ∑ i ∈ range b.length, (b.getD i 0 - mean b) = 0 := by
  rw [Finset.sum_sub_distrib, ← list_sum_eq]
  simp only [Finset.sum_const, Finset.card_range, nsmul_eq_mul]
  unfold mean
  by_cases h : (b.length : Rat) = 0
  · have : b.length = 0 := by exact_mod_cast h
    have hb : b = [] := List.eq_nil_of_length_eq_zero this
    subst hb; simp
  · field_simp
    ring

/-- `Σ (a_i − ā)(b_i − b̄) = Σ a_i (b_i − b̄)` : only the *second* argument needs to be centred,
    and it must be centred by its own mean -/
theorem covNum_eq (a b : List Rat) (h : a.length = b.length) :
    covNum a b = ∑ i ∈ range b.length, a.getD i 0 * (b.getD i 0 - mean b) := by
  unfold covNum
  rw [list_sum_eq]
  have hl : (List.zipWith (fun x y => (x - mean a) * (y - mean b)) a b).length = b.length := by
    simp [h]
  rw [hl]
  have e : ∀ i ∈ range b.length,
      (List.zipWith (fun x y => (x - mean a) * (y - mean b)) a b).getD i 0
        = a.getD i 0 * (b.getD i 0 - mean b) - mean a * (b.getD i 0 - mean b) := by
    intro i hi
    have hi' : i < b.length := Finset.mem_range.mp hi
    rw [getD_zipWith _ _ _ _ (h ▸ hi') hi']
    ring
  rw [Finset.sum_congr rfl e, Finset.sum_sub_distrib, ← Finset.mul_sum, sum_sub_mean]
  ring

theorem mean_colOf (S : Mat) (k : Nat) : mean (colOf S k) = colMean S k := by
  unfold mean colMean
  rw [list_sum_eq, sumTo_eq, length_colOf]
  congr 1
  apply Finset.sum_congr rfl
  intro i hi
  exact getD_colOf S k i (Finset.mem_range.mp hi)

/-- For ANY matrix `R` with as many rows as `S`: the covariance numerator of column `j` of `R`
    with column `k` of `S` is entry `(k,j)` of `(S − colMeans S)ᵀ · R`.  This is where centring
    column `k` by ITS OWN mean is used. -/
theorem covNum_col_eq_normalResid (S R : Mat) (ms k j : Nat) (hk : k < ms)
    (hS : ∀ i, i < S.length → (S.getD i []).length = ms) (hR : R.length = S.length) :
    covNum (colOf R j) (colOf S k) = normalResid (center S (colMeans S ms)) R k j := by
  rw [covNum_eq _ _ (by simp [length_colOf, hR]), length_colOf]
  unfold normalResid
  rw [sumTo_eq]
  have hc : (center S (colMeans S ms)).length = S.length := by simp [center]
  rw [hc]
  apply Finset.sum_congr rfl
  intro i hi
  have hi' : i < S.length := Finset.mem_range.mp hi
  rw [ent_center S _ i k hi' (by rw [hS i hi']; exact hk) (by rw [colMeans, length_vec]; exact hk)]
  rw [getD_colOf R j i (hR ▸ hi'), getD_colOf S k i hi', mean_colOf]
  unfold colMeans
  rw [getD_vec _ hk]
  ring

/-- the covariance numerator is linear in its first argument -/
theorem covNum_blend (a r z b : List Rat) (α : Rat) (ha : a.length = b.length)
    (hr : r.length = b.length) (hz : z.length = b.length)
    (h : ∀ i, i < b.length → a.getD i 0 = α * r.getD i 0 + (1 - α) * z.getD i 0) :
    covNum a b = α * covNum r b + (1 - α) * covNum z b := by
  rw [covNum_eq a b ha, covNum_eq r b hr, covNum_eq z b hz, Finset.mul_sum, Finset.mul_sum,
    ← Finset.sum_add_distrib]
  apply Finset.sum_congr rfl
  intro i hi
  rw [h i (Finset.mem_range.mp hi)]
  ring

/-! ### rows of `transform` -/

theorem getD_residRow (β : Mat) (sc z : List Rat) (j : Nat) (hj : j < z.length) :
    (residRow β sc z).getD j 0
      = z.getD j 0 - ∑ k ∈ range sc.length, sc.getD k 0 * ent β k j := by
  unfold residRow vsub
  rw [getD_zipWith _ _ _ _ hj (by rw [length_rowTimes]; exact hj)]
  unfold rowTimes
  rw [getD_vec _ hj, sumTo_eq]

theorem getD_blend (α : Rat) (f u : List Rat) (j : Nat) (hf : j < f.length) (hu : j < u.length) :
    (blend α f u).getD j 0 = α * f.getD j 0 + (1 - α) * u.getD j 0 := by
  unfold blend
  rw [getD_zipWith _ _ _ _ hf hu]

theorem blend_one (f u : List Rat) (h : f.length = u.length) : blend 1 f u = f := by
  apply ext_getD
  · simp [length_blend, h]
  · intro i hi
    rw [length_blend, h, Nat.min_self] at hi
    rw [getD_blend _ _ _ _ (h ▸ hi) hi]; ring

theorem blend_zero (f u : List Rat) (h : f.length = u.length) : blend 0 f u = u := by
  apply ext_getD
  · simp [length_blend, h]
  · intro i hi
    rw [length_blend, h, Nat.min_self] at hi
    rw [getD_blend _ _ _ _ (h ▸ hi) hi]; ring

theorem isLstsq_iff (Sc Z β : Mat) (ms mz : Nat) :
    isLstsq Sc Z β ms mz = true ↔
      ∀ k, k < ms → ∀ j, j < mz → normalResid Sc (residual Sc Z β) k j = 0 := by
  simp [isLstsq, List.all_eq_true]

/-- entries of the centred sensitive block and of the kept block, in terms of the rows of `X` -/
theorem ent_blocks (ids : List Nat) (m : Nat) (mean : List Rat) (X : Mat) (i : Nat) (hi : i < X.length)
    (hm : mean.length = ids.length) :
    (∀ k, k < ids.length →
      ent (center (sens ids X) mean) i k = (X.getD i []).getD (ids.getD k 0) 0 - mean.getD k 0)
    ∧ (∀ j, j < (nonSensIdx ids m).length →
      ent (nonSens ids m X) i j = (X.getD i []).getD ((nonSensIdx ids m).getD j 0) 0) := by
  constructor
  · intro k hk
    rw [ent_center _ _ _ _ (by rw [length_sens]; exact hi)
      (by rw [length_sens_row ids X i hi]; exact hk) (by rw [hm]; exact hk)]
    unfold sens
    rw [ent_map _ _ _ _ hi, getD_pick _ _ _ hk]
  · intro j hj
    unfold nonSens
    rw [ent_map _ _ _ _ hi, getD_pick _ _ _ hj]

/-- affine combination of two rows -/
def lerp (t : Rat) (x y : List Rat) : List Rat := List.zipWith (fun a b => t * a + (1 - t) * b) x y

theorem getD_lerp (t : Rat) (x y : List Rat) (h : x.length = y.length) (c : Nat) :
    (lerp t x y).getD c 0 = t * x.getD c 0 + (1 - t) * y.getD c 0 := by
  by_cases hc : c < x.length
  · unfold lerp; rw [getD_zipWith _ _ _ _ hc (h ▸ hc)]
  · have hc' : ¬ c < y.length := h ▸ hc
    have hl : ¬ c < (lerp t x y).length := by simp [lerp, h]; omega
    simp [List.getD_eq_getElem?_getD, hc, hc', hl]

end CorrRemover
