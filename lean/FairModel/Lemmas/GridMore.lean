/-
Further lemmas about `Model/Grid.lean` (C09): the `while True` loop started from an arbitrary estimate,
the order of the lattice enumeration, the zero vector, the grid offset, the running arg-min.
-/
import FairModel.Lemmas.Grid

namespace Grid

/-! ### the search loop started at `n0` -/

theorem lattice_length_mono (b : Bool) (bs : List Bool) (f : Bool) (h : ¬(bs = [] ∧ f = true)) :
    ∀ (n k : Nat), (lattice (b :: bs) f n).length ≤ (lattice (b :: bs) f (n + k)).length
  | n, 0 => le_refl _
  | n, k + 1 => by
    have := lattice_length_mono b bs f h n k
    have := lattice_length_lt b bs f (n + k) h
    rw [← Nat.add_assoc]; omega

theorem lattice_length_mono' (b : Bool) (bs : List Bool) (f : Bool) (h : ¬(bs = [] ∧ f = true))
    {n n' : Nat} (hn : n ≤ n') : (lattice (b :: bs) f n).length ≤ (lattice (b :: bs) f n').length := by
  obtain ⟨k, rfl⟩ := Nat.exists_eq_add_of_le hn
  exact lattice_length_mono b bs f h n k

/-- The loop started at `n0` stops at `max n0 (least sufficient radius)`. -/
theorem searchFrom_spec (b : Bool) (bs : List Bool) (f : Bool) (gs nl : Nat)
    (h : ¬(bs = [] ∧ f = true)) (hge : gs ≤ (lattice (b :: bs) f nl).length)
    (hlt : ∀ k < nl, (lattice (b :: bs) f k).length < gs) :
    ∀ (fuel n0 : Nat), nl - n0 + 1 ≤ fuel →
      searchFrom (b :: bs) f gs fuel (n0 : Nat) = some ((max n0 nl : Nat) : Int)
  | 0, n0, hf => by omega
  | fuel + 1, n0, hf => by
    rw [searchFrom]
    simp only [Int.toNat_natCast, srcLattice_eq, enough_def, decide_eq_true_eq]
    by_cases he : gs ≤ (lattice (b :: bs) f n0).length
    · have : nl ≤ n0 := by
        by_contra hc
        have := hlt n0 (by omega); omega
      simp [he, Nat.max_eq_left this]
    · have hn : n0 < nl := by
        by_contra hc
        have := lattice_length_mono' b bs f h (show nl ≤ n0 by omega); omega
      simp only [he, if_false]
      rw [nextUnits_def, searchFrom_spec b bs f gs nl h hge hlt fuel (n0 + 1) (by omega)]
      congr 2; omega

/-- "the estimate does not overshoot" (the lifted predicate, evaluated by the driver on the float estimate
    of every generated case) implies `n0 ≤` the least sufficient radius. -/
theorem noOvershoot_le_least (na : List Bool) (f : Bool) (gs n0 nl : Nat) (hd : 1 ≤ trueDim na f)
    (hno : GridSrc.noOvershoot gs (negCount na) (trueDim na f) n0 = true)
    (hge : gs ≤ (lattice na f nl).length) : n0 ≤ nl := by
  simp only [GridSrc.noOvershoot, Bool.or_eq_true, decide_eq_true_eq] at hno
  rcases hno with h0 | hle
  · omega
  · by_contra hc
    have hnl : nl + 1 ≤ n0 := by omega
    have h1 := lattice_length_le_cube na f nl
    have h2 : (nl + 1) ^ trueDim na f < (n0 + 1) ^ trueDim na f :=
      Nat.pow_lt_pow_left (by omega) (by omega)
    have h3 : 2 ^ negCount na * (nl + 1) ^ trueDim na f < 2 ^ negCount na * (n0 + 1) ^ trueDim na f :=
      Nat.mul_lt_mul_of_pos_left h2 (Nat.pow_pos (by omega))
    simp only [GridSrc.estBase, GridSrc.estSub] at hle
    omega

/-! ### the grid built at an arbitrary radius -/

/-- the multiplier vectors built from the first `gs` lattice points of radius `n` -/
def gridAt (na : List Bool) (f : Bool) (gs : Nat) (limit : Rat) (rows : List (List Rat × List Rat))
    (n : Nat) : List (List Rat) :=
  ((lattice na f n).take gs).map (fun v => lambdaOf rows (scaleCoefs limit n v))

theorem gridAt_nonneg (na : List Bool) (f : Bool) (gs : Nat) (limit : Rat)
    (rows : List (List Rat × List Rat)) (n : Nat) (hb : basisOK na.length rows = true) :
    ∀ lam ∈ gridAt na f gs limit rows n, ∀ x ∈ lam, 0 ≤ x := by
  intro lam hl
  obtain ⟨v, _, rfl⟩ := List.mem_map.mp hl
  exact lambdaOf_nonneg rows _
    (fun r hr => ⟨((basisOK_spec hb).1 r hr).2.2.1, ((basisOK_spec hb).1 r hr).2.2.2⟩)

theorem gridAt_l1 (na : List Bool) (f : Bool) (gs : Nat) (limit : Rat) (hlim : 0 ≤ limit)
    (rows : List (List Rat × List Rat)) (n : Nat) (hn : 1 ≤ n) (hb : basisOK na.length rows = true) :
    ∀ lam ∈ gridAt na f gs limit rows n, (lam.map (fun x => |x|)).sum ≤ limit := by
  intro lam hl
  have hnn := gridAt_nonneg na f gs limit rows n hb lam hl
  obtain ⟨v, hv, rfl⟩ := List.mem_map.mp hl
  have hv := (mem_lattice na f n v).mp (List.mem_of_mem_take hv)
  have habs : (lambdaOf rows (scaleCoefs limit n v)).map (fun x => |x|) = lambdaOf rows (scaleCoefs limit n v) := by
    conv_rhs => rw [← List.map_id (lambdaOf rows (scaleCoefs limit n v))]
    apply List.map_congr_left
    intro x hx; simp [abs_of_nonneg (hnn x hx)]
  rw [habs]
  have hl1 : l1 v ≤ n := by have := hv.2; split at this <;> omega
  have hnpos : (0 : Rat) < n := by exact_mod_cast hn
  have hs : 0 ≤ limit / (n : Rat) := div_nonneg hlim (le_of_lt hnpos)
  have h1 := lambdaOf_sum_le hb (scaleCoefs limit n v) (by simp [scaleCoefs_def, hv.1.length_eq])
  rw [scale_parts_sum (limit / n) hs n limit rfl v] at h1
  have h2 : (l1 v : Rat) ≤ n := by exact_mod_cast hl1
  calc (lambdaOf rows (scaleCoefs limit n v)).sum ≤ (l1 v : Rat) * (limit / n) := h1
    _ ≤ (n : Rat) * (limit / n) := mul_le_mul_of_nonneg_right h2 hs
    _ = limit := by field_simp

theorem gridAt_nodup (na : List Bool) (f : Bool) (gs : Nat) (limit : Rat) (hlim : 0 < limit)
    (rows : List (List Rat × List Rat)) (n : Nat) (hn : 1 ≤ n) (hu : unitBasis na rows = true) :
    (gridAt na f gs limit rows n).Nodup := by
  have hs : (0 : Rat) < limit / (n : Rat) := div_pos hlim (by exact_mod_cast hn)
  refine List.Nodup.map_on ?_ ((List.take_sublist _ _).nodup (lattice_nodup na f n))
  intro v hv v' hv' heq
  have h1 := (mem_lattice na f n v).mp (List.mem_of_mem_take hv)
  have h2 := (mem_lattice na f n v').mp (List.mem_of_mem_take hv')
  exact lambdaOf_inj hu limit n hs v v' h1.1 h2.1 heq

theorem gridFrom_def (na : List Bool) (f : Bool) (gs : Nat) (limit : Rat)
    (rows : List (List Rat × List Rat)) (n0 : Nat) :
    gridFrom na f gs limit rows n0 =
      match searchFrom na f gs (gs + 2) (n0 : Nat) with
      | none => .error .noUnits
      | some n => if n ≤ 0 then .error .zeroDiv else .ok (n.toNat, gridAt na f gs limit rows n.toNat) := by
  unfold gridFrom gridAt
  split <;> simp_all [srcLattice_eq, truncate_def]

/-! ### order of the enumeration -/

/-- strict lexicographic order on integer vectors -/
abbrev LexLt : List Int → List Int → Prop := List.Lex (· < ·)

theorem negVals_sorted (m : Nat) : (negVals m).Pairwise (· < ·) := by
  unfold negVals
  rw [List.pairwise_map, List.pairwise_reverse]
  refine List.Pairwise.imp ?_ (List.pairwise_lt_range (n := m))
  intro a b h; omega

theorem nonnegVals_sorted (m : Nat) : (nonnegVals m).Pairwise (· < ·) := by
  unfold nonnegVals
  rw [List.pairwise_map]
  refine List.Pairwise.imp ?_ (List.pairwise_lt_range (n := m + 1))
  intro a b h; omega

theorem values_sorted (neg last : Bool) (m : Nat) : (values neg last m).Pairwise (· < ·) := by
  unfold values
  split
  · split
    · next h => simp at h; simp; omega
    · simp
  · split
    · rw [List.pairwise_append]
      refine ⟨negVals_sorted m, nonnegVals_sorted m, ?_⟩
      intro a ha b hb
      rw [mem_negVals] at ha; rw [mem_nonnegVals] at hb; omega
    · exact nonnegVals_sorted m

/-- The lattice is enumerated in strictly increasing lexicographic order. -/
theorem lattice_sorted : ∀ (bs : List Bool) (f : Bool) (m : Nat), (lattice bs f m).Pairwise LexLt
  | [], f, m => by simp [lattice]
  | b :: bs, f, m => by
    simp only [lattice]
    rw [List.pairwise_flatMap]
    constructor
    · intro a _
      rw [List.pairwise_map]
      exact List.Pairwise.imp (fun h => List.Lex.cons h) (lattice_sorted bs f _)
    · refine List.Pairwise.imp ?_ (values_sorted b _ m)
      intro a a' hlt x hx y hy
      obtain ⟨u, _, rfl⟩ := List.mem_map.mp hx
      obtain ⟨u', _, rfl⟩ := List.mem_map.mp hy
      exact List.Lex.rel hlt

/-- Truncation keeps a PREFIX: every kept point precedes every dropped point. -/
theorem take_lt_drop {α : Type} (R : α → α → Prop) (l : List α) (h : l.Pairwise R) (k : Nat) :
    ∀ v ∈ l.take k, ∀ w ∈ l.drop k, R v w := by
  have := List.take_append_drop k l
  rw [← this, List.pairwise_append] at h
  exact h.2.2

/-! ### the zero vector -/

theorem signOK_zero : ∀ (bs : List Bool), SignOK bs (List.replicate bs.length 0)
  | [] => by simp [SignOK]
  | _ :: bs => by simp [List.replicate_succ, SignOK, signOK_zero bs]

theorem l1_zero (d : Nat) : l1 (List.replicate d 0) = 0 := by
  induction d with
  | zero => rfl
  | succ d ih => simp [List.replicate_succ, ih]

theorem posPart_zero : posPart 0 = 0 := by rw [posPart_def]; simp
theorem negPart_zero : negPart 0 = 0 := by rw [negPart_def]; simp

theorem dot_zeros_right (a : List Rat) (d : Nat) : dot a (List.replicate d 0) = 0 := by
  induction a generalizing d with
  | nil => simp
  | cons x a ih =>
    cases d with
    | zero => simp
    | succ d => simp [List.replicate_succ, ih]

theorem lambdaOf_zero (rows : List (List Rat × List Rat)) (limit : Rat) (n d : Nat) :
    lambdaOf rows (scaleCoefs limit n (List.replicate d 0)) = List.replicate rows.length 0 := by
  have hz : scaleCoefs limit n (List.replicate d 0) = List.replicate d 0 := by
    simp [scaleCoefs_def]
  rw [hz]
  simp only [lambdaOf, List.map_replicate, posPart_zero, negPart_zero, dot_zeros_right, add_zero]
  exact List.eq_replicate_iff.mpr ⟨by simp, by intro x hx; obtain ⟨_, _, rfl⟩ := List.mem_map.mp hx; rfl⟩

/-! ### the offset -/

theorem zipWith_add_inj : ∀ (a b off : List Rat), a.length = off.length → b.length = off.length →
    List.zipWith GridSrc.withOffset a off = List.zipWith GridSrc.withOffset b off → a = b
  | [], [], _, _, _, _ => rfl
  | [], _ :: _, off, h1, h2, _ => by simp at h1; simp [← h1] at h2
  | _ :: _, [], off, h1, h2, _ => by simp at h2; simp [← h2] at h1
  | x :: a, y :: b, [], h1, _, _ => by simp at h1
  | x :: a, y :: b, o :: off, h1, h2, h => by
    simp only [List.zipWith_cons_cons, List.cons.injEq, GridSrc.withOffset] at h
    have := zipWith_add_inj a b off (by simpa using h1) (by simpa using h2) h.2
    have hx : x = y := by linarith [h.1]
    rw [hx, this]

theorem addOffset_nodup (off : List Rat) (g : List (List Rat)) (hl : ∀ lam ∈ g, lam.length = off.length)
    (hg : g.Nodup) : (addOffset off g).Nodup := by
  unfold addOffset
  refine List.Nodup.map_on ?_ hg
  intro a ha b hb h
  exact zipWith_add_inj a b off (hl a ha) (hl b hb) h

theorem lambdaOf_length (rows : List (List Rat × List Rat)) (c : List Rat) :
    (lambdaOf rows c).length = rows.length := by simp [lambdaOf]

/-! ### running arg-min -/

theorem runningArgmin_fold : ∀ (xs : List Rat) (b : Rat) (bi pos : Nat),
    (xs.foldl (fun (st : Rat × Nat × Nat) y =>
      if y < st.1 then (y, st.2.2, st.2.2 + 1) else (st.1, st.2.1, st.2.2 + 1)) (b, bi, pos)).2.1
      = if minL b xs < b then pos + xs.idxOf (minL b xs) else bi
  | [], b, bi, pos => by simp [minL]
  | y :: ys, b, bi, pos => by
    simp only [List.foldl_cons, minL]
    by_cases hy : y < b
    · simp only [hy, if_true]
      rw [runningArgmin_fold ys y pos (pos + 1)]
      have hm := minL_le_init y ys
      have hmb : minL y ys < b := lt_of_le_of_lt hm hy
      simp only [hmb, if_true]
      by_cases hlt : minL y ys < y
      · simp only [hlt, if_true]
        have hne : y ≠ minL y ys := ne_of_gt hlt
        rw [List.idxOf_cons_ne _ hne]; omega
      · have he : minL y ys = y := le_antisymm hm (not_lt.mp hlt)
        simp [he]
    · simp only [hy, if_false]
      rw [runningArgmin_fold ys b bi (pos + 1)]
      by_cases hlt : minL b ys < b
      · simp only [hlt, if_true]
        have hne : y ≠ minL b ys := by
          intro he; rw [← he] at hlt; exact hy hlt
        rw [List.idxOf_cons_ne _ hne]; omega
      · simp only [hlt, if_false]

theorem runningArgmin_eq_argminFirst (l : List Rat) : runningArgmin l = argminFirst l := by
  cases l with
  | nil => rfl
  | cons x xs =>
    rw [argminFirst_cons, runningArgmin, runningArgmin_fold]
    congr 1
    have hm := minL_le_init x xs
    by_cases hlt : minL x xs < x
    · simp only [hlt, if_true]
      rw [List.idxOf_cons_ne _ (ne_of_gt hlt)]; omega
    · have he : minL x xs = x := le_antisymm hm (not_lt.mp hlt)
      simp [he]

theorem allSomeR_spec : ∀ (l : List (Option Rat)) (r : List Rat), allSomeR l = some r →
    l = r.map some
  | [], r, h => by simp [allSomeR] at h; simp [← h]
  | none :: _, r, h => by simp [allSomeR] at h
  | some a :: l, r, h => by
    simp only [allSomeR, Option.map_eq_some_iff] at h
    obtain ⟨r', hr', rfl⟩ := h
    simp [allSomeR_spec l r' hr']

theorem mem_take_iff_idxOf_lt {α : Type} [DecidableEq α] : ∀ (l : List α) (a : α) (k : Nat), a ∈ l →
    (a ∈ l.take k ↔ l.idxOf a < k)
  | [], a, k, h => by simp at h
  | b :: l, a, 0, _ => by simp
  | b :: l, a, k + 1, h => by
    by_cases hba : b = a
    · subst hba; simp
    · have hal : a ∈ l := by
        rcases List.mem_cons.mp h with h | h
        · exact absurd h.symm hba
        · exact h
      rw [List.take_succ_cons, List.mem_cons, List.idxOf_cons_ne _ hba, mem_take_iff_idxOf_lt l a k hal]
      constructor
      · rintro (h | h)
        · exact absurd h.symm hba
        · omega
      · intro h; right; omega

/-! ### exact L1 norm on a unit basis -/

theorem getD_vadd (a b : List Rat) (j : Nat) (ha : j < a.length) (hb : j < b.length) :
    (vadd a b).getD j 0 = a.getD j 0 + b.getD j 0 := by
  simp [vadd, List.getD_eq_getElem?_getD, ha, hb]

theorem getD_zeroVec (d j : Nat) : (zeroVec d).getD j 0 = 0 := by
  simp [zeroVec, List.getD_eq_getElem?_getD, List.getElem?_replicate]
  split <;> rfl

/-- a column sum of rows with non-negative entries is at least each row's entry -/
theorem colSums_ge_entry (d j : Nat) (hj : j < d) : ∀ (rows : List (List Rat)),
    (∀ r ∈ rows, r.length = d) → (∀ r ∈ rows, ∀ x ∈ r, 0 ≤ x) →
    (0 ≤ (colSums d rows).getD j 0) ∧ ∀ r ∈ rows, r.getD j 0 ≤ (colSums d rows).getD j 0
  | [], _, _ => by
    refine ⟨?_, by simp⟩
    have := getD_zeroVec d j
    simp only [colSums, List.foldr_nil]
    rw [this]
  | r :: rows, hl, hn => by
    have ih := colSums_ge_entry d j hj rows (fun x hx => hl x (by simp [hx])) (fun x hx => hn x (by simp [hx]))
    have hlen := colSums_length d rows (fun x hx => hl x (by simp [hx]))
    have hr : r.length = d := hl r (by simp)
    have e : (colSums d (r :: rows)).getD j 0 = r.getD j 0 + (colSums d rows).getD j 0 := by
      simp only [colSums, List.foldr_cons]
      simp only [colSums] at hlen
      exact getD_vadd _ _ j (by omega) (by omega)
    have hrj : 0 ≤ r.getD j 0 := by
      rw [List.getD_eq_getElem?_getD, List.getElem?_eq_getElem (by omega)]
      exact hn r (by simp) _ (List.getElem_mem _)
    rw [e]
    refine ⟨by linarith [ih.1], ?_⟩
    intro x hx
    rcases List.mem_cons.mp hx with rfl | hx
    · linarith [ih.1]
    · linarith [ih.2 x hx]

theorem getD_unitVec_self (d j : Nat) (hj : j < d) : (unitVec d j).getD j 0 = 1 := by
  simp [unitVec, List.getD_eq_getElem?_getD, hj]

/-- `dot c P = P.sum` when every coefficient is 1 wherever `P` is non-zero -/
theorem dot_eq_sum : ∀ (c P : List Rat), c.length = P.length →
    (∀ j (h : j < P.length), c.getD j 0 = 1 ∨ P[j] = 0) → dot c P = P.sum
  | [], [], _, _ => by simp
  | [], _ :: _, h, _ => by simp at h
  | _ :: _, [], h, _ => by simp at h
  | x :: c, y :: P, hl, h => by
    rw [dot_cons, List.sum_cons]
    have ih := dot_eq_sum c P (by simpa using hl) (fun j hj => by
      have := h (j + 1) (by simp; omega)
      simpa using this)
    rw [ih]
    have h0 := h 0 (by simp)
    simp at h0
    rcases h0 with h0 | h0 <;> simp [h0]

theorem lambdaOf_sum_dots {d : Nat} {rows : List (List Rat × List Rat)} (hb : basisOK d rows = true)
    (coefs : List Rat) (hc : coefs.length = d) :
    (lambdaOf rows coefs).sum =
      dot (colSums d (rows.map (·.1))) (coefs.map posPart) + dot (colSums d (rows.map (·.2))) (coefs.map negPart) := by
  obtain ⟨hr, _, _⟩ := basisOK_spec hb
  have e : (lambdaOf rows coefs).sum =
      ((rows.map (·.1)).map (fun r => dot r (coefs.map posPart))).sum +
      ((rows.map (·.2)).map (fun r => dot r (coefs.map negPart))).sum := by
    simp only [lambdaOf, List.map_map]
    rw [← List.sum_map_add]; rfl
  rw [e, sum_dot_rows d _ (by simpa using hc), sum_dot_rows d _ (by simpa using hc)]
  · intro r hr'; obtain ⟨r0, hr0, rfl⟩ := List.mem_map.mp hr'; exact (hr r0 hr0).2.1
  · intro r hr'; obtain ⟨r0, hr0, rfl⟩ := List.mem_map.mp hr'; exact (hr r0 hr0).1

/-- With a unit basis whose columns sum to at most 1 the L1 norm of the multiplier vector is EXACTLY the
    scaled L1 norm of the lattice point. -/
theorem lambdaOf_sum_eq {na : List Bool} {rows : List (List Rat × List Rat)}
    (hu : unitBasis na rows = true) (hb : basisOK na.length rows = true)
    (s : Rat) (hs : 0 < s) (n : Nat) (limit : Rat) (hsn : limit / (n : Rat) = s)
    (v : List Int) (hv : SignOK na v) :
    (lambdaOf rows (scaleCoefs limit n v)).sum = (l1 v : Rat) * s := by
  have hvl := hv.length_eq
  have hcl : (scaleCoefs limit n v).length = na.length := by simp [scaleCoefs_def, hvl]
  obtain ⟨hr, hp1, hn1⟩ := basisOK_spec hb
  rw [lambdaOf_sum_dots hb _ hcl]
  have hlenP : ∀ (sel : List Rat × List Rat → List Rat), (∀ r ∈ rows, (sel r).length = na.length) →
      (colSums na.length (rows.map sel)).length = na.length := by
    intro sel h
    exact colSums_length _ _ (by intro r hr'; obtain ⟨r0, hr0, rfl⟩ := List.mem_map.mp hr'; exact h r0 hr0)
  have hone : ∀ (sel : List Rat × List Rat → List Rat) (j : Nat), j < na.length →
      (∀ r ∈ rows, (sel r).length = na.length) → (∀ r ∈ rows, ∀ x ∈ sel r, 0 ≤ x) →
      (∀ x ∈ colSums na.length (rows.map sel), x ≤ 1) →
      (∃ r ∈ rows, sel r = unitVec na.length j) → (colSums na.length (rows.map sel)).getD j 0 = 1 := by
    intro sel j hj hl hnn hle ⟨r, hr', hru⟩
    have hge := (colSums_ge_entry na.length j hj (rows.map sel)
      (by intro x hx; obtain ⟨r0, hr0, rfl⟩ := List.mem_map.mp hx; exact hl r0 hr0)
      (by intro x hx; obtain ⟨r0, hr0, rfl⟩ := List.mem_map.mp hx; exact hnn r0 hr0)).2 (sel r)
      (List.mem_map.mpr ⟨r, hr', rfl⟩)
    rw [hru, getD_unitVec_self _ _ hj] at hge
    have hlen := hlenP sel hl
    have hmem : (colSums na.length (rows.map sel)).getD j 0 ∈ colSums na.length (rows.map sel) := by
      rw [List.getD_eq_getElem?_getD, List.getElem?_eq_getElem (by omega)]
      exact List.getElem_mem _
    exact le_antisymm (hle _ hmem) hge
  have e1 : dot (colSums na.length (rows.map (·.1))) ((scaleCoefs limit n v).map posPart) =
      ((scaleCoefs limit n v).map posPart).sum := by
    apply dot_eq_sum
    · rw [hlenP (·.1) (fun r hr' => (hr r hr').1)]; simp [hcl]
    · intro j hj
      left
      have hjd : j < na.length := by simpa [hcl] using hj
      exact hone (·.1) j hjd (fun r hr' => (hr r hr').1) (fun r hr' => (hr r hr').2.2.1) hp1
        (by obtain ⟨⟨r, hr', h1, _⟩, _⟩ := unitBasis_spec hu j hjd; exact ⟨r, hr', h1⟩)
  have e2 : dot (colSums na.length (rows.map (·.2))) ((scaleCoefs limit n v).map negPart) =
      ((scaleCoefs limit n v).map negPart).sum := by
    apply dot_eq_sum
    · rw [hlenP (·.2) (fun r hr' => (hr r hr').2.1)]; simp [hcl]
    · intro j hj
      have hjd : j < na.length := by simpa [hcl] using hj
      cases hbj : na.getD j false with
      | true =>
        left
        exact hone (·.2) j hjd (fun r hr' => (hr r hr').2.1) (fun r hr' => (hr r hr').2.2.2) hn1
          (by obtain ⟨_, hneg⟩ := unitBasis_spec hu j hjd
              obtain ⟨r, hr', h2, _⟩ := hneg hbj; exact ⟨r, hr', h2⟩)
      | false =>
        right
        have hjv : j < v.length := by omega
        have h0 := hv.nonneg_of j hjv hbj
        have := negPart_of_nonneg s hs _ h0
        subst hsn
        simpa [scaleCoefs_def] using this
  rw [e1, e2]
  exact scale_parts_sum s (le_of_lt hs) n limit hsn v

/-! ### the estimator trained at one grid point -/

theorem eraseDups_length_one {l : List Nat} (h : l.eraseDups.length = 1) : ∀ x ∈ l, x = l.headD 0 := by
  cases l with
  | nil => simp at h
  | cons a as =>
    rw [List.eraseDups_cons] at h
    simp only [List.length_cons, Nat.add_eq_right, List.length_eq_zero_iff] at h
    have hf : as.filter (fun b => !b == a) = [] := by
      cases hfl : as.filter (fun b => !b == a) with
      | nil => rfl
      | cons b bs => rw [hfl, List.eraseDups_cons] at h; simp at h
    intro x hx
    simp only [List.headD_cons]
    rcases List.mem_cons.mp hx with rfl | hx
    · rfl
    · by_contra hne
      have : x ∈ as.filter (fun b => !b == a) := by
        simp [List.mem_filter, hx, hne]
      rw [hf] at this; simp at this

theorem weighted01_nonneg : ∀ (data : List (Nat × Rat)) (h : List Nat), (∀ p ∈ data, 0 ≤ p.2) →
    0 ≤ weighted01 data h
  | [], _, _ => by simp [weighted01]
  | _ :: _, [], _ => by simp [weighted01]
  | (y, w) :: data, a :: h, hw => by
    simp only [weighted01]
    have := weighted01_nonneg data h (fun p hp => hw p (by simp [hp]))
    have hw0 : 0 ≤ w := hw (y, w) (by simp)
    split <;> linarith

theorem weighted01_const (c : Nat) : ∀ (data : List (Nat × Rat)), (∀ p ∈ data, p.1 = c) →
    weighted01 data (data.map (fun _ => c)) = 0
  | [], _ => by simp [weighted01]
  | (y, w) :: data, hc => by
    have hy : y = c := hc (y, w) (by simp)
    simp only [List.map_cons, weighted01, hy, if_true, zero_add]
    exact weighted01_const c data (fun p hp => hc p (by simp [hp]))

theorem relabel_weights_nonneg (w : List Rat) : ∀ p ∈ relabel w, 0 ≤ p.2 := by
  intro p hp
  rw [relabel_def] at hp
  obtain ⟨x, _, rfl⟩ := List.mem_map.mp hp
  simp only
  split <;> linarith

/-- The estimator trained at a grid point (constant DummyClassifier on single-label data, else an exact
    cost-sensitive learner over the class `H`) minimises the weighted 0/1 error over `H`. -/
theorem trainAt_minimises (learner : List (Nat × Rat) → List Nat) (H : List Nat → Prop) (w : List Rat)
    (hex : ∀ h' , H h' → weighted01 (relabel w) (learner (relabel w)) ≤ weighted01 (relabel w) h') :
    ∀ h', H h' → weighted01 (relabel w) (trainAt learner (relabel w)) ≤ weighted01 (relabel w) h' := by
  intro h' hh'
  unfold trainAt
  split
  · next hd =>
    simp only [GridSrc.useDummy, nUnique] at hd
    have hone : ((relabel w).map (·.1)).eraseDups.length = 1 := by
      have := of_decide_eq_true hd
      exact_mod_cast this
    have hall := eraseDups_length_one hone
    rw [weighted01_const _ (relabel w) (fun p hp => hall p.1 (List.mem_map.mpr ⟨p, hp, rfl⟩))]
    exact weighted01_nonneg _ _ (relabel_weights_nonneg w)
  · exact hex h' hh'

theorem relabel_length (w : List Rat) : (relabel w).length = w.length := by simp [relabel_def]

theorem relabel_labels_binary (w : List Rat) : ∀ p ∈ relabel w, p.1 = 0 ∨ p.1 = 1 := by
  intro p hp
  rw [relabel_def] at hp
  obtain ⟨x, _, rfl⟩ := List.mem_map.mp hp
  simp only
  split <;> simp

/-- shape of the trained labeling: one 0/1 label per row (given that the base learner returns such labelings) -/
theorem trainAt_shape (learner : List (Nat × Rat) → List Nat) (w : List Rat)
    (hs : (learner (relabel w)).length = w.length ∧ ∀ x ∈ learner (relabel w), x = 0 ∨ x = 1) :
    (trainAt learner (relabel w)).length = w.length ∧ ∀ x ∈ trainAt learner (relabel w), x = 0 ∨ x = 1 := by
  unfold trainAt
  split
  · refine ⟨by simp [relabel_length], ?_⟩
    intro x hx
    obtain ⟨_, _, rfl⟩ := List.mem_map.mp hx
    cases hl : (relabel w).map (·.1) with
    | nil => simp
    | cons a as =>
      simp only [List.headD_cons]
      have : a ∈ (relabel w).map (·.1) := by rw [hl]; simp
      obtain ⟨p, hp, rfl⟩ := List.mem_map.mp this
      exact relabel_labels_binary w p hp
  · exact hs

end Grid
