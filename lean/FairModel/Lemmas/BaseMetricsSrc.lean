/-
The generated translation of `_base_metrics.py` (`Generated/BaseMetricsSrc.lean`) equals the
hand-written model (`Model/BaseMetrics.lean`): `*_eq_model`.  These proofs are re-checked against the
regenerated file on every run; a source edit that changes what the functions compute breaks them.
All statements are over the COLUMNS of an arbitrary row list, so they need no length hypotheses.
-/
import FairModel.Lemmas.BaseMetrics
import FairModel.Model.BaseMetricsSrc

-- the simp sets below are deliberately generous so that the proofs survive harmless source refactors
set_option linter.unusedSimpArgs false

namespace BaseMetricsGen
open BaseMetrics NumpySk

/-! ### `Except` do-notation -/
theorem throw_eq {α ε : Type} (e : ε) : (throw e : Except ε α) = Except.error e := rfl
theorem throwOf_eq {α ε : Type} (e : ε) : (MonadExceptOf.throw e : Except ε α) = Except.error e := rfl
theorem pure_eq {α ε : Type} (a : α) : (pure a : Except ε α) = Except.ok a := rfl
theorem bind_ok {α β ε : Type} (a : α) (f : α → Except ε β) : (Except.ok a >>= f) = f a := rfl
theorem bind_err {α β ε : Type} (e : ε) (f : α → Except ε β) : (Except.error e >>= f) = Except.error e := rfl

/-! ### `_get_labels_for_confusion_matrix` -/

theorem labels_eq_model (labels : List Int) (p : Option Int) :
    BaseMetricsSrc.get_labels_for_confusion_matrix labels p =
      (labelsForCM labels p).map (fun np => [np.1, np.2]) := by
  unfold BaseMetricsSrc.get_labels_for_confusion_matrix labelsForCM
  generalize uniqueSorted labels = u
  cases p <;> rcases u with _ | ⟨a, _ | ⟨b, _ | ⟨c, t⟩⟩⟩ <;>
    simp [issuperset, Except.map, throw_eq, throwOf_eq, pure_eq, bind_ok, bind_err] <;>
    (repeat' split) <;> simp_all <;> grind
/-! ### numpy / sklearn primitives on the columns of a row list -/

def unitW (rows : List Row) : List Row := rows.map (fun r => { r with w := 1 })

theorem cmCount_rows (rows : List Row) (a b : Int) :
    cmCount (rows.map (·.yt)) (rows.map (·.yp)) (rows.map (·.w)) a b = cell rows a b := by
  induction rows with
  | nil => simp [cmCount, cell, wsum]
  | cons r rs ih =>
    simp only [cmCount, cell, wsum, List.map_cons, List.zip_cons_cons] at ih ⊢
    by_cases h : (r.yt == a && r.yp == b) = true
    · simp only [List.filter_cons, h, if_true, List.map_cons, List.sum_cons]; rw [ih]
    · simp only [List.filter_cons, h]; simpa using ih

theorem cm_true_ravel (rows : List Row) (neg pos : Int) :
    ravel (confusionMatrix (rows.map (·.yt)) (rows.map (·.yp)) (some (rows.map (·.w))) [neg, pos] .true_) =
      [tnrOf rows neg pos, fprOf rows neg pos, fnrOf rows neg pos, tprOf rows neg pos] := by
  simp [confusionMatrix, ravel, cmCount_rows, tnrOf, fprOf, fnrOf, tprOf, rowTot]

theorem vstack_rows (rows : List Row) :
    vstack [rows.map (·.yt), rows.map (·.yp)] = allLabels rows := by
  simp [vstack, allLabels]

/-- the four generated rate functions, on the columns of any row list, are the model's `rate` -/
theorem rate_eq_model (k : Kind) (rows : List Row) (p : Option Int) :
    rate k (rows.map (·.yt)) (rows.map (·.yp)) (some (rows.map (·.w))) p = BaseMetrics.rate k rows p := by
  cases k <;>
    simp only [rate, BaseMetricsSrc.true_positive_rate, BaseMetricsSrc.false_negative_rate,
      BaseMetricsSrc.false_positive_rate, BaseMetricsSrc.true_negative_rate, BaseMetrics.rate,
      vstack_rows, labels_eq_model] <;>
    cases labelsForCM (allLabels rows) p <;>
    simp [Except.map, bind_ok, bind_err, pure_eq, cm_true_ravel, rateOf]
theorem unitW_cols (rows : List Row) :
    (unitW rows).map (·.yt) = rows.map (·.yt) ∧ (unitW rows).map (·.yp) = rows.map (·.yp) ∧
    (unitW rows).map (·.w) = ones (rows.map (·.yt)).length := by
  refine ⟨?_, ?_, ?_⟩ <;> simp [unitW, ones, Function.comp_def]

theorem rate_none_eq_ones (k : Kind) (yt yp : List Int) (p : Option Int) :
    rate k yt yp none p = rate k yt yp (some (ones yt.length)) p := by
  cases k <;> rfl

/-- `sample_weight=None`: the model's `rate` on the rows with unit weights -/
theorem rate_none_eq_model (k : Kind) (rows : List Row) (p : Option Int) :
    rate k (rows.map (·.yt)) (rows.map (·.yp)) none p = BaseMetrics.rate k (unitW rows) p := by
  rw [rate_none_eq_ones, ← rate_eq_model]
  obtain ⟨h1, h2, h3⟩ := unitW_cols rows
  rw [h1, h2, h3]

theorem dot_eqInd_rows (rows : List Row) (pos : Int) :
    dot (eqInd (rows.map (·.yp)) pos) (rows.map (·.w)) = wsum (fun r => r.yp == pos) rows := by
  induction rows with
  | nil => simp [dot, eqInd, wsum]
  | cons r rs ih =>
    rw [wsum_cons]
    simp only [dot, eqInd, List.map_cons, List.zip_cons_cons, List.sum_cons] at ih ⊢
    rw [ih]
    by_cases h : r.yp = pos <;> simp [h]

theorem selection_rate_eq_model (rows : List Row) (pos : Int) :
    BaseMetricsSrc.selection_rate (rows.map (·.yt)) (rows.map (·.yp)) pos (some (rows.map (·.w))) =
      selectionRate rows pos := by
  cases rows with
  | nil => simp [BaseMetricsSrc.selection_rate, selectionRate, eqInd, throw_eq, throwOf_eq, bind_err]
  | cons r rs =>
    have h := dot_eqInd_rows (r :: rs) pos
    simp only [BaseMetricsSrc.selection_rate, selectionRate]
    simp [eqInd, throw_eq, pure_eq, bind_ok, vsum, totalW] at h ⊢
    rw [← h]

theorem selection_rate_none_eq_model (rows : List Row) (pos : Int) :
    BaseMetricsSrc.selection_rate (rows.map (·.yt)) (rows.map (·.yp)) pos none =
      selectionRate (unitW rows) pos := by
  rw [← selection_rate_eq_model]
  obtain ⟨h1, h2, h3⟩ := unitW_cols rows
  rw [h1, h2, h3]
  simp [BaseMetricsSrc.selection_rate, eqInd]

theorem dot_prows (rows : List PRow) :
    dot (rows.map (·.pred)) (rows.map (·.w)) = (rows.map (fun r => r.pred * r.w)).sum := by
  induction rows with
  | nil => simp [dot]
  | cons r rs ih =>
    simp only [dot, List.map_cons, List.zip_cons_cons, List.sum_cons] at ih ⊢
    rw [ih]

theorem mean_prediction_eq_model (yt : List Rat) (rows : List PRow) :
    BaseMetricsSrc.mean_prediction yt (rows.map (·.pred)) (some (rows.map (·.w))) =
      .ok (meanPrediction rows) := by
  simp only [BaseMetricsSrc.mean_prediction, meanPrediction, pure_eq, vsum, Option.isSome_some, if_true,
    Option.getD_some, bind_ok, dot_prows]

def unitP (rows : List PRow) : List PRow := rows.map (fun r => { r with w := 1 })

theorem mean_prediction_none_eq_model (yt : List Rat) (rows : List PRow) :
    BaseMetricsSrc.mean_prediction yt (rows.map (·.pred)) none = .ok (meanPrediction (unitP rows)) := by
  rw [← mean_prediction_eq_model yt]
  have h1 : (unitP rows).map (·.pred) = rows.map (·.pred) := by simp [unitP, Function.comp_def]
  have h2 : (unitP rows).map (·.w) = ones (rows.map (·.pred)).length := by simp [unitP, ones, Function.comp_def]
  rw [h1, h2]
  simp [BaseMetricsSrc.mean_prediction]

theorem count_eq_model (rows : List Row) :
    BaseMetricsSrc.count (rows.map (·.yt)) (rows.map (·.yp)) = .ok (BaseMetrics.count rows) := by
  simp [BaseMetricsSrc.count, BaseMetrics.count, pure_eq]

end BaseMetricsGen
