import FairModel.Lemmas.CorrRemover
import FairModel.Model.CorrLifted

namespace CorrL
open CorrRemover

/-- `g (h a b) a` zipped = zip of the zip -/
theorem zipWith_zipWith_left (g h : Rat → Rat → Rat) (l1 l2 : List Rat) :
    List.zipWith g (List.zipWith h l1 l2) l1 = List.zipWith (fun a b => g (h a b) a) l1 l2 := by
  induction l1 generalizing l2 with
  | nil => simp
  | cons a l1 ih =>
    cases l2 with
    | nil => simp
    | cons b l2 => simp [ih]

/-- the lifted `transform` of one row is the hand-written model's, provided the lifted expressions are the documented ones -/
theorem transformRowSrc_eq (p : Params) (mean x : List Rat)
    (hc : CorrRemoverSrc.transformCenter = fun s m => s - m)
    (ho : CorrRemoverSrc.outEntry = fun a u pr => a * (u - pr) + (1 - a) * u)
    (hs : sensIdx p.ids = p.ids) (hk : keptIdx p.ids p.m = nonSensIdx p.ids p.m) :
    transformRowSrc p mean x = transformRow { p with mean := mean } x := by
  unfold transformRowSrc transformRow blend residRow vsub
  simp only [hc, ho, hs, hk]
  rw [zipWith_zipWith_left]

theorem transformSrc_eq (p : Params) (X : Mat)
    (hm : CorrRemoverSrc.transformMean = .stored)
    (hc : CorrRemoverSrc.transformCenter = fun s m => s - m)
    (ho : CorrRemoverSrc.outEntry = fun a u pr => a * (u - pr) + (1 - a) * u)
    (hs : sensIdx p.ids = p.ids) (hk : keptIdx p.ids p.m = nonSensIdx p.ids p.m) :
    transformSrc p X = transform p X := by
  unfold transformSrc transform transformMean
  rw [hm]
  apply List.map_congr_left
  intro x _
  exact transformRowSrc_eq p p.mean x hc ho hs hk

theorem fitMeanSrc_eq (ids : List Nat) (X : Mat) (hkind : CorrRemoverSrc.fitMeanKind = .perColumn)
    (hs : sensIdx ids = ids) : fitMeanSrc ids X = fitMean ids X := by
  unfold fitMeanSrc fitMean sensSrc sens meanOf
  rw [hkind, hs]

theorem lstsqA_eq (ids : List Nat) (X : Mat) (hkind : CorrRemoverSrc.fitMeanKind = .perColumn)
    (hc : CorrRemoverSrc.fitCenter = fun s m => s - m) (hs : sensIdx ids = ids) :
    lstsqA ids X = center (sens ids X) (fitMean ids X) := by
  unfold lstsqA
  rw [fitMeanSrc_eq ids X hkind hs]
  unfold centerWith center sensSrc vsub
  rw [hc, hs]
  rfl

theorem lstsqAssumed_none (A Z β : Mat) (ms mz : Nat) : lstsqAssumed none A Z β ms mz = isLstsq A Z β ms mz := rfl

/-- with an explicit cut-off nothing is assumed: the hypothesis `isLstsqSrc … = true` would be vacuous -/
theorem lstsqAssumed_some (q : Rat) (A Z β : Mat) (ms mz : Nat) : lstsqAssumed (some q) A Z β ms mz = true := rfl

theorem isLstsqSrc_eq (ids : List Nat) (m : Nat) (X β : Mat) (hkind : CorrRemoverSrc.fitMeanKind = .perColumn)
    (hc : CorrRemoverSrc.fitCenter = fun s m => s - m) (hs : sensIdx ids = ids)
    (hk : keptIdx ids m = nonSensIdx ids m) (hr : CorrRemoverSrc.lstsqRcond = none) :
    isLstsqSrc ids m X β = isLstsq (center (sens ids X) (fitMean ids X)) (nonSens ids m X) β ids.length
      (nonSensIdx ids m).length := by
  unfold isLstsqSrc
  rw [hr, lstsqAssumed_none]
  rw [lstsqA_eq ids X hkind hc hs]
  unfold useSrc nonSens
  rw [hk]

/-! ### `_create_lookup`: names / positions to positions -/

open CorrRemoverSrc in
theorem dictGet_of_mem (entries : List (Nat × Nat)) (hk : (entries.map Prod.fst).Nodup) (k v : Nat)
    (hm : (k, v) ∈ entries) : dictGet entries k = v := by
  unfold dictGet
  cases hf : entries.reverse.find? (fun e => e.1 == k) with
  | none =>
    have := List.find?_eq_none.mp hf (k, v) (by simpa using hm)
    simp at this
  | some e =>
    have he := List.mem_of_find?_eq_some hf
    have hp := List.find?_some hf
    have h1 : e.1 = k := by simpa using hp
    have : e = (k, v) := List.inj_on_of_nodup_map hk (by simpa using he) hm (by simpa using h1)
    simp [this]

open CorrRemoverSrc in
theorem lookupDataFrame_eq (cols : List Nat) (hn : cols.Nodup) (i : Nat) (h : i < cols.length) :
    lookupDataFrame cols cols[i] = i := by
  unfold lookupDataFrame
  apply dictGet_of_mem
  · simpa [List.map_map, Function.comp_def] using hn
  · simp only [List.mem_map]
    exact ⟨(cols[i], i), by simp [List.mem_zipIdx_iff_getElem?, h], rfl⟩

open CorrRemoverSrc in
theorem lookupArray_eq (m i : Nat) (h : i < m) : lookupArray m i = i := by
  unfold lookupArray
  apply dictGet_of_mem
  · simp [List.map_map, Function.comp_def, List.nodup_range]
  · simp [h]

end CorrL
