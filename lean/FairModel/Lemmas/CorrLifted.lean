import FairModel.Lemmas.CorrRemover
import FairModel.Model.CorrLifted

namespace CorrL
open CorrRemover

/-- `g (h a b) a` zipped = zip of the zip -/
theorem zipWith_zipWith_left (g h : Rat → Rat → Rat) (l1 l2 : List Rat) :
    List.zipWith g (List.zipWith h l1 l2) l1 = List.zipWith (fun a b => g (h a b) a) l1 l2 := by
  induction l1 generalizing l2 with
  | nil => simp
  | cons a l1 ih =>
    cases l2 with
    | nil => simp
    | cons b l2 => simp [ih]

/-- the lifted `transform` of one row is the hand-written model's, provided the lifted expressions are the documented ones -/
theorem transformRowSrc_eq (p : Params) (mean x : List Rat)
    (hc : CorrRemoverSrc.transformCenter = fun s m => s - m)
    (ho : CorrRemoverSrc.outEntry = fun a u pr => a * (u - pr) + (1 - a) * u)
    (hs : sensIdx p.ids = p.ids) (hk : keptIdx p.ids p.m = nonSensIdx p.ids p.m) :
    transformRowSrc p mean x = transformRow { p with mean := mean } x := by
  unfold transformRowSrc transformRow blend residRow vsub
  simp only [hc, ho, hs, hk]
  rw [zipWith_zipWith_left]

theorem transformSrc_eq (p : Params) (X : Mat)
    (hm : CorrRemoverSrc.transformMean = .stored)
    (hc : CorrRemoverSrc.transformCenter = fun s m => s - m)
    (ho : CorrRemoverSrc.outEntry = fun a u pr => a * (u - pr) + (1 - a) * u)
    (hs : sensIdx p.ids = p.ids) (hk : keptIdx p.ids p.m = nonSensIdx p.ids p.m) :
    transformSrc p X = transform p X := by
  unfold transformSrc transform transformMean
  rw [hm]
  apply List.map_congr_left
  intro x _
  exact transformRowSrc_eq p p.mean x hc ho hs hk

theorem fitMeanSrc_eq (ids : List Nat) (X : Mat) (hkind : CorrRemoverSrc.fitMeanKind = .perColumn)
    (hs : sensIdx ids = ids) : fitMeanSrc ids X = fitMean ids X := by
  unfold fitMeanSrc fitMean sensSrc sens meanOf
  rw [hkind, hs]

theorem lstsqA_eq (ids : List Nat) (X : Mat) (hkind : CorrRemoverSrc.fitMeanKind = .perColumn)
    (hc : CorrRemoverSrc.fitCenter = fun s m => s - m) (hs : sensIdx ids = ids) :
    lstsqA ids X = center (sens ids X) (fitMean ids X) := by
  unfold lstsqA
  rw [fitMeanSrc_eq ids X hkind hs]
  unfold centerWith center sensSrc vsub
  rw [hc, hs]
  rfl

theorem isLstsqSrc_eq (ids : List Nat) (m : Nat) (X β : Mat) (hkind : CorrRemoverSrc.fitMeanKind = .perColumn)
    (hc : CorrRemoverSrc.fitCenter = fun s m => s - m) (hs : sensIdx ids = ids)
    (hk : keptIdx ids m = nonSensIdx ids m) :
    isLstsqSrc ids m X β = isLstsq (center (sens ids X) (fitMean ids X)) (nonSens ids m X) β ids.length
      (nonSensIdx ids m).length := by
  unfold isLstsqSrc
  rw [lstsqA_eq ids X hkind hc hs]
  unfold useSrc nonSens
  rw [hk]

end CorrL
