/-
Helper lemmas added by review R3 for C12:
  * well-formedness travels along a permutation; the index of `_apply_functions` is strictly sorted, hence a result
    table is DETERMINED by its entries as a multiset (this turns the `Perm` of `C12.rename_equivariant` into a list
    equality once the order of the new labels is known);
  * order-preserving relabellings keep the order of the index;
  * label swaps (involutions) as generators of the injective relabellings the theorems ask for;
  * the label-aligning placement of `Model/Container.lean` on well-formed Series (as many labels as values): NaN
    exactly at the positions without a label, the labelled value otherwise, `dupLabels` for repeated labels;
  * the conversions of a list of lifted sites.
-/
import FairModel.Lemmas.PermRename
import FairModel.Lemmas.PermMoments
import FairModel.Lemmas.Container

deriving instance DecidableEq for ContainerSites.Site

namespace Frame

variable {α β : Type}

/-- the shape check of MetricFrame (every row has `ncf` control and `nsf` sensitive values) does not depend on the
    row order -/
theorem wf_perm {ncf nsf : Nat} {rows rows' : List (Row α)} (hp : rows.Perm rows') (h : WF ncf nsf rows) :
    WF ncf nsf rows' := fun r hr => h r (hp.mem_iff.mpr hr)

/-- the index of `_apply_functions` is strictly increasing (levels by code point, tuples lexicographically) -/
theorem applyFunctions_index_sorted (nanv : β) (kf : Row α → Key) (n : Nat) (f : List α → β)
    (rows : List (Row α)) : ((applyFunctions nanv kf n f rows).map (·.1)).Pairwise (· < ·) := by
  unfold applyFunctions
  split
  · simp
  · dsimp only
    split
    · simp only [reindex, List.map_map]
      have : ((fun x : Key × β => x.1) ∘ fun k => (k, ((grouped kf f rows).lookup k).getD nanv)) = id := by
        funext k; rfl
      rw [this, List.map_id]
      apply pairwise_product
      intro l hl
      simp only [levels, List.mem_map] at hl
      obtain ⟨j, _, rfl⟩ := hl
      exact pairwise_uniq level_trans level_tri _
    · simp only [grouped, List.map_map]
      have : ((fun x : Key × β => x.1) ∘ fun k => (k, f (slice (rowsOf kf k rows)))) = id := by
        funext k; rfl
      rw [this, List.map_id]
      exact pairwise_uniq key_trans key_tri _

/-- two tables with the same entries (as multisets) whose indices are both strictly sorted are the same list -/
theorem eq_of_perm_of_sorted {l l' : List (Key × β)} (hp : l.Perm l')
    (h : (l.map (·.1)).Pairwise (· < ·)) (h' : (l'.map (·.1)).Pairwise (· < ·)) : l = l' := by
  rw [List.pairwise_map] at h h'
  exact hp.eq_of_pairwise (fun a b _ _ hab hba => absurd (key_trans _ _ _ hab hba) (key_irrefl _)) h h'

end Frame

namespace Perm
open Frame

/-- a strictly increasing relabelling of every column keeps the lexicographic order of the index tuples -/
theorem mapCols_lt (σs : Nat → Level → Level) (hmono : ∀ j a b, a < b → σs j a < σs j b) :
    ∀ {k k' : Key}, k < k' → mapCols σs k < mapCols σs k' := by
  intro k
  induction k generalizing σs with
  | nil =>
    intro k' h
    cases k' with
    | nil => simp at h
    | cons b k' => simp [mapCols]
  | cons a k ih =>
    intro k' h
    cases k' with
    | nil => simp at h
    | cons b k' =>
      simp only [mapCols]
      rw [List.cons_lt_cons_iff] at h ⊢
      rcases h with h | ⟨rfl, h⟩
      · exact Or.inl (hmono 0 _ _ h)
      · exact Or.inr ⟨rfl, ih (fun j => σs (j + 1)) (fun j => hmono (j + 1)) h⟩

/-- strictly increasing ⇒ injective (labels are linearly ordered) -/
theorem injective_of_strictMono (σ : Level → Level) (hmono : ∀ a b, a < b → σ a < σ b) : Function.Injective σ := by
  intro a b hab
  rcases level_tri a b with h | h | h
  · exact absurd (hab ▸ hmono a b h) (level_irrefl _)
  · exact h
  · exact absurd (hab ▸ hmono b a h) (level_irrefl _)

/-- an involution is injective -/
theorem injective_of_involutive {σ : Level → Level} (h : ∀ s, σ (σ s) = s) : Function.Injective σ :=
  fun a b hab => by rw [← h a, ← h b, hab]

/-- exchange the labels `a` and `b`, keep every other label: the generators of the label bijections -/
def swapLevels (a b : Level) : Level → Level := fun s => if s = a then b else if s = b then a else s

theorem swapLevels_involutive (a b s : Level) : swapLevels a b (swapLevels a b s) = s := by
  unfold swapLevels
  by_cases h1 : s = a
  · by_cases h2 : b = a <;> simp [h1, h2]
  · by_cases h2 : s = b
    · simp [h2]
    · simp [h1, h2]

theorem swapLevels_injective (a b : Level) : Function.Injective (swapLevels a b) :=
  injective_of_involutive (swapLevels_involutive a b)

end Perm

namespace Cont
open ContainerSites (Conv Site)

/-- repeated labels: `cannot reindex on an axis with duplicate labels`, whatever the values -/
theorem place_dup (n : Nat) (labels : List Int) (vals : List Rat) (h : ¬ labels.Nodup) :
    place n (.labelled labels vals) = .error .dupLabels := by
  simp [place, h]

theorem place_labelled_ok (n : Nat) (labels : List Int) (vals : List Rat) (h : labels.Nodup) :
    place n (.labelled labels vals) = .ok ((List.range n).map (fun (i : Nat) => vals[labels.idxOf (i : Int)]?)) := by
  simp [place, h]

/-- a well-formed Series (as many labels as values): row `i` is NaN exactly when no entry is labelled `i` -/
theorem labelled_entry_none_iff (labels : List Int) (vals : List Rat) (hl : labels.length = vals.length) (i : Int) :
    vals[labels.idxOf i]? = none ↔ i ∉ labels := by
  rw [List.getElem?_eq_none_iff, ← hl]
  constructor
  · intro h hm
    have := List.idxOf_lt_length_of_mem hm
    omega
  · intro h
    rw [List.idxOf_eq_length_iff.mpr h]

/-- … and otherwise it is the value carrying that label, wherever it stands -/
theorem labelled_entry_some (labels : List Int) (vals : List Rat) (hnd : labels.Nodup) (p : Nat)
    (hp : p < labels.length) : vals[labels.idxOf labels[p]]? = vals[p]? := by
  rw [hnd.idxOf_getElem p hp]

/-- the conversions of a list of lifted sites, argument by argument -/
theorem dropsLabels_sites (ss : List Site) (args : List Arg) (hraw : ∀ s ∈ ss, s.conv ≠ Conv.raw)
    (hk : ∀ p ∈ ss.zip args, p.1.conv = Conv.kind → p.2.kind.labelled = false) :
    ∀ p ∈ (ss.map (·.conv)).zip args, dropsLabels p.1 p.2 = true := by
  intro p hp
  rw [List.zip_map_left, List.mem_map] at hp
  obtain ⟨q, hq, rfl⟩ := hp
  have hs : q.1 ∈ ss := (List.of_mem_zip hq).1
  have h1 := hraw q.1 hs
  have h2 := hk q hq
  revert h1 h2
  simp only [Prod.map_fst, Prod.map_snd, id_eq]
  cases q.1.conv <;> simp_all [dropsLabels]

end Cont
