import FairModel.Lemmas.AggregateGen
import FairModel.Model.AggregateFrame

/-! Multi-metric frames: column `j` of every frame-level pandas primitive is the single-column
primitive applied to column `j` (no cross-column interaction), for any number of columns, rows and
strata; hence column `j` of every frame aggregate is the single-metric aggregate of `colTab ft j`. -/

namespace AggFrame
open Frame Aggregate XR

/-! ### rows -/

theorem getD_zipWith (op : XR → XR → XR) (a b : List XR) (j : Nat) (ha : j < a.length) (hb : j < b.length) :
    (List.zipWith op a b).getD j nan = op (a.getD j nan) (b.getD j nan) := by
  simp [List.getD_eq_getElem?_getD, List.getElem?_zipWith, List.getElem?_eq_getElem ha,
    List.getElem?_eq_getElem hb]

theorem getD_map_lt {β γ : Type} (f : β → γ) (a : List β) (j : Nat) (d : β) (d' : γ) (h : j < a.length) :
    (a.map f).getD j d' = f (a.getD j d) := by
  simp [List.getD_eq_getElem?_getD, List.getElem?_eq_getElem h]

theorem getD_replicate_nan (n j : Nat) : (List.replicate n nan).getD j nan = nan := by
  simp only [List.getD_eq_getElem?_getD, List.getElem?_replicate]
  split <;> rfl

theorem getD_range_map (F : Nat → XR) (n j : Nat) (h : j < n) : ((List.range n).map F).getD j nan = F j := by
  simp [List.getD_eq_getElem?_getD, h]

/-- coercing a row commutes with reading a column (a missing cell is NaN on both sides) -/
theorem getD_map_coerce (r : List Cell) (j : Nat) : (r.map coerce).getD j nan = coerce (cellAt j r) := by
  unfold cellAt
  by_cases h : j < r.length
  · exact getD_map_lt coerce r j Cell.nan nan h
  · have h' : r.length ≤ j := Nat.le_of_not_lt h
    simp [List.getD_eq_getElem?_getD, List.getElem?_eq_none h', Cell.nan, coerce]

/-- a row has a non-scalar cell iff it is cell `j` or one of the others -/
theorem any_split (r : List Cell) (j : Nat) :
    r.any isNonscalar = (isNonscalar (cellAt j r) || (r.eraseIdx j).any isNonscalar) := by
  unfold cellAt
  induction r generalizing j with
  | nil => simp [Cell.nan, isNonscalar]
  | cons a r ih =>
    cases j with
    | zero => simp
    | succ j =>
      simp only [List.any_cons, List.getD_cons_succ, List.eraseIdx_cons_succ]
      rw [ih j]
      cases isNonscalar a <;> cases isNonscalar (r.getD j Cell.nan) <;> simp

theorem any_or {β : Type} (l : List β) (p q : β → Bool) :
    l.any (fun x => p x || q x) = (l.any p || l.any q) := by
  induction l with
  | nil => rfl
  | cons a l ih =>
    simp only [List.any_cons, ih]
    cases p a <;> cases q a <;> cases l.any p <;> cases l.any q <;> rfl

/-- a column table sees a non-scalar cell iff the frame has one (in its own column or another) -/
theorem hasNonscalar_colTab (ft : FTables) (j : Nat) :
    hasNonscalar (colTab ft j) = (byNs ft || ovNs ft) := by
  have hb : byNs ft = (ft.byGroup.any (fun r => isNonscalar (cellAt j r.2)) ||
      ft.byGroup.any (fun r => (r.2.eraseIdx j).any isNonscalar)) := by
    unfold byNs
    rw [← any_or]
    congr 1; funext r; exact any_split r.2 j
  have ho : ovNs ft = (ft.overall.any (fun r => isNonscalar (cellAt j r.2)) ||
      ft.overall.any (fun r => (r.2.eraseIdx j).any isNonscalar)) := by
    unfold ovNs
    rw [← any_or]
    congr 1; funext r; exact any_split r.2 j
  unfold hasNonscalar colTab
  simp only [List.any_map, Function.comp_def]
  rw [hb, ho]
  cases ft.byGroup.any (fun r => isNonscalar (cellAt j r.2)) <;>
  cases ft.byGroup.any (fun r => (r.2.eraseIdx j).any isNonscalar) <;>
  cases ft.overall.any (fun r => isNonscalar (cellAt j r.2)) <;>
  cases ft.overall.any (fun r => (r.2.eraseIdx j).any isNonscalar) <;> rfl

/-! ### rectangular frames -/

theorem rect_mapF (f : XR → XR) {n : Nat} {x : FrameX} (h : Rect n x) : Rect n (mapF f x) := by
  intro r hr
  obtain ⟨r0, h0, rfl⟩ := List.mem_map.mp hr
  simpa using h r0 h0

theorem rect_lookup {n : Nat} {y : FrameX} (h : Rect n y) (c : Key) :
    ((y.lookup c).getD (List.replicate n nan)).length = n := by
  cases hl : y.lookup c with
  | none => simp
  | some row => simpa using h _ (lookup_mem hl)

theorem rect_bcastF (op : XR → XR → XR) (ncf : Nat) {n : Nat} {x y : FrameX} (hx : Rect n x) (hy : Rect n y) :
    Rect n (bcastF op ncf n x y) := by
  intro r hr
  obtain ⟨r0, h0, rfl⟩ := List.mem_map.mp hr
  simp only [List.length_zipWith, hx r0 h0, rect_lookup hy, Nat.min_self]

theorem rect_aggLevelF (g : Grouping) (ncf n : Nat) (f : FrameX) : Rect n (aggLevelF g ncf n f) := by
  intro r hr
  obtain ⟨c, _, rfl⟩ := List.mem_map.mp hr
  simp [reduceCols]

theorem rect_coercedF {ft : FTables} (h : WF ft) : Rect ft.ncols (coercedF ft) := by
  intro r hr
  obtain ⟨r0, h0, rfl⟩ := List.mem_map.mp hr
  simpa using h.1 r0 h0

theorem rect_overallF {ft : FTables} (h : WF ft) : Rect ft.ncols (overallF ft) := by
  intro r hr
  obtain ⟨r0, h0, rfl⟩ := List.mem_map.mp hr
  simpa using h.2 r0 h0

/-! ### column `j` of each frame primitive -/

theorem colX_coercedF (ft : FTables) (j : Nat) :
    colX j (coercedF ft) = (colTab ft j).byGroup.map (fun e => (e.1, coerce e.2)) := by
  simp only [colX, coercedF, colTab, List.map_map, Function.comp_def, getD_map_coerce]

theorem colX_overallF (ft : FTables) (j : Nat) :
    colX j (overallF ft) = (colTab ft j).overall.map (fun e => (e.1, coerce e.2)) := by
  simp only [colX, overallF, colTab, List.map_map, Function.comp_def, getD_map_coerce]

theorem colX_mapF (f : XR → XR) {n : Nat} {x : FrameX} (hx : Rect n x) {j : Nat} (hj : j < n) :
    colX j (mapF f x) = Prim.map f (colX j x) := by
  simp only [colX, mapF, Prim.map, List.map_map, Function.comp_def]
  apply List.map_congr_left
  intro r hr
  rw [getD_map_lt f r.2 j nan nan (by rw [hx r hr]; exact hj)]

theorem lookup_colX (j : Nat) (y : FrameX) (c : Key) :
    (colX j y).lookup c = (y.lookup c).map (fun row => row.getD j nan) :=
  lookup_map_snd (fun row : List XR => row.getD j nan) y c

theorem colX_bcastF (op : XR → XR → XR) (t : Tables) {n : Nat} {x y : FrameX} (hx : Rect n x) (hy : Rect n y)
    {j : Nat} (hj : j < n) :
    colX j (bcastF op t.ncf n x y) = Prim.bcast op t (colX j x) (colX j y) := by
  simp only [colX, bcastF, Prim.bcast, List.map_map, Function.comp_def, stratumOf]
  apply List.map_congr_left
  intro r hr
  have hl := rect_lookup hy (r.1.take t.ncf)
  rw [getD_zipWith op _ _ j (by rw [hx r hr]; exact hj) (by rw [hl]; exact hj)]
  congr 2
  have := lookup_colX j y (r.1.take t.ncf)
  simp only [colX] at this
  rw [this]
  cases y.lookup (r.1.take t.ncf) with
  | none => exact getD_replicate_nan n j
  | some row => rfl

theorem colX_sameF (op : XR → XR → XR) {n : Nat} {x y : FrameX} (hx : Rect n x) (hy : Rect n y)
    {j : Nat} (hj : j < n) :
    colX j (sameF op n x y) = Prim.same op (colX j x) (colX j y) := by
  simp only [colX, sameF, Prim.same, List.map_map, Function.comp_def]
  apply List.map_congr_left
  intro r hr
  have hl := rect_lookup hy r.1
  rw [getD_zipWith op _ _ j (by rw [hx r hr]; exact hj) (by rw [hl]; exact hj)]
  congr 2
  have := lookup_colX j y r.1
  simp only [colX] at this
  rw [this]
  cases y.lookup r.1 with
  | none => exact getD_replicate_nan n j
  | some row => rfl

/-- a frame reduction is the column reduction, column by column -/
theorem colX_aggLevelF (g : Grouping) (t : Tables) (n : Nat) (f : FrameX) {j : Nat} (hj : j < n) :
    colX j (aggLevelF g t.ncf n f) = Prim.aggLevel g t (colX j f) := by
  simp only [colX, aggLevelF, Prim.aggLevel, List.map_map, Function.comp_def, stratumOf, List.filter_map]
  apply List.map_congr_left
  intro c _
  simp only [reduceCols]
  rw [getD_range_map _ n j hj]
  simp only [List.map_map, Function.comp_def]

/-! ### column `j` of each frame aggregate -/

theorem colX_aggLevelF' (g : Grouping) (ft : FTables) (f : FrameX) {j : Nat} (hj : j < ft.ncols) :
    colX j (aggLevelF g ft.ncf ft.ncols f) = Prim.aggLevel g (colTab ft j) (colX j f) :=
  colX_aggLevelF g (colTab ft j) ft.ncols f hj

theorem colX_bcastF' (op : XR → XR → XR) (ft : FTables) {x y : FrameX} (hx : Rect ft.ncols x)
    (hy : Rect ft.ncols y) {j : Nat} (hj : j < ft.ncols) :
    colX j (bcastF op ft.ncf ft.ncols x y) = Prim.bcast op (colTab ft j) (colX j x) (colX j y) :=
  colX_bcastF op (colTab ft j) hx hy hj

theorem colX_diffCore {ft : FTables} (hw : WF ft) {j : Nat} (hj : j < ft.ncols) {s : FrameX}
    (hs : Rect ft.ncols s) :
    colX j (diffCore ft s) = (strata (colTab ft j)).map
      (fun c => (c, diffOf (vals (colTab ft j) c) (((colX j s).lookup c).getD nan))) := by
  have hb := rect_bcastF XR.sub ft.ncf (rect_coercedF hw) hs
  unfold diffCore
  rw [colX_aggLevelF' _ ft _ hj, colX_mapF XR.abs hb hj, colX_bcastF' XR.sub ft (rect_coercedF hw) hs hj,
    colX_coercedF]
  exact AggregateGen.diff_core (colTab ft j) (colX j s)

theorem colX_ratioCore {ft : FTables} (hw : WF ft) {j : Nat} (hj : j < ft.ncols) {s : FrameX}
    (hs : Rect ft.ncols s) :
    colX j (aggLevelF AggregateSpec.ratioOverallAgg ft.ncf ft.ncols
      (mapF AggregateSpec.ratioSubOne (bcastF XR.div ft.ncf ft.ncols (coercedF ft) s))) =
    (strata (colTab ft j)).map
      (fun c => (c, ratioOverallOf (vals (colTab ft j) c) (((colX j s).lookup c).getD nan))) := by
  have hb := rect_bcastF XR.div ft.ncf (rect_coercedF hw) hs
  rw [colX_aggLevelF' _ ft _ hj, colX_mapF AggregateSpec.ratioSubOne hb hj,
    colX_bcastF' XR.div ft (rect_coercedF hw) hs hj, colX_coercedF]
  exact AggregateGen.ratio_core (colTab ft j) (colX j s)

theorem colX_grouping (g : Grouping) (ft : FTables) {j : Nat} (hj : j < ft.ncols) :
    colX j (aggLevelF g ft.ncf ft.ncols (coercedF ft)) =
      (strata (colTab ft j)).map (fun c => (c, g.apply (vals (colTab ft j) c))) := by
  rw [colX_aggLevelF' _ ft _ hj, colX_coercedF, aggLevel_byGroup g (colTab ft j) (fun e => coerce e.2)]
  rfl

/-- group_min / group_max of a frame, column by column.  `errors='raise'` fails for EVERY column as
    soon as one by_group column holds a non-scalar cell. -/
theorem applyGroupingF_col (g : Grouping) (e : Errors) (ft : FTables) {j : Nat} (hj : j < ft.ncols)
    (hs : e = .coerce ∨ ovNs ft = false) :
    (applyGroupingF g e ft).map (colX j) = applyGrouping g e (colTab ft j) := by
  unfold applyGroupingF applyGrouping
  rw [hasNonscalar_colTab]
  have hc : (e = .raise ∧ (byNs ft || ovNs ft) = true) ↔ (e = .raise ∧ byNs ft = true) := by
    rcases hs with h | h
    · subst h; simp
    · rw [h, Bool.or_false]
  by_cases h : e = .raise ∧ byNs ft = true
  · rw [if_pos h, if_pos (hc.mpr h)]; rfl
  · rw [if_neg h, if_neg (mt hc.mp h)]
    exact congrArg some (colX_grouping g ft hj)

theorem applyGroupingF_raise_none_iff (g : Grouping) (ft : FTables) :
    applyGroupingF g .raise ft = none ↔ byNs ft = true := by
  unfold applyGroupingF
  by_cases h : byNs ft = true <;> simp [h]

theorem applyGroupingF_coerce_isSome (g : Grouping) (ft : FTables) :
    (applyGroupingF g .coerce ft).isSome = true := by
  simp [applyGroupingF]

theorem rect_applyGroupingF {g : Grouping} {e : Errors} {ft : FTables} {s : FrameX}
    (h : applyGroupingF g e ft = some s) : Rect ft.ncols s := by
  unfold applyGroupingF at h
  split at h
  · cases h
  · injection h with h; subst h; exact rect_aggLevelF _ _ _ _

theorem differenceF_between_col (e : Errors) (ft : FTables) (hw : WF ft) {j : Nat} (hj : j < ft.ncols)
    (hs : e = .coerce ∨ ovNs ft = false) :
    (differenceF .between e ft).map (colX j) = difference .between e (colTab ft j) := by
  have hg := applyGroupingF_col AggregateSpec.diffBetweenSubtrahend e ft hj hs
  unfold differenceF difference
  simp only
  rw [← hg]
  cases hq : applyGroupingF AggregateSpec.diffBetweenSubtrahend e ft with
  | none => rfl
  | some s =>
    simp only [Option.map_some]
    exact congrArg some (colX_diffCore hw hj (rect_applyGroupingF hq))

theorem differenceF_overall_col (e : Errors) (ft : FTables) (hw : WF ft) {j : Nat} (hj : j < ft.ncols)
    (hs : byNs ft = false ∨ ovNs ft = true) :
    (differenceF .toOverall e ft).map (colX j) = difference .toOverall e (colTab ft j) := by
  unfold differenceF difference
  simp only
  rw [hasNonscalar_colTab]
  by_cases ho : ovNs ft = true
  · simp [ho]
  · have hb : byNs ft = false := by
      rcases hs with h | h
      · exact h
      · exact absurd h ho
    have ho' : ovNs ft = false := by simpa using ho
    rw [ho', hb]
    simp only [Bool.false_eq_true, if_false, Bool.or_false, Option.map_some]
    refine congrArg some ?_
    rw [colX_diffCore hw hj (rect_overallF hw), colX_overallF]
    apply List.map_congr_left
    intro c _
    rw [overallAt_eq]

/-- non-scalar by_group cells act as NaN in `difference(method='to_overall')`, whatever `errors` is -/
theorem differenceF_overall_scrub (e : Errors) (ft : FTables) :
    differenceF .toOverall e ft = differenceF .toOverall e (scrubBy ft) := by
  have hcell : ∀ c : Cell, coerce (if isNonscalar c = true then Cell.nan else c) = coerce c := by
    intro c; cases c <;> rfl
  have hco : coercedF (scrubBy ft) = coercedF ft := by
    simp only [coercedF, scrubBy, List.map_map, Function.comp_def, hcell]
  unfold differenceF
  simp only [diffCore, hco]
  rfl

theorem differenceF_overall_none_iff (e : Errors) (ft : FTables) :
    differenceF .toOverall e ft = none ↔ ovNs ft = true := by
  unfold differenceF
  by_cases h : ovNs ft = true <;> simp [h]

theorem ratioF_between_col (e : Errors) (ft : FTables) {j : Nat} (hj : j < ft.ncols)
    (hs : e = .coerce ∨ ovNs ft = false) :
    (ratioF .between e ft).map (colX j) = ratio .between e (colTab ft j) := by
  have hn := applyGroupingF_col AggregateSpec.ratioBetweenNum e ft hj hs
  have hd := applyGroupingF_col AggregateSpec.ratioBetweenDen e ft hj hs
  unfold ratioF ratio
  simp only
  rw [← hn, ← hd]
  cases hqn : applyGroupingF AggregateSpec.ratioBetweenNum e ft with
  | none => rfl
  | some num =>
    cases hqd : applyGroupingF AggregateSpec.ratioBetweenDen e ft with
    | none => rfl
    | some den =>
      simp only [Option.map_some]
      refine congrArg some ?_
      rw [colX_sameF XR.div (rect_applyGroupingF hqn) (rect_applyGroupingF hqd) hj]
      rfl

/-- `ratio(method='to_overall')`: no hypothesis on the cells — it fails exactly when any cell of the
    frame is non-scalar, and so does the single-column model of every column -/
theorem ratioF_overall_col (e : Errors) (ft : FTables) (hw : WF ft) {j : Nat} (hj : j < ft.ncols) :
    (ratioF .toOverall e ft).map (colX j) = ratio .toOverall e (colTab ft j) := by
  unfold ratioF ratio
  simp only
  rw [hasNonscalar_colTab]
  by_cases h : (byNs ft || ovNs ft) = true
  · simp [h]
  · rw [if_neg h, if_neg h]
    simp only [Option.map_some]
    refine congrArg some ?_
    rw [colX_ratioCore hw hj (rect_overallF hw), colX_overallF]
    apply List.map_congr_left
    intro c _
    rw [overallAt_eq]

end AggFrame
