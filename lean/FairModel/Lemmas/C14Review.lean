/-
Helper lemmas added by the review of C14 (base rate metrics):
  * the confusion-matrix row total is the weight of the whole true class when every prediction is one
    of the two labels (so the rates are class-conditional weighted fractions with a GENUINE quotient);
  * which labels `labelsForCM` accepts, and that accepted inputs carry no third label;
  * cells of labels nobody carries are empty (single-valued vectors, the sentinel negative label);
  * division-free characterisations of `selectionRate` / `meanPrediction` under a positive total weight,
    and the totalisation artefacts at total weight 0 (numpy: NaN; sklearn: ValueError).
-/
import FairModel.Lemmas.Weights
import FairModel.Lemmas.BaseMetricsSrc

namespace BaseMetrics

/-- every row weight is strictly positive (the quantifier of C14 / C11) -/
def PosW (rows : List Row) : Prop := ∀ r ∈ rows, 0 < r.w

instance (rows : List Row) : Decidable (PosW rows) := by unfold PosW; infer_instance

theorem PosW.nonneg {rows : List Row} (h : PosW rows) : ∀ r ∈ rows, 0 ≤ r.w :=
  fun r hr => le_of_lt (h r hr)

theorem wsum_eq_zero_of_forall_false (p : Row → Bool) (rows : List Row)
    (h : ∀ r ∈ rows, p r = false) : wsum p rows = 0 := by
  induction rows with
  | nil => simp
  | cons r rs ih =>
    rw [wsum_cons, h r (by simp), ih (fun x hx => h x (by simp [hx]))]; simp

theorem cell_eq_zero_of_no_true (rows : List Row) (a b : Int) (h : ∀ r ∈ rows, r.yt ≠ a) :
    cell rows a b = 0 :=
  wsum_eq_zero_of_forall_false _ rows (fun r hr => by simp [h r hr])

theorem cell_eq_zero_of_no_pred (rows : List Row) (a b : Int) (h : ∀ r ∈ rows, r.yp ≠ b) :
    cell rows a b = 0 :=
  wsum_eq_zero_of_forall_false _ rows (fun r hr => by simp [h r hr])

theorem ratio_zero_num (d : Rat) : ratio 0 d = 0 := by unfold ratio; split <;> simp

/-- with positive weights a sum over a predicate vanishes only if no row satisfies it -/
theorem wsum_eq_zero_iff_of_pos (p : Row → Bool) (rows : List Row) (hw : PosW rows) :
    wsum p rows = 0 ↔ ∀ r ∈ rows, p r = false := by
  constructor
  · intro h r hr
    by_contra hp
    have hp' : p r = true := by simpa using hp
    have := wsum_pos_of_mem p rows hw.nonneg r hr hp' (hw r hr)
    linarith
  · exact wsum_eq_zero_of_forall_false p rows

/-- the confusion-matrix row total of class `c` is the weight of ALL rows of true class `c`, provided
    every prediction is one of the two labels of the matrix -/
theorem rowTot_eq_class_weight (rows : List Row) (neg pos c : Int) (hnp : neg ≠ pos)
    (hyp : ∀ r ∈ rows, r.yp = neg ∨ r.yp = pos) :
    rowTot rows neg pos c = wsum (fun r => r.yt == c) rows := by
  induction rows with
  | nil => simp [rowTot, cell]
  | cons r rs ih =>
    have ih' := ih (fun x hx => hyp x (by simp [hx]))
    unfold rowTot cell at ih' ⊢
    rw [wsum_cons, wsum_cons, wsum_cons, ← ih']
    have hpn : pos ≠ neg := fun h => hnp h.symm
    rcases hyp r (by simp) with h | h <;> by_cases hc : r.yt = c <;> simp [h, hc, hnp, hpn] <;> ring

/-- accepted inputs carry no third label: every label is the returned negative or positive one -/
theorem labelsForCM_ok_mem (labels : List Int) (p : Option Int) (neg pos : Int)
    (h : labelsForCM labels p = .ok (neg, pos)) : ∀ x ∈ labels, x = neg ∨ x = pos := by
  intro x hx
  have hx' := (mem_uniqueSorted x labels).mpr hx
  unfold labelsForCM at h
  generalize uniqueSorted labels = u at h hx'
  rcases u with _ | ⟨a, _ | ⟨b, _ | ⟨c, t⟩⟩⟩
  · simp at hx'
  · simp only [List.mem_singleton] at hx'
    subst hx'
    cases p <;> simp only at h <;> (repeat' split at h) <;> simp_all
  · simp only [List.mem_cons, List.not_mem_nil, or_false] at hx'
    cases p <;> simp only at h <;> (repeat' split at h) <;> simp_all <;> grind
  · cases p <;> simp only at h <;> (repeat' split at h) <;> simp_all

/-- two observed values and a `pos_label` equal to one of them: accepted, positive label last -/
theorem labelsForCM_two (labels : List Int) (a b : Int) (hu : uniqueSorted labels = [a, b]) :
    labelsForCM labels (some a) = .ok (b, a) ∧ labelsForCM labels (some b) = .ok (a, b) := by
  have hs := sorted_uniqueSorted labels
  rw [hu] at hs
  have hab : a < b := by simpa using hs
  have hne : b ≠ a := ne_of_gt hab
  simp [labelsForCM, hu, hne]

/-- a single observed value: `pos_label` = that value pairs it with the sentinel, any other `pos_label`
    makes the observed value the negative class -/
theorem labelsForCM_single (labels : List Int) (a : Int) (hu : uniqueSorted labels = [a]) (p : Int) :
    labelsForCM labels (some p) = if a = p then .ok (int64Min, p) else .ok (a, p) := by
  simp [labelsForCM, hu]

/-- `pos_label=None` on the two default encodings -/
theorem labelsForCM_default (labels : List Int) :
    (uniqueSorted labels = [0, 1] → labelsForCM labels none = .ok (0, 1)) ∧
    (uniqueSorted labels = [-1, 1] → labelsForCM labels none = .ok (-1, 1)) ∧
    (uniqueSorted labels = [0] → labelsForCM labels none = .ok (0, 1)) ∧
    (uniqueSorted labels = [-1] → labelsForCM labels none = .ok (-1, 1)) ∧
    (uniqueSorted labels = [1] → labelsForCM labels none = .ok (int64Min, 1)) := by
  refine ⟨?_, ?_, ?_, ?_, ?_⟩ <;> intro hu <;> simp [labelsForCM, hu]

/-- `pos_label=None` is accepted exactly on label sets inside {0,1} or inside {-1,1} (then the label
    count decides); otherwise the call is rejected with the "restricted" error -/
theorem labelsForCM_none_restricted_iff (labels : List Int) :
    labelsForCM labels none = .error .restricted ↔
      ¬ ((∀ x ∈ labels, x = 0 ∨ x = 1) ∨ (∀ x ∈ labels, x = -1 ∨ x = 1)) := by
  have e1 : (uniqueSorted labels).all (fun x => x = 0 || x = 1) = true ↔ ∀ x ∈ labels, x = 0 ∨ x = 1 := by
    simp only [List.all_eq_true, Bool.or_eq_true, decide_eq_true_eq, mem_uniqueSorted]
  have e2 : (uniqueSorted labels).all (fun x => x = -1 || x = 1) = true ↔ ∀ x ∈ labels, x = -1 ∨ x = 1 := by
    simp only [List.all_eq_true, Bool.or_eq_true, decide_eq_true_eq, mem_uniqueSorted]
  unfold labelsForCM
  simp only
  by_cases h : ((uniqueSorted labels).all (fun x => x = 0 || x = 1) ||
      (uniqueSorted labels).all (fun x => x = -1 || x = 1)) = true
  · have h' := h
    rw [Bool.or_eq_true, e1, e2] at h'
    simp only [h, if_true, h', not_true_eq_false, iff_false]
    rcases uniqueSorted labels with _ | ⟨a, _ | ⟨b, _ | ⟨c, t⟩⟩⟩ <;> simp <;> (repeat' split) <;> simp
  · have h' := h
    rw [Bool.or_eq_true, e1, e2] at h'
    simp [h, h']

/-! ### selection_rate / mean_prediction: genuine quotients under a positive total weight -/

theorem totalW_pos (rows : List Row) (hne : rows ≠ []) (hw : PosW rows) : 0 < totalW rows := by
  cases rows with
  | nil => exact absurd rfl hne
  | cons r rs =>
    rw [← wsum_true_eq_totalW]
    exact wsum_pos_of_mem _ _ hw.nonneg r (by simp) rfl (hw r (by simp))

/-- the value returned by `selection_rate` is THE number `v` with `v · Σw = Σ_{pred = pos} w`
    (no division: nothing here can be true because of `x / 0 = 0`) -/
theorem selectionRate_spec (rows : List Row) (pos : Int) (hne : rows ≠ []) (hw : PosW rows) :
    ∃ v, selectionRate rows pos = .ok v ∧ v * totalW rows = wsum (fun r => r.yp == pos) rows ∧
      ∀ v', v' * totalW rows = wsum (fun r => r.yp == pos) rows → v' = v := by
  have ht := totalW_pos rows hne hw
  have hne' : totalW rows ≠ 0 := ne_of_gt ht
  refine ⟨wsum (fun r => r.yp == pos) rows / totalW rows, ?_, ?_, ?_⟩
  · cases rows with
    | nil => exact absurd rfl hne
    | cons r rs => simp [selectionRate]
  · field_simp
  · intro v' hv'; rw [← hv']; field_simp

/-- total weight 0 (only possible with non-positive weights): the model's `0` is Lean's `x / 0 = 0`,
    numpy returns NaN there (replayed: `selection_rate([1],[1],sample_weight=[0])` is `nan`).
    Every value theorem about `selectionRate` therefore carries `PosW`. -/
theorem selectionRate_zero_total_is_totalisation (rows : List Row) (pos : Int) (hne : rows ≠ [])
    (h0 : totalW rows = 0) : selectionRate rows pos = .ok 0 := by
  cases rows with
  | nil => exact absurd rfl hne
  | cons r rs => simp [selectionRate, h0]

def totalP (rows : List PRow) : Rat := (rows.map (·.w)).sum
def PosP (rows : List PRow) : Prop := ∀ r ∈ rows, 0 < r.w

instance (rows : List PRow) : Decidable (PosP rows) := by unfold PosP; infer_instance

theorem totalP_pos (rows : List PRow) (hne : rows ≠ []) (hw : PosP rows) : 0 < totalP rows := by
  induction rows with
  | nil => exact absurd rfl hne
  | cons r rs ih =>
    have h1 := hw r (by simp)
    unfold totalP at ih ⊢
    simp only [List.map_cons, List.sum_cons]
    by_cases hrs : rs = []
    · subst hrs; simpa using h1
    · have := ih hrs (fun x hx => hw x (by simp [hx])); linarith

/-- `mean_prediction` is THE number `v` with `v · Σw = Σ pred·w` (division-free) -/
theorem meanPrediction_spec (rows : List PRow) (hne : rows ≠ []) (hw : PosP rows) :
    meanPrediction rows * totalP rows = (rows.map (fun r => r.pred * r.w)).sum ∧
      ∀ v', v' * totalP rows = (rows.map (fun r => r.pred * r.w)).sum → v' = meanPrediction rows := by
  have ht := totalP_pos rows hne hw
  have hne' : totalP rows ≠ 0 := ne_of_gt ht
  unfold meanPrediction
  unfold totalP at *
  constructor
  · field_simp
  · intro v' hv'; rw [← hv']; field_simp

theorem sum_mul_le (rows : List PRow) (hi : Rat) (hw : PosP rows) (hb : ∀ r ∈ rows, r.pred ≤ hi) :
    (rows.map (fun r => r.pred * r.w)).sum ≤ hi * totalP rows := by
  induction rows with
  | nil => simp [totalP]
  | cons r rs ih =>
    have h1 := hw r (by simp)
    have h2 := hb r (by simp)
    have ih' := ih (fun x hx => hw x (by simp [hx])) (fun x hx => hb x (by simp [hx]))
    unfold totalP at ih' ⊢
    simp only [List.map_cons, List.sum_cons]
    nlinarith

theorem le_sum_mul (rows : List PRow) (lo : Rat) (hw : PosP rows) (hb : ∀ r ∈ rows, lo ≤ r.pred) :
    lo * totalP rows ≤ (rows.map (fun r => r.pred * r.w)).sum := by
  induction rows with
  | nil => simp [totalP]
  | cons r rs ih =>
    have h1 := hw r (by simp)
    have h2 := hb r (by simp)
    have ih' := ih (fun x hx => hw x (by simp [hx])) (fun x hx => hb x (by simp [hx]))
    unfold totalP at ih' ⊢
    simp only [List.map_cons, List.sum_cons]
    nlinarith

/-- a weighted mean with positive weights lies between the smallest and the largest prediction -/
theorem meanPrediction_between (rows : List PRow) (lo hi : Rat) (hne : rows ≠ []) (hw : PosP rows)
    (hb : ∀ r ∈ rows, lo ≤ r.pred ∧ r.pred ≤ hi) : lo ≤ meanPrediction rows ∧ meanPrediction rows ≤ hi := by
  have ht := totalP_pos rows hne hw
  have h1 := le_sum_mul rows lo hw (fun r hr => (hb r hr).1)
  have h2 := sum_mul_le rows hi hw (fun r hr => (hb r hr).2)
  unfold meanPrediction
  unfold totalP at ht h1 h2
  constructor
  · rw [le_div_iff₀ ht]; exact h1
  · rw [div_le_iff₀ ht]; exact h2

/-- empty input / total weight 0: Lean's `0 / 0 = 0`; numpy returns NaN there (replayed:
    `mean_prediction([], [])` and `mean_prediction([1],[1],sample_weight=[0])` are `nan`) -/
theorem meanPrediction_zero_total_is_totalisation (rows : List PRow) (h0 : totalP rows = 0) :
    meanPrediction rows = 0 := by
  unfold meanPrediction; unfold totalP at h0; rw [h0]; simp

end BaseMetrics
