import FairModel.Lemmas.CorrRemover

/-!
Uniqueness questions of the least-squares problem behind `CorrelationRemover.fit`
(finding F10: `numpy.linalg.lstsq` on a rank-deficient centred block).

Everything is stated for an arbitrary real(rational)-valued "matrix" `S : row → column → Rat` with `n` rows and `ms`
columns and coefficient vectors `Nat → Rat` (only the entries below `ms` matter).
-/

namespace CorrRemover
open Finset

/-- `(S·d)_i` -/
def lin (S : Nat → Nat → Rat) (ms : Nat) (d : Nat → Rat) (i : Nat) : Rat := ∑ q ∈ range ms, S i q * d q

/-- entry `(k, q)` of the Gram matrix `SᵀS` -/
def gram (S : Nat → Nat → Rat) (n : Nat) (k q : Nat) : Rat := ∑ i ∈ range n, S i k * S i q

/-- `dᵀ (SᵀS) d = ‖S d‖²` -/
theorem gram_quadratic (S : Nat → Nat → Rat) (n ms : Nat) (d : Nat → Rat) :
    ∑ k ∈ range ms, d k * ∑ q ∈ range ms, gram S n k q * d q = ∑ i ∈ range n, (lin S ms d i) ^ 2 := by
  have hR : ∀ i ∈ range n, (lin S ms d i) ^ 2 = ∑ k ∈ range ms, ∑ q ∈ range ms, d k * (S i k * S i q) * d q := by
    intro i _
    unfold lin
    rw [sq, Finset.sum_mul_sum]
    apply Finset.sum_congr rfl; intro k _
    apply Finset.sum_congr rfl; intro q _
    ring
  rw [Finset.sum_congr rfl hR]
  have hL : ∀ k ∈ range ms, d k * ∑ q ∈ range ms, gram S n k q * d q
      = ∑ i ∈ range n, ∑ q ∈ range ms, d k * (S i k * S i q) * d q := by
    intro k _
    unfold gram
    rw [Finset.mul_sum, Finset.sum_comm]
    apply Finset.sum_congr rfl; intro q _
    rw [Finset.sum_mul, Finset.mul_sum]
    apply Finset.sum_congr rfl; intro i _
    ring
  rw [Finset.sum_congr rfl hL, Finset.sum_comm]

/-- `(SᵀS d)_k = Σ_i S_ik (S d)_i` -/
theorem gram_mul_eq (S : Nat → Nat → Rat) (n ms : Nat) (d : Nat → Rat) (k : Nat) :
    ∑ q ∈ range ms, gram S n k q * d q = ∑ i ∈ range n, S i k * lin S ms d i := by
  unfold gram lin
  have : ∀ q ∈ range ms, (∑ i ∈ range n, S i k * S i q) * d q = ∑ i ∈ range n, S i k * (S i q * d q) := by
    intro q _
    rw [Finset.sum_mul]
    apply Finset.sum_congr rfl; intro i _; ring
  rw [Finset.sum_congr rfl this, Finset.sum_comm]
  apply Finset.sum_congr rfl; intro i _
  rw [Finset.mul_sum]

/-- the Gram matrix and the matrix itself have the same kernel -/
theorem gram_ker_iff (S : Nat → Nat → Rat) (n ms : Nat) (d : Nat → Rat) :
    (∀ k, k < ms → ∑ q ∈ range ms, gram S n k q * d q = 0) ↔ (∀ i, i < n → lin S ms d i = 0) := by
  constructor
  · intro h
    have hq := gram_quadratic S n ms d
    have h0 : ∑ k ∈ range ms, d k * ∑ q ∈ range ms, gram S n k q * d q = 0 := by
      apply Finset.sum_eq_zero
      intro k hk
      rw [h k (Finset.mem_range.mp hk), mul_zero]
    rw [h0] at hq
    have hz := (Finset.sum_eq_zero_iff_of_nonneg (fun i _ => sq_nonneg (lin S ms d i))).mp hq.symm
    intro i hi
    have := hz i (Finset.mem_range.mpr hi)
    exact pow_eq_zero_iff (n := 2) (by norm_num) |>.mp this
  · intro h k _
    rw [gram_mul_eq]
    apply Finset.sum_eq_zero
    intro i hi
    rw [h i (Finset.mem_range.mp hi), mul_zero]

/-- the columns of `S` are linearly independent -/
def ColumnsIndependent (S : Nat → Nat → Rat) (n ms : Nat) : Prop :=
  ∀ d : Nat → Rat, (∀ i, i < n → lin S ms d i = 0) → ∀ q, q < ms → d q = 0

/-- the Gram matrix `SᵀS` is nonsingular (as a linear map: trivial kernel) -/
def GramNonsingular (S : Nat → Nat → Rat) (n ms : Nat) : Prop :=
  ∀ d : Nat → Rat, (∀ k, k < ms → ∑ q ∈ range ms, gram S n k q * d q = 0) → ∀ q, q < ms → d q = 0

theorem gramNonsingular_iff_columnsIndependent (S : Nat → Nat → Rat) (n ms : Nat) :
    GramNonsingular S n ms ↔ ColumnsIndependent S n ms := by
  constructor
  · intro h d hd
    exact h d ((gram_ker_iff S n ms d).mpr hd)
  · intro h d hd
    exact h d ((gram_ker_iff S n ms d).mp hd)

/-- normal equations `Sᵀ (z − S w) = 0` for one target column `z` -/
def NormalEq (S : Nat → Nat → Rat) (z : Nat → Rat) (n ms : Nat) (w : Nat → Rat) : Prop :=
  ∀ k, k < ms → ∑ i ∈ range n, S i k * (z i - lin S ms w i) = 0

theorem lin_sub (S : Nat → Nat → Rat) (ms : Nat) (w w' : Nat → Rat) (i : Nat) :
    lin S ms (fun q => w q - w' q) i = lin S ms w i - lin S ms w' i := by
  unfold lin
  rw [← Finset.sum_sub_distrib]
  apply Finset.sum_congr rfl; intro q _; ring

/-- ANY two solutions of the normal equations have the same fitted values `S w` — hence the same residual `z − S w` -/
theorem normalEq_fitted_unique (S : Nat → Nat → Rat) (z : Nat → Rat) (n ms : Nat) (w w' : Nat → Rat)
    (h : NormalEq S z n ms w) (h' : NormalEq S z n ms w') : ∀ i, i < n → lin S ms w i = lin S ms w' i := by
  have hk : ∀ k, k < ms → ∑ q ∈ range ms, gram S n k q * (w q - w' q) = 0 := by
    intro k hk
    rw [gram_mul_eq S n ms (fun q => w q - w' q) k]
    have e : ∀ i ∈ range n, S i k * lin S ms (fun q => w q - w' q) i
        = S i k * (z i - lin S ms w' i) - S i k * (z i - lin S ms w i) := by
      intro i _; rw [lin_sub]; ring
    rw [Finset.sum_congr rfl e, Finset.sum_sub_distrib, h k hk, h' k hk, sub_zero]
  have := (gram_ker_iff S n ms (fun q => w q - w' q)).mp hk
  intro i hi
  have h0 := this i hi
  rw [lin_sub] at h0
  linarith

/-- the solution of the normal equations is unique exactly when the columns are linearly independent
    (given that one solution `w0` exists, which is always the case) -/
theorem normalEq_unique_iff (S : Nat → Nat → Rat) (z : Nat → Rat) (n ms : Nat) (w0 : Nat → Rat)
    (h0 : NormalEq S z n ms w0) :
    (∀ w, NormalEq S z n ms w → ∀ q, q < ms → w q = w0 q) ↔ ColumnsIndependent S n ms := by
  constructor
  · intro hu d hd q hq
    -- w0 + d is another solution
    have hs : NormalEq S z n ms (fun q => w0 q + d q) := by
      intro k hk
      have e : ∀ i ∈ range n, S i k * (z i - lin S ms (fun q => w0 q + d q) i) = S i k * (z i - lin S ms w0 i) := by
        intro i hi
        have : lin S ms (fun q => w0 q + d q) i = lin S ms w0 i + lin S ms d i := by
          unfold lin
          rw [← Finset.sum_add_distrib]
          apply Finset.sum_congr rfl; intro q _; ring
        rw [this, hd i (Finset.mem_range.mp hi), add_zero]
      rw [Finset.sum_congr rfl e]
      exact h0 k hk
    have : w0 q + d q = w0 q := hu _ hs q hq
    linarith
  · intro hind w hw q hq
    have hf := normalEq_fitted_unique S z n ms w w0 hw h0
    have : w q - w0 q = 0 := hind (fun q => w q - w0 q) (by
      intro i hi
      rw [lin_sub, hf i hi, sub_self]) q hq
    linarith


/-! ### connection with the list model -/

theorem ent_zipWith (f : List Rat → List Rat → List Rat) (A B : Mat) (i j : Nat) (ha : i < A.length) (hb : i < B.length) :
    ent (List.zipWith f A B) i j = (f (A.getD i []) (B.getD i [])).getD j 0 := by
  unfold ent
  congr 1
  simp [List.getD_eq_getElem?_getD, ha, hb]

/-- entry of `Z − Sc·β` -/
theorem ent_residual (Sc Z β : Mat) (ms : Nat) (i j : Nat) (hi : i < Sc.length) (hz : Z.length = Sc.length)
    (hrow : (Sc.getD i []).length = ms) (hj : j < (Z.getD i []).length) :
    ent (residual Sc Z β) i j = ent Z i j - lin (ent Sc) ms (fun q => ent β q j) i := by
  unfold residual
  rw [ent_zipWith _ _ _ _ _ hi (hz ▸ hi), getD_residRow _ _ _ _ hj, hrow]
  rfl

/-- shape hypotheses of a least-squares problem: `Sc` is `n × ms`, `Z` is `n × mz` -/
def Shaped (Sc Z : Mat) (ms mz : Nat) : Prop :=
  Z.length = Sc.length ∧ ∀ i, i < Sc.length → (Sc.getD i []).length = ms ∧ (Z.getD i []).length = mz

theorem isLstsq_iff_normalEq (Sc Z β : Mat) (ms mz : Nat) (hs : Shaped Sc Z ms mz) :
    isLstsq Sc Z β ms mz = true ↔
      ∀ j, j < mz → NormalEq (ent Sc) (fun i => ent Z i j) Sc.length ms (fun q => ent β q j) := by
  rw [isLstsq_iff]
  have key : ∀ k j, j < mz → normalResid Sc (residual Sc Z β) k j
      = ∑ i ∈ range Sc.length, ent Sc i k * (ent Z i j - lin (ent Sc) ms (fun q => ent β q j) i) := by
    intro k j hj
    unfold normalResid
    rw [sumTo_eq]
    apply Finset.sum_congr rfl
    intro i hi
    have hi' := Finset.mem_range.mp hi
    rw [ent_residual Sc Z β ms i j hi' hs.1 (hs.2 i hi').1 (by rw [(hs.2 i hi').2]; exact hj)]
  constructor
  · intro h j hj k hk
    rw [← key k j hj]; exact h k hk j hj
  · intro h k hk j hj
    rw [key k j hj]; exact h j hj k hk

/-- two matrices with the same shape and the same entries are equal -/
theorem mat_ext (A B : Mat) (hl : A.length = B.length)
    (hr : ∀ i, i < A.length → (A.getD i []).length = (B.getD i []).length)
    (he : ∀ i, i < A.length → ∀ j, j < (A.getD i []).length → ent A i j = ent B i j) : A = B := by
  apply List.ext_getElem hl
  intro i h1 h2
  have ea : A.getD i [] = A[i] := by simp [List.getD_eq_getElem?_getD, h1]
  have eb : B.getD i [] = B[i] := by simp [List.getD_eq_getElem?_getD, h2]
  rw [← ea, ← eb]
  apply ext_getD _ _ (hr i h1)
  intro j hj
  exact he i h1 j hj

/-- the coefficient matrix with entries `f q j` -/
def matOf (ms mz : Nat) (f : Nat → Nat → Rat) : Mat := (List.range ms).map (fun q => vec mz (f q))

theorem ent_matOf (ms mz : Nat) (f : Nat → Nat → Rat) (q j : Nat) (hq : q < ms) (hj : j < mz) :
    ent (matOf ms mz f) q j = f q j := by
  unfold ent matOf
  have : ((List.range ms).map (fun q => vec mz (f q))).getD q [] = vec mz (f q) := by
    simp [List.getD_eq_getElem?_getD, hq]
  rw [this, getD_vec _ hj]

theorem lin_congr (S : Nat → Nat → Rat) (ms : Nat) (d d' : Nat → Rat) (i : Nat) (h : ∀ q, q < ms → d q = d' q) :
    lin S ms d i = lin S ms d' i := by
  unfold lin
  apply Finset.sum_congr rfl
  intro q hq
  rw [h q (Finset.mem_range.mp hq)]

end CorrRemover
