import FairModel.Lemmas.Validation
import FairModel.Model.FrameChecks

namespace FrameChecks
open Validation Generated.FrameChecksSrc

theorem any_or {α} (l : List α) (p q : α → Bool) : l.any (fun c => p c || q c) = (l.any p || l.any q) := by
  induction l with
  | nil => rfl
  | cons x xs ih => simp only [List.any_cons, ih]; cases p x <;> cases q x <;> cases xs.any p <;> cases xs.any q <;> rfl

theorem first_eq_none_iff (a : FrameArgs) (cs : List Check) : first a cs = none ↔ ∀ c ∈ cs, fires a c.pred = false := by
  induction cs with
  | nil => simp [first]
  | cons c cs ih =>
    simp only [first, List.mem_cons, forall_eq_or_imp]
    cases h : fires a c.pred <;> simp [ih]

/-- the lifted list accepts iff no check of it fires -/
theorem runOn_ok_iff (cs : List Check) (a : FrameArgs) : runOn cs a = .ok ↔ ∀ c ∈ cs, fires a c.pred = false := by
  rw [← first_eq_none_iff]
  unfold runOn
  cases h : first a cs with
  | none => simp
  | some c => cases he : c.exc <;> simp [excOutcome, he]

/-- a check of the list that fires makes the call raise (some kind) -/
theorem runOn_rejects (cs : List Check) (a : FrameArgs) (c : Check) (hc : c ∈ cs) (hf : fires a c.pred = true) :
    runOn cs a ≠ .ok := by
  intro h
  have := (runOn_ok_iff cs a).1 h c hc
  simp [hf] at this

theorem first_mem (a : FrameArgs) (cs : List Check) (c : Check) (h : first a cs = some c) : c ∈ cs := by
  induction cs with
  | nil => simp [first] at h
  | cons d ds ih =>
    simp only [first] at h
    split at h
    · simp only [Option.some.injEq] at h; simp [h]
    · exact List.mem_cons_of_mem _ (ih h)

/-- every check of kind ValueError → the list only ever raises ValueError -/
theorem runOn_kind (cs : List Check) (hk : ∀ c ∈ cs, c.exc = .valueError) (a : FrameArgs) :
    runOn cs a = .ok ∨ runOn cs a = .valueError := by
  unfold runOn
  cases h : first a cs with
  | none => exact Or.inl rfl
  | some c => right; simp [hk c (first_mem a cs c h), excOutcome]

/-- a list of ValueError checks raises ValueError iff one of them fires -/
theorem runOn_allValue (cs : List Check) (hk : ∀ c ∈ cs, c.exc = .valueError) (a : FrameArgs) :
    runOn cs a = if cs.any (fun c => fires a c.pred) then .valueError else .ok := by
  induction cs with
  | nil => simp [runOn, first]
  | cons c cs ih =>
    have hc := hk c (by simp)
    have ih' := ih (fun d hd => hk d (List.mem_cons_of_mem _ hd))
    unfold runOn at ih' ⊢
    simp only [first, List.any_cons]
    by_cases h : fires a c.pred = true
    · simp [h, hc, excOutcome]
    · simp only [if_neg h]
      rw [ih']
      simp [h]

theorem ite_ve (b c : Bool) (x : Outcome) :
    (if b = true then Outcome.valueError else if c = true then .valueError else x) = if (b || c) = true then .valueError else x := by
  cases b <;> cases c <;> rfl

/-- the hand-written constructor as one disjunction -/
theorem frame_eq_any (a : FrameArgs) :
    frame a = if ((a.nPred != a.nTrue) || (a.params.any (· != a.nTrue) || (a.sf.isEmpty
        || ((a.sf ++ a.cf).any (fun c => c.name.isNone || c.len != a.nTrue)
        || hasDup ((a.sf ++ a.cf).filterMap (·.name)))))) = true then .valueError else .ok := by
  simp only [frame, ite_ve]

theorem checks_all_valueError : ∀ c ∈ checks, c.exc = .valueError := by decide

/-- THE BRIDGE: the hand-written `Validation.frame` computes what the list lifted from `MetricFrame.__init__` /
    `_process_features` computes, for every descriptor.  A source edit that drops one of the eight checks (in any container
    branch of `_process_features`), turns a `raise` into something else, or changes an exception class changes `checks` and
    breaks this proof. -/
theorem frameSrc_eq_frame (a : FrameArgs) : frameSrc a = frame a := by
  rw [frame_eq_any, frameSrc, runOn_allValue checks checks_all_valueError]
  congr 1
  simp only [checks, List.any_cons, List.any_nil, fires, List.any_append, any_or, Bool.or_false]
  ac_rfl

end FrameChecks
