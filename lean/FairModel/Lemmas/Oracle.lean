/-
Lemmas for the relabel / reweight step (`Model/Oracle.lean` over `Generated/OracleSrc.lean`).

The element-wise facts about the lifted label / weight functions are proved by a three-way case split on the
sign of the signed weight, so they hold for the strict comparison of the source and would equally hold for a
non-strict one (a row with signed weight 0 has weight 0, so its label never matters).
-/
import FairModel.Model.Oracle
import FairModel.Lemmas.MomentsReduction

set_option linter.unusedSimpArgs false

namespace Oracle
open Moments

theorem absR_eq (x : Rat) : OracleSrc.absR x = |x| := by
  unfold OracleSrc.absR
  split
  · next h => rw [abs_of_neg h]
  · next h => rw [abs_of_nonneg (not_lt.mp h)]

/-! ### element-wise facts about the lifted relabel / reweight functions -/

/-- what the reduction needs from a (label, weight) rule: a hard prediction `p` pays `max(x,0) − x·p` -/
def Reduces (lab ab : Rat → Rat) : Prop :=
  ∀ x p : Rat, (p = 0 ∨ p = 1) → (if p = lab x then 0 else ab x) = (if 0 < x then x else 0) - x * p

theorem eg_reduces : Reduces OracleSrc.egLabel OracleSrc.egAbs := by
  intro x p hp
  unfold OracleSrc.egLabel OracleSrc.egAbs
  rw [absR_eq]
  rcases lt_trichotomy x 0 with hx | hx | hx
  · have h1 : ¬ (0 < x) := by linarith
    have h2 : ¬ (0 ≤ x) := by linarith
    rcases hp with rfl | rfl <;> simp [h1, h2, hx, abs_of_neg hx, gt_iff_lt, ge_iff_le]
  · subst hx
    rcases hp with rfl | rfl <;> simp
  · have h2 : (0 : Rat) ≤ x := le_of_lt hx
    rcases hp with rfl | rfl <;> simp [hx, h2, abs_of_pos hx, gt_iff_lt, ge_iff_le]

theorem grid_reduces : Reduces OracleSrc.gridLabel OracleSrc.gridAbs := by
  intro x p hp
  unfold OracleSrc.gridLabel OracleSrc.gridAbs
  rw [absR_eq]
  rcases lt_trichotomy x 0 with hx | hx | hx
  · have h1 : ¬ (0 < x) := by linarith
    have h2 : ¬ (0 ≤ x) := by linarith
    rcases hp with rfl | rfl <;> simp [h1, h2, hx, abs_of_neg hx, gt_iff_lt, ge_iff_le]
  · subst hx
    rcases hp with rfl | rfl <;> simp
  · have h2 : (0 : Rat) ≤ x := le_of_lt hx
    rcases hp with rfl | rfl <;> simp [hx, h2, abs_of_pos hx, gt_iff_lt, ge_iff_le]

theorem egLabel_hard (x : Rat) : OracleSrc.egLabel x = 0 ∨ OracleSrc.egLabel x = 1 := by
  unfold OracleSrc.egLabel; split <;> simp

theorem gridLabel_hard (x : Rat) : OracleSrc.gridLabel x = 0 ∨ OracleSrc.gridLabel x = 1 := by
  unfold OracleSrc.gridLabel; split <;> simp

theorem egAbs_nonneg (x : Rat) : 0 ≤ OracleSrc.egAbs x := by
  unfold OracleSrc.egAbs; rw [absR_eq]; exact abs_nonneg x

theorem gridAbs_nonneg (x : Rat) : 0 ≤ OracleSrc.gridAbs x := by
  unfold OracleSrc.gridAbs; rw [absR_eq]; exact abs_nonneg x

theorem egAbs_zero : OracleSrc.egAbs 0 = 0 := by
  unfold OracleSrc.egAbs; rw [absR_eq]; simp

theorem gridAbs_zero : OracleSrc.gridAbs 0 = 0 := by
  unfold OracleSrc.gridAbs; rw [absR_eq]; simp

/-! ### weighted 0/1 error -/

theorem weighted01_cons (a b p : Rat) (z wt h : List Rat) :
    weighted01 (a :: z) (b :: wt) (p :: h) = (if p = a then 0 else b) + weighted01 z wt h := by
  simp [weighted01]

@[simp] theorem weighted01_nil_h (z wt : List Rat) : weighted01 z wt [] = 0 := by simp [weighted01]
@[simp] theorem weighted01_nil_z (wt h : List Rat) : weighted01 [] wt h = 0 := by simp [weighted01]
@[simp] theorem weighted01_nil_w (z h : List Rat) : weighted01 z [] h = 0 := by simp [weighted01]

/-- relabel + reweight by any rule that `Reduces`: the weighted 0/1 error of a hard `h` is `Σ max(w,0) − w·h` -/
theorem weighted01_of_reduces (lab ab : Rat → Rat) (H : Reduces lab ab) (w h : List Rat)
    (hl : h.length = w.length) (hh : Hard h) :
    weighted01 (w.map lab) (w.map ab) h = Moments.posPart w - dot w h := by
  induction w generalizing h with
  | nil => simp [Moments.posPart]
  | cons x xs ih =>
    cases h with
    | nil => simp at hl
    | cons p ps =>
      simp only [List.length_cons, Nat.add_right_cancel_iff] at hl
      have := ih ps hl (fun y hy => hh y (by simp [hy]))
      simp only [List.map_cons, weighted01_cons, this, H x p (hh p (by simp)), Moments.posPart, List.sum_cons, dot_cons]
      ring

theorem weighted01_nonneg (z wt h : List Rat) (hw : ∀ x ∈ wt, 0 ≤ x) : 0 ≤ weighted01 z wt h := by
  induction z generalizing wt h with
  | nil => simp
  | cons a as ih =>
    cases wt with
    | nil => simp
    | cons b bs =>
      cases h with
      | nil => simp
      | cons p ps =>
        rw [weighted01_cons]
        have h1 := ih bs ps (fun x hx => hw x (by simp [hx]))
        have h2 : 0 ≤ b := hw b (by simp)
        split <;> linarith

/-- a predictor that reproduces the labels has weighted error 0 -/
theorem weighted01_self (z wt : List Rat) : weighted01 z wt z = 0 := by
  induction z generalizing wt with
  | nil => simp
  | cons a as ih =>
    cases wt with
    | nil => simp
    | cons b bs => rw [weighted01_cons, ih bs]; simp

theorem const_eq_replicate (z : List Rat) (c : Rat) (hz : ∀ x ∈ z, x = c) : z = List.replicate z.length c := by
  induction z with
  | nil => simp
  | cons a as ih =>
    have ha : a = c := hz a (by simp)
    have := ih (fun x hx => hz x (by simp [hx]))
    simp only [List.length_cons, List.replicate_succ]
    rw [ha, ← this]

/-- the label of a row whose weight is 0 is irrelevant -/
theorem weighted01_congr_labels (z z' wt h : List Rat) (hlen : z.length = z'.length)
    (H : ∀ t ∈ (z.zip z').zip wt, t.2 = 0 ∨ t.1.1 = t.1.2) :
    weighted01 z wt h = weighted01 z' wt h := by
  induction z generalizing z' wt h with
  | nil => cases z' with
    | nil => rfl
    | cons _ _ => simp at hlen
  | cons a as ih =>
    cases z' with
    | nil => simp at hlen
    | cons a' as' =>
      simp only [List.length_cons, Nat.add_right_cancel_iff] at hlen
      cases wt with
      | nil => simp
      | cons b bs =>
        cases h with
        | nil => simp
        | cons p ps =>
          rw [weighted01_cons, weighted01_cons, ih as' bs ps hlen (fun t ht => H t (by simp [ht]))]
          rcases H ((a, a'), b) (by simp) with hb | ha
          · simp only at hb; subst hb; simp
          · simp only at ha; subst ha; rfl

/-- two label rules that agree wherever the weight rule is non-zero give the same weighted error -/
theorem weighted01_map_congr (f f' ab : Rat → Rat) (w h : List Rat) (H : ∀ x, ab x = 0 ∨ f x = f' x) :
    weighted01 (w.map f) (w.map ab) h = weighted01 (w.map f') (w.map ab) h := by
  induction w generalizing h with
  | nil => simp
  | cons x xs ih =>
    cases h with
    | nil => simp
    | cons p ps =>
      simp only [List.map_cons, weighted01_cons, ih ps]
      rcases H x with h0 | he
      · rw [h0]; simp
      · rw [he]

/-! ### `np.unique` and the shortcut -/

theorem mem_unique (a : Rat) (l : List Rat) : a ∈ unique l ↔ a ∈ l := mem_sortedDistinct _ a l

theorem nodup_unique (l : List Rat) : (unique l).Nodup := nodup_sortedDistinct _ l

theorem unique_singleton (l : List Rat) (c : Rat) (h : unique l = [c]) : ∀ x ∈ l, x = c := by
  intro x hx
  have := (mem_unique x l).mpr hx
  rw [h] at this
  simpa using this

theorem unique_of_const (l : List Rat) (c : Rat) (hne : l ≠ []) (h : ∀ x ∈ l, x = c) : unique l = [c] := by
  have hnd := nodup_unique l
  have hmem : ∀ x ∈ unique l, x = c := fun x hx => h x ((mem_unique x l).mp hx)
  have hc : c ∈ unique l := by
    obtain ⟨a, ha⟩ := List.exists_mem_of_ne_nil l hne
    have := h a ha
    subst this
    exact (mem_unique a l).mpr ha
  generalize unique l = u at hnd hmem hc
  match u, hnd, hmem, hc with
  | [a], _, hmem, _ => rw [hmem a (by simp)]
  | a :: b :: rest, hnd, hmem, _ =>
    have h1 := hmem a (by simp)
    have h2 := hmem b (by simp)
    rw [h1, h2] at hnd
    simp at hnd

/-- the shortcut as lifted (`len(unique) == 1`, `constant = unique[0]`) fires exactly on constant label vectors,
    with that constant, and passes labels and weights on unchanged -/
theorem eg_shortcut_dummy (y w y' w' : List Rat) (c : Rat)
    (h : shortcut OracleSrc.egDummyWhen OracleSrc.egDummyPick y w = .dummy c y' w') :
    y' = y ∧ w' = w ∧ ∀ x ∈ y, x = c := by
  unfold shortcut at h
  simp only [OracleSrc.egDummyWhen, OracleSrc.egDummyPick, decide_eq_true_eq] at h
  split at h
  · next hlen =>
    match hu : unique y, hlen with
    | [a], _ =>
      rw [hu] at h
      simp only [List.getElem?_cons_zero, Call.dummy.injEq] at h
      obtain ⟨rfl, rfl, rfl⟩ := h
      exact ⟨rfl, rfl, unique_singleton y _ hu⟩
  · cases h

theorem grid_shortcut_dummy (y w y' w' : List Rat) (c : Rat)
    (h : shortcut OracleSrc.gridDummyWhen OracleSrc.gridDummyPick y w = .dummy c y' w') :
    y' = y ∧ w' = w ∧ ∀ x ∈ y, x = c := by
  unfold shortcut at h
  simp only [OracleSrc.gridDummyWhen, OracleSrc.gridDummyPick, decide_eq_true_eq] at h
  split at h
  · next hlen =>
    match hu : unique y, hlen with
    | [a], _ =>
      rw [hu] at h
      simp only [List.getElem?_cons_zero, Call.dummy.injEq] at h
      obtain ⟨rfl, rfl, rfl⟩ := h
      exact ⟨rfl, rfl, unique_singleton y _ hu⟩
  · cases h

theorem eg_shortcut_of_const (y w : List Rat) (c : Rat) (hne : y ≠ []) (h : ∀ x ∈ y, x = c) :
    shortcut OracleSrc.egDummyWhen OracleSrc.egDummyPick y w = .dummy c y w := by
  unfold shortcut
  simp [unique_of_const y c hne h, OracleSrc.egDummyWhen, OracleSrc.egDummyPick]

theorem grid_shortcut_of_const (y w : List Rat) (c : Rat) (hne : y ≠ []) (h : ∀ x ∈ y, x = c) :
    shortcut OracleSrc.gridDummyWhen OracleSrc.gridDummyPick y w = .dummy c y w := by
  unfold shortcut
  simp [unique_of_const y c hne h, OracleSrc.gridDummyWhen, OracleSrc.gridDummyPick]

theorem shortcut_fit (when : Nat → Bool) (pick : Nat) (y w y' w' : List Rat)
    (h : shortcut when pick y w = .fit y' w') : y' = y ∧ w' = w := by
  simp only [shortcut] at h
  split at h
  · split at h <;> cases h
  · cases h; exact ⟨rfl, rfl⟩

/-- with the lifted shortcut, `_call_oracle` either fits the learner or a constant on exactly the computed
    labels and weights; the constant is used only when every label equals it -/
theorem eg_shortcut_cases (y w : List Rat) :
    shortcut OracleSrc.egDummyWhen OracleSrc.egDummyPick y w = .fit y w ∨
    ∃ c, shortcut OracleSrc.egDummyWhen OracleSrc.egDummyPick y w = .dummy c y w ∧ ∀ x ∈ y, x = c := by
  by_cases hk : OracleSrc.egDummyWhen (unique y).length = true
  · right
    have hlen : (unique y).length = 1 := by simpa [OracleSrc.egDummyWhen] using hk
    match hu : unique y, hlen with
    | [a], _ =>
      refine ⟨a, ?_, unique_singleton y a hu⟩
      simp [shortcut, hu, OracleSrc.egDummyWhen, OracleSrc.egDummyPick]
  · left
    simp [shortcut, hk]

theorem grid_shortcut_cases (y w : List Rat) :
    shortcut OracleSrc.gridDummyWhen OracleSrc.gridDummyPick y w = .fit y w ∨
    ∃ c, shortcut OracleSrc.gridDummyWhen OracleSrc.gridDummyPick y w = .dummy c y w ∧ ∀ x ∈ y, x = c := by
  by_cases hk : OracleSrc.gridDummyWhen (unique y).length = true
  · right
    have hlen : (unique y).length = 1 := by simpa [OracleSrc.gridDummyWhen] using hk
    match hu : unique y, hlen with
    | [a], _ =>
      refine ⟨a, ?_, unique_singleton y a hu⟩
      simp [shortcut, hu, OracleSrc.gridDummyWhen, OracleSrc.gridDummyPick]
  · left
    simp [shortcut, hk]

/-! ### the signed weights and the normalisation -/

theorem egSignedWeights_eq (ow cw : List Rat) : egSignedWeights ow cw = vadd ow cw := by
  unfold egSignedWeights vadd
  congr 1

theorem gridSignedWeights_eq (cw ow : List Rat) :
    List.zipWith OracleSrc.gridSigned cw ow = vadd ow cw := by
  unfold vadd
  induction cw generalizing ow with
  | nil => cases ow <;> simp
  | cons c cs ih =>
    cases ow with
    | nil => simp
    | cons o os => simp only [List.zipWith_cons_cons, ih os, OracleSrc.gridSigned]; rw [add_comm]

/-- `n·|w| / Σ|w|` is `|w|` scaled by `n / Σ|w|` -/
theorem egNormWeights_scale (w : List Rat) :
    egNormWeights w = (egAbsWeights w).map (fun a => ((w.length : Rat) / (egAbsWeights w).sum) * a) := by
  unfold egNormWeights
  apply List.map_congr_left
  intro a _
  unfold OracleSrc.egNorm
  ring

theorem egAbsWeights_sum_nonneg (w : List Rat) : 0 ≤ (egAbsWeights w).sum := by
  unfold egAbsWeights
  induction w with
  | nil => simp
  | cons x xs ih => simp only [List.map_cons, List.sum_cons]; have := egAbs_nonneg x; linarith

/-! ### the Lagrangian as a function of the predictor -/

/-- `objective(h) + λ·γ(h)` (the bound term of the Lagrangian does not depend on `h`) -/
def lagr (ev : Ev) (rows : List Row) (ratio : Rat) (ut : Util) (fp fn : Rat) (lam h : List Rat) : Rat :=
  errGamma fp fn (labelsOf rows) h + dot lam (gamma ev rows ratio ut h)

/-- the total signed weights `objective weights + signed_weights(λ)` -/
def totalW (ev : Ev) (rows : List Row) (ratio : Rat) (ut : Util) (fp fn : Rat) (lam : List Rat) : List Rat :=
  vadd (errWeights fp fn (labelsOf rows) none) (signedWeights ev rows ratio ut lam)

theorem totalW_length (ev : Ev) (rows : List Row) (ratio : Rat) (ut : Util) (fp fn : Rat) (lam : List Rat) :
    (totalW ev rows ratio ut fp fn lam).length = rows.length := by
  simp [totalW, vadd, errWeights, signedWeights, labelsOf]

theorem vsub_zeros (h : List Rat) : vsub h (List.replicate h.length 0) = h := by
  induction h with
  | nil => simp [vsub]
  | cons x xs ih =>
    simp only [vsub, List.length_cons, List.replicate_succ, List.zipWith_cons_cons] at ih ⊢
    rw [ih]; simp

theorem hard_replicate (n : Nat) (c : Rat) (hc : c = 0 ∨ c = 1) : Hard (List.replicate n c) := by
  intro x hx
  rw [List.mem_replicate] at hx
  rw [hx.2]; exact hc

/-- the gradient form: `L(h) − L(h') = −(1/n) Σ_i w_i (h_i − h'_i)` with `w` the total signed weights -/
theorem lagr_sub (ev : Ev) (rows : List Row) (ratio : Rat) (ut : Util) (fp fn : Rat) (lam h h' : List Rat)
    (hl : h.length = rows.length) (hl' : h'.length = rows.length)
    (hy : Hard (labelsOf rows)) (hh : Soft h) (hh' : Soft h') :
    lagr ev rows ratio ut fp fn lam h - lagr ev rows ratio ut fp fn lam h'
      = -(1 / (rows.length : Rat)) * dot (totalW ev rows ratio ut fp fn lam) (vsub h h') := by
  have hlen : (labelsOf rows).length = rows.length := by simp [labelsOf]
  have e1 := reduction_keys ev rows ratio ut (index ev rows) lam h h' hl hl'
  have e2 : errGamma fp fn (labelsOf rows) h - errGamma fp fn (labelsOf rows) h'
      = -(1 / (rows.length : Rat)) * dot (errWeights fp fn (labelsOf rows) none) (vsub h h') := by
    rw [errGamma_soft fp fn _ h (by rw [hlen, hl]) hy hh, errGamma_soft fp fn _ h' (by rw [hlen, hl']) hy hh']
    have := errNum_sub fp fn (labelsOf rows) h h' (by rw [hlen, hl]) (by rw [hlen, hl'])
    simp only [errWeights]
    rw [← sub_div, this, hlen]; ring
  have e4 : dot (totalW ev rows ratio ut fp fn lam) (vsub h h')
      = dot (errWeights fp fn (labelsOf rows) none) (vsub h h') + dot (signedWeights ev rows ratio ut lam) (vsub h h') :=
    dot_vadd_left _ _ _ (by simp [errWeights, signedWeights, labelsOf])
  unfold lagr
  rw [e4]
  have e1' : dot lam (gamma ev rows ratio ut h) - dot lam (gamma ev rows ratio ut h')
      = -(1 / (rows.length : Rat)) * dot (signedWeights ev rows ratio ut lam) (vsub h h') := e1
  linarith

/-- `Σ_i w_i h_i = −n·(L(h) − L(0))` -/
theorem dot_totalW (ev : Ev) (rows : List Row) (ratio : Rat) (ut : Util) (fp fn : Rat) (lam h : List Rat)
    (hne : rows ≠ []) (hl : h.length = rows.length) (hy : Hard (labelsOf rows)) (hh : Soft h) :
    dot (totalW ev rows ratio ut fp fn lam) h
      = -(rows.length : Rat) * (lagr ev rows ratio ut fp fn lam h
          - lagr ev rows ratio ut fp fn lam (List.replicate rows.length 0)) := by
  have hn : (rows.length : Rat) ≠ 0 := by
    have := List.length_pos_of_ne_nil hne
    exact_mod_cast this.ne'
  have hz : Soft (List.replicate rows.length (0 : Rat)) := (hard_replicate _ 0 (Or.inl rfl)).soft
  have := lagr_sub ev rows ratio ut fp fn lam h (List.replicate rows.length 0) hl (by simp) hy hh hz
  rw [← hl, vsub_zeros, hl] at this
  rw [this]
  field_simp

/-! ### the regression (loss-moment) path -/

theorem dot_nonneg (a b : List Rat) (ha : ∀ x ∈ a, 0 ≤ x) (hb : ∀ x ∈ b, 0 ≤ x) : 0 ≤ dot a b := by
  induction a generalizing b with
  | nil => simp
  | cons x xs ih =>
    cases b with
    | nil => simp
    | cons y ys =>
      rw [dot_cons]
      have := ih ys (fun z hz => ha z (by simp [hz])) (fun z hz => hb z (by simp [hz]))
      have := mul_nonneg (ha x (by simp)) (hb y (by simp))
      linarith

/-- for non-negative multipliers every row's `λ_g / P(g)` is non-negative -/
theorem bglSignedWeights_nonneg (rows : List LRow) (lam : List Rat) (hlam : ∀ x ∈ lam, 0 ≤ x) :
    ∀ x ∈ bglSignedWeights rows (some lam), 0 ≤ x := by
  intro x hx
  simp only [bglSignedWeights, List.mem_map] at hx
  obtain ⟨r, _, rfl⟩ := hx
  unfold MomentsSrc.bglAdjust
  apply div_nonneg
  · unfold lookup
    apply dot_nonneg _ _ _ hlam
    intro y hy
    simp only [List.mem_map] at hy
    obtain ⟨k, _, rfl⟩ := hy
    unfold ind; split <;> norm_num
  · unfold probG
    exact div_nonneg (Nat.cast_nonneg _) (Nat.cast_nonneg _)

theorem egAbsWeights_of_nonneg (w : List Rat) (hw : ∀ x ∈ w, 0 ≤ x) : egAbsWeights w = w := by
  unfold egAbsWeights
  induction w with
  | nil => rfl
  | cons x xs ih =>
    simp only [List.map_cons]
    rw [ih (fun y hy => hw y (by simp [hy]))]
    congr 1
    unfold OracleSrc.egAbs
    rw [absR_eq, abs_of_nonneg (hw x (by simp))]

theorem dot_ones (n : Nat) (v : List Rat) (hl : v.length = n) : dot (List.replicate n 1) v = v.sum := by
  induction n generalizing v with
  | zero => cases v <;> simp_all
  | succ m ih =>
    cases v with
    | nil => simp at hl
    | cons x xs =>
      simp only [List.length_cons, Nat.add_right_cancel_iff] at hl
      simp [List.replicate_succ, ih xs hl]

theorem dot_scale_left (c : Rat) (w v : List Rat) : dot (w.map (fun a => c * a)) v = c * dot w v := by
  have := dot_map_smul c (fun a : Rat => a) w v
  simpa using this

theorem vadd_nonneg (a b : List Rat) (ha : ∀ x ∈ a, 0 ≤ x) (hb : ∀ x ∈ b, 0 ≤ x) : ∀ x ∈ vadd a b, 0 ≤ x := by
  induction a generalizing b with
  | nil => simp [vadd]
  | cons x xs ih =>
    cases b with
    | nil => simp [vadd]
    | cons y ys =>
      intro z hz
      simp only [vadd, List.zipWith_cons_cons, List.mem_cons] at hz
      rcases hz with rfl | hz
      · exact add_nonneg (ha x (by simp)) (hb y (by simp))
      · exact ih ys (fun z hz => ha z (by simp [hz])) (fun z hz => hb z (by simp [hz])) z hz

theorem sum_vadd (a b : List Rat) (hab : a.length = b.length) : (vadd a b).sum = a.sum + b.sum := by
  induction a generalizing b with
  | nil => cases b <;> simp_all [vadd]
  | cons x xs ih =>
    cases b with
    | nil => simp at hab
    | cons y ys =>
      simp only [List.length_cons, Nat.add_right_cancel_iff] at hab
      have := ih ys hab
      simp only [vadd, List.zipWith_cons_cons, List.sum_cons] at this ⊢
      linarith

theorem sum_nonneg' (a : List Rat) (ha : ∀ x ∈ a, 0 ≤ x) : 0 ≤ a.sum := by
  induction a with
  | nil => simp
  | cons x xs ih =>
    have := ih (fun y hy => ha y (by simp [hy]))
    have := ha x (by simp)
    simp only [List.sum_cons]; linarith

/-! ### minimisers -/

/-- `h` is in the class `H` and minimises `f` over it -/
def MinOver (H : List Rat → Prop) (f : List Rat → Rat) (h : List Rat) : Prop := H h ∧ ∀ h', H h' → f h ≤ f h'

/-- an increasing affine transformation does not change the set of minimisers over any class -/
theorem minOver_affine (H : List Rat → Prop) (f g : List Rat → Rat) (a c : Rat) (ha : 0 < a)
    (hfg : ∀ h, H h → f h = a * g h + c) (h : List Rat) : MinOver H f h ↔ MinOver H g h := by
  constructor
  · rintro ⟨hH, hmin⟩
    refine ⟨hH, fun h' hH' => ?_⟩
    have := hmin h' hH'
    rw [hfg h hH, hfg h' hH'] at this
    have : a * g h ≤ a * g h' := by linarith
    exact le_of_mul_le_mul_left this ha
  · rintro ⟨hH, hmin⟩
    refine ⟨hH, fun h' hH' => ?_⟩
    rw [hfg h hH, hfg h' hH']
    have := mul_le_mul_of_nonneg_left (hmin h' hH') ha.le
    linarith

end Oracle
