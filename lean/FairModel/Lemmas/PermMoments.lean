import FairModel.Lemmas.Moments
import FairModel.Lemmas.Perm

/-! Row-order lemmas for the constraint moments (C12): `Moment.index` is the sorted set of observed (event, group)
pairs and does not depend on the row order; `gamma` is invariant under a JOINT permutation of the rows and the
predictor's outputs; `signed_weights` gives every row the weight it has in any other order. -/

namespace Moments

/-! ### insertion sort with a total order yields THE sorted list -/

section sort
variable {α : Type} (le : α → α → Bool)
  (htot : ∀ a b, le a b = true ∨ le b a = true)
  (htr : ∀ a b c, le a b = true → le b c = true → le a c = true)

include htot htr in
theorem pairwise_insertBy (x : α) (l : List α) (hl : l.Pairwise (fun a b => le a b = true)) :
    (insertBy le x l).Pairwise (fun a b => le a b = true) := by
  induction l with
  | nil => simp [insertBy]
  | cons y ys ih =>
    have hy := List.pairwise_cons.mp hl
    unfold insertBy
    split
    · next hxy =>
      refine List.pairwise_cons.mpr ⟨?_, hl⟩
      intro z hz
      rcases List.mem_cons.mp hz with rfl | hz
      · exact hxy
      · exact htr _ _ _ hxy (hy.1 z hz)
    · next hxy =>
      have hyx : le y x = true := by
        rcases htot x y with h | h
        · exact absurd h hxy
        · exact h
      refine List.pairwise_cons.mpr ⟨?_, ih hy.2⟩
      intro z hz
      rcases List.mem_cons.mp ((insertBy_perm le x ys).mem_iff.mp hz) with rfl | hz
      · exact hyx
      · exact hy.1 z hz

include htot htr in
theorem pairwise_sortBy (l : List α) : (sortBy le l).Pairwise (fun a b => le a b = true) := by
  induction l with
  | nil => simp [sortBy]
  | cons x xs ih => exact pairwise_insertBy le htot htr x _ ih

include htot htr in
theorem sortBy_eq_of_perm (hanti : ∀ a b, le a b = true → le b a = true → a = b) {l l' : List α}
    (hp : l.Perm l') : sortBy le l = sortBy le l' :=
  (((sortBy_perm le l).trans hp).trans (sortBy_perm le l').symm).eq_of_pairwise
    (fun a b _ _ hab hba => hanti a b hab hba) (pairwise_sortBy le htot htr l) (pairwise_sortBy le htot htr l')

theorem dedupFirst_perm [DecidableEq α] {l l' : List α} (hm : ∀ x, x ∈ l ↔ x ∈ l') :
    (dedupFirst l).Perm (dedupFirst l') := by
  rw [List.perm_ext_iff_of_nodup (nodup_dedupFirst l) (nodup_dedupFirst l')]
  intro x
  rw [mem_dedupFirst, mem_dedupFirst]
  exact hm x

include htot htr in
/-- `sortedDistinct` depends only on the SET of values -/
theorem sortedDistinct_congr [DecidableEq α] (hanti : ∀ a b, le a b = true → le b a = true → a = b)
    {l l' : List α} (hm : ∀ x, x ∈ l ↔ x ∈ l') : sortedDistinct le l = sortedDistinct le l' :=
  sortBy_eq_of_perm le htot htr hanti (dedupFirst_perm hm)

end sort

/-! ### the two orders used by the moments -/

theorem strLe_total (a b : String) : strLe a b = true ∨ strLe b a = true := by
  simp only [strLe, decide_eq_true_eq]; exact String.le_total a b

theorem strLe_trans (a b c : String) : strLe a b = true → strLe b c = true → strLe a c = true := by
  simp only [strLe, decide_eq_true_eq]; exact String.le_trans

theorem strLe_antisymm (a b : String) : strLe a b = true → strLe b a = true → a = b := by
  simp only [strLe, decide_eq_true_eq]; exact String.le_antisymm

theorem pairLe_iff (a b : String × String) : pairLe a b = true ↔ a.1 < b.1 ∨ (a.1 = b.1 ∧ a.2 ≤ b.2) := by
  simp [pairLe]

theorem pairLe_total (a b : String × String) : pairLe a b = true ∨ pairLe b a = true := by
  rw [pairLe_iff, pairLe_iff]
  by_cases h1 : a.1 < b.1
  · exact Or.inl (Or.inl h1)
  by_cases h2 : b.1 < a.1
  · exact Or.inr (Or.inl h2)
  have he : a.1 = b.1 := String.le_antisymm (String.not_lt.mp h2) (String.not_lt.mp h1)
  rcases String.le_total a.2 b.2 with h | h
  · exact Or.inl (Or.inr ⟨he, h⟩)
  · exact Or.inr (Or.inr ⟨he.symm, h⟩)

theorem pairLe_trans (a b c : String × String) : pairLe a b = true → pairLe b c = true → pairLe a c = true := by
  rw [pairLe_iff, pairLe_iff, pairLe_iff]
  rintro (h1 | ⟨h1, h1'⟩) (h2 | ⟨h2, h2'⟩)
  · exact Or.inl (String.lt_trans h1 h2)
  · exact Or.inl (h2 ▸ h1)
  · exact Or.inl (h1 ▸ h2)
  · exact Or.inr ⟨h1.trans h2, String.le_trans h1' h2'⟩

theorem pairLe_antisymm (a b : String × String) : pairLe a b = true → pairLe b a = true → a = b := by
  rw [pairLe_iff, pairLe_iff]
  rintro (h1 | ⟨h1, h1'⟩) (h2 | ⟨h2, h2'⟩)
  · exact absurd h2 (String.lt_asymm h1)
  · rw [h2] at h1; exact absurd h1 (String.lt_irrefl _)
  · rw [h1] at h2; exact absurd h2 (String.lt_irrefl _)
  · exact Prod.ext h1 (String.le_antisymm h1' h2')

/-! ### index -/

theorem pairs_perm (ev : Ev) {rows rows' : List Row} (hp : rows.Perm rows') :
    (pairs ev rows).Perm (pairs ev rows') := hp.filterMap _

theorem observedPairs_perm (ev : Ev) {rows rows' : List Row} (hp : rows.Perm rows') :
    observedPairs ev rows = observedPairs ev rows' :=
  sortedDistinct_congr pairLe pairLe_total pairLe_trans pairLe_antisymm (fun _ => (pairs_perm ev hp).mem_iff)

/-- `Moment.index` does not depend on the order of the rows -/
theorem index_perm (ev : Ev) {rows rows' : List Row} (hp : rows.Perm rows') : index ev rows = index ev rows' := by
  unfold index; rw [observedPairs_perm ev hp]

theorem bglIndex_perm {rows rows' : List LRow} (hp : rows.Perm rows') : bglIndex rows = bglIndex rows' :=
  sortedDistinct_congr strLe strLe_total strLe_trans strLe_antisymm (fun _ => (hp.map _).mem_iff)

/-! ### probabilities and the matrix U -/

theorem countE_perm (ev : Ev) {rows rows' : List Row} (hp : rows.Perm rows') (e : String) :
    countE ev rows e = countE ev rows' e := (hp.filter _).length_eq

theorem countEG_perm (ev : Ev) {rows rows' : List Row} (hp : rows.Perm rows') (e g : String) :
    countEG ev rows e g = countEG ev rows' e g := (hp.filter _).length_eq

theorem probE_perm (ev : Ev) {rows rows' : List Row} (hp : rows.Perm rows') (e : String) :
    probE ev rows e = probE ev rows' e := by
  unfold probE; rw [countE_perm ev hp, hp.length_eq]

theorem probEG_perm (ev : Ev) {rows rows' : List Row} (hp : rows.Perm rows') (e g : String) :
    probEG ev rows e g = probEG ev rows' e g := by
  unfold probEG; rw [countEG_perm ev hp, hp.length_eq]

/-- the row of `U` belonging to a sample does not depend on where the sample sits in the data -/
theorem uEntry_perm (ev : Ev) {rows rows' : List Row} (hp : rows.Perm rows') (ratio : Rat) (r : Row) (k : Key) :
    uEntry ev rows ratio r k = uEntry ev rows' ratio r k := by
  unfold uEntry; rw [probE_perm ev hp, probEG_perm ev hp]

/-! ### sums over aligned vectors as sums over the zipped list -/

theorem dot_map_zipWith {β : Type} (u : β → Rat) (g : β → Rat → Rat) (rows : List β) (h : List Rat) :
    dot (rows.map u) (List.zipWith g rows h) = ((rows.zip h).map (fun p => u p.1 * g p.1 p.2)).sum := by
  induction rows generalizing h with
  | nil => simp
  | cons r rs ih =>
    cases h with
    | nil => simp
    | cons x xs => simp [ih]

theorem zip_fst_perm {β γ : Type} {a a' : List β} {b b' : List γ} (hl : a.length = b.length)
    (hl' : a'.length = b'.length) (hp : (a.zip b).Perm (a'.zip b')) : a.Perm a' := by
  have h1 := hp.map Prod.fst
  rwa [List.map_fst_zip (by omega), List.map_fst_zip (by omega)] at h1

theorem zip_map_self {β γ : Type} (F : β → γ) (l : List β) : l.zip (l.map F) = l.map (fun r => (r, F r)) := by
  induction l with
  | nil => rfl
  | cons a l ih => simp [ih]

/-! ### gamma -/

theorem gammaAt_joint_perm (ev : Ev) (ratio : Rat) (ut : Util) {rows rows' : List Row} {h h' : List Rat}
    (hl : rows.length = h.length) (hl' : rows'.length = h'.length)
    (hp : (rows.zip h).Perm (rows'.zip h')) (k : Key) :
    gammaAt ev rows ratio ut h k = gammaAt ev rows' ratio ut h' k := by
  have hr : rows.Perm rows' := zip_fst_perm hl hl' hp
  unfold gammaAt uCol predOf
  rw [dot_map_zipWith, dot_map_zipWith, hr.length_eq]
  have hf : (fun p : Row × Rat => uEntry ev rows ratio p.1 k * MomentsSrc.predOf (ut.ud p.1) p.2 (ut.u0 p.1)) =
      (fun p : Row × Rat => uEntry ev rows' ratio p.1 k * MomentsSrc.predOf (ut.ud p.1) p.2 (ut.u0 p.1)) := by
    funext p; rw [uEntry_perm ev hr]
  rw [hf]
  have hs := (hp.map (fun p : Row × Rat =>
    uEntry ev rows' ratio p.1 k * MomentsSrc.predOf (ut.ud p.1) p.2 (ut.u0 p.1))).sum_eq
  rw [hs]

/-! ### signed weights (row aligned) -/

/-- the weight of one sample, computed from a data set `rows` it belongs to -/
def rowWeight (ev : Ev) (rows : List Row) (ratio : Rat) (ut : Util) (lam : List Rat) (r : Row) : Rat :=
  MomentsSrc.swOf (ut.ud r) (dot ((index ev rows).map (uEntry ev rows ratio r)) lam)

theorem signedWeights_eq_map (ev : Ev) (rows : List Row) (ratio : Rat) (ut : Util) (lam : List Rat) :
    signedWeights ev rows ratio ut lam = rows.map (rowWeight ev rows ratio ut lam) := rfl

theorem rowWeight_perm (ev : Ev) {rows rows' : List Row} (hp : rows.Perm rows') (ratio : Rat) (ut : Util)
    (lam : List Rat) (r : Row) : rowWeight ev rows ratio ut lam r = rowWeight ev rows' ratio ut lam r := by
  unfold rowWeight
  rw [index_perm ev hp]
  congr 3
  funext k
  exact uEntry_perm ev hp ratio r k

/-! ### ErrorRate and the loss moments -/

theorem vsub_eq_zip (ys h : List Rat) : vsub ys h = (ys.zip h).map (fun p => p.1 - p.2) := by
  unfold vsub
  induction ys generalizing h with
  | nil => simp
  | cons y ys ih =>
    cases h with
    | nil => simp
    | cons x xs => simp [ih]

theorem errGamma_joint_perm (fp fn : Rat) {ys ys' h h' : List Rat} (hl : ys.length = h.length)
    (hl' : ys'.length = h'.length) (hp : (ys.zip h).Perm (ys'.zip h')) :
    errGamma fp fn ys h = errGamma fp fn ys' h' := by
  have hy : ys.Perm ys' := zip_fst_perm hl hl' hp
  unfold errGamma
  simp only [vsub_eq_zip]
  have hq := hp.map (fun p : Rat × Rat => p.1 - p.2)
  have h1 := ((hq.filter (fun x => decide (0 < x))).map (fun x => x * fn)).sum_eq
  have h2 := ((hq.filter (fun x => decide (x < 0))).map (fun x => -x * fp)).sum_eq
  rw [h1, h2, hy.length_eq]

theorem countG_perm {rows rows' : List LRow} (hp : rows.Perm rows') (g : String) : countG rows g = countG rows' g :=
  (hp.filter _).length_eq

theorem sum_zipWith_zipWith {β : Type} (u : β → Rat → Rat) (g : β → Rat → Rat) (rows : List β) (h : List Rat) :
    (List.zipWith u rows (List.zipWith g rows h)).sum = ((rows.zip h).map (fun p => u p.1 (g p.1 p.2))).sum := by
  induction rows generalizing h with
  | nil => simp
  | cons r rs ih =>
    cases h with
    | nil => simp
    | cons x xs => simp [ih]

theorem bglGammaAt_joint_perm (l : Loss) {rows rows' : List LRow} {h h' : List Rat}
    (hl : rows.length = h.length) (hl' : rows'.length = h'.length) (hp : (rows.zip h).Perm (rows'.zip h'))
    (g : String) : bglGammaAt l rows h g = bglGammaAt l rows' h' g := by
  have hr : rows.Perm rows' := zip_fst_perm hl hl' hp
  unfold bglGammaAt lossOf
  rw [sum_zipWith_zipWith, sum_zipWith_zipWith, countG_perm hr]
  have hs := (hp.map (fun p : LRow × Rat => ind (p.1.g == g) * l.evalS p.1.y p.2)).sum_eq
  rw [hs]

theorem probG_perm {rows rows' : List LRow} (hp : rows.Perm rows') (g : String) : probG rows g = probG rows' g := by
  unfold probG; rw [countG_perm hp, hp.length_eq]

end Moments
