/-
Generic facts about the `Lifecycle.Machine`s: a machine whose states are the image of the specification's
states under an embedding that commutes with every step *is* the specification, for every call history.
-/
import FairModel.Lemmas.Prelude
import FairModel.Model.Lifecycle

namespace Lifecycle
namespace Machine
variable {σ τ : Type}

theorem runFrom_append (M : Machine σ) (s : σ) (a b : List Op) :
    M.runFrom s (a ++ b) = M.runFrom (M.runFrom s a) b := by
  simp [runFrom, List.foldl_append]

theorem run_snoc (M : Machine σ) (ops : List Op) (o : Op) :
    M.run (ops ++ [o]) = (M.step (M.run ops) o).1 := by
  simp [run, runFrom, List.foldl_append]

theorem run_single (M : Machine σ) (o : Op) : M.run [o] = (M.step M.init o).1 := rfl

/-- functional simulation on states: if `emb` commutes with every step, it commutes with every history -/
theorem runFrom_eq_embed (M : Machine σ) (N : Machine τ) (emb : τ → σ)
    (hstep : ∀ t o, (M.step (emb t) o).1 = emb (N.step t o).1) :
    ∀ (ops : List Op) (t : τ), M.runFrom (emb t) ops = emb (N.runFrom t ops) := by
  intro ops
  induction ops with
  | nil => intro t; rfl
  | cons o os ih =>
    intro t
    show M.runFrom (M.step (emb t) o).1 os = emb (N.runFrom (N.step t o).1 os)
    rw [hstep, ih]

theorem run_eq_embed (M : Machine σ) (N : Machine τ) (emb : τ → σ)
    (h0 : M.init = emb N.init)
    (hstep : ∀ t o, (M.step (emb t) o).1 = emb (N.step t o).1) (ops : List Op) :
    M.run ops = emb (N.run ops) := by
  unfold run; rw [h0]; exact runFrom_eq_embed M N emb hstep ops N.init

/-- ... and if results and observable classes agree too, the two machines show the same view -/
theorem traceFrom_view_eq (M : Machine σ) (N : Machine τ) (emb : τ → σ) (c : σ → Cls) (c' : τ → Cls)
    (hstep : ∀ t o, (M.step (emb t) o).1 = emb (N.step t o).1)
    (hres : ∀ t o, (M.step (emb t) o).2 = (N.step t o).2)
    (hcls : ∀ t, c (emb t) = c' t) :
    ∀ (ops : List Op) (t : τ),
      (M.traceFrom (emb t) ops).map (fun p => (p.1, c p.2)) = (N.traceFrom t ops).map (fun p => (p.1, c' p.2)) := by
  intro ops
  induction ops with
  | nil => intro t; rfl
  | cons o os ih =>
    intro t
    simp only [traceFrom, List.map_cons]
    rw [hstep, hres, hcls, ih]

theorem view_eq_of_embed (M : Machine σ) (N : Machine τ) (emb : τ → σ) (c : σ → Cls) (c' : τ → Cls)
    (h0 : M.init = emb N.init)
    (hstep : ∀ t o, (M.step (emb t) o).1 = emb (N.step t o).1)
    (hres : ∀ t o, (M.step (emb t) o).2 = (N.step t o).2)
    (hcls : ∀ t, c (emb t) = c' t) (ops : List Op) :
    M.view c ops = N.view c' ops := by
  unfold view trace; rw [h0]
  exact traceFrom_view_eq M N emb c c' hstep hres hcls ops N.init

/-- relational simulation: related states stay related, give the same results and look the same -/
theorem traceFrom_view_eq_of_sim (M : Machine σ) (N : Machine τ) (R : σ → τ → Prop) (c : σ → Cls) (c' : τ → Cls)
    (hstep : ∀ s t o, R s t → R (M.step s o).1 (N.step t o).1 ∧ (M.step s o).2 = (N.step t o).2)
    (hcls : ∀ s t, R s t → c s = c' t) :
    ∀ (ops : List Op) (s : σ) (t : τ), R s t →
      (M.traceFrom s ops).map (fun p => (p.1, c p.2)) = (N.traceFrom t ops).map (fun p => (p.1, c' p.2)) := by
  intro ops
  induction ops with
  | nil => intro s t _; rfl
  | cons o os ih =>
    intro s t h
    obtain ⟨h1, h2⟩ := hstep s t o h
    simp only [traceFrom, List.map_cons]
    rw [h2, hcls _ _ h1, ih _ _ h1]

theorem view_eq_of_sim (M : Machine σ) (N : Machine τ) (R : σ → τ → Prop) (c : σ → Cls) (c' : τ → Cls)
    (h0 : R M.init N.init)
    (hstep : ∀ s t o, R s t → R (M.step s o).1 (N.step t o).1 ∧ (M.step s o).2 = (N.step t o).2)
    (hcls : ∀ s t, R s t → c s = c' t) (ops : List Op) :
    M.view c ops = N.view c' ops :=
  traceFrom_view_eq_of_sim M N R c c' hstep hcls ops M.init N.init h0

/-- the same machine with the *result* of `pickle` not looked at (its effect on the state is kept) -/
def maskPickle (M : Machine σ) : Machine σ where
  init := M.init
  step s o := match o with
    | .pickle => ((M.step s o).1, .ok)
    | _ => M.step s o

/-- the specification: what a history ends in -/
theorem spec_run_snoc_fit (ops : List Op) (d : Data) : Spec.run (ops ++ [.fit d]) = some d := by
  rw [run_snoc]; rfl

end Machine

/-! embeddings of the specification state into each machine (the states a *repaired* machine can reach) -/

def gsEmb (t : Option Data) : GSState := ⟨Moment.new, t.map some, t⟩

def egEmb (nuGiven : Bool) (t : Option Data) : EGState :=
  ⟨Moment.new, if nuGiven then some .given else none, t.isSome, t.map (fun d => (d, egFreshNu nuGiven d))⟩

def toEmb (t : Option Data) : TOState := ⟨[], t.map (fun d => ([d], d))⟩

def crEmb (t : Option Data) : CRState := ⟨t.map (·.width), t⟩

def advEmb : Option Data → AdvState
  | none => advInit
  | some d => ⟨true, true, some [d]⟩

/-! named witnesses used by the property file -/

def D1 : Data := ⟨1, 3⟩
def D2 : Data := ⟨2, 3⟩
/-- a data set with a different number of columns -/
def D2w : Data := ⟨2, 4⟩

def gsRepaired : GSRules := ⟨.repaired, .copyPerFit⟩
def egRepaired : EGRules := ⟨.copyPerFit, .repaired⟩
def gsReentrant : GSRules := ⟨.repaired, .reentrant⟩
def egReentrant : EGRules := ⟨.reentrant, .repaired⟩

end Lifecycle

/-! ## review R2: totalisation facts about the driver glue and generic "identity step" lemmas -/

namespace Lifecycle
namespace Machine
variable {σ : Type}

/-- one trace record per operation: nothing is dropped or invented -/
theorem traceFrom_length (M : Machine σ) : ∀ (ops : List Op) (s : σ), (M.traceFrom s ops).length = ops.length := by
  intro ops
  induction ops with
  | nil => intro s; rfl
  | cons o os ih => intro s; simp [traceFrom, ih]

theorem view_length (M : Machine σ) (c : σ → Cls) (ops : List Op) : (M.view c ops).length = ops.length := by
  simp [view, trace, traceFrom_length]

/-- an operation whose step is the identity on states can be dropped from the end of a history -/
theorem run_snoc_of_step_id (M : Machine σ) (o : Op) (h : ∀ s, (M.step s o).1 = s) (ops : List Op) :
    M.run (ops ++ [o]) = M.run ops := by
  rw [run_snoc, h]

end Machine

/-- `changedCol` has one entry per operation, so the `zip` inside `fmtView` truncates nothing -/
theorem changedCol_length {σ π : Type} [DecidableEq π] (M : Machine σ) (params : σ → π) (name : String)
    (ops : List Op) : (changedCol M params name ops).length = ops.length := by
  simp [changedCol, Machine.trace, Machine.traceFrom_length]

theorem onlyAtFit_length (ops : List Op) (cs : List String) (h : cs.length = ops.length) :
    (onlyAtFit ops cs).length = ops.length := by
  simp [onlyAtFit, h]

end Lifecycle
