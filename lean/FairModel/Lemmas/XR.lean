import FairModel.Lemmas.Prelude
import FairModel.Model.XRArith

/-! Facts about the NaN-skipping minimum / maximum on extended rationals. -/

namespace XR

/-- only NaN or finite values (what a table of scalar metric values contains) -/
def FinNan (l : List XR) : Prop := ∀ x ∈ l, x = nan ∨ ∃ q, x = fin q

/-- the finite entries -/
def fins : List XR → List Rat
  | [] => []
  | fin q :: l => q :: fins l
  | _ :: l => fins l

@[simp] theorem fins_nil : fins [] = [] := rfl
@[simp] theorem fins_cons_fin (q : Rat) (l : List XR) : fins (fin q :: l) = q :: fins l := rfl
@[simp] theorem fins_cons_nan (l : List XR) : fins (nan :: l) = fins l := rfl

theorem mem_fins {l : List XR} {q : Rat} : q ∈ fins l ↔ fin q ∈ l := by
  induction l with
  | nil => simp
  | cons x l ih =>
    cases x <;> simp [fins, ih]

theorem FinNan.tail {x : XR} {l : List XR} (h : FinNan (x :: l)) : FinNan l :=
  fun y hy => h y (List.mem_cons_of_mem _ hy)

@[simp] theorem minSkip_nil : minSkip [] = nan := rfl
@[simp] theorem maxSkip_nil : maxSkip [] = nan := rfl
theorem minSkip_cons (x : XR) (l : List XR) : minSkip (x :: l) = minSkip2 x (minSkip l) := rfl
theorem maxSkip_cons (x : XR) (l : List XR) : maxSkip (x :: l) = maxSkip2 x (maxSkip l) := rfl

@[simp] theorem minSkip2_nan_left (y : XR) : minSkip2 nan y = y := by simp [minSkip2, isNan]
@[simp] theorem maxSkip2_nan_left (y : XR) : maxSkip2 nan y = y := by simp [maxSkip2, isNan]
@[simp] theorem minSkip2_fin_nan (q : Rat) : minSkip2 (fin q) nan = fin q := by simp [minSkip2, isNan]
@[simp] theorem maxSkip2_fin_nan (q : Rat) : maxSkip2 (fin q) nan = fin q := by simp [maxSkip2, isNan]
theorem minSkip2_fin_fin (a b : Rat) : minSkip2 (fin a) (fin b) = fin (if b < a then b else a) := by
  by_cases h : b < a <;> simp [minSkip2, isNan, lt, h]
theorem maxSkip2_fin_fin (a b : Rat) : maxSkip2 (fin a) (fin b) = fin (if a < b then b else a) := by
  by_cases h : a < b <;> simp [maxSkip2, isNan, lt, h]

/-- On a NaN/finite list the skipping minimum is NaN exactly when there is no finite entry;
    otherwise it is a finite entry that is a lower bound of all finite entries. -/
theorem minSkip_spec {l : List XR} (h : FinNan l) :
    (fins l = [] ∧ minSkip l = nan) ∨
    (∃ m, minSkip l = fin m ∧ m ∈ fins l ∧ ∀ q ∈ fins l, m ≤ q) := by
  induction l with
  | nil => left; simp
  | cons x l ih =>
    have ih := ih h.tail
    rcases h x (by simp) with rfl | ⟨a, rfl⟩
    · simpa [minSkip_cons] using ih
    · right
      rcases ih with ⟨h0, hn⟩ | ⟨m, hm, hmem, hle⟩
      · exact ⟨a, by simp [minSkip_cons, hn], by simp, by simp [h0]⟩
      · rw [minSkip_cons, hm, minSkip2_fin_fin]
        by_cases hlt : m < a
        · refine ⟨m, by simp [hlt], by simp [hmem], ?_⟩
          intro q hq
          rcases List.mem_cons.mp (by simpa using hq) with rfl | hq
          · exact le_of_lt hlt
          · exact hle q hq
        · refine ⟨a, by simp [hlt], by simp, ?_⟩
          intro q hq
          rcases List.mem_cons.mp (by simpa using hq) with rfl | hq
          · exact le_refl _
          · exact le_trans (not_lt.mp hlt) (hle q hq)

theorem maxSkip_spec {l : List XR} (h : FinNan l) :
    (fins l = [] ∧ maxSkip l = nan) ∨
    (∃ m, maxSkip l = fin m ∧ m ∈ fins l ∧ ∀ q ∈ fins l, q ≤ m) := by
  induction l with
  | nil => left; simp
  | cons x l ih =>
    have ih := ih h.tail
    rcases h x (by simp) with rfl | ⟨a, rfl⟩
    · simpa [maxSkip_cons] using ih
    · right
      rcases ih with ⟨h0, hn⟩ | ⟨m, hm, hmem, hle⟩
      · exact ⟨a, by simp [maxSkip_cons, hn], by simp, by simp [h0]⟩
      · rw [maxSkip_cons, hm, maxSkip2_fin_fin]
        by_cases hlt : a < m
        · refine ⟨m, by simp [hlt], by simp [hmem], ?_⟩
          intro q hq
          rcases List.mem_cons.mp (by simpa using hq) with rfl | hq
          · exact le_of_lt hlt
          · exact hle q hq
        · refine ⟨a, by simp [hlt], by simp, ?_⟩
          intro q hq
          rcases List.mem_cons.mp (by simpa using hq) with rfl | hq
          · exact le_refl _
          · exact le_trans (hle q hq) (not_lt.mp hlt)

/-- apply a rational function to the finite entries, keep NaN -/
def mapFin (g : Rat → Rat) : XR → XR
  | fin q => fin (g q)
  | x => x

theorem finNan_map_mapFin (g : Rat → Rat) {l : List XR} (h : FinNan l) : FinNan (l.map (mapFin g)) := by
  intro x hx
  obtain ⟨y, hy, rfl⟩ := List.mem_map.mp hx
  rcases h y hy with rfl | ⟨q, rfl⟩
  · left; rfl
  · right; exact ⟨g q, rfl⟩

theorem fins_map_mapFin (g : Rat → Rat) {l : List XR} (h : FinNan l) :
    fins (l.map (mapFin g)) = (fins l).map g := by
  induction l with
  | nil => rfl
  | cons x l ih =>
    rcases h x (by simp) with rfl | ⟨q, rfl⟩
    · simpa [mapFin] using ih h.tail
    · simp [mapFin, ih h.tail]

/-- `|v - s|` on a NaN/finite value with a finite subtrahend -/
theorem abs_sub_fin (x : XR) (s : Rat) (hx : x = nan ∨ ∃ q, x = fin q) :
    abs (sub x (fin s)) = mapFin (fun q => |q - s|) x := by
  rcases hx with rfl | ⟨q, rfl⟩
  · rfl
  · simp only [sub, neg, add, abs, mapFin]
    congr 1
    by_cases h : q + -s < 0
    · rw [if_pos h, abs_of_neg (by linarith)]; ring
    · rw [if_neg h, abs_of_nonneg (by linarith)]; ring

theorem abs_sub_nan (x : XR) : abs (sub x nan) = nan := by
  cases x <;> rfl

/-- the skipping min/max is NaN or one of the entries -/
theorem minSkip_mem (l : List XR) : minSkip l = nan ∨ minSkip l ∈ l := by
  induction l with
  | nil => left; rfl
  | cons x l ih =>
    rw [minSkip_cons]
    unfold minSkip2
    split
    · rcases ih with h | h
      · left; exact h
      · right; exact List.mem_cons_of_mem _ h
    · split
      · right; simp
      · split
        · rcases ih with h | h
          · left; exact h
          · right; exact List.mem_cons_of_mem _ h
        · right; simp

end XR
