/-
Line-protocol driver: one case per input line, one canonical result line per case.
Imports model files only (no Mathlib), so it links as a native executable.
-/
import FairModel.Model.Proto
import FairModel.Model.BaseMetrics

def handlers : List (List String → Option String) :=
  [BaseMetrics.handle]

def step (line : String) : String :=
  let toks := (line.trimAscii.toString.splitOn " ").filter (· ≠ "")
  match handlers.findSome? (fun h => h toks) with
  | some out => out
  | none => "bad-op"

partial def loop (h : IO.FS.Stream) (out : IO.FS.Stream) : IO Unit := do
  let line ← h.getLine
  if line.isEmpty then return ()
  out.putStrLn (step line)
  loop h out

def main : IO Unit := do
  let out ← IO.getStdout
  loop (← IO.getStdin) out
  out.flush
