"""Generic check runner: translate -> lake build -> axiom audit -> corpus + generated cases
through (implementation, Lean driver, property oracle) -> shrink / failing-input search ->
evidence + exit code.  One subclass of `Check` per property lives in harness/props/."""
import hashlib
import json
import multiprocessing as mp
import os
import random
import sys
import time
import traceback

from . import leanrun

VERIF = leanrun.VERIF
REPO = os.environ.get("VERIF_REPO", "/repo")
EVIDENCE_DIR = os.environ.get("VERIF_EVIDENCE_DIR", os.path.join(VERIF, "evidence"))
REPLAY_DIR = os.environ.get("VERIF_REPLAY_DIR", os.path.join(VERIF, "replays"))
CORPUS_DIR = os.path.join(VERIF, "corpus")
KNOWN_FILE = os.path.join(VERIF, "known_findings.json")

BASE_TRUSTED = [
    "Lean 4.33 kernel; axioms reported by the per-run audit (subset of propext, Classical.choice, Quot.sound)",
    "harness/translate.py (Python ast -> Generated/*.lean) for the table/expression fragments it lifts",
    "correspondence check = differential testing of fairlearn vs the compiled Lean driver on generated inputs (not a proof)",
    "IEEE-754 rounding is not modelled: model is exact Rat, inputs are exactly representable, comparison uses a stated tolerance",
]


class Problem:
    """kind: 'property' (implementation output fails the property's own oracle on this input),
             'correspondence' (implementation and Lean model disagree),
             'harness' (model and oracle disagree: a bug in this machinery)."""

    def __init__(self, kind, msg, relation=None):
        self.kind, self.msg, self.relation = kind, msg, relation

    def to_json(self):
        return {"kind": self.kind, "msg": self.msg, "relation": self.relation}


class Check:
    pid = "C00"
    module = None  # default FairModel.Properties.<pid>
    namespace = None
    extra_build = ()  # further lake targets
    quick_budget_s = 90
    thorough_budget_s = 900
    quick_cases = 400
    thorough_cases = 8000
    workers_thorough = 14
    use_pool = True
    trusted = ()
    assumptions = ()
    rule = ""
    explanation = ""
    # end-to-end composition relations of harness/crosscheck.py wired into this check:
    # tuple of (crosscheck function name, set of relation names that belong to this property)
    cross = ()
    cross_cases_quick = 10
    cross_cases_thorough = 150

    # ---- to be provided by subclasses -------------------------------------------
    def generate(self, rng, tier):
        return iter(())

    def exhaustive(self, tier):
        """finite enumerations (thorough tier); yields cases"""
        return iter(())

    def impl(self, case):
        raise NotImplementedError

    def lines(self, case, impl_out):
        return []

    def judge(self, case, impl_out, model_out):
        """model_out is None when only the property oracle is wanted."""
        return []

    def signature(self, case, impl_out):
        """(distinct key, non-trivial?, tags)"""
        return (json.dumps(case, sort_keys=True, default=str), True, [])

    def shrink(self, case):
        return iter(())

    def known(self, case, problem, entries):
        """return the known-finding entry this problem matches, or None"""
        return None

    def corpus_cases(self):
        d = os.path.join(CORPUS_DIR, self.pid)
        out = []
        if os.path.isdir(d):
            for fn in sorted(os.listdir(d)):
                if fn.endswith(".json"):
                    with open(os.path.join(d, fn)) as f:
                        c = json.load(f)
                    out.append(c.get("case", c))
        return out

    # ---- plumbing ---------------------------------------------------------------
    def safe_impl(self, case):
        try:
            return self.impl(case)
        except Exception as e:  # noqa: BLE001
            return {"crash": type(e).__name__, "detail": "".join(traceback.format_exception_only(type(e), e))[-400:]}


_REGISTRY = {}


def register(cls):
    _REGISTRY[cls.pid] = cls
    return cls


_CUR = None


def _pool_impl(case):
    return _CUR.safe_impl(case)


def _jsonable(x):
    try:
        json.dumps(x)
        return x
    except TypeError:
        return json.loads(json.dumps(x, default=str))


def write_replay(pid, payload):
    os.makedirs(REPLAY_DIR, exist_ok=True)
    h = hashlib.sha1(json.dumps(payload, sort_keys=True, default=str).encode()).hexdigest()[:12]
    path = os.path.join(REPLAY_DIR, f"{pid}-{h}.json")
    with open(path, "w") as f:
        json.dump(payload, f, indent=1, default=str)
    return path


def load_known(pid):
    try:
        with open(KNOWN_FILE) as f:
            data = json.load(f)
    except OSError:
        return []
    return [e for e in data.get("findings", []) if e.get("property") == pid and e.get("status") == "known"]


def run_check(check, tier, seed, replay=None, max_cases=None):
    global _CUR
    _CUR = check
    t0 = time.time()
    pid = check.pid
    module = check.module or f"FairModel.Properties.{pid}"
    namespace = check.namespace or pid
    budget = check.quick_budget_s if tier == "quick" else check.thorough_budget_s
    ncases = check.quick_cases if tier == "quick" else check.thorough_cases
    if max_cases:
        ncases = max_cases
    # VERIF_BUDGET_SCALE=k: soundness stress runs on the clean tree (k times the wall-clock budget and case count), so
    # that a run on a faster or quieter machine cannot reach cases that were never explored before registration
    scale = float(os.environ.get("VERIF_BUDGET_SCALE", "1"))
    if scale != 1:
        budget, ncases = budget * scale, int(ncases * scale)
    log = lambda *a: print(*a, flush=True)  # noqa: E731

    # 1. translator ------------------------------------------------------------------
    from . import translate
    tr_problems = []
    try:
        tr_info = translate.run(REPO)
    except translate.Untranslatable as e:
        tr_info = {"error": str(e)}
        tr_problems.append(str(e))
    refused = tr_info.get("_refused", {}) if isinstance(tr_info, dict) else {}
    if refused:
        # a refusal breaks the tie only of the properties whose Lean modules import the refused generated file
        deps = translate.generated_deps(module)
        for mod in check.extra_build:
            deps |= translate.generated_deps(mod)
        for target, msg in sorted(refused.items()):
            if target.startswith("?") or target in deps:
                tr_problems.append(msg)
            else:
                log(f"[{pid}] note: lifter refusal outside this property's imports ({target}): {msg[:160]}")
    log(f"[{pid}] translator: {tr_info}")

    # 2. build + audit -------------------------------------------------------------------
    ok_drv, log_drv, t_drv = leanrun.build(["driver"])
    ok_prop, log_prop, t_prop = leanrun.build([module] + list(check.extra_build))
    proof_broken = []
    thms = {}
    if ok_prop:
        thms, audit_log = leanrun.audit(namespace, module)
        if not thms:
            proof_broken.append({"decl": "audit", "msg": "audit produced no theorems: " + audit_log[-300:]})
    else:
        proof_broken = leanrun.failing_decls(log_prop) or [{"decl": "?", "msg": log_prop[-600:]}]
    forbidden = leanrun.forbidden_scan()
    bad_axioms = {n: a for n, a in thms.items() if not set(a) <= leanrun.ALLOWED_AXIOMS}
    if ok_prop:
        obligations = len(thms)
        discharged = 0 if forbidden else len([n for n in thms if n not in bad_axioms])
    else:
        names = leanrun.count_theorems_in_source(module)
        obligations = max(len(names), 1)
        discharged = 0
    log(f"[{pid}] build driver={ok_drv} ({t_drv:.1f}s) properties={ok_prop} ({t_prop:.1f}s) "
        f"obligations={obligations} discharged={discharged} forbidden={forbidden} bad_axioms={bad_axioms}")
    if forbidden or bad_axioms:
        log(f"HARNESS-ERROR: forbidden tokens or axioms in the Lean sources: {forbidden} {bad_axioms}")
        write_evidence(check, tier, seed, t0, dict(obligations=obligations, discharged=discharged,
                       explanation="forbidden tokens/axioms"), 0)
        return 2
    leanchecker_res = None
    if tier == "thorough" and ok_prop and os.environ.get("VERIF_NO_LEANCHECKER") != "1":
        try:
            okc, outc = leanrun.leanchecker([module])
            leanchecker_res = {"ok": okc, "tail": outc[-300:]}
            log(f"[{pid}] leanchecker ok={okc}")
            if not okc:
                proof_broken.append({"decl": "leanchecker", "msg": outc[-300:]})
        except Exception as e:  # noqa: BLE001
            leanchecker_res = {"ok": None, "tail": repr(e)}

    # 3. cases ------------------------------------------------------------------------
    known_entries = load_known(pid)
    rng = random.Random(seed)
    stats = dict(evaluations=0, tags={}, distinct=set(), model_lines=0, corr_ok=0)
    samples = []
    violations = []   # (case, problems, impl_out, model_out)
    known_hits = {}
    harness_errors = []
    # warm-up: after a fresh restore the first import of pandas / scikit-learn / scipy / torch / fairlearn reads cold
    # files for a minute or more; do it before the exploration budget starts
    import importlib
    warm = ["numpy", "pandas", "scipy.optimize", "sklearn.linear_model", "sklearn.tree", "sklearn.dummy",
            "sklearn.metrics", "fairlearn.metrics", "fairlearn.reductions", "fairlearn.postprocessing",
            "fairlearn.preprocessing"]
    if pid in ("C16", "C17", "C19", "C20"):
        warm += ["torch", "fairlearn.adversarial"]
    t_warm = time.time()
    for name in warm:
        try:
            importlib.import_module(name)
        except Exception:  # noqa: BLE001  (a missing optional module is the check's own business)
            pass
    log(f"[{pid}] warm-up imports {time.time() - t_warm:.1f}s")
    # the exploration budget starts NOW: build, axiom audit and (after a fresh restore) the cold first import of the
    # Mathlib .olean files can take minutes and must not eat the case budget (vp check 5: C01 explored 3 cases)
    deadline = time.time() + budget
    if proof_broken or tr_problems:
        # a proof obligation / translator tie no longer checks: widen the search for a concrete failing input
        ncases *= 3
        deadline += budget
        log(f"[{pid}] broken tie ({[b.get('decl') for b in proof_broken][:6]} {tr_problems[:2]}): "
            f"searching {ncases} cases for a failing input")

    def process_batch(cases, src):
        if not cases:
            return
        nw = int(os.environ.get("VERIF_WORKERS", check.workers_thorough))
        if check.use_pool and tier == "thorough" and len(cases) > 8 and nw > 1:
            with mp.Pool(nw) as pool:
                outs = pool.map(_pool_impl, cases, chunksize=max(1, len(cases) // (nw * 8)))
        else:
            outs = [check.safe_impl(c) for c in cases]
        all_lines, spans = [], []
        for c, o in zip(cases, outs):
            try:
                ls = check.lines(c, o) if ok_drv else []
            except Exception as e:  # noqa: BLE001
                ls = []
                harness_errors.append(f"lines() failed: {e!r} on {json.dumps(c, default=str)[:300]}")
            spans.append((len(all_lines), len(ls)))
            all_lines.extend(ls)
        model = leanrun.drive(all_lines) if (ok_drv and all_lines) else []
        stats["model_lines"] += len(all_lines)
        for c, o, (a, n) in zip(cases, outs, spans):
            mo = model[a:a + n] if ok_drv else None
            stats["evaluations"] += 1
            try:
                probs = check.judge(c, o, mo)
                key, nontriv, tags = check.signature(c, o)
            except Exception as e:  # noqa: BLE001
                harness_errors.append(f"judge() failed: {e!r} {traceback.format_exc()[-600:]} on {json.dumps(c, default=str)[:300]}")
                continue
            for t in tags:
                stats["tags"][t] = stats["tags"].get(t, 0) + 1
            if nontriv:
                stats["distinct"].add(hashlib.sha1(str(key).encode()).digest()[:8])
            if len(samples) < 3 and nontriv:
                samples.append({"source": src, "case": _jsonable(c), "impl": _jsonable(o),
                                "model": mo[:6] if mo else mo})
            if not probs:
                stats["corr_ok"] += 1 if mo else 0
                continue
            rest = []
            for p in probs:
                if p.kind == "harness":
                    harness_errors.append(f"{p.msg} on {json.dumps(c, default=str)[:400]}")
                    continue
                e = check.known(c, p, known_entries)
                if e is not None:
                    known_hits.setdefault(e["id"], (e, c, p))
                else:
                    rest.append(p)
            if rest:
                violations.append((c, rest, o, mo))

    cross_stats = {}

    def process_cross(cases):
        """composition relations (real mitigator chained with real fairlearn.metrics) checked against the bounds
        proved in Properties/CxxX.lean; a counterexample is a property-level failing input"""
        from . import crosscheck
        from collections import Counter
        cst = Counter()
        for c in cases:
            name = c["_cross"]
            wanted = dict(check.cross).get(name)
            fn = getattr(crosscheck, "check_" + name)
            stats["evaluations"] += 1
            try:
                found = fn(c, cst)
            except Exception as e:  # noqa: BLE001
                found = [(f"X1.{name}-raised", f"{type(e).__name__}: {e}")]
                wanted = None
            ps = [Problem("property", msg, rel) for rel, msg in found if wanted is None or rel in wanted]
            stats["distinct"].add(hashlib.sha1(json.dumps(c, sort_keys=True).encode()).digest()[:8])
            if ps:
                violations.append((c, ps, {"cross": name}, None))
            else:
                stats["corr_ok"] += 1
        for k, v in cst.items():
            cross_stats[k] = cross_stats.get(k, 0) + v
            stats["tags"]["cross:" + k] = stats["tags"].get("cross:" + k, 0) + v

    if replay:
        with open(replay) as f:
            rp = json.load(f)
        if isinstance(rp.get("case"), dict) and "_cross" in rp["case"]:
            process_cross([rp["case"]])
        else:
            process_batch([rp["case"]], "replay")
    else:
        process_batch(check.corpus_cases(), "corpus")
        if tier == "thorough":
            buf = []
            for c in check.exhaustive(tier):
                buf.append(c)
                if len(buf) >= 2000:
                    process_batch(buf, "exhaustive")
                    buf = []
                if time.time() > deadline or len(violations) >= 5:
                    break
            process_batch(buf, "exhaustive")
        gen = check.generate(rng, tier)
        done = 0
        batch_n = 64 if tier == "quick" else 1024
        while done < ncases and time.time() < deadline and len(violations) < 5:
            buf = []
            for c in gen:
                buf.append(c)
                if len(buf) >= min(batch_n, ncases - done):
                    break
            if not buf:
                break
            process_batch(buf, "generated")
            done += len(buf)
        if check.cross and len(violations) < 5:
            from . import crosscheck
            crng = random.Random(seed * 7919 + 13)
            ncross = check.cross_cases_quick if tier == "quick" else check.cross_cases_thorough
            t_cross = time.time() + (45 if tier == "quick" else 600)
            for _ in range(ncross):
                if time.time() > t_cross:
                    break
                base = crosscheck.gen_case(crng)
                process_cross([dict(base, _cross=name) for name, _ in check.cross])

    # 4. verdict ------------------------------------------------------------------------
    rc = 0
    for fid, (e, c, p) in sorted(known_hits.items()):
        log(f"KNOWN-FINDING: property={pid} {e['what']} [{fid}]")
    if harness_errors:
        for h in harness_errors[:5]:
            log(f"HARNESS-ERROR: {h}")
        rc = 2
    reported = []
    if violations:
        # prefer a violation that has a property-level failing input
        violations.sort(key=lambda v: 0 if any(p.kind == "property" for p in v[1]) else 1)
        case, probs, o, mo = violations[0]
        found = any(p.kind == "property" for p in probs)
        small, sprobs, so, smo = case, probs, o, mo
        try:
            if not (isinstance(case, dict) and "_cross" in case):
                small, sprobs, so, smo, found = search_failing_input(check, case, probs, o, mo, ok_drv,
                                                                     known_entries, time.time() + 120)
        except Exception as e:  # noqa: BLE001
            log(f"[{pid}] shrink failed: {e!r}")
        payload = {"property": pid, "case": _jsonable(small), "impl": _jsonable(so), "model": smo,
                   "problems": [p.to_json() for p in sprobs], "failing_input_found": bool(found),
                   "original_case": _jsonable(case),
                   "broken": None if found else {"correspondence": [p.relation or p.msg for p in sprobs]},
                   "replay_cmd": f"/venv/bin/python -m harness.vcheck {pid} --replay <this file>"}
        path = write_replay(pid, payload)
        log(f"VIOLATION property={pid} replay={path}" + ("" if found else " no-failing-input-found"))
        reported.append(path)
        rc = max(rc, 1) if rc != 2 else 2
        if rc == 2 and not harness_errors:
            rc = 1
    elif proof_broken or tr_problems:
        payload = {"property": pid, "case": None, "failing_input_found": False,
                   "broken": {"theorems": proof_broken, "translator": tr_problems},
                   "explored": stats["evaluations"],
                   "note": "proof obligation / translator tie no longer checks; exploration of the implementation "
                           "found no input on which the property's oracle fails"}
        path = write_replay(pid, payload)
        log(f"VIOLATION property={pid} replay={path} no-failing-input-found")
        reported.append(path)
        if rc == 0:
            rc = 1

    cov = dict(
        obligations=obligations, discharged=discharged,
        checker_cmd=f"cd lean && lake build {module} && lake env lean <generated audit file: #audit_ns {namespace}>"
                    + (" && lake env leanchecker " + module if tier == "thorough" else ""),
        trusted_base=BASE_TRUSTED + list(check.trusted),
        theorems=sorted(thms.keys()),
        axioms_used=sorted({a for v in thms.values() for a in v}),
        proof_broken=proof_broken, translator=tr_info,
        evaluations=stats["evaluations"], distinct_nontrivial=len(stats["distinct"]),
        rule=check.rule, samples=samples,
        traces_validated_against_impl=stats["corr_ok"], model_lines=stats["model_lines"],
        input_distribution=dict(sorted(stats["tags"].items())),
        known_findings_observed=sorted(known_hits.keys()),
        leanchecker=leanchecker_res,
        explanation=check.explanation,
        exhaustive=False,
        replays=reported,
    )
    write_evidence(check, tier, seed, t0, cov, len(reported))
    log(f"[{pid}] tier={tier} seed={seed} evaluations={stats['evaluations']} distinct_nontrivial={len(stats['distinct'])} "
        f"model_lines={stats['model_lines']} corr_ok={stats['corr_ok']} wall={time.time()-t0:.1f}s rc={rc}")
    return rc


def search_failing_input(check, case, probs, o, mo, ok_drv, known_entries, deadline):
    """Greedy shrink keeping *some* unexplained problem alive; prefers candidates whose problem is a
    property-level failure (oracle fails on the implementation's own output)."""
    def evaluate(c):
        out = check.safe_impl(c)
        m = None
        if ok_drv:
            try:
                ls = check.lines(c, out)
                m = leanrun.drive(ls) if ls else []
            except Exception:  # noqa: BLE001
                m = None
        ps = [p for p in check.judge(c, out, m) if p.kind != "harness" and check.known(c, p, known_entries) is None]
        return out, m, ps

    cur = (case, probs, o, mo)
    found = any(p.kind == "property" for p in probs)
    improved = True
    steps = 0
    while improved and time.time() < deadline and steps < 400:
        improved = False
        for cand in check.shrink(cur[0]):
            steps += 1
            if time.time() > deadline:
                break
            try:
                out, m, ps = evaluate(cand)
            except Exception:  # noqa: BLE001
                continue
            if not ps:
                continue
            has_prop = any(p.kind == "property" for p in ps)
            if found and not has_prop:
                continue
            cur = (cand, ps, out, m)
            found = found or has_prop
            improved = True
            break
    return cur[0], cur[1], cur[2], cur[3], found


def write_evidence(check, tier, seed, t0, cov, nviol):
    os.makedirs(EVIDENCE_DIR, exist_ok=True)
    ev = {
        "property_id": check.pid, "tier": tier, "seed": seed, "level": "proof",
        "coverage": cov, "assumptions": list(check.assumptions),
        "wall_s": round(time.time() - t0, 2), "violations": nviol,
    }
    with open(os.path.join(EVIDENCE_DIR, f"{check.pid}.json"), "w") as f:
        json.dump(ev, f, indent=1, default=str)
