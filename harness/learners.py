"""Exact cost-sensitive learners over an enumerable hypothesis class (used by C05/C08/C09).

`ExactLearner(kind, tag)` is an sklearn-style estimator (`fit(X, y, sample_weight)`, `predict`,
`predict_proba`).  The hypothesis class is defined over the sorted distinct values v_0 < ... < v_{k-1}
of feature column 0 seen at `fit`:
  kind="all"        all 2^k labelings  (v_j -> {0,1})
  kind="threshold"  the 2k monotone labelings  1[x >= v_j] and 1[x < v_j]  (j = 0..k-1), which
                    include both constants
`fit` returns the labeling that minimises the weighted 0/1 error  sum_i w_i * 1[h(x_i) != y_i];
ties (costs within 1e-12 * total weight) are broken deterministically in favour of the first
labeling in `hypotheses(kind, k)` order.  Every call is appended to `RECORDS[tag]` (a module level
dict, so that clones / deep copies made by fairlearn still report to the same place).
"""
import itertools

import numpy as np
from sklearn.base import BaseEstimator

RECORDS = {}


def hypotheses(kind, k):
    """list of labelings (tuples of 0/1 of length k), fixed deterministic order"""
    if kind == "all":
        return [tuple(t) for t in itertools.product((0, 1), repeat=k)]
    if kind == "threshold":
        out = []
        for j in range(k):
            for up in (1, 0):
                h = tuple((1 if i >= j else 0) if up else (0 if i >= j else 1) for i in range(k))
                if h not in out:
                    out.append(h)
        return out
    raise ValueError(kind)


def _col0(X):
    a = np.asarray(X)
    if a.ndim == 1:
        return a.astype(float)
    return a[:, 0].astype(float)


class ExactLearner(BaseEstimator):
    def __init__(self, kind="all", tag=None):
        self.kind = kind
        self.tag = tag

    def fit(self, X, y, sample_weight=None):
        x = _col0(X)
        y = np.asarray(y).astype(float).reshape(-1)
        w = np.ones(len(y)) if sample_weight is None else np.asarray(sample_weight, dtype=float).reshape(-1)
        vals = sorted(set(x.tolist()))
        k = len(vals)
        pos = {v: j for j, v in enumerate(vals)}
        w1 = [0.0] * k   # weight of rows with y == 1 per value  (= cost of predicting 0 there)
        w0 = [0.0] * k
        for xi, yi, wi in zip(x.tolist(), y.tolist(), w.tolist()):
            if yi == 1.0:
                w1[pos[xi]] += wi
            else:
                w0[pos[xi]] += wi
        tot = float(sum(w1) + sum(w0))
        best, best_cost = None, None
        for h in hypotheses(self.kind, k):
            cost = sum(w0[j] if h[j] else w1[j] for j in range(k))
            if best is None or cost < best_cost - 1e-12 * max(tot, 1.0):
                best, best_cost = h, cost
        self.values_ = vals
        self.labeling_ = list(best)
        self.cost_ = best_cost
        self.classes_ = np.array([0, 1])
        if self.tag is not None:
            RECORDS.setdefault(self.tag, []).append(
                {"y": [int(v) for v in y.tolist()], "w": [float(v) for v in w.tolist()], "labeling": list(best)})
        return self

    def predict(self, X):
        x = _col0(X)
        m = dict(zip(self.values_, self.labeling_))
        return np.array([m.get(v, 0) for v in x.tolist()], dtype=int)

    def predict_proba(self, X):
        p = self.predict(X).astype(float)
        return np.stack([1.0 - p, p], axis=1)


class NestedExactLearner(BaseEstimator):
    """The same exact learner, but its fitted state lives in a NESTED mutable object (like the steps of a sklearn
    Pipeline): `fit` does not set fresh attributes on the estimator itself, it mutates `self.inner`.  A caller that
    makes only a shallow copy of the unfitted template per training run shares the fitted state between runs."""

    def __init__(self, kind="all", tag=None, inner=None):
        self.kind = kind
        self.tag = tag
        self.inner = inner if inner is not None else {"model": ExactLearner(kind, tag)}

    def fit(self, X, y, sample_weight=None):
        self.inner["model"].fit(X, y, sample_weight=sample_weight)
        self.classes_ = np.array([0, 1])
        return self

    def predict(self, X):
        return self.inner["model"].predict(X)

    def predict_proba(self, X):
        return self.inner["model"].predict_proba(X)
