"""Run the registered quick check of a property against a seeded change kept under /verif/seeded/<id>/.

    /venv/bin/python -m harness.run_seeded <id> [--tier quick|thorough] [--pid Cxx]

Creates a scratch git worktree of /repo HEAD under /tmp/seeded-wt, applies seeded/<id>/patch.diff there, runs the
check with VERIF_REPO pointing at it (evidence/replays redirected to a scratch directory so the committed evidence is
not touched), prints the outcome, removes the worktree.  Nothing is ever applied to /repo itself."""
import argparse
import json
import os
import shutil
import subprocess
import sys
import tempfile

VERIF = os.path.dirname(os.path.dirname(os.path.abspath(__file__)))


def main():
    ap = argparse.ArgumentParser()
    ap.add_argument("sid")
    ap.add_argument("--tier", default="quick")
    ap.add_argument("--pid")
    ap.add_argument("--seed", default="0")
    a = ap.parse_args()
    d = os.path.join(VERIF, "seeded", a.sid)
    meta = json.load(open(os.path.join(d, "meta.json")))
    pid = a.pid or meta["property"]
    wt = tempfile.mkdtemp(prefix="seeded-wt-")
    os.rmdir(wt)
    scratch = tempfile.mkdtemp(prefix="seeded-ev-")
    try:
        subprocess.run(["git", "-C", "/repo", "worktree", "add", "-q", "--detach", wt, "HEAD"], check=True)
        subprocess.run(["git", "-C", wt, "apply", os.path.join(d, "patch.diff")], check=True)
        env = dict(os.environ, VERIF_REPO=wt, VERIF_EVIDENCE_DIR=scratch, VERIF_REPLAY_DIR=scratch, VERIF_SEED=a.seed)
        r = subprocess.run(["/venv/bin/python", "-m", "harness.vcheck", pid, "--tier", a.tier], cwd=VERIF, env=env,
                           capture_output=True, text=True)
        out = r.stdout + r.stderr
        viol = [l for l in out.split("\n") if l.startswith("VIOLATION") or l.startswith("HARNESS-ERROR") or l.startswith("KNOWN-FINDING")]
        print(f"seeded {a.sid} property={pid} tier={a.tier} exit={r.returncode}")
        for l in viol:
            print("  " + l[:300])
        for l in viol:
            if l.startswith("VIOLATION") and "replay=" in l:
                rp = l.split("replay=")[1].split()[0]
                try:
                    j = json.load(open(rp))
                    print("  replay case:", json.dumps(j.get("case"))[:500])
                    print("  problems:", json.dumps(j.get("problems") or j.get("broken"))[:600])
                except OSError:
                    pass
        print(out[-600:] if r.returncode not in (0, 1) else "")
        # make sure generated Lean files are restored from the real repo afterwards
        subprocess.run(["/venv/bin/python", "-c", "from harness import translate; translate.run('/repo')"], cwd=VERIF)
        sys.exit(0 if r.returncode == 1 else 3)
    finally:
        subprocess.run(["git", "-C", "/repo", "worktree", "remove", "--force", wt])
        shutil.rmtree(scratch, ignore_errors=True)


if __name__ == "__main__":
    main()
