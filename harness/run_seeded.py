"""Run the registered quick check of a property against a seeded change kept under /verif/seeded/<id>/.

    /venv/bin/python -m harness.run_seeded <id> [--tier quick|thorough] [--pid Cxx] [--seed N] [--keep-replay DIR]

Creates a scratch git worktree of /repo HEAD and a PRIVATE COPY of /verif (with its warm lake build) under a scratch
directory, applies seeded/<id>/patch.diff to the worktree, runs the check from the copy with VERIF_REPO pointing at the
patched worktree, prints the outcome, removes both.  Nothing is ever applied to /repo itself and nothing in /verif
(generated Lean files, evidence, replays) is touched, so several seeded runs may go in parallel with ordinary checks.
Exit 0 = the change was detected (check exit 1 with a VIOLATION line), 3 = missed / other."""
import argparse
import json
import os
import shutil
import subprocess
import sys
import tempfile

VERIF = os.path.dirname(os.path.dirname(os.path.abspath(__file__)))


def main():
    ap = argparse.ArgumentParser()
    ap.add_argument("sid")
    ap.add_argument("--tier", default="quick")
    ap.add_argument("--pid")
    ap.add_argument("--seed", default="0")
    ap.add_argument("--keep-replay")
    a = ap.parse_args()
    d = os.path.join(VERIF, "seeded", a.sid)
    meta = json.load(open(os.path.join(d, "meta.json")))
    pid = a.pid or meta["property"]
    base = tempfile.mkdtemp(prefix=f"seeded-{a.sid}-")
    wt = os.path.join(base, "repo")
    vcopy = os.path.join(base, "verif")
    scratch = os.path.join(base, "out")
    os.makedirs(scratch)
    rc = 3
    try:
        subprocess.run(["git", "-C", "/repo", "worktree", "add", "-q", "--detach", wt, "HEAD"], check=True)
        subprocess.run(["git", "-C", wt, "apply", os.path.join(d, "patch.diff")], check=True)
        shutil.copytree(VERIF, vcopy, symlinks=True,
                        ignore=shutil.ignore_patterns(".git", "replays", "__pycache__", ".build.lock", "seeded"))
        env = dict(os.environ, VERIF_REPO=wt, VERIF_EVIDENCE_DIR=scratch, VERIF_REPLAY_DIR=scratch, VERIF_SEED=a.seed)
        r = subprocess.run(["/venv/bin/python", "-m", "harness.vcheck", pid, "--tier", a.tier], cwd=vcopy, env=env,
                           capture_output=True, text=True)
        out = r.stdout + r.stderr
        viol = [l for l in out.split("\n") if l.startswith(("VIOLATION", "HARNESS-ERROR", "KNOWN-FINDING", "TIMEOUT"))]
        print(f"seeded {a.sid} property={pid} tier={a.tier} seed={a.seed} exit={r.returncode}")
        for l in viol:
            print("  " + l[:300])
        for l in viol:
            if l.startswith("VIOLATION") and "replay=" in l:
                rp = l.split("replay=")[1].split()[0]
                try:
                    j = json.load(open(rp))
                    print("  replay case:", json.dumps(j.get("case"))[:500])
                    print("  problems:", json.dumps(j.get("problems") or j.get("broken"))[:600])
                    if a.keep_replay:
                        os.makedirs(a.keep_replay, exist_ok=True)
                        shutil.copy(rp, a.keep_replay)
                except OSError:
                    pass
        if r.returncode not in (0, 1):
            print(out[-1200:])
        rc = 0 if (r.returncode == 1 and any(l.startswith("VIOLATION") for l in viol)) else 3
    finally:
        subprocess.run(["git", "-C", "/repo", "worktree", "remove", "--force", wt])
        shutil.rmtree(base, ignore_errors=True)
    sys.exit(rc)


if __name__ == "__main__":
    main()
