"""Lean side management: translator invocation, lake build (serialised by a file lock),
axiom audit, forbidden-token scan, driver process."""
import fcntl
import os
import re
import subprocess
import sys
import time

HERE = os.path.dirname(os.path.abspath(__file__))
VERIF = os.path.dirname(HERE)
LEAN = os.path.join(VERIF, "lean")
DRIVER = os.path.join(LEAN, ".lake", "build", "bin", "driver")
ALLOWED_AXIOMS = {"propext", "Classical.choice", "Quot.sound"}
FORBIDDEN = re.compile(
    r"\bsorry\b|\badmit\b|^\s*axiom\s|native_decide|bv_decide|implemented_by|\bunsafe\s|maxHeartbeats\s+0\b",
    re.M,
)


class Lock:
    def __enter__(self):
        self.f = open(os.path.join(LEAN, ".build.lock"), "w")
        fcntl.flock(self.f, fcntl.LOCK_EX)
        return self

    def __exit__(self, *a):
        fcntl.flock(self.f, fcntl.LOCK_UN)
        self.f.close()


def strip_comments(text):
    # remove /- ... -/ (nested) and -- line comments
    out = []
    i, depth, n = 0, 0, len(text)
    while i < n:
        if text.startswith("/-", i):
            depth += 1
            i += 2
        elif depth and text.startswith("-/", i):
            depth -= 1
            i += 2
        elif depth:
            if text[i] == "\n":
                out.append("\n")
            i += 1
        elif text.startswith("--", i):
            while i < n and text[i] != "\n":
                i += 1
        else:
            out.append(text[i])
            i += 1
    return "".join(out)


def forbidden_scan():
    hits = []
    for root, _, files in os.walk(LEAN):
        if ".lake" in root:
            continue
        for fn in files:
            if fn.endswith(".lean"):
                p = os.path.join(root, fn)
                txt = strip_comments(open(p).read())
                for m in FORBIDDEN.finditer(txt):
                    line = txt.count("\n", 0, m.start()) + 1
                    hits.append(f"{os.path.relpath(p, LEAN)}:{line}:{m.group(0).strip()}")
    return hits


def run(cmd, timeout=3000, **kw):
    return subprocess.run(cmd, cwd=LEAN, capture_output=True, text=True, timeout=timeout, **kw)


def build(targets, timeout=3000):
    """lake build <targets>; returns (ok, log, seconds)."""
    t0 = time.time()
    with Lock():
        r = run(["lake", "build"] + list(targets), timeout=timeout)
    return r.returncode == 0, (r.stdout + r.stderr), time.time() - t0


def failing_decls(log):
    """Extract 'file:line' error heads and map to enclosing theorem names."""
    out = []
    for m in re.finditer(r"error: (\S+\.lean):(\d+):(\d+): (.*)", log):
        path, line, _, msg = m.group(1), int(m.group(2)), m.group(3), m.group(4)
        name = None
        try:
            src = open(os.path.join(LEAN, path)).read().split("\n")
            for k in range(min(line, len(src)) - 1, -1, -1):
                mm = re.match(r"\s*(?:@\[[^\]]*\]\s*)?(?:private\s+)?(theorem|lemma|def|example|instance)\s+(\S+)?", src[k])
                if mm:
                    name = f"{mm.group(1)} {mm.group(2) or ''}".strip()
                    break
        except OSError:
            pass
        out.append({"file": path, "line": line, "decl": name, "msg": msg[:200]})
    return out


def audit(namespace, module):
    """Return (theorems: dict name -> axioms list, raw log). Requires module built."""
    src = f"import FairModel.AuditTool\nimport {module}\n#audit_ns {namespace}\n"
    path = os.path.join(LEAN, f".audit_{namespace}_{os.getpid()}.lean")
    with open(path, "w") as f:
        f.write(src)
    try:
        with Lock():
            r = run(["lake", "env", "lean", path])
    finally:
        os.unlink(path)
    thms = {}
    for m in re.finditer(r"AUDIT (\S+) : (.*)", r.stdout + r.stderr):
        axs = [a.strip() for a in m.group(2).split(",") if a.strip()]
        thms[m.group(1)] = axs
    return thms, r.stdout + r.stderr


def count_theorems_in_source(module):
    """Fallback obligation count (used when the module does not compile)."""
    path = os.path.join(LEAN, module.replace(".", "/") + ".lean")
    try:
        txt = strip_comments(open(path).read())
    except OSError:
        return []
    return re.findall(r"^\s*(?:@\[[^\]]*\]\s*)?theorem\s+(\S+)", txt, re.M)


def leanchecker(modules, timeout=3000):
    with Lock():
        r = run(["lake", "env", "leanchecker"] + list(modules), timeout=timeout)
    return r.returncode == 0, (r.stdout + r.stderr)[-2000:]


def drive(lines, timeout=3000):
    """Feed protocol lines to the compiled driver, return list of output lines."""
    if not lines:
        return []
    data = "\n".join(lines) + "\n"
    r = subprocess.run([DRIVER], input=data, capture_output=True, text=True, timeout=timeout)
    if r.returncode != 0:
        raise RuntimeError(f"driver exited {r.returncode}: {r.stderr[:500]}")
    out = r.stdout.split("\n")
    if out and out[-1] == "":
        out.pop()
    if len(out) != len(lines):
        raise RuntimeError(f"driver returned {len(out)} lines for {len(lines)} inputs")
    return out
