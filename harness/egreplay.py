"""ExponentiatedGradient main loop (C08 extension): trace recorder + first-principles replay in exact Fractions.

RECORDING (no source hook; only public extension points are wrapped while `fit` runs):
  * the base learner is `TraceLearner` (an `ExactLearner` that logs the labeling it returns),
  * `sklearn.dummy.DummyClassifier.fit` is wrapped (fairlearn's shortcut when the relabelled y is constant),
  * `scipy.optimize.linprog` is wrapped (arguments and solution of every call).
The ordered event list is the complete sequence of answers the loop received from outside.

REPLAY: `replay(...)` re-runs the documented algorithm (Agarwal et al. 2018, Alg. 1 as implemented: multiplicative
weights on theta, best-response cache, eval_gap with the [1,2,5,10] multipliers, LP step, regret check / eta shrink,
best-iterate selection) over exact rationals, driven by the recorded answers; `exp` is `math.exp` of the float nearest
to the exact theta, taken as an exact rational.  It also reports every branch decision whose two sides are closer
than 1e-9 (`fragile`): there the float implementation may legitimately take the other branch, and the
loop-level comparison is skipped (counted in the evidence).
"""
import math
from contextlib import contextmanager
from fractions import Fraction as F
from unittest import mock

from .learners import ExactLearner

EVENTS = []

PREC = F(1, 10 ** 8)
MULS = (1, 2, 5, 10)
FRAG = 1e-11


class TraceLearner(ExactLearner):
    def fit(self, X, y, sample_weight=None):
        super().fit(X, y, sample_weight)
        EVENTS.append(("h", tuple(self.labeling_)))
        return self


@contextmanager
def recording():
    import scipy.optimize
    from sklearn.dummy import DummyClassifier
    del EVENTS[:]
    orig_fit = DummyClassifier.fit
    orig_lp = scipy.optimize.linprog

    def dummy_fit(self, X, y, sample_weight=None):
        EVENTS.append(("d", int(self.constant)))
        return orig_fit(self, X, y, sample_weight=sample_weight)

    def linprog(c, *args, **kw):
        res = orig_lp(c, *args, **kw)
        names = ["A_ub", "b_ub", "A_eq", "b_eq", "bounds"]
        d = dict(zip(names, args))
        d.update({k: v for k, v in kw.items() if k in names})
        import numpy as np

        def tolist(v):
            return None if v is None else np.asarray(v, dtype=float).tolist()
        EVENTS.append(("lp", {"c": tolist(c), "A_ub": tolist(d.get("A_ub")), "b_ub": tolist(d.get("b_ub")),
                              "A_eq": tolist(d.get("A_eq")), "b_eq": tolist(d.get("b_eq")),
                              "bounds": None if d.get("bounds") is None else [[None if a is None else float(a) for a in bd]
                                                                              for bd in d["bounds"]],
                              "x": None if res.x is None else [float(v) for v in res.x], "status": int(res.status),
                              "fun": None if res.x is None else float(res.fun)}))
        return res

    with mock.patch.object(DummyClassifier, "fit", dummy_fit), mock.patch.object(scipy.optimize, "linprog", linprog):
        yield EVENTS


# ---------------------------------------------------------------------------------------------------------------------

def fexp(theta):
    return F(math.exp(float(theta)))


class Frag:
    def __init__(self):
        self.notes = []
        self.detail = []
        self.t = 0              # iteration the replay is in (set by the loop)
        self.first_t = None     # first iteration with a near-tie

    def note(self, what):
        self.notes.append(what)
        if self.first_t is None:
            self.first_t = self.t

    def lt(self, a, b, what):
        """a < b, noting a near-tie"""
        if abs(float(a) - float(b)) <= FRAG * max(1.0, abs(float(a)), abs(float(b))):
            self.note(what)
            self.detail.append((what, float(a), float(b)))
        return a < b


def dot(a, b):
    return sum((x * y for x, y in zip(a, b)), F(0))


def project(lam, ratio_one):
    if not ratio_one:
        return list(lam)
    m = len(lam) // 2
    return [max(lam[j] - lam[j + m], F(0)) for j in range(m)] + [max(lam[j + m] - lam[j], F(0)) for j in range(m)]


class Replay:
    def __init__(self, B, eta0, nu, max_iter, run_lp, ratio_one, c, hyps, lps, exp=fexp):
        self.B, self.eta0, self.nu, self.max_iter, self.run_lp, self.ratio_one = F(B), F(eta0), F(nu), max_iter, run_lp, ratio_one
        self.c, self.hyps, self.lps, self.exp = [F(v) for v in c], hyps, lps, exp
        self.nC = len(self.c)
        self.fr = Frag()
        self.etab = {}
        self.stuck = None
        self.hs = []            # stored (err, gam)
        self.calls = 0
        self.lp_calls = 0
        self.lp_n = 0
        self.lp_res = None
        self.cache_hits = 0
        self.lp_stores = []     # store size at every non-cached LP solve
        self.sub_prec_hits = [] # (oracle call number, improvement): best_h kept the cached classifier although the oracle's
                                # answer was strictly better, by less than _PRECISION (known finding F23)
        self.run()

    # -- _eval ---------------------------------------------------------------------------------------------------
    def eval_(self, Q, lam):
        """(L, L_high) of the mixture Q (list over the store, shorter lists are zero padded) at project(lam)"""
        lp = project(lam, self.ratio_one)
        err = sum((q * self.hs[i][0] for i, q in enumerate(Q)), F(0))
        gam = [sum((q * self.hs[i][1][j] for i, q in enumerate(Q)), F(0)) for j in range(self.nC)]
        viol = [g - cj for g, cj in zip(gam, self.c)]
        L = err + dot(lp, viol)
        mv = max(viol)
        Lh = err + (self.B * mv if mv > 0 else 0)
        return L, Lh

    # -- best_h --------------------------------------------------------------------------------------------------
    def next_h(self):
        if self.calls >= len(self.hyps):
            self.stuck = self.stuck or "oracle-answers"
            h = (F(0), [F(0)] * self.nC)
        else:
            h = self.hyps[self.calls]
        self.calls += 1
        return h

    def best_h(self, lam):
        h = self.next_h()
        hv = h[0] + dot(h[1], lam)
        if self.hs:
            vals = [e + dot(g, lam) for e, g in self.hs]
            bv = min(vals)
            bi = vals.index(bv)
            others = sorted(vals)
            if len(others) > 1 and abs(float(others[1]) - float(others[0])) <= FRAG * max(1.0, abs(float(bv))):
                # two stored classifiers (nearly or exactly) tie for the minimum: float rounding decides which index idxmin returns
                self.fr.note("idxmin tie" if others[1] == others[0] else "idxmin near-tie")
                self.fr.detail.append(("idxmin", float(others[0]), float(others[1]) - float(others[0]), float(others[1]-others[0])))
            if self.fr.lt(hv, bv - PREC, "best_h improvement"):
                self.hs.append(h)
                return len(self.hs) - 1
            if hv < bv:
                self.sub_prec_hits.append((self.calls - 1, bv - hv))
            return bi
        self.hs.append(h)
        return 0

    # -- eval_gap --------------------------------------------------------------------------------------------------
    def eval_gap(self, Q, lam_hat):
        L, Lh = self.eval_(Q, lam_hat)
        low = L
        for mul in MULS:
            idx = self.best_h([mul * v for v in lam_hat])
            unit = [F(0)] * idx + [F(1)]
            lm, _ = self.eval_(unit, lam_hat)
            if lm < low:
                low = lm
            gap = max(L - low, Lh - L)
            if self.fr.lt(self.nu + PREC, gap, "eval_gap break"):
                break
        return L, low, Lh, max(L - low, Lh - L)

    def solve_lp(self):
        if self.lp_n == len(self.hs) and self.lp_res is not None:
            self.cache_hits += 1
            return self.lp_res
        if self.lp_calls >= len(self.lps):
            self.stuck = self.stuck or "lp-answers"
            Q, lam = [F(0)] * len(self.hs), [F(0)] * self.nC
        else:
            Q, lam = self.lps[self.lp_calls]
        self.lp_calls += 1
        n_hs = len(self.hs)
        self.lp_stores.append(n_hs)
        res = self.eval_gap(Q, lam)
        self.lp_n = n_hs
        self.lp_res = (Q, lam, res)
        return self.lp_res

    # -- the loop ----------------------------------------------------------------------------------------------------
    def run(self):
        theta = [F(0)] * self.nC
        eta = self.eta0 / self.B
        qsum = []
        last_checked, last_gap = 5, None
        self.lam_cols, self.lam_egs, self.thetas, self.etas = [], [], [], []
        self.gaps_eg, self.gaps, self.qs, self.from_lp, self.lam_lp = [], [], [], [], []
        self.shrinks = self.checks = 0
        self.done = False
        for t in range(self.max_iter):
            self.fr.t = t
            E = []
            for th in theta:
                if th not in self.etab:
                    self.etab[th] = self.exp(th)
                E.append(self.etab[th])
            s = sum(E, F(0))
            lam = [self.B * e / (1 + s) for e in E]
            self.thetas.append(list(theta))
            self.lam_cols.append(lam)
            lam_eg = [sum((col[j] for col in self.lam_cols), F(0)) / len(self.lam_cols) for j in range(self.nC)]
            self.lam_egs.append(lam_eg)
            h_idx = self.best_h(lam)
            while len(qsum) <= h_idx:
                qsum.append(F(0))
            qsum[h_idx] += 1
            gamma = self.hs[h_idx][1]
            tot = sum(qsum, F(0))
            q_eg = [q / tot for q in qsum]
            res_eg = self.eval_gap(q_eg, lam_eg)
            gap_eg = res_eg[3]
            self.gaps_eg.append(gap_eg)
            if t == 0 or not self.run_lp:
                use_eg, gap, q = True, gap_eg, q_eg
            else:
                q_lp, lam_lp, res_lp = self.solve_lp()
                self.lam_lp.append((t, lam_lp))
                use_eg = self.fr.lt(gap_eg, res_lp[3], "gap_EG < gap_LP")
                gap, q = (gap_eg, q_eg) if use_eg else (res_lp[3], q_lp)
            self.gaps.append(gap)
            self.qs.append(q)
            self.from_lp.append(not use_eg)
            if t >= 5 and (self.fr.lt(gap, self.nu, "gaps[t] < nu") if self.nu > 0 else False):
                self.done = True
                self.etas.append(eta)
                break
            if t >= last_checked * F(8, 5):
                best_gap = min(self.gaps_eg)
                self.checks += 1
                if last_gap is not None and self.fr.lt(last_gap * F(4, 5), best_gap, "eta shrink"):
                    eta = eta * F(4, 5)
                    self.shrinks += 1
                last_checked, last_gap = t, best_gap
            self.etas.append(eta)
            theta = [th + eta * (g - cj) for th, g, cj in zip(theta, gamma, self.c)]
        self.t = len(self.qs)
        m = min(self.gaps)
        kept = [i for i, g in enumerate(self.gaps) if g <= m + PREC]
        for g in self.gaps:
            if g != m and abs(float(g) - float(m + PREC)) <= FRAG * 1e-3:
                self.fr.t = self.max_iter
                self.fr.note("best-iterate keep near _PRECISION")
        self.best_iter = kept[-1]
        self.best_gap = self.gaps[self.best_iter]
        w = self.qs[self.best_iter]
        self.weights = list(w) + [F(0)] * max(0, len(self.hs) - len(w))     # zero padding to every stored classifier
        self.fragile = sorted(set(self.fr.notes))


# ---------------------------------------------------------------------------------------------------------------------
#  glue for props/c08.py
# ---------------------------------------------------------------------------------------------------------------------

def split_trace(case, o, P, H, errs, gams):
    """recorded events -> (oracle answers [(err, gamma in P.index order)], LP answers [(Q, lambda)], lp event pairs)"""
    vals = sorted(set(case["x"]))
    k = len(vals)
    hyps, lp_events = [], []
    for ev in o["trace"]:
        if ev[0] == "h":
            lab = tuple(ev[1])
        elif ev[0] == "d":
            lab = tuple([int(ev[1])] * k)
        else:
            lp_events.append(ev[1])
            continue
        i = H.index(lab)
        hyps.append((errs[i], [gams[i][key] for key in P.index]))
    impl_order = [tuple(t) for t in o["lam_index"]]
    perm = [impl_order.index(key) for key in P.index]
    lps, pairs = [], []
    for a in range(0, len(lp_events) - 1, 2):
        pr, du = lp_events[a], lp_events[a + 1]
        if pr["x"] is None or du["x"] is None:
            break
        Q = [F(v) for v in pr["x"][:-1]]
        lam_impl = [F(v) for v in du["x"][:-1]]
        lps.append((Q, [lam_impl[j] for j in perm]))
        pairs.append((pr, du))
    return hyps, lps, pairs, perm


def run_replay(case, o, P, H, errs, gams):
    hyps, lps, pairs, perm = split_trace(case, o, P, H, errs, gams)
    rp = Replay(1 / F(case["eps"]), F(case["eta0"]), F(o["nu"]), case["max_iter"], bool(case["linprog"]), P.ratio == 1,
                [P.eps] * len(P.index), hyps, lps)
    rp.pairs, rp.perm = pairs, perm
    return rp


def loop_line(case, rp):
    from . import proto
    etab = [[th, v] for th, v in rp.etab.items()]
    hy = [[e] + g for e, g in rp.hyps]
    return (f"egloop.run {proto.rat(rp.B)} {proto.rat(rp.eta0)} {proto.rat(rp.nu)} {rp.max_iter} {proto.b(rp.run_lp)} "
            f"{proto.b(rp.ratio_one)} {proto.lst(rp.c)} {proto.mat(etab)} {proto.mat(hy)} "
            f"{proto.mat([q for q, _ in rp.lps])} {proto.mat([l for _, l in rp.lps])}")


def parse_loop(line):
    from . import proto
    t = line.split(" ")
    if t[0] in ("stuck", "bad-op"):
        return {"stuck": " ".join(t)}
    return {"t": int(t[0]), "calls": int(t[1]), "lp_calls": int(t[2]), "best_iter": int(t[3]), "best_gap": proto.p_rat(t[4]),
            "weights": proto.p_list(t[5]), "lam_cols": proto.p_mat(t[6]), "lam_eg_best": proto.p_list(t[7]),
            "thetas": proto.p_mat(t[8]), "etas": proto.p_list(t[9]), "gaps_eg": proto.p_list(t[10]), "gaps": proto.p_list(t[11]),
            "from_lp": [v == 1 for v in proto.p_list(t[12])], "stored_errs": proto.p_list(t[13]), "shrinks": int(t[14]),
            "checks": int(t[15]), "cache_hits": int(t[16]), "lam_lp_t": [int(v) for v in proto.p_list(t[17])],
            "lam_lp": proto.p_mat(t[18])}


def replay_as_model(rp):
    """the replay's results in the shape `parse_loop` gives the model's"""
    if rp.stuck:
        return {"stuck": rp.stuck}
    return {"t": rp.t, "calls": rp.calls, "lp_calls": rp.lp_calls, "best_iter": rp.best_iter, "best_gap": rp.best_gap,
            "weights": rp.weights, "lam_cols": rp.lam_cols, "lam_eg_best": rp.lam_egs[rp.best_iter], "thetas": rp.thetas,
            "etas": rp.etas, "gaps_eg": rp.gaps_eg, "gaps": rp.gaps, "from_lp": rp.from_lp,
            "stored_errs": [e for e, _ in rp.hs], "shrinks": rp.shrinks, "checks": rp.checks, "cache_hits": rp.cache_hits,
            "lam_lp_t": [t for t, _ in rp.lam_lp], "lam_lp": [l for _, l in rp.lam_lp]}


def compare_prefix(case, o, rp):
    """for a run with a near-tie at iteration t_f: the multiplier columns 0..t_f depend only on decisions of earlier
    iterations, so they are still compared"""
    tf = rp.fr.first_t
    if tf is None:
        return []
    tol = 1e-9 * max(1.0, float(rp.B))
    cols = o["lam_cols"]
    for t in range(min(tf + 1, len(cols), len(rp.lam_cols))):
        d = max(abs(a - float(b)) for a, b in zip(cols[t], rp.lam_cols[t]))
        if d > tol:
            return [("C08.loop lambda_vecs_EG_ (lambda_t = B e^theta/(1+sum e^theta), theta += eta (gamma - bound), eta shrink)",
                     f"column {t} (before the first near-tie, iteration {tf}): implementation {cols[t]} vs documented "
                     f"{[float(v) for v in rp.lam_cols[t]]} (max diff {d})")]
    return []


def compare_impl(case, o, rp):
    """implementation observables vs the replay (documented algorithm on the recorded answers).  Returns a list of
    (relation, message)."""
    out = []
    B = float(rp.B)
    tol = 1e-9 * max(1.0, B)
    if rp.stuck:
        return [("C08.loop oracle-calls", f"the run asks for more {rp.stuck} than the implementation obtained "
                                          f"({len(rp.hyps)} oracle answers, {len(rp.lps)} LP solves)")]
    if rp.calls != len(rp.hyps) or rp.calls != o["n_oracle_calls"]:
        out.append(("C08.loop n_oracle_calls", f"n_oracle_calls_ = {o['n_oracle_calls']} (recorded {len(rp.hyps)}) but the loop "
                                               f"makes {rp.calls} oracle calls on these answers"))
    if rp.lp_calls != len(rp.lps):
        out.append(("C08.loop linprog-calls", f"{len(rp.lps)} LP solves recorded, the loop makes {rp.lp_calls}"))
    if rp.t != o["last_iter"] + 1:
        out.append(("C08.loop last_iter_", f"last_iter_ = {o['last_iter']} but the loop runs {rp.t} iterations"))
    if out:
        return out
    cols = o["lam_cols"]          # impl: list of columns, P.index order
    if len(cols) != rp.t:
        out.append(("C08.loop lambda_vecs_EG_", f"{len(cols)} columns for {rp.t} iterations"))
    else:
        for t, (ci, cr) in enumerate(zip(cols, rp.lam_cols)):
            d = max(abs(a - float(b)) for a, b in zip(ci, cr))
            if d > tol:
                out.append(("C08.loop lambda_vecs_EG_ (lambda_t = B e^theta/(1+sum e^theta), theta += eta (gamma - bound), eta shrink)",
                            f"column {t}: implementation {ci} vs documented {[float(v) for v in cr]} (max diff {d})"))
                break
    if o["best_iter"] != rp.best_iter:
        out.append(("C08.loop best_iter_", f"best_iter_ = {o['best_iter']} vs {rp.best_iter}; gaps {[float(g) for g in rp.gaps]}"))
    elif abs(o["best_gap"] - float(rp.best_gap)) > tol:
        out.append(("C08.loop best_gap_", f"best_gap_ = {o['best_gap']} vs {float(rp.best_gap)}"))
    if len(o["stored_errs"]) != len(rp.hs) or any(abs(a - float(e)) > 1e-12 for a, (e, _) in zip(o["stored_errs"], rp.hs)):
        out.append(("C08.loop best_h store", f"stored classifiers' errors {o['stored_errs']} vs {[float(e) for e, _ in rp.hs]}"))
    elif o["best_iter"] == rp.best_iter:
        w = o["weights_by_idx"]
        if len(w) != len(rp.weights) or max(abs(a - float(b)) for a, b in zip(w, rp.weights)) > 1e-9:
            out.append(("C08.loop weights_ (Q_EG = Qsum/Qsum.sum() or the LP solution)",
                        f"weights_ = {w} vs {[float(v) for v in rp.weights]} ({'LP' if rp.from_lp[rp.best_iter] else 'EG'} iterate)"))
    lpt = o["lam_lp_cols"]        # {iteration: column}
    if sorted(int(k) for k in lpt) != [t for t, _ in rp.lam_lp]:
        out.append(("C08.loop lambda_vecs_LP_", f"columns {sorted(int(k) for k in lpt)} vs LP steps at {[t for t, _ in rp.lam_lp]}"))
    else:
        for t, lam in rp.lam_lp:
            if max(abs(a - float(b)) for a, b in zip(lpt[str(t)], lam)) > tol:
                out.append(("C08.loop lambda_vecs_LP_", f"column {t}: {lpt[str(t)]} vs {[float(v) for v in lam]}"))
                break
    return out


# ---------------------------------------------------------------------------------------------------------------------
#  solve_linprog: recorded scipy calls vs Lean model of the LP construction (Model/LinProg.lean over LinProgGen.lean)
# ---------------------------------------------------------------------------------------------------------------------

def lp_selection(rp):
    n = min(len(rp.pairs), len(rp.lp_stores))
    return sorted({0, n // 2, n - 1}) if n else []


def lp_lines(rp):
    from . import proto
    ls = []
    for k in lp_selection(rp):
        n = rp.lp_stores[k]
        errs = [e for e, _ in rp.hs[:n]]
        gams = [[g[j] for _, g in rp.hs[:n]] for j in range(rp.nC)]
        pr, du = rp.pairs[k]
        x = [F(v) for v in pr["x"]]
        y_impl = [F(v) for v in du["x"]]
        y = [y_impl[j] for j in rp.perm] + [y_impl[-1]]
        head = f"{proto.rat(rp.B)} {proto.lst(errs)} {proto.mat(gams)} {proto.lst(rp.c)}"
        ls.append("linprog.build " + head)
        ls.append(f"linprog.check {head} {proto.lst(x)} {proto.lst(y)}")
    return ls


def _close(a, b, tol=1e-12):
    return abs(float(a) - float(b)) <= tol * max(1.0, abs(float(b)))


def lp_compare(rp, mo):
    """-> list of (kind, relation, message); kind 'model' = Lean model vs the recorded call (correspondence)"""
    from . import proto
    out = []
    perm = rp.perm
    nC = rp.nC
    for k, (lb, lc) in zip(lp_selection(rp), zip(mo[0::2], mo[1::2])):
        pr, du = rp.pairs[k]
        n = rp.lp_stores[k]
        if lb == "bad-op" or lc == "bad-op":
            out.append(("harness", None, "linprog model: bad-op"))
            continue
        t = lb.split(" ")
        c, Aub, bub, Aeq, beq = proto.p_list(t[0]), proto.p_mat(t[1]), proto.p_list(t[2]), proto.p_mat(t[3]), proto.p_list(t[4])
        dc, dA, db, free = proto.p_list(t[5]), proto.p_mat(t[6]), proto.p_list(t[7]), [v == 1 for v in proto.p_list(t[8])]

        def vec_ok(model, rec):
            return rec is not None and len(model) == len(rec) and all(_close(r, m) for m, r in zip(model, rec))

        def mat_ok(model, rec):
            return rec is not None and len(model) == len(rec) and all(vec_ok(m, r) for m, r in zip(model, rec))
        rel = "C08.linprog construction (c, A_ub, b_ub, A_eq, b_eq / dual_c, dual_A_ub, dual_b_ub, dual_bounds)"
        # primal: rows of A_ub / entries of b_ub are in the implementation's constraint order
        if not vec_ok(c, pr["c"]):
            out.append(("model", rel, f"LP {k}: c = {pr['c']} vs model {[float(v) for v in c]}"))
        if not mat_ok(Aub, None if pr["A_ub"] is None else [pr["A_ub"][j] for j in perm] if len(pr["A_ub"]) == nC else pr["A_ub"]):
            out.append(("model", rel, f"LP {k}: A_ub = {pr['A_ub']} vs model (constraint order {perm}) {[[float(v) for v in r] for r in Aub]}"))
        if not vec_ok(bub, pr["b_ub"]):
            out.append(("model", rel, f"LP {k}: b_ub = {pr['b_ub']} vs model {[float(v) for v in bub]}"))
        if not mat_ok(Aeq, pr["A_eq"]) or not vec_ok(beq, pr["b_eq"]):
            out.append(("model", rel, f"LP {k}: A_eq, b_eq = {pr['A_eq']}, {pr['b_eq']} vs model {[[float(v) for v in r] for r in Aeq]}, {[float(v) for v in beq]}"))
        if pr["bounds"] is not None:
            out.append(("model", rel, f"LP {k}: the primal call passes bounds {pr['bounds']} (model: scipy default x >= 0)"))
        # dual: the first nC variables (columns of dual_A_ub, entries of dual_c, bounds) are in the implementation's order
        def unperm_cols(row):
            return [row[j] for j in perm] + list(row[nC:]) if len(row) == nC + 1 else row
        if du["A_eq"] is not None or du["b_eq"] is not None:
            out.append(("model", rel, f"LP {k}: the dual call has equality rows"))
        if not vec_ok(dc, None if du["c"] is None else unperm_cols(du["c"])):
            out.append(("model", rel, f"LP {k}: dual_c = {du['c']} vs model {[float(v) for v in dc]}"))
        if not mat_ok(dA, None if du["A_ub"] is None else [unperm_cols(r) for r in du["A_ub"]]):
            out.append(("model", rel, f"LP {k}: dual_A_ub = {du['A_ub']} vs model {[[float(v) for v in r] for r in dA]}"))
        if not vec_ok(db, du["b_ub"]):
            out.append(("model", rel, f"LP {k}: dual_b_ub = {du['b_ub']} vs model {[float(v) for v in db]}"))
        bd = du["bounds"]
        rec_free = None if bd is None or len(bd) != nC + 1 else [(b[0] is None and b[1] is None) for b in unperm_cols(bd)]
        rec_nonneg = None if bd is None or len(bd) != nC + 1 else [(b[0] == 0 and b[1] is None) for b in unperm_cols(bd)]
        if rec_free is None or rec_free != free or any((not f) and (not nn) for f, nn in zip(rec_free, rec_nonneg)):
            out.append(("model", rel, f"LP {k}: dual_bounds = {bd} vs model free flags {free}"))
        # the recorded solutions against the model's feasibility / objective (exact residuals of the float solution)
        t = lc.split(" ")
        pobj, pub, peq, pneg = (proto.p_rat(v) for v in t[1:5])
        dobj, dub, dneg = (proto.p_rat(v) for v in t[6:9])
        rel2 = "C08.linprog solution (model feasibility + objective of the recorded Q_LP / lambda_LP; weak duality certificate)"
        scale = max(1.0, float(rp.B))
        if max(float(pub), float(peq), float(pneg)) > 1e-7 * scale:
            out.append(("model", rel2, f"LP {k}: recorded primal solution violates the modelled constraints: residuals ub {float(pub)} eq {float(peq)} "
                                       f"neg {float(pneg)}"))
        if not _close(pobj, pr["fun"], 1e-9):
            out.append(("model", rel2, f"LP {k}: primal objective {pr['fun']} vs model c.x = {float(pobj)}"))
        if max(float(dub), float(dneg)) > 1e-7 * scale:
            out.append(("model", rel2, f"LP {k}: recorded dual solution violates the modelled constraints: residuals ub {float(dub)} neg {float(dneg)}"))
        if not _close(dobj, du["fun"], 1e-9):
            out.append(("model", rel2, f"LP {k}: dual objective {du['fun']} vs model dual_c.y = {float(dobj)}"))
        if abs(float(pobj) + float(dobj)) > 1e-7 * scale:
            out.append(("model", rel2, f"LP {k}: primal optimum {float(pobj)} != -(dual optimum) {-float(dobj)}: the pair is not certified "
                                       f"optimal by weak duality (lp_weak_duality)"))
        # model vs first principles (our own machinery): objective = err(Q) + B t, -dual objective = mu
        x = [F(v) for v in pr["x"]]
        want = sum((q * e for q, (e, _) in zip(x[:-1], rp.hs[:n])), F(0)) + rp.B * x[-1]
        if want != pobj or F(du["x"][-1]) != -dobj:
            out.append(("harness", None, f"linprog model objective {pobj}/{dobj} != first principles {want}/{-F(du['x'][-1])}"))
    return out
