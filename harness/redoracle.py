"""First-principles oracle for the reductions (C08, C09): constraint moments, objective, sample
re-weighting, integer lattice, exact linear programme.  Exact `fractions.Fraction` arithmetic only;
uses neither fairlearn nor the Lean model.

Moments (parity): DP, TPR, FPR, EO, ERP with ratio r (1 for a difference bound) and slack eps.
  event of a row : DP/ERP "all";  TPR "label=1" iff y=1;  FPR "label=0" iff y=0;  EO "label=<y>"
  u_i            : the prediction h_i  (ERP: the error indicator |h_i - y_i| = y_i + (1-2y_i) h_i)
  gamma[+,e,g] = r*mean_{e,g}(u) - mean_e(u)      gamma[-,e,g] = r*mean_e(u) - mean_{e,g}(u)
  for every (e,g) that occurs in the data; index order: sign (+ before -), event, group (sorted).
BGL (bounded group loss with the 0/1 loss on binary labels): gamma[g] = mean_g |y - h|.
"""
import itertools
from fractions import Fraction as F

PARITY = ("DP", "TPR", "FPR", "EO", "ERP")


def event_of(moment, y):
    if moment in ("DP", "ERP"):
        return "all"
    if moment == "TPR":
        return "label=1" if y == 1 else None
    if moment == "FPR":
        return "label=0" if y == 0 else None
    if moment == "EO":
        return f"label={y}"
    raise ValueError(moment)


class Problem:
    """a loaded data set + moment; every method is a direct transcription of the definitions"""

    def __init__(self, moment, y, g, ratio=F(1), eps=F(1, 100)):
        self.moment, self.y, self.g = moment, list(y), list(g)
        self.n = len(self.y)
        self.ratio, self.eps = F(ratio), F(eps)
        if moment == "BGL":
            self.groups = sorted(set(self.g))
            self.index = [(gg,) for gg in self.groups]
        else:
            self.ev = [event_of(moment, yy) for yy in self.y]
            pairs = sorted({(e, gg) for e, gg in zip(self.ev, self.g) if e is not None})
            self.pairs = pairs
            self.index = [("+",) + p for p in pairs] + [("-",) + p for p in pairs]

    # -- utilities ------------------------------------------------------------------
    def u(self, h):
        if self.moment == "ERP":
            return [F(yy) + (1 - 2 * yy) * F(hh) for yy, hh in zip(self.y, h)]
        return [F(hh) for hh in h]

    def du(self):
        """d u_i / d h_i"""
        if self.moment == "ERP":
            return [F(1 - 2 * yy) for yy in self.y]
        return [F(1)] * self.n

    def err(self, h):
        """misclassification rate of a (possibly soft) prediction vector"""
        return sum((F(yy) - F(hh) if yy == 1 else F(hh)) for yy, hh in zip(self.y, h)) / self.n

    def objective(self, h):
        if self.moment == "BGL":
            return sum(abs(F(yy) - F(hh)) for yy, hh in zip(self.y, h)) / self.n
        return self.err(h)

    def gamma(self, h):
        """dict index entry -> Fraction"""
        if self.moment == "BGL":
            out = {}
            for gg in self.groups:
                rows = [i for i in range(self.n) if self.g[i] == gg]
                out[(gg,)] = sum(abs(F(self.y[i]) - F(h[i])) for i in rows) / len(rows)
            return out
        u = self.u(h)
        out = {}
        for e, gg in self.pairs:
            re = [i for i in range(self.n) if self.ev[i] == e]
            rg = [i for i in re if self.g[i] == gg]
            me = sum(u[i] for i in re) / len(re)
            mg = sum(u[i] for i in rg) / len(rg)
            out[("+", e, gg)] = self.ratio * mg - me
            out[("-", e, gg)] = self.ratio * me - mg
        return out

    def bound(self):
        return {k: self.eps for k in self.index}

    def lam_dot_gamma(self, lam, h):
        gm = self.gamma(h)
        return sum(F(lam.get(k, 0)) * gm[k] for k in self.index)

    def target(self, lam, h, objective_in_span):
        """what the predictor trained for multiplier `lam` has to minimise"""
        return (0 if objective_in_span else self.objective(h)) + self.lam_dot_gamma(lam, h)

    def signed_weights(self, lam, with_objective=True):
        """w_i = -n * d(objective + lam.gamma)/d h_i   (parity moments; derivative taken coordinate-wise
        from the definitions above), so that objective + lam.gamma = const - (1/n) sum_i w_i h_i."""
        assert self.moment != "BGL"
        w = []
        du = self.du()
        for i in range(self.n):
            d = F(0)
            if with_objective:
                d += F(1 - 2 * self.y[i], self.n)
            e = self.ev[i]
            if e is not None:
                ne = sum(1 for j in range(self.n) if self.ev[j] == e)
                for (e2, gg) in self.pairs:
                    if e2 != e:
                        continue
                    ng = sum(1 for j in range(self.n) if self.ev[j] == e and self.g[j] == gg)
                    dme = du[i] / ne
                    dmg = du[i] / ng if self.g[i] == gg else F(0)
                    d += F(lam.get(("+", e, gg), 0)) * (self.ratio * dmg - dme)
                    d += F(lam.get(("-", e, gg), 0)) * (self.ratio * dme - dmg)
            w.append(-self.n * d)
        return w

    def bgl_weights(self, lam):
        """lam.gamma(h) = (1/n) sum_i w_i |y_i - h_i|  with  w_i = lam_g / P(g)"""
        out = []
        for i in range(self.n):
            ng = sum(1 for j in range(self.n) if self.g[j] == self.g[i])
            out.append(F(lam.get((self.g[i],), 0)) * self.n / ng)
        return out

    # -- basis shape (only used to recognise the F6 input shape) ------------------------
    def missing_basis_pairs(self):
        """(event, group) pairs with group != last-seen group that do not occur in the data"""
        if self.moment == "BGL":
            return []
        evs, grs = [], []
        for e in self.ev:
            if e is not None and e not in evs:
                evs.append(e)
        for gg in self.g:
            if gg not in grs:
                grs.append(gg)
        return [(e, gg) for e in evs for gg in grs[:-1] if (e, gg) not in self.pairs]


    def basis(self):
        """(neg_allowed, force_L1, pos_rows, neg_rows) of the documented lower-dimensional description:
        one coordinate per (event, group) with group != last-seen group (events and groups in order of
        appearance), mapped to the '+' entry when positive and to the '-' entry when negative; an
        unobserved pair has no entry to map to (all-zero column: the code as written, see F6).
        BGL: one non-negative coordinate per group (order of appearance), L1 norm forced."""
        grs = []
        for gg in self.g:
            if gg not in grs:
                grs.append(gg)
        if self.moment == "BGL":
            d = len(grs)
            pos = [[F(1) if grs[j] == k[0] else F(0) for j in range(d)] for k in self.index]
            neg = [[F(0)] * d for _ in self.index]
            return [False] * d, True, pos, neg
        evs = []
        for e in self.ev:
            if e is not None and e not in evs:
                evs.append(e)
        coords = [(e, gg) for e in evs for gg in grs[:-1]]
        d = len(coords)
        pos = [[F(1) if (k[0] == "+" and coords[j] == k[1:]) else F(0) for j in range(d)] for k in self.index]
        neg = [[F(1) if (k[0] == "-" and coords[j] == k[1:]) else F(0) for j in range(d)] for k in self.index]
        return [True] * d, False, pos, neg

    def grid(self, grid_size, limit):
        """list of multiplier dicts of the documented grid (None when it does not exist)"""
        na, force, pos, neg = self.basis()
        n, lams = grid_lambdas(na, force, grid_size, limit, pos, neg)
        if lams is None:
            return None
        return [dict(zip(self.index, col)) for col in lams]


def relabel(w):
    return [1 if x > 0 else 0 for x in w], [abs(x) for x in w]


def weighted01(yr, wr, h):
    return sum(wi for yi, wi, hi in zip(yr, wr, h) if yi != hi)


# ---- integer lattice -------------------------------------------------------------------

def lattice(neg_allowed, force_l1, n):
    """integer points with |v|_1 <= n (== n when forced), v_i >= 0 where negatives are not allowed,
    in lexicographic order (= the depth-first order of accumulate_integer_grid)"""
    d = len(neg_allowed)
    rng = [range(-n if na else 0, n + 1) for na in neg_allowed]
    out = []
    for v in itertools.product(*rng):
        s = sum(abs(c) for c in v)
        if (s == n) if (force_l1 and d > 0) else (s <= n):
            out.append(list(v))
    return out


def grid_lambdas(neg_allowed, force_l1, grid_size, limit, pos_rows, neg_rows):
    """(n_units, list of multiplier vectors) by the documented construction"""
    n = 0
    while True:
        lat = lattice(neg_allowed, force_l1, n)
        if len(lat) >= grid_size:
            break
        n += 1
        if n > grid_size + 1:
            return None, None
    if n == 0:
        return 0, None
    out = []
    for v in lat[:grid_size]:
        c = [F(x) * F(limit) / n for x in v]
        pos = [max(x, 0) for x in c]
        neg = [max(-x, 0) for x in c]
        out.append([sum(a * b for a, b in zip(pr, pos)) + sum(a * b for a, b in zip(nr, neg))
                    for pr, nr in zip(pos_rows, neg_rows)])
    return n, out


# ---- exact LP:  minimise c.x  s.t.  A x <= b,  sum x = 1,  x >= 0 --------------------------

def simplex_min(c, A, b):
    """Exact two-phase simplex (Bland's rule) for  min c.x : A x <= b, 1.x = 1, x >= 0.
    Returns (status, value, x) with status in {"optimal", "infeasible"} (never unbounded: the
    feasible set is inside the simplex)."""
    m, n = len(A), len(c)
    # rows: A x + s = b (s>=0), flip negative rhs; then 1.x = 1.  Artificial variable on every row.
    rows = []
    for i in range(m):
        r = [F(v) for v in A[i]] + [F(1) if j == i else F(0) for j in range(m)]
        rhs = F(b[i])
        if rhs < 0:
            r = [-v for v in r]
            rhs = -rhs
        rows.append((r, rhs))
    rows.append(([F(1)] * n + [F(0)] * m, F(1)))
    M = len(rows)
    nv = n + m
    T = [r + [F(1) if j == i else F(0) for j in range(M)] + [rhs] for i, (r, rhs) in enumerate(rows)]
    basis = [nv + i for i in range(M)]

    def run(cost, ncols):
        # reduced costs
        while True:
            z = [cost[j] - sum(cost[basis[i]] * T[i][j] for i in range(M)) for j in range(ncols)]
            enter = next((j for j in range(ncols) if z[j] < 0), None)
            if enter is None:
                return
            best, leave = None, None
            for i in range(M):
                if T[i][enter] > 0:
                    ratio = T[i][-1] / T[i][enter]
                    if best is None or ratio < best or (ratio == best and basis[i] < basis[leave]):
                        best, leave = ratio, i
            assert leave is not None, "unbounded"
            p = T[leave][enter]
            T[leave] = [v / p for v in T[leave]]
            for i in range(M):
                if i != leave and T[i][enter] != 0:
                    f = T[i][enter]
                    T[i] = [a - f * bb for a, bb in zip(T[i], T[leave])]
            basis[leave] = enter

    cost1 = [F(0)] * nv + [F(1)] * M
    run(cost1, nv + M)
    if sum(T[i][-1] for i in range(M) if basis[i] >= nv) != 0:
        return "infeasible", None, None
    # drive artificial variables out of the basis (degenerate rows)
    for i in range(M):
        if basis[i] >= nv:
            j = next((j for j in range(nv) if T[i][j] != 0), None)
            if j is not None:
                p = T[i][j]
                T[i] = [v / p for v in T[i]]
                for k in range(M):
                    if k != i and T[k][j] != 0:
                        f = T[k][j]
                        T[k] = [a - f * bb for a, bb in zip(T[k], T[i])]
                basis[i] = j
    cost2 = [F(v) for v in c] + [F(0)] * m + [F(0)] * M
    # forbid artificials from re-entering: only columns < nv may enter
    run(cost2, nv)
    x = [F(0)] * n
    for i in range(M):
        if basis[i] < n:
            x[basis[i]] = T[i][-1]
    return "optimal", sum(F(ci) * xi for ci, xi in zip(c, x)), x
