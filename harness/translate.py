"""Translator: Python `ast` -> Lean for the table / closed-expression fragments of fairlearn.
Regenerates lean/FairModel/Generated/*.lean from the working tree on every run (files are
rewritten only when their content changes, so an unchanged tree is a no-op for lake).
It refuses (raises Untranslatable) anything that is not of the shape it knows."""
import ast
import os

from . import leanrun

GEN_DIR = os.path.join(leanrun.LEAN, "FairModel", "Generated")


class Untranslatable(Exception):
    pass


def _read(repo, rel):
    with open(os.path.join(repo, rel)) as f:
        return f.read()


def _write(name, content):
    os.makedirs(GEN_DIR, exist_ok=True)
    path = os.path.join(GEN_DIR, name)
    old = None
    try:
        with open(path) as f:
            old = f.read()
    except OSError:
        pass
    if old != content:
        with open(path, "w") as f:
            f.write(content)
        return True
    return False


LIFTERS = []


def lifter(fn):
    LIFTERS.append(fn)
    return fn


def _load_lifters():
    import importlib
    import pkgutil
    from . import lifters
    for m in pkgutil.iter_modules(lifters.__path__):
        importlib.import_module(f"harness.lifters.{m.name}")


TARGETS_FILE = os.path.join(os.path.dirname(os.path.abspath(__file__)), "lifters", "targets.json")


def _load_targets():
    import json
    try:
        with open(TARGETS_FILE) as f:
            return json.load(f)
    except (OSError, ValueError):
        return {}


def run(repo, strict=False):
    """Run every lifter.  A lifter that refuses (Untranslatable) does not stop the others: its generated file keeps
    its last translatable content and the refusal is recorded under info["_refused"] = {generated file or
    "?<lifter>": message}, so that only the properties whose Lean modules import that file treat it as a broken tie
    (core.run_check).  The lifter -> generated-file table is remembered in lifters/targets.json (committed; rewritten
    only when a successful run finds a new or changed entry).  strict=True restores raise-on-first-refusal."""
    import json
    if not LIFTERS:
        _load_lifters()
    info = {}
    refused = {}
    targets = _load_targets()
    new_targets = dict(targets)
    for fn in LIFTERS:
        key = f"{fn.__module__.rsplit('.', 1)[-1]}.{fn.__name__}"
        try:
            name, content, meta = fn(repo)
        except Untranslatable as e:
            if strict:
                raise
            refused[targets.get(key, "?" + key)] = f"{key}: {e}"
            continue
        new_targets[key] = name
        changed = _write(name, content)
        info[name] = dict(meta, rewritten=changed)
    if new_targets != targets and repo == "/repo":
        try:
            with open(TARGETS_FILE, "w") as f:
                json.dump(new_targets, f, indent=1, sort_keys=True)
        except OSError:
            pass
    if refused:
        info["_refused"] = refused
    return info


def generated_deps(module):
    """Names of the Generated/*.lean files in the transitive import closure of a FairModel module."""
    import re
    seen, todo, gens = set(), [module], set()
    while todo:
        m = todo.pop()
        if m in seen or not m.startswith("FairModel"):
            continue
        seen.add(m)
        path = os.path.join(leanrun.LEAN, m.replace(".", "/") + ".lean")
        try:
            txt = open(path).read()
        except OSError:
            continue
        for imp in re.findall(r"^import\s+(FairModel\.\S+)", txt, re.M):
            if imp.startswith("FairModel.Generated."):
                gens.add(imp.split(".")[-1] + ".lean")
            todo.append(imp)
    return gens


# Lifters live in harness/lifters/*.py (auto-imported); each registers itself with @translate.lifter
# and returns (file name, Lean source, meta dict).
