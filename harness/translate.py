"""Translator: Python `ast` -> Lean for the table / closed-expression fragments of fairlearn.
Regenerates lean/FairModel/Generated/*.lean from the working tree on every run (files are
rewritten only when their content changes, so an unchanged tree is a no-op for lake).
It refuses (raises Untranslatable) anything that is not of the shape it knows."""
import ast
import os

from . import leanrun

GEN_DIR = os.path.join(leanrun.LEAN, "FairModel", "Generated")


class Untranslatable(Exception):
    pass


def _read(repo, rel):
    with open(os.path.join(repo, rel)) as f:
        return f.read()


def _write(name, content):
    os.makedirs(GEN_DIR, exist_ok=True)
    path = os.path.join(GEN_DIR, name)
    old = None
    try:
        with open(path) as f:
            old = f.read()
    except OSError:
        pass
    if old != content:
        with open(path, "w") as f:
            f.write(content)
        return True
    return False


LIFTERS = []


def lifter(fn):
    LIFTERS.append(fn)
    return fn


def _load_lifters():
    import importlib
    import pkgutil
    from . import lifters
    for m in pkgutil.iter_modules(lifters.__path__):
        importlib.import_module(f"harness.lifters.{m.name}")


def run(repo):
    if not LIFTERS:
        _load_lifters()
    info = {}
    for fn in LIFTERS:
        name, content, meta = fn(repo)
        changed = _write(name, content)
        info[name] = dict(meta, rewritten=changed)
    return info


# Lifters live in harness/lifters/*.py (auto-imported); each registers itself with @translate.lifter
# and returns (file name, Lean source, meta dict).
