"""End-to-end composition check: real fairlearn mitigators chained with real fairlearn.metrics.

    /venv/bin/python -m harness.crosscheck --cases 60 --seed 0      (VERIF_REPO=<tree> selects the checkout)

Ties the PROVED model inequalities of lean/FairModel/Properties/C06X, C04X, C08X, C09X to the code: on random
exact inputs (small integer features, labels 0/1, 2-3 groups, every group holding both labels) it fits the real
mitigators, evaluates the real `fairlearn.metrics` functions on their (expected) predictions and checks

  relation                     theorem                                   what is compared
  ---------------------------  ----------------------------------------  -------------------------------------------------
  X1.constraint-vs-metric      C06.*_difference_le_of_constraint         eps* = max(real Moment.gamma(h)) of every GridSearch
                               C06.dp_ratio_ge_of_constraint             predictor h  vs  demographic_parity_difference /
                                                                         equal_opportunity_difference / FPR difference /
                                                                         equalized_odds_difference (to_overall <= eps*,
                                                                         between_groups <= 2 eps*), demographic_parity_ratio
                                                                         >= r(r m - eps*)/(m + eps*) resp. (r m - eps*)/m
  X1.gamma-dictionary          C06.constraint_iff_rates                  real gamma entries vs exact Fraction group rates
  X1.threshold-gamma-zero      C04.threshold_*_gamma_zero                real Moment.gamma of ThresholdOptimizer._pmf_predict
                                                                         expected predictions == 0, mean_prediction difference 0
  X1.eg-certificate-vs-metric  C08.eg_constraint_of_certificate,         gamma(Q) - eps <= (1+2 best_gap_)/B and MetricFrame(
                               C08.eg_dp_difference_le                   mean_prediction).difference() <= (2x) eps+(1+2g)/B
  X1.grid-selection            C09.selected_minimises_tradeoff,          best_idx_ minimises the trade-off; cw = 1: smallest
                               C09.selected_min_max_gamma                max gamma among the trained predictors

Additions of work package L3 (same relation names, so that the wired checks of C06 / C08 / C09 see them):
  X1.constraint-vs-metric      C06.erp_difference_le_of_constraint       ErrorRateParity: accuracy_score_difference /
                                                                         zero_one_loss_difference (to_overall == max gamma,
                                                                         between_groups <= 2 eps*)
                               C06.eopp/fpr/eodds_ratio_ge_of_constraint ratio moments for TPR / FPR / EO: equal_opportunity_ratio,
                                                                         false_positive_rate_ratio, equalized_odds_ratio
                                                                         (worst_case) >= the proved constants
                               C06.*_in_stratum, erp_constraint_bounds   control features (two strata, one control value contains
                                                                         a comma and the text ",label=1"): every bound per stratum
  X1.gamma-dictionary          C06.errorRate_gamma_hard                  ErrorRate(costs).gamma(h) vs the exact cost-weighted error;
                                                                         ErrorRateParity gamma vs exact group ERROR rates
  X1.eg-certificate-vs-metric  C08.saddle_error                          exact cost-weighted error of the returned mixture <= error of
                                                                         every feasible classifier of the class + 2 best_gap_
                               C08.eg_tpr/fpr/eo_difference_le           as before, now also with control features / ErrorRateParity /
                                                                         cost-weighted objectives, and a HARD stream (tag eg-hard:*):
                                                                         barely feasible problems, eps <= 1/25, max_iter <= 8
In every case `check_grid` also evaluates two random hard predictors against the OTHER moments (`direct:*` tags).

Exact side: `fractions.Fraction` (group rates, the bounds).  Float side: tolerance TOL on every compared float.
A counterexample to a proved inequality = model/code mismatch or a defect: printed with the full case, exit 1.
The functions `check_*` return a list of (relation, message) so that the C06 / C08 / C04 / C09 checks can call them.
"""
import argparse
import json
import os
import random
import sys
from collections import Counter
from fractions import Fraction as F

TOL = 1e-9


# ------------------------------------------------------------------------------------------- data
STRATA = ["x", "y,label=1"]      # the second control value contains a comma and a look-alike suffix
MOMENTS = ["dp", "tpr", "fpr", "eo", "erp"]


def gen_case(rng):
    """random dataset; every group (of every control stratum) has both labels (quantifier of C04/C06X coverage
    hypotheses)"""
    ngroups = rng.choice([2, 2, 3])
    groups = ["a", "b", "c"][:ngroups]
    k = rng.choice([2, 3, 4])
    use_cf = rng.random() < 0.3
    rows = []
    for st in (STRATA if use_cf else [None]):
        for g in groups:
            m = rng.randint(2, 4 if use_cf else 6)
            ys = [0, 1] + [rng.randint(0, 1) for _ in range(m - 2)]
            rng.shuffle(ys)
            for yv in ys:
                rows.append((rng.randrange(k), yv, g, st))
    rng.shuffle(rows)
    case = {
        "x": [r[0] for r in rows], "y": [r[1] for r in rows], "sf": [r[2] for r in rows],
        "moment": rng.choice(["dp", "dp", "tpr", "fpr", "eo", "erp", "erp"]),
        "eps": rng.choice(["1/20", "1/10", "1/5", "1/4"]),
        "ratio": rng.choice([None, None, "1/2", "3/4", "9/10"]),
        "grid_size": rng.choice([3, 5, 8]),
        "cw": rng.choice(["1", "1", "1/2", "1/4"]),
        "kind": rng.choice(["all", "threshold"]),
        "thr_constraint": rng.choice(["demographic_parity", "true_positive_rate_parity",
                                      "false_positive_rate_parity", "equalized_odds", "selection_rate_parity"]),
        "thr_objective": rng.choice(["accuracy_score", "balanced_accuracy_score"]),
        "thr_grid": rng.choice([4, 10, 100]),
        "scores": [str(F(rng.randrange(0, 9), 8)) for _ in rows],
    }
    if use_cf:
        case["cf"] = [r[3] for r in rows]
    # ErrorRate costs (fp, fn), both <= 1 so that errors stay in [0,1] (hypothesis of C08.saddle_violation)
    case["costs"] = rng.choice([None, None, ["1", "1/2"], ["1/2", "1"], ["1", "1/4"], ["1/4", "1"], ["0", "1"], ["1", "0"]])
    case["hs"] = [[rng.randint(0, 1) for _ in rows] for _ in range(2)]
    # a nearly constant predictor (1 everywhere but on one or two rows): small gamma, so that the ratio bounds
    # r(r mu - eps*)/(mu + eps*) are POSITIVE and the ratio relations are not vacuous
    near = [1] * len(rows)
    for _ in range(rng.choice([1, 1, 2])):
        near[rng.randrange(len(rows))] = 0
    case["hs"].append(near)
    case["direct_ratio"] = rng.choice([None, "1/2", "3/4", "9/10"])
    case["hard"] = gen_hard(rng)
    return case


def gen_hard(rng):
    """barely feasible problems for ExponentiatedGradient: the feature determines the group (so the accurate
    classifiers are maximally unfair and, for small eps, only mixtures close to the constants are feasible), labels
    strongly correlated with the group, tiny eps, very few iterations"""
    groups = ["a", "b"] if rng.random() < 0.7 else ["a", "b", "c"]
    rows = []
    for gi, g in enumerate(groups):
        m = rng.randint(3, 6)
        p_major = 1 if gi % 2 == 0 else 0
        ys = [0, 1] + [p_major if rng.random() < 0.85 else 1 - p_major for _ in range(m - 2)]
        for yv in ys:
            bit = rng.randint(0, 1) if rng.random() < 0.4 else 0
            rows.append((2 * gi + bit, yv, g))
    rng.shuffle(rows)
    return {"x": [r[0] for r in rows], "y": [r[1] for r in rows], "sf": [r[2] for r in rows],
            "moment": rng.choice(["dp", "dp", "eo", "tpr", "erp"]),
            "eps": rng.choice(["1/100", "1/50", "1/25"]),
            "max_iter": rng.choice([1, 2, 3, 5, 8]),
            "eta0": rng.choice([2.0, 2.0, 0.5, 8.0]),
            "costs": None}


def mk_moment(name, eps=None, ratio=None):
    import fairlearn.reductions as red
    cls = {"dp": red.DemographicParity, "tpr": red.TruePositiveRateParity, "fpr": red.FalsePositiveRateParity,
           "eo": red.EqualizedOdds, "erp": red.ErrorRateParity}[name]
    if ratio is not None:
        return cls(ratio_bound=float(F(ratio)), ratio_bound_slack=float(F(eps)))
    return cls(difference_bound=float(F(eps)))


def containers(case):
    import pandas as pd
    X = pd.DataFrame({"f": [float(v) for v in case["x"]]})
    return X, pd.Series(case["y"]), pd.Series(case["sf"])


def fit_kwargs(case):
    import pandas as pd
    _, _, sf = containers(case)
    kw = {"sensitive_features": sf}
    if case.get("cf") is not None:
        kw["control_features"] = pd.Series(case["cf"])
    return kw


# ------------------------------------------------------------------------------------------- exact oracle
def label_events(moment):
    """(event name in the moment's index, label selected or None)"""
    return {"dp": [("all", None)], "erp": [("all", None)], "tpr": [("label=1", 1)], "fpr": [("label=0", 0)],
            "eo": [("label=0", 0), ("label=1", 1)]}[moment]


def strata_of(case):
    return sorted(set(case["cf"])) if case.get("cf") is not None else [None]


def event_name(stratum, ev):
    return ev if stratum is None else f"control={stratum},{ev}"


def utility(case, h, moment):
    """the quantity whose group means the moment constrains: the prediction, or for ErrorRateParity the error
    indicator |h - y| (= y(1-h) + (1-y)h, linear in h, so also right for expected predictions)"""
    if moment == "erp":
        return [F(yv) * (1 - F(p)) + (1 - F(yv)) * F(p) for yv, p in zip(case["y"], h)]
    return [F(p) for p in h]


def exact_rates(case, h, lab, stratum=None, moment="dp"):
    """exact mean of the utility over the rows of `stratum` (None: no control features) with label `lab` (None: all
    labels): per group and overall"""
    u = utility(case, h, moment)
    cf = case.get("cf")
    sel = [i for i, yv in enumerate(case["y"])
           if (lab is None or yv == lab) and (stratum is None or cf[i] == stratum)]
    per = {}
    for g in sorted(set(case["sf"])):
        idx = [i for i in sel if case["sf"][i] == g]
        if idx:
            per[g] = sum(u[i] for i in idx) / len(idx)
    allr = sum(u[i] for i in sel) / len(sel) if sel else None
    return per, allr


def exact_gamma(case, h, moment, ratio=None):
    """the whole gamma vector from first principles: {(sign, event, group): Fraction}"""
    r = F(ratio) if ratio is not None else F(1)
    out = {}
    for st in strata_of(case):
        for ev, lab in label_events(moment):
            per, allr = exact_rates(case, h, lab, st, moment)
            for g, v in per.items():
                out[("+", event_name(st, ev), g)] = r * v - allr
                out[("-", event_name(st, ev), g)] = r * allr - v
    return out


def exact_error(case, h, costs=None):
    """ErrorRate(costs).gamma from first principles (h may be expected predictions)"""
    fp, fn = (F(1), F(1)) if not costs else (F(costs[0]), F(costs[1]))
    n = len(case["y"])
    return sum(fn * F(yv) * (1 - F(p)) + fp * (1 - F(yv)) * F(p) for yv, p in zip(case["y"], h)) / n


def mk_objective(costs):
    import fairlearn.reductions as red
    if not costs:
        return red.ErrorRate()
    return red.ErrorRate(costs={"fp": float(F(costs[0])), "fn": float(F(costs[1]))})


def real_gamma(moment_obj, case, h):
    import numpy as np
    X, y, _ = containers(case)
    moment_obj.load_data(X, y, **fit_kwargs(case))
    hv = np.asarray([float(v) for v in h])
    return moment_obj.gamma(lambda _X: hv), moment_obj.bound()


# ------------------------------------------------------------------------------------------- relation 1 + dictionary
def named_metrics(moment, ratio):
    """(name, function(y, h, sf, method) -> float) of the user-facing metrics the composition theorems are about"""
    import fairlearn.metrics as fm
    if ratio is None:
        return {
            "dp": [("demographic_parity_difference", lambda y, h, sf, m: fm.demographic_parity_difference(y, h, sensitive_features=sf, method=m))],
            "tpr": [("equal_opportunity_difference", lambda y, h, sf, m: fm.equal_opportunity_difference(y, h, sensitive_features=sf, method=m))],
            "fpr": [("false_positive_rate_difference", lambda y, h, sf, m: fm.false_positive_rate_difference(y, h, sensitive_features=sf, method=m))],
            "eo": [("equalized_odds_difference", lambda y, h, sf, m: fm.equalized_odds_difference(y, h, sensitive_features=sf, method=m, agg="worst_case")),
                   ("equal_opportunity_difference", lambda y, h, sf, m: fm.equal_opportunity_difference(y, h, sensitive_features=sf, method=m))],
            "erp": [("accuracy_score_difference", lambda y, h, sf, m: fm.accuracy_score_difference(y, h, sensitive_features=sf, method=m)),
                    ("zero_one_loss_difference", lambda y, h, sf, m: fm.zero_one_loss_difference(y, h, sensitive_features=sf, method=m))],
        }[moment]
    return {
        "dp": [("demographic_parity_ratio", lambda y, h, sf, m: fm.demographic_parity_ratio(y, h, sensitive_features=sf, method=m))],
        "tpr": [("equal_opportunity_ratio", lambda y, h, sf, m: fm.equal_opportunity_ratio(y, h, sensitive_features=sf, method=m))],
        "fpr": [("false_positive_rate_ratio", lambda y, h, sf, m: fm.false_positive_rate_ratio(y, h, sensitive_features=sf, method=m))],
        "eo": [("equalized_odds_ratio", lambda y, h, sf, m: fm.equalized_odds_ratio(y, h, sensitive_features=sf, method=m, agg="worst_case"))],
        "erp": [],
    }[moment]


def check_constraint_vs_metric(case, h, moment, ratio=None, tag="", stats=None):
    """h: hard 0/1 predictions on the training rows.  eps* = max(real gamma) is the tightest satisfied slack.
    With control features every bound is checked per stratum (on the rows of that stratum)."""
    import numpy as np
    probs = []
    gam, _ = real_gamma(mk_moment(moment, case["eps"], ratio), case, h)
    r = F(ratio) if ratio is not None else F(1)
    # dictionary: gamma[+,e,g] = r*rate_eg - rate_e ; gamma[-,e,g] = r*rate_e - rate_eg  (exact Fractions; for
    # ErrorRateParity the rates are ERROR rates)
    want = exact_gamma(case, h, moment, ratio)
    if len(gam) != len(want):
        probs.append(("X1.gamma-dictionary", f"{tag} {moment}: gamma has {len(gam)} entries, expected {len(want)}: {sorted(want)}"))
        return probs, None
    for key, w in want.items():
        try:
            got = float(gam[key])
        except KeyError:
            probs.append(("X1.gamma-dictionary", f"{tag} {moment}: gamma has no entry {key}"))
            continue
        if abs(got - float(w)) > TOL:
            probs.append(("X1.gamma-dictionary", f"{tag} {moment} gamma[{key[0]},{key[1]},{key[2]}]={got!r} expected {w}"))
    # (no early exit: the metric-level relations below are evaluated with the implementation's own gamma even when the
    # dictionary already failed, so that a defect is reported at the level of every theorem it breaks)
    epsx = max(want.values())
    eps_star = float(max(gam))
    y, sf = np.asarray(case["y"]), np.asarray(case["sf"])
    hp = np.asarray([int(v) for v in h])
    cf = np.asarray(case["cf"]) if case.get("cf") is not None else None
    for st in strata_of(case):
        mask = np.ones(len(y), dtype=bool) if st is None else (cf == st)
        where = "" if st is None else f" [stratum {st!r}]"
        ys, hs, ss = y[mask], hp[mask], sf[mask]
        if ratio is None:
            # what the stratum's own entries of gamma allow (tightness: the to_overall difference IS their maximum)
            own = float(max(v for k, v in want.items() if st is None or k[1].startswith(f"control={st},")))
            for name, fn in named_metrics(moment, None):
                d_ov, d_bt = float(fn(ys, hs, ss, "to_overall")), float(fn(ys, hs, ss, "between_groups"))
                if not d_ov <= eps_star + TOL:
                    probs.append(("X1.constraint-vs-metric", f"{tag} {name}(to_overall){where}={d_ov!r} > eps*={eps_star!r}"))
                if not d_bt <= 2 * eps_star + TOL:
                    probs.append(("X1.constraint-vs-metric", f"{tag} {name}(between_groups){where}={d_bt!r} > 2 eps*={2 * eps_star!r}"))
                if name != "equal_opportunity_difference" or moment == "tpr":
                    if abs(d_ov - own) > TOL:
                        probs.append(("X1.constraint-vs-metric", f"{tag} {name}(to_overall){where}={d_ov!r} != max gamma of the stratum={own!r}"))
        elif moment != "erp":
            e = max(F(0), epsx)          # the theorems need eps >= 0; gamma <= max(gamma, 0) entrywise
            los_bt, los_ov = [], []
            for ev, lab in label_events(moment):
                _, m = exact_rates(case, h, lab, st, moment)
                if m is None or m <= 0:
                    los_bt = None
                    break
                los_bt.append(r * (r * m - e) / (m + e))
                los_ov.append((r * m - e) / m)
            if los_bt is None:
                if stats is not None:
                    stats["ratio:overall rate 0 (bound not applicable)"] += 1
                continue
            lo_bt, lo_ov = min(los_bt), min(los_ov)
            for name, fn in named_metrics(moment, ratio):
                r_bt, r_ov = float(fn(ys, hs, ss, "between_groups")), float(fn(ys, hs, ss, "to_overall"))
                if not r_bt >= float(lo_bt) - TOL:
                    probs.append(("X1.constraint-vs-metric", f"{tag} {name}(between){where}={r_bt!r} < {lo_bt}"))
                if not r_ov >= float(lo_ov) - TOL:
                    probs.append(("X1.constraint-vs-metric", f"{tag} {name}(to_overall){where}={r_ov!r} < {lo_ov}"))
            if stats is not None:
                stats[f"ratio:{moment} bound {'positive' if lo_bt > 0 else 'vacuous (<= 0)'}"] += 1
    return probs, eps_star


def check_objective(case, h, costs, tag=""):
    """ErrorRate(costs).gamma(h) against the exact cost-weighted error (C06.errorRate_gamma_hard)"""
    import numpy as np
    X, y, _ = containers(case)
    obj = mk_objective(costs)
    obj.load_data(X, y, **fit_kwargs(case))
    hv = np.asarray([float(v) for v in h])
    got = float(obj.gamma(lambda _X: hv).iloc[0])
    want = exact_error(case, h, costs)
    if abs(got - float(want)) > TOL:
        return [("X1.gamma-dictionary", f"{tag} ErrorRate(costs={costs}).gamma={got!r} expected {want}")]
    return []


# ------------------------------------------------------------------------------------------- GridSearch
def check_grid(case, stats):
    import numpy as np
    import fairlearn.reductions as red
    from .learners import ExactLearner
    X, y, sf = containers(case)
    ratio = case["ratio"]
    cw = F(case["cw"])
    probs = []
    # direct stream: two random hard predictors against the other moments (difference and ratio form), and the objective
    n = len(case["y"])
    others = [m for m in MOMENTS if m != case["moment"]]
    for j, h in enumerate(case.get("hs", [])):
        if j == 0:
            todo = [(others[n % len(others)], None), ("erp", None)]
        elif j == 1:
            m = others[(n + 1) % len(others)]
            todo = [(m, case.get("direct_ratio") if m != "erp" else None)]
        else:
            todo = [(["dp", "tpr", "fpr", "eo"][(n + j) % 4], case.get("direct_ratio") or "3/4")]
        for m, rt in todo:
            pr, _ = check_constraint_vs_metric(case, h, m, rt, tag=f"direct predictor {j}", stats=stats)
            probs += pr
            stats[f"direct:{m}{'/ratio' if rt else ''}{'/cf' if case.get('cf') else ''}"] += 1
        if j < 2:
            probs += check_objective(case, h, case.get("costs"), tag=f"direct predictor {j}")
    if probs:
        return probs
    gs = red.GridSearch(ExactLearner(case["kind"]), mk_moment(case["moment"], case["eps"], ratio),
                        grid_size=case["grid_size"], constraint_weight=float(cw))
    try:
        gs.fit(X, y, **fit_kwargs(case))
    except ValueError:
        stats["grid:ValueError(F12 family)"] += 1
        return []
    maxg = []
    for k, p in enumerate(gs.predictors_):
        h = [int(v) for v in np.asarray(p.predict(X)).reshape(-1)]
        pr, eps_star = check_constraint_vs_metric(case, h, case["moment"], ratio, tag=f"grid predictor {k}", stats=stats)
        probs += pr
        if eps_star is None:
            return probs
        # the gamma GridSearch stored for this predictor is the moment's gamma of its predictions
        col = gs.gammas_[gs.gammas_.columns[k]]
        if abs(float(col.max()) - eps_star) > TOL:
            probs.append(("X1.grid-selection", f"gammas_[{k}].max()={float(col.max())!r} but gamma(predictor)={eps_star!r}"))
        # ... and the stored objective is the exact 0/1 error of the predictor
        if abs(float(gs.objectives_[k]) - float(exact_error(case, h))) > TOL:
            probs.append(("X1.grid-selection", f"objectives_[{k}]={float(gs.objectives_[k])!r} but the error of the predictor is {exact_error(case, h)}"))
        maxg.append(eps_star)
        stats["grid:predictor satisfies bound" if eps_star <= float(F(case["eps"])) + TOL else "grid:predictor violates bound"] += 1
    losses = [(1 - float(cw)) * float(gs.objectives_[k]) + float(cw) * maxg[k] for k in range(len(maxg))]
    b = gs.best_idx_
    if any(losses[b] > v + TOL for v in losses):
        probs.append(("X1.grid-selection", f"best_idx_={b} loss {losses[b]!r} is not minimal: {losses!r}"))
    if cw == 1 and any(maxg[b] > v + TOL for v in maxg):
        probs.append(("X1.grid-selection", f"cw=1: selected max gamma {maxg[b]!r} not the smallest of {maxg!r}"))
    if cw == 1 and min(maxg) <= float(F(case["eps"])) + TOL and not maxg[b] <= float(F(case["eps"])) + TOL:
        probs.append(("X1.grid-selection", "cw=1: a trained predictor satisfies the bound but the selected one does not"))
    # C09.fit_selected_gammaLe, any cw in (0,1]: selected max gamma <= (smallest max gamma) + (1-cw)/cw
    if maxg[b] > min(maxg) + float((1 - cw) / cw) + TOL:
        probs.append(("X1.grid-selection", f"cw={cw}: selected max gamma {maxg[b]!r} > min {min(maxg)!r} + (1-cw)/cw"))
    stats[f"grid:npred={min(len(maxg), 9)}"] += 1
    stats[f"grid:moment={case['moment']}{'/ratio' if ratio else ''}{'/cf' if case.get('cf') else ''}"] += 1
    return probs


# ------------------------------------------------------------------------------------------- ThresholdOptimizer
def check_threshold(case, stats):
    import numpy as np
    import pandas as pd
    import fairlearn.metrics as fm
    from fairlearn.postprocessing import ThresholdOptimizer
    from .thr_common import _estimator
    scores = np.array([float(F(s)) for s in case["scores"]])
    X = pd.DataFrame({"score": scores})
    y, sf = pd.Series(case["y"]), pd.Series(case["sf"])
    to = ThresholdOptimizer(estimator=_estimator(), prefit=True, predict_method="predict",
                            constraints=case["thr_constraint"], objective=case["thr_objective"],
                            grid_size=case["thr_grid"], flip=bool(case["thr_grid"] % 3 == 1))
    to.fit(X, y, sensitive_features=sf)
    exp = to._pmf_predict(X, sensitive_features=sf)[:, 1]
    moment = {"demographic_parity": "dp", "selection_rate_parity": "dp", "true_positive_rate_parity": "tpr",
              "false_positive_rate_parity": "fpr", "equalized_odds": "eo"}[case["thr_constraint"]]
    c2 = dict(case, x=[0] * len(case["y"]), cf=None)     # ThresholdOptimizer has no control features
    gam, _ = real_gamma(mk_moment(moment, "1/100"), c2, [float(v) for v in exp])
    probs = []
    worst = float(np.abs(np.asarray(gam, dtype=float)).max())
    if worst > 1e-7:
        probs.append(("X1.threshold-gamma-zero", f"{case['thr_constraint']}: max |gamma(expected predictions)| = {worst!r}"))
    yv, sv = np.asarray(case["y"]), np.asarray(case["sf"])
    for ev, lab in label_events(moment):
        mask = np.ones(len(yv), dtype=bool) if lab is None else (yv == lab)
        mf = fm.MetricFrame(metrics=fm.mean_prediction, y_true=yv[mask], y_pred=exp[mask], sensitive_features=sv[mask])
        for meth in ("between_groups", "to_overall"):
            d = float(mf.difference(method=meth))
            if d > 1e-7:
                probs.append(("X1.threshold-gamma-zero", f"{case['thr_constraint']}: mean_prediction difference({meth}) on {ev} = {d!r}"))
    stats[f"thr:{case['thr_constraint']}"] += 1
    stats["thr:randomised rule" if np.any((exp > 1e-12) & (exp < 1 - 1e-12)) else "thr:deterministic rule"] += 1
    return probs


# ------------------------------------------------------------------------------------------- ExponentiatedGradient
def check_eg(case, stats):
    probs = run_eg(case, stats, max_iter=30, eta0=2.0, pre="eg")
    hard = case.get("hard")
    if hard and not probs:
        probs += run_eg(hard, stats, max_iter=hard["max_iter"], eta0=hard["eta0"], pre="eg-hard")
    return probs


def run_eg(case, stats, max_iter, eta0, pre):
    import numpy as np
    import fairlearn.metrics as fm
    import fairlearn.reductions as red
    from .learners import ExactLearner, hypotheses
    X, y, sf = containers(case)
    eps = F(case["eps"])
    moment, costs = case["moment"], case.get("costs")
    eg = red.ExponentiatedGradient(ExactLearner("all"), mk_moment(moment, case["eps"]), eps=float(eps),
                                   max_iter=max_iter, nu=1e-6, eta0=eta0, objective=mk_objective(costs))
    try:
        eg.fit(X, y, **fit_kwargs(case))
    except ValueError:
        stats[f"{pre}:ValueError(F14 family)"] += 1
        return []
    preds = {i: np.asarray(eg.predictors_[i].predict(X)).reshape(-1).astype(float) for i in eg.predictors_.index}
    w = {i: float(eg.weights_[i]) for i in eg.weights_.index}
    expq = sum(w[i] * preds[i] for i in w)
    via_pmf = eg._pmf_predict(X)[:, 1]
    probs = []
    if float(np.abs(expq - via_pmf).max()) > 1e-9:
        probs.append(("X1.eg-certificate-vs-metric", f"{pre}: weights_-mixture of predictors_ != _pmf_predict"))
    g = float(eg.best_gap_)
    B = 1 / float(eps)
    slack = (1 + 2 * g) / B
    gam, bnd = real_gamma(mk_moment(moment, case["eps"]), case, [float(v) for v in expq])
    viol = float((gam - bnd).max())
    if viol > slack + TOL:
        probs.append(("X1.eg-certificate-vs-metric", f"{pre}: max(gamma(Q)-bound)={viol!r} > (1+2*best_gap_)/B={slack!r}"))
    # gamma(Q) itself is the first-principles gamma of the expected predictions (affinity of gamma)
    expq_x = [F(float(v)).limit_denominator(10 ** 12) for v in expq]
    want = exact_gamma(case, expq_x, moment)
    for key, wv in want.items():
        if key not in gam.index:
            probs.append(("X1.eg-certificate-vs-metric", f"{pre}: gamma(Q) has no entry {key}"))
            break
        if abs(float(gam[key]) - float(wv)) > 1e-7:
            probs.append(("X1.eg-certificate-vs-metric", f"{pre}: gamma(Q)[{key}]={float(gam[key])!r} but the expected group rates give {float(wv)!r}"))
            break
    # C08.saddle_error: error(Q) <= error(h') + 2 best_gap_ for every FEASIBLE classifier h' of the class
    # (the class of ExactLearner('all') = all labelings of the feature values; the constants are always feasible)
    vals = sorted(set(case["x"]))
    err_q = float(exact_error(case, expq_x, costs))
    best_feas = None
    for lab in hypotheses("all", len(vals)):
        hh = [lab[vals.index(v)] for v in case["x"]]
        if max(exact_gamma(case, hh, moment).values()) <= eps:
            e1 = exact_error(case, hh, costs)
            best_feas = e1 if best_feas is None else min(best_feas, e1)
    if best_feas is None:
        stats[f"{pre}:no feasible deterministic classifier"] += 1
    elif err_q > float(best_feas) + 2 * g + 1e-7:
        probs.append(("X1.eg-certificate-vs-metric",
                      f"{pre}: error(Q)={err_q!r} > best feasible deterministic error {best_feas} + 2*best_gap_={2 * g!r} (costs={costs})"))
    yv, sv = np.asarray(case["y"]), np.asarray(case["sf"])
    cf = np.asarray(case["cf"]) if case.get("cf") is not None else None
    e2 = float(eps) + slack
    u = np.asarray([float(v) for v in utility(case, expq_x, moment)])     # predictions, or expected errors (erp)
    es = float(max(gam))
    for st in strata_of(case):
        for ev, lab in label_events(moment):
            mask = np.ones(len(yv), dtype=bool) if lab is None else (yv == lab)
            if st is not None:
                mask &= (cf == st)
            name = event_name(st, ev)
            mf = fm.MetricFrame(metrics=fm.mean_prediction, y_true=yv[mask], y_pred=u[mask], sensitive_features=sv[mask])
            d_bt, d_ov = float(mf.difference(method="between_groups")), float(mf.difference(method="to_overall"))
            if d_ov > e2 + TOL:
                probs.append(("X1.eg-certificate-vs-metric", f"{pre}: {name}: mean_prediction difference(to_overall)={d_ov!r} > eps+(1+2g)/B={e2!r}"))
            if d_bt > 2 * e2 + TOL:
                probs.append(("X1.eg-certificate-vs-metric", f"{pre}: {name}: mean_prediction difference(between)={d_bt!r} > 2(eps+(1+2g)/B)={2 * e2!r}"))
            # sharper, also proved: with eps' = max gamma(Q) the item-1 bounds hold for the expected predictions
            if d_ov > es + 1e-7 or d_bt > 2 * es + 1e-7:
                probs.append(("X1.constraint-vs-metric", f"{pre}: EG expected predictions, {name}: differences {d_ov!r}/{d_bt!r} vs max gamma(Q)={es!r}"))
    # every stored hard predictor individually
    for i in list(preds)[:3]:
        pr, _ = check_constraint_vs_metric(case, [int(v) for v in preds[i]], moment, None, tag=f"{pre} predictor {i}")
        probs += pr
    stats[f"{pre}:npred={min(len(w), 9)}"] += 1
    stats[f"{pre}:gap<1e-6" if g < 1e-6 else (f"{pre}:gap<1e-2" if g < 1e-2 else f"{pre}:gap>=1e-2")] += 1
    stats[f"{pre}:constraint violated by Q" if viol > 1e-9 else (f"{pre}:constraint active" if viol > -1e-9 else f"{pre}:constraint slack")] += 1
    stats[f"{pre}:moment={moment}{'/cf' if case.get('cf') else ''}{'/costs' if costs else ''}"] += 1
    if pre == "eg-hard":
        stats[f"{pre}:max_iter={max_iter}"] += 1
        stats[f"{pre}:certificate margin {'<10%' if viol > 0.9 * slack else ('<50%' if viol > 0.5 * slack else '>=50%')}"] += 1
    return probs


# ------------------------------------------------------------------------------------------- driver
def run(cases, seed, verbose=False):
    rng = random.Random(seed)
    stats = Counter()
    failures = []
    for n in range(cases):
        case = gen_case(rng)
        for name, fn in (("grid", check_grid), ("threshold", check_threshold), ("eg", check_eg)):
            try:
                probs = fn(case, stats)
            except Exception as e:  # noqa: BLE001  an unexpected exception of the mitigator is itself reported
                probs = [(f"X1.{name}-raised", f"{type(e).__name__}: {e}")]
            for rel, msg in probs:
                failures.append((rel, msg, case))
        stats[f"rows={len(case['y']) // 4 * 4}+"] += 1
        stats[f"moment={case['moment']}"] += 1
        if failures and len(failures) > 20:
            break
    return stats, failures


def main():
    ap = argparse.ArgumentParser()
    ap.add_argument("--cases", type=int, default=60)
    ap.add_argument("--seed", type=int, default=int(os.environ.get("VERIF_SEED", "0")))
    ap.add_argument("--replay-dir", default=os.environ.get("VERIF_REPLAY_DIR", "replays"))
    a = ap.parse_args()
    os.environ.setdefault("OMP_NUM_THREADS", "1")
    repo = os.environ.get("VERIF_REPO", "/repo")
    if repo != "/repo":
        sys.path.insert(0, repo)
    import warnings
    warnings.filterwarnings("ignore")
    import logging
    logging.disable(logging.WARNING)
    stats, failures = run(a.cases, a.seed)
    print("crosscheck distribution:")
    for k in sorted(stats):
        print(f"  {k:40s} {stats[k]}")
    if failures:
        os.makedirs(a.replay_dir, exist_ok=True)
        seen = set()
        for rel, msg, case in failures:
            if rel in seen:
                continue
            seen.add(rel)
            path = os.path.join(a.replay_dir, f"X1-{rel.split('.')[-1]}-seed{a.seed}.json")
            with open(path, "w") as f:
                json.dump({"relation": rel, "message": msg, "case": case}, f, indent=1)
            print(f"VIOLATION property=X1 relation={rel} replay={path} :: {msg}")
        print("crosscheck: counterexamples per relation: " + json.dumps(Counter(rel for rel, _, _ in failures), sort_keys=True))
        print(f"crosscheck: {len(failures)} counterexample(s) in {a.cases} cases")
        sys.exit(1)
    print(f"crosscheck: OK, {a.cases} cases, seed {a.seed}, no counterexample")
    sys.exit(0)


if __name__ == "__main__":
    main()
