"""End-to-end composition check: real fairlearn mitigators chained with real fairlearn.metrics.

    /venv/bin/python -m harness.crosscheck --cases 60 --seed 0      (VERIF_REPO=<tree> selects the checkout)

Ties the PROVED model inequalities of lean/FairModel/Properties/C06X, C04X, C08X, C09X to the code: on random
exact inputs (small integer features, labels 0/1, 2-3 groups, every group holding both labels) it fits the real
mitigators, evaluates the real `fairlearn.metrics` functions on their (expected) predictions and checks

  relation                     theorem                                   what is compared
  ---------------------------  ----------------------------------------  -------------------------------------------------
  X1.constraint-vs-metric      C06.*_difference_le_of_constraint         eps* = max(real Moment.gamma(h)) of every GridSearch
                               C06.dp_ratio_ge_of_constraint             predictor h  vs  demographic_parity_difference /
                                                                         equal_opportunity_difference / FPR difference /
                                                                         equalized_odds_difference (to_overall <= eps*,
                                                                         between_groups <= 2 eps*), demographic_parity_ratio
                                                                         >= r(r m - eps*)/(m + eps*) resp. (r m - eps*)/m
  X1.gamma-dictionary          C06.constraint_iff_rates                  real gamma entries vs exact Fraction group rates
  X1.threshold-gamma-zero      C04.threshold_*_gamma_zero                real Moment.gamma of ThresholdOptimizer._pmf_predict
                                                                         expected predictions == 0, mean_prediction difference 0
  X1.eg-certificate-vs-metric  C08.eg_constraint_of_certificate,         gamma(Q) - eps <= (1+2 best_gap_)/B and MetricFrame(
                               C08.eg_dp_difference_le                   mean_prediction).difference() <= (2x) eps+(1+2g)/B
  X1.grid-selection            C09.selected_minimises_tradeoff,          best_idx_ minimises the trade-off; cw = 1: smallest
                               C09.selected_min_max_gamma                max gamma among the trained predictors

Exact side: `fractions.Fraction` (group rates, the bounds).  Float side: tolerance TOL on every compared float.
A counterexample to a proved inequality = model/code mismatch or a defect: printed with the full case, exit 1.
The functions `check_*` return a list of (relation, message) so that the C06 / C08 / C04 / C09 checks can call them.
"""
import argparse
import json
import os
import random
import sys
from collections import Counter
from fractions import Fraction as F

TOL = 1e-9


# ------------------------------------------------------------------------------------------- data
def gen_case(rng):
    """random dataset; every group has both labels (quantifier of C04/C06X coverage hypotheses)"""
    ngroups = rng.choice([2, 2, 3])
    groups = ["a", "b", "c"][:ngroups]
    k = rng.choice([2, 3, 4])
    rows = []
    for g in groups:
        m = rng.randint(2, 6)
        ys = [0, 1] + [rng.randint(0, 1) for _ in range(m - 2)]
        rng.shuffle(ys)
        for yv in ys:
            rows.append((rng.randrange(k), yv, g))
    rng.shuffle(rows)
    return {
        "x": [r[0] for r in rows], "y": [r[1] for r in rows], "sf": [r[2] for r in rows],
        "moment": rng.choice(["dp", "dp", "tpr", "fpr", "eo"]),
        "eps": rng.choice(["1/20", "1/10", "1/5", "1/4"]),
        "ratio": rng.choice([None, None, "1/2", "3/4", "9/10"]),
        "grid_size": rng.choice([3, 5, 8]),
        "cw": rng.choice(["1", "1", "1/2", "1/4"]),
        "kind": rng.choice(["all", "threshold"]),
        "thr_constraint": rng.choice(["demographic_parity", "true_positive_rate_parity",
                                      "false_positive_rate_parity", "equalized_odds", "selection_rate_parity"]),
        "thr_objective": rng.choice(["accuracy_score", "balanced_accuracy_score"]),
        "thr_grid": rng.choice([4, 10, 100]),
        "scores": [str(F(rng.randrange(0, 9), 8)) for _ in rows],
    }


def mk_moment(name, eps=None, ratio=None):
    import fairlearn.reductions as red
    cls = {"dp": red.DemographicParity, "tpr": red.TruePositiveRateParity, "fpr": red.FalsePositiveRateParity,
           "eo": red.EqualizedOdds}[name]
    if ratio is not None:
        return cls(ratio_bound=float(F(ratio)), ratio_bound_slack=float(F(eps)))
    return cls(difference_bound=float(F(eps)))


def containers(case):
    import pandas as pd
    X = pd.DataFrame({"f": [float(v) for v in case["x"]]})
    return X, pd.Series(case["y"]), pd.Series(case["sf"])


# ------------------------------------------------------------------------------------------- exact oracle
def label_events(moment):
    """(event name in the moment's index, label selected or None)"""
    return {"dp": [("all", None)], "tpr": [("label=1", 1)], "fpr": [("label=0", 0)],
            "eo": [("label=0", 0), ("label=1", 1)]}[moment]


def exact_rates(case, h, lab):
    """exact mean of h over the rows with label `lab` (None: all rows): per group and overall"""
    sel = [i for i, yv in enumerate(case["y"]) if lab is None or yv == lab]
    per = {}
    for g in sorted(set(case["sf"])):
        idx = [i for i in sel if case["sf"][i] == g]
        if idx:
            per[g] = sum(F(h[i]) for i in idx) / len(idx)
    allr = sum(F(h[i]) for i in sel) / len(sel) if sel else None
    return per, allr


def real_gamma(moment_obj, case, h):
    import numpy as np
    X, y, sf = containers(case)
    moment_obj.load_data(X, y, sensitive_features=sf)
    hv = np.asarray([float(v) for v in h])
    return moment_obj.gamma(lambda _X: hv), moment_obj.bound()


# ------------------------------------------------------------------------------------------- relation 1 + dictionary
def check_constraint_vs_metric(case, h, moment, ratio=None, tag=""):
    """h: hard 0/1 predictions on the training rows.  eps* = max(real gamma) is the tightest satisfied slack."""
    import numpy as np
    import fairlearn.metrics as fm
    probs = []
    gam, _ = real_gamma(mk_moment(moment, case["eps"], ratio), case, h)
    r = F(ratio) if ratio is not None else F(1)
    # dictionary: gamma[+,e,g] = r*rate_eg - rate_e ; gamma[-,e,g] = r*rate_e - rate_eg  (exact Fractions)
    epsx = None
    for ev, lab in label_events(moment):
        per, allr = exact_rates(case, h, lab)
        for g, v in per.items():
            for sign, want in (("+", r * v - allr), ("-", r * allr - v)):
                got = float(gam[(sign, ev, g)])
                if abs(got - float(want)) > TOL:
                    probs.append(("X1.gamma-dictionary", f"{tag} gamma[{sign},{ev},{g}]={got!r} expected {want}"))
                epsx = want if epsx is None else max(epsx, want)
    if probs:
        return probs, None
    eps_star = float(max(gam))
    y, sf = np.asarray(case["y"]), np.asarray(case["sf"])
    hp = np.asarray([int(v) for v in h])
    if ratio is None:
        # the composition theorems are about what fairlearn.metrics returns for these predictions
        metrics = {
            "dp": [("demographic_parity_difference", lambda m: fm.demographic_parity_difference(y, hp, sensitive_features=sf, method=m))],
            "tpr": [("equal_opportunity_difference", lambda m: fm.equal_opportunity_difference(y, hp, sensitive_features=sf, method=m))],
            "fpr": [("false_positive_rate_difference", lambda m: fm.false_positive_rate_difference(y, hp, sensitive_features=sf, method=m))],
            "eo": [("equalized_odds_difference", lambda m: fm.equalized_odds_difference(y, hp, sensitive_features=sf, method=m, agg="worst_case")),
                   ("equal_opportunity_difference", lambda m: fm.equal_opportunity_difference(y, hp, sensitive_features=sf, method=m))],
        }[moment]
        for name, fn in metrics:
            d_ov, d_bt = float(fn("to_overall")), float(fn("between_groups"))
            if not d_ov <= eps_star + TOL:
                probs.append(("X1.constraint-vs-metric", f"{tag} {name}(to_overall)={d_ov!r} > eps*={eps_star!r}"))
            if not d_bt <= 2 * eps_star + TOL:
                probs.append(("X1.constraint-vs-metric", f"{tag} {name}(between_groups)={d_bt!r} > 2 eps*={2 * eps_star!r}"))
            if name != "equal_opportunity_difference" or moment == "tpr":
                # tightness: the to_overall difference IS the largest gamma entry
                if abs(d_ov - eps_star) > TOL:
                    probs.append(("X1.constraint-vs-metric", f"{tag} {name}(to_overall)={d_ov!r} != max gamma={eps_star!r}"))
    elif moment == "dp":
        per, m = exact_rates(case, h, None)
        if m > 0:
            e = max(F(0), epsx)          # the theorem needs eps >= 0; gamma <= max(gamma, 0) entrywise
            lo_bt = r * (r * m - e) / (m + e)
            lo_ov = (r * m - e) / m
            r_bt = float(fm.demographic_parity_ratio(y, hp, sensitive_features=sf, method="between_groups"))
            r_ov = float(fm.demographic_parity_ratio(y, hp, sensitive_features=sf, method="to_overall"))
            if not r_bt >= float(lo_bt) - TOL:
                probs.append(("X1.constraint-vs-metric", f"{tag} demographic_parity_ratio(between)={r_bt!r} < {lo_bt}"))
            if not r_ov >= float(lo_ov) - TOL:
                probs.append(("X1.constraint-vs-metric", f"{tag} demographic_parity_ratio(to_overall)={r_ov!r} < {lo_ov}"))
    return probs, eps_star


# ------------------------------------------------------------------------------------------- GridSearch
def check_grid(case, stats):
    import numpy as np
    import fairlearn.reductions as red
    from .learners import ExactLearner
    X, y, sf = containers(case)
    ratio = case["ratio"] if case["moment"] == "dp" else None
    cw = F(case["cw"])
    gs = red.GridSearch(ExactLearner(case["kind"]), mk_moment(case["moment"], case["eps"], ratio),
                        grid_size=case["grid_size"], constraint_weight=float(cw))
    try:
        gs.fit(X, y, sensitive_features=sf)
    except ValueError:
        stats["grid:ValueError(F12 family)"] += 1
        return []
    probs = []
    maxg = []
    for k, p in enumerate(gs.predictors_):
        h = [int(v) for v in np.asarray(p.predict(X)).reshape(-1)]
        pr, eps_star = check_constraint_vs_metric(case, h, case["moment"], ratio, tag=f"grid predictor {k}")
        probs += pr
        if eps_star is None:
            return probs
        # the gamma GridSearch stored for this predictor is the moment's gamma of its predictions
        col = gs.gammas_[gs.gammas_.columns[k]]
        if abs(float(col.max()) - eps_star) > TOL:
            probs.append(("X1.grid-selection", f"gammas_[{k}].max()={float(col.max())!r} but gamma(predictor)={eps_star!r}"))
        maxg.append(eps_star)
        stats["grid:predictor satisfies bound" if eps_star <= float(F(case["eps"])) + TOL else "grid:predictor violates bound"] += 1
    losses = [(1 - float(cw)) * float(gs.objectives_[k]) + float(cw) * maxg[k] for k in range(len(maxg))]
    b = gs.best_idx_
    if any(losses[b] > v + TOL for v in losses):
        probs.append(("X1.grid-selection", f"best_idx_={b} loss {losses[b]!r} is not minimal: {losses!r}"))
    if cw == 1 and any(maxg[b] > v + TOL for v in maxg):
        probs.append(("X1.grid-selection", f"cw=1: selected max gamma {maxg[b]!r} not the smallest of {maxg!r}"))
    if cw == 1 and min(maxg) <= float(F(case["eps"])) + TOL and not maxg[b] <= float(F(case["eps"])) + TOL:
        probs.append(("X1.grid-selection", "cw=1: a trained predictor satisfies the bound but the selected one does not"))
    stats[f"grid:npred={min(len(maxg), 9)}"] += 1
    return probs


# ------------------------------------------------------------------------------------------- ThresholdOptimizer
def check_threshold(case, stats):
    import numpy as np
    import pandas as pd
    import fairlearn.metrics as fm
    from fairlearn.postprocessing import ThresholdOptimizer
    from .thr_common import _estimator
    scores = np.array([float(F(s)) for s in case["scores"]])
    X = pd.DataFrame({"score": scores})
    y, sf = pd.Series(case["y"]), pd.Series(case["sf"])
    to = ThresholdOptimizer(estimator=_estimator(), prefit=True, predict_method="predict",
                            constraints=case["thr_constraint"], objective=case["thr_objective"],
                            grid_size=case["thr_grid"], flip=bool(case["thr_grid"] % 3 == 1))
    to.fit(X, y, sensitive_features=sf)
    exp = to._pmf_predict(X, sensitive_features=sf)[:, 1]
    moment = {"demographic_parity": "dp", "selection_rate_parity": "dp", "true_positive_rate_parity": "tpr",
              "false_positive_rate_parity": "fpr", "equalized_odds": "eo"}[case["thr_constraint"]]
    c2 = dict(case, x=[0] * len(case["y"]))
    gam, _ = real_gamma(mk_moment(moment, "1/100"), c2, [float(v) for v in exp])
    probs = []
    worst = float(np.abs(np.asarray(gam, dtype=float)).max())
    if worst > 1e-7:
        probs.append(("X1.threshold-gamma-zero", f"{case['thr_constraint']}: max |gamma(expected predictions)| = {worst!r}"))
    yv, sv = np.asarray(case["y"]), np.asarray(case["sf"])
    for ev, lab in label_events(moment):
        mask = np.ones(len(yv), dtype=bool) if lab is None else (yv == lab)
        mf = fm.MetricFrame(metrics=fm.mean_prediction, y_true=yv[mask], y_pred=exp[mask], sensitive_features=sv[mask])
        for meth in ("between_groups", "to_overall"):
            d = float(mf.difference(method=meth))
            if d > 1e-7:
                probs.append(("X1.threshold-gamma-zero", f"{case['thr_constraint']}: mean_prediction difference({meth}) on {ev} = {d!r}"))
    stats[f"thr:{case['thr_constraint']}"] += 1
    stats["thr:randomised rule" if np.any((exp > 1e-12) & (exp < 1 - 1e-12)) else "thr:deterministic rule"] += 1
    return probs


# ------------------------------------------------------------------------------------------- ExponentiatedGradient
def check_eg(case, stats):
    import numpy as np
    import fairlearn.metrics as fm
    import fairlearn.reductions as red
    from .learners import ExactLearner
    X, y, sf = containers(case)
    eps = F(case["eps"])
    eg = red.ExponentiatedGradient(ExactLearner("all"), mk_moment(case["moment"], case["eps"]), eps=float(eps),
                                   max_iter=30, nu=1e-6)
    try:
        eg.fit(X, y, sensitive_features=sf)
    except ValueError:
        stats["eg:ValueError(F14 family)"] += 1
        return []
    preds = {i: np.asarray(eg.predictors_[i].predict(X)).reshape(-1).astype(float) for i in eg.predictors_.index}
    w = {i: float(eg.weights_[i]) for i in eg.weights_.index}
    expq = sum(w[i] * preds[i] for i in w)
    via_pmf = eg._pmf_predict(X)[:, 1]
    probs = []
    if float(np.abs(expq - via_pmf).max()) > 1e-9:
        probs.append(("X1.eg-certificate-vs-metric", "weights_-mixture of predictors_ != _pmf_predict"))
    g = float(eg.best_gap_)
    B = 1 / float(eps)
    slack = (1 + 2 * g) / B
    gam, bnd = real_gamma(mk_moment(case["moment"], case["eps"]), case, [float(v) for v in expq])
    viol = float((gam - bnd).max())
    if viol > slack + TOL:
        probs.append(("X1.eg-certificate-vs-metric", f"max(gamma(Q)-bound)={viol!r} > (1+2*best_gap_)/B={slack!r}"))
    yv, sv = np.asarray(case["y"]), np.asarray(case["sf"])
    e2 = float(eps) + slack
    for ev, lab in label_events(case["moment"]):
        mask = np.ones(len(yv), dtype=bool) if lab is None else (yv == lab)
        mf = fm.MetricFrame(metrics=fm.mean_prediction, y_true=yv[mask], y_pred=expq[mask], sensitive_features=sv[mask])
        d_bt, d_ov = float(mf.difference(method="between_groups")), float(mf.difference(method="to_overall"))
        if d_ov > e2 + TOL:
            probs.append(("X1.eg-certificate-vs-metric", f"{ev}: mean_prediction difference(to_overall)={d_ov!r} > eps+(1+2g)/B={e2!r}"))
        if d_bt > 2 * e2 + TOL:
            probs.append(("X1.eg-certificate-vs-metric", f"{ev}: mean_prediction difference(between)={d_bt!r} > 2(eps+(1+2g)/B)={2 * e2!r}"))
        # sharper, also proved: with eps' = max gamma(Q) the item-1 bounds hold for the expected predictions
        es = float(max(gam))
        if d_ov > es + TOL or d_bt > 2 * es + TOL:
            probs.append(("X1.constraint-vs-metric", f"EG expected predictions, {ev}: differences {d_ov!r}/{d_bt!r} vs max gamma(Q)={es!r}"))
    # every stored hard predictor individually
    for i in list(preds)[:4]:
        pr, _ = check_constraint_vs_metric(case, [int(v) for v in preds[i]], case["moment"], None, tag=f"EG predictor {i}")
        probs += pr
    stats[f"eg:npred={min(len(w), 9)}"] += 1
    stats["eg:gap<1e-6" if g < 1e-6 else "eg:gap>=1e-6"] += 1
    stats["eg:constraint active" if viol > -1e-9 else "eg:constraint slack"] += 1
    return probs


# ------------------------------------------------------------------------------------------- driver
def run(cases, seed, verbose=False):
    rng = random.Random(seed)
    stats = Counter()
    failures = []
    for n in range(cases):
        case = gen_case(rng)
        for name, fn in (("grid", check_grid), ("threshold", check_threshold), ("eg", check_eg)):
            try:
                probs = fn(case, stats)
            except Exception as e:  # noqa: BLE001  an unexpected exception of the mitigator is itself reported
                probs = [(f"X1.{name}-raised", f"{type(e).__name__}: {e}")]
            for rel, msg in probs:
                failures.append((rel, msg, case))
        stats[f"rows={len(case['y']) // 4 * 4}+"] += 1
        stats[f"moment={case['moment']}"] += 1
        if failures and len(failures) > 20:
            break
    return stats, failures


def main():
    ap = argparse.ArgumentParser()
    ap.add_argument("--cases", type=int, default=60)
    ap.add_argument("--seed", type=int, default=int(os.environ.get("VERIF_SEED", "0")))
    ap.add_argument("--replay-dir", default=os.environ.get("VERIF_REPLAY_DIR", "replays"))
    a = ap.parse_args()
    os.environ.setdefault("OMP_NUM_THREADS", "1")
    repo = os.environ.get("VERIF_REPO", "/repo")
    if repo != "/repo":
        sys.path.insert(0, repo)
    import warnings
    warnings.filterwarnings("ignore")
    import logging
    logging.disable(logging.WARNING)
    stats, failures = run(a.cases, a.seed)
    print("crosscheck distribution:")
    for k in sorted(stats):
        print(f"  {k:40s} {stats[k]}")
    if failures:
        os.makedirs(a.replay_dir, exist_ok=True)
        seen = set()
        for rel, msg, case in failures:
            if rel in seen:
                continue
            seen.add(rel)
            path = os.path.join(a.replay_dir, f"X1-{rel.split('.')[-1]}-seed{a.seed}.json")
            with open(path, "w") as f:
                json.dump({"relation": rel, "message": msg, "case": case}, f, indent=1)
            print(f"VIOLATION property=X1 relation={rel} replay={path} :: {msg}")
        print(f"crosscheck: {len(failures)} counterexample(s) in {a.cases} cases")
        sys.exit(1)
    print(f"crosscheck: OK, {a.cases} cases, seed {a.seed}, no counterexample")
    sys.exit(0)


if __name__ == "__main__":
    main()
