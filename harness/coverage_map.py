"""Print the translator-tie map as a markdown table (pasted into DESIGN.md section 4a):
lifter -> generated file -> fairlearn source files it reads -> properties whose Lean modules import the generated file.

    /venv/bin/python -m harness.coverage_map
"""
import json
import os
import re

from . import leanrun, translate

HERE = os.path.dirname(os.path.abspath(__file__))


def main():
    targets = json.load(open(os.path.join(HERE, "lifters", "targets.json")))
    props = sorted(f[:-5] for f in os.listdir(os.path.join(leanrun.LEAN, "FairModel", "Properties")) if f.endswith(".lean"))
    deps = {p: translate.generated_deps(f"FairModel.Properties.{p}") for p in props}
    by_file = {}
    for key, gen in targets.items():
        by_file.setdefault(gen, []).append(key)
    print("| generated file | lifter | fairlearn sources read | imported by |")
    print("|---|---|---|---|")
    for gen in sorted(by_file):
        srcs = set()
        for key in by_file[gen]:
            mod = key.split(".")[0]
            txt = open(os.path.join(HERE, "lifters", mod + ".py")).read()
            srcs |= set(re.findall(r"fairlearn/[A-Za-z0-9_/]+\.py", txt))
            srcs |= {m for m in re.findall(r"[\"'](_[a-z_]+\.py)[\"']", txt)}
        users = sorted({p[:3] for p, d in deps.items() if gen in d})
        short = sorted(s.replace("fairlearn/", "") for s in srcs)
        print(f"| `{gen}` | `{', '.join(sorted(k.split('.')[0] + '.py' for k in by_file[gen]))}` | {', '.join(short) or '(see lifter)'} | {', '.join(users)} |")


if __name__ == "__main__":
    main()
