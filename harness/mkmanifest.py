"""Regenerates /verif/MANIFEST.json from the table below (run: /venv/bin/python -m harness.mkmanifest)."""
import json
import os

VERIF = os.path.dirname(os.path.dirname(os.path.abspath(__file__)))

LEVEL_NOTE = ("Trusted: Lean 4.33 kernel + axioms {propext, Classical.choice, Quot.sound} (audited per run with "
              "#audit_ns; no sorry/native_decide/own axioms); harness/translate.py for generated tables; the "
              "correspondence check (differential testing vs the compiled Lean driver on exactly representable inputs, "
              "tolerance stated in evidence); IEEE rounding, pandas/numpy/sklearn/scipy/torch internals are modelled by "
              "their specification, not verified.")

def table():
    """pid -> (claimed?, technique, level text, design ref) collected from harness/props/cXX.py"""
    import importlib
    out = {}
    d = os.path.join(VERIF, "harness", "props")
    for fn in sorted(os.listdir(d)):
        if fn.startswith("c") and fn.endswith(".py"):
            mod = importlib.import_module(f"harness.props.{fn[:-3]}")
            c = mod.CHECK
            if getattr(c, "claimed", True):
                out[c.pid] = (True, c.technique, c.level_text, c.design_ref)
            else:
                out[c.pid] = (False, "", "", "", c.not_applicable_reason)
    return out


ALL = [f"C{n:02d}" for n in range(1, 21)]


def main():
    TABLE = table()
    checks, na = [], []
    for pid in ALL:
        row = TABLE.get(pid)
        if row and row[0]:
            checks.append({
                "property_id": pid,
                "quick_cmd": f"/venv/bin/python -m harness.vcheck {pid} --tier quick",
                "thorough_cmd": f"/venv/bin/python -m harness.vcheck {pid} --tier thorough",
                "evidence_file": f"evidence/{pid}.json",
                "replay_cmd_template": f"/venv/bin/python -m harness.vcheck {pid} --replay {{path}}",
                "engine": "lean-model+correspondence",
                "level_claimed": {"category": "proof", "text": row[2], "design_ref": row[3]},
                "level_note": LEVEL_NOTE,
                "technique": row[1],
            })
        else:
            na.append({"property_id": pid,
                       "reason": (row[4] if row and len(row) > 4 else
                                  "check not yet built in this revision (planned: Lean model + theorems + correspondence, see DESIGN.md section 4)")})
    man = {
        "version": 1,
        "setup_cmd": "/venv/bin/python -m harness.setup",
        "hooks": {
            "guard": "FAIRLEARN_VERIF",
            "enable": "no source hooks are needed; checks set FAIRLEARN_VERIF=1 for uniformity",
            "baseline_off_cmd": "cd /repo && env -u FAIRLEARN_VERIF /venv/bin/python -m pytest -ra -q -p no:cacheprovider --timeout=900 --continue-on-collection-errors",
            "source_commits": [],
            "add_only": True,
        },
        "engines": [{
            "name": "lean-model+correspondence", "path": "harness/vcheck.py",
            "serves_properties": [c["property_id"] for c in checks],
            "kind_free_text": "Lean 4 model + theorems (lean/FairModel), translator-generated tables, compiled line-protocol driver, "
                              "Python correspondence harness driving real fairlearn in-process",
        }],
        "checks": checks,
        "not_applicable": na,
        "notes": "See DESIGN.md. known_findings.json lists genuine defects (fixed and known).",
    }
    with open(os.path.join(VERIF, "MANIFEST.json"), "w") as f:
        json.dump(man, f, indent=1)
    print(f"claimed={len(checks)} not_applicable={len(na)}")


if __name__ == "__main__":
    main()
