"""Regenerates /verif/MANIFEST.json from the table below (run: /venv/bin/python -m harness.mkmanifest)."""
import json
import os

VERIF = os.path.dirname(os.path.dirname(os.path.abspath(__file__)))

LEVEL_NOTE = ("Trusted: Lean 4.33 kernel + axioms {propext, Classical.choice, Quot.sound} (audited per run with "
              "#audit_ns; no sorry/native_decide/own axioms); harness/translate.py for generated tables; the "
              "correspondence check (differential testing vs the compiled Lean driver on exactly representable inputs, "
              "tolerance stated in evidence); IEEE rounding, pandas/numpy/sklearn/scipy/torch internals are modelled by "
              "their specification, not verified.")

# pid -> (claimed?, technique, level text, design ref, reason if not claimed)
TABLE = {
    "C14": (True, "Lean 4 theorems over BaseMetrics model + driver correspondence",
            "Theorems (all inputs): rates in [0,1], TPR+FNR / TNR+FPR = 1 or both 0, pos_label swap, rejection rules, "
            "selection_rate/mean_prediction/count definitions. Tie: the 7 public functions vs the compiled Lean model "
            "on generated + exhaustive small inputs, incl. scalar-ness of results.", "4/C14"),
}
ALL = [f"C{n:02d}" for n in range(1, 21)]


def main():
    checks, na = [], []
    for pid in ALL:
        row = TABLE.get(pid)
        if row and row[0]:
            checks.append({
                "property_id": pid,
                "quick_cmd": f"/venv/bin/python -m harness.vcheck {pid} --tier quick",
                "thorough_cmd": f"/venv/bin/python -m harness.vcheck {pid} --tier thorough",
                "evidence_file": f"evidence/{pid}.json",
                "replay_cmd_template": f"/venv/bin/python -m harness.vcheck {pid} --replay {{path}}",
                "engine": "lean-model+correspondence",
                "level_claimed": {"category": "proof", "text": row[2], "design_ref": row[3]},
                "level_note": LEVEL_NOTE,
                "technique": row[1],
            })
        else:
            na.append({"property_id": pid,
                       "reason": (row[4] if row and len(row) > 4 else
                                  "check not yet built in this revision (planned: Lean model + theorems + correspondence, see DESIGN.md section 4)")})
    man = {
        "version": 1,
        "setup_cmd": "cd lean && lake build FairModel driver",
        "hooks": {
            "guard": "FAIRLEARN_VERIF",
            "enable": "no source hooks are needed; checks set FAIRLEARN_VERIF=1 for uniformity",
            "baseline_off_cmd": "cd /repo && env -u FAIRLEARN_VERIF /venv/bin/python -m pytest -ra -q -p no:cacheprovider --timeout=900 --continue-on-collection-errors",
            "source_commits": [],
            "add_only": True,
        },
        "engines": [{
            "name": "lean-model+correspondence", "path": "harness/vcheck.py",
            "serves_properties": [c["property_id"] for c in checks],
            "kind_free_text": "Lean 4 model + theorems (lean/FairModel), translator-generated tables, compiled line-protocol driver, "
                              "Python correspondence harness driving real fairlearn in-process",
        }],
        "checks": checks,
        "not_applicable": na,
        "notes": "See DESIGN.md. known_findings.json lists genuine defects (fixed and known).",
    }
    with open(os.path.join(VERIF, "MANIFEST.json"), "w") as f:
        json.dump(man, f, indent=1)
    print(f"claimed={len(checks)} not_applicable={len(na)}")


if __name__ == "__main__":
    main()
